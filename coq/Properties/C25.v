(* C25 - byte, digest and integer encodings are lossless and reject out-of-range input.
   Model: Sys/Encoding.v (tied to /repo by the correspondence run of harness/src/bin/encoding.rs);
   proofs: Sys/EncodingProofs.v.  Bytes are integers in [0,256); a field element is its raw inner
   u64 and [to_canonical] is to_canonical_u64; [p] is the Goldilocks modulus (a literal). *)
From V.Base Require Import Common.
From V.Generated Require Import Constants.
From V.Sys Require Import Encoding EncodingProofs.

(* ---- the literals of the property text, pinned against the constants regenerated from /repo *)
Lemma C25_pin_max_bytes : MAX_SERIALIZED_BYTES = 1048576. Proof. reflexivity. Qed.
Lemma C25_pin_max_felts : MAX_SERIALIZED_FELTS = 262145. Proof. reflexivity. Qed.
Lemma C25_pin_bytes_per_felt : BYTES_PER_FELT = 4. Proof. reflexivity. Qed.
Lemma C25_pin_felt_cap_formula :
  MAX_SERIALIZED_FELTS = (MAX_SERIALIZED_BYTES + BYTES_PER_FELT) / BYTES_PER_FELT.
Proof. reflexivity. Qed.
Lemma C25_pin_digest_len : DIGEST_BYTES_LEN = 32. Proof. reflexivity. Qed.
Lemma C25_pin_field_orders :
  INPUTS_GOLDILOCKS_ORDER = 18446744069414584321 /\ FIELD_ORDER = 18446744069414584321 /\
  POSEIDON_CORE_P = 18446744069414584321 /\ p = 18446744069414584321.
Proof. repeat split; reflexivity. Qed.
Lemma C25_pin_limb_mask : SER_BIT_32_LIMB_MASK = 4294967296 - 1 /\ two32 = 4294967296. Proof. split; reflexivity. Qed.
Lemma C25_pin_quantization : AMOUNT_QUANTIZATION_FACTOR = 10000000000. Proof. reflexivity. Qed.
Lemma C25_pin_limb_counts : FELTS_PER_U64 = 2 /\ FELTS_PER_U128 = 4 /\ POSEIDON2_OUTPUT = 4.
Proof. repeat split; reflexivity. Qed.

(* ---- edge encoding: 4 bytes per felt + terminator *)

(* decode (encode bs) = bs for every byte string up to the cap *)
Theorem C25_edge_roundtrip :
  forall bs, Forall (fun b => 0 <= b < 256) bs -> zlen bs <= 1048576 ->
    (fs <-? bytes_to_felts bs ;; felts_to_bytes fs) = Ok bs.
Proof. exact edge_roundtrip. Qed.

Theorem C25_edge_injective :
  forall a b fa fb, Forall (fun x => 0 <= x < 256) a -> Forall (fun x => 0 <= x < 256) b ->
    bytes_to_felts a = Ok fa -> bytes_to_felts b = Ok fb -> fa = fb -> a = b.
Proof. exact edge_injective. Qed.

(* encode rejects exactly the inputs longer than 2^20 bytes; what it accepts has len/4 + 1 <= 262145
   felts, which is the decoder's cap; the decoder rejects anything longer *)
Theorem C25_edge_cap :
  (forall bs, is_ok (bytes_to_felts bs) = false <-> 1048576 < zlen bs) /\
  (forall bs, zlen bs <= 1048576 ->
     bytes_to_felts bs = Ok (encode_raw bs) /\ zlen (encode_raw bs) = zlen bs / 4 + 1 /\
     zlen (encode_raw bs) <= 262145) /\
  (forall raw, 262145 < zlen raw -> felts_to_bytes raw = Err 1).
Proof. exact c25_edge_cap. Qed.

(* decoding never panics, and it accepts a felt vector exactly when the vector is within the cap and
   its canonical values are the encoding of a byte string - which is then the result *)
Theorem C25_decode_total :
  (forall raw, felts_to_bytes raw <> Err (-1)) /\
  (forall raw bs, Forall (fun v => 0 <= v) raw ->
     (felts_to_bytes raw = Ok bs <->
      (zlen raw <= 262145 /\ map to_canonical raw = encode_raw bs /\ Forall (fun b => 0 <= b < 256) bs))).
Proof. exact c25_decode_total. Qed.

(* ---- 32-byte digests *)

(* a digest (four little-endian 8-byte limbs) is accepted iff every limb is below p; every 32-byte
   string is of that form; other lengths are rejected; nothing panics *)
Theorem C25_digest_accept_iff :
  (forall l0 l1 l2 l3, 0 <= l0 < two64 -> 0 <= l1 < two64 -> 0 <= l2 < two64 -> 0 <= l3 < two64 ->
     (is_ok (bytes_digest_try_from (to_le 8 l0 ++ to_le 8 l1 ++ to_le 8 l2 ++ to_le 8 l3)) = true <->
      (l0 < p /\ l1 < p /\ l2 < p /\ l3 < p))) /\
  (forall bs, Forall (fun b => 0 <= b < 256) bs -> zlen bs = 32 ->
     exists l0 l1 l2 l3, 0 <= l0 < two64 /\ 0 <= l1 < two64 /\ 0 <= l2 < two64 /\ 0 <= l3 < two64 /\
                         bs = to_le 8 l0 ++ to_le 8 l1 ++ to_le 8 l2 ++ to_le 8 l3) /\
  (forall bs, zlen bs <> 32 -> bytes_digest_try_from bs = Err 1) /\
  (forall bs out, bytes_digest_try_from bs = Ok out -> out = bs) /\
  (forall bs, bytes_digest_try_from bs <> Err (-1)).
Proof. exact c25_digest_accept_iff. Qed.

(* accepted digests survive bytes -> felts -> bytes, no other 32-byte string does, and the bytes of
   any four field elements are an accepted digest that decodes to their canonical values *)
Theorem C25_digest_roundtrip :
  (forall bs out, Forall (fun b => 0 <= b < 256) bs -> bytes_digest_try_from bs = Ok out ->
     digest_to_bytes (bytes_to_digest bs) = bs) /\
  (forall bs, Forall (fun b => 0 <= b < 256) bs -> zlen bs = 32 ->
     digest_to_bytes (bytes_to_digest bs) = bs -> bytes_digest_try_from bs = Ok bs) /\
  (forall raw, length raw = 4%nat -> Forall (fun f => 0 <= f < two64) raw ->
     utils_digest_to_bytes raw = Ok (digest_to_bytes raw) /\
     bytes_to_digest (digest_to_bytes raw) = map to_canonical raw).
Proof. exact c25_digest_roundtrip. Qed.

(* ---- integer limb codecs: accepted iff every (canonical) limb is below 2^32; decode inverts encode
   and encode inverts decode; for a raw u64 the canonical value is below 2^32 iff raw < 2^32 or raw >= p *)
Theorem C25_limbs_accept_iff_and_inverse :
  (forall f0 f1, is_ok (try_felts_to_u64 [f0; f1]) = true <->
                 (to_canonical f0 < two32 /\ to_canonical f1 < two32)) /\
  (forall n, 0 <= n < two64 -> try_felts_to_u64 (u64_to_felts n) = Ok n) /\
  (forall f0 f1 n, 0 <= f0 -> 0 <= f1 -> try_felts_to_u64 [f0; f1] = Ok n ->
     0 <= n < two64 /\ u64_to_felts n = [to_canonical f0; to_canonical f1]) /\
  (forall f0 f1, try_felts_to_u64 [f0; f1] <> Err (-1)) /\
  (forall f0 f1 f2 f3, is_ok (try_felts_to_u128 [f0; f1; f2; f3]) = true <->
     (to_canonical f0 < two32 /\ to_canonical f1 < two32 /\ to_canonical f2 < two32 /\ to_canonical f3 < two32)) /\
  (forall n, 0 <= n < two64 * two64 -> try_felts_to_u128 (u128_to_felts n) = Ok n) /\
  (forall f0 f1 f2 f3 n, 0 <= f0 -> 0 <= f1 -> 0 <= f2 -> 0 <= f3 ->
     try_felts_to_u128 [f0; f1; f2; f3] = Ok n ->
     0 <= n < two64 * two64 /\
     u128_to_felts n = [to_canonical f0; to_canonical f1; to_canonical f2; to_canonical f3]) /\
  (forall f0 f1 f2 f3, try_felts_to_u128 [f0; f1; f2; f3] <> Err (-1)) /\
  (forall f, 0 <= f < two64 -> (to_canonical f < two32 <-> (f < two32 \/ p <= f))).
Proof. exact c25_limbs. Qed.

(* ---- quantised amounts: failure exactly when num / 10^10 exceeds u32::MAX, i.e. num >= 2^32 * 10^10;
   otherwise the felt is num / 10^10 and de-quantising returns num rounded down to a multiple of 10^10 *)
Theorem C25_quantize_fails_iff :
  (forall num, 0 <= num ->
     (is_ok (try_u128_to_quantized_felt num) = false <-> 4294967295 < num / 10000000000) /\
     (4294967295 < num / 10000000000 <-> 42949672960000000000 <= num)) /\
  (forall num q, 0 <= num -> try_u128_to_quantized_felt num = Ok q ->
     q = num / 10000000000 /\ 0 <= q < two32 /\
     try_felt_to_quantized_u128 q = Ok (num - num mod 10000000000)).
Proof. exact c25_quantize. Qed.

(* ---- non-vacuity: the hypotheses are met and both outcomes occur *)
Example C25_ex_roundtrip :
  bytes_to_felts [104; 101; 108; 108; 111] = Ok [1819043176; 367] /\
  felts_to_bytes [1819043176; 367] = Ok [104; 101; 108; 108; 111] /\
  bytes_to_felts [] = Ok [1] /\ felts_to_bytes [1] = Ok [] /\
  bytes_to_felts [1; 2; 3] <> bytes_to_felts [1; 2; 3; 0].
Proof. repeat split; try reflexivity. vm_compute. discriminate. Qed.
Example C25_ex_decode_rejects :
  felts_to_bytes [] = Err 2 /\ felts_to_bytes [4294967296; 1] = Err 3 /\ felts_to_bytes [305419896; 2] = Err 4 /\
  felts_to_bytes [18446744069414584322] = Ok [] (* raw p + 1 is the field element 1 *).
Proof. repeat split; reflexivity. Qed.
Example C25_ex_digest :
  is_ok (bytes_digest_try_from (to_le 8 (p - 1) ++ to_le 8 0 ++ to_le 8 1 ++ to_le 8 (p - 1))) = true /\
  bytes_digest_try_from (to_le 8 0 ++ to_le 8 p ++ to_le 8 0 ++ to_le 8 0) = Err 2 /\
  digest_to_bytes (bytes_to_digest (to_le 8 0 ++ to_le 8 p ++ to_le 8 0 ++ to_le 8 0)) = repeat 0 32.
Proof. repeat split; reflexivity. Qed.
Example C25_ex_limbs :
  try_felts_to_u64 [4294967295; 4294967295] = Ok 18446744073709551615 /\
  try_felts_to_u64 [4294967296; 0] = Err 5 /\
  try_felts_to_u64 [18446744069414584321 + 7; 0] = Ok 30064771072 /\
  u128_to_felts (two64 * two64 - 1) = [4294967295; 4294967295; 4294967295; 4294967295].
Proof. repeat split; reflexivity. Qed.
Example C25_ex_quantize :
  try_u128_to_quantized_felt 42949672959999999999 = Ok 4294967295 /\
  try_u128_to_quantized_felt 42949672960000000000 = Err 6.
Proof. split; reflexivity. Qed.
