(* C18 - Public-batch proofs are bound to the configured aggregator address.

   "Every proof the public-batch aggregator returns verifies under the pinned public-batch verifier and exposes the
    configured aggregator address.  The aggregator's verification rejects any proof whose exposed address differs,
    even if the proof is cryptographically valid, and any proof of the wrong length."

   Model: Sys/AddressBinding.v (after wormhole/aggregator/src/aggregator.rs: ProvingContext::verify, ::prove_batch),
   tied to the implementation by harness/src/bin/loaders.rs (mode c18): a real bins directory, real proofs under
   several addresses, tampered public inputs, wrong lengths.  Proofs: Sys/AddressBindingProofs.v.

   Vocabulary: a proof [pf : P] is abstract; [pis pf] are its public inputs as canonical u64 values, [verifies pf] the
   verdict of the pinned public-batch verifier (plonky2's verify under the canonical-pinned VerifierCircuitData; the
   proof system itself is not modelled).  [exposed_address pf] = the first PUBLIC_AGGREGATOR_ADDRESS_LEN = 4 public
   inputs.  A context holds the configured address (4 limbs below the field order: a BytesDigest) and the public-input
   count of the pinned verifier.  [produce] is ANY outcome of preflight + prover construction + commit + prove. *)
From V.Base Require Import Common.
From V.Generated Require Import Constants.
From V.Sys Require Import AddressBinding AddressBindingProofs.

Local Open Scope Z_scope.

Lemma C18_pin_address_len : PUBLIC_AGGREGATOR_ADDRESS_LEN = 4 /\ PU_AGGREGATOR_ADDRESS_LEN = 4. Proof. split; reflexivity. Qed.
Lemma C18_pin_address_start : PU_AGGREGATOR_ADDRESS_START = 0. Proof. reflexivity. Qed.
Lemma C18_pin_header_len : PU_HEADER_LEN = 12 /\ PUBLIC_HEADER_LEN = 12. Proof. split; reflexivity. Qed.
Lemma C18_spec_exposed_address P pis (pf : P) :
  exposed_address P pis pf = firstn 4 (pis pf).
Proof. reflexivity. Qed.

(* verification accepts exactly the proofs of the expected length that expose the configured address and verify *)
Theorem C18_verify_iff :
  forall (P : Type) (pis : P -> list Z) (verifies : P -> bool) (c : ctx) (pf : P),
    length (c_addr c) = 4%nat ->
    (verify P pis verifies c pf = Ok tt <->
     zlen (pis pf) = c_expected_len c /\ exposed_address P pis pf = c_addr c /\ verifies pf = true).
Proof. intros. apply verify_iff. assumption. Qed.

Theorem C18_verify_accepts_only_own_address :
  forall (P : Type) (pis : P -> list Z) (verifies : P -> bool) (c : ctx) (pf : P) (u : unit),
    verify P pis verifies c pf = Ok u ->
    zlen (pis pf) = c_expected_len c /\ exposed_address P pis pf = c_addr c /\ verifies pf = true.
Proof. intros. eapply verify_ok_inv. eassumption. Qed.

(* a different exposed address is rejected - with the address error, whatever the cryptographic verdict is *)
Theorem C18_other_address_rejected_even_if_valid :
  forall (P : Type) (pis : P -> list Z) (verifies : P -> bool) (c : ctx) (pf : P),
    4 <= c_expected_len c -> zlen (pis pf) = c_expected_len c ->
    exposed_address P pis pf <> c_addr c ->
    verify P pis verifies c pf = Err E_ADDR.
Proof. intros. apply verify_other_address; assumption. Qed.

Theorem C18_wrong_length_rejected :
  forall (P : Type) (pis : P -> list Z) (verifies : P -> bool) (c : ctx) (pf : P),
    zlen (pis pf) <> c_expected_len c -> verify P pis verifies c pf = Err E_LEN.
Proof. intros. apply verify_wrong_length. assumption. Qed.

(* the slice of the first four public inputs cannot go out of bounds (the header alone has 12 felts) *)
Theorem C18_verify_total :
  forall (P : Type) (pis : P -> list Z) (verifies : P -> bool) (c : ctx) (pf : P),
    4 <= c_expected_len c -> verify P pis verifies c pf <> Err PANIC.
Proof. intros. apply verify_no_panic. assumption. Qed.

(* whatever prove_batch returns passed the aggregator's own verification: it verifies under the pinned verifier and
   exposes the configured address *)
Theorem C18_prove_batch_returns_verified :
  forall (P : Type) (pis : P -> list Z) (verifies : P -> bool) (c : ctx) (produce : res P) (pf : P),
    prove_batch P pis verifies c produce = Ok pf ->
    produce = Ok pf /\
    verifies pf = true /\ exposed_address P pis pf = c_addr c /\ zlen (pis pf) = c_expected_len c.
Proof.
  intros P pis verifies c produce pf H. apply prove_batch_returns_verified in H. destruct H as [H1 H2].
  apply verify_ok_inv in H2. tauto.
Qed.

Theorem C18_prove_batch_iff :
  forall (P : Type) (pis : P -> list Z) (verifies : P -> bool) (c : ctx) (produce : res P) (pf : P),
    prove_batch P pis verifies c produce = Ok pf <-> produce = Ok pf /\ verify P pis verifies c pf = Ok tt.
Proof. intros. apply prove_batch_iff. Qed.

(* ---------------------------------------------------------------- non-vacuity *)
(* proofs = (public inputs, verdict) *)
Example C18_ex_accept :
  verify (list Z * bool) fst snd (mkCtx [1; 2; 3; 4] 14) ([1; 2; 3; 4; 0; 10; 5; 6; 7; 8; 9; 2; 0; 0], true) = Ok tt.
Proof. reflexivity. Qed.
Example C18_ex_valid_but_other_address :
  verify (list Z * bool) fst snd (mkCtx [1; 2; 3; 5] 14) ([1; 2; 3; 4; 0; 10; 5; 6; 7; 8; 9; 2; 0; 0], true) = Err E_ADDR.
Proof. reflexivity. Qed.
Example C18_ex_wrong_length :
  verify (list Z * bool) fst snd (mkCtx [1; 2; 3; 4] 14) ([1; 2; 3; 4; 0; 10; 5; 6; 7; 8; 9; 2; 0], true) = Err E_LEN.
Proof. reflexivity. Qed.
Example C18_ex_invalid :
  verify (list Z * bool) fst snd (mkCtx [1; 2; 3; 4] 14) ([1; 2; 3; 4; 0; 10; 5; 6; 7; 8; 9; 2; 0; 0], false) = Err E_VERIFY.
Proof. reflexivity. Qed.
Example C18_ex_prove_batch_withholds :
  prove_batch (list Z * bool) fst snd (mkCtx [1; 2; 3; 5] 14) (Ok ([1; 2; 3; 4; 0; 10; 5; 6; 7; 8; 9; 2; 0; 0], true)) = Err E_ADDR.
Proof. reflexivity. Qed.
