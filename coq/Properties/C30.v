(* C30 - the less-than gadget computes the integer comparison for every input.

   Model: V.Circ.Gadgets (line-by-line transcription of common/src/gadgets.rs: is_const_less_than,
   is_const_less_than_canonical_u64, u32_lt, split_canonical_u32_halves,
   enforce_target_less_than_const) over the circuit semantics of V.Circ.Core:
     [rel H c post]  - some assignment of ALL hint wires (equality hints, bit decompositions, low/high
                       pairs: arbitrary field elements) satisfies every constraint of [c] and the
                       output satisfies [post]   (adversarial prover);
     [hon H c]       - what the honest witness generators produce ([None] = the honest witness violates
                       a constraint).
   [c] is the builder-time constant [left], [x] the canonical value of the target [right], [w] = n_log.
   The builder-time assertions of gadgets.rs (0 < n_log <= 64, left < 2^n_log, bound > 0) are the
   hypotheses on [w], [c], [ub].  All proofs are in V.Circ.GadgetsProofs. *)
From V.Base Require Import Common.
From V.Generated Require Import Constants.
From V.Circ Require Import Field Core Prims Gadgets GadgetsProofs.

Lemma C30_pin_p : p = FIELD_ORDER. Proof. reflexivity. Qed.
Lemma C30_pin_two32 : two32 = 2 ^ 32 /\ two64 = 2 ^ 64 /\ p = two64 - two32 + 1. Proof. split; [reflexivity|split; reflexivity]. Qed.

(* widths 1..63: satisfiable iff x < 2^w, and then the output is exactly (c < x) *)
Theorem C30_lt_narrow :
  forall (H : list Z -> list Z) (w : nat) (c x : Z) (post : Z -> Prop),
    (1 <= w <= 63)%nat -> 0 <= c < 2 ^ Z.of_nat w -> canon x ->
    (rel H (is_const_less_than c x w) post <-> x < 2 ^ Z.of_nat w /\ post (b2z (c <? x))).
Proof. exact rel_is_const_less_than_narrow. Qed.

(* width 64: always satisfiable, output is the integer comparison - the x + p alias cannot flip it *)
Theorem C30_lt_64 :
  forall (H : list Z -> list Z) (c x : Z) (post : Z -> Prop),
    0 <= c < two64 -> canon x ->
    (rel H (is_const_less_than c x 64) post <-> post (b2z (c <? x))).
Proof. exact rel_is_const_less_than_64. Qed.

(* the bounded-target check accepts exactly the values below its bound, every width 1..64
   (for w = 64 the hypothesis reads ub - 1 < 2^64) *)
Theorem C30_enforce_lt :
  forall (H : list Z -> list Z) (w : nat) (ub x : Z) (post : unit -> Prop),
    (1 <= w <= 64)%nat -> 0 < ub -> ub - 1 < 2 ^ Z.of_nat w -> canon x ->
    (rel H (enforce_target_less_than_const x ub w) post <-> x < ub /\ post tt).
Proof. exact rel_enforce_target_less_than_const. Qed.

(* honest witness generation: same outputs, fails exactly where no witness exists *)
Theorem C30_hon_lt_narrow :
  forall (H : list Z -> list Z) (w : nat) (c x : Z),
    (1 <= w <= 63)%nat -> 0 <= c < 2 ^ Z.of_nat w -> canon x ->
    hon H (is_const_less_than c x w) = if x <? 2 ^ Z.of_nat w then Some (b2z (c <? x)) else None.
Proof. exact hon_is_const_less_than_narrow. Qed.

Theorem C30_hon_lt_64 :
  forall (H : list Z -> list Z) (c x : Z),
    0 <= c < two64 -> canon x ->
    hon H (is_const_less_than c x 64) = Some (b2z (c <? x)).
Proof. exact hon_is_const_less_than_64. Qed.

Theorem C30_hon_enforce_lt :
  forall (H : list Z -> list Z) (w : nat) (ub x : Z),
    (1 <= w <= 64)%nat -> 0 < ub -> ub - 1 < 2 ^ Z.of_nat w -> canon x ->
    hon H (enforce_target_less_than_const x ub w) = if x <? ub then Some tt else None.
Proof. exact hon_enforce_target_less_than_const. Qed.

(* the ingredients *)
Theorem C30_bit_comparator :
  forall a_bits b_bits : list Z, length a_bits = length b_bits ->
    Forall bitZ a_bits -> Forall bitZ b_bits ->
    lt_loop (rev (combine a_bits b_bits)) 0 1 = b2z (bsum a_bits <? bsum b_bits).
Proof. exact lt_loop_spec. Qed.

Theorem C30_split_canonical :
  forall (H : list Z -> list Z) (x : Z) (post : Z * Z -> Prop), canon x ->
    (rel H (split_canonical_u32_halves x) post <-> post (x mod two32, x / two32)).
Proof. exact rel_split_canonical. Qed.

Theorem C30_u32_lt :
  forall (H : list Z -> list Z) (x y : Z) (post : Z -> Prop),
    0 <= x < two32 -> 0 <= y < two32 ->
    (rel H (u32_lt x y) post <-> post (b2z (x <? y))).
Proof. exact rel_u32_lt. Qed.

(* why the canonical split is needed: the raw split_low_high(x, 32, 64) has exactly two solutions
   for x < 2^32 - 1 (the second one is the 64-bit integer x + p) and one otherwise *)
Theorem C30_raw_split_two_solutions :
  forall (H : list Z -> list Z) (x : Z) (post : Z * Z -> Prop), canon x ->
    (rel H (split_low_high x 32 64) post <->
     (post (x mod two32, x / two32) \/
      (x < two32 - 1 /\ post ((x + p) mod two32, (x + p) / two32)))).
Proof. exact rel_split_low_high_64. Qed.

(* ---------------- non-vacuity ---------------- *)
Definition H0 : list Z -> list Z := fun _ => [0; 0; 0; 0].

(* (w, c, x) = (5, 16, 17): satisfiable with output 1, for every hash function *)
Example C30_nv_5_16_17 : forall H, rel H (is_const_less_than 16 17 5) (fun o => o = 1).
Proof. intros H. apply rel_is_const_less_than_narrow; [lia|lia|unfold canon, p; lia|]. split; [lia|reflexivity]. Qed.
Example C30_nv_5_16_17_not_0 : forall H, ~ rel H (is_const_less_than 16 17 5) (fun o => o = 0).
Proof.
  intros H R. apply rel_is_const_less_than_narrow in R; [|lia|lia|unfold canon, p; lia].
  destruct R as [_ R]. discriminate R.
Qed.
(* out of range for the width: unsatisfiable *)
Example C30_nv_5_3_40_unsat : forall H post, ~ rel H (is_const_less_than 3 40 5) post.
Proof.
  intros H post R. apply rel_is_const_less_than_narrow in R; [|lia|lia|unfold canon, p; lia].
  destruct R as [R _]. cbn in R. lia.
Qed.
(* width 64, x = 0: "0 < 0" cannot be proved (the attack of gadgets.rs's alias test) *)
Example C30_nv_64_zero_alias : forall H, ~ rel H (is_const_less_than 0 0 64) (fun o => o = 1).
Proof.
  intros H R. apply rel_is_const_less_than_64 in R; [|unfold two64; lia|unfold canon, p; lia]. discriminate R.
Qed.
(* ... although the raw split does accept the alias (1, 2^32 - 1) of 0 *)
Example C30_nv_raw_alias : forall H, rel H (split_low_high 0 32 64) (fun lh => lh = (1, two32 - 1)).
Proof. intros H. apply (split_low_high_64_alias_sat H 0). unfold two32; lia. Qed.

Example C30_nv_hon_5_16_17 : hon H0 (is_const_less_than 16 17 5) = Some 1. Proof. vm_compute. reflexivity. Qed.
Example C30_nv_hon_5_17_16 : hon H0 (is_const_less_than 17 16 5) = Some 0. Proof. vm_compute. reflexivity. Qed.
Example C30_nv_hon_5_3_40 : hon H0 (is_const_less_than 3 40 5) = None. Proof. vm_compute. reflexivity. Qed.
Example C30_nv_hon_1_0_0 : hon H0 (is_const_less_than 0 0 1) = Some 0. Proof. vm_compute. reflexivity. Qed.
Example C30_nv_hon_1_0_1 : hon H0 (is_const_less_than 0 1 1) = Some 1. Proof. vm_compute. reflexivity. Qed.
Example C30_nv_hon_63 : hon H0 (is_const_less_than (2 ^ 63 - 1) (2 ^ 63) 63) = None. Proof. vm_compute. reflexivity. Qed.
Example C30_nv_hon_64_0_0 : hon H0 (is_const_less_than 0 0 64) = Some 0. Proof. vm_compute. reflexivity. Qed.
Example C30_nv_hon_64_0_1 : hon H0 (is_const_less_than 0 1 64) = Some 1. Proof. vm_compute. reflexivity. Qed.
Example C30_nv_hon_64_0_pm1 : hon H0 (is_const_less_than 0 (p - 1) 64) = Some 1. Proof. vm_compute. reflexivity. Qed.
Example C30_nv_hon_64_pm2_pm1 : hon H0 (is_const_less_than (p - 2) (p - 1) 64) = Some 1. Proof. vm_compute. reflexivity. Qed.
Example C30_nv_hon_64_pm1_pm1 : hon H0 (is_const_less_than (p - 1) (p - 1) 64) = Some 0. Proof. vm_compute. reflexivity. Qed.
Example C30_nv_hon_64_max_pm1 : hon H0 (is_const_less_than (two64 - 1) (p - 1) 64) = Some 0. Proof. vm_compute. reflexivity. Qed.
Example C30_nv_hon_64_lo_hi : hon H0 (is_const_less_than (two32 - 1) two32 64) = Some 1. Proof. vm_compute. reflexivity. Qed.
Example C30_nv_hon_enforce_ok : hon H0 (enforce_target_less_than_const 16 17 5) = Some tt. Proof. vm_compute. reflexivity. Qed.
Example C30_nv_hon_enforce_eq : hon H0 (enforce_target_less_than_const 17 17 5) = None. Proof. vm_compute. reflexivity. Qed.
Example C30_nv_hon_enforce_64 : hon H0 (enforce_target_less_than_const (p - 1) p 64) = Some tt. Proof. vm_compute. reflexivity. Qed.
Example C30_nv_enforce : forall H, rel H (enforce_target_less_than_const 16 17 5) (fun _ => True).
Proof.
  intros H. apply rel_enforce_target_less_than_const; [lia|lia|cbn; lia|unfold canon, p; lia|]. split; [lia|exact I].
Qed.
