(* C22 - The admission verification budget bounds verification work.
   Model: Sys/Pool.v ([o_verified]: the step called the verifier; [o_restarted]: the step restarted
   the window); proofs: Sys/PoolProofs.v. *)
From V.Base Require Import Common.
From V.Generated Require Import Constants.
From V.Sys Require Import Pool PoolProofs.

(* in any stretch of any history that contains no window restart, the verifier calls (failed ones
   included: [o_verified] is set before the verdict is looked at) plus the attempts already counted do
   not exceed the budget; and the counter is exact *)
Theorem C22_budget : forall cfg st ops,
  0 <= c_budget cfg -> 0 <= s_verifs st <= c_budget cfg ->
  Forall (fun o => o_restarted o = false) (snd (run cfg st ops)) ->
  s_verifs st + verify_calls (snd (run cfg st ops)) <= c_budget cfg
  /\ s_verifs (fst (run cfg st ops)) = s_verifs st + verify_calls (snd (run cfg st ops)).
Proof. exact budget_stmt. Qed.

(* a whole window - the step that restarts it, then any history up to the next restart - sees at most
   [budget] verifier calls *)
Theorem C22_budget_window : forall cfg st o ops,
  0 <= c_budget cfg -> 0 <= s_verifs st <= c_budget cfg ->
  o_restarted (snd (step cfg st o)) = true ->
  Forall (fun x => o_restarted x = false) (snd (run cfg (fst (step cfg st o)) ops)) ->
  verify_calls (snd (step cfg st o) :: snd (run cfg (fst (step cfg st o)) ops)) <= c_budget cfg.
Proof. exact budget_window. Qed.

(* the counter never leaves [0, budget] in any history from a fresh pool *)
Theorem C22_counter_bounded : forall cfg t0 ops,
  0 <= c_budget cfg -> 0 <= s_verifs (fst (run cfg (init t0) ops)) <= c_budget cfg.
Proof. exact counter_bounded_stmt. Qed.

(* the window restarts only in a push, only once a full window has elapsed since its start, and then
   starts now; without a restart the start is kept and the counter grows by exactly the verifier calls *)
Theorem C22_window_restart : forall cfg st o,
  0 < c_window cfg ->
  (o_restarted (snd (step cfg st o)) = true ->
     (exists pr, o = Push pr) /\ s_now st - s_win_start st >= c_window cfg
     /\ s_win_start (fst (step cfg st o)) = s_now st)
  /\ (o_restarted (snd (step cfg st o)) = false ->
     s_win_start (fst (step cfg st o)) = s_win_start st
     /\ s_verifs (fst (step cfg st o)) = s_verifs st + b2z (o_verified (snd (step cfg st o)))).
Proof. exact window_restart. Qed.

(* an exhausted budget rejects further pushes without verifying (and without touching the pool) *)
Theorem C22_exhausted_no_verify : forall cfg st pr,
  c_budget cfg <= window_verifs cfg st ->
  o_verified (snd (step cfg st (Push pr))) = false
  /\ (exists c, o_ret (snd (step cfg st (Push pr))) = RPush (Err c))
  /\ s_buckets (fst (step cfg st (Push pr))) = s_buckets st
  /\ s_index (fst (step cfg st (Push pr))) = s_index st.
Proof. exact exhausted_no_verify. Qed.

(* conversely the verifier is called whenever budget is left (pool not full, well-formed, not dummy), so
   the bound of C22_budget is attained *)
Theorem C22_budget_left_verifies : forall cfg st pr k nulls vol,
  total_len (s_buckets st) < c_max_proofs cfg -> parse_metadata cfg pr = Ok (k, nulls, vol) -> is_dummy k = false ->
  window_verifs cfg st < c_budget cfg -> o_verified (snd (step cfg st (Push pr))) = true.
Proof. exact budget_left_verifies. Qed.

(* ---- non-vacuity: budget 2, window 100; failed attempts count; the boundary is [>=] *)
Definition ex_pis (null0 : Z) : list Z :=
  [2; 0; 10; 1; 0; 0; 0; 77; 100; 0; 0; 0; 0; 50; 0; 0; 0; 0; null0; 0; 0; 0] ++ repeat 0 7.
Definition ex_cfg : config := mkConfig 9 9 2 2 100 1 29.
Definition ex_history : list op :=
  [ Push (mkProof (ex_pis 11) false); Push (mkProof (ex_pis 11) true); Push (mkProof (ex_pis 12) true);
    Advance 99; Push (mkProof (ex_pis 12) true);      (* 99 ns into the window: still exhausted *)
    Advance 1; Push (mkProof (ex_pis 12) true);       (* exactly 100 ns: restart *)
    Push (mkProof (ex_pis 13) false); Push (mkProof (ex_pis 13) true) ].
Example C22_example :
  map (fun o => (o_verified o, o_restarted o)) (snd (run ex_cfg (init 0) ex_history))
  = [ (true, false); (true, false); (false, false); (false, false); (false, false); (false, false);
      (true, true); (true, false); (false, false) ]
  /\ map o_ret (snd (run ex_cfg (init 0) ex_history))
  = [ RPush (Err E_VERIFY); RPush (Ok [1; 0; 0; 0; 0; 10]); RPush (Err E_BUDGET); RUnit; RPush (Err E_BUDGET); RUnit;
      RPush (Ok [1; 0; 0; 0; 0; 10]); RPush (Err E_VERIFY); RPush (Err E_BUDGET) ].
Proof. vm_compute. split; reflexivity. Qed.

(* Observation (fixed-window counter, as documented in pool.rs): the bound is per window of the pool, not
   per sliding interval - 2 x budget verifier calls can fall within 1 ns of real time around a restart. *)
Example C22_example_two_budgets_across_a_restart :
  let h := [ Advance 99; Push (mkProof (ex_pis 11) false); Push (mkProof (ex_pis 11) false);
             Advance 1; Push (mkProof (ex_pis 11) false); Push (mkProof (ex_pis 11) false) ] in
  verify_calls (snd (run ex_cfg (init 0) h)) = 2 * c_budget ex_cfg
  /\ map o_restarted (snd (run ex_cfg (init 0) h)) = [false; false; false; false; true; false].
Proof. vm_compute. split; reflexivity. Qed.
