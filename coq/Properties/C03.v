(* C03 - For every satisfiable non-dummy leaf statement, the public block hash is the Poseidon2 hash of
   a header preimage in the fixed order (parent, number, state root, extrinsics root, tree root,
   digest).  That header's tree root is reached from H(recipient || count || asset || input) by at most
   16 levels of 4-ary hashing with the running hash inserted at a position in 0..3.  The public block
   number is the number inside that preimage.

   [insert_at pos cur sibs] = the three siblings with [cur] inserted at index [pos];
   [fold_insert H cur levels] iterates cur := H (concat (insert_at pos cur sibs)) over the levels.
   Model, semantics and hypotheses: see C01.v.  Proofs: V.Circ.LeafProofs. *)
From V.Base Require Import Common.
From V.Generated Require Import Constants.
From V.Circ Require Import Field Core Prims Gadgets Leaf LeafProofs.

Lemma C03_pin_max_depth : MERKLE_MAX_DEPTH = 16. Proof. reflexivity. Qed.
Lemma C03_pin_arity : MERKLE_ARITY = 4 /\ MERKLE_SIBLINGS_PER_LEVEL = 3. Proof. split; reflexivity. Qed.
(* n_log = usize::BITS - MAX_DEPTH.leading_zeros() *)
Lemma C03_pin_n_log : Z.of_nat n_log_depth = Z.log2 MERKLE_MAX_DEPTH + 1. Proof. reflexivity. Qed.

Theorem C03_block_and_path :
  forall (H : list Z -> list Z) (i : LeafIn) (post : list Z -> Prop),
    hash_wf H -> wf_in i -> rel H (leaf_circuit i) post -> is_dummy_stmt i = false ->
    li_block_hash i = H (header_preimage i) /\
    li_depth i <= 16 /\ Forall (fun q => 0 <= q < 4) (li_positions i) /\
    li_tree_root i =
      fold_insert H (H (li_to_account i ++ li_leaf_tc i ++ [li_asset i; li_input_amount i]))
                  (firstn (Z.to_nat (li_depth i)) (combine (li_siblings i) (li_positions i))).
Proof. intros H i post Hwf W. exact (block_and_path H Hwf i W post). Qed.

(* the preimage: fixed order, with the PUBLIC block number and the tree root of the path *)
Theorem C03_preimage_order :
  forall i : LeafIn,
    header_preimage i = li_parent_hash i ++ [li_block_number i] ++ li_state_root i ++ li_extrinsics_root i
                        ++ li_tree_root i ++ li_digest i.
Proof. exact preimage_order. Qed.

Theorem C03_insert_positions :
  forall c s0 s1 s2 : list Z,
    insert_at 0 c [s0; s1; s2] = [c; s0; s1; s2] /\ insert_at 1 c [s0; s1; s2] = [s0; c; s1; s2] /\
    insert_at 2 c [s0; s1; s2] = [s0; s1; c; s2] /\ insert_at 3 c [s0; s1; s2] = [s0; s1; s2; c].
Proof. intros. repeat split. Qed.

Theorem C03_depth_and_positions_unconditional :
  forall (H : list Z -> list Z) (i : LeafIn) (post : list Z -> Prop),
    hash_wf H -> wf_in i -> rel H (leaf_circuit i) post ->
    li_depth i <= 16 /\ Forall (fun q => 0 <= q < 4) (li_positions i).
Proof. intros H i post Hwf W. exact (depth_and_positions_unconditional H Hwf i W post). Qed.

(* ---------------- non-vacuity ---------------- *)
Example C03_nv_wf : wf_in ex_real. Proof. apply wf_inb_sound. vm_compute. reflexivity. Qed.
Example C03_nv_not_dummy : is_dummy_stmt ex_real = false /\ li_depth ex_real = 1. Proof. vm_compute. split; reflexivity. Qed.
Example C03_nv_accepted : hon H0 (leaf_circuit ex_real) = Some (leaf_public_inputs ex_real).
Proof. vm_compute. reflexivity. Qed.
Example C03_nv_rel : rel H0 (leaf_circuit ex_real) (fun o => o = leaf_public_inputs ex_real).
Proof. exact (leaf_sat H0 ex_real C03_nv_wf C03_nv_accepted). Qed.
Example C03_nv_depth0_accepted :
  hon H0 (leaf_circuit ex_real_depth0) = Some (leaf_public_inputs ex_real_depth0).
Proof. vm_compute. reflexivity. Qed.
(* header tree root unrelated to the path / depth 17: no witness at all *)
Example C03_nv_wrong_tree_root : forall post, ~ rel H0 (leaf_circuit ex_bad_tree_root) post.
Proof. apply leaf_unsat; [apply wf_inb_sound|]; vm_compute; reflexivity. Qed.
Example C03_nv_depth_17 : forall post, ~ rel H0 (leaf_circuit ex_bad_depth) post.
Proof. apply leaf_unsat; [apply wf_inb_sound|]; vm_compute; reflexivity. Qed.
