(* C28 - The circuit-config policy is enforced exactly and before any build.
   Model: Sys/ConfigPolicy.v (validate_circuit_config, the six constructors' config gate, the memprof CLI
   AggConfigArgs::{validate, build}); proofs: Sys/ConfigPolicyProofs.v.  usize = 64 bit. *)
From V.Base Require Import Common.
From V.Generated Require Import Constants.
From V.Sys Require Import ConfigPolicy ConfigPolicyProofs.

(* ---- the literals of the property text are the Rust constants *)
Lemma C28_pin_min_num_wires : MIN_NUM_WIRES = 135. Proof. reflexivity. Qed.
Lemma C28_pin_min_num_routed_wires : MIN_NUM_ROUTED_WIRES = 37. Proof. reflexivity. Qed.
Lemma C28_pin_min_max_quotient_degree_factor : MIN_MAX_QUOTIENT_DEGREE_FACTOR = 7. Proof. reflexivity. Qed.
Lemma C28_pin_max_rate_bits : MAX_RATE_BITS = 8. Proof. reflexivity. Qed.
Lemma C28_pin_max_cap_height : MAX_CAP_HEIGHT = 8. Proof. reflexivity. Qed.

(* ---- the canonical configs of the repository, field by field
   (num_wires, num_routed_wires, security_bits, num_challenges, zero_knowledge, max_quotient_degree_factor,
    rate_bits, cap_height, num_query_rounds) *)
Lemma C28_pin_standard_recursion_config :
  enc_config cfg_std = [143; 80; 100; 2; 0; 8; 3; 4; 28]. Proof. reflexivity. Qed.
Lemma C28_pin_standard_recursion_zk_config :
  enc_config cfg_stdzk = [143; 80; 100; 2; 1; 8; 3; 4; 28]. Proof. reflexivity. Qed.
Lemma C28_pin_wormhole_leaf_circuit_config :
  enc_config cfg_leaf = [143; 80; 100; 2; 0; 8; 3; 4; 28]. Proof. reflexivity. Qed.
Lemma C28_pin_wormhole_private_batch_circuit_config :
  enc_config cfg_private_batch = [135; 60; 100; 2; 1; 8; 3; 4; 28]. Proof. reflexivity. Qed.
Lemma C28_pin_wormhole_public_batch_circuit_config :
  enc_config cfg_public_batch = [143; 80; 100; 2; 0; 8; 3; 4; 28]. Proof. reflexivity. Qed.

(* ---- sentence 1: the structural check accepts exactly ... (for every config with usize fields) *)
Theorem C28_policy_exact : forall c : Config,
  usize_config c ->
  (validate_circuit_config c = Ok tt <->
   0 < c_num_challenges c /\ 0 < c_security_bits c /\ 0 < c_num_query_rounds c /\
   135 <= c_num_wires c /\
   37 <= c_num_routed_wires c /\ c_num_routed_wires c <= c_num_wires c /\
   7 <= c_max_quotient_degree_factor c /\
   c_rate_bits c <= 8 /\ c_cap_height c <= 8 /\
   Z.log2_up (c_max_quotient_degree_factor c) <= c_rate_bits c).
Proof. exact validate_exact. Qed.

(* the machine computation (64 - leading_zeros(n - 1), n - 1 wrapping) is the ceiling of log2 on n >= 1:
   log2_ceil n <= k <-> n <= 2^k *)
Theorem C28_log2_ceil_is_ceiling : forall n k : Z,
  1 <= n < two64 -> 0 <= k -> (log2_ceil n <= k <-> n <= 2 ^ k).
Proof. exact log2_ceil_le_iff. Qed.

(* whatever is not accepted is an error of one of the ten checks; with overflow checks compiled in the
   result is the same and never a panic (the wrapping subtraction is only reached with factor >= 7) *)
Theorem C28_policy_total : forall c : Config,
  validate_circuit_config c = Ok tt \/ exists code, validate_circuit_config c = Err code /\ 1 <= code <= 10.
Proof. exact validate_total. Qed.

Theorem C28_policy_no_panic : forall c : Config,
  usize_config c ->
  validate_circuit_config_checked c = validate_circuit_config c /\ validate_circuit_config_checked c <> Err PANIC.
Proof. exact validate_checked_same_and_no_panic. Qed.

(* ---- sentence 2: every constructor (which = 0..5: WormholeCircuit::new, WormholeProver::new,
   PrivateBatchCircuit::new, PrivateBatchProver::new, PublicBatchCircuit::new, PublicBatchProver::new)
   turns a failing config into an error that is not a panic; it accepts only policy-passing configs *)
Theorem C28_constructors_reject : forall (which : Z) (c : Config),
  validate_circuit_config c <> Ok tt ->
  exists code, constructor_result which c = Err code /\ code <> PANIC.
Proof. exact constructor_rejects. Qed.

Theorem C28_constructors_accept_only_policy : forall (which : Z) (c : Config),
  constructor_result which c = Ok tt <-> validate_circuit_config c = Ok tt.
Proof. exact constructor_accepts_only_policy. Qed.

(* ---- sentence 3: the CLI accepts a flag set only if the built config passes the same check
   (all 2 * 3 * 2^8 present/absent combinations, all usize values) *)
Theorem C28_cli_implies_policy : forall a : Args,
  usize_args a -> cli_validate a = Ok tt -> validate_circuit_config (cli_build a) = Ok tt.
Proof. exact cli_implies_policy. Qed.

Theorem C28_canonical_configs_pass :
  Forall (fun c => validate_circuit_config c = Ok tt)
         [cfg_std; cfg_stdzk; cfg_leaf; cfg_private_batch; cfg_public_batch].
Proof. exact canonical_configs_pass. Qed.

(* ---- non-vacuity *)
Example C28_nv_accepting_config : validate_circuit_config (mkConfig 135 37 1 1 false 7 3 0 1) = Ok tt.
Proof. reflexivity. Qed.
Example C28_nv_each_threshold_rejects :
  map (fun c => is_ok (validate_circuit_config c))
    [mkConfig 134 37 1 1 false 7 3 0 1; mkConfig 135 36 1 1 false 7 3 0 1; mkConfig 135 136 1 1 false 7 3 0 1;
     mkConfig 135 37 0 1 false 7 3 0 1; mkConfig 135 37 1 0 false 7 3 0 1; mkConfig 135 37 1 1 false 6 3 0 1;
     mkConfig 135 37 1 1 false 7 9 0 1; mkConfig 135 37 1 1 false 7 3 9 1; mkConfig 135 37 1 1 false 7 3 0 0;
     mkConfig 135 37 1 1 false 9 3 0 1; mkConfig 135 37 1 1 false 8 2 0 1; mkConfig 135 37 1 1 false 257 8 0 1;
     mkConfig 135 37 1 1 false 256 8 8 1]
  = [false; false; false; false; false; false; false; false; false; false; false; false; true].
Proof. reflexivity. Qed.
Example C28_nv_cli_accepts :
  cli_validate (mkArgs (Some true) (Some 4) (Some 8) (Some 140) (Some 140) (Some 16) None None None false) = Ok tt
  /\ cli_validate (mkArgs (Some false) (Some 3) None None None None (Some 1) (Some 1) (Some 1) true) = Ok tt
  /\ cli_validate args_none = Ok tt.
Proof. repeat split. Qed.
(* the implication of sentence 3 is strict: the CLI additionally gates the security knobs *)
Example C28_nv_cli_strictly_stronger :
  cli_validate args_security_90 <> Ok tt /\ validate_circuit_config (cli_build args_security_90) = Ok tt.
Proof. exact cli_stricter_than_policy. Qed.
