(* C32 - Debug output never reveals secret or deposit-identifying data.

   Model: Sys/DebugRender.v - for every secret-bearing type a record with ALL fields of the Rust struct (the
   private ones included) and `debug_<type>`, a line-by-line transcription of its `Debug::fmt`; the two
   renderers reproduce core::fmt's DebugStruct / DebugList / PadAdapter for `{:?}` and `{:#?}`.
   Lemmas: Sys/DebugRenderProofs.v.

   What is stated here is NON-INTERFERENCE: two values of a type that agree on the fields listed in the
   hypotheses (the public ones) have the same `{:?}` and the same `{:#?}` rendering, whatever their secret,
   deposit account, transfer count, input amount, digest logs, Merkle siblings and positions are.  Hence the
   output is a function of the public fields alone and cannot contain - in decimal, hex or any other form -
   information about the private ones.
       same_rendering d1 d2  :=  render_compact d1 = render_compact d2 /\ render_pretty d1 = render_pretty d2.

   HONESTY NOTE.  These theorems hold by construction of the model (debug_<type> does not mention the private
   projections); they say that the transcription has the redaction shape, they do not by themselves say
   anything about the Rust code.  The assurance about the code comes from the correspondence run
   (harness/src/bin/redact.rs): the real `format!("{:?}")` / `format!("{:#?}")` strings equal the model's
   strings byte for byte on random and structured values, twins differing only in private fields render
   identically, and no decimal / hex / byte-list / felt rendering of a private value occurs in any output. *)
From Coq Require Import String.
From V.Base Require Import Common.
From V.Generated Require Import Constants.
From V.Sys Require Import DebugRender DebugRenderProofs.

Local Open Scope Z_scope.

(* ---------------------------------------------------------------- constants of the model, pinned to /repo *)
Lemma C32_pin_digest_logs_size : DIGEST_LOGS_SIZE = 110. Proof. reflexivity. Qed.
Lemma C32_pin_digest_logs_felts : DIGEST_LOGS_FELTS = 28. Proof. reflexivity. Qed.
Lemma C32_pin_digest_bytes_len : DIGEST_BYTES_LEN = 32. Proof. reflexivity. Qed.
Lemma C32_pin_poseidon2_output : POSEIDON2_OUTPUT = 4. Proof. reflexivity. Qed.
Lemma C32_pin_felts_per_u64 : FELTS_PER_U64 = 2. Proof. reflexivity. Qed.
Lemma C32_pin_siblings_per_level : MERKLE_SIBLINGS_PER_LEVEL = 3. Proof. reflexivity. Qed.
Lemma C32_pin_field_order : FIELD_ORDER = p. Proof. reflexivity. Qed.

(* ---------------------------------------------------------------- non-interference, type by type *)

(* private inputs: only the header fields and the tree root are shown *)
Theorem C32_noninterference_PrivateCircuitInputs : forall a b : PrivateCircuitInputs,
  pi_parent_hash a = pi_parent_hash b -> pi_state_root a = pi_state_root b ->
  pi_extrinsics_root a = pi_extrinsics_root b -> pi_zk_tree_root a = pi_zk_tree_root b ->
  same_rendering (debug_PrivateCircuitInputs a) (debug_PrivateCircuitInputs b).
Proof. exact ni_PrivateCircuitInputs. Qed.

(* the same with the record spelled out: every private component is quantified independently on both sides *)
Theorem C32_noninterference_PrivateCircuitInputs_explicit :
  forall parent_hash state_root extrinsics_root zk_tree_root : list Z,
  forall (secret secret' : list Z) (transfer_count transfer_count' : Z) (unspendable_account unspendable_account' : list Z)
         (digest digest' : list Z) (input_amount input_amount' : Z)
         (siblings siblings' : list (list (list Z))) (positions positions' : list Z),
  same_rendering
    (debug_PrivateCircuitInputs
       (mkPrivateCircuitInputs secret transfer_count unspendable_account parent_hash state_root extrinsics_root
          digest input_amount zk_tree_root siblings positions))
    (debug_PrivateCircuitInputs
       (mkPrivateCircuitInputs secret' transfer_count' unspendable_account' parent_hash state_root extrinsics_root
          digest' input_amount' zk_tree_root siblings' positions')).
Proof. exact ni_PrivateCircuitInputs_explicit. Qed.

(* the whole input bundle: all of `public` is shown, of `private` the four fields above *)
Theorem C32_noninterference_CircuitInputs : forall a b : CircuitInputs,
  ci_public a = ci_public b ->
  pi_parent_hash (ci_private a) = pi_parent_hash (ci_private b) ->
  pi_state_root (ci_private a) = pi_state_root (ci_private b) ->
  pi_extrinsics_root (ci_private a) = pi_extrinsics_root (ci_private b) ->
  pi_zk_tree_root (ci_private a) = pi_zk_tree_root (ci_private b) ->
  same_rendering (debug_CircuitInputs a) (debug_CircuitInputs b).
Proof. exact ni_CircuitInputs. Qed.

(* nullifier: only the (public) hash *)
Theorem C32_noninterference_Nullifier : forall a b : Nullifier,
  nf_hash a = nf_hash b -> same_rendering (debug_Nullifier a) (debug_Nullifier b).
Proof. exact ni_Nullifier. Qed.

(* unspendable account: nothing at all *)
Theorem C32_noninterference_UnspendableAccount : forall a b : UnspendableAccount,
  same_rendering (debug_UnspendableAccount a) (debug_UnspendableAccount b).
Proof. exact ni_UnspendableAccount. Qed.

(* leaf data: asset id, output amounts, fee *)
Theorem C32_noninterference_ZkLeafData : forall a b : ZkLeafData,
  lf_asset_id a = lf_asset_id b -> lf_output_amount_1 a = lf_output_amount_1 b ->
  lf_output_amount_2 a = lf_output_amount_2 b -> lf_volume_fee_bps a = lf_volume_fee_bps b ->
  same_rendering (debug_ZkLeafData a) (debug_ZkLeafData b).
Proof. exact ni_ZkLeafData. Qed.

(* tree-path data: root, the `depth` field, the dummy flag and the public part of the leaf.
   NB `depth` is a field of its own in the Rust struct; the constructors set it to the number of sibling levels,
   so the LENGTH of the path is published by this impl (its content is not). *)
Theorem C32_noninterference_ZkMerkleProofData : forall a b : ZkMerkleProofData,
  mp_root_hash a = mp_root_hash b -> mp_depth a = mp_depth b -> mp_is_not_dummy a = mp_is_not_dummy b ->
  lf_asset_id (mp_leaf a) = lf_asset_id (mp_leaf b) ->
  lf_output_amount_1 (mp_leaf a) = lf_output_amount_1 (mp_leaf b) ->
  lf_output_amount_2 (mp_leaf a) = lf_output_amount_2 (mp_leaf b) ->
  lf_volume_fee_bps (mp_leaf a) = lf_volume_fee_bps (mp_leaf b) ->
  same_rendering (debug_ZkMerkleProofData a) (debug_ZkMerkleProofData b).
Proof. exact ni_ZkMerkleProofData. Qed.

(* header inputs: everything but the digest logs *)
Theorem C32_noninterference_HeaderInputs : forall a b : HeaderInputs,
  hi_parent_hash a = hi_parent_hash b -> hi_block_number a = hi_block_number b ->
  hi_state_root a = hi_state_root b -> hi_extrinsics_root a = hi_extrinsics_root b ->
  hi_zk_tree_root a = hi_zk_tree_root b ->
  same_rendering (debug_HeaderInputs a) (debug_HeaderInputs b).
Proof. exact ni_HeaderInputs. Qed.

(* the derived Debug of BlockHeader nests HeaderInputs' redacting one *)
Theorem C32_noninterference_BlockHeader : forall a b : BlockHeader,
  bh_block_hash a = bh_block_hash b ->
  hi_parent_hash (bh_header a) = hi_parent_hash (bh_header b) ->
  hi_block_number (bh_header a) = hi_block_number (bh_header b) ->
  hi_state_root (bh_header a) = hi_state_root (bh_header b) ->
  hi_extrinsics_root (bh_header a) = hi_extrinsics_root (bh_header b) ->
  hi_zk_tree_root (bh_header a) = hi_zk_tree_root (bh_header b) ->
  same_rendering (debug_BlockHeader a) (debug_BlockHeader b).
Proof. exact ni_BlockHeader. Qed.

(* prover: only whether it has been committed *)
Theorem C32_noninterference_WormholeProver : forall a b : WormholeProver,
  option_is_none (wp_targets a) = option_is_none (wp_targets b) ->
  same_rendering (debug_WormholeProver a) (debug_WormholeProver b).
Proof. exact ni_WormholeProver. Qed.

(* `same_rendering` is what the dispatch compares: equal output in both modes *)
Theorem C32_same_rendering_modes : forall d1 d2,
  same_rendering d1 d2 -> forall mode, render mode d1 = render mode d2.
Proof. exact same_rendering_modes. Qed.

(* the number printer of the model is positional decimal (so "the decimal rendering" means what it should):
   reading the digits back gives the number, hence distinct numbers print differently *)
Theorem C32_decimal_roundtrip : forall n, 0 <= n -> undec (dec n) = n.
Proof. exact undec_dec. Qed.
Theorem C32_decimal_injective : forall a b, 0 <= a -> 0 <= b -> dec a = dec b -> a = b.
Proof. exact dec_injective. Qed.

(* ---------------------------------------------------------------- non-vacuity *)
(* two private-input records that share the public fields and differ in EVERY private field *)
Example C32_ex_priv_a : PrivateCircuitInputs :=
  mkPrivateCircuitInputs (repeat 171 32) 18446744073709551615 (repeat 205 32)
    (repeat 5 32) (repeat 3 32) (repeat 4 32) (repeat 238 110) 4294967295 (repeat 0 32)
    [[repeat 17 32; repeat 18 32; repeat 19 32]] [2].
Example C32_ex_priv_b : PrivateCircuitInputs :=
  mkPrivateCircuitInputs (repeat 1 32) 7 (repeat 2 32)
    (repeat 5 32) (repeat 3 32) (repeat 4 32) (repeat 9 110) 1000 (repeat 0 32)
    [] [].
Example C32_ex_priv_differ_in_every_private_field :
  pi_secret C32_ex_priv_a <> pi_secret C32_ex_priv_b /\
  pi_transfer_count C32_ex_priv_a <> pi_transfer_count C32_ex_priv_b /\
  pi_unspendable_account C32_ex_priv_a <> pi_unspendable_account C32_ex_priv_b /\
  pi_digest C32_ex_priv_a <> pi_digest C32_ex_priv_b /\
  pi_input_amount C32_ex_priv_a <> pi_input_amount C32_ex_priv_b /\
  pi_zk_merkle_siblings C32_ex_priv_a <> pi_zk_merkle_siblings C32_ex_priv_b /\
  pi_zk_merkle_positions C32_ex_priv_a <> pi_zk_merkle_positions C32_ex_priv_b.
Proof. vm_compute. repeat split; discriminate. Qed.
Example C32_ex_priv_render_equal :
  same_rendering (debug_PrivateCircuitInputs C32_ex_priv_a) (debug_PrivateCircuitInputs C32_ex_priv_b).
Proof. apply C32_noninterference_PrivateCircuitInputs; reflexivity. Qed.

(* the rendering is not constant: a different public field gives a different string (both modes) *)
Example C32_ex_public_field_is_shown :
  let c := mkPrivateCircuitInputs (repeat 1 32) 7 (repeat 2 32)
             (repeat 6 32) (repeat 3 32) (repeat 4 32) (repeat 9 110) 1000 (repeat 0 32) [] [] in
  render_compact (debug_PrivateCircuitInputs c) <> render_compact (debug_PrivateCircuitInputs C32_ex_priv_b) /\
  render_pretty (debug_PrivateCircuitInputs c) <> render_pretty (debug_PrivateCircuitInputs C32_ex_priv_b).
Proof. vm_compute. split; discriminate. Qed.

(* the exact text for one value, as a regression anchor for the two renderers
   (Nullifier with hash [1, 2, p + 1 (non-canonical inner value, printed reduced), 0]) *)
Example C32_ex_nullifier_compact :
  render_compact (debug_Nullifier (mkNullifier [1; 2; p + 1; 0] (repeat 171 32) [5; 6]))
  = lit "Nullifier { hash: [1, 2, 1, 0], secret: ""[REDACTED]"", transfer_count: ""[REDACTED]"" }".
Proof. vm_compute. reflexivity. Qed.
Example C32_ex_unspendable_pretty :
  render_pretty (debug_UnspendableAccount (mkUnspendableAccount [1; 2; 3; 4] (repeat 171 32)))
  = lit "UnspendableAccount {" ++ [NL] ++ lit "    account_id: ""[REDACTED]""," ++ [NL] ++
    lit "    secret: ""[REDACTED]""," ++ [NL] ++ lit "}".
Proof. vm_compute. reflexivity. Qed.
Example C32_ex_prover :
  render_compact (debug_WormholeProver (mkWormholeProver [] [171; 205] None))
  = lit "WormholeProver { circuit_data: ""[ProverCircuitData]"", partial_witness: ""[REDACTED]"", committed: true }".
Proof. vm_compute. reflexivity. Qed.
