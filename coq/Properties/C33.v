(* C33 - Secret material is scrubbed before its memory is released.

   "For every secret, no heap block that held the secret's bytes or felt encoding is freed before being zeroed by the
    secret-handling APIs (construction, hashing, serialization, deserialization, drop), except the documented
    upstream hashing buffer.  Constructing a secret zeroes the caller's buffer whether or not the value is valid."

   Model: Sys/Zeroize.v - every heap block the APIs of wormhole/circuit/src/{sensitive,nullifier,unspendable_account}.rs
   allocate, as a trace of events (Alloc / WriteSecret / WritePublic / Zero / Free / Realloc / FreeUpstreamPad), with
   Rust's Vec growth rule; capacities and push sizes are the generated Rust constants.  Proofs: Sys/ZeroizeProofs.v.
   SCOPE (see lib/props/c33.py): the theorems are about this allocation discipline.  Whether the compiled code really
   performs the writes (dead-store elimination), stack copies, allocator reuse and plonky2's own copies are outside
   the model; the allocator scan of harness/src/bin/zeroize.rs is the evidence for the real binary, and it must
   observe exactly [observe (run_seq codes)].

   Vocabulary:
     run_seq codes      the events of a caller that performs the API calls [codes] one after the other (37 calls:
                        Secret::new valid/invalid, From/TryFrom, expose_*, Nullifier::{new, from_preimage, From<&CircuitInputs>,
                        to_bytes, from_bytes, to_field_elements, from_field_elements, error paths}, the same for
                        UnspendableAccount, drops, and the public SensitiveFelts::new on a caller Vec with spare capacity + read + drop) and finally drops everything it still holds; other codes are no-ops
     trace_safe t       executable checker;  safe_from s t  the same as an inductive Prop over block statuses
                        (Dead | Clean | Tainted = secret written, not zeroed since), spelled out below
     observe t          the (size, kind) list the allocator scan must see: 1 = freed after scrub, 2 = upstream pad buffer,
                        3 = freed tainted, 4 = reallocated tainted *)
From V.Base Require Import Common.
From V.Generated Require Import Constants.
From V.Sys Require Import Zeroize ZeroizeProofs.

Local Open Scope Z_scope.

(* ---------------------------------------------------------------- constants, pinned to /repo *)
(* Nullifier::from_preimage: Vec::with_capacity(SALT_NUM_TARGETS + SECRET_NUM_TARGETS + TRANSFER_COUNT_NUM_TARGETS),
   then extend(salt) [len of string_to_felts(NULLIFIER_SALT)], extend(secret_felts) [Digest], extend(transfer_count_felts) *)
Lemma C33_pin_nullifier_preimage :
  NULLIFIER_SALT_NUM_TARGETS + NULLIFIER_SECRET_NUM_TARGETS + NULLIFIER_TRANSFER_COUNT_NUM_TARGETS = 9 /\
  nullifier_preimage_capacity = 9 /\
  zlen NULLIFIER_SALT_FELTS = 3 /\ POSEIDON2_OUTPUT = 4 /\ FELTS_PER_U64 = 2 /\
  zlen NULLIFIER_SALT_FELTS + POSEIDON2_OUTPUT + FELTS_PER_U64 <= nullifier_preimage_capacity.
Proof. repeat split; first [reflexivity | discriminate]. Qed.
(* Nullifier::to_bytes: with_capacity(DIGEST_BYTES_LEN + SECRET_BYTES_LEN + size_of::<u64>()), pushes 32 + 32 + 8 *)
Lemma C33_pin_nullifier_bytes :
  DIGEST_BYTES_LEN + NULLIFIER_SECRET_BYTES_LEN + U64_BYTES = 72 /\
  DIGEST_BYTES_LEN + DIGEST_BYTES_LEN + U64_BYTES <= DIGEST_BYTES_LEN + NULLIFIER_SECRET_BYTES_LEN + U64_BYTES.
Proof. split; first [reflexivity | discriminate]. Qed.
(* Nullifier::to_field_elements: with_capacity(NULLIFIER_SIZE_FELTS), pushes 4 + 4 + 2 *)
Lemma C33_pin_nullifier_felts :
  NULLIFIER_SIZE_FELTS = 10 /\
  POSEIDON2_OUTPUT + POSEIDON2_OUTPUT + NULLIFIER_TRANSFER_COUNT_NUM_TARGETS = NULLIFIER_SIZE_FELTS.
Proof. split; reflexivity. Qed.
(* UnspendableAccount::from_secret: with_capacity(PREIMAGE_NUM_TARGETS), pushes salt 3 + secret 4 *)
Lemma C33_pin_unspendable_preimage :
  UNSPENDABLE_PREIMAGE_NUM_TARGETS = 7 /\ zlen UNSPENDABLE_SALT_FELTS = 3 /\
  zlen UNSPENDABLE_SALT_FELTS + POSEIDON2_OUTPUT = UNSPENDABLE_PREIMAGE_NUM_TARGETS.
Proof. repeat split; reflexivity. Qed.
(* UnspendableAccount::to_bytes: with_capacity(2 * DIGEST_BYTES_LEN); to_field_elements: ACCOUNT_ID_NUM_TARGETS + SECRET_NUM_TARGETS *)
Lemma C33_pin_unspendable_buffers :
  2 * DIGEST_BYTES_LEN = 64 /\ DIGEST_BYTES_LEN + DIGEST_BYTES_LEN = 2 * DIGEST_BYTES_LEN /\
  UNSPENDABLE_ACCOUNT_ID_NUM_TARGETS + UNSPENDABLE_SECRET_NUM_TARGETS = 8 /\
  POSEIDON2_OUTPUT + POSEIDON2_OUTPUT = UNSPENDABLE_ACCOUNT_ID_NUM_TARGETS + UNSPENDABLE_SECRET_NUM_TARGETS.
Proof. repeat split; reflexivity. Qed.
(* the upstream sponge rate (pad10_to_rate pads to a multiple of it) and the two exempt buffer sizes in bytes *)
Lemma C33_pin_pad : POSEIDON2_SPONGE_RATE = 8 /\ pad_sizes = [128; 64].
Proof. split; reflexivity. Qed.
Lemma C33_pin_order : INPUTS_GOLDILOCKS_ORDER = p /\ DIGEST_BYTES_LEN = 32 /\ p = 2 ^ 64 - 2 ^ 32 + 1.
Proof. repeat split; reflexivity. Qed.

(* ---------------------------------------------------------------- what "safe" means, spelled out *)
(* [safe_from s t]: starting from block statuses [s], the trace [t] never frees or reallocates a Tainted block, and
   never touches a Dead one.  The one distinguished exception is FreeUpstreamPad (last clause). *)
Lemma C33_spec_safe_from : forall s t,
  safe_from s t <->
  match t with
  | [] => True
  | Alloc b _ :: r => s b = Dead /\ safe_from (sset s b Clean) r
  | WriteSecret b :: r => s b <> Dead /\ safe_from (sset s b Tainted) r
  | WritePublic b :: r => s b <> Dead /\ safe_from s r
  | Zero b :: r => s b <> Dead /\ safe_from (sset s b Clean) r
  | Free b :: r => s b = Clean /\ safe_from (sset s b Dead) r
  | Realloc b _ :: r => s b = Clean /\ safe_from s r
  | FreeUpstreamPad b :: r => s b <> Dead /\ safe_from (sset s b Dead) r
  end.
Proof.
  intros s t. split.
  - intro H. destruct H; try exact I; split; assumption.
  - destruct t as [|[b n|b|b|b|b|b n|b] r]; intro H; try constructor; try (destruct H; assumption).
Qed.
Lemma C33_spec_sset : forall s b v b', sset s b v b' = if bid_eqb b b' then v else s b'.
Proof. reflexivity. Qed.
Lemma C33_spec_bid_eqb : forall a b, bid_eqb a b = true <-> a = b.
Proof. exact bid_eqb_spec. Qed.
(* the executable checker decides exactly that Prop *)
Lemma C33_spec_trace_safe : forall t, trace_safe t = true <-> safe_from (fun _ => Dead) t.
Proof. exact trace_safe_spec. Qed.

(* ---------------------------------------------------------------- the property *)
(* Every call sequence, of any length: no block is freed or reallocated while it holds the secret (the upstream pad
   buffer being the distinguished FreeUpstreamPad event), and at the end every block has been released. *)
Theorem C33_no_secret_free : forall codes : list Z,
  trace_safe (run_seq codes) = true /\ safe_from (fun _ => Dead) (run_seq codes).
Proof. exact no_secret_free. Qed.

Theorem C33_all_released : forall codes : list Z, fst (fst (run_trace h_empty (run_seq codes))) = h_empty.
Proof. exact all_freed_at_end. Qed.

(* The exemption is exact: what the allocator scan is predicted to see consists only of "freed after scrub" entries and
   of the two upstream pad buffers (128 / 64 bytes), the latter exactly once per call that hashes the secret. *)
Theorem C33_exemption_exact : forall codes : list Z,
  Forall (fun sk => snd sk = K_SCRUBBED \/ (snd sk = K_UPSTREAM_PAD /\ In (fst sk) pad_sizes)) (observe (run_seq codes)) /\
  count_pad (observe (run_seq codes)) = count_hash_ops (map op_of_Z codes).
Proof. exact exemption_exact. Qed.

(* WHY: a Vec with enough reserved capacity only writes - it is never reallocated ... *)
Theorem C33_vec_extends_no_realloc : forall pushes v,
  0 <= v_len v -> v_len v + sum_pushes pushes <= v_cap v ->
  Forall (fun e => e = WriteSecret (v_blk v) \/ e = WritePublic (v_blk v)) (snd (vec_extend_all v pushes)) /\
  v_cap (fst (vec_extend_all v pushes)) = v_cap v.
Proof. exact vec_extends_no_realloc_gen. Qed.

(* ... with too little capacity some push reallocates ... *)
Theorem C33_vec_extends_realloc : forall pushes v,
  0 < v_cap v -> 0 <= v_len v <= v_cap v -> v_len v + sum_pushes pushes > v_cap v ->
  Exists (fun e => exists n, e = Realloc (v_blk v) n) (snd (vec_extend_all v pushes)).
Proof. exact vec_extends_realloc_gen. Qed.

(* ... and if the secret was written before, the checker rejects the trace whatever follows (it is not vacuous). *)
Theorem C33_growth_would_leak : forall b elem cap n1 n2 s2 rest,
  0 < n1 <= cap -> n1 + n2 > cap ->
  trace_safe (snd (vec_with_capacity b elem cap)
              ++ snd (vec_extend_all (fst (vec_with_capacity b elem cap)) [(n1, true); (n2, s2)]) ++ rest) = false.
Proof. exact growth_would_leak. Qed.

(* from_preimage is safe for every reserved capacity >= what is pushed; Vec::new() (capacity 0) or 4 or 8 are not *)
Theorem C33_preimage_capacity : forall cap,
  zlen NULLIFIER_SALT_FELTS + POSEIDON2_OUTPUT + FELTS_PER_U64 <= cap -> trace_safe (nullifier_from_preimage_cap cap) = true.
Proof. exact preimage_capacity_enough. Qed.
Example C33_preimage_capacity_too_small :
  trace_safe (nullifier_from_preimage_cap 0) = false /\ trace_safe (nullifier_from_preimage_cap 4) = false /\
  trace_safe (nullifier_from_preimage_cap 8) = false /\
  observe (nullifier_from_preimage_cap 0) = [(64, K_REALLOC_TAINTED); (128, K_UPSTREAM_PAD); (128, K_SCRUBBED)].
Proof. repeat split; reflexivity. Qed.

(* Secret::new: whatever the 32 input bytes are, the caller's buffer is all zero afterwards; the result is Ok exactly
   when the four little-endian limbs are below the field order, and then wraps the input. *)
Theorem C33_new_zeroes_source : forall bytes : list Z,
  length bytes = 32%nat ->
  snd (secret_new bytes) = repeat 0 32 /\
  (is_ok (fst (secret_new bytes)) = true <->
   le_limb (sub8 bytes 0) < p /\ le_limb (sub8 bytes 8) < p /\ le_limb (sub8 bytes 16) < p /\ le_limb (sub8 bytes 24) < p) /\
  (forall s, fst (secret_new bytes) = Ok s -> s = bytes).
Proof. exact new_zeroes_source. Qed.
Lemma C33_spec_limbs : forall l i, sub8 l i = firstn 8 (skipn i l).
Proof. reflexivity. Qed.
Lemma C33_spec_le_limb : forall b bs, le_limb [] = 0 /\ le_limb (b :: bs) = b + 256 * le_limb bs.
Proof. intros; split; reflexivity. Qed.

(* ---------------------------------------------------------------- non-vacuity / illustrations *)
(* the call sequence of wormhole/circuit/tests/heap_zeroization.rs, as seen by the allocator scan *)
Example C33_example_from_preimage :
  observe (run_seq [8]) = [(128, K_UPSTREAM_PAD); (72, K_SCRUBBED)] /\
  observe (run_seq [8; 10; 13]) = [(128, K_UPSTREAM_PAD); (72, K_SCRUBBED); (72, K_SCRUBBED); (80, K_SCRUBBED)] /\
  observe (run_seq [22; 24; 27]) = [(64, K_UPSTREAM_PAD); (56, K_SCRUBBED); (64, K_SCRUBBED); (64, K_SCRUBBED)] /\
  observe (run_seq [0]) = [(32, K_SCRUBBED)] /\ observe (run_seq [1]) = [(32, K_SCRUBBED)].
Proof. repeat split; reflexivity. Qed.
(* the checker rejects the three ways the discipline can break *)
Example C33_example_unsafe_traces :
  trace_safe [Alloc BPre 72; WriteSecret BPre; Free BPre] = false /\                     (* no scrub before free *)
  trace_safe [Alloc BPre 32; WriteSecret BPre; Realloc BPre 64; Zero BPre; Free BPre] = false /\   (* growth after the secret *)
  trace_safe [Alloc BSrc 32; WriteSecret BSrc; Free BSrc] = false /\                     (* Secret::new without zeroize *)
  trace_safe [Alloc BPre 72; WriteSecret BPre; Zero BPre; Free BPre] = true.
Proof. repeat split; reflexivity. Qed.
Example C33_example_secret_new :
  secret_new (repeat 255 32) = (Err 1, repeat 0 32) /\ secret_new (repeat 17 32) = (Ok (repeat 17 32), repeat 0 32).
Proof. split; reflexivity. Qed.
