(* C35 - Transfer-proof JSON parsing is bounded and consistent with validation.
   Model: Sys/TransferJson.v (from_json_str = raw-length gate + derive(Deserialize) map visitor + the
   bounded field visitors, as a function of the raw byte length and of the decoded document; validate);
   proofs: Sys/TransferJsonProofs.v.
   Level: partial - serde_json's lexing is not modelled: [wf] is "serde_json finds no syntax error", the
   entries are the decoded object members (key, value shape, decoded byte lengths). *)
From V.Base Require Import Common.
From V.Generated Require Import Constants.
From V.Sys Require Import TransferJson TransferJsonProofs.

(* ---- the literals of the property text are the Rust constants *)
Lemma C35_pin_max_json_bytes : MAX_TRANSFER_PROOF_JSON_BYTES = 8 * 1024 * 1024. Proof. reflexivity. Qed.
Lemma C35_pin_max_state_root_hex_len : MAX_STATE_ROOT_HEX_LEN = 64. Proof. reflexivity. Qed.
Lemma C35_pin_max_storage_proof_nodes : MAX_STORAGE_PROOF_NODES = 1024. Proof. reflexivity. Qed.
Lemma C35_pin_max_storage_proof_node_hex_len : MAX_STORAGE_PROOF_NODE_HEX_LEN = 2 ^ 20. Proof. reflexivity. Qed.
Lemma C35_pin_max_storage_proof_hex_bytes : MAX_STORAGE_PROOF_HEX_BYTES = 2 ^ 20. Proof. reflexivity. Qed.
Lemma C35_pin_max_merkle_indices : MAX_MERKLE_INDICES = 1024. Proof. reflexivity. Qed.

(* ---- a document longer than 8 MiB is rejected whatever it contains (the parser is not consulted) *)
Theorem C35_raw_cap_first : forall (raw_len : Z) (wf : bool) (t : top),
  MAX_TRANSFER_PROOF_JSON_BYTES < raw_len -> from_json_str raw_len wf t = Err E_RAW.
Proof. exact from_json_str_raw_cap_first. Qed.

(* ---- exact acceptance set: accepted iff within the raw cap, syntactically well-formed, the four fields
   present exactly once each with the right shape ([decodes_to]: members of a top-level object in any
   order with unknown members ignored, or - serde's derived visit_seq - the four elements of a top-level
   array), and every cap respected (all caps inclusive): state root <= 64 bytes, <= 1024 nodes, every node
   <= 2^20 bytes, all nodes together <= 2^20 bytes, <= 1024 indices.  [d] is then the decoded content. *)
Theorem C35_accept_iff_caps : forall (raw_len : Z) (wf : bool) (t : top) (d : Doc),
  top_ok t ->
  (from_json_str raw_len wf t = Ok d <->
   raw_len <= 8388608 /\ wf = true /\ decodes_to t d /\
   (0 <= d_transfer_count d < two64 /\
    d_state_root_len d <= 64 /\
    zlen (d_nodes d) <= 1024 /\ Forall (fun n => n <= 1048576) (d_nodes d) /\ sum (d_nodes d) <= 1048576 /\
    all_u64 (d_indices d) /\ zlen (d_indices d) <= 1024)).
Proof. exact from_json_str_accept_iff. Qed.

(* ---- never a panic: the result is Ok, the raw-cap error or the parse error *)
Theorem C35_total : forall (raw_len : Z) (wf : bool) (t : top),
  (exists d, from_json_str raw_len wf t = Ok d) \/ from_json_str raw_len wf t = Err E_RAW
  \/ from_json_str raw_len wf t = Err E_PARSE.
Proof. exact from_json_str_total. Qed.

(* ---- the standalone validation accepts exactly the structs within the five caps ... *)
Theorem C35_validate_iff_caps : forall d : Doc,
  nonneg (d_nodes d) ->
  (validate d = Ok tt <->
   d_state_root_len d <= 64 /\ zlen (d_nodes d) <= 1024 /\
   Forall (fun n => n <= 1048576) (d_nodes d) /\ sum (d_nodes d) <= 1048576 /\
   zlen (d_indices d) <= 1024).
Proof. exact validate_ok_iff. Qed.

(* ---- ... and everything the parser accepts passes it *)
Theorem C35_accept_implies_validate : forall (raw_len : Z) (wf : bool) (t : top) (d : Doc),
  top_ok t -> from_json_str raw_len wf t = Ok d -> validate d = Ok tt.
Proof. exact accept_implies_validate. Qed.

(* ---- non-vacuity *)
Definition doc_entries (sr : Z) (nodes ix : list Z) : list entry :=
  [(K_TRANSFER_COUNT, JInt 1); (K_STATE_ROOT, JStr sr); (K_STORAGE_PROOF, JStrs nodes); (K_INDICES, JInts ix)].
Definition doc (sr : Z) (nodes ix : list Z) : top := TObj (doc_entries sr nodes ix).

Example C35_nv_accepts :
  from_json_str 8388608 true (TObj ((9, JOther) :: doc_entries 64 [1048575; 1] [0; 18446744073709551615]))
  = Ok (mkDoc 1 64 [1048575; 1] [0; 18446744073709551615]).
Proof. reflexivity. Qed.
(* a top-level array of the four values is accepted too (and is capped the same way) *)
Example C35_nv_accepts_array :
  from_json_str 19 true (TSeq [JInt 1; JStr 2; JStrs [2]; JInts [0]]) = Ok (mkDoc 1 2 [2] [0]) /\
  from_json_str 99 true (TSeq [JInt 1; JStr 65; JStrs [2]; JInts [0]]) = Err E_PARSE /\
  from_json_str 99 true (TSeq [JInt 1; JStr 2; JStrs [2]; JInts [0]; JOther]) = Err E_PARSE.
Proof. repeat split. Qed.
Example C35_nv_rejections :
  map (fun r => match r with Ok _ => 1 | Err c => - c end)
    [from_json_str 8388609 true (doc 64 [2] [0]);            (* raw cap *)
     from_json_str 100 false (doc 64 [2] [0]);               (* syntax error *)
     from_json_str 100 true (doc 65 [2] [0]);                (* state root *)
     from_json_str 100 true (doc 64 [1048577] [0]);          (* node length *)
     from_json_str 100 true (doc 64 [1048576; 1] [0]);       (* total length *)
     from_json_str 100 true (doc 64 [2] [18446744073709551616]);  (* index does not fit usize *)
     from_json_str 100 true (TObj (tl (doc_entries 64 [2] [0])));           (* missing field *)
     from_json_str 100 true (TObj ((K_STATE_ROOT, JStr 2) :: doc_entries 64 [2] [0]));   (* duplicate field *)
     from_json_str 100 true (TObj [(K_TRANSFER_COUNT, JInt 1); (K_STATE_ROOT, JInt 5); (K_STORAGE_PROOF, JStrs []); (K_INDICES, JInts [])]);
     from_json_str 100 true (doc 64 [1048576] [])]
  = [-1; -2; -2; -2; -2; -2; -2; -2; -2; 1].
Proof. reflexivity. Qed.
(* node-count and index-count caps, with 1025 entries built by repeat *)
Example C35_nv_count_caps :
  is_ok (from_json_str 100 true (doc 0 (repeat 1 1024) (repeat 7 1024))) = true /\
  is_ok (from_json_str 100 true (doc 0 (repeat 1 1025) [])) = false /\
  is_ok (from_json_str 100 true (doc 0 [] (repeat 7 1025))) = false.
Proof. repeat split; vm_compute; reflexivity. Qed.
