(* C05 - For every well-formed honest input (canonical digests, a valid tree path of depth 0..16, amounts
   satisfying the fee rule), the leaf prover produces a proof that the canonical pinned verifier
   accepts.  Its 21 public inputs are asset, out1, out2, fee, nullifier, exit1, exit2, block hash, block
   number in that order, and parse back to the input statement.  Inputs with depth above 16, mismatched
   position counts or positions above 3 are rejected with an error, never a panic.

   Model: V.Sys.LeafProver -
     [fill x]            fill_witness + ZkMerkleProofData::try_from + the fill_targets of the fragments:
                         the assignment of every input target of the leaf circuit ([Leaf.LeafIn]) or an
                         error code (1 depth, 2 length mismatch, 3 position); it has no panic path;
     [layout21 x]        the 21 public inputs of statement x;
     [prove_outcome H x] [0] commit failed, [2] the witness does not satisfy the circuit,
                         1 :: pis = honest witness generation of the leaf circuit ([hon], V.Circ.Core,
                         circuit model V.Circ.Leaf) succeeded with public inputs pis.
   [parse_leaf_u64] is the model of PublicCircuitInputs::try_from_u64_slice (V.Sys.Parsers, C24).
   What is proved: a well-formed honest input yields an assignment on which every constraint of the
   leaf circuit holds (completeness of the circuit + witness filling), with exactly these public inputs.
   What is NOT proved but checked by the correspondence harness on every case: that plonky2 turns a
   satisfying witness into a proof which the pinned verifier accepts.
   Proofs: V.Sys.LeafProverProofs (on top of V.Circ.LeafProofs). *)
From V.Base Require Import Common.
From V.Generated Require Import Constants.
From V.Circ Require Import Field Core Prims Gadgets Leaf LeafProofs.
From V.Sys Require Import Parsers LeafProver LeafProverProofs.

Lemma C05_pin_max_depth : MERKLE_MAX_DEPTH = 16. Proof. reflexivity. Qed.
Lemma C05_pin_order : INPUTS_GOLDILOCKS_ORDER = p /\ FIELD_ORDER = p. Proof. split; reflexivity. Qed.
Lemma C05_pin_layout :
  LEAF_PI_LEN = 21 /\ IDX_ASSET_ID = 0 /\ IDX_OUTPUT_AMOUNT_1 = 1 /\ IDX_OUTPUT_AMOUNT_2 = 2 /\
  IDX_VOLUME_FEE_BPS = 3 /\ IDX_NULLIFIER_START = 4 /\ IDX_NULLIFIER_END = 8 /\ IDX_EXIT_1_START = 8 /\
  IDX_EXIT_1_END = 12 /\ IDX_EXIT_2_START = 12 /\ IDX_EXIT_2_END = 16 /\ IDX_BLOCK_HASH_START = 16 /\
  IDX_BLOCK_HASH_END = 20 /\ IDX_BLOCK_NUMBER = 20.
Proof. repeat split. Qed.
Lemma C05_pin_digest : DIGEST_LOGS_FELTS = 28. Proof. reflexivity. Qed.

(* the hypotheses, spelled out *)
Theorem C05_wf_x_means :
  forall x : ProverIn, wf_x x <->
    (0 <= x_asset x < 2 ^ 32 /\ 0 <= x_out1 x < 2 ^ 32 /\ 0 <= x_out2 x < 2 ^ 32 /\ 0 <= x_fee x < 2 ^ 32 /\
     0 <= x_input_amount x < 2 ^ 32 /\ 0 <= x_block_number x < 2 ^ 32 /\
     0 <= x_transfer_count x < 2 ^ 64) /\
    (wf_list 4 (x_nullifier x) /\ wf_list 4 (x_exit1 x) /\ wf_list 4 (x_exit2 x) /\
     wf_list 4 (x_block_hash x) /\ wf_list 4 (x_secret x) /\ wf_list 4 (x_unspendable_account x) /\
     wf_list 4 (x_parent_hash x) /\ wf_list 4 (x_state_root x) /\ wf_list 4 (x_extrinsics_root x) /\
     wf_list 4 (x_tree_root x)) /\
    wf_list 28 (x_digest x) /\ Forall wf_level (x_siblings x).
Proof. intros x. split; [intros []; tauto|intros ?; constructor; tauto]. Qed.

Theorem C05_honest_means :
  forall (H : list Z -> list Z) (x : ProverIn), honest H x <->
    (length (x_siblings x) <= 16)%nat /\ length (x_positions x) = length (x_siblings x) /\
    Forall (fun q => 0 <= q <= 3) (x_positions x) /\
    x_fee x <= 10000 /\ (x_out1 x + x_out2 x) * 10000 <= x_input_amount x * (10000 - x_fee x) /\
    x_unspendable_account x = H (H (UNSPENDABLE_SALT_FELTS ++ x_secret x)) /\
    (~ (x_block_hash x = [0; 0; 0; 0] /\ x_out1 x = 0 /\ x_out2 x = 0) ->
     x_nullifier x = H (H (NULLIFIER_SALT_FELTS ++ x_secret x ++ tc_limbs (x_transfer_count x))) /\
     x_tree_root x =
       fold_insert H (H (x_unspendable_account x ++ tc_limbs (x_transfer_count x)
                         ++ [x_asset x; x_input_amount x]))
                   (combine (x_siblings x) (x_positions x)) /\
     x_block_hash x = H (x_parent_hash x ++ [x_block_number x] ++ x_state_root x ++ x_extrinsics_root x
                         ++ x_tree_root x ++ x_digest x)).
Proof. intros H x. split; [intros []; tauto|intros ?; constructor; tauto]. Qed.

Theorem C05_complete :
  forall (H : list Z -> list Z) (x : ProverIn),
    hash_wf H -> wf_x x -> honest H x ->
    exists i, fill x = Ok i /\ hon H (leaf_circuit i) = Some (layout21 x) /\
              prove_outcome H x = 1 :: layout21 x.
Proof. intros H x Hwf W Hx. exact (complete H Hwf x W Hx). Qed.

(* ... and the filled assignment is the one every prover is held to: no other witness exists (C04) *)
Theorem C05_filled_assignment_wf :
  forall (H : list Z -> list Z) (x : ProverIn), wf_x x -> honest H x -> wf_in (filled x) /\ fill x = Ok (filled x).
Proof. intros H x W Hx. split; [exact (filled_wf H x W Hx)|exact (fill_honest H x Hx)]. Qed.

Theorem C05_public_inputs_order :
  forall x : ProverIn,
    layout21 x = [x_asset x; x_out1 x; x_out2 x; x_fee x] ++ x_nullifier x ++ x_exit1 x ++ x_exit2 x
                 ++ x_block_hash x ++ [x_block_number x].
Proof. exact layout21_order. Qed.

Theorem C05_public_inputs_length : forall x : ProverIn, wf_x x -> length (layout21 x) = 21%nat.
Proof. exact layout21_length. Qed.

Theorem C05_parse_back :
  forall x : ProverIn, wf_x x ->
    parse_leaf_u64 (layout21 x) =
    Ok (mkLeafPI (x_asset x) (x_out1 x) (x_out2 x) (x_fee x) (x_nullifier x) (x_exit1 x) (x_exit2 x)
                 (x_block_hash x) (x_block_number x)).
Proof. exact parse_back. Qed.

Theorem C05_rejects :
  forall x : ProverIn,
    (zlen (x_siblings x) > 16 \/ zlen (x_positions x) <> zlen (x_siblings x) \/
     Exists (fun q => q > 3) (x_positions x)) -> exists c, fill x = Err c.
Proof. intros x R. apply fill_rejects_iff. exact R. Qed.

Theorem C05_rejects_iff :
  forall x : ProverIn,
    (exists c, fill x = Err c) <->
    (zlen (x_siblings x) > 16 \/ zlen (x_positions x) <> zlen (x_siblings x) \/
     Exists (fun q => q > 3) (x_positions x)).
Proof. exact fill_rejects_iff. Qed.

(* the model of fill has no panic path (its only failures are the three [bail!]s); -1 is the
   encoding of a caught Rust panic in the correspondence runs *)
Theorem C05_no_panic : forall x : ProverIn, fill x <> Err (-1).
Proof. exact fill_no_panic. Qed.

Theorem C05_error_codes :
  forall x : ProverIn,
    fill x = Ok (filled x) \/ fill x = Err 1 \/ fill x = Err 2 \/ fill x = Err 3.
Proof. intros x. destruct (fill_cases x) as [[_ E]|[_ E]]; tauto. Qed.

(* whatever is proved for a committed input exposes exactly its statement (any hash, any input) *)
Theorem C05_dishonest_fails :
  forall (H : list Z -> list Z) (x : ProverIn) (i : LeafIn) (pis : list Z),
    fill x = Ok i -> hon H (leaf_circuit i) = Some pis -> pis = layout21 x.
Proof. exact dishonest_fails. Qed.

(* ---------------- non-vacuity ---------------- *)
Example C05_nv_H0 : hash_wf H0. Proof. exact H0_wf. Qed.
Example C05_nv_wf : wf_x ex_x. Proof. exact ex_x_wf. Qed.
Example C05_nv_honest : honest H0 ex_x. Proof. exact ex_x_honest. Qed.
(* depth 1, position 2, (out1, out2, fee, in) = (40, 9, 10 bps, 50) *)
Example C05_nv_proved : prove_outcome H0 ex_x = 1 :: layout21 ex_x.
Proof. vm_compute. reflexivity. Qed.
Example C05_nv_depth0 : prove_outcome H0 ex_x_depth0 = 1 :: layout21 ex_x_depth0.
Proof. vm_compute. reflexivity. Qed.
Example C05_nv_parse_back : exists s, parse_leaf_u64 (layout21 ex_x) = Ok s /\ l_fee s = 10 /\ l_bn s = 1000.
Proof. eexists. vm_compute. repeat split. Qed.
(* fee rule violated: commit succeeds, proving fails *)
Example C05_nv_bad_rule : prove_outcome H0 ex_x_bad_rule = [2]. Proof. vm_compute. reflexivity. Qed.
(* 17 levels / 2 positions for 1 level / position 4: errors 1, 2, 3 *)
Example C05_nv_rejected :
  fill ex_x_deep = Err 1 /\ fill ex_x_mismatch = Err 2 /\ fill ex_x_pos4 = Err 3 /\
  prove_outcome H0 ex_x_deep = [0].
Proof. vm_compute. repeat split. Qed.
