(* C19 - Pool admission decides exactly by the documented rules, in order.
   Model: Sys/Pool.v (push, parse_metadata); proofs: Sys/PoolProofs.v. *)
From V.Base Require Import Common.
From V.Generated Require Import Constants.
From V.Sys Require Import Pool PoolProofs.

(* ---- the layout the model parses with is the one the Rust constants/functions describe *)
Lemma C19_pin_offsets :
  (PR_OUT_ASSET_ID_OFFSET, PR_OUT_VOLUME_FEE_BPS_OFFSET, PR_OUT_BLOCK_HASH_OFFSET, PR_OUT_HEADER_LEN,
   PR_OUT_EXIT_SLOT_LEN, LEAF_PI_LEN) = (1, 2, 3, 8, 5, 21).
Proof. reflexivity. Qed.
Lemma C19_pin_pi_len : pi_len_of 1 = POOL_PI_LEN_1 /\ pi_len_of 2 = POOL_PI_LEN_2.
Proof. split; reflexivity. Qed.
Lemma C19_pin_nullifiers_start :
  Z.of_nat (nullifiers_start 1) = POOL_NULLIFIERS_START_1 /\ Z.of_nat (nullifiers_start 2) = POOL_NULLIFIERS_START_2.
Proof. split; reflexivity. Qed.
Lemma C19_pin_counts :
  (Z.of_nat (1 * 2), Z.of_nat (2 * 2), 1, 2, Z.of_nat HEADER)
  = (POOL_EXIT_SLOTS_COUNT_1, POOL_EXIT_SLOTS_COUNT_2, POOL_NULLIFIERS_COUNT_1, POOL_NULLIFIERS_COUNT_2, POOL_EXIT_SLOTS_START).
Proof. reflexivity. Qed.

(* ---- admission: exactly the seven conditions.  [window_verifs] is the attempt counter after the
   window check (0 if a full window has elapsed since the window start). *)
Theorem C19_admit_iff : forall cfg st pr,
  (exists k, o_ret (snd (step cfg st (Push pr))) = RPush (Ok k)) <->
  total_len (s_buckets st) < c_max_proofs cfg
  /\ exists k nulls vol,
       parse_metadata cfg pr = Ok (k, nulls, vol)
       /\ is_dummy k = false
       /\ window_verifs cfg st < c_budget cfg
       /\ p_ver pr = true
       /\ (has_bucket k (s_buckets st) = true \/ zlen (s_buckets st) < c_max_buckets cfg)
       /\ (forall n, In n nulls -> idx_lookup n (s_index st) = None).
Proof. exact push_admit_iff. Qed.

(* "right length and canonical digests": for a pool built by ProofPool::new the parse succeeds exactly on
   the right length (the digests are limbs of canonicalised field elements, hence always canonical) *)
Theorem C19_parse_ok_iff_len : forall cfg pr,
  wf_cfg cfg -> (is_ok (parse_metadata cfg pr) = true <-> zlen (p_pis pr) = c_pi_len cfg).
Proof. exact parse_ok_iff_len. Qed.

(* "its block hash is non-zero" *)
Theorem C19_dummy_is_zero_block_hash : forall cfg pr k nulls vol,
  parse_metadata cfg pr = Ok (k, nulls, vol) ->
  is_dummy k = list_eqb (map to_canonical (firstn 4 (skipn OFF_BH (p_pis pr)))) ZERO_DIGEST.
Proof. exact parse_dummy. Qed.

(* "its bucket already exists", "none of its nullifiers is already pooled", read on the pooled proofs *)
Theorem C19_conditions_on_pooled : forall cfg st,
  Inv cfg st ->
  (forall k, has_bucket k (s_buckets st) = true <-> exists e, In (k, e) (keyed_entries (s_buckets st)))
  /\ (forall n, idx_lookup n (s_index st) = None <-> forall e, In e (pooled st) -> ~ In n (e_nulls e)).
Proof. exact conditions_on_pooled_stmt. Qed.

(* ---- order: the bucket-limit and duplicate-nullifier rejections happen only after the verifier
   was called on this proof and accepted it, with the attempt charged to the budget *)
Theorem C19_order : forall cfg st pr,
  o_ret (snd (step cfg st (Push pr))) = RPush (Err E_BUCKETS)
  \/ o_ret (snd (step cfg st (Push pr))) = RPush (Err E_DUP) ->
  p_ver pr = true
  /\ o_verified (snd (step cfg st (Push pr))) = true
  /\ window_verifs cfg st < c_budget cfg
  /\ s_verifs (fst (step cfg st (Push pr))) = window_verifs cfg st + 1.
Proof. exact push_order. Qed.

(* ---- a rejected push leaves the pool unchanged apart from the budget counter / window start *)
Theorem C19_reject_unchanged : forall cfg st pr c,
  o_ret (snd (step cfg st (Push pr))) = RPush (Err c) ->
  fst (step cfg st (Push pr))
  = set_budget st (s_win_start (fst (step cfg st (Push pr)))) (s_verifs (fst (step cfg st (Push pr)))).
Proof. exact push_reject_unchanged. Qed.

(* ... and how the budget fields move, by rejection reason: untouched before the budget check; window
   bookkeeping only when exhausted; charged by one once the verifier is called *)
Theorem C19_reject_budget : forall cfg st pr c,
  o_ret (snd (step cfg st (Push pr))) = RPush (Err c) ->
  (o_verified (snd (step cfg st (Push pr))) = false /\ (c = E_FULL \/ c = E_LEN \/ c = PANIC \/ c = E_DUMMY)
     /\ fst (step cfg st (Push pr)) = st)
  \/ (o_verified (snd (step cfg st (Push pr))) = false /\ c = E_BUDGET /\ fst (step cfg st (Push pr)) = windowed cfg st)
  \/ (o_verified (snd (step cfg st (Push pr))) = true /\ (c = E_VERIFY \/ c = E_BUCKETS \/ c = E_DUP)
     /\ fst (step cfg st (Push pr)) = charged cfg st).
Proof. exact push_reject_budget. Qed.

(* ---- non-vacuity: one history that is admitted twice and hits every rejection reason *)
Definition ex_pis (bh0 asset null0 sum0 : Z) : list Z :=
  [2; asset; 10; bh0; 0; 0; 0; 77; sum0; 0; 0; 0; 0; 50; 0; 0; 0; 0; null0; 0; 0; 0] ++ repeat 0 7.
Definition ex_cfg : config := mkConfig 2 1 1 3 100 1 29.
Definition ex_history : list op :=
  [ Push (mkProof (ex_pis 0 0 11 100) true);                 (* all-dummy key *)
    Push (mkProof (removelast (ex_pis 1 0 11 100)) true);    (* wrong length *)
    Push (mkProof (ex_pis 1 0 11 100) false);                (* does not verify *)
    Push (mkProof (ex_pis 1 0 11 100) true);                 (* admitted *)
    Push (mkProof (ex_pis 2 0 12 100) true);                 (* second key, max_buckets = 1 *)
    Push (mkProof (ex_pis 1 0 11 100) true);                 (* budget of 3 attempts used up *)
    Advance 100;
    Push (mkProof (ex_pis 1 0 11 100) true);                 (* new window; nullifier 11 already pooled *)
    Push (mkProof (ex_pis 1 0 12 100) true);                 (* admitted *)
    Push (mkProof (ex_pis 1 0 13 100) true) ].               (* max_proofs = 2 *)

Example C19_example_cfg_wf : wf_cfg ex_cfg.
Proof. constructor; cbn; unfold MAX_PROOF_COUNT, pi_len_of, LEAF_PI_LEN; lia. Qed.

Example C19_example_every_reason :
  map o_ret (snd (run ex_cfg (init 0) ex_history))
  = [ RPush (Err E_DUMMY); RPush (Err E_LEN); RPush (Err E_VERIFY); RPush (Ok [1; 0; 0; 0; 0; 10]);
      RPush (Err E_BUCKETS); RPush (Err E_BUDGET); RUnit; RPush (Err E_DUP);
      RPush (Ok [1; 0; 0; 0; 0; 10]); RPush (Err E_FULL) ].
Proof. vm_compute. reflexivity. Qed.

Example C19_example_verifier_calls :
  map o_verified (snd (run ex_cfg (init 0) ex_history))
  = [false; false; true; true; true; false; false; true; true; false]
  /\ map o_restarted (snd (run ex_cfg (init 0) ex_history))
  = [false; false; false; false; false; false; false; true; false; false].
Proof. vm_compute. split; reflexivity. Qed.
