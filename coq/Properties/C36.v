(* C36 - Two-layer composition.

   "When real private batches are aggregated into a public batch, the public output's non-zero exit
   slots sum to the total of the real leaves' output amounts.  Its non-zero nullifiers are exactly the
   real leaves' nullifiers together with the dummy-slot replacement nullifiers of the real private
   batches.  Padding inners add nothing."

   Stated over the specification functions of Spec/LeanPort.v: the inner statements are
   [priv_output H leaves us] (what private_batch_spec proves the private wrapper outputs) and the outer
   statement is [pub_output n address inners] (what C12 / public_batch_spec proves the public wrapper
   outputs).  Proofs: Circ/TwoLayer.v.
     group            = (leaves of one private batch, its dummy-nullifier preimages)
     inner_of H g     = priv_output H (fst g) (snd g)
     group_ok n g     = n leaves, one preimage per leaf, every leaf leaf_wf, every grouped sum < 2^32
     batch_real ls    = some leaf of ls has a non-zero block hash
     amounts5 / chunk4 / zsum / nonzero4   reading a region back as slot sums / digests *)
From Coq Require Import Permutation.
From V.Base Require Import Common.
From V.Generated Require Import Constants.
From V.Circ Require Import Field Core Prims Gadgets SortNet Sorting PrivateBatch PublicBatch PublicBatchProofs TwoLayer.
From V.Spec Require Import LeanPort.

Local Open Scope Z_scope.

(* ---------------------------------------------------------------- pins *)
Lemma C36_pin_layout :
  [PR_LEAF_PI_LEN; PR_OUT_HEADER_LEN; PR_OUT_EXIT_SLOT_LEN; PR_OUT_BLOCK_HASH_OFFSET; PU_HEADER_LEN] = [21; 8; 5; 3; 12].
Proof. reflexivity. Qed.
Lemma C36_pin_leaf_offsets :
  [PR_ASSET_ID_START; PR_OUTPUT_AMOUNT_1_START; PR_OUTPUT_AMOUNT_2_START; PR_VOLUME_FEE_BPS_START;
   PR_NULLIFIER_START; PR_EXIT_1_START; PR_EXIT_2_START; PR_BLOCK_HASH_START; PR_BLOCK_NUMBER_START]
  = [0; 1; 2; 3; 4; 8; 12; 16; 20].
Proof. reflexivity. Qed.

(* ---------------------------------------------------------------- the vocabulary, spelled out *)
Lemma C36_spec_group_ok : forall n (g : group),
  group_ok n g <->
  zlen (fst g) = n /\ length (snd g) = length (fst g) /\ Forall leaf_wf (fst g) /\
  forallb (fun s => fst s <? two32) (groupExits (maskedChildPairs (fst g))) = true.
Proof. reflexivity. Qed.
Lemma C36_spec_batch_real : forall leaves,
  batch_real leaves = existsb (fun q => negb (list_eqb (lf_bh q) [0; 0; 0; 0])) leaves.
Proof. reflexivity. Qed.
Lemma C36_spec_H_shape : forall H, H_shape H <-> forall l, length (H l) = 4%nat /\ Forall canon (H l).
Proof. reflexivity. Qed.
Lemma C36_spec_readback : forall a b c d e (r : list Z),
  amounts5 (a :: b :: c :: d :: e :: r) = a :: amounts5 r /\ amounts5 [] = [] /\
  chunk4 (a :: b :: c :: d :: r) = [a; b; c; d] :: chunk4 r /\ chunk4 [] = [] /\
  zsum (a :: r) = a + zsum r /\ zsum [] = 0 /\ nonzero4 r = negb (list_eqb r [0; 0; 0; 0]).
Proof. intros. repeat split; reflexivity. Qed.
(* every accepted private batch satisfies the sum bound of group_ok *)
Theorem C36_accepted_batches_qualify : forall leaves, priv_compat leaves = true -> sums_ok leaves.
Proof. exact priv_compat_sums_ok. Qed.

(* ---------------------------------------------------------------- the inner statements are well-formed *)
Theorem C36_inner_wf :
  forall (H : list Z -> list Z), H_shape H -> forall n, 2 * n < p ->
  forall g : group, group_ok n g -> inner_wf n (inner_of H g).
Proof. exact inner_of_wf. Qed.

(* a private batch is forwarded as "real" exactly when it contains a real leaf *)
Theorem C36_inner_real_iff :
  forall (H : list Z -> list Z) n (g : group), H_shape H -> group_ok n g ->
    is_dummy_inner (inner_of H g) = negb (batch_real (fst g)).
Proof. exact inner_of_dummy_iff. Qed.

(* conservation inside one private batch *)
Theorem C36_conservation :
  forall leaves, slotsTotal (groupExits (maskedChildPairs leaves)) = inputExitTotal leaves.
Proof. exact exits_conservation. Qed.

(* ---------------------------------------------------------------- value *)
(* the 2NM slot sums of the public output (felts 12 + 5k) add up to the real leaves' output amounts;
   all-dummy private batches contribute 0, so the sum may be taken over all groups or over the real ones *)
Theorem C36_value :
  forall (H : list Z -> list Z) n address (groups : list group),
    H_shape H -> 1 <= n -> 2 * n < p -> length address = 4%nat -> Forall (group_ok n) groups ->
    let out := pub_output n address (map (inner_of H) groups) in
    zsum (map (fun k => nth (12 + 5 * k) out 0) (seq 0 (Z.to_nat (2 * n * zlen groups))))
    = zsum (map (fun g => inputExitTotal (fst g)) groups) /\
    zsum (map (fun k => nth (12 + 5 * k) out 0) (seq 0 (Z.to_nat (2 * n * zlen groups))))
    = zsum (map (fun g => inputExitTotal (fst g)) (filter (fun g => batch_real (fst g)) groups)).
Proof. exact two_layer_value_felts. Qed.

(* ---------------------------------------------------------------- nullifiers *)
Theorem C36_nullifiers :
  forall (H : list Z -> list Z), H_shape H -> forall n, 1 <= n -> 2 * n < p ->
  forall address (groups : list group), length address = 4%nat -> Forall (group_ok n) groups ->
    let out := pub_output n address (map (inner_of H) groups) in
    let M := zlen groups in
    region out (12 + 10 * n * M) (4 * n * M)
    = concat (map (fun g => if batch_real (fst g)
                            then concat (sort_spec (selected_nullifiers H (fst g) (snd g)))
                            else repeat 0 (Z.to_nat (4 * n))) groups) /\
    (Forall (fun g => batch_real (fst g) = true ->
                      Forall (fun d => d <> zero4) (selected_nullifiers H (fst g) (snd g))) groups ->
     Permutation (filter nonzero4 (chunk4 (region out (12 + 10 * n * M) (4 * n * M))))
                 (concat (map (fun g => selected_nullifiers H (fst g) (snd g))
                              (filter (fun g => batch_real (fst g)) groups)))).
Proof. exact two_layer_nullifiers. Qed.

(* ---------------------------------------------------------------- padding *)
(* appending inners with a zero block hash (any other content): acceptance and the header references are
   unchanged, the slot count grows by 2NK, each region only gets zeros appended, hence the same total
   and the same non-zero nullifiers *)
Theorem C36_padding_adds_nothing :
  forall n address inners pads,
    1 <= n -> Forall (inner_wf n) inners -> Forall (fun d => is_dummy_inner d = true) pads ->
    let K := length pads in
    pub_compat (inners ++ pads) = pub_compat inners /\
    pub_ref (inners ++ pads) = pub_ref inners /\
    pub_header n address (inners ++ pads) =
      (let '(a, f, bh, bn) := pub_ref inners in address ++ [a; f] ++ bh ++ [bn; 2 * n * (zlen inners + Z.of_nat K)]) /\
    pub_output n address (inners ++ pads) =
      pub_header n address (inners ++ pads)
      ++ (pub_exits n inners ++ repeat 0 (K * Z.to_nat (10 * n)))
      ++ (pub_nulls n inners ++ repeat 0 (K * Z.to_nat (4 * n))) /\
    zsum (amounts5 (pub_exits n (inners ++ pads))) = zsum (amounts5 (pub_exits n inners)) /\
    filter nonzero4 (chunk4 (pub_nulls n (inners ++ pads))) = filter nonzero4 (chunk4 (pub_nulls n inners)).
Proof. exact padding_adds_nothing. Qed.
Lemma C36_spec_output_parts : forall n address inners,
  pub_output n address inners = pub_header n address inners ++ pub_exits n inners ++ pub_nulls n inners /\
  pub_exits n inners = concat (map (fun q => fwd_region q 8 (10 * n)) inners) /\
  pub_nulls n inners = concat (map (fun q => fwd_region q (8 + 10 * n) (4 * n)) inners).
Proof. exact pub_output_parts. Qed.

(* ---------------------------------------------------------------- non-vacuity: N = 2, M = 3 *)
Example C36_ex_H (l : list Z) : list Z := [1 + (fold_left Z.add l 0) mod 1000; 2; 3; 4].
Example C36_ex_H_shape : H_shape C36_ex_H.
Proof.
  intros l. split; [reflexivity|]. unfold C36_ex_H.
  repeat constructor; unfold canon, p; lia.
Qed.
Example C36_ex_leaf (o1 o2 : Z) (null e1 e2 bh : list Z) : list Z := [7; o1; o2; 25] ++ null ++ e1 ++ e2 ++ bh ++ [77].
Example C36_ex_bh : list Z := [11; 12; 13; 14].
(* group 1: two real leaves, three of the four exits to the same account;
   group 2: one real leaf and one dummy leaf (its nullifier is replaced by H(H(u)));
   group 3: all dummy (a padding private batch) *)
Example C36_ex_groups : list group :=
  [([C36_ex_leaf 100 20 [1; 1; 1; 1] [5; 5; 5; 5] [6; 6; 6; 6] C36_ex_bh;
     C36_ex_leaf 3 4000 [2; 2; 2; 2] [5; 5; 5; 5] [5; 5; 5; 5] C36_ex_bh], [[9; 9; 9; 9]; [8; 8; 8; 8]]);
   ([C36_ex_leaf 50 60 [3; 3; 3; 3] [6; 6; 6; 6] [7; 7; 7; 7] C36_ex_bh;
     C36_ex_leaf 999 999 [4; 4; 4; 4] [6; 6; 6; 6] [7; 7; 7; 7] [0; 0; 0; 0]], [[9; 9; 9; 9]; [8; 8; 8; 8]]);
   ([C36_ex_leaf 999 999 [4; 4; 4; 4] [6; 6; 6; 6] [7; 7; 7; 7] [0; 0; 0; 0];
     C36_ex_leaf 1 1 [4; 4; 4; 4] [6; 6; 6; 6] [7; 7; 7; 7] [0; 0; 0; 0]], [[1; 2; 3; 4]; [5; 6; 7; 8]])].
Example C36_ex_hypotheses :
  Forall (group_ok 2) C36_ex_groups /\
  Forall (fun g => priv_compat (fst g) = true) C36_ex_groups /\
  map (fun g => batch_real (fst g)) C36_ex_groups = [true; true; false] /\
  pub_compat (map (inner_of C36_ex_H) C36_ex_groups) = true /\
  Forall (fun g => batch_real (fst g) = true ->
                   Forall (fun d => d <> zero4) (selected_nullifiers C36_ex_H (fst g) (snd g))) C36_ex_groups.
Proof.
  split; [apply groups_okb_spec; vm_compute; reflexivity|].
  split; [apply (forallb_Forall_true (fun g : group => priv_compat (fst g))); vm_compute; reflexivity|].
  split; [vm_compute; reflexivity|]. split; [vm_compute; reflexivity|].
  apply nonzero_premise_b. vm_compute. reflexivity.
Qed.
Example C36_ex_value :
  let out := pub_output 2 [101; 102; 103; 104] (map (inner_of C36_ex_H) C36_ex_groups) in
  map (fun k => nth (12 + 5 * k) out 0) (seq 0 12) = [4103; 20; 0; 0; 50; 60; 0; 0; 0; 0; 0; 0] /\
  zsum (map (fun g => inputExitTotal (fst g)) C36_ex_groups) = 100 + 20 + 3 + 4000 + 50 + 60.
Proof. vm_compute. split; reflexivity. Qed.
Example C36_ex_nullifiers :
  let out := pub_output 2 [101; 102; 103; 104] (map (inner_of C36_ex_H) C36_ex_groups) in
  filter nonzero4 (chunk4 (region out (12 + 10 * 2 * 3) (4 * 2 * 3)))
  = [[1; 1; 1; 1]; [2; 2; 2; 2]; [3; 3; 3; 3]; C36_ex_H (C36_ex_H [8; 8; 8; 8])].
Proof. vm_compute. reflexivity. Qed.
