(* C21 - Pooled proofs leave only by settlement, expiry or explicit removal; snapshots.
   Model: Sys/Pool.v (incl. the public-batch preflight); proofs: Sys/PoolProofs.v. *)
From V.Base Require Import Common.
From V.Generated Require Import Constants.
From V.Sys Require Import Pool PoolProofs.

(* a pooled proof disappears in a step only if the step is a settlement containing one of its
   nullifiers, an expiry with the proof older than the cutoff, or the removal of its bucket - which
   returns it *)
Theorem C21_leaves_only_by : forall cfg st o e,
  Inv cfg st -> In e (pooled st) -> ~ In e (pooled (fst (step cfg st o))) ->
  (exists S n, o = EvictSettled S /\ In n (e_nulls e) /\ In n S)
  \/ (exists a, o = EvictOlder a /\ sat_sub (s_now st) (e_at e) > a)
  \/ (exists k l, o = RemoveBucket k /\ In (k, e) (keyed_entries (s_buckets st))
                  /\ o_ret (snd (step cfg st o)) = RRemoved l /\ In (e_proof e) l).
Proof. exact leaves_only_by. Qed.

(* each of those operations removes exactly the proofs it targets (order of the rest preserved) and
   reports their number; the state after it satisfies the invariant again (C20), so the index lost
   exactly their nullifiers *)
Theorem C21_evict_exact : forall cfg st,
  Inv cfg st ->
  (forall S,
     pooled (fst (step cfg st (EvictSettled S))) = filter (fun e => negb (stale S e)) (pooled st)
     /\ o_ret (snd (step cfg st (EvictSettled S))) = RCount (zlen (filter (stale S) (pooled st))))
  /\ (forall a,
     pooled (fst (step cfg st (EvictOlder a))) = filter (fun e => negb (expired (s_now st) a e)) (pooled st)
     /\ o_ret (snd (step cfg st (EvictOlder a))) = RCount (zlen (filter (expired (s_now st) a) (pooled st))))
  /\ (forall k,
     keyed_entries (s_buckets (fst (step cfg st (RemoveBucket k))))
       = filter (fun ke => negb (list_eqb (fst ke) k)) (keyed_entries (s_buckets st))
     /\ o_ret (snd (step cfg st (RemoveBucket k))) = RRemoved (map e_proof (bucket_entries k (s_buckets st)))).
Proof. exact evict_exact_stmt. Qed.

Theorem C21_stale_expired_meaning : forall S now a e,
  (stale S e = true <-> exists n, In n (e_nulls e) /\ In n S)
  /\ (expired now a e = true <-> sat_sub now (e_at e) > a).
Proof. exact stale_expired_meaning_stmt. Qed.

(* snapshots remove nothing and return the first min(count, batch size) proofs of the bucket in
   admission order ([bucket_entries] lists a key's pooled proofs in that order) *)
Theorem C21_snapshot : forall cfg st k,
  Inv cfg st ->
  keyed_entries (s_buckets (fst (step cfg st (Snapshot k)))) = keyed_entries (s_buckets st)
  /\ s_index (fst (step cfg st (Snapshot k))) = s_index st
  /\ (bucket_entries k (s_buckets st) = [] -> o_ret (snd (step cfg st (Snapshot k))) = RSnap None)
  /\ (bucket_entries k (s_buckets st) <> [] ->
      o_ret (snd (step cfg st (Snapshot k)))
      = RSnap (Some (map e_proof (firstn (Z.to_nat (Z.min (zlen (bucket_entries k (s_buckets st))) (c_batch cfg)))
                                         (bucket_entries k (s_buckets st)))))).
Proof. exact snapshot_exact. Qed.

(* every snapshot of a state satisfying the invariant is a batch the public-batch preflight accepts *)
Theorem C21_snapshot_preflight_ok : forall cfg st k ps,
  wf_cfg cfg -> Inv cfg st ->
  o_ret (snd (step cfg st (Snapshot k))) = RSnap (Some ps) -> preflight cfg ps = Ok tt.
Proof. exact snapshot_preflight_ok_stmt. Qed.

(* ---- non-vacuity: snapshots before, between and after evictions *)
Definition ex_pis (bh0 null0 : Z) : list Z :=
  [2; 0; 10; bh0; 0; 0; 0; 77; 100; 0; 0; 0; 0; 50; 0; 0; 0; 0; null0; 0; 0; 0] ++ repeat 0 7.
Definition ex_cfg : config := mkConfig 4 2 2 8 1000 1 29.
Definition K1 : key := [1; 0; 0; 0; 0; 10].
Definition ex_history : list op :=
  [ Push (mkProof (ex_pis 1 11) true); Advance 10; Push (mkProof (ex_pis 1 12) true);
    Push (mkProof (ex_pis 1 13) true); Push (mkProof (ex_pis 2 14) true);
    Snapshot K1;                                  (* the two oldest of three *)
    EvictSettled [[11; 0; 0; 0]; [99; 0; 0; 0]];  (* removes one *)
    Snapshot K1;
    Advance 5; EvictOlder 10;                     (* nothing is older than 10 *)
    EvictOlder 4;                                 (* everything is *)
    Snapshot K1 ].
Example C21_example :
  map (fun o => match o_ret o with
                | RSnap (Some ps) => map (fun pr => nth 18 (p_pis pr) 0) ps
                | RCount n => [n]
                | _ => [] end) (snd (run ex_cfg (init 0) ex_history))
  = [ []; []; []; []; []; [11; 12]; [1]; [12; 13]; []; [0]; [3]; [] ].
Proof. vm_compute. reflexivity. Qed.
Example C21_example_preflight_rejects :
  preflight ex_cfg [] = Err PF_EMPTY
  /\ preflight ex_cfg [mkProof (ex_pis 1 11) true; mkProof (ex_pis 2 12) true] = Err PF_BLOCK
  /\ preflight ex_cfg [mkProof (ex_pis 1 11) false] = Err PF_VERIFY
  /\ preflight ex_cfg [mkProof (ex_pis 0 11) true] = Err PF_ALL_DUMMY
  /\ preflight ex_cfg [mkProof (ex_pis 1 11) true; mkProof (ex_pis 1 12) true; mkProof (ex_pis 1 13) true] = Err PF_TOO_MANY
  /\ preflight ex_cfg [mkProof (ex_pis 1 11) true; mkProof (ex_pis 0 12) true] = Ok tt.
Proof. vm_compute. repeat split; reflexivity. Qed.

(* "the oldest": no proof left behind by a snapshot (or by any prefix of the bucket) was admitted
   earlier than a returned one; [TimeInv] holds after every history (C20_admission_order_reachable) *)
Theorem C21_snapshot_oldest : forall cfg st k n e1 e2,
  Inv cfg st -> TimeInv st ->
  In e1 (firstn n (bucket_entries k (s_buckets st))) -> In e2 (skipn n (bucket_entries k (s_buckets st))) ->
  e_at e1 <= e_at e2.
Proof. exact snapshot_oldest. Qed.
