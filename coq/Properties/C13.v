(* C13 - Acceptance condition of the public-batch wrapper.

   "The public-batch constraints are satisfiable iff all inner statements with a non-zero block hash
   share one block hash, one asset id and one fee.  Inners with a zero block hash are exempt from every
   check.  Slot contents, nullifiers and block numbers are never cross-checked."

   Model: Circ/PublicBatch.v; specification: Spec/LeanPort.v ([pub_compat]); proofs:
   Circ/PublicBatchProofs.v.  n = leaves per private batch; [inner_wf n q]: q has 21 n + 8 canonical felts. *)
From V.Base Require Import Common.
From V.Generated Require Import Constants.
From V.Circ Require Import Field Core Prims Gadgets PrivateBatch PublicBatch PublicBatchProofs.
From V.Spec Require Import LeanPort.

Local Open Scope Z_scope.

Lemma C13_pin_inner_offsets :
  [PR_OUT_ASSET_ID_OFFSET; PR_OUT_VOLUME_FEE_BPS_OFFSET; PR_OUT_BLOCK_HASH_OFFSET; PR_OUT_BLOCK_NUMBER_OFFSET;
   PR_OUT_HEADER_LEN; PR_OUT_EXIT_SLOT_LEN; PR_LEAF_PI_LEN] = [1; 2; 3; 7; 8; 5; 21].
Proof. reflexivity. Qed.

Lemma C13_spec_fields : forall q,
  in_asset q = nth 1 q 0 /\ in_fee q = nth 2 q 0 /\ in_bh q = firstn 4 (skipn 3 q) /\ in_bn q = nth 7 q 0.
Proof. repeat split; reflexivity. Qed.
Lemma C13_spec_real_dummy : forall q,
  is_dummy_inner q = list_eqb (in_bh q) [0; 0; 0; 0] /\ is_real_inner q = negb (is_dummy_inner q).
Proof. split; reflexivity. Qed.

(* satisfiable iff compatible *)
Theorem C13_accept_iff :
  forall (H : list Z -> list Z) (n : Z), 1 <= n ->
  forall (address : list Z) (inners : list (list Z)), Forall (inner_wf n) inners ->
    ((exists out, rel H (public_batch n address inners) (fun o => o = out)) <-> pub_compat inners = true).
Proof. exact public_batch_accept_iff. Qed.

(* compatible = all real inners agree pairwise on block hash, asset and fee *)
Theorem C13_compat_spelled_out :
  forall inners,
    pub_compat inners = true <->
    forall a b, In a inners -> In b inners -> is_real_inner a = true -> is_real_inner b = true ->
                in_bh a = in_bh b /\ in_asset a = in_asset b /\ in_fee a = in_fee b.
Proof. exact pub_compat_iff. Qed.

(* a dummy inner may be replaced by any other dummy: nothing but its zero block hash is looked at *)
Theorem C13_dummy_exempt :
  forall l1 d d' l2, is_dummy_inner d = true -> is_dummy_inner d' = true ->
    pub_compat (l1 ++ d :: l2) = pub_compat (l1 ++ d' :: l2).
Proof. exact pub_compat_dummy_exempt. Qed.

Theorem C13_dummy_exempt_circuit :
  forall (H : list Z -> list Z) (n : Z), 1 <= n ->
  forall address l1 d d' l2,
    Forall (inner_wf n) (l1 ++ d :: l2) -> inner_wf n d' ->
    is_dummy_inner d = true -> is_dummy_inner d' = true ->
    ((exists out, rel H (public_batch n address (l1 ++ d :: l2)) (fun o => o = out)) <->
     (exists out, rel H (public_batch n address (l1 ++ d' :: l2)) (fun o => o = out))).
Proof. exact public_batch_dummy_exempt. Qed.

(* acceptance depends only on the (asset, fee, block hash) triples: the count felt, block numbers,
   slots, nullifiers and padding of the inners never matter *)
Theorem C13_no_cross_checks :
  forall inners inners',
    map (fun q => (in_asset q, in_fee q, in_bh q)) inners = map (fun q => (in_asset q, in_fee q, in_bh q)) inners' ->
    pub_compat inners = pub_compat inners'.
Proof. exact pub_compat_only_keys. Qed.

Theorem C13_no_cross_checks_circuit :
  forall (H : list Z -> list Z) (n : Z), 1 <= n ->
  forall address address' inners inners',
    Forall (inner_wf n) inners -> Forall (inner_wf n) inners' ->
    map (fun q => (in_asset q, in_fee q, in_bh q)) inners = map (fun q => (in_asset q, in_fee q, in_bh q)) inners' ->
    ((exists out, rel H (public_batch n address inners) (fun o => o = out)) <->
     (exists out, rel H (public_batch n address' inners') (fun o => o = out))).
Proof. exact public_batch_only_keys. Qed.

(* ---------------------------------------------------------------- non-vacuity: N = 2 *)
Example C13_ex_H (l : list Z) : list Z := [1 + (fold_left Z.add l 0) mod 1000; 2; 3; 4].
Example C13_ex_inner (count asset fee : Z) (bh : list Z) (bn base : Z) : list Z :=
  [count; asset; fee] ++ bh ++ [bn] ++ map (fun k => base + Z.of_nat k) (seq 0 28) ++ repeat 0 14.
Example C13_ex_address : list Z := [101; 102; 103; 104].
(* accepted: a dummy with foreign asset/fee, two real inners differing in count felt, block number, slots, nullifiers *)
Example C13_ex_good : list (list Z) :=
  [C13_ex_inner 4 9 9 [0; 0; 0; 0] 5 5000; C13_ex_inner 4 7 25 [11; 12; 13; 14] 77 1000;
   C13_ex_inner 99 7 25 [11; 12; 13; 14] 78 1000].
Example C13_ex_good_accepted :
  Forall (inner_wf 2) C13_ex_good /\ pub_compat C13_ex_good = true /\
  exists out, rel C13_ex_H (public_batch 2 C13_ex_address C13_ex_good) (fun o => o = out).
Proof.
  assert (F : Forall (inner_wf 2) C13_ex_good) by (apply inners_wfb_spec; vm_compute; reflexivity).
  split; [exact F|]. split; [reflexivity|].
  apply (public_batch_accept_iff C13_ex_H 2 ltac:(lia) C13_ex_address C13_ex_good F). reflexivity.
Qed.
(* rejected: fee, asset or one block-hash limb differs between two real inners *)
Example C13_ex_bad_fee : list (list Z) :=
  [C13_ex_inner 4 7 25 [11; 12; 13; 14] 77 1000; C13_ex_inner 4 7 26 [11; 12; 13; 14] 77 1000].
Example C13_ex_bad_asset : list (list Z) :=
  [C13_ex_inner 4 7 25 [11; 12; 13; 14] 77 1000; C13_ex_inner 4 8 25 [11; 12; 13; 14] 77 1000].
Example C13_ex_bad_block : list (list Z) :=
  [C13_ex_inner 4 7 25 [11; 12; 13; 14] 77 1000; C13_ex_inner 4 7 25 [11; 12; 13; 15] 77 1000].
Example C13_ex_bad_rejected :
  forall bad, In bad [C13_ex_bad_fee; C13_ex_bad_asset; C13_ex_bad_block] ->
    Forall (inner_wf 2) bad /\ pub_compat bad = false /\
    hon C13_ex_H (public_batch 2 C13_ex_address bad) = None /\
    ~ exists out, rel C13_ex_H (public_batch 2 C13_ex_address bad) (fun o => o = out).
Proof.
  intros bad I.
  assert (F : Forall (inner_wf 2) bad /\ pub_compat bad = false /\ hon C13_ex_H (public_batch 2 C13_ex_address bad) = None).
  { cbn [In] in I. destruct I as [<-|[<-|[<-|[]]]];
      (split; [apply inners_wfb_spec; vm_compute; reflexivity|split; vm_compute; reflexivity]). }
  destruct F as (F & C & Hh). split; [exact F|]. split; [exact C|]. split; [exact Hh|].
  rewrite (public_batch_accept_iff C13_ex_H 2 ltac:(lia) C13_ex_address bad F), C. discriminate.
Qed.
(* a real inner placed after dummies still fixes the references; a second one must match it *)
Example C13_ex_exempt_instance :
  pub_compat (C13_ex_inner 4 1 2 [0; 0; 0; 0] 3 0 :: C13_ex_bad_fee) = false /\
  pub_compat [C13_ex_inner 4 1 2 [0; 0; 0; 0] 3 0; C13_ex_inner 4 7 25 [11; 12; 13; 14] 77 1000;
              C13_ex_inner 4 3 4 [0; 0; 0; 0] 3 0] = true.
Proof. split; reflexivity. Qed.
