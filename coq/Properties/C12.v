(* C12 - Layout of the public-batch output.

   "For every accepted vector of M private-batch statements, the public-batch output is the aggregator
   address, the asset id, fee, block hash and block number of the first real inner (zeros if none), and
   the constant 2NM.  It is followed by every inner's 2N exit slots and then every inner's N
   nullifiers, each in inner order, so inner i always owns the i-th contiguous segment of each region.
   An all-dummy inner (zero block hash) contributes zeroed slots and zeroed nullifiers."

   Model: Circ/PublicBatch.v ([public_batch] = build_public_batch_constraints of
   wormhole/aggregator/src/public_batch/circuit/circuit_logic.rs, tied to the implementation by the
   differential run of harness/src/bin/wrappers.rs).  Specification: Spec/LeanPort.v ([pub_output],
   [pub_compat], [inner_wf]).  Proofs: Circ/PublicBatchProofs.v.
   [rel H c post] (Circ/Core.v): an arbitrary (adversarial) prover can satisfy the constraints of [c]
   with an output satisfying [post].  n = N (leaves per private batch), M = length inners. *)
From V.Base Require Import Common.
From V.Generated Require Import Constants.
From V.Circ Require Import Field Core Prims Gadgets PrivateBatch PublicBatch PublicBatchProofs.
From V.Spec Require Import LeanPort.

Local Open Scope Z_scope.

(* ---------------------------------------------------------------- constants of the property text, pinned to /repo *)
Lemma C12_pin_inner_offsets :
  [PR_OUT_ASSET_ID_OFFSET; PR_OUT_VOLUME_FEE_BPS_OFFSET; PR_OUT_BLOCK_HASH_OFFSET; PR_OUT_BLOCK_NUMBER_OFFSET;
   PR_OUT_HEADER_LEN; PR_OUT_EXIT_SLOT_LEN; PR_LEAF_PI_LEN] = [1; 2; 3; 7; 8; 5; 21].
Proof. reflexivity. Qed.
Lemma C12_pin_public_layout :
  [PU_AGGREGATOR_ADDRESS_START; PU_ASSET_ID_START; PU_VOLUME_FEE_BPS_START; PU_BLOCK_HASH_START;
   PU_BLOCK_NUMBER_START; PU_TOTAL_EXIT_SLOTS_START; PU_HEADER_LEN; PU_AGGREGATOR_ADDRESS_LEN]
  = [0; 4; 5; 6; 10; 11; 12; 4].
Proof. reflexivity. Qed.

(* ---------------------------------------------------------------- the vocabulary, spelled out *)
Lemma C12_spec_region : forall (l : list Z) s len, region l s len = firstn (Z.to_nat len) (skipn (Z.to_nat s) l).
Proof. reflexivity. Qed.
Lemma C12_spec_inner_wf : forall n q, inner_wf n q <-> zlen q = PR_LEAF_PI_LEN * n + PR_OUT_HEADER_LEN /\ Forall canon q.
Proof. reflexivity. Qed.
Lemma C12_spec_fields : forall q,
  in_asset q = nth 1 q 0 /\ in_fee q = nth 2 q 0 /\ in_bh q = firstn 4 (skipn 3 q) /\ in_bn q = nth 7 q 0.
Proof. repeat split; reflexivity. Qed.
Lemma C12_spec_real_dummy : forall q,
  is_dummy_inner q = list_eqb (firstn 4 (skipn 3 q)) [0; 0; 0; 0] /\ is_real_inner q = negb (is_dummy_inner q).
Proof. split; reflexivity. Qed.
Lemma C12_spec_pub_output : forall n address inners,
  pub_output n address inners =
  address
  ++ (match find is_real_inner inners with
      | Some q => [in_asset q; in_fee q] ++ in_bh q ++ [in_bn q; 2 * n * zlen inners]
      | None => [0; 0] ++ [0; 0; 0; 0] ++ [0; 2 * n * zlen inners]
      end
      ++ concat (map (fun q => if is_dummy_inner q then repeat 0 (Z.to_nat (10 * n)) else region q 8 (10 * n)) inners)
      ++ concat (map (fun q => if is_dummy_inner q then repeat 0 (Z.to_nat (4 * n))
                               else region q (8 + 10 * n) (4 * n)) inners)).
Proof. exact pub_output_spelled. Qed.

(* ---------------------------------------------------------------- the output of every accepted vector *)
Theorem C12_public_batch_output :
  forall (H : list Z -> list Z) (n : Z), 1 <= n ->
  forall (address : list Z) (inners : list (list Z)) (post : list Z -> Prop),
    Forall (inner_wf n) inners ->
    rel H (public_batch n address inners) post -> post (pub_output n address inners).
Proof. exact public_batch_output. Qed.

(* ... and that output is reached exactly when the vector is compatible (C13) *)
Theorem C12_public_batch_spec :
  forall (H : list Z -> list Z) (n : Z), 1 <= n ->
  forall (address : list Z) (inners : list (list Z)), Forall (inner_wf n) inners ->
  forall post : list Z -> Prop,
    rel H (public_batch n address inners) post <->
    pub_compat inners = true /\ post (pub_output n address inners).
Proof. exact public_batch_spec. Qed.

Theorem C12_output_length :
  forall n address inners, 1 <= n -> length address = 4%nat -> Forall (inner_wf n) inners ->
    zlen (pub_output n address inners) = 12 + 14 * n * zlen inners.
Proof. exact pub_output_zlen. Qed.

(* felts 0..11: address, then asset / fee / block hash / block number of the first real inner, then 2NM *)
Theorem C12_header :
  forall n address inners, 1 <= n -> length address = 4%nat -> Forall (inner_wf n) inners ->
    region (pub_output n address inners) 0 12 =
    address ++ (match find is_real_inner inners with
                | Some q => [nth 1 q 0; nth 2 q 0] ++ firstn 4 (skipn 3 q) ++ [nth 7 q 0]
                | None => [0; 0; 0; 0; 0; 0; 0]
                end) ++ [2 * n * zlen inners].
Proof. exact pub_output_header_spelled. Qed.

(* inner i owns the i-th segment of the exit region and the i-th segment of the nullifier region *)
Theorem C12_segment_i :
  forall n address inners i,
    1 <= n -> length address = 4%nat -> Forall (inner_wf n) inners -> (i < length inners)%nat ->
    region (pub_output n address inners) (12 + Z.of_nat i * (10 * n)) (10 * n)
    = (if is_real_inner (nth i inners []) then region (nth i inners []) 8 (10 * n)
       else repeat 0 (Z.to_nat (10 * n))) /\
    region (pub_output n address inners) (12 + 10 * n * zlen inners + Z.of_nat i * (4 * n)) (4 * n)
    = (if is_real_inner (nth i inners []) then region (nth i inners []) (8 + 10 * n) (4 * n)
       else repeat 0 (Z.to_nat (4 * n))).
Proof. exact pub_output_segments. Qed.

(* the two regions as a whole *)
Theorem C12_regions :
  forall n address inners, 1 <= n -> length address = 4%nat -> Forall (inner_wf n) inners ->
    region (pub_output n address inners) 12 (10 * n * zlen inners)
    = concat (map (fun q => fwd_region q 8 (10 * n)) inners) /\
    region (pub_output n address inners) (12 + 10 * n * zlen inners) (4 * n * zlen inners)
    = concat (map (fun q => fwd_region q (8 + 10 * n) (4 * n)) inners).
Proof. exact pub_output_regions. Qed.

Theorem C12_dummy_inner_zeroed :
  forall n address inners i,
    1 <= n -> length address = 4%nat -> Forall (inner_wf n) inners -> (i < length inners)%nat ->
    firstn 4 (skipn 3 (nth i inners [])) = [0; 0; 0; 0] ->
    region (pub_output n address inners) (12 + Z.of_nat i * (10 * n)) (10 * n) = repeat 0 (Z.to_nat (10 * n)) /\
    region (pub_output n address inners) (12 + 10 * n * zlen inners + Z.of_nat i * (4 * n)) (4 * n)
    = repeat 0 (Z.to_nat (4 * n)).
Proof. exact pub_output_dummy_zeroed. Qed.

(* ---------------------------------------------------------------- non-vacuity: N = 2, M = 3 *)
Example C12_ex_H (l : list Z) : list Z := [1 + (fold_left Z.add l 0) mod 1000; 2; 3; 4].
(* an inner statement: [2N; asset; fee; bh(4); bn; 20 exit felts; 8 nullifier felts; 14 padding felts] *)
Example C12_ex_inner (asset fee : Z) (bh : list Z) (bn base : Z) : list Z :=
  [4; asset; fee] ++ bh ++ [bn] ++ map (fun k => base + Z.of_nat k) (seq 0 28) ++ repeat 0 14.
Example C12_ex_address : list Z := [101; 102; 103; p - 1].
(* a dummy carrying garbage, then two real inners with the same (asset, fee, block hash) *)
Example C12_ex_inners : list (list Z) :=
  [C12_ex_inner 9 9 [0; 0; 0; 0] 5 5000; C12_ex_inner 7 25 [11; 12; 13; 14] 77 1000;
   C12_ex_inner 7 25 [11; 12; 13; 14] 78 2000].
Example C12_ex_wf : Forall (inner_wf 2) C12_ex_inners /\ length C12_ex_address = 4%nat /\ pub_compat C12_ex_inners = true.
Proof. split; [apply inners_wfb_spec; vm_compute; reflexivity|split; reflexivity]. Qed.
Example C12_ex_output :
  pub_output 2 C12_ex_address C12_ex_inners =
  [101; 102; 103; p - 1; 7; 25; 11; 12; 13; 14; 77; 12]
  ++ repeat 0 20 ++ map (fun k => 1000 + Z.of_nat k) (seq 0 20) ++ map (fun k => 2000 + Z.of_nat k) (seq 0 20)
  ++ repeat 0 8 ++ map (fun k => 1020 + Z.of_nat k) (seq 0 8) ++ map (fun k => 2020 + Z.of_nat k) (seq 0 8).
Proof. vm_compute. reflexivity. Qed.
Example C12_ex_accepted :
  rel C12_ex_H (public_batch 2 C12_ex_address C12_ex_inners) (fun o => o = pub_output 2 C12_ex_address C12_ex_inners) /\
  hon C12_ex_H (public_batch 2 C12_ex_address C12_ex_inners) = Some (pub_output 2 C12_ex_address C12_ex_inners).
Proof.
  split; [|vm_compute; reflexivity].
  apply (public_batch_spec C12_ex_H 2 ltac:(lia) C12_ex_address C12_ex_inners (proj1 C12_ex_wf)).
  split; reflexivity.
Qed.
(* all inners dummy: zero header references, everything zeroed *)
Example C12_ex_all_dummy :
  pub_output 2 C12_ex_address [C12_ex_inner 9 9 [0; 0; 0; 0] 5 5000; C12_ex_inner 8 8 [0; 0; 0; 0] 6 6000]
  = C12_ex_address ++ [0; 0; 0; 0; 0; 0; 0; 8] ++ repeat 0 56.
Proof. vm_compute. reflexivity. Qed.
