(* E2E - The three circuit layers composed: statements about the whole system.

   For ALL leaf assignments, all batch sizes, all (adversarial) witnesses of every layer, every hash function with
   4 canonical output felts.  The per-layer theorems (C01-C04 leaf, C06-C09 private batch, C12/C13/C36 public batch,
   C11 recursion) are stated over well-formed child STATEMENTS; here those premises are discharged by acceptance of
   the layer below.  The only assumptions left are
     - the shape of the hash ([hash_wf H]: 4 canonical felts),
     - for the full circuits (section 6): knowledge soundness of the proof system, as an explicit premise
       ([leaf_knowledge_sound], [private_batch_knowledge_sound]),
     - for the block number (section 5): collision freedom of H on the header preimages of the real leaves of the
       batch ([header_collision_free]).

   Vocabulary (Circ/EndToEnd.v; spelled out below by reflexivity lemmas)
     i : LeafIn                 an assignment of ALL targets of the leaf circuit (public and private)
     wf_in i                    every target holds a field element, every vector has its length
     rel H c post               some witness (hint wires chosen adversarially) satisfies every constraint of c
     real_leaf i                the statement's block hash is not [0;0;0;0] - the WRAPPER's notion of a real slot
     is_dummy_stmt i            the LEAF circuit's notion of a dummy: block hash zero AND both outputs zero
     real_out_total / real_in_total / real_net_deposits    sums over the real leaves of out1+out2 / input / input*(10000-fee)
     out_exit_slots n out       the 2n (sum, account) slots of a private-batch output;  out_nullifiers n out  its n nullifiers
     batch_accepted H n b o     o is the output of a satisfying witness of the n-slot private-batch wrapper over
                                leaf-accepted assignments b = (assignments, dummy-nullifier preimages)

   Proofs: Circ/EndToEnd.v. *)
From Coq Require Import ZArith List Bool Permutation Sorted.
From V.Base Require Import Common.
From V.Generated Require Import Constants.
From V.Circ Require Import Field Core Prims Gadgets SortNet Sorting Leaf LeafProofs PrivateBatch PrivateBatchProofs
     PublicBatch PublicBatchProofs TwoLayer Recursion RecursionProofs EndToEnd.
From V.Spec Require Import LeanPort.
Import ListNotations.
Ltac Zify.zify_post_hook ::= Z.div_mod_to_equations.

Local Open Scope Z_scope.

(* ---------------------------------------------------------------- constants pinned to /repo *)
Lemma E2E_pin_layout :
  [PR_LEAF_PI_LEN; PR_OUT_HEADER_LEN; PR_OUT_EXIT_SLOT_LEN; PU_HEADER_LEN; MAX_PROOF_COUNT] = [21; 8; 5; 12; 64].
Proof. reflexivity. Qed.
Lemma E2E_pin_private_header :
  [PR_OUT_ASSET_ID_OFFSET; PR_OUT_VOLUME_FEE_BPS_OFFSET; PR_OUT_BLOCK_HASH_OFFSET; PR_OUT_BLOCK_NUMBER_OFFSET] = [1; 2; 3; 7].
Proof. reflexivity. Qed.
Lemma E2E_pin_public_header :
  [PU_ASSET_ID_START; PU_VOLUME_FEE_BPS_START; PU_BLOCK_HASH_START; PU_BLOCK_NUMBER_START; PU_TOTAL_EXIT_SLOTS_START]
  = [4; 5; 6; 10; 11].
Proof. reflexivity. Qed.

(* ---------------------------------------------------------------- vocabulary, spelled out *)
Lemma E2E_spec_real_leaf i : real_leaf i = negb (list_eqb (li_block_hash i) [0; 0; 0; 0]).
Proof. reflexivity. Qed.
Lemma E2E_spec_zero_hash_preimage_found H pre : zero_hash_preimage_found H pre <-> H pre = [0; 0; 0; 0].
Proof. reflexivity. Qed.
Lemma E2E_spec_totals i r :
  real_out_total (i :: r) = (if real_leaf i then li_out1 i + li_out2 i else 0) + real_out_total r /\
  real_in_total (i :: r) = (if real_leaf i then li_input_amount i else 0) + real_in_total r /\
  real_net_deposits (i :: r) = (if real_leaf i then li_input_amount i * (10000 - li_fee i) else 0) + real_net_deposits r /\
  real_out_total [] = 0 /\ real_in_total [] = 0 /\ real_net_deposits [] = 0.
Proof. repeat split; reflexivity. Qed.
Lemma E2E_spec_out_nullifiers n out : out_nullifiers n out = chunk4 (firstn (4 * n) (skipn (8 + 10 * n) out)).
Proof. reflexivity. Qed.
Lemma E2E_spec_slot_nullifier H i u :
  slot_nullifier H (i, u) =
  if real_leaf i then H (H (NULLIFIER_SALT_FELTS ++ li_null_secret i ++ li_null_tc i)) else H (H u).
Proof. reflexivity. Qed.
Lemma E2E_spec_deposit_bound H i bh :
  deposit_bound H i bh <->
  (* the account of the deposit leaf is derived from the nullifier's secret *)
  li_to_account i = H (H (UNSPENDABLE_SALT_FELTS ++ li_null_secret i)) /\
  (* the deposit leaf (account, count, asset, amount) - with the nullifier's count - hashes up the path to the tree root *)
  li_tree_root i =
    fold_insert H (H (li_to_account i ++ li_null_tc i ++ [li_asset i; li_input_amount i]))
                (firstn (Z.to_nat (li_depth i)) (combine (li_siblings i) (li_positions i))) /\
  (* that root is part of the header whose hash is bh *)
  bh = H (li_parent_hash i ++ [li_block_number i] ++ li_state_root i ++ li_extrinsics_root i
          ++ li_tree_root i ++ li_digest i) /\
  li_block_hash i = bh.
Proof. reflexivity. Qed.
Lemma E2E_spec_header_collision_free H is :
  header_collision_free H is <->
  forall i j, In i is -> In j is -> real_leaf i = true -> real_leaf j = true ->
              H (header_preimage i) = H (header_preimage j) -> header_preimage i = header_preimage j.
Proof. reflexivity. Qed.
Lemma E2E_spec_batch_accepted H n (b : batch) o :
  batch_accepted H n b o <->
  zlen (fst b) = n /\ length (snd b) = length (fst b) /\
  Forall wf_in (fst b) /\ Forall (fun i => rel H (leaf_circuit i) (fun _ => True)) (fst b) /\
  rel H (private_batch (map leaf_public_inputs (fst b)) (snd b)) (fun x => x = o).
Proof. reflexivity. Qed.
Lemma E2E_spec_all_leaves (batches : list batch) : all_leaves batches = concat (map fst batches).
Proof. reflexivity. Qed.

(* ================================================================ 1. leaf acceptance discharges [leaf_wf]; the two dummy notions *)
Theorem E2E_leaf_sat_implies_leaf_wf :
  forall (H : list Z -> list Z), hash_wf H -> forall i, wf_in i ->
  forall post, rel H (leaf_circuit i) post -> leaf_wf (leaf_public_inputs i).
Proof. exact leaf_sat_implies_leaf_wf. Qed.

(* a slot the wrapper counts as real is not a leaf dummy: every binding of the leaf circuit applies to it *)
Theorem E2E_wrapper_real_is_leaf_real :
  forall i, wf_in i -> is_dummy_pb (leaf_public_inputs i) = false -> is_dummy_stmt i = false.
Proof. exact wrapper_real_is_leaf_real. Qed.
Theorem E2E_leaf_dummy_is_wrapper_dummy :
  forall i, wf_in i -> is_dummy_stmt i = true -> is_dummy_pb (leaf_public_inputs i) = true.
Proof. exact leaf_dummy_is_wrapper_dummy. Qed.

(* a leaf-accepted statement the wrapper reads as a dummy (zero block hash) is a full leaf dummy (outputs zero), or
   it has a non-zero output and then its header binding exhibits a preimage of the zero digest *)
Theorem E2E_wrapper_dummy_bridge :
  forall (H : list Z -> list Z), hash_wf H -> forall i, wf_in i ->
  forall post, rel H (leaf_circuit i) post -> is_dummy_pb (leaf_public_inputs i) = true ->
    (is_dummy_stmt i = true /\ li_out1 i = 0 /\ li_out2 i = 0) \/
    (is_dummy_stmt i = false /\ (li_out1 i <> 0 \/ li_out2 i <> 0) /\
     zero_hash_preimage_found H (header_preimage i)).
Proof. exact wrapper_dummy_bridge. Qed.
Theorem E2E_dummy_notions_agree :
  forall (H : list Z -> list Z), hash_wf H -> forall i, wf_in i ->
  forall post, (forall l, H l <> zero4) -> rel H (leaf_circuit i) post ->
    is_dummy_pb (leaf_public_inputs i) = is_dummy_stmt i.
Proof. exact dummy_notions_agree. Qed.

(* ================================================================ 2. one private batch over accepted leaves: value *)
Theorem E2E_private_value_bound :
  forall (H : list Z -> list Z), hash_wf H ->
  forall (is : list LeafIn) (us : list (list Z)) (out : list Z),
    (1 <= length is <= 64)%nat ->
    Forall wf_in is ->
    Forall (fun i => rel H (leaf_circuit i) (fun _ => True)) is ->            (* a satisfying witness per leaf *)
    length us = length is ->
    rel H (private_batch (map leaf_public_inputs is) us) (fun o => o = out) ->  (* ... and for the batch *)
    let slots := out_exit_slots (length is) out in
    (* the exit amounts add up to the outputs of the real leaves *)
    slotsTotal slots = real_out_total is /\
    (* every exit amount is a 32-bit value *)
    Forall (fun s => 0 <= fst s < two32) slots /\
    (* every real leaf has the asset, fee and block hash shown in the header of the output *)
    (forall i, In i is -> real_leaf i = true ->
       li_asset i = nth 1 out 0 /\ li_fee i = nth 2 out 0 /\ li_block_hash i = firstn 4 (skipn 3 out)) /\
    nth 2 out 0 <= 10000 /\
    (* the batch never pays out more than the deposits minus the fee *)
    10000 * slotsTotal slots <= real_net_deposits is /\
    real_net_deposits is = (10000 - nth 2 out 0) * real_in_total is.
Proof. exact private_value_bound. Qed.

(* ================================================================ 3. ... nullifiers *)
Theorem E2E_nullifiers_are_bound :
  forall (H : list Z -> list Z), hash_wf H ->
  forall (is : list LeafIn) (us : list (list Z)) (out : list Z),
    (1 <= length is <= 64)%nat ->
    Forall wf_in is ->
    Forall (fun i => rel H (leaf_circuit i) (fun _ => True)) is ->
    length us = length is ->
    rel H (private_batch (map leaf_public_inputs is) us) (fun o => o = out) ->
    let nulls := out_nullifiers (length is) out in
    (* the published nullifiers are, as a multiset, one per slot; in ascending order *)
    Permutation nulls (map (slot_nullifier H) (combine is us)) /\
    StronglySorted digest_le nulls /\
    (* each one is the nullifier of a deposit proven in the reference block's tree, or H(H(u)) of a dummy slot *)
    (forall d, In d nulls ->
       (exists i, In i is /\ real_leaf i = true /\
                  d = H (H (NULLIFIER_SALT_FELTS ++ li_null_secret i ++ li_null_tc i)) /\
                  deposit_bound H i (firstn 4 (skipn 3 out))) \/
       (exists i u, In (i, u) (combine is us) /\ real_leaf i = false /\ d = H (H u))) /\
    (* the real ones are pairwise distinct *)
    NoDup (map (fun i => H (H (NULLIFIER_SALT_FELTS ++ li_null_secret i ++ li_null_tc i))) (filter real_leaf is)).
Proof. exact nullifiers_are_bound. Qed.

(* ================================================================ 4. M private batches under one public batch: value *)
Theorem E2E_two_layers_value :
  forall (H : list Z -> list Z), hash_wf H ->
  forall n : Z, 1 <= n <= 64 ->
  forall (batches : list batch) (outs : list (list Z)) (address pout : list Z),
    Forall2 (batch_accepted H n) batches outs ->
    length address = 4%nat ->
    rel H (public_batch n address outs) (fun o => o = pout) ->
    let total := zsum (map (fun k => nth (12 + 5 * k) pout 0) (seq 0 (Z.to_nat (2 * n * zlen batches)))) in
    (* the 2 n M exit amounts of the public output add up to the outputs of all real leaves of all batches *)
    total = real_out_total (all_leaves batches) /\
    (* one asset, one fee, one block hash among all real leaves: those of the public header *)
    (forall i, In i (all_leaves batches) -> real_leaf i = true ->
       li_asset i = nth 4 pout 0 /\ li_fee i = nth 5 pout 0 /\ li_block_hash i = firstn 4 (skipn 6 pout)) /\
    nth 5 pout 0 <= 10000 /\
    10000 * total <= real_net_deposits (all_leaves batches) /\
    real_net_deposits (all_leaves batches) = (10000 - nth 5 pout 0) * real_in_total (all_leaves batches).
Proof. exact two_layers_value. Qed.

(* ... and nullifiers.  [nullifiers_nonzero]: no published nullifier of a real batch is the zero digest (the public layer
   zero-fills the regions of dummy inners, so non-zero = forwarded); it holds whenever H never returns the zero digest *)
Lemma E2E_spec_nullifiers_nonzero H (batches : list batch) :
  nullifiers_nonzero H batches <->
  forall b iu, In b batches -> existsb real_leaf (fst b) = true -> In iu (combine (fst b) (snd b)) ->
               slot_nullifier H iu <> zero4.
Proof. reflexivity. Qed.
Theorem E2E_nullifiers_nonzero_of_hash :
  forall H (batches : list batch), (forall l, H l <> zero4) -> nullifiers_nonzero H batches.
Proof. exact nullifiers_nonzero_of_hash. Qed.
Theorem E2E_two_layers_nullifiers :
  forall (H : list Z -> list Z), hash_wf H ->
  forall n : Z, 1 <= n <= 64 ->
  forall (batches : list batch) (outs : list (list Z)) (address pout : list Z),
    Forall2 (batch_accepted H n) batches outs ->
    length address = 4%nat ->
    rel H (public_batch n address outs) (fun o => o = pout) ->
    nullifiers_nonzero H batches ->
    let M := zlen batches in
    let nulls := filter nonzero4 (chunk4 (region pout (12 + 10 * n * M) (4 * n * M))) in
    (* the non-zero nullifiers of the public output are, as a multiset, the per-slot nullifiers of the batches
       that contain a real leaf *)
    Permutation nulls
      (concat (map (fun b : batch => map (slot_nullifier H) (combine (fst b) (snd b)))
                   (filter (fun b : batch => existsb real_leaf (fst b)) batches))) /\
    (* each one belongs to a deposit proven in the tree of THE block of the public header, or is H(H(u)) of a dummy slot *)
    (forall d, In d nulls ->
       (exists i, In i (all_leaves batches) /\ real_leaf i = true /\
                  d = H (H (NULLIFIER_SALT_FELTS ++ li_null_secret i ++ li_null_tc i)) /\
                  deposit_bound H i (firstn 4 (skipn 6 pout))) \/
       (exists b i u, In b batches /\ existsb real_leaf (fst b) = true /\ In (i, u) (combine (fst b) (snd b)) /\
                      real_leaf i = false /\ d = H (H u))).
Proof. exact two_layers_nullifiers. Qed.

(* ================================================================ 5. the block number *)
Theorem E2E_block_number_consistent :
  forall (H : list Z -> list Z), hash_wf H ->
  forall is : list LeafIn,
    Forall wf_in is -> Forall (fun i => rel H (leaf_circuit i) (fun _ => True)) is ->
    header_collision_free H is ->
    bn_determined (map leaf_public_inputs is).
Proof. exact block_number_consistent. Qed.

(* hence C09_perm_header without its premise: the same (assignment, preimage) pairs in another slot order are accepted
   too and every satisfying witness shows the same 8 header felts *)
Theorem E2E_perm_header_unconditional :
  forall (H : list Z -> list Z) (is is' : list LeafIn) (us us' : list (list Z)) (out : list Z),
    hash_wf H -> (1 <= length is <= 64)%nat ->
    Forall wf_in is -> Forall (fun i => rel H (leaf_circuit i) (fun _ => True)) is ->
    length us = length is -> length us' = length is' ->
    Permutation (combine is us) (combine is' us') ->
    header_collision_free H is ->
    rel H (private_batch (map leaf_public_inputs is) us) (fun o => o = out) ->
    (exists out', rel H (private_batch (map leaf_public_inputs is') us') (fun o => o = out')) /\
    (forall out', rel H (private_batch (map leaf_public_inputs is') us') (fun o => o = out') ->
                  firstn 8 out' = firstn 8 out).
Proof. exact perm_header_unconditional. Qed.

(* ================================================================ 6. the full circuits (wrapper + recursive verification) *)
Lemma E2E_spec_leaf_knowledge_sound (VK PROOF : Type) (Verify : VK -> list Z -> PROOF -> bool) H leaf_vk :
  leaf_knowledge_sound VK PROOF Verify H leaf_vk <->
  forall pis pf, Verify leaf_vk pis pf = true ->
    exists i, wf_in i /\ leaf_public_inputs i = pis /\ rel H (leaf_circuit i) (fun _ => True).
Proof. reflexivity. Qed.
Lemma E2E_spec_private_batch_knowledge_sound (VK PROOF : Type) (Verify : VK -> list Z -> PROOF -> bool) H leaf_vk pb_vk n :
  private_batch_knowledge_sound VK PROOF Verify H leaf_vk pb_vk n <->
  forall pis pf, Verify pb_vk pis pf = true ->
    exists children pre, length pre = length children /\
      private_batch_sat VK PROOF Verify H (mkPB leaf_vk n) children pre pis.
Proof. reflexivity. Qed.
Lemma E2E_spec_value_statement is out :
  value_statement is out <->
  let slots := out_exit_slots (length is) out in
  slotsTotal slots = real_out_total is /\
  Forall (fun s => 0 <= fst s < two32) slots /\
  (forall i, In i is -> real_leaf i = true ->
     li_asset i = nth 1 out 0 /\ li_fee i = nth 2 out 0 /\ li_block_hash i = firstn 4 (skipn 3 out)) /\
  nth 2 out 0 <= 10000 /\
  10000 * slotsTotal slots <= real_net_deposits is /\
  real_net_deposits is = (10000 - nth 2 out 0) * real_in_total is.
Proof. reflexivity. Qed.
Lemma E2E_spec_nullifier_statement H is us out :
  nullifier_statement H is us out <->
  let nulls := out_nullifiers (length is) out in
  Permutation nulls (map (slot_nullifier H) (combine is us)) /\
  StronglySorted digest_le nulls /\
  (forall d, In d nulls ->
     (exists i, In i is /\ real_leaf i = true /\
                d = H (H (NULLIFIER_SALT_FELTS ++ li_null_secret i ++ li_null_tc i)) /\
                deposit_bound H i (firstn 4 (skipn 3 out))) \/
     (exists i u, In (i, u) (combine is us) /\ real_leaf i = false /\ d = H (H u))) /\
  NoDup (map (fun i => H (H (NULLIFIER_SALT_FELTS ++ li_null_secret i ++ li_null_tc i))) (filter real_leaf is)).
Proof. reflexivity. Qed.
Lemma E2E_spec_two_layer_statement n M leaves pout :
  two_layer_statement n M leaves pout <->
  let total := zsum (map (fun k => nth (12 + 5 * k) pout 0) (seq 0 (Z.to_nat (2 * n * M)))) in
  total = real_out_total leaves /\
  (forall i, In i leaves -> real_leaf i = true ->
     li_asset i = nth 4 pout 0 /\ li_fee i = nth 5 pout 0 /\ li_block_hash i = firstn 4 (skipn 6 pout)) /\
  nth 5 pout 0 <= 10000 /\
  10000 * total <= real_net_deposits leaves /\
  real_net_deposits leaves = (10000 - nth 5 pout 0) * real_in_total leaves.
Proof. reflexivity. Qed.

(* the private-batch circuit built over the leaf key: its satisfiability (children verified under the constant key +
   wrapper constraints) implies 2 and 3 for SOME leaf assignments with exactly the children's public inputs.
   [length pre = length children]: the circuit has one dummy-preimage target per slot. *)
Theorem E2E_full_private_batch :
  forall (VK PROOF : Type) (Verify : VK -> list Z -> PROOF -> bool) (H : list Z -> list Z), hash_wf H ->
  forall (leaf_vk : VK) (n : Z) (c : private_batch_circuit VK) (children : list (@child PROOF))
         (pre : list (list Z)) (out : list Z),
    leaf_knowledge_sound VK PROOF Verify H leaf_vk ->
    private_batch_new VK leaf_vk 21 n = Ok c ->
    length pre = length children ->
    private_batch_sat VK PROOF Verify H c children pre out ->
    exists is, map leaf_public_inputs is = map ch_pis children /\
               Forall wf_in is /\ Forall (fun i => rel H (leaf_circuit i) (fun _ => True)) is /\
               value_statement is out /\ nullifier_statement H is pre out.
Proof. exact full_private_batch. Qed.

(* the public-batch circuit built over the private-batch key, itself built over the leaf key: 4 *)
Theorem E2E_full_public_batch :
  forall (VK PROOF : Type) (Verify : VK -> list Z -> PROOF -> bool) (H : list Z -> list Z), hash_wf H ->
  forall (leaf_vk pb_vk : VK) (n m : Z) (cpub : public_batch_circuit VK) (address : list Z)
         (children : list (@child PROOF)) (pout : list Z),
    leaf_knowledge_sound VK PROOF Verify H leaf_vk ->
    private_batch_knowledge_sound VK PROOF Verify H leaf_vk pb_vk n ->
    0 <= n ->
    public_batch_new VK pb_vk (21 * n + 8) m n = Ok cpub ->
    length address = 4%nat ->
    public_batch_sat VK PROOF Verify H cpub address children pout ->
    exists batches, Forall2 (batch_accepted H n) batches (map ch_pis children) /\
                    two_layer_statement n m (all_leaves batches) pout.
Proof. exact full_public_batch. Qed.

(* ================================================================ non-vacuity *)
(* 1: both disjuncts of the bridge occur: a full leaf dummy; and, for a hash that returns the zero digest on one
   input, an ACCEPTED statement with zero block hash and outputs 40 + 9 which the wrapper reads as a dummy *)
Example E2E_ex_leaf_dummy :
  (wf_in e2e_dummy /\ rel e2e_H (leaf_circuit e2e_dummy) (fun _ => True)) /\
  is_dummy_pb (leaf_public_inputs e2e_dummy) = true /\ is_dummy_stmt e2e_dummy = true.
Proof. exact (conj e2e_dummy_ok e2e_leaf_dummy_instance). Qed.
Example E2E_ex_zero_hash_preimage :
  hash_wf e2e_H1 /\ wf_in ex_zero_hash_with_output /\
  rel e2e_H1 (leaf_circuit ex_zero_hash_with_output) (fun _ => True) /\
  is_dummy_pb (leaf_public_inputs ex_zero_hash_with_output) = true /\
  is_dummy_stmt ex_zero_hash_with_output = false /\
  zero_hash_preimage_found e2e_H1 (header_preimage ex_zero_hash_with_output).
Proof. exact e2e_zero_hash_instance. Qed.

(* 2, 3, 5: a 2-slot batch (real leaf: in 50, out 40 + 9, fee 10 bps; dummy leaf) *)
Example E2E_ex_private_hypotheses :
  hash_wf e2e_H /\ (1 <= length e2e_is <= 64)%nat /\ Forall wf_in e2e_is /\
  Forall (fun i => rel e2e_H (leaf_circuit i) (fun _ => True)) e2e_is /\ length e2e_us = length e2e_is /\
  rel e2e_H (private_batch (map leaf_public_inputs e2e_is) e2e_us) (fun o => o = e2e_out).
Proof. exact e2e_private_hypotheses. Qed.
Example E2E_ex_private_values :
  map real_leaf e2e_is = [true; false] /\
  out_exit_slots 2 e2e_out = [(40, [51; 52; 53; 54]); (9, [61; 62; 63; 64]); (0, zero4); (0, zero4)] /\
  real_out_total e2e_is = 49 /\ real_in_total e2e_is = 50 /\ real_net_deposits e2e_is = 499500 /\
  nth 2 e2e_out 0 = 10 /\
  out_nullifiers 2 e2e_out = [e2e_H (e2e_H [2; 2; 2; 2]); nullifier_of e2e_H e2e_real].
Proof. exact e2e_private_values. Qed.
Example E2E_ex_collision_free_and_permuted :
  header_collision_free e2e_H e2e_is /\
  Permutation (combine e2e_is e2e_us) (combine (rev e2e_is) (rev e2e_us)).
Proof. exact (conj e2e_collision_free e2e_reversed_perm). Qed.

(* 4: N = 2, M = 3: (real, dummy), (dummy, real), (dummy, dummy) *)
Example E2E_ex_public_hypotheses :
  hash_wf e2e_H /\ 1 <= 2 <= 64 /\ Forall2 (batch_accepted e2e_H 2) e2e_batches e2e_outs /\
  length e2e_address = 4%nat /\
  rel e2e_H (public_batch 2 e2e_address e2e_outs) (fun o => o = e2e_pout).
Proof. exact e2e_public_hypotheses. Qed.
Example E2E_ex_public_values :
  map (fun k => nth (12 + 5 * k) e2e_pout 0) (seq 0 12) = [40; 9; 0; 0; 0; 0; 30; 5; 0; 0; 0; 0] /\
  real_out_total (all_leaves e2e_batches) = 84 /\ real_in_total (all_leaves e2e_batches) = 100 /\
  real_net_deposits (all_leaves e2e_batches) = 999000 /\ nth 5 e2e_pout 0 = 10.
Proof. exact e2e_public_values. Qed.

(* the same deposit spent in two different private batches: accepted by both layers, listed twice, paid twice.
   Distinctness of nullifiers is a circuit property only inside one private batch (3); across batches it is the
   chain's settled-nullifier set (documented in public_batch/circuit/circuit_logic.rs) *)
Example E2E_ex_public_nullifiers_and_cross_batch_repeat :
  nullifiers_nonzero e2e_H e2e_batches /\
  filter nonzero4 (chunk4 (region e2e_pout (12 + 10 * 2 * 3) (4 * 2 * 3)))
  = [e2e_H (e2e_H [2; 2; 2; 2]); nullifier_of e2e_H e2e_real; e2e_H (e2e_H [1; 1; 1; 1]); nullifier_of e2e_H e2e_real2] /\
  nullifier_of e2e_H e2e_real = nullifier_of e2e_H e2e_real2 /\
  real_out_total (all_leaves e2e_batches) = 84 /\ li_input_amount e2e_real = 50.
Proof. exact e2e_public_nullifiers. Qed.

(* 6: a proof system in which exactly the statements above verify meets both premises, and both full circuits are satisfied *)
Example E2E_ex_full_private_hypotheses :
  hash_wf e2e_H /\ leaf_knowledge_sound bool unit e2e_verify e2e_H true /\
  private_batch_new bool true 21 2 = Ok (mkPB true 2) /\ length e2e_us = length e2e_children /\
  private_batch_sat bool unit e2e_verify e2e_H (mkPB true 2) e2e_children e2e_us e2e_out.
Proof. exact e2e_full_private_hypotheses. Qed.
Example E2E_ex_full_public_hypotheses :
  private_batch_knowledge_sound bool unit e2e_verify e2e_H true false 2 /\
  public_batch_new bool false (21 * 2 + 8) 1 2 = Ok (mkPUB false 1 2) /\ length e2e_address = 4%nat /\
  public_batch_sat bool unit e2e_verify e2e_H (mkPUB false 1 2) e2e_address [mkChild e2e_out tt] e2e_pout1.
Proof. exact e2e_full_public_hypotheses. Qed.
