(* C02 - For every satisfiable leaf statement that is not a dummy, the public nullifier equals
   H(H(nullifier-salt || s || c)).  Here s is a secret whose wormhole address H(H(wormhole-salt || s))
   is the recipient in the proven tree leaf, and c is that leaf's transfer count.

   [li_to_account i] and [li_leaf_tc i] are exactly the recipient and the count hashed into the tree
   leaf: the leaf preimage of C03 is li_to_account i ++ li_leaf_tc i ++ [li_asset i; li_input_amount i].
   [is_dummy_stmt i] = all four block-hash limbs are zero and both output amounts are zero (a function
   of the public inputs).  Model, semantics and hypotheses: see C01.v.  Proofs: V.Circ.LeafProofs. *)
From V.Base Require Import Common.
From V.Generated Require Import Constants.
From V.Circ Require Import Field Core Prims Gadgets Leaf LeafProofs.

Theorem C02_nullifier_binding :
  forall (H : list Z -> list Z) (i : LeafIn) (post : list Z -> Prop),
    hash_wf H -> wf_in i -> rel H (leaf_circuit i) post -> is_dummy_stmt i = false ->
    exists s c, li_nullifier i = H (H (NULLIFIER_SALT_FELTS ++ s ++ c)) /\
                li_to_account i = H (H (UNSPENDABLE_SALT_FELTS ++ s)) /\ li_leaf_tc i = c.
Proof. intros H i post Hwf W. exact (nullifier_binding H Hwf i W post). Qed.

(* the same with the witnesses named: s is the (shared) secret target, c the (shared) count target *)
Theorem C02_nullifier_binding_strong :
  forall (H : list Z -> list Z) (i : LeafIn) (post : list Z -> Prop),
    hash_wf H -> wf_in i -> rel H (leaf_circuit i) post -> is_dummy_stmt i = false ->
    li_nullifier i = H (H (NULLIFIER_SALT_FELTS ++ li_null_secret i ++ li_null_tc i)) /\
    li_to_account i = H (H (UNSPENDABLE_SALT_FELTS ++ li_null_secret i)) /\
    li_leaf_tc i = li_null_tc i /\
    li_null_secret i = li_unsp_secret i.
Proof. intros H i post Hwf W. exact (nullifier_binding_strong H Hwf i W post). Qed.

(* the address derivation and the shared-target equalities hold for dummies too *)
Theorem C02_unspendable_unconditional :
  forall (H : list Z -> list Z) (i : LeafIn) (post : list Z -> Prop),
    hash_wf H -> wf_in i -> rel H (leaf_circuit i) post ->
    li_unsp_account i = H (H (UNSPENDABLE_SALT_FELTS ++ li_unsp_secret i)) /\
    li_to_account i = li_unsp_account i /\ li_null_secret i = li_unsp_secret i /\
    li_null_tc i = li_leaf_tc i.
Proof. intros H i post Hwf W. exact (unspendable_unconditional H Hwf i W post). Qed.

Theorem C02_dummy_means :
  forall i : LeafIn, length (li_block_hash i) = 4%nat ->
    (is_dummy_stmt i = true <-> li_block_hash i = [0; 0; 0; 0] /\ li_out1 i = 0 /\ li_out2 i = 0).
Proof. exact is_dummy_stmt_spec. Qed.

(* ---------------- non-vacuity ---------------- *)
Example C02_nv_wf : wf_in ex_real. Proof. apply wf_inb_sound. vm_compute. reflexivity. Qed.
Example C02_nv_not_dummy : is_dummy_stmt ex_real = false. Proof. vm_compute. reflexivity. Qed.
Example C02_nv_accepted : hon H0 (leaf_circuit ex_real) = Some (leaf_public_inputs ex_real).
Proof. vm_compute. reflexivity. Qed.
Example C02_nv_rel : rel H0 (leaf_circuit ex_real) (fun o => o = leaf_public_inputs ex_real).
Proof. exact (leaf_sat H0 ex_real C02_nv_wf C02_nv_accepted). Qed.
(* same statement with another nullifier: no witness at all *)
Example C02_nv_wrong_nullifier : forall post, ~ rel H0 (leaf_circuit ex_bad_nullifier) post.
Proof. apply leaf_unsat; [apply wf_inb_sound|]; vm_compute; reflexivity. Qed.
(* a dummy statement carries an arbitrary nullifier *)
Example C02_nv_dummy_free_nullifier :
  is_dummy_stmt ex_dummy = true /\ li_nullifier ex_dummy = [9; 9; 9; 9] /\
  hon H0 (leaf_circuit ex_dummy) = Some (leaf_public_inputs ex_dummy).
Proof. vm_compute. repeat split; reflexivity. Qed.
