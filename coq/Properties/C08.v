(* C08 - Value conservation in the private-batch wrapper circuit.

   The 2N output exit amounts of the private batch sum to exactly the output amounts of the REAL child
   statements: nothing is created or lost by the grouping, a dummy child contributes nothing whatever
   its amount / exit fields hold, and every output slot with a non-zero account carries exactly the
   total sent to that account by real children.  The sums are sums of integers (no field wrap-around:
   every amount is below 2^32, the total below 2^39).

   Model: Circ/PrivateBatch.v (build_private_batch_constraints, circuit_logic.rs:171); specification:
   Spec/LeanPort.v (groupExits, slotsTotal, inputExitTotal = Lean's Aggregation.lean); proofs:
   Circ/PrivateBatchProofs.v. *)
From V.Base Require Import Common.
From V.Generated Require Import Constants.
From V.Circ Require Import Field Core Prims Gadgets PrivateBatch PrivateBatchProofs.
From V.Spec Require Import LeanPort.

Local Open Scope Z_scope.

(* ---------------------------------------------------------------- constants pinned to /repo *)
Lemma C08_pin_leaf_pi_len : PR_LEAF_PI_LEN = 21. Proof. reflexivity. Qed.
Lemma C08_pin_amount_offsets : PR_OUTPUT_AMOUNT_1_START = 1 /\ PR_OUTPUT_AMOUNT_2_START = 2 /\
  PR_EXIT_1_START = 8 /\ PR_EXIT_2_START = 12 /\ PR_BLOCK_HASH_START = 16.
Proof. repeat split; reflexivity. Qed.
Lemma C08_pin_out_layout : PR_OUT_HEADER_LEN = 8 /\ PR_OUT_EXIT_SLOT_LEN = 5. Proof. split; reflexivity. Qed.
Lemma C08_pin_max : MAX_PROOF_COUNT = 64. Proof. reflexivity. Qed.

(* ---------------------------------------------------------------- vocabulary, spelled out *)
Lemma C08_spec_slotsTotal a k r : slotsTotal ((a, k) :: r) = a + slotsTotal r. Proof. reflexivity. Qed.
Lemma C08_spec_inputExitTotal q r :
  inputExitTotal (q :: r) = (if is_dummy_pb q then 0 else lf_out1 q + lf_out2 q) + inputExitTotal r.
Proof. reflexivity. Qed.
Lemma C08_spec_accountTotal k q r :
  accountTotal k (q :: r) =
  (if is_dummy_pb q then 0
   else (if list_eqb (lf_exit1 q) k then lf_out1 q else 0) + (if list_eqb (lf_exit2 q) k then lf_out2 q else 0))
  + accountTotal k r.
Proof. reflexivity. Qed.
(* the 2N (amount, account) slots read back from the public output felts 8 .. 8 + 10 N *)
Lemma C08_spec_out_exit_slots n out : out_exit_slots n out = read_slots (2 * n) (skipn 8 out).
Proof. reflexivity. Qed.
Lemma C08_spec_read_slots n region :
  read_slots (S n) region = (nth 0 region 0, firstn 4 (skipn 1 region)) :: read_slots n (skipn 5 region).
Proof. reflexivity. Qed.

(* ---------------------------------------------------------------- the property *)
(* pure form, every batch (port of Lean's groupAux_conserves, re-proved) *)
Theorem C08_conservation : forall leaves,
  slotsTotal (groupExits (maskedChildPairs leaves)) = inputExitTotal leaves.
Proof. exact conservation. Qed.

(* circuit form: for every satisfying (adversarial) witness, the amounts in the registered output *)
Theorem C08_circuit_conservation : forall H,
  (forall l, length (H l) = 4%nat /\ Forall canon (H l)) ->
  forall leaves us, (1 <= length leaves <= 64)%nat -> Forall leaf_wf leaves -> length us = length leaves ->
  forall out, rel H (private_batch leaves us) (fun o => o = out) ->
  slotsTotal (out_exit_slots (length leaves) out) = inputExitTotal leaves /\
  0 <= inputExitTotal leaves < 2 ^ 39.
Proof. exact circuit_conservation. Qed.

Theorem C08_dummy_contributes_nothing : forall l1 d l2, is_dummy_pb d = true ->
  slotsTotal (groupExits (maskedChildPairs (l1 ++ d :: l2))) = inputExitTotal (l1 ++ l2) /\
  forall k, matchSum k (maskedChildPairs (l1 ++ d :: l2)) = matchSum k (maskedChildPairs (l1 ++ l2)).
Proof. exact dummy_contributes_nothing. Qed.

Theorem C08_slot_is_account_total : forall leaves s k,
  In (s, k) (groupExits (maskedChildPairs leaves)) -> k <> zero4 -> s = accountTotal k leaves.
Proof. exact slot_is_account_total. Qed.
Theorem C08_circuit_slot_is_account_total : forall H,
  (forall l, length (H l) = 4%nat /\ Forall canon (H l)) ->
  forall leaves us, (1 <= length leaves <= 64)%nat -> Forall leaf_wf leaves -> length us = length leaves ->
  forall out s k, rel H (private_batch leaves us) (fun o => o = out) ->
  In (s, k) (out_exit_slots (length leaves) out) -> k <> zero4 -> s = accountTotal k leaves.
Proof. exact circuit_slot_is_account_total. Qed.

(* ---------------------------------------------------------------- non-vacuity *)
Example C08_ex_hypotheses :
  (forall l, length (H0 l) = 4%nat /\ Forall canon (H0 l)) /\ Forall leaf_wf ex_leaves /\
  length ex_us = length ex_leaves /\ priv_compat ex_leaves = true /\
  hon H0 (private_batch ex_leaves ex_us) = Some (priv_output H0 ex_leaves ex_us).
Proof. exact (conj H0_wf (conj ex_leaves_wf (conj eq_refl (conj ex_compat ex_hon)))). Qed.
(* real slots pay 10 + 20 and 30 + 40; the dummy's junk amounts 99 + 98 do not count *)
Example C08_ex_totals :
  inputExitTotal ex_leaves = 100 /\
  out_exit_slots 3 (priv_output H0 ex_leaves ex_us) =
    [(40, [21; 22; 23; 24]); (20, [31; 32; 33; 34]); (0, zero4); (0, zero4); (0, zero4); (40, [51; 52; 53; 54])] /\
  accountTotal [21; 22; 23; 24] ex_leaves = 40.
Proof. vm_compute. repeat split; reflexivity. Qed.
