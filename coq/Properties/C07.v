(* C07 - Acceptance condition of the private-batch wrapper circuit.

   For well-formed child statements, a witness satisfying build_private_batch_constraints
   (wormhole/aggregator/src/private_batch/circuit/circuit_logic.rs:171) exists IFF
     - every slot (dummies included) carries the asset id of slot 0,
     - the real slots (non-zero block hash) share one block hash and one volume fee,
     - the nullifiers of the real slots are pairwise distinct,
     - every exit account receives less than 2^32 in total (sum over all real outputs to that account).
   The condition does not depend on the order of the slots, nor on any field of a dummy slot other than
   its (zero) block hash and its asset id.

   Model: Circ/PrivateBatch.v; specification: Spec/LeanPort.v ([priv_compat]); proofs:
   Circ/PrivateBatchProofs.v.  [rel H c post]: some (adversarial) witness satisfies c with an output in post. *)
From Coq Require Import Permutation.
From V.Base Require Import Common.
From V.Generated Require Import Constants.
From V.Circ Require Import Field Core Prims Gadgets PrivateBatch PrivateBatchProofs.
From V.Spec Require Import LeanPort.

Local Open Scope Z_scope.

(* ---------------------------------------------------------------- constants pinned to /repo *)
Lemma C07_pin_leaf_pi_len : PR_LEAF_PI_LEN = 21. Proof. reflexivity. Qed.
Lemma C07_pin_leaf_offsets :
  PR_ASSET_ID_START = 0 /\ PR_OUTPUT_AMOUNT_1_START = 1 /\ PR_OUTPUT_AMOUNT_2_START = 2 /\
  PR_VOLUME_FEE_BPS_START = 3 /\ PR_NULLIFIER_START = 4 /\ PR_EXIT_1_START = 8 /\ PR_EXIT_2_START = 12 /\
  PR_BLOCK_HASH_START = 16 /\ PR_BLOCK_NUMBER_START = 20.
Proof. repeat split; reflexivity. Qed.
Lemma C07_pin_max : MAX_PROOF_COUNT = 64. Proof. reflexivity. Qed.
Lemma C07_pin_two32 : two32 = 2 ^ 32. Proof. reflexivity. Qed.

(* ---------------------------------------------------------------- vocabulary, spelled out *)
Lemma C07_spec_real q : is_real_pb q = true <-> lf_bh q <> [0; 0; 0; 0].
Proof. exact (is_real_pb_iff q). Qed.
Lemma C07_spec_masked q r :
  maskedChildPairs (q :: r) =
  (if is_dummy_pb q then ([0; 0; 0; 0], 0) else (lf_exit1 q, lf_out1 q)) ::
  (if is_dummy_pb q then ([0; 0; 0; 0], 0) else (lf_exit2 q, lf_out2 q)) :: maskedChildPairs r.
Proof. reflexivity. Qed.
Lemma C07_spec_matchSum k k' a' rest :
  matchSum k ((k', a') :: rest) = (if list_eqb k' k then a' else 0) + matchSum k rest.
Proof. reflexivity. Qed.
(* the grouped sum of an account = what the real children pay to it *)
Lemma C07_spec_group_sum k leaves : matchSum k (maskedChildPairs leaves) = accountTotal k leaves.
Proof. exact (matchSum_masked k leaves). Qed.
Lemma C07_spec_accountTotal k q r :
  accountTotal k (q :: r) =
  (if is_dummy_pb q then 0
   else (if list_eqb (lf_exit1 q) k then lf_out1 q else 0) + (if list_eqb (lf_exit2 q) k then lf_out2 q else 0))
  + accountTotal k r.
Proof. reflexivity. Qed.
Lemma C07_spec_same_up_to_dummy_fields q q' :
  same_up_to_dummy_fields q q' <->
  (q = q' \/ (is_dummy_pb q = true /\ is_dummy_pb q' = true /\ lf_asset q = lf_asset q')).
Proof. reflexivity. Qed.

(* ---------------------------------------------------------------- the property *)
Theorem C07_accept_iff : forall H,
  (forall l, length (H l) = 4%nat /\ Forall canon (H l)) ->
  forall leaves us, (1 <= length leaves <= 64)%nat -> Forall leaf_wf leaves -> length us = length leaves ->
  ((exists out, rel H (private_batch leaves us) (fun o => o = out)) <-> priv_compat leaves = true).
Proof. exact private_batch_accept_iff. Qed.

Theorem C07_compat_spelled_out : forall leaves,
  priv_compat leaves = true <->
  Forall (fun q => lf_asset q = lf_asset (nth 0 leaves [])) leaves /\
  (forall q q', In q leaves -> In q' leaves -> lf_bh q <> zero4 -> lf_bh q' <> zero4 ->
                lf_bh q = lf_bh q' /\ lf_fee q = lf_fee q') /\
  NoDup (map lf_null (filter is_real_pb leaves)) /\
  (forall e a, In (e, a) (maskedChildPairs leaves) -> matchSum e (maskedChildPairs leaves) < two32).
Proof. exact compat_spelled_out. Qed.

(* the condition is a property of the multiset of (child statement, preimage) pairs *)
Theorem C07_order_irrelevant : forall leaves us leaves' us' : list (list Z),
  length us = length leaves -> length us' = length leaves' ->
  Permutation (combine leaves us) (combine leaves' us') -> priv_compat leaves = priv_compat leaves'.
Proof. exact priv_compat_order_irrelevant. Qed.
Theorem C07_order_irrelevant_leaves : forall leaves leaves',
  Permutation leaves leaves' -> priv_compat leaves = priv_compat leaves'.
Proof. exact priv_compat_perm. Qed.

(* replacing a dummy slot by any other dummy slot with the same asset id changes nothing *)
Theorem C07_dummy_fields_irrelevant : forall l1 d d' l2,
  is_dummy_pb d = true -> is_dummy_pb d' = true -> lf_asset d = lf_asset d' ->
  priv_compat (l1 ++ d :: l2) = priv_compat (l1 ++ d' :: l2).
Proof. exact (fun l1 d d' l2 D D' E => proj1 (dummy_fields_irrelevant l1 d d' l2 D D' E)). Qed.
Theorem C07_dummy_fields_irrelevant_all_slots : forall l l',
  Forall2 same_up_to_dummy_fields l l' -> priv_compat l = priv_compat l'.
Proof. exact dummy_noninterference_compat. Qed.

(* ---------------------------------------------------------------- non-vacuity *)
Example C07_ex_hypotheses :
  (forall l, length (H0 l) = 4%nat /\ Forall canon (H0 l)) /\ Forall leaf_wf ex_leaves /\
  length ex_us = length ex_leaves /\ (1 <= length ex_leaves <= 64)%nat.
Proof. exact (conj H0_wf (conj ex_leaves_wf (conj eq_refl ex_len))). Qed.
Example C07_ex_accepts :
  priv_compat ex_leaves = true /\ hon H0 (private_batch ex_leaves ex_us) = Some (priv_output H0 ex_leaves ex_us).
Proof. exact (conj ex_compat ex_hon). Qed.
(* each clause can fail: another asset on a dummy, another fee, a repeated nullifier, an account above 2^32 *)
Example C07_ex_rejects :
  priv_compat [ex_real1; [1; 0; 0; 0; 0; 0; 0; 0; 0; 0; 0; 0; 0; 0; 0; 0; 0; 0; 0; 0; 0]] = false /\
  priv_compat [ex_real1; [0; 30; 40; 6; 15; 16; 17; 18; 21; 22; 23; 24; 51; 52; 53; 54; 41; 42; 43; 44; 7]] = false /\
  priv_compat [ex_real1; ex_real1] = false /\
  priv_compat [[0; 4294967295; 1; 5; 11; 12; 13; 14; 21; 22; 23; 24; 21; 22; 23; 24; 41; 42; 43; 44; 7]] = false /\
  hon H0 (private_batch [ex_real1; ex_real1] [[1; 1; 1; 1]; [2; 2; 2; 2]]) = None.
Proof. vm_compute. repeat split; reflexivity. Qed.
