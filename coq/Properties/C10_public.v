(* C10 (public-batch part) - the public-batch wrapper leaves no witness freedom.

   [refines H c] (V.Circ.Core) :=  forall post, rel H c post <-> match hon H c with Some a => post a | None => False end
   i.e. whatever values an adversarial prover puts on the generator-computed wires (here: the equality
   hints of is_equal / bytes_digest_eq), the constraints of the wrapper are satisfiable exactly when the
   honest witness satisfies them, and then every satisfying witness yields the honest output.
   Model: Circ/PublicBatch.v; proofs: Circ/PublicBatchProofs.v. *)
From V.Base Require Import Common.
From V.Generated Require Import Constants.
From V.Circ Require Import Field Core Prims Gadgets PrivateBatch PublicBatch PublicBatchProofs.
From V.Spec Require Import LeanPort.

Local Open Scope Z_scope.

Lemma C10_public_pin_inner_len : PR_LEAF_PI_LEN = 21 /\ PR_OUT_HEADER_LEN = 8.
Proof. split; reflexivity. Qed.

Theorem C10_public_batch_deterministic :
  forall (H : list Z -> list Z) (n : Z), 1 <= n ->
  forall (address : list Z) (inners : list (list Z)), Forall (inner_wf n) inners ->
    refines H (public_batch n address inners).
Proof. exact refines_public_batch. Qed.

Theorem C10_public_honest_value :
  forall (H : list Z -> list Z) (n : Z), 1 <= n ->
  forall (address : list Z) (inners : list (list Z)), Forall (inner_wf n) inners ->
    hon H (public_batch n address inners) =
    if pub_compat inners then Some (pub_output n address inners) else None.
Proof. exact public_batch_hon. Qed.

Theorem C10_public_unique_output :
  forall (H : list Z -> list Z) (n : Z), 1 <= n ->
  forall (address : list Z) (inners : list (list Z)) (a b : list Z), Forall (inner_wf n) inners ->
    rel H (public_batch n address inners) (fun x => x = a) ->
    rel H (public_batch n address inners) (fun x => x = b) -> a = b.
Proof. exact public_batch_unique. Qed.

Theorem C10_public_honest_fails_all_fail :
  forall (H : list Z -> list Z) (n : Z), 1 <= n ->
  forall (address : list Z) (inners : list (list Z)), Forall (inner_wf n) inners ->
    hon H (public_batch n address inners) = None ->
    forall post, ~ rel H (public_batch n address inners) post.
Proof. exact public_batch_honest_fails. Qed.

(* ---------------------------------------------------------------- non-vacuity: N = 2, M = 2 *)
Example C10_public_ex_H (l : list Z) : list Z := [1 + (fold_left Z.add l 0) mod 1000; 2; 3; 4].
Example C10_public_ex_inner (asset fee : Z) (bh : list Z) (bn base : Z) : list Z :=
  [4; asset; fee] ++ bh ++ [bn] ++ map (fun k => base + Z.of_nat k) (seq 0 28) ++ repeat 0 14.
Example C10_public_ex_good : list (list Z) :=
  [C10_public_ex_inner 7 25 [11; 12; 13; 14] 77 1000; C10_public_ex_inner 7 25 [11; 12; 13; 14] 77 2000].
Example C10_public_ex_bad : list (list Z) :=
  [C10_public_ex_inner 7 25 [11; 12; 13; 14] 77 1000; C10_public_ex_inner 7 26 [11; 12; 13; 14] 77 2000].
Example C10_public_ex_both_cases :
  Forall (inner_wf 2) C10_public_ex_good /\ Forall (inner_wf 2) C10_public_ex_bad /\
  hon C10_public_ex_H (public_batch 2 [1; 2; 3; 4] C10_public_ex_good)
  = Some (pub_output 2 [1; 2; 3; 4] C10_public_ex_good) /\
  hon C10_public_ex_H (public_batch 2 [1; 2; 3; 4] C10_public_ex_bad) = None.
Proof.
  split; [apply inners_wfb_spec; vm_compute; reflexivity|].
  split; [apply inners_wfb_spec; vm_compute; reflexivity|]. split; vm_compute; reflexivity.
Qed.
