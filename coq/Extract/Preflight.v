(* Extraction of the commit-preflight / template-validator model (C14, C16) for the correspondence check.
   Directives: ExtrOcamlBasic only (bool, option, unit, list, prod, sumbool, comparison -> OCaml natives). *)
From Coq Require Import Extraction ExtrOcamlBasic.
From V.Sys Require Import Preflight.
Extraction Language OCaml.

Extraction "../model/gen/preflight/model.ml" dispatch.
