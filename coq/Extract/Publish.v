(* Extraction of the publication model (C23) for the correspondence check.
   Directives: ExtrOcamlBasic only (bool, option, unit, list, prod, sumbool, comparison -> OCaml natives). *)
From Coq Require Import Extraction ExtrOcamlBasic.
From V.Sys Require Import Publish.
Extraction Language OCaml.

Extraction "../model/gen/publish/model.ml" dispatch.
