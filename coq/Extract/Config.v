(* Extraction of the config-policy / transfer-JSON models (C28, C35) for the correspondence check.
   Directives: ExtrOcamlBasic only (bool, option, unit, list, prod, sumbool, comparison -> OCaml natives). *)
From Coq Require Import Extraction ExtrOcamlBasic.
From V.Sys Require Import ConfigDispatch.
Extraction Language OCaml.

Extraction "../model/gen/config/model.ml" dispatch.
