(* Extraction of the parsers / proof-count model for the correspondence check.
   Directives: ExtrOcamlBasic only (bool, option, unit, list, prod, sumbool, comparison -> OCaml natives). *)
From Coq Require Import Extraction ExtrOcamlBasic.
From V.Sys Require Import Parsers.
Extraction Language OCaml.

Extraction "../model/gen/parsers/model.ml" dispatch.
