(* Extraction of the leaf-circuit model. ExtrOcamlBasic only; the hash oracle stays a parameter. *)
From Coq Require Import Extraction ExtrOcamlBasic.
From V.Circ Require Import LeafRun.
Extraction Language OCaml.
Extraction "../model/gen/leaf/model.ml" dispatch_h.
