(* Extraction of the loaders / address-binding / recursion-wiring models (C17, C18, C11) for the correspondence
   check.  Directives: ExtrOcamlBasic only (bool, option, unit, list, prod, sumbool, comparison -> OCaml natives). *)
From Coq Require Import Extraction ExtrOcamlBasic.
From V.Sys Require Import LoadersDispatch.
Extraction Language OCaml.

Extraction "../model/gen/loaders/model.ml" dispatch.
