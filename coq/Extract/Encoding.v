(* Extraction of the encoding / compact-hash model (C25, C26) for the correspondence check.
   Directives: ExtrOcamlBasic only (bool, option, unit, list, prod, sumbool, comparison -> OCaml natives). *)
From Coq Require Import Extraction ExtrOcamlBasic.
From V.Sys Require Import Encoding.
Extraction Language OCaml.

Extraction "../model/gen/encoding/model.ml" dispatch.
