(* Extraction of the leaf-prover model (C05). ExtrOcamlBasic only; the hash oracle stays a parameter. *)
From Coq Require Import Extraction ExtrOcamlBasic.
From V.Sys Require Import LeafProver.
Extraction Language OCaml.
Extraction "../model/gen/leafprover/model.ml" dispatch_h.
