(* Extraction of the wrapper-circuit models. ExtrOcamlBasic only; the hash oracle stays a parameter. *)
From Coq Require Import Extraction ExtrOcamlBasic.
From V.Circ Require Import WrappersRun.
Extraction Language OCaml.
Extraction "../model/gen/wrappers/model.ml" dispatch_h.
