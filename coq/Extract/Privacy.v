(* Extraction of the privacy-group models (C15, C32, C33) for the correspondence checks.
   Directives: ExtrOcamlBasic only (bool, option, unit, list, prod, sumbool, comparison -> OCaml natives). *)
From Coq Require Import Extraction ExtrOcamlBasic.
From V.Sys Require Import PrivacyDispatch.
Extraction Language OCaml.

Extraction "../model/gen/privacy/model.ml" dispatch.
