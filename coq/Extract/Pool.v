(* Extraction of the proof-pool model for the correspondence check.
   Directives: ExtrOcamlBasic only (bool, option, unit, list, prod, sumbool, comparison -> OCaml natives). *)
From Coq Require Import Extraction ExtrOcamlBasic.
From V.Sys Require Import Pool.
Extraction Language OCaml.

Extraction "../model/gen/pool/model.ml" dispatch.
