(* Extraction of the gadget models (C30, C31, C10 gadget part). ExtrOcamlBasic only. *)
From Coq Require Import Extraction ExtrOcamlBasic.
From V.Circ Require Import GadgetsRun.
Extraction Language OCaml.
Extraction "../model/gen/gadgets/model.ml" dispatch.
