(* Extraction of the native Merkle-proof model (C27). ExtrOcamlBasic only; the hash oracle stays a parameter. *)
From Coq Require Import Extraction ExtrOcamlBasic.
From V.Sys Require Import Merkle.
Extraction Language OCaml.
Extraction "../model/gen/merkle/model.ml" dispatch_h.
