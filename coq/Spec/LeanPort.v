(* Port of the executable definitions of /repo/formal/WormholeSpec/Aggregation.lean to Gallina, over the
   representation used by the circuit models (a leaf statement = its 21 public inputs, a digest = 4
   felts).  These are the *specification* the wrapper theorems (C06-C09, C12, C13, C36) are stated
   against; C34's bridge is therefore the same theorems.  Definitions only.

   Lean name                    here
   isDummyPrivateBatch          is_dummy_pb
   maskedChildPairs             maskedChildPairs
   matchSum / groupAux / groupExits   matchSum / groupAux / groupExits
   referenceFromFirstReal       ref_header (first non-dummy child, zeros if none)
   nullifiersReplaced           selected_nullifiers
   digestLt / nullifiersSorted  Sorting.digest_ltb / Sorting.sort_spec
   slotsTotal / inputExitTotal  slotsTotal / inputExitTotal *)
From Coq Require Import ZArith Lia List Bool.
From V.Base Require Import Common.
From V.Generated Require Import Constants.
From V.Circ Require Import Field Core Prims Gadgets PrivateBatch PublicBatch SortNet Sorting.
Import ListNotations.
Open Scope Z_scope.

Definition digest := list Z.

Definition is_dummy_pb (pis : list Z) : bool := list_eqb (lf_bh pis) zero4.
Definition is_real_pb (pis : list Z) : bool := negb (is_dummy_pb pis).

Fixpoint maskedChildPairs (leaves : list (list Z)) : list (digest * Z) :=
  match leaves with
  | [] => []
  | p :: rest =>
      (if is_dummy_pb p then (zero4, 0) else (lf_exit1 p, lf_out1 p)) ::
      (if is_dummy_pb p then (zero4, 0) else (lf_exit2 p, lf_out2 p)) ::
      maskedChildPairs rest
  end.

Fixpoint matchSum (k : digest) (xs : list (digest * Z)) : Z :=
  match xs with
  | [] => 0
  | (k', a') :: rest => (if list_eqb k' k then a' else 0) + matchSum k rest
  end.

Definition dmem (k : digest) (seen : list digest) : bool := existsb (list_eqb k) seen.

(* an exit slot is (sum, account) *)
Fixpoint groupAux (seen : list digest) (xs : list (digest * Z)) : list (Z * digest) :=
  match xs with
  | [] => []
  | (k, a) :: rest =>
      (if dmem k seen then (0, zero4) else (a + matchSum k rest, k)) :: groupAux (k :: seen) rest
  end.
Definition groupExits (xs : list (digest * Z)) : list (Z * digest) := groupAux [] xs.

Fixpoint slotsTotal (s : list (Z * digest)) : Z :=
  match s with [] => 0 | (a, _) :: r => a + slotsTotal r end.
Fixpoint inputExitTotal (leaves : list (list Z)) : Z :=
  match leaves with
  | [] => 0
  | p :: r => (if is_dummy_pb p then 0 else lf_out1 p + lf_out2 p) + inputExitTotal r
  end.

(* (fee, block hash, block number) of the first non-dummy child; zeros if there is none *)
Definition ref_header (leaves : list (list Z)) : Z * digest * Z :=
  match find is_real_pb leaves with
  | Some p => (lf_fee p, lf_bh p, lf_bn p)
  | None => (0, zero4, 0)
  end.

Section WithH.
  Variable H : list Z -> list Z.

  Definition dummyNull (u : list Z) : digest := H (H u).

  Fixpoint selected_nullifiers (leaves : list (list Z)) (us : list (list Z)) : list digest :=
    match leaves, us with
    | p :: ps, u :: ur => (if is_dummy_pb p then dummyNull u else lf_null p) :: selected_nullifiers ps ur
    | _, _ => []
    end.

  Definition flat_slot (s : Z * digest) : list Z := fst s :: snd s.

  (* the private-batch public output: 21 N + 8 felts *)
  Definition priv_output (leaves : list (list Z)) (us : list (list Z)) : list Z :=
    let n := zlen leaves in
    let '(fee_ref, bh_ref, bn_ref) := ref_header leaves in
    [2 * n; lf_asset (nth 0 leaves []); fee_ref] ++ bh_ref ++ [bn_ref]
    ++ flat_map flat_slot (groupExits (maskedChildPairs leaves))
    ++ concat (sort_spec (selected_nullifiers leaves us))
    ++ repeat 0 (Z.to_nat (7 * n)).
End WithH.

(* acceptance: one asset over ALL slots; real slots share block hash and fee; real nullifiers pairwise
   distinct; every grouped exit sum below 2^32 *)
Fixpoint distinct_digests (l : list digest) : bool :=
  match l with
  | [] => true
  | d :: r => negb (dmem d r) && distinct_digests r
  end.

Definition priv_compat (leaves : list (list Z)) : bool :=
  let '(fee_ref, bh_ref, _) := ref_header leaves in
  let asset0 := lf_asset (nth 0 leaves []) in
  forallb (fun p => lf_asset p =? asset0) leaves
  && forallb (fun p => is_dummy_pb p || (list_eqb (lf_bh p) bh_ref && (lf_fee p =? fee_ref))) leaves
  && distinct_digests (map lf_null (filter is_real_pb leaves))
  && forallb (fun s => fst s <? two32) (groupExits (maskedChildPairs leaves)).

(* what the leaf circuit guarantees about each child statement (C01) plus shape *)
Definition leaf_wf (pis : list Z) : Prop :=
  length pis = 21%nat /\ Forall canon pis /\ lf_out1 pis < two32 /\ lf_out2 pis < two32.

(* ---------------- public batch ---------------- *)
Definition is_dummy_inner (pis : list Z) : bool := list_eqb (in_bh pis) zero4.
Definition is_real_inner (pis : list Z) : bool := negb (is_dummy_inner pis).

(* (asset, fee, block hash, block number) of the first real inner; zeros if none *)
Definition pub_ref (inners : list (list Z)) : Z * Z * digest * Z :=
  match find is_real_inner inners with
  | Some p => (in_asset p, in_fee p, in_bh p, in_bn p)
  | None => (0, 0, zero4, 0)
  end.

Definition region (pis : list Z) (start len : Z) : list Z :=
  firstn (Z.to_nat len) (skipn (Z.to_nat start) pis).
Definition fwd_region (pis : list Z) (start len : Z) : list Z :=
  if is_dummy_inner pis then repeat 0 (Z.to_nat len) else region pis start len.

Definition pub_output (n : Z) (address : list Z) (inners : list (list Z)) : list Z :=
  let m := zlen inners in
  let '(asset_ref, fee_ref, bh_ref, bn_ref) := pub_ref inners in
  address ++ [asset_ref; fee_ref] ++ bh_ref ++ [bn_ref; 2 * n * m]
  ++ concat (map (fun p => fwd_region p 8 (10 * n)) inners)
  ++ concat (map (fun p => fwd_region p (8 + 10 * n) (4 * n)) inners).

Definition pub_compat (inners : list (list Z)) : bool :=
  let '(asset_ref, fee_ref, bh_ref, _) := pub_ref inners in
  forallb (fun p => is_dummy_inner p ||
                    ((in_asset p =? asset_ref) && (in_fee p =? fee_ref) && list_eqb (in_bh p) bh_ref)) inners.

Definition inner_wf (n : Z) (pis : list Z) : Prop :=
  zlen pis = 21 * n + 8 /\ Forall canon pis.
