(* Shared vocabulary of the executable models: integers are Z, containers are lists,
   fallible functions return [res].  Nothing here is specific to one property. *)
From Coq Require Export ZArith List Bool Lia.
Export ListNotations.
Open Scope Z_scope.

Ltac Zify.zify_post_hook ::= Z.div_mod_to_equations.

(* The Goldilocks modulus, as a literal (kept literal so that [lia] can use it). *)
Definition p : Z := 18446744069414584321.
Definition two32 : Z := 4294967296.
Definition two64 : Z := 18446744073709551616.

Inductive res (A : Type) : Type :=
| Ok (a : A)
| Err (code : Z).
Arguments Ok {A} a.
Arguments Err {A} code.

Definition rbind {A B} (m : res A) (f : A -> res B) : res B :=
  match m with Ok a => f a | Err c => Err c end.
Notation "x <-? m ;; k" := (rbind m (fun x => k)) (at level 61, m at next level, right associativity).
Definition guard (b : bool) (code : Z) : res unit := if b then Ok tt else Err code.
Definition is_ok {A} (r : res A) : bool := match r with Ok _ => true | Err _ => false end.

Definition zlen {A} (l : list A) : Z := Z.of_nat (length l).

Definition is_u32 (x : Z) : bool := (0 <=? x) && (x <? two32).
Definition is_u64 (x : Z) : bool := (0 <=? x) && (x <? two64).
Definition is_canon (x : Z) : bool := (0 <=? x) && (x <? p).

(* split a list into consecutive chunks of [k] elements (Rust [chunks(k)], last chunk may be short) *)
Fixpoint chunks_fuel {A} (fuel : nat) (k : nat) (l : list A) : list (list A) :=
  match fuel with
  | O => []
  | S f => match l with
           | [] => []
           | _ => firstn k l :: chunks_fuel f k (skipn k l)
           end
  end.
Definition chunks {A} (k : nat) (l : list A) : list (list A) := chunks_fuel (length l) k l.

(* map with failure, left to right *)
Fixpoint mapM {A B} (f : A -> res B) (l : list A) : res (list B) :=
  match l with
  | [] => Ok []
  | x :: xs => y <-? f x ;; ys <-? mapM f xs ;; Ok (y :: ys)
  end.

Lemma zlen_nonneg {A} (l : list A) : 0 <= zlen l.
Proof. unfold zlen. lia. Qed.
Lemma zlen_app {A} (l1 l2 : list A) : zlen (l1 ++ l2) = zlen l1 + zlen l2.
Proof. unfold zlen. rewrite app_length. lia. Qed.
Lemma zlen_cons {A} (x : A) (l : list A) : zlen (x :: l) = 1 + zlen l.
Proof. unfold zlen. cbn [length]. lia. Qed.
Lemma zlen_nil {A} : zlen (@nil A) = 0.
Proof. reflexivity. Qed.

(* ---- finite function tables: how the correspondence runs instantiate a hash oracle.
   The harness records the native hash of every list the implementation hashed; the model looks the
   value up (a missing entry is an error, so "model and implementation hash the same preimages" is
   checked, not assumed). *)
Fixpoint list_eqb (a b : list Z) : bool :=
  match a, b with
  | [], [] => true
  | x :: xs, y :: ys => (x =? y) && list_eqb xs ys
  | _, _ => false
  end.
Lemma list_eqb_spec a b : list_eqb a b = true <-> a = b.
Proof.
  revert b; induction a as [|x xs IH]; destruct b as [|y ys]; cbn [list_eqb]; split; intro H;
    try reflexivity; try discriminate.
  - apply andb_true_iff in H. destruct H as [H1 H2]. apply Z.eqb_eq in H1. apply IH in H2. congruence.
  - inversion H; subst. apply andb_true_iff. split; [apply Z.eqb_refl|apply IH; reflexivity].
Qed.
Definition table := list (list Z * list Z).
Fixpoint tbl_lookup (t : table) (k : list Z) : option (list Z) :=
  match t with
  | [] => None
  | (k', v) :: r => if list_eqb k' k then Some v else tbl_lookup r k
  end.
(* alternating key / value segments *)
Fixpoint tbl_of_segs (segs : list (list Z)) : table :=
  match segs with
  | k :: v :: r => (k, v) :: tbl_of_segs r
  | _ => []
  end.
