From Coq Require Import ZArith Znumtheory Lia.
From mathcomp Require Import all_ssreflect.
From mathcomp Require Import zify.

Close Scope Z_scope.
Set Implicit Arguments.
Unset Strict Implicit.
Unset Printing Implicit Defensive.

Lemma Zof_expn (a n : nat) : Z.of_nat (a ^ n) = (Z.of_nat a ^ Z.of_nat n)%Z.
Proof.
elim: n => [|n IH]; first by rewrite expn0.
rewrite expnS Nat2Z.inj_succ Z.pow_succ_r; last by lia.
by rewrite -IH; lia.
Qed.

Lemma Zof_modn (a b : nat) : (0 < b)%nat -> Z.of_nat (modn a b) = (Z.of_nat a mod Z.of_nat b)%Z.
Proof.
move=> Hb.
apply Z.mod_unique with (q := Z.of_nat (divn a b)).
- left. move: (modn a b) (ltn_pmod a Hb) => m Hm. lia.
- have E := divn_eq a b.
  have E2 : Z.of_nat a = (Z.of_nat (divn a b) * Z.of_nat b + Z.of_nat (modn a b))%Z.
  { rewrite {1}E. rewrite Nat2Z.inj_add Nat2Z.inj_mul. reflexivity. }
  rewrite E2. ring.
Qed.

Lemma prime_Z_nat (r : Z) : Znumtheory.prime r -> prime (Z.to_nat r).
Proof.
move=> Hr. have Hr1 : (1 < r)%Z by case: Hr.
apply/primeP; split; first by lia.
move=> d /dvdnP [k Hk].
have Hd : (Z.of_nat d | r)%Z.
  exists (Z.of_nat k). have := f_equal Z.of_nat Hk. rewrite Z2Nat.id; last lia. move=> ->. lia.
case: (prime_divisors _ Hr _ Hd) => [H|[H|[H|H]]]; apply/orP; [lia|left|right|lia].
- by apply/eqP; lia.
- by apply/eqP; lia.
Qed.

Lemma fermat_Z (r a : Z) : Znumtheory.prime r -> (0 <= a)%Z -> ((a ^ r) mod r = a mod r)%Z.
Proof.
move=> Hr Ha. have Hr1 : (1 < r)%Z by case: Hr.
have Hp := prime_Z_nat Hr.
have /(f_equal Z.of_nat) := fermat_little (Z.to_nat a) Hp.
rewrite !Zof_modn; try lia. rewrite Zof_expn !Z2Nat.id; lia.
Qed.
