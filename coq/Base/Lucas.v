From Coq Require Import ZArith Znumtheory Zpow_facts Lia List.
From V.Base Require Import Flt.
Import ListNotations.
Open Scope Z_scope.

Lemma prime_divisor_exists : forall n, 1 < n -> exists r, prime r /\ (r | n).
Proof.
  intros n Hn. assert (H0 : 0 <= n) by lia. revert Hn.
  pattern n. apply Z_lt_induction; [|exact H0]. clear n H0.
  intros n IH Hn. destruct (prime_dec n) as [Hp|Hnp].
  - exists n; split; [assumption|apply Z.divide_refl].
  - destruct (not_prime_divide n Hn Hnp) as [m [[Hm1 Hm2] Hdiv]].
    destruct (IH m) as [r [Hr Hrm]]; [lia|lia|].
    exists r; split; [assumption|]. eapply Z.divide_trans; eassumption.
Qed.

Lemma pow1_sub r a e1 e2 : 1 < r -> 0 <= e2 <= e1 ->
  a ^ e1 mod r = 1 -> a ^ e2 mod r = 1 -> a ^ (e1 - e2) mod r = 1.
Proof.
  intros Hr He H1 H2.
  assert (E : a ^ e1 = a ^ (e1 - e2) * a ^ e2).
  { rewrite <- Z.pow_add_r by lia. f_equal; lia. }
  rewrite E in H1. rewrite Z.mul_mod in H1 by lia. rewrite H2 in H1.
  rewrite Z.mul_1_r in H1. rewrite Z.mod_mod in H1 by lia. exact H1.
Qed.

Lemma pow1_gcd r a : 1 < r -> forall s, 0 <= s -> forall e1 e2, 0 <= e1 -> 0 <= e2 -> e1 + e2 = s ->
  a ^ e1 mod r = 1 -> a ^ e2 mod r = 1 -> a ^ (Z.gcd e1 e2) mod r = 1.
Proof.
  intros Hr s Hs. pattern s. apply Z_lt_induction; [|exact Hs]. clear s Hs.
  intros s IH e1 e2 H1 H2 Hsum A1 A2.
  destruct (Z.eq_dec e1 0) as [->|N1]; [rewrite Z.gcd_0_l, Z.abs_eq by lia; exact A2|].
  destruct (Z.eq_dec e2 0) as [->|N2]; [rewrite Z.gcd_0_r, Z.abs_eq by lia; exact A1|].
  destruct (Z_le_gt_dec e2 e1) as [Hle|Hgt].
  - replace (Z.gcd e1 e2) with (Z.gcd (e1 - e2) e2).
    + apply (IH (e1 - e2 + e2)); try lia. apply pow1_sub; try lia; assumption.
    + rewrite (Z.gcd_comm (e1 - e2) e2). rewrite Z.gcd_sub_diag_r. apply Z.gcd_comm.
  - replace (Z.gcd e1 e2) with (Z.gcd e1 (e2 - e1)).
    + apply (IH (e1 + (e2 - e1))); try lia. apply pow1_sub; try lia; assumption.
    + apply Z.gcd_sub_diag_r.
Qed.

Lemma pow1_mul r a e k : 1 < r -> 0 <= e -> 0 <= k -> a ^ e mod r = 1 -> a ^ (e * k) mod r = 1.
Proof.
  intros Hr He Hk H. rewrite Z.pow_mul_r by lia. rewrite Zpower_mod by lia. rewrite H.
  rewrite Z.pow_1_l by lia. apply Z.mod_1_l; lia.
Qed.

Lemma flt_minus1 r a : prime r -> 0 < a -> ~ (r | a) -> a ^ (r - 1) mod r = 1.
Proof.
  intros Hr Ha Hnd. assert (Hr1 : 1 < r) by (destruct Hr; assumption).
  pose proof (@fermat_Z r a Hr ltac:(lia)) as F.
  assert (D : (r | a ^ r - a)).
  { apply Zmod_divide_minus in F; [|lia].
    destruct F as [k Hk]. exists (k - a / r).
    pose proof (Z.div_mod a r ltac:(lia)). lia. }
  assert (E : a ^ r - a = a * (a ^ (r - 1) - 1)).
  { replace r with (Z.succ (r - 1)) at 1 by lia. rewrite Z.pow_succ_r by lia. ring. }
  rewrite E in D. apply prime_mult in D; [|assumption]. destruct D as [D|D]; [contradiction|].
  apply Zdivide_mod_minus; [lia|assumption].
Qed.

Lemma prime_div_prod r l : prime r -> Forall prime l -> (r | fold_right Z.mul 1 l) -> In r l.
Proof.
  intros Hr Hl. induction l as [|x l IH]; simpl; intros D.
  - exfalso. assert (1 < r) by (destruct Hr; assumption).
    apply Z.divide_1_r in D. lia.
  - inversion Hl as [|? ? Hx Hl']; subst. apply prime_mult in D; [|assumption].
    destruct D as [D|D].
    + left. symmetry. apply prime_div_prime; assumption.
    + right. apply IH; assumption.
Qed.

Theorem lucas N a factors :
  1 < N -> 0 < a ->
  N - 1 = fold_right Z.mul 1 factors -> Forall prime factors ->
  a ^ (N - 1) mod N = 1 ->
  Forall (fun q => Z.gcd (a ^ ((N - 1) / q) mod N - 1) N = 1) factors ->
  prime N.
Proof.
  intros HN Ha Hfac Hprimes Hone Hgcd.
  destruct (prime_dec N) as [|Hnp]; [assumption|exfalso].
  destruct (not_prime_divide N HN Hnp) as [m [[Hm1 Hm2] Hmdiv]].
  destruct (prime_divisor_exists m Hm1) as [r [Hr Hrm]].
  assert (HrN : (r | N)) by (eapply Z.divide_trans; eassumption).
  assert (Hr1 : 1 < r) by (destruct Hr; assumption).
  assert (Hrm' : r <= m) by (apply Z.divide_pos_le; [lia|assumption]).
  (* a^(N-1) = 1 mod r *)
  assert (A1 : a ^ (N - 1) mod r = 1).
  { apply Zdivide_mod_minus; [lia|]. apply Zmod_divide_minus in Hone; [|lia].
    eapply Z.divide_trans; eassumption. }
  (* r does not divide a *)
  assert (Hnd : ~ (r | a)).
  { intros D. assert (D2 : (r | a ^ (N - 1))).
    { replace (N - 1) with (Z.succ (N - 2)) by lia. rewrite Z.pow_succ_r by lia.
      apply Z.divide_mul_l; assumption. }
    apply Zdivide_mod in D2. lia. }
  assert (A2 : a ^ (r - 1) mod r = 1) by (apply flt_minus1; assumption).
  set (g := Z.gcd (N - 1) (r - 1)).
  assert (Ag : a ^ g mod r = 1).
  { unfold g. apply (pow1_gcd r a Hr1 ((N - 1) + (r - 1))); try lia; assumption. }
  assert (Hg1 : (g | N - 1)) by apply Z.gcd_divide_l.
  assert (Hg2 : (g | r - 1)) by apply Z.gcd_divide_r.
  assert (Hgpos : 0 < g).
  { pose proof (Z.gcd_nonneg (N - 1) (r - 1)). fold g in H.
    destruct (Z.eq_dec g 0) as [E|]; [|lia]. unfold g in E. apply Z.gcd_eq_0_l in E. lia. }
  assert (Hgle : g <= r - 1) by (apply Z.divide_pos_le; [lia|assumption]).
  destruct Hg1 as [k Hk].
  assert (Hk1 : 1 < k) by nia.
  destruct (prime_divisor_exists k Hk1) as [q [Hq Hqk]].
  assert (HqN : (q | N - 1)).
  { rewrite Hk. apply Z.divide_mul_l. assumption. }
  assert (Hin : In q factors).
  { apply prime_div_prod; try assumption. rewrite <- Hfac. assumption. }
  rewrite Forall_forall in Hgcd. specialize (Hgcd q Hin).
  assert (Hq1 : 1 < q) by (destruct Hq; assumption).
  destruct Hqk as [k' Hk'].
  assert (Hk'pos : 0 < k') by nia.
  assert (Ediv : (N - 1) / q = g * k').
  { rewrite Hk, Hk'. replace (k' * q * g) with (g * k' * q) by ring. apply Z.div_mul; lia. }
  assert (Aq : a ^ ((N - 1) / q) mod r = 1).
  { rewrite Ediv. apply pow1_mul; lia. }
  (* r divides (a^((N-1)/q) mod N - 1) and N *)
  assert (Dr : (r | a ^ ((N - 1) / q) mod N - 1)).
  { apply Zmod_divide_minus in Aq; [|lia].
    pose proof (Z.div_mod (a ^ ((N - 1) / q)) N ltac:(lia)) as DM.
    replace (a ^ ((N - 1) / q) mod N - 1) with ((a ^ ((N - 1) / q) - 1) - N * (a ^ ((N - 1) / q) / N)) by lia.
    apply Z.divide_sub_r; [assumption|]. apply Z.divide_mul_l; assumption. }
  assert (Dg : (r | Z.gcd (a ^ ((N - 1) / q) mod N - 1) N)) by (apply Z.gcd_greatest; assumption).
  rewrite Hgcd in Dg. apply Z.divide_1_r in Dg. lia.
Qed.

Ltac forall_split := repeat (first [apply Forall_nil | apply Forall_cons]).
Ltac lucas_tac a factors :=
  apply (lucas _ a factors);
  [ lia | lia | vm_compute; reflexivity
  | simpl; forall_split
  | rewrite <- Zpow_mod_correct by lia; vm_compute; reflexivity
  | simpl; forall_split; rewrite <- Zpow_mod_correct by lia; vm_compute; reflexivity ].

Lemma prime_5 : prime 5.     Proof. lucas_tac 2 [2;2]; try exact prime_2. Qed.
Lemma prime_17 : prime 17.   Proof. lucas_tac 3 [2;2;2;2]; try exact prime_2. Qed.
Lemma prime_257 : prime 257. Proof. lucas_tac 3 (repeat 2 8); try exact prime_2. Qed.
Lemma prime_65537 : prime 65537. Proof. lucas_tac 3 (repeat 2 16); try exact prime_2. Qed.

Definition goldilocks : Z := 18446744069414584321.
Theorem goldilocks_prime : prime goldilocks.
Proof.
  unfold goldilocks.
  lucas_tac 7 (repeat 2 32 ++ [3;5;17;257;65537]);
    first [exact prime_2|exact prime_3|exact prime_5|exact prime_17|exact prime_257|exact prime_65537].
Qed.
Print Assumptions goldilocks_prime.
