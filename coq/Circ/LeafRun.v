(* Entry points of the leaf-circuit model for the correspondence runs (C01-C04, C27 circuit side).
   The hash oracle is a parameter (answered natively by the driver). No proofs. *)
From Coq Require Import ZArith List Bool.
From V.Base Require Import Common.
From V.Circ Require Import Field Core Prims Gadgets GadgetsRun Leaf.
Import ListNotations.
Open Scope Z_scope.

Fixpoint group3 (l : list (list Z)) : list (list (list Z)) :=
  match l with
  | a :: b :: c :: r => [a; b; c] :: group3 r
  | _ => []
  end.

(* segments:
   0: [asset; out1; out2; fee; input_amount; depth; is_not_dummy (or -1 = not assigned: determined by the
       copy constraint to the derived flag); block_number]
   1: to_account  2: leaf transfer_count  3: root_hash  4: positions
   5: nullifier  6: nullifier.secret  7: nullifier.transfer_count  8: unspendable.account_id
   9: unspendable.secret  10: exit1  11: exit2  12: block_hash  13: parent_hash  14: state_root
   15: extrinsics_root  16: header.zk_tree_root  17: digest  18..65: siblings (level-major, 3 per level) *)
Definition leaf_in_of_segs (a : list (list Z)) : LeafIn :=
  let s0 := seg a 0 in
  let g j := nth j s0 0 in
  let bh := seg a 12 in
  let derived :=
    if (nth 0 bh 0 =? 0) && (nth 1 bh 0 =? 0) && (nth 2 bh 0 =? 0) && (nth 3 bh 0 =? 0)
       && (g 1%nat =? 0) && (g 2%nat =? 0) then 0 else 1 in
  mkLeafIn (g 0%nat) (g 1%nat) (g 2%nat) (g 3%nat) (seg a 1) (seg a 2) (g 4%nat)
           (seg a 3) (g 5%nat) (if g 6%nat =? -1 then derived else g 6%nat)
           (group3 (firstn 48 (skipn 18 a))) (seg a 4)
           (seg a 5) (seg a 6) (seg a 7) (seg a 8) (seg a 9) (seg a 10) (seg a 11)
           (seg a 12) (seg a 13) (g 7%nat) (seg a 14) (seg a 15) (seg a 16) (seg a 17).

Definition enc_hon_list (r : option (list Z)) : list Z := match r with Some v => 1 :: v | None => [0] end.

Definition dispatch_h (H : list Z -> list Z) (fid : Z) (args : list (list Z)) : list Z :=
  if fid =? 101 then enc_hon_list (hon H (leaf_circuit (leaf_in_of_segs args)))
  else if fid =? 102 then
    enc_hon_list (ovr H (ovr_of_segs (skipn 66 args)) (leaf_circuit (leaf_in_of_segs args)) 0 0 0)
  else if fid =? 105 then trace_kinds (trace H (leaf_circuit (leaf_in_of_segs args)))
  else [-2].
