(* common/src/gadgets.rs, transcribed line by line as [Circ] programs (model only - proofs are in
   GadgetsProofs.v / Sorting.v). *)
From Coq Require Import ZArith Lia List Bool.
From V.Base Require Import Common.
From V.Circ Require Import Field Core Prims.
Import ListNotations.
Open Scope Z_scope.

Definition is_equal (x y : Z) : Circ Z := IsEq x y (fun e => Ret e).

(* gadgets.rs:214 split_canonical_u32_halves *)
Definition split_canonical_u32_halves (x : Z) : Circ (Z * Z) :=
  '(lo, hi) <- split_low_high x 32 64 ;;
  hi_is_max <- is_equal hi (two32 - 1) ;;
  lo_is_zero <- is_equal lo 0 ;;
  let lo_nonzero := g_not lo_is_zero in
  let in_wraparound := g_and hi_is_max lo_nonzero in
  Assert in_wraparound 0 (Ret (lo, hi)).

(* gadgets.rs:191 u32_lt: t = x + 2^32 - y, bit 32 of t is (x >= y) *)
Definition u32_lt (x y : Z) : Circ Z :=
  let x_shifted := fadd x two32 in
  let t := fsub x_shifted y in
  '(_, ge_bit) <- split_low_high t 32 33 ;;
  Ret (g_not ge_bit).

(* gadgets.rs:81 is_const_less_than_canonical_u64 *)
Definition is_const_less_than_canonical_u64 (left right : Z) : Circ Z :=
  '(right_lo, right_hi) <- split_canonical_u32_halves right ;;
  let left_lo := left mod two32 in
  let left_hi := left / two32 in
  hi_lt <- u32_lt left_hi right_hi ;;
  lo_lt <- u32_lt left_lo right_lo ;;
  hi_eq <- is_equal left_hi right_hi ;;
  let lo_lt_and_hi_eq := g_and hi_eq lo_lt in
  Ret (g_or hi_lt lo_lt_and_hi_eq).

(* the comparator loop of is_const_less_than: pairs (a_i, b_i) from the most significant bit down *)
Fixpoint lt_loop (pairs : list (Z * Z)) (lt eq : Z) : Z :=
  match pairs with
  | [] => lt
  | (a, b) :: r =>
      let not_a := g_not a in
      let not_a_and_b := g_and not_a b in
      let this_lt := g_and not_a_and_b eq in
      let lt' := g_or lt this_lt in
      let a_xor_b := g_xor a b in
      let not_xor := g_not a_xor_b in
      let eq' := g_and eq not_xor in
      lt_loop r lt' eq'
  end.

(* gadgets.rs:40 is_const_less_than(left, right, n_log); the builder-time asserts
   (0 < n_log <= 64, left < 2^n_log) are the preconditions of the theorems *)
Definition is_const_less_than (left right : Z) (n_log : nat) : Circ Z :=
  if (n_log =? 64)%nat then is_const_less_than_canonical_u64 left right
  else
    right_bits <- Split right n_log (fun bs => Ret bs) ;;
    let left_bits := bits_of left n_log in
    Ret (lt_loop (rev (combine left_bits right_bits)) 0 1).

(* gadgets.rs:101 enforce_target_less_than_const *)
Definition enforce_target_less_than_const (target upper_bound_exclusive : Z) (n_log : nat) : Circ unit :=
  overflow <- is_const_less_than (upper_bound_exclusive - 1) target n_log ;;
  Assert overflow 0 (Ret tt).

(* gadgets.rs:144 bytes_digest_eq on 4-limb digests *)
Definition bytes_digest_eq (a c : list Z) : Circ Z :=
  e0 <- is_equal (nth 0 a 0) (nth 0 c 0) ;;
  e1 <- is_equal (nth 1 a 0) (nth 1 c 0) ;;
  e2 <- is_equal (nth 2 a 0) (nth 2 c 0) ;;
  e3 <- is_equal (nth 3 a 0) (nth 3 c 0) ;;
  let e01 := g_and e0 e1 in
  let e23 := g_and e2 e3 in
  Ret (g_and e01 e23).

(* gadgets.rs:240 halves8_lt: fold from the least significant half up; [pairs] is given least
   significant FIRST (i = 7 down to 0 in the Rust loop) *)
Fixpoint halves_lt_loop (pairs : list (Z * Z)) (lt : Z) : Circ Z :=
  match pairs with
  | [] => Ret lt
  | (l, r) :: rest =>
      lt_i <- u32_lt l r ;;
      eq_i <- is_equal l r ;;
      let carry := g_and eq_i lt in
      halves_lt_loop rest (g_or lt_i carry)
  end.
Definition halves8_lt (lhs rhs : list Z) : Circ Z := halves_lt_loop (rev (combine lhs rhs)) 0.

(* ---- gadgets.rs:285 sort_digests4 ---- *)
(* ingress: one canonical split per limb; halves most significant first [hi0; lo0; hi1; lo1; ...] *)
Fixpoint ingress_limbs (d : list Z) : Circ (list Z) :=
  match d with
  | [] => Ret []
  | x :: r =>
      '(lo, hi) <- split_canonical_u32_halves x ;;
      rest <- ingress_limbs r ;;
      Ret (hi :: lo :: rest)
  end.
Fixpoint ingress (ds : list (list Z)) : Circ (list (list Z)) :=
  match ds with
  | [] => Ret []
  | d :: r => h <- ingress_limbs d ;; rest <- ingress r ;; Ret (h :: rest)
  end.

Definition select_halves (flag : Z) (x y : list Z) : list Z :=
  map (fun '(a, b) => g_select flag a b) (combine x y).

(* one round: compare-and-swap the pairs (i, i+1) for i = start, start+2, ... *)
Fixpoint cas_pairs (v : list (list Z)) : Circ (list (list Z)) :=
  match v with
  | a :: b :: r =>
      lhs_lt <- halves8_lt a b ;;
      rest <- cas_pairs r ;;
      Ret (select_halves lhs_lt a b :: select_halves lhs_lt b a :: rest)
  | _ => Ret v
  end.
Definition sort_round (round : nat) (v : list (list Z)) : Circ (list (list Z)) :=
  if Nat.even round then cas_pairs v
  else match v with
       | [] => Ret []
       | x :: r => rest <- cas_pairs r ;; Ret (x :: rest)
       end.
Fixpoint sort_rounds (rounds : list nat) (v : list (list Z)) : Circ (list (list Z)) :=
  match rounds with
  | [] => Ret v
  | r :: rs => v' <- sort_round r v ;; sort_rounds rs v'
  end.

(* egress: limb_j = 2^32 * halves[2j] + halves[2j+1] *)
Fixpoint egress_limbs (h : list Z) : list Z :=
  match h with
  | hi :: lo :: r => g_mul_const_add two32 hi lo :: egress_limbs r
  | _ => []
  end.

Definition sort_digests4 (values : list (list Z)) : Circ (list (list Z)) :=
  let n := length values in
  if (n <=? 1)%nat then Ret values
  else
    v <- ingress values ;;
    v' <- sort_rounds (seq 0 n) v ;;
    Ret (map egress_limbs v').
