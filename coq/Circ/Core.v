(* One program text, several semantics.

   A circuit-building Rust function `fn g(builder, targets..) -> targets` is transcribed as a Gallina
   function returning a [Circ A] tree (a free monad): targets are field values (shallow embedding),
   `let t = builder.op(..)` becomes a bind.  Arithmetic gadgets whose output wire is fixed by a gate
   equation are pure field functions (Prims.v); the nodes of the tree are exactly the places where a
   plonky2 circuit (a) constrains ([Assert]), (b) hashes ([Hash]), or (c) introduces wires whose
   values are chosen by a *witness generator* and only constrained afterwards ([IsEq], [Split],
   [Free2]) - the places where an adversarial prover has freedom.

   Semantics:
     [rel]   what an arbitrary (adversarial) prover can satisfy        - object of soundness theorems
     [hon]   what the honest witness generators compute (executable)   - run against the real prover
     [chk]   constraints evaluated on an explicit hint stream          - run against hint-overridden
                                                                         witness generation
     [trace] the sequence of hint-allocating calls on the honest path  - circuit fingerprint
   The hash function is a parameter [H] (Poseidon2 sponge, 4 output felts); it is never axiomatised. *)
From Coq Require Import ZArith Lia List Bool.
From V.Base Require Import Common.
From V.Circ Require Import Field.
Import ListNotations.
Open Scope Z_scope.
(* mathcomp.zify (loaded through Base/Flt.v) resets the hook; set it again after all imports *)
Ltac Zify.zify_post_hook ::= Z.div_mod_to_equations.

Inductive Circ (A : Type) : Type :=
| Ret (a : A)
| Assert (x y : Z) (k : Circ A)                         (* connect / assert_zero: x = y            *)
| Hash (l : list Z) (k : list Z -> Circ A)              (* hash_n_to_hash_no_pad_p2 -> 4 felts     *)
| IsEq (x y : Z) (k : Z -> Circ A)                      (* builder.is_equal: hint wires (equal,inv) *)
| Split (x : Z) (n : nat) (k : list Z -> Circ A)        (* builder.split_le(x, n): n BaseSum<2> limbs *)
| Free2 (h1 h2 : Z) (k : Z -> Z -> Circ A).             (* two virtual targets set by a generator
                                                           (LowHighGenerator); h1 h2 = honest values *)
Arguments Ret {A} a.
Arguments Assert {A} x y k.
Arguments Hash {A} l k.
Arguments IsEq {A} x y k.
Arguments Split {A} x n k.
Arguments Free2 {A} h1 h2 k.

Fixpoint bind {A B} (c : Circ A) (f : A -> Circ B) : Circ B :=
  match c with
  | Ret a => f a
  | Assert x y k => Assert x y (bind k f)
  | Hash l k => Hash l (fun h => bind (k h) f)
  | IsEq x y k => IsEq x y (fun e => bind (k e) f)
  | Split x n k => Split x n (fun bs => bind (k bs) f)
  | Free2 h1 h2 k => Free2 h1 h2 (fun a b => bind (k a b) f)
  end.

Notation "x <- c ;; k" := (bind c (fun x => k)) (at level 61, c at next level, right associativity).
Notation "' pat <- c ;; k" := (bind c (fun x => match x with pat => k end))
  (at level 61, pat pattern, c at next level, right associativity).

(* Sigma b_i 2^i, little endian *)
Fixpoint bsum (bits : list Z) : Z :=
  match bits with
  | [] => 0
  | b :: r => b + 2 * bsum r
  end.
Fixpoint bits_of (x : Z) (n : nat) : list Z :=
  match n with
  | O => []
  | S m => (x mod 2) :: bits_of (x / 2) m
  end.

Section Semantics.
  Variable H : list Z -> list Z.

  (* ---- adversarial prover: every hint wire is an arbitrary field element *)
  Fixpoint rel {A} (c : Circ A) (post : A -> Prop) : Prop :=
    match c with
    | Ret a => post a
    | Assert x y k => x = y /\ rel k post
    | Hash l k => rel (k (H l)) post
    | IsEq x y k =>
        exists e inv, canon e /\ canon inv /\
          fmul e (fsub x y) = 0 /\                              (* not_equal_check = 0 *)
          fsub (fmul (fsub x y) inv) (fsub 1 e) = 0 /\          (* equal_check = 0     *)
          rel (k e) post
    | Split x n k =>
        match n with
        | O => rel (k []) post                                  (* split_le(_, 0) adds no constraint *)
        | _ => exists bits, length bits = n /\ Forall bitZ bits /\ (bsum bits) mod p = x /\ rel (k bits) post
        end
    | Free2 _ _ k => exists a b, canon a /\ canon b /\ rel (k a b) post
    end.

  (* ---- honest generators *)
  Fixpoint hon {A} (c : Circ A) : option A :=
    match c with
    | Ret a => Some a
    | Assert x y k => if x =? y then hon k else None
    | Hash l k => hon (k (H l))
    | IsEq x y k => hon (k (if x =? y then 1 else 0))
    | Split x n k =>
        match n with
        | O => hon (k [])
        | _ => if x <? 2 ^ Z.of_nat n then hon (k (bits_of x n)) else None
        end
    | Free2 h1 h2 k => hon (k h1 h2)
    end.

  (* ---- explicit (possibly adversarial) hint stream; every hint must be a canonical field element *)
  Fixpoint take_hints (n : nat) (hs : list Z) : option (list Z * list Z) :=
    match n with
    | O => Some ([], hs)
    | S m => match hs with
             | [] => None
             | h :: r => match take_hints m r with
                         | Some (a, rest) => Some (h :: a, rest)
                         | None => None
                         end
             end
    end.

  Fixpoint chk {A} (c : Circ A) (hs : list Z) : option (A * list Z) :=
    match c with
    | Ret a => Some (a, hs)
    | Assert x y k => if x =? y then chk k hs else None
    | Hash l k => chk (k (H l)) hs
    | IsEq x y k =>
        match hs with
        | e :: inv :: r =>
            if is_canon e && is_canon inv && (fmul e (fsub x y) =? 0)
               && (fsub (fmul (fsub x y) inv) (fsub 1 e) =? 0)
            then chk (k e) r else None
        | _ => None
        end
    | Split x n k =>
        match n with
        | O => chk (k []) hs
        | _ => match take_hints n hs with
               | Some (bits, r) =>
                   if forallb is_bit bits && ((bsum bits) mod p =? x) then chk (k bits) r else None
               | None => None
               end
        end
    | Free2 _ _ k =>
        match hs with
        | a :: b :: r => if is_canon a && is_canon b then chk (k a b) r else None
        | _ => None
        end
    end.

  (* ---- fingerprint: hint-allocating calls on the honest path: 1 = is_equal, 2 n = split_le n, 3 = low/high pair *)
  Fixpoint trace {A} (c : Circ A) : list Z :=
    match c with
    | Ret _ => []
    | Assert _ _ k => trace k
    | Hash l k => trace (k (H l))
    | IsEq x y k => 1 :: trace (k (if x =? y then 1 else 0))
    | Split x n k => match n with O => trace (k []) | _ => 2 :: Z.of_nat n :: trace (k (bits_of x n)) end
    | Free2 h1 h2 k => 3 :: trace (k h1 h2)
    end.

  (* ================= generic laws ================= *)

  Lemma rel_mono {A} (c : Circ A) (P Q : A -> Prop) :
    (forall a, P a -> Q a) -> rel c P -> rel c Q.
  Proof.
    induction c as [a|x y k IH|l k IH|x y k IH|x n k IH|h1 h2 k IH]; cbn [rel]; intros PQ.
    - auto.
    - intros [E R]. split; [exact E|apply IH; assumption].
    - apply IH; assumption.
    - intros (e & inv & He & Hi & C1 & C2 & R). exists e, inv. repeat (split; [assumption|]). eapply IH; eassumption.
    - destruct n as [|n]; [apply IH; assumption|].
      intros (bits & L & B & S & R). exists bits. repeat (split; [assumption|]). eapply IH; eassumption.
    - intros (a & b & Ha & Hb & R). exists a, b. repeat (split; [assumption|]). eapply IH; eassumption.
  Qed.

  Lemma rel_bind {A B} (c : Circ A) (f : A -> Circ B) (post : B -> Prop) :
    rel (bind c f) post <-> rel c (fun a => rel (f a) post).
  Proof.
    induction c as [a|x y k IH|l k IH|x y k IH|x n k IH|h1 h2 k IH]; cbn [bind rel].
    - tauto.
    - rewrite IH. tauto.
    - apply IH.
    - split; intros (e & inv & He & Hi & C1 & C2 & R); exists e, inv; repeat (split; [assumption|]); apply IH; assumption.
    - destruct n as [|n]; [apply IH|].
      split; intros (bits & L & Bt & S & R); exists bits; repeat (split; [assumption|]); apply IH; assumption.
    - split; intros (a & b & Ha & Hb & R); exists a, b; repeat (split; [assumption|]); apply IH; assumption.
  Qed.

  Lemma hon_bind {A B} (c : Circ A) (f : A -> Circ B) :
    hon (bind c f) = match hon c with Some a => hon (f a) | None => None end.
  Proof.
    induction c as [a|x y k IH|l k IH|x y k IH|x n k IH|h1 h2 k IH]; cbn [bind hon].
    - reflexivity.
    - destruct (x =? y); [apply IH|reflexivity].
    - apply IH.
    - apply IH.
    - destruct n as [|n]; [apply IH|]. destruct (x <? _); [apply IH|reflexivity].
    - apply IH.
  Qed.

  Lemma trace_bind {A B} (c : Circ A) (f : A -> Circ B) :
    trace (bind c f) = trace c ++ match hon c with Some a => trace (f a) | None => [] end
    \/ hon c = None.
  Proof.
    induction c as [a|x y k IH|l k IH|x y k IH|x n k IH|h1 h2 k IH]; cbn [bind hon trace].
    - left; reflexivity.
    - destruct (x =? y); [apply IH|right; reflexivity].
    - apply IH.
    - destruct (IH (if x =? y then 1 else 0)) as [E|E]; [left; rewrite E; reflexivity|right; exact E].
    - destruct n as [|n]; [apply IH|]. destruct (x <? _); [|right; reflexivity].
      destruct (IH (bits_of x (S n))) as [E|E]; [left; cbn [app]; rewrite E; reflexivity|right; exact E].
    - destruct (IH h1 h2) as [E|E]; [left; rewrite E; reflexivity|right; exact E].
  Qed.

  (* the checker is sound for the relational semantics *)
  Lemma take_hints_length n hs bits r : take_hints n hs = Some (bits, r) -> length bits = n /\ hs = bits ++ r.
  Proof.
    revert hs bits r; induction n as [|n IH]; cbn [take_hints]; intros hs bits r E.
    - inversion E; subst. split; reflexivity.
    - destruct hs as [|h hs']; [discriminate|]. destruct (take_hints n hs') as [[a rest]|] eqn:T; [|discriminate].
      inversion E; subst. destruct (IH _ _ _ T) as [L ->]. split; [cbn; lia|reflexivity].
  Qed.

  Lemma chk_sound {A} (c : Circ A) : forall hs a rest, chk c hs = Some (a, rest) -> rel c (fun a' => a' = a).
  Proof.
    induction c as [a0|x y k IH|l k IH|x y k IH|x n k IH|h1 h2 k IH]; cbn [chk rel]; intros hs a rest E.
    - inversion E; reflexivity.
    - destruct (Z.eqb_spec x y) as [Exy|]; [|discriminate]. split; [exact Exy|eapply IH; eassumption].
    - eapply IH; eassumption.
    - destruct hs as [|e [|inv r]]; try discriminate.
      destruct (is_canon e && is_canon inv && (fmul e (fsub x y) =? 0)
                && (fsub (fmul (fsub x y) inv) (fsub 1 e) =? 0)) eqn:G; [|discriminate].
      do 3 (apply andb_true_iff in G; destruct G as [G ?]).
      exists e, inv. split; [apply is_canon_spec; assumption|]. split; [apply is_canon_spec; assumption|].
      split; [apply Z.eqb_eq; assumption|]. split; [apply Z.eqb_eq; assumption|]. eapply IH; eassumption.
    - destruct n as [|n]; [eapply IH; eassumption|].
      destruct (take_hints (S n) hs) as [[bits r]|] eqn:T; [|discriminate].
      destruct (forallb is_bit bits && (bsum bits mod p =? x)) eqn:G; [|discriminate].
      apply andb_true_iff in G. destruct G as [G1 G2].
      exists bits. split; [apply (take_hints_length _ _ _ _ T)|]. split.
      { apply Forall_forall. intros b Hb. apply is_bit_spec. rewrite forallb_forall in G1. auto. }
      split; [apply Z.eqb_eq; exact G2|]. eapply IH; eassumption.
    - destruct hs as [|a0 [|b0 r]]; try discriminate.
      destruct (is_canon a0 && is_canon b0) eqn:G; [|discriminate].
      apply andb_true_iff in G. destruct G as [G1 G2].
      exists a0, b0. split; [apply is_canon_spec; assumption|]. split; [apply is_canon_spec; assumption|]. eapply IH; eassumption.
  Qed.

  (* ================= refinement: "no witness freedom" ================= *)

  Definition refines {A} (c : Circ A) : Prop :=
    forall post, rel c post <-> match hon c with Some a => post a | None => False end.

  Lemma refines_ret {A} (a : A) : refines (Ret a).
  Proof. intro post; cbn; tauto. Qed.

  Lemma refines_bind {A B} (c : Circ A) (f : A -> Circ B) :
    refines c -> (forall a, hon c = Some a -> refines (f a)) -> refines (bind c f).
  Proof.
    intros Rc Rf post. rewrite rel_bind, hon_bind. rewrite (Rc (fun a => rel (f a) post)).
    destruct (hon c) as [a|]; [apply Rf; reflexivity|tauto].
  Qed.

  Lemma refines_assert {A} x y (k : Circ A) : refines k -> refines (Assert x y k).
  Proof.
    intros Rk post. cbn [rel hon]. destruct (Z.eqb_spec x y) as [E|N]; [rewrite (Rk post); tauto|tauto].
  Qed.

  Lemma refines_hash {A} l (k : list Z -> Circ A) : refines (k (H l)) -> refines (Hash l k).
  Proof. intros Rk post. cbn [rel hon]. apply Rk. Qed.

  (* unique satisfying output + "if the honest witness fails, every witness fails" *)
  Lemma refines_unique {A} (c : Circ A) : refines c ->
    forall a b, rel c (fun x => x = a) -> rel c (fun x => x = b) -> a = b.
  Proof.
    intros R a b Ha Hb. apply R in Ha. apply R in Hb. destruct (hon c); [congruence|contradiction].
  Qed.
  Lemma refines_honest_fails {A} (c : Circ A) : refines c -> hon c = None -> forall post, ~ rel c post.
  Proof. intros R E post Hr. apply R in Hr. rewrite E in Hr. exact Hr. Qed.
  Lemma refines_sat_iff {A} (c : Circ A) : refines c ->
    ((exists a, rel c (fun x => x = a)) <-> exists a, hon c = Some a).
  Proof.
    intros R. split.
    - intros [a Ha]. apply R in Ha. destruct (hon c) as [a'|]; [exists a'; reflexivity|contradiction].
    - intros [a Ha]. exists a. apply R. rewrite Ha. reflexivity.
  Qed.
End Semantics.

Arguments refines H {A} c.

(* ================= hint overrides =================
   The correspondence harness re-runs plonky2's witness generation with the outputs of selected
   generators replaced (EqualityGenerator#i -> (equal, inv); LowHighGenerator#i -> (low, high);
   BaseSplitGenerator#i -> the limbs of the i-th split_le), every other generator running honestly *on
   the possibly deviated values*, and then evaluates all constraints.  [ovr] is the model of exactly
   that: [chk] with a hint supplier that answers from the override table, else with the honest
   generator's value.  Every constraint is evaluated, also on honest hints (the honest inverse is
   computed by Fermat exponentiation), so [ovr_sound] holds generically. *)
(* inverse by the extended Euclidean algorithm (fuel 200 > 1.45 * 64 steps); its correctness is never
   assumed: [ovr] evaluates the constraint the hint has to satisfy *)
Fixpoint egcd_inv (fuel : nat) (r0 r1 t0 t1 : Z) : Z :=
  match fuel with
  | O => t0
  | S f => if r1 =? 0 then t0 else
             let q := r0 / r1 in egcd_inv f r1 (r0 - q * r1) t1 (t0 - q * t1)
  end.
Definition finv (d : Z) : Z := (egcd_inv 200 p (d mod p) 0 1) mod p.

Fixpoint ovr_find (o : list (Z * list Z)) (i : nat) : option (list Z) :=
  match o with
  | [] => None
  | (k, v) :: r => if k =? Z.of_nat i then Some v else ovr_find r i
  end.

Record overrides := mkOvr { o_eq : list (Z * list Z); o_lh : list (Z * list Z); o_sp : list (Z * list Z) }.

Section Ovr.
  Variable H : list Z -> list Z.
  Variable o : overrides.

  Fixpoint ovr {A} (c : Circ A) (ne nl ns : nat) : option A :=
    match c with
    | Ret a => Some a
    | Assert x y k => if x =? y then ovr k ne nl ns else None
    | Hash l k => ovr (k (H l)) ne nl ns
    | IsEq x y k =>
        let hint := match ovr_find (o_eq o) ne with
                    | Some [e; inv] => (e, inv)
                    | _ => (if x =? y then 1 else 0, finv (fsub x y))
                    end in
        let '(e, inv) := hint in
        if is_canon e && is_canon inv && (fmul e (fsub x y) =? 0)
           && (fsub (fmul (fsub x y) inv) (fsub 1 e) =? 0)
        then ovr (k e) (S ne) nl ns else None
    | Split x n k =>
        match n with
        | O => ovr (k []) ne nl ns
        | _ =>
          let bits := match ovr_find (o_sp o) ns with
                      | Some bs => bs
                      | None => bits_of x n
                      end in
          if (length bits =? n)%nat && forallb is_bit bits && ((bsum bits) mod p =? x)
          then ovr (k bits) ne nl (S ns) else None
        end
    | Free2 h1 h2 k =>
        let hint := match ovr_find (o_lh o) nl with
                    | Some [a; b] => (a, b)
                    | _ => (h1, h2)
                    end in
        let '(a, b) := hint in
        if is_canon a && is_canon b then ovr (k a b) ne (S nl) ns else None
    end.

  Lemma ovr_sound {A} (c : Circ A) : forall ne nl ns a, ovr c ne nl ns = Some a -> rel H c (fun a' => a' = a).
  Proof.
    induction c as [a0|x y k IH|l k IH|x y k IH|x n k IH|h1 h2 k IH]; cbn [ovr rel]; intros ne nl ns a E.
    - inversion E; reflexivity.
    - destruct (Z.eqb_spec x y) as [Exy|]; [|discriminate]. split; [exact Exy|eapply IH; eassumption].
    - eapply IH; eassumption.
    - destruct (match ovr_find (o_eq o) ne with
                | Some [e; inv] => (e, inv)
                | _ => (if x =? y then 1 else 0, finv (fsub x y))
                end) as [e inv].
      destruct (is_canon e && is_canon inv && (fmul e (fsub x y) =? 0)
                && (fsub (fmul (fsub x y) inv) (fsub 1 e) =? 0)) eqn:G; [|discriminate].
      do 3 (apply andb_true_iff in G; destruct G as [G ?]).
      exists e, inv. split; [apply is_canon_spec; assumption|]. split; [apply is_canon_spec; assumption|].
      split; [apply Z.eqb_eq; assumption|]. split; [apply Z.eqb_eq; assumption|]. eapply IH; eassumption.
    - destruct n as [|n]; [eapply IH; eassumption|].
      set (bits := match ovr_find (o_sp o) ns with Some bs => bs | None => bits_of x (S n) end) in *.
      destruct ((length bits =? S n)%nat && forallb is_bit bits && (bsum bits mod p =? x)) eqn:G; [|discriminate].
      do 2 (apply andb_true_iff in G; destruct G as [G ?]).
      exists bits. split; [apply Nat.eqb_eq; exact G|]. split.
      { apply Forall_forall. intros b Hb. apply is_bit_spec.
        match goal with Hf : forallb is_bit bits = true |- _ => rewrite forallb_forall in Hf; auto end. }
      split; [apply Z.eqb_eq; assumption|]. eapply IH; eassumption.
    - destruct (match ovr_find (o_lh o) nl with
                | Some [a; b] => (a, b)
                | _ => (h1, h2)
                end) as [a0 b0].
      destruct (is_canon a0 && is_canon b0) eqn:G; [|discriminate].
      apply andb_true_iff in G. destruct G as [G1 G2].
      exists a0, b0. split; [apply is_canon_spec; assumption|]. split; [apply is_canon_spec; assumption|]. eapply IH; eassumption.
  Qed.
End Ovr.
