(* The recursive layer of the two aggregation circuits (C11): WHICH verifier key each child proof is checked
   against, and the shape checks of the constructors.

     wormhole/aggregator/src/common/recursive.rs                       add_recursive_verifiers
     wormhole/aggregator/src/private_batch/circuit/circuit_logic.rs    PrivateBatchCircuit::new
     wormhole/aggregator/src/public_batch/circuit/circuit_logic.rs     PublicBatchCircuit::new

   add_recursive_verifiers does
       let vk = builder.constant_verifier_data(inner_verifier_only);        // ONE key, constants of the circuit
       for _ in 0..n { let p = builder.add_virtual_proof_with_pis(common); builder.verify_proof(&p, &vk, common); }
   so the only witness of the layer is the list of child proofs; the key is part of the circuit (it is hashed into
   the circuit digest).  In the model a built circuit is a record holding the key it was built with, and the layer
   is the predicate "every child verifies under THAT key" conjoined with the wrapper relation of
   Circ/PrivateBatch.v resp. Circ/PublicBatch.v over the children's public inputs.

   What is NOT modelled: the verify_proof gadget itself (FRI, Merkle caps, challenges).  [Verify] stands for the
   native verification function, and "the gadget is satisfiable exactly when native verification accepts" is part
   of the trusted modelling of plonky2; the harness (harness/src/bin/recursion.rs) validates it by execution on
   own and foreign proofs. *)
From V.Base Require Import Common.
From V.Generated Require Import Constants.
From V.Circ Require Import Field Core PrivateBatch PublicBatch.
From V.Sys Require Parsers.
Ltac Zify.zify_post_hook ::= Z.div_mod_to_equations.

Definition E_COUNT : Z := 2.
Definition E_PI_LEN : Z := 3.

Definition count_ok (n : Z) : res unit :=
  match Parsers.validate_proof_count n with Ok _ => Ok tt | Err _ => Err E_COUNT end.

Section Recursion.
  Variable VK : Type.                                 (* verifier-only data: circuit digest + constants/sigmas cap *)
  Variable PROOF : Type.
  Variable Verify : VK -> list Z -> PROOF -> bool.    (* native plonky2 verification under a key *)
  Variable H : list Z -> list Z.                      (* Poseidon2 sponge, as in Circ/Core.v *)

  Record child := mkChild { ch_pis : list Z; ch_proof : PROOF }.

  (* add_recursive_verifiers, relationally: the key is a parameter fixed at build time, not a witness *)
  Definition recursive_verifiers (vk : VK) (children : list child) : Prop :=
    Forall (fun c => Verify vk (ch_pis c) (ch_proof c) = true) children.
  Definition recursive_verifiers_b (vk : VK) (children : list child) : bool :=
    forallb (fun c => Verify vk (ch_pis c) (ch_proof c)) children.

  (* ---- private batch over leaf proofs *)
  Record private_batch_circuit := mkPB { pb_vk : VK; pb_n : Z }.

  (* PrivateBatchCircuit::new(config, leaf_common, leaf_verifier_only, n_leaf), config valid *)
  Definition private_batch_new (leaf_vk : VK) (leaf_num_public_inputs : Z) (n_leaf : Z) : res private_batch_circuit :=
    _ <-? count_ok n_leaf ;;
    _ <-? guard (leaf_num_public_inputs =? PR_LEAF_PI_LEN) E_PI_LEN ;;
    Ok (mkPB leaf_vk n_leaf).

  (* satisfiability of the whole circuit by an arbitrary prover: witness = child proofs (+ dummy pre-images and
     the hint wires quantified inside [rel]) *)
  Definition private_batch_sat (c : private_batch_circuit) (children : list child) (pre : list (list Z))
             (out : list Z) : Prop :=
    zlen children = pb_n c /\
    recursive_verifiers (pb_vk c) children /\
    rel H (private_batch (map ch_pis children) pre) (fun o => o = out).

  (* ---- public batch over private-batch proofs *)
  Record public_batch_circuit := mkPUB { pub_vk : VK; pub_m : Z; pub_n : Z }.

  (* PublicBatchCircuit::new(config, private_batch_common, private_batch_verifier_only, n_inner, num_leaves) *)
  Definition public_batch_new (pb_vk' : VK) (pb_num_public_inputs : Z) (n_inner num_leaves : Z)
    : res public_batch_circuit :=
    _ <-? count_ok n_inner ;;
    _ <-? count_ok num_leaves ;;
    _ <-? guard (pb_num_public_inputs =? Parsers.pr_pi_len num_leaves) E_PI_LEN ;;
    Ok (mkPUB pb_vk' n_inner num_leaves).

  Definition public_batch_sat (c : public_batch_circuit) (address : list Z) (children : list child)
             (out : list Z) : Prop :=
    zlen children = pub_m c /\
    recursive_verifiers (pub_vk c) children /\
    rel H (public_batch (pub_n c) address (map ch_pis children)) (fun o => o = out).
End Recursion.

Arguments mkChild {PROOF} _ _.
Arguments ch_pis {PROOF} _.
Arguments ch_proof {PROOF} _.
Arguments mkPB {VK} _ _.
Arguments pb_vk {VK} _.
Arguments pb_n {VK} _.
Arguments mkPUB {VK} _ _ _.
Arguments pub_vk {VK} _.
Arguments pub_m {VK} _.
Arguments pub_n {VK} _.

(* ---------------------------------------------------------------- the executable instance used by the harness
   A proof is (the key of the circuit that produced it, did its own circuit's prover produce a valid proof).
   Verification under [vk] accepts exactly the valid proofs produced for [vk]: an IDEAL proof system, which
   satisfies the knowledge-soundness premise of C11 by construction (RecursionProofs.ideal_sound). *)
Definition ikey := list Z.
Definition iproof := (list Z * bool)%type.
Definition iverify (vk : ikey) (_ : list Z) (pf : iproof) : bool := list_eqb vk (fst pf) && snd pf.

(* outer circuit accepts the witness: every child verifies under the baked key and the wrapper accepts the
   children's public inputs ([wrapper_ok]: the verdict of the wrapper program on those public inputs, which the
   harness obtains from the wrapper circuit instantiated without the recursive verifier) *)
Definition rec_accepts (baked : ikey) (children : list (@child iproof)) (wrapper_ok : bool) : bool :=
  recursive_verifiers_b ikey iproof iverify baked children && wrapper_ok.
