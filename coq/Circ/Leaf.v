(* The Wormhole leaf circuit (wormhole/circuit/src/circuit.rs, zk_merkle_proof.rs, nullifier.rs,
   unspendable_account.rs, block_header/{mod,header}.rs), transcribed as a [Circ] program in the order
   of the builder calls of WormholeCircuit::new_internal.  Model only; proofs in LeafProofs.v.

   Every virtual target of CircuitTargets is an *independent* input of the model (the two secrets, the
   two transfer counts, to_account vs account_id, root_hash vs header.zk_tree_root, is_not_dummy ...):
   they are tied only by the circuit's own [Assert]s, exactly as the real targets are tied only by
   copy constraints. *)
From Coq Require Import ZArith Lia List Bool.
From V.Base Require Import Common.
From V.Generated Require Import Constants.
From V.Circ Require Import Field Core Prims Gadgets.
Import ListNotations.
Open Scope Z_scope.

Record LeafIn := mkLeafIn {
  (* ZkLeafTargets *)
  li_asset : Z; li_out1 : Z; li_out2 : Z; li_fee : Z;                 (* public *)
  li_to_account : list Z;                                             (* 4 *)
  li_leaf_tc : list Z;                                                (* 2 *)
  li_input_amount : Z;
  (* ZkMerkleProofTargets *)
  li_root_hash : list Z;                                              (* 4 *)
  li_depth : Z;
  li_is_not_dummy : Z;                                                (* add_virtual_bool_target_safe *)
  li_siblings : list (list (list Z));                                 (* MAX_DEPTH x 3 x 4 *)
  li_positions : list Z;                                              (* MAX_DEPTH *)
  (* NullifierTargets *)
  li_nullifier : list Z;                                              (* 4, public *)
  li_null_secret : list Z;                                            (* 4 *)
  li_null_tc : list Z;                                                (* 2 *)
  (* UnspendableAccountTargets *)
  li_unsp_account : list Z;                                           (* 4 *)
  li_unsp_secret : list Z;                                            (* 4 *)
  (* DualExitAccountTargets *)
  li_exit1 : list Z; li_exit2 : list Z;                               (* 4 + 4, public *)
  (* BlockHeaderTargets *)
  li_block_hash : list Z;                                             (* 4, public *)
  li_parent_hash : list Z;                                            (* 4 *)
  li_block_number : Z;                                                (* public *)
  li_state_root : list Z; li_extrinsics_root : list Z;                (* 4 + 4 *)
  li_tree_root : list Z;                                              (* 4 *)
  li_digest : list Z                                                  (* DIGEST_LOGS_FELTS = 28 *)
}.

Definition at4 (l : list Z) (i : nat) : Z := nth i l 0.

(* assert two felt vectors equal, element by element (connect / connect_hashes) *)
Fixpoint assert_all {A} (xs ys : list Z) (k : Circ A) : Circ A :=
  match xs, ys with
  | x :: xr, y :: yr => Assert x y (assert_all xr yr k)
  | _, _ => k
  end.

(* (a[i] - b[i]) * flag == 0 for each limb *)
Fixpoint assert_gated {A} (xs ys : list Z) (flag : Z) (k : Circ A) : Circ A :=
  match xs, ys with
  | x :: xr, y :: yr => Assert (fmul (fsub x y) flag) 0 (assert_gated xr yr flag k)
  | _, _ => k
  end.

Fixpoint range_check_all (xs : list Z) (n : nat) : Circ unit :=
  match xs with
  | [] => Ret tt
  | x :: r => _ <- range_check x n ;; range_check_all r n
  end.

Definition map2 (f : Z -> Z -> Z) (a b : list Z) : list Z := map (fun '(x, y) => f x y) (combine a b).
Definition map3 (f : Z -> Z -> Z -> Z) (a b c : list Z) : list Z :=
  map (fun '(x, (y, z)) => f x y z) (combine a (combine b c)).

(* unspendable_account.rs:215  account_id = H(H(salt || secret)) *)
Definition unspendable_circuit (account secret : list Z) : Circ unit :=
  Hash (UNSPENDABLE_SALT_FELTS ++ secret) (fun inner =>
  Hash inner (fun outer =>
  assert_all outer account (Ret tt))).

(* one level of the Merkle walk, zk_merkle_proof.rs:506 *)
Definition n_log_depth : nat := 5.   (* usize::BITS - MAX_DEPTH.leading_zeros(), pinned in LeafProofs *)

Definition merkle_level (level depth : Z) (cur : list Z) (sibs : list (list Z)) (pos : Z) : Circ (list Z) :=
  is_active <- is_const_less_than level depth n_log_depth ;;
  _ <- range_check pos 2 ;;
  p0 <- is_equal pos 0 ;;
  p1 <- is_equal pos 1 ;;
  p2 <- is_equal pos 2 ;;
  p3 <- is_equal pos 3 ;;
  let s0 := nth 0 sibs [] in
  let s1 := nth 1 sibs [] in
  let s2 := nth 2 sibs [] in
  let slot0 := map2 (g_select p0) cur s0 in
  let slot1 := map3 (fun c a b => g_select p1 c (g_select p0 a b)) cur s0 s1 in
  let slot2 := map3 (fun c a b => g_select p2 c (g_select (g_or p0 p1) a b)) cur s1 s2 in
  let slot3 := map2 (g_select p3) cur s2 in
  Hash (slot0 ++ slot1 ++ slot2 ++ slot3) (fun parent =>
  Ret (map2 (g_select is_active) parent cur)).

Fixpoint merkle_walk (level : Z) (depth : Z) (cur : list Z) (levels : list (list (list Z) * Z)) : Circ (list Z) :=
  match levels with
  | [] => Ret cur
  | (sibs, pos) :: r =>
      cur' <- merkle_level level depth cur sibs pos ;;
      merkle_walk (level + 1) depth cur' r
  end.

(* ZkMerkleProofData::circuit, zk_merkle_proof.rs:481 *)
Definition zk_merkle_circuit (i : LeafIn) : Circ unit :=
  _ <- range_check_all (li_leaf_tc i ++ [li_asset i; li_input_amount i; li_out1 i; li_out2 i; li_fee i]) 32 ;;
  let ten_thousand := 10000 in
  let total_output := fadd (li_out1 i) (li_out2 i) in
  let lhs := fmul total_output ten_thousand in
  let fee_complement := fsub ten_thousand (li_fee i) in
  _ <- range_check fee_complement 14 ;;
  let rhs := fmul (li_input_amount i) fee_complement in
  let diff := fsub rhs lhs in
  _ <- range_check diff 48 ;;
  Hash (li_to_account i ++ li_leaf_tc i ++ [li_asset i; li_input_amount i]) (fun leaf_hash =>
  _ <- enforce_target_less_than_const (li_depth i) (MERKLE_MAX_DEPTH + 1) n_log_depth ;;
  root <- merkle_walk 0 (li_depth i) leaf_hash (combine (li_siblings i) (li_positions i)) ;;
  assert_gated root (li_root_hash i) (li_is_not_dummy i) (Ret tt)).

Definition header_preimage (i : LeafIn) : list Z :=
  li_parent_hash i ++ [li_block_number i] ++ li_state_root i ++ li_extrinsics_root i
  ++ li_tree_root i ++ li_digest i.

(* circuit.rs:233 connect_shared_targets *)
Definition connect_shared (i : LeafIn) : Circ unit :=
  assert_all (li_null_secret i) (li_unsp_secret i) (
  assert_all (li_null_tc i) (li_leaf_tc i) (
  assert_all (li_unsp_account i) (li_to_account i) (
  bh0 <- is_equal (at4 (li_block_hash i) 0) 0 ;;
  bh1 <- is_equal (at4 (li_block_hash i) 1) 0 ;;
  bh2 <- is_equal (at4 (li_block_hash i) 2) 0 ;;
  bh3 <- is_equal (at4 (li_block_hash i) 3) 0 ;;
  let bh01 := g_and bh0 bh1 in
  let bh23 := g_and bh2 bh3 in
  let block_hash_is_zero := g_and bh01 bh23 in
  o1z <- is_equal (li_out1 i) 0 ;;
  o2z <- is_equal (li_out2 i) 0 ;;
  let both_outputs_zero := g_and o1z o2z in
  let is_dummy := g_and block_hash_is_zero both_outputs_zero in
  let is_not_dummy := fsub 1 is_dummy in
  Assert (li_is_not_dummy i) is_not_dummy (
  (* Nullifier::conditional_hash_binding *)
  Hash (NULLIFIER_SALT_FELTS ++ li_null_secret i ++ li_null_tc i) (fun inner =>
  Hash inner (fun computed_nullifier =>
  assert_gated (li_nullifier i) computed_nullifier is_not_dummy (
  (* BlockHeader::conditional_block_hash_binding *)
  Hash (header_preimage i) (fun computed_block_hash =>
  assert_gated (li_block_hash i) computed_block_hash is_not_dummy (
  (* header.zk_tree_root == zk_merkle_proof.root_hash *)
  assert_gated (li_tree_root i) (li_root_hash i) is_not_dummy (Ret tt)))))))))).

Definition leaf_public_inputs (i : LeafIn) : list Z :=
  [li_asset i; li_out1 i; li_out2 i; li_fee i] ++ li_nullifier i ++ li_exit1 i ++ li_exit2 i
  ++ li_block_hash i ++ [li_block_number i].

(* WormholeCircuit::new_internal *)
Definition leaf_circuit (i : LeafIn) : Circ (list Z) :=
  (* ZkMerkleProofTargets::new: add_virtual_bool_target_safe(is_not_dummy): b*b - b = 0 *)
  Assert (g_mul_sub (li_is_not_dummy i) (li_is_not_dummy i) (li_is_not_dummy i)) 0 (
  _ <- unspendable_circuit (li_unsp_account i) (li_unsp_secret i) ;;
  _ <- zk_merkle_circuit i ;;
  (* DualExitAccount::circuit: no constraints *)
  (* BlockHeader::circuit_without_hash_binding *)
  _ <- range_check (li_block_number i) 32 ;;
  _ <- connect_shared i ;;
  Ret (leaf_public_inputs i)).
