(* Proofs about the Wormhole leaf circuit (model: Leaf.v).

   Main results (H = hash oracle returning 4 canonical felts, i = a well-formed assignment of every
   virtual target of the circuit):
     leaf_refines       the leaf circuit leaves the prover no witness freedom
     hon_leaf_spec      honest witness generation succeeds exactly when [leaf_accepts H i] holds
     leaf_accepts_spec  [leaf_accepts H i = true <-> leaf_ok H i], the readable acceptance condition
     leaf_rel_iff       rel H (leaf_circuit i) post <-> leaf_ok H i /\ post (leaf_public_inputs i)
   The property theorems C01 - C04 are projections of [leaf_rel_iff]. *)
From Coq Require Import ZArith Znumtheory Lia List Bool.
From V.Base Require Import Common.
From V.Generated Require Import Constants.
From V.Circ Require Import Field Core Prims Gadgets GadgetsProofs Leaf.
Import ListNotations.
Open Scope Z_scope.
(* mathcomp.zify (loaded through Base/Flt.v) resets the hook; set it again after all imports *)
Ltac Zify.zify_post_hook ::= Z.div_mod_to_equations.

(* ---------- pins ---------- *)
Lemma max_depth_pin : MERKLE_MAX_DEPTH = 16. Proof. reflexivity. Qed.
(* n_log = usize::BITS - MAX_DEPTH.leading_zeros() = bit length of MAX_DEPTH *)
Lemma n_log_depth_pin : Z.of_nat n_log_depth = Z.log2 MERKLE_MAX_DEPTH + 1. Proof. reflexivity. Qed.
Lemma digest_felts_pin : DIGEST_LOGS_FELTS = 28. Proof. reflexivity. Qed.

Lemma pow2_5 : 2 ^ Z.of_nat 5 = 32. Proof. reflexivity. Qed.
Lemma pow2_2 : 2 ^ Z.of_nat 2 = 4. Proof. reflexivity. Qed.
Lemma pow2_14 : 2 ^ Z.of_nat 14 = 16384. Proof. reflexivity. Qed.
Lemma pow2_48 : 2 ^ Z.of_nat 48 = 281474976710656. Proof. reflexivity. Qed.
Lemma pow2_32n : 2 ^ Z.of_nat 32 = 4294967296. Proof. reflexivity. Qed.
Lemma pow2_32z : 2 ^ 32 = 4294967296. Proof. reflexivity. Qed.

(* ---------- well-formed inputs: every value is a field element, every vector has its length ---------- *)
Definition wf_list (n : nat) (l : list Z) : Prop := length l = n /\ Forall canon l.
Definition wf_level (sibs : list (list Z)) : Prop := length sibs = 3%nat /\ Forall (wf_list 4) sibs.
Definition hash_wf (H : list Z -> list Z) : Prop := forall l, length (H l) = 4%nat /\ Forall canon (H l).

Record wf_in (i : LeafIn) : Prop := mk_wf_in {
  wfi_asset : canon (li_asset i);
  wfi_out1 : canon (li_out1 i);
  wfi_out2 : canon (li_out2 i);
  wfi_fee : canon (li_fee i);
  wfi_to_account : wf_list 4 (li_to_account i);
  wfi_leaf_tc : wf_list 2 (li_leaf_tc i);
  wfi_input_amount : canon (li_input_amount i);
  wfi_root_hash : wf_list 4 (li_root_hash i);
  wfi_depth : canon (li_depth i);
  wfi_is_not_dummy : canon (li_is_not_dummy i);
  wfi_siblings : length (li_siblings i) = Z.to_nat MERKLE_MAX_DEPTH /\ Forall wf_level (li_siblings i);
  wfi_positions : wf_list (Z.to_nat MERKLE_MAX_DEPTH) (li_positions i);
  wfi_nullifier : wf_list 4 (li_nullifier i);
  wfi_null_secret : wf_list 4 (li_null_secret i);
  wfi_null_tc : wf_list 2 (li_null_tc i);
  wfi_unsp_account : wf_list 4 (li_unsp_account i);
  wfi_unsp_secret : wf_list 4 (li_unsp_secret i);
  wfi_exit1 : wf_list 4 (li_exit1 i);
  wfi_exit2 : wf_list 4 (li_exit2 i);
  wfi_block_hash : wf_list 4 (li_block_hash i);
  wfi_parent_hash : wf_list 4 (li_parent_hash i);
  wfi_block_number : canon (li_block_number i);
  wfi_state_root : wf_list 4 (li_state_root i);
  wfi_extrinsics_root : wf_list 4 (li_extrinsics_root i);
  wfi_tree_root : wf_list 4 (li_tree_root i);
  wfi_digest : wf_list (Z.to_nat DIGEST_LOGS_FELTS) (li_digest i)
}.

(* executable version, for the concrete examples *)
Definition wf_listb (n : nat) (l : list Z) : bool := (length l =? n)%nat && forallb is_canon l.
Definition wf_levelb (sibs : list (list Z)) : bool := (length sibs =? 3)%nat && forallb (wf_listb 4) sibs.
Definition wf_inb (i : LeafIn) : bool :=
  forallb is_canon [li_asset i; li_out1 i; li_out2 i; li_fee i; li_input_amount i; li_depth i;
                    li_is_not_dummy i; li_block_number i] &&
  forallb (wf_listb 4) [li_to_account i; li_root_hash i; li_nullifier i; li_null_secret i; li_unsp_account i;
                        li_unsp_secret i; li_exit1 i; li_exit2 i; li_block_hash i; li_parent_hash i;
                        li_state_root i; li_extrinsics_root i; li_tree_root i] &&
  forallb (wf_listb 2) [li_leaf_tc i; li_null_tc i] &&
  ((length (li_siblings i) =? Z.to_nat MERKLE_MAX_DEPTH)%nat && forallb wf_levelb (li_siblings i)) &&
  wf_listb (Z.to_nat MERKLE_MAX_DEPTH) (li_positions i) &&
  wf_listb (Z.to_nat DIGEST_LOGS_FELTS) (li_digest i).

Lemma forallb_Forall_iff {A} (f : A -> bool) (P : A -> Prop) l :
  (forall x, f x = true <-> P x) -> (forallb f l = true <-> Forall P l).
Proof.
  intros E. induction l as [|a l IH]; cbn [forallb].
  - split; [constructor|reflexivity].
  - rewrite andb_true_iff, E, IH. split; [intros [? ?]; constructor; assumption|intros F; inversion F; tauto].
Qed.

Lemma wf_listb_spec n l : wf_listb n l = true <-> wf_list n l.
Proof.
  unfold wf_listb, wf_list. rewrite andb_true_iff, Nat.eqb_eq.
  rewrite (forallb_Forall_iff is_canon canon l is_canon_spec). tauto.
Qed.
Lemma wf_levelb_spec s : wf_levelb s = true <-> wf_level s.
Proof.
  unfold wf_levelb, wf_level. rewrite andb_true_iff, Nat.eqb_eq.
  rewrite (forallb_Forall_iff (wf_listb 4) (wf_list 4) s (wf_listb_spec 4)). tauto.
Qed.

Lemma wf_inb_sound i : wf_inb i = true -> wf_in i.
Proof.
  unfold wf_inb. rewrite !andb_true_iff. intros [[[[[S L4] L2] [Ls Fs]] Wp] Wd].
  cbn [forallb] in S, L4, L2. rewrite !andb_true_iff, !is_canon_spec in S.
  rewrite !andb_true_iff, !wf_listb_spec in L4. rewrite !andb_true_iff, !wf_listb_spec in L2.
  apply Nat.eqb_eq in Ls. apply (forallb_Forall_iff wf_levelb wf_level _ wf_levelb_spec) in Fs.
  apply wf_listb_spec in Wp. apply wf_listb_spec in Wd.
  constructor; tauto.
Qed.

(* ---------- generic list facts ---------- *)
Lemma canon_nth l k : Forall canon l -> canon (nth k l 0).
Proof.
  intros F. revert k; induction F as [|x l Hx F IH]; intros [|k]; cbn [nth]; try apply canon_0; auto.
Qed.

Lemma map3_as_map2 (f g : Z -> Z -> Z) cs : forall xs ys,
  map3 (fun c a b => f c (g a b)) cs xs ys = map2 f cs (map2 g xs ys).
Proof.
  unfold map3, map2. induction cs as [|c cs IH]; intros xs ys; [reflexivity|].
  destruct xs as [|x xs]; [reflexivity|]. destruct ys as [|y ys]; [reflexivity|].
  cbn [combine map]. rewrite IH. reflexivity.
Qed.

Lemma map2_select_b (b : bool) x : forall y, length x = length y -> Forall canon x -> Forall canon y ->
  map2 (g_select (b2z b)) x y = if b then x else y.
Proof.
  unfold map2. induction x as [|a x IH]; intros [|c y] L Fx Fy; cbn [length] in L; try discriminate.
  - destruct b; reflexivity.
  - inversion Fx; inversion Fy; subst. cbn [combine map]. rewrite IH by (try assumption; lia).
    rewrite g_select_b by assumption. destruct b; reflexivity.
Qed.

Lemma sel2 (b : bool) x y : wf_list 4 x -> wf_list 4 y -> map2 (g_select (b2z b)) x y = if b then x else y.
Proof. intros [Lx Fx] [Ly Fy]. apply map2_select_b; try assumption. congruence. Qed.

Lemma sel3 (b1 b0 : bool) c x y : wf_list 4 c -> wf_list 4 x -> wf_list 4 y ->
  map3 (fun c a b => g_select (b2z b1) c (g_select (b2z b0) a b)) c x y = if b1 then c else if b0 then x else y.
Proof.
  intros Wc Wx Wy. rewrite map3_as_map2, (sel2 b0 x y) by assumption.
  apply sel2; [assumption|destruct b0; assumption].
Qed.

(* ---------- the tree walk, as a function ---------- *)
(* the three sorted siblings with the running hash inserted at index [pos] *)
Definition insert_at (pos : Z) (cur : list Z) (sibs : list (list Z)) : list (list Z) :=
  firstn (Z.to_nat pos) sibs ++ cur :: skipn (Z.to_nat pos) sibs.

Fixpoint fold_insert (H : list Z -> list Z) (cur : list Z) (levels : list (list (list Z) * Z)) : list Z :=
  match levels with
  | [] => cur
  | (sibs, pos) :: r => fold_insert H (H (concat (insert_at pos cur sibs))) r
  end.

Lemma insert_at_0 c s0 s1 s2 : insert_at 0 c [s0; s1; s2] = [c; s0; s1; s2]. Proof. reflexivity. Qed.
Lemma insert_at_1 c s0 s1 s2 : insert_at 1 c [s0; s1; s2] = [s0; c; s1; s2]. Proof. reflexivity. Qed.
Lemma insert_at_2 c s0 s1 s2 : insert_at 2 c [s0; s1; s2] = [s0; s1; c; s2]. Proof. reflexivity. Qed.
Lemma insert_at_3 c s0 s1 s2 : insert_at 3 c [s0; s1; s2] = [s0; s1; s2; c]. Proof. reflexivity. Qed.
Lemma concat4 (a b c d : list Z) : concat [a; b; c; d] = a ++ b ++ c ++ d.
Proof. cbn [concat]. rewrite app_nil_r. reflexivity. Qed.

Lemma children_spec (pos : Z) cur s0 s1 s2 :
  wf_list 4 cur -> wf_list 4 s0 -> wf_list 4 s1 -> wf_list 4 s2 -> 0 <= pos < 4 ->
  map2 (g_select (b2z (pos =? 0))) cur s0 ++
  map3 (fun c a b => g_select (b2z (pos =? 1)) c (g_select (b2z (pos =? 0)) a b)) cur s0 s1 ++
  map3 (fun c a b => g_select (b2z (pos =? 2)) c (g_select (g_or (b2z (pos =? 0)) (b2z (pos =? 1))) a b)) cur s1 s2 ++
  map2 (g_select (b2z (pos =? 3))) cur s2
  = concat (insert_at pos cur [s0; s1; s2]).
Proof.
  intros Wc W0 W1 W2 Hp. rewrite g_or_b, !sel2, !sel3 by assumption.
  assert (Cs : pos = 0 \/ pos = 1 \/ pos = 2 \/ pos = 3) by lia.
  destruct Cs as [->|[->|[->| ->]]].
  - rewrite insert_at_0, concat4. reflexivity.
  - rewrite insert_at_1, concat4. reflexivity.
  - rewrite insert_at_2, concat4. reflexivity.
  - rewrite insert_at_3, concat4. reflexivity.
Qed.

(* ---------- boolean views of the vector assertions ---------- *)
Definition all_eqb (xs ys : list Z) : bool := forallb (fun xy => fst xy =? snd xy) (combine xs ys).
Definition gated_ok (xs ys : list Z) (flag : Z) : bool :=
  forallb (fun xy => fmul (fsub (fst xy) (snd xy)) flag =? 0) (combine xs ys).

Lemma all_eqb_spec xs : forall ys, length xs = length ys -> (all_eqb xs ys = true <-> xs = ys).
Proof.
  unfold all_eqb. induction xs as [|x xr IH]; intros [|y yr] L; cbn [length] in L; try discriminate.
  - cbn. tauto.
  - cbn [combine forallb fst snd]. rewrite andb_true_iff, Z.eqb_eq, IH by lia.
    split; [intros [-> ->]; reflexivity|intros E; inversion E; tauto].
Qed.

Lemma gated_ok_0 xs ys : gated_ok xs ys 0 = true.
Proof.
  unfold gated_ok. apply forallb_forall. intros xy _. rewrite fmul_0_r. reflexivity.
Qed.

Lemma gated_ok_1 xs : forall ys, length xs = length ys -> Forall canon xs -> Forall canon ys ->
  (gated_ok xs ys 1 = true <-> xs = ys).
Proof.
  unfold gated_ok. induction xs as [|x xr IH]; intros [|y yr] L Fx Fy; cbn [length] in L; try discriminate.
  - cbn. tauto.
  - inversion Fx; inversion Fy; subst. cbn [combine forallb fst snd].
    rewrite andb_true_iff, Z.eqb_eq, fmul_1_r by apply canon_fsub.
    rewrite fsub_eq_0 by assumption. rewrite IH by (try assumption; lia).
    split; [intros [-> ->]; reflexivity|intros E; inversion E; tauto].
Qed.

(* ---------- the dummy decision ---------- *)
Definition is_dummy_stmt (i : LeafIn) : bool :=
  (at4 (li_block_hash i) 0 =? 0) && (at4 (li_block_hash i) 1 =? 0) &&
  (at4 (li_block_hash i) 2 =? 0) && (at4 (li_block_hash i) 3 =? 0) &&
  (li_out1 i =? 0) && (li_out2 i =? 0).

Lemma is_dummy_stmt_spec i : length (li_block_hash i) = 4%nat ->
  (is_dummy_stmt i = true <-> li_block_hash i = [0; 0; 0; 0] /\ li_out1 i = 0 /\ li_out2 i = 0).
Proof.
  intros L. unfold is_dummy_stmt, at4. rewrite !andb_true_iff, !Z.eqb_eq.
  destruct (li_block_hash i) as [|b0 [|b1 [|b2 [|b3 [|? ?]]]]]; try discriminate L. cbn [nth].
  split.
  - intros [[[[[-> ->] ->] ->] E1] E2]. tauto.
  - intros [E [E1 E2]]. inversion E. tauto.
Qed.

(* the flag wire computed by connect_shared_targets *)
Definition derived_not_dummy (i : LeafIn) : Z :=
  fsub 1 (g_and (g_and (g_and (b2z (at4 (li_block_hash i) 0 =? 0)) (b2z (at4 (li_block_hash i) 1 =? 0)))
                       (g_and (b2z (at4 (li_block_hash i) 2 =? 0)) (b2z (at4 (li_block_hash i) 3 =? 0))))
                (g_and (b2z (li_out1 i =? 0)) (b2z (li_out2 i =? 0)))).

Lemma derived_not_dummy_spec i : derived_not_dummy i = if is_dummy_stmt i then 0 else 1.
Proof.
  unfold derived_not_dummy, is_dummy_stmt. rewrite !g_and_b. fold (g_not (b2z
    ((at4 (li_block_hash i) 0 =? 0) && (at4 (li_block_hash i) 1 =? 0) &&
     ((at4 (li_block_hash i) 2 =? 0) && (at4 (li_block_hash i) 3 =? 0)) &&
     ((li_out1 i =? 0) && (li_out2 i =? 0))))).
  rewrite g_not_b.
  destruct (at4 (li_block_hash i) 0 =? 0), (at4 (li_block_hash i) 1 =? 0), (at4 (li_block_hash i) 2 =? 0),
    (at4 (li_block_hash i) 3 =? 0), (li_out1 i =? 0), (li_out2 i =? 0); reflexivity.
Qed.

(* ---------- the fee rule: field arithmetic = integer arithmetic ---------- *)
Lemma fee_rule_arith fee inp o1 o2 :
  0 <= fee < 4294967296 -> 0 <= inp < 4294967296 -> 0 <= o1 < 4294967296 -> 0 <= o2 < 4294967296 ->
  (fsub 10000 fee < 16384 /\
   fsub (fmul inp (fsub 10000 fee)) (fmul (fadd o1 o2) 10000) < 281474976710656)
  <-> (fee <= 10000 /\ (o1 + o2) * 10000 <= inp * (10000 - fee)).
Proof.
  intros Hf Hi H1 H2.
  assert (E3 : fmul (fadd o1 o2) 10000 = (o1 + o2) * 10000) by (unfold fmul, fadd, p; lia).
  destruct (Z_le_gt_dec fee 10000) as [Le|Gt].
  - assert (E1 : fsub 10000 fee = 10000 - fee) by (unfold fsub, p; lia).
    rewrite E1, E3.
    assert (Hr : 0 <= inp * (10000 - fee) <= 4294967296 * 10000) by nia.
    assert (E2 : fmul inp (10000 - fee) = inp * (10000 - fee)) by (unfold fmul, p; rewrite Z.mod_small; lia).
    rewrite E2. generalize dependent (inp * (10000 - fee)). intros r Hr _.
    unfold fsub, p. lia.
  - assert (E1 : fsub 10000 fee >= 16384) by (unfold fsub, p; lia). lia.
Qed.

Lemma fold_insert_wf H : hash_wf H -> forall levels cur, wf_list 4 cur -> wf_list 4 (fold_insert H cur levels).
Proof.
  intros Hwf. induction levels as [|[sibs pos] r IH]; intros cur W; cbn [fold_insert]; [exact W|].
  apply IH. exact (Hwf _).
Qed.

(* ---------- per-level data ---------- *)
Definition level_wf (lv : list (list Z) * Z) : Prop := wf_level (fst lv) /\ canon (snd lv).
Definition positions_ok (levels : list (list (list Z) * Z)) : bool := forallb (fun lv => snd lv <? 4) levels.

Lemma levels_wf sibs : forall ps, Forall wf_level sibs -> Forall canon ps -> Forall level_wf (combine sibs ps).
Proof.
  induction sibs as [|s sibs IH]; intros [|q ps] Fs Fp; cbn [combine]; try constructor.
  - inversion Fs; inversion Fp; subst. split; assumption.
  - inversion Fs; inversion Fp; subst. apply IH; assumption.
Qed.

Lemma positions_ok_spec sibs : forall ps, length sibs = length ps -> Forall canon ps ->
  (positions_ok (combine sibs ps) = true <-> Forall (fun q => 0 <= q < 4) ps).
Proof.
  unfold positions_ok. induction sibs as [|s sibs IH]; intros [|q ps] L Fp; cbn [length] in L; try discriminate.
  - cbn. split; [constructor|reflexivity].
  - inversion Fp as [|? ? Cq Fp']; subst. cbn [combine forallb snd].
    rewrite andb_true_iff, Z.ltb_lt, IH by (try assumption; lia). unfold canon in Cq.
    split; [intros [? ?]; constructor; [lia|assumption]|intros F; inversion F; subst; split; [lia|assumption]].
Qed.

(* the statement-level objects *)
Definition leaf_preimage (i : LeafIn) : list Z :=
  li_to_account i ++ li_leaf_tc i ++ [li_asset i; li_input_amount i].
Definition leaf_levels (i : LeafIn) : list (list (list Z) * Z) := combine (li_siblings i) (li_positions i).
Definition merkle_root (H : list Z -> list Z) (i : LeafIn) : list Z :=
  fold_insert H (H (leaf_preimage i)) (firstn (Z.to_nat (li_depth i)) (leaf_levels i)).

(* ---------- acceptance condition, in the order of the builder calls ---------- *)
Definition unsp_raw (H : list Z -> list Z) (i : LeafIn) : bool :=
  all_eqb (H (H (UNSPENDABLE_SALT_FELTS ++ li_unsp_secret i))) (li_unsp_account i).

Definition zk_raw (H : list Z -> list Z) (i : LeafIn) : bool :=
  forallb (fun x => x <? 2 ^ Z.of_nat 32)
          (li_leaf_tc i ++ [li_asset i; li_input_amount i; li_out1 i; li_out2 i; li_fee i]) &&
  ((fsub 10000 (li_fee i) <? 2 ^ Z.of_nat 14) &&
  ((fsub (fmul (li_input_amount i) (fsub 10000 (li_fee i))) (fmul (fadd (li_out1 i) (li_out2 i)) 10000)
      <? 2 ^ Z.of_nat 48) &&
  ((li_depth i <? MERKLE_MAX_DEPTH + 1) &&
  (positions_ok (leaf_levels i) &&
   gated_ok (merkle_root H i) (li_root_hash i) (li_is_not_dummy i))))).

Definition shared_raw (H : list Z -> list Z) (i : LeafIn) : bool :=
  all_eqb (li_null_secret i) (li_unsp_secret i) &&
  (all_eqb (li_null_tc i) (li_leaf_tc i) &&
  (all_eqb (li_unsp_account i) (li_to_account i) &&
  ((li_is_not_dummy i =? derived_not_dummy i) &&
  (gated_ok (li_nullifier i) (H (H (NULLIFIER_SALT_FELTS ++ li_null_secret i ++ li_null_tc i)))
            (derived_not_dummy i) &&
  (gated_ok (li_block_hash i) (H (header_preimage i)) (derived_not_dummy i) &&
   gated_ok (li_tree_root i) (li_root_hash i) (derived_not_dummy i)))))).

Definition leaf_accepts (H : list Z -> list Z) (i : LeafIn) : bool :=
  (g_mul_sub (li_is_not_dummy i) (li_is_not_dummy i) (li_is_not_dummy i) =? 0) &&
  (unsp_raw H i &&
  (zk_raw H i &&
  ((li_block_number i <? 2 ^ Z.of_nat 32) &&
   shared_raw H i))).

Section LeafProofs.
  Variable H : list Z -> list Z.
  Notation rel := (Core.rel H).
  Notation hon := (Core.hon H).
  Notation refines := (Core.refines H).

  (* ================= honest witness generation ================= *)
  Lemma hon_assert_all {A} xs : forall ys (k : Circ A),
    hon (assert_all xs ys k) = if all_eqb xs ys then hon k else None.
  Proof.
    unfold all_eqb. induction xs as [|x xr IH]; intros [|y yr] k; cbn [assert_all combine forallb]; try reflexivity.
    cbn [Core.hon fst snd]. destruct (x =? y); cbn [andb]; [apply IH|reflexivity].
  Qed.

  Lemma hon_assert_gated {A} xs flag : forall ys (k : Circ A),
    hon (assert_gated xs ys flag k) = if gated_ok xs ys flag then hon k else None.
  Proof.
    unfold gated_ok. induction xs as [|x xr IH]; intros [|y yr] k; cbn [assert_gated combine forallb]; try reflexivity.
    cbn [Core.hon fst snd]. destruct (fmul (fsub x y) flag =? 0); cbn [andb]; [apply IH|reflexivity].
  Qed.

  Lemma hon_range_check_all xs n : (1 <= n)%nat ->
    hon (range_check_all xs n) = if forallb (fun x => x <? 2 ^ Z.of_nat n) xs then Some tt else None.
  Proof.
    intros Hn. induction xs as [|x xs IH]; cbn [range_check_all forallb]; [reflexivity|].
    rewrite hon_bind, hon_range_check by assumption.
    destruct (x <? 2 ^ Z.of_nat n); cbn [andb]; [apply IH|reflexivity].
  Qed.

  Lemma hon_unspendable account secret :
    hon (unspendable_circuit account secret) =
    if all_eqb (H (H (UNSPENDABLE_SALT_FELTS ++ secret))) account then Some tt else None.
  Proof. unfold unspendable_circuit. cbn [Core.hon]. rewrite hon_assert_all. reflexivity. Qed.

  Section WithHashWf.
  Hypothesis Hwf : hash_wf H.

  Lemma hon_merkle_level level depth cur sibs pos :
    0 <= level < 32 -> canon depth -> depth < 32 -> canon pos -> wf_list 4 cur -> wf_level sibs ->
    hon (merkle_level level depth cur sibs pos) =
    if pos <? 4 then Some (if level <? depth then H (concat (insert_at pos cur sibs)) else cur) else None.
  Proof.
    intros Hl Cd Hd Cp Wc [Ls Fs].
    destruct sibs as [|s0 [|s1 [|s2 [|? ?]]]]; try discriminate Ls.
    inversion Fs as [|? ? W0 Fs1]; subst. inversion Fs1 as [|? ? W1 Fs2]; subst.
    inversion Fs2 as [|? ? W2 _]; subst.
    unfold merkle_level. change n_log_depth with 5%nat.
    rewrite hon_bind, hon_is_const_less_than_narrow by (try assumption; rewrite ?pow2_5; lia).
    rewrite pow2_5. destruct (Z.ltb_spec depth 32) as [_|Bad]; [|lia].
    rewrite hon_bind, hon_range_check by lia. rewrite pow2_2.
    destruct (Z.ltb_spec pos 4) as [Lp|Lp]; [|reflexivity].
    do 4 (rewrite hon_bind, hon_is_equal; cbv beta iota).
    cbv zeta. cbn [nth Core.hon]. f_equal.
    rewrite children_spec by (try assumption; unfold canon in Cp; lia).
    apply sel2; [exact (Hwf _)|exact Wc].
  Qed.

  Lemma hon_merkle_walk depth : canon depth -> depth < 32 -> forall levels level cur,
    0 <= level -> level + Z.of_nat (length levels) <= 32 -> wf_list 4 cur -> Forall level_wf levels ->
    hon (merkle_walk level depth cur levels) =
    if positions_ok levels
    then Some (fold_insert H cur (firstn (Z.to_nat (depth - level)) levels)) else None.
  Proof.
    intros Cd Hd. induction levels as [|[sibs pos] r IH]; intros level cur Hl Hlen Wc F.
    - cbn [merkle_walk positions_ok forallb Core.hon]. rewrite firstn_nil. reflexivity.
    - inversion F as [|? ? [Ws Cp] Fr]; subst. cbn [fst snd] in Ws, Cp. cbn [length] in Hlen.
      cbn [merkle_walk]. unfold positions_ok. cbn [forallb snd]. fold (positions_ok r).
      rewrite hon_bind, hon_merkle_level by (try assumption; lia).
      destruct (pos <? 4); cbn [andb]; [|reflexivity].
      rewrite IH; [|lia|lia| |exact Fr].
      2:{ destruct (level <? depth); [exact (Hwf _)|exact Wc]. }
      destruct (positions_ok r); [|reflexivity]. f_equal.
      destruct (Z.ltb_spec level depth) as [Lt|Ge].
      + replace (Z.to_nat (depth - level)) with (S (Z.to_nat (depth - (level + 1)))) by lia.
        cbn [firstn fold_insert]. reflexivity.
      + replace (Z.to_nat (depth - level)) with 0%nat by lia.
        replace (Z.to_nat (depth - (level + 1))) with 0%nat by lia. reflexivity.
  Qed.

  Lemma hon_zk_merkle i : wf_in i ->
    hon (zk_merkle_circuit i) = if zk_raw H i then Some tt else None.
  Proof.
    intros W. unfold zk_merkle_circuit, zk_raw. cbv zeta.
    rewrite hon_bind, hon_range_check_all by lia.
    destruct (forallb _ _); cbn [andb]; [|reflexivity].
    rewrite hon_bind, hon_range_check by lia.
    destruct (fsub 10000 (li_fee i) <? 2 ^ Z.of_nat 14); cbn [andb]; [|reflexivity].
    rewrite hon_bind, hon_range_check by lia.
    destruct (_ <? 2 ^ Z.of_nat 48); cbn [andb]; [|reflexivity].
    cbn [Core.hon].
    rewrite hon_bind, hon_enforce_target_less_than_const;
      [|unfold n_log_depth; lia|rewrite max_depth_pin; lia
       |change n_log_depth with 5%nat; rewrite pow2_5, max_depth_pin; lia|exact (wfi_depth i W)].
    destruct (Z.ltb_spec (li_depth i) (MERKLE_MAX_DEPTH + 1)) as [Ld|Ld]; cbn [andb]; [|reflexivity].
    rewrite max_depth_pin in Ld.
    destruct (wfi_siblings i W) as [Ls Fs]. destruct (wfi_positions i W) as [Lp Fp].
    rewrite hon_bind, hon_merkle_walk;
      [|exact (wfi_depth i W)|lia|lia| |exact (Hwf _)|apply levels_wf; assumption].
    2:{ rewrite combine_length, Ls, Lp, max_depth_pin. cbn. lia. }
    rewrite Z.sub_0_r. fold (leaf_preimage i). fold (leaf_levels i). fold (merkle_root H i).
    destruct (positions_ok (leaf_levels i)); cbn [andb]; [|reflexivity].
    rewrite hon_assert_gated. reflexivity.
  Qed.
  End WithHashWf.

  Lemma hon_connect_shared i : hon (connect_shared i) = if shared_raw H i then Some tt else None.
  Proof.
    unfold connect_shared, shared_raw.
    rewrite hon_assert_all. destruct (all_eqb (li_null_secret i) _); cbn [andb]; [|reflexivity].
    rewrite hon_assert_all. destruct (all_eqb (li_null_tc i) _); cbn [andb]; [|reflexivity].
    rewrite hon_assert_all. destruct (all_eqb (li_unsp_account i) _); cbn [andb]; [|reflexivity].
    do 6 (rewrite hon_bind, hon_is_equal; cbv beta iota).
    cbv zeta. fold (derived_not_dummy i). cbn [Core.hon].
    destruct (li_is_not_dummy i =? derived_not_dummy i); cbn [andb]; [|reflexivity].
    rewrite hon_assert_gated. destruct (gated_ok (li_nullifier i) _ _); cbn [andb]; [|reflexivity].
    cbn [Core.hon].
    rewrite hon_assert_gated. destruct (gated_ok (li_block_hash i) _ _); cbn [andb]; [|reflexivity].
    rewrite hon_assert_gated. reflexivity.
  Qed.

  Theorem hon_leaf_spec i : hash_wf H -> wf_in i ->
    hon (leaf_circuit i) = if leaf_accepts H i then Some (leaf_public_inputs i) else None.
  Proof.
    intros Hwf W. unfold leaf_circuit, leaf_accepts. cbn [Core.hon].
    destruct (g_mul_sub _ _ _ =? 0); cbn [andb]; [|reflexivity].
    rewrite hon_bind, hon_unspendable. fold (unsp_raw H i).
    destruct (unsp_raw H i); cbn [andb]; [|reflexivity].
    rewrite hon_bind, hon_zk_merkle by assumption.
    destruct (zk_raw H i); cbn [andb]; [|reflexivity].
    rewrite hon_bind, hon_range_check by lia.
    destruct (li_block_number i <? _); cbn [andb]; [|reflexivity].
    rewrite hon_bind, hon_connect_shared.
    destruct (shared_raw H i); reflexivity.
  Qed.
End LeafProofs.

(* ================= no witness freedom ================= *)
Section LeafRefines.
  Variable H : list Z -> list Z.
  Notation rel := (Core.rel H).
  Notation hon := (Core.hon H).
  Notation refines := (Core.refines H).

  Lemma refines_assert_all {A} xs : forall ys (k : Circ A), refines k -> refines (assert_all xs ys k).
  Proof.
    induction xs as [|x xr IH]; intros [|y yr] k Rk; cbn [assert_all]; try exact Rk.
    apply refines_assert. apply IH. exact Rk.
  Qed.

  Lemma refines_assert_gated {A} xs flag : forall ys (k : Circ A), refines k -> refines (assert_gated xs ys flag k).
  Proof.
    induction xs as [|x xr IH]; intros [|y yr] k Rk; cbn [assert_gated]; try exact Rk.
    apply refines_assert. apply IH. exact Rk.
  Qed.

  Lemma refines_range_check_all xs n : Forall canon xs -> (1 <= n <= 63)%nat -> refines (range_check_all xs n).
  Proof.
    intros F Hn. induction F as [|x xs Cx F IH]; cbn [range_check_all]; [apply refines_ret|].
    apply refines_bind; [apply refines_range_check; assumption|intros _ _; exact IH].
  Qed.

  Lemma refines_unspendable account secret : refines (unspendable_circuit account secret).
  Proof.
    unfold unspendable_circuit. apply refines_hash. apply refines_hash.
    apply refines_assert_all. apply refines_ret.
  Qed.

  Lemma canon_small k : 0 <= k < 4294967296 -> canon k.
  Proof. unfold canon, p. lia. Qed.

  Lemma refines_merkle_level level depth cur sibs pos :
    0 <= level < 32 -> canon depth -> canon pos -> refines (merkle_level level depth cur sibs pos).
  Proof.
    intros Hl Cd Cp. unfold merkle_level. change n_log_depth with 5%nat.
    apply refines_bind; [apply refines_is_const_less_than; [lia|rewrite pow2_5; lia|exact Cd]|intros is_active _].
    apply refines_bind; [apply refines_range_check; [exact Cp|lia]|intros _ _].
    apply refines_bind; [apply refines_is_equal; [exact Cp|apply canon_small; lia]|intros p0 _].
    apply refines_bind; [apply refines_is_equal; [exact Cp|apply canon_small; lia]|intros p1 _].
    apply refines_bind; [apply refines_is_equal; [exact Cp|apply canon_small; lia]|intros p2 _].
    apply refines_bind; [apply refines_is_equal; [exact Cp|apply canon_small; lia]|intros p3 _].
    cbv zeta. apply refines_hash. apply refines_ret.
  Qed.

  Lemma refines_merkle_walk depth : canon depth -> forall levels level cur,
    0 <= level -> level + Z.of_nat (length levels) <= 32 -> Forall (fun lv => canon (snd lv)) levels ->
    refines (merkle_walk level depth cur levels).
  Proof.
    intros Cd. induction levels as [|[sibs pos] r IH]; intros level cur Hl Hlen F; cbn [merkle_walk].
    - apply refines_ret.
    - inversion F as [|? ? Cp Fr]; subst. cbn [snd] in Cp. cbn [length] in Hlen.
      apply refines_bind; [apply refines_merkle_level; [lia|exact Cd|exact Cp]|intros cur' _].
      apply IH; [lia|lia|exact Fr].
  Qed.

  Lemma combine_snd_canon {A} (xs : list A) : forall ps, Forall canon ps ->
    Forall (fun lv => canon (snd lv)) (combine xs ps).
  Proof.
    induction xs as [|x xs IH]; intros [|q ps] F; cbn [combine]; try constructor.
    - inversion F; subst. assumption.
    - inversion F; subst. apply IH. assumption.
  Qed.

  Lemma refines_zk_merkle i : wf_in i -> refines (zk_merkle_circuit i).
  Proof.
    intros W. unfold zk_merkle_circuit. cbv zeta.
    destruct (wfi_leaf_tc i W) as [_ Ftc]. destruct (wfi_siblings i W) as [Ls _].
    destruct (wfi_positions i W) as [Lp Fp].
    apply refines_bind; [apply refines_range_check_all; [|lia]|intros _ _].
    { apply Forall_app. split; [exact Ftc|].
      repeat (constructor; [first [exact (wfi_asset i W)|exact (wfi_input_amount i W)|exact (wfi_out1 i W)
                                  |exact (wfi_out2 i W)|exact (wfi_fee i W)]|]). constructor. }
    apply refines_bind; [apply refines_range_check; [apply canon_fsub|lia]|intros _ _].
    apply refines_bind; [apply refines_range_check; [apply canon_fsub|lia]|intros _ _].
    apply refines_hash.
    apply refines_bind; [apply refines_enforce_target_less_than_const;
      [unfold n_log_depth; lia|rewrite max_depth_pin; lia
      |change n_log_depth with 5%nat; rewrite pow2_5, max_depth_pin; lia|exact (wfi_depth i W)]|intros _ _].
    apply refines_bind; [apply refines_merkle_walk; [exact (wfi_depth i W)|lia| |apply combine_snd_canon; exact Fp]
                        |intros root _].
    { rewrite combine_length, Ls, Lp, max_depth_pin. cbn. lia. }
    apply refines_assert_gated. apply refines_ret.
  Qed.

  Lemma refines_connect_shared i : wf_in i -> refines (connect_shared i).
  Proof.
    intros W. unfold connect_shared. destruct (wfi_block_hash i W) as [_ Fbh].
    do 3 apply refines_assert_all.
    do 4 (apply refines_bind; [apply refines_is_equal; [apply canon_nth; exact Fbh|apply canon_0]|intros ? _]).
    apply refines_bind; [apply refines_is_equal; [exact (wfi_out1 i W)|apply canon_0]|intros ? _].
    apply refines_bind; [apply refines_is_equal; [exact (wfi_out2 i W)|apply canon_0]|intros ? _].
    cbv zeta. apply refines_assert. apply refines_hash. apply refines_hash. apply refines_assert_gated.
    apply refines_hash. do 2 apply refines_assert_gated. apply refines_ret.
  Qed.

  (* the whole leaf circuit has no witness freedom: whatever an adversarial prover can satisfy is exactly
     what the honest generators produce (needs no assumption on the hash function) *)
  Theorem leaf_refines i : wf_in i -> refines (leaf_circuit i).
  Proof.
    intros W. unfold leaf_circuit. apply refines_assert.
    apply refines_bind; [apply refines_unspendable|intros _ _].
    apply refines_bind; [apply refines_zk_merkle; exact W|intros _ _].
    apply refines_bind; [apply refines_range_check; [exact (wfi_block_number i W)|lia]|intros _ _].
    apply refines_bind; [apply refines_connect_shared; exact W|intros _ _].
    apply refines_ret.
  Qed.

  (* the output is the public-input vector, for every hash function and every (even ill-formed) assignment *)
  Lemma rel_inhabited {A} (c : Circ A) : forall Q, rel c Q -> exists a, Q a.
  Proof.
    induction c as [a|x y k IH|l k IH|x y k IH|x n k IH|h1 h2 k IH]; cbn [Core.rel]; intros Q R.
    - exists a. exact R.
    - destruct R as [_ R]. eapply IH; eassumption.
    - eapply IH; eassumption.
    - destruct R as (e & inv & _ & _ & _ & _ & R). eapply IH; eassumption.
    - destruct n as [|n]; [eapply IH; eassumption|]. destruct R as (bits & _ & _ & _ & R). eapply IH; eassumption.
    - destruct R as (a & b & _ & _ & R). eapply IH; eassumption.
  Qed.

  Lemma rel_bind_const {A B} (c : Circ A) (k : Circ B) post : rel (bind c (fun _ => k)) post -> rel k post.
  Proof. intros R. apply rel_bind in R. apply rel_inhabited in R. destruct R as [_ R]. exact R. Qed.

  Theorem leaf_public_inputs_post i post : rel (leaf_circuit i) post -> post (leaf_public_inputs i).
  Proof.
    unfold leaf_circuit. cbn [Core.rel]. intros [_ R].
    do 4 apply rel_bind_const in R. exact R.
  Qed.
End LeafRefines.

(* ================= the readable acceptance condition ================= *)
Definition leaf_ok (H : list Z -> list Z) (i : LeafIn) : Prop :=
  (Forall (fun v => v < 2 ^ 32) (li_leaf_tc i) /\ li_asset i < 2 ^ 32 /\ li_input_amount i < 2 ^ 32 /\
   li_out1 i < 2 ^ 32 /\ li_out2 i < 2 ^ 32 /\ li_block_number i < 2 ^ 32) /\
  (li_fee i <= 10000 /\ (li_out1 i + li_out2 i) * 10000 <= li_input_amount i * (10000 - li_fee i)) /\
  (li_depth i <= MERKLE_MAX_DEPTH /\ Forall (fun q => 0 <= q < 4) (li_positions i)) /\
  li_is_not_dummy i = (if is_dummy_stmt i then 0 else 1) /\
  (H (H (UNSPENDABLE_SALT_FELTS ++ li_unsp_secret i)) = li_unsp_account i /\
   li_null_secret i = li_unsp_secret i /\ li_null_tc i = li_leaf_tc i /\ li_unsp_account i = li_to_account i) /\
  (is_dummy_stmt i = false ->
     li_nullifier i = H (H (NULLIFIER_SALT_FELTS ++ li_null_secret i ++ li_null_tc i)) /\
     li_block_hash i = H (header_preimage i) /\
     li_tree_root i = li_root_hash i /\
     merkle_root H i = li_root_hash i).

Lemma gated_spec xs ys (d : bool) : length xs = length ys -> Forall canon xs -> Forall canon ys ->
  (gated_ok xs ys (if d then 0 else 1) = true <-> (d = false -> xs = ys)).
Proof.
  intros L Fx Fy. destruct d.
  - rewrite gated_ok_0. split; [intros _ E; discriminate E|reflexivity].
  - rewrite gated_ok_1 by assumption. split; [intros E _; exact E|intros E; apply E; reflexivity].
Qed.

Lemma ranges_spec tc a b c d e :
  forallb (fun x => x <? 2 ^ Z.of_nat 32) (tc ++ [a; b; c; d; e]) = true <->
  Forall (fun v => v < 2 ^ 32) tc /\ a < 2 ^ 32 /\ b < 2 ^ 32 /\ c < 2 ^ 32 /\ d < 2 ^ 32 /\ e < 2 ^ 32.
Proof.
  rewrite forallb_app, andb_true_iff. cbn [forallb]. rewrite !andb_true_iff, !Z.ltb_lt.
  rewrite (forallb_Forall_iff (fun x => x <? 2 ^ Z.of_nat 32) (fun v => v < 2 ^ 32) tc)
    by (intros x; apply Z.ltb_lt).
  change (2 ^ Z.of_nat 32) with (2 ^ 32). tauto.
Qed.

Section LeafSpec.
  Variable H : list Z -> list Z.
  Hypothesis Hwf : hash_wf H.
  Variable i : LeafIn.
  Hypothesis W : wf_in i.

  Lemma merkle_root_wf : wf_list 4 (merkle_root H i).
  Proof. unfold merkle_root. apply fold_insert_wf; [exact Hwf|exact (Hwf _)]. Qed.

  Lemma zk_raw_spec :
    zk_raw H i = true <->
    (Forall (fun v => v < 2 ^ 32) (li_leaf_tc i) /\ li_asset i < 2 ^ 32 /\ li_input_amount i < 2 ^ 32 /\
     li_out1 i < 2 ^ 32 /\ li_out2 i < 2 ^ 32) /\
    (li_fee i <= 10000 /\ (li_out1 i + li_out2 i) * 10000 <= li_input_amount i * (10000 - li_fee i)) /\
    (li_depth i <= MERKLE_MAX_DEPTH /\ Forall (fun q => 0 <= q < 4) (li_positions i)) /\
    gated_ok (merkle_root H i) (li_root_hash i) (li_is_not_dummy i) = true.
  Proof.
    unfold zk_raw. rewrite !andb_true_iff, ranges_spec, !Z.ltb_lt, pow2_14, pow2_48.
    destruct (wfi_siblings i W) as [Ls _]. destruct (wfi_positions i W) as [Lp Fp].
    unfold leaf_levels. rewrite positions_ok_spec by (try assumption; congruence).
    pose proof (wfi_fee i W) as Cf. pose proof (wfi_input_amount i W) as Ci.
    pose proof (wfi_out1 i W) as C1. pose proof (wfi_out2 i W) as C2. unfold canon in Cf, Ci, C1, C2.
    rewrite pow2_32z.
    split.
    - intros ((Rt & Ra & Ri & R1 & R2 & Rf) & Fc & Fd & Dp & Ps & G).
      assert (FR : li_fee i <= 10000 /\
                   (li_out1 i + li_out2 i) * 10000 <= li_input_amount i * (10000 - li_fee i)).
      { apply fee_rule_arith; try lia. }
      repeat (split; try assumption); try tauto; lia.
    - intros ((Rt & Ra & Ri & R1 & R2) & FR & (Dp & Ps) & G).
      assert (Rf : li_fee i < 4294967296) by lia.
      apply fee_rule_arith in FR; try lia.
      repeat (split; try assumption); try tauto; lia.
  Qed.

  Lemma shared_raw_spec :
    shared_raw H i = true <->
    li_null_secret i = li_unsp_secret i /\ li_null_tc i = li_leaf_tc i /\ li_unsp_account i = li_to_account i /\
    li_is_not_dummy i = (if is_dummy_stmt i then 0 else 1) /\
    (is_dummy_stmt i = false -> li_nullifier i = H (H (NULLIFIER_SALT_FELTS ++ li_null_secret i ++ li_null_tc i))) /\
    (is_dummy_stmt i = false -> li_block_hash i = H (header_preimage i)) /\
    (is_dummy_stmt i = false -> li_tree_root i = li_root_hash i).
  Proof.
    unfold shared_raw. rewrite !andb_true_iff, Z.eqb_eq, derived_not_dummy_spec.
    destruct (wfi_null_secret i W) as [L1 F1]. destruct (wfi_unsp_secret i W) as [L2 F2].
    destruct (wfi_null_tc i W) as [L3 F3]. destruct (wfi_leaf_tc i W) as [L4 F4].
    destruct (wfi_unsp_account i W) as [L5 F5]. destruct (wfi_to_account i W) as [L6 F6].
    destruct (wfi_nullifier i W) as [L7 F7]. destruct (wfi_block_hash i W) as [L8 F8].
    destruct (wfi_tree_root i W) as [L9 F9]. destruct (wfi_root_hash i W) as [L10 F10].
    rewrite !all_eqb_spec by congruence.
    rewrite (gated_spec (li_nullifier i)) by (try assumption; try apply Hwf; rewrite (proj1 (Hwf _)); assumption).
    rewrite (gated_spec (li_block_hash i)) by (try assumption; try apply Hwf; rewrite (proj1 (Hwf _)); assumption).
    rewrite (gated_spec (li_tree_root i)) by (try assumption; congruence).
    tauto.
  Qed.

  Theorem leaf_accepts_spec : leaf_accepts H i = true <-> leaf_ok H i.
  Proof.
    unfold leaf_accepts, leaf_ok, unsp_raw.
    rewrite !andb_true_iff, zk_raw_spec, shared_raw_spec, Z.eqb_eq, Z.ltb_lt.
    destruct (wfi_unsp_account i W) as [L5 F5]. destruct (wfi_root_hash i W) as [L10 F10].
    destruct merkle_root_wf as [Lm Fm].
    rewrite all_eqb_spec by (rewrite (proj1 (Hwf _)); congruence).
    change (2 ^ Z.of_nat 32) with (2 ^ 32).
    split.
    - intros (B & U & (Rg & Fee & Dp & Gz) & Bn & (S1 & S2 & S3 & Fl & G1 & G2 & G3)).
      rewrite Fl in Gz.
      pose proof (proj1 (gated_spec (merkle_root H i) (li_root_hash i) (is_dummy_stmt i)
                           ltac:(congruence) Fm F10) Gz) as Gz'.
      tauto.
    - intros (Rg & Fee & Dp & Fl & (U & S1 & S2 & S3) & Bd).
      assert (Gz : gated_ok (merkle_root H i) (li_root_hash i) (li_is_not_dummy i) = true).
      { rewrite Fl. apply (proj2 (gated_spec (merkle_root H i) (li_root_hash i) (is_dummy_stmt i)
                                     ltac:(congruence) Fm F10)). tauto. }
      assert (B : g_mul_sub (li_is_not_dummy i) (li_is_not_dummy i) (li_is_not_dummy i) = 0).
      { rewrite Fl. destruct (is_dummy_stmt i); reflexivity. }
      tauto.
  Qed.

  (* what an arbitrary prover can satisfy = the acceptance condition, and nothing else *)
  Theorem leaf_rel_iff post :
    Core.rel H (leaf_circuit i) post <-> leaf_ok H i /\ post (leaf_public_inputs i).
  Proof.
    rewrite (leaf_refines H i W post), (hon_leaf_spec H i Hwf W), <- leaf_accepts_spec.
    destruct (leaf_accepts H i); split; try tauto. intros [E _]; discriminate E.
  Qed.

  Theorem hon_leaf_iff : Core.hon H (leaf_circuit i) = Some (leaf_public_inputs i) <-> leaf_ok H i.
  Proof.
    rewrite (hon_leaf_spec H i Hwf W), <- leaf_accepts_spec.
    destruct (leaf_accepts H i); split; try reflexivity; intros E; discriminate E.
  Qed.
End LeafSpec.

(* ================= the property theorems (C01 - C04) ================= *)
Section LeafTheorems.
  Variable H : list Z -> list Z.
  Hypothesis Hwf : hash_wf H.
  Variable i : LeafIn.
  Hypothesis W : wf_in i.

  Lemma leaf_ok_of_rel post : Core.rel H (leaf_circuit i) post -> leaf_ok H i.
  Proof. intros R. apply (leaf_rel_iff H Hwf i W post) in R. exact (proj1 R). Qed.

  (* C01 *)
  Theorem leaf_ranges_and_fee post : Core.rel H (leaf_circuit i) post ->
    li_asset i < 2 ^ 32 /\ li_input_amount i < 2 ^ 32 /\ li_out1 i < 2 ^ 32 /\ li_out2 i < 2 ^ 32 /\
    li_block_number i < 2 ^ 32 /\ Forall (fun v => v < 2 ^ 32) (li_leaf_tc i) /\
    li_fee i <= 10000 /\
    (li_out1 i + li_out2 i) * 10000 <= li_input_amount i * (10000 - li_fee i).
  Proof. intros R. apply leaf_ok_of_rel in R. unfold leaf_ok in R. tauto. Qed.

  (* C04: the flag is a function of the public statement *)
  Theorem dummy_flag_determined post : Core.rel H (leaf_circuit i) post ->
    li_is_not_dummy i = (if is_dummy_stmt i then 0 else 1).
  Proof. intros R. apply leaf_ok_of_rel in R. unfold leaf_ok in R. tauto. Qed.

  (* C02: unconditional part *)
  Theorem unspendable_unconditional post : Core.rel H (leaf_circuit i) post ->
    li_unsp_account i = H (H (UNSPENDABLE_SALT_FELTS ++ li_unsp_secret i)) /\
    li_to_account i = li_unsp_account i /\ li_null_secret i = li_unsp_secret i /\ li_null_tc i = li_leaf_tc i.
  Proof.
    intros R. apply leaf_ok_of_rel in R. unfold leaf_ok in R.
    destruct R as (_ & _ & _ & _ & (U & S1 & S2 & S3) & _). repeat split; congruence.
  Qed.

  (* C02: the nullifier, the recipient of the proven tree leaf and its transfer count share one secret
     and one count *)
  Theorem nullifier_binding_strong post : Core.rel H (leaf_circuit i) post -> is_dummy_stmt i = false ->
    li_nullifier i = H (H (NULLIFIER_SALT_FELTS ++ li_null_secret i ++ li_null_tc i)) /\
    li_to_account i = H (H (UNSPENDABLE_SALT_FELTS ++ li_null_secret i)) /\
    li_leaf_tc i = li_null_tc i /\
    li_null_secret i = li_unsp_secret i.
  Proof.
    intros R D. apply leaf_ok_of_rel in R. unfold leaf_ok in R.
    destruct R as (_ & _ & _ & _ & (U & S1 & S2 & S3) & B). destruct (B D) as (N & _).
    repeat split; congruence.
  Qed.

  Theorem nullifier_binding post : Core.rel H (leaf_circuit i) post -> is_dummy_stmt i = false ->
    exists s c, li_nullifier i = H (H (NULLIFIER_SALT_FELTS ++ s ++ c)) /\
                li_to_account i = H (H (UNSPENDABLE_SALT_FELTS ++ s)) /\ li_leaf_tc i = c.
  Proof.
    intros R D. destruct (nullifier_binding_strong post R D) as (N & A & T & _).
    exists (li_null_secret i), (li_null_tc i). tauto.
  Qed.

  (* C03 *)
  Theorem depth_and_positions_unconditional post : Core.rel H (leaf_circuit i) post ->
    li_depth i <= MERKLE_MAX_DEPTH /\ Forall (fun q => 0 <= q < 4) (li_positions i).
  Proof. intros R. apply leaf_ok_of_rel in R. unfold leaf_ok in R. tauto. Qed.

  Theorem block_and_path post : Core.rel H (leaf_circuit i) post -> is_dummy_stmt i = false ->
    li_block_hash i = H (header_preimage i) /\
    li_depth i <= MERKLE_MAX_DEPTH /\ Forall (fun q => 0 <= q < 4) (li_positions i) /\
    li_tree_root i =
      fold_insert H (H (li_to_account i ++ li_leaf_tc i ++ [li_asset i; li_input_amount i]))
                  (firstn (Z.to_nat (li_depth i)) (combine (li_siblings i) (li_positions i))).
  Proof.
    intros R D. apply leaf_ok_of_rel in R. unfold leaf_ok in R.
    destruct R as (_ & _ & (Dp & Ps) & _ & _ & B). destruct (B D) as (_ & Bh & Tr & Mr).
    unfold merkle_root, leaf_preimage, leaf_levels in Mr.
    repeat (split; [assumption|]). congruence.
  Qed.

  (* C04: with a non-zero block hash or a non-zero output amount every binding is enforced *)
  Theorem bindings_enforced post : Core.rel H (leaf_circuit i) post -> is_dummy_stmt i = false ->
    (li_nullifier i = H (H (NULLIFIER_SALT_FELTS ++ li_null_secret i ++ li_null_tc i)) /\
     li_to_account i = H (H (UNSPENDABLE_SALT_FELTS ++ li_null_secret i)) /\
     li_leaf_tc i = li_null_tc i) /\
    li_block_hash i = H (header_preimage i) /\
    li_tree_root i =
      fold_insert H (H (li_to_account i ++ li_leaf_tc i ++ [li_asset i; li_input_amount i]))
                  (firstn (Z.to_nat (li_depth i)) (combine (li_siblings i) (li_positions i))).
  Proof.
    intros R D. pose proof (nullifier_binding_strong post R D). pose proof (block_and_path post R D). tauto.
  Qed.

  (* C04: what a dummy statement still has to satisfy - nothing about nullifier, header or roots *)
  Definition dummy_conditions : Prop :=
    li_is_not_dummy i = 0 /\
    (li_asset i < 2 ^ 32 /\ li_input_amount i < 2 ^ 32 /\ li_block_number i < 2 ^ 32 /\
     Forall (fun v => v < 2 ^ 32) (li_leaf_tc i)) /\
    li_fee i <= 10000 /\
    (li_depth i <= MERKLE_MAX_DEPTH /\ Forall (fun q => 0 <= q < 4) (li_positions i)) /\
    (li_unsp_account i = H (H (UNSPENDABLE_SALT_FELTS ++ li_unsp_secret i)) /\
     li_to_account i = li_unsp_account i /\ li_null_secret i = li_unsp_secret i /\ li_null_tc i = li_leaf_tc i).

  Lemma dummy_ok_iff : is_dummy_stmt i = true -> (leaf_ok H i <-> dummy_conditions).
  Proof.
    intros D. pose proof D as D'. apply is_dummy_stmt_spec in D'; [|exact (proj1 (wfi_block_hash i W))].
    destruct D' as (_ & O1 & O2). unfold leaf_ok, dummy_conditions. rewrite D, O1, O2.
    pose proof (wfi_input_amount i W) as Ci. unfold canon in Ci. rewrite pow2_32z.
    split.
    - intros (Rg & Fee & Dp & Fl & (U & S1 & S2 & S3) & _).
      repeat split; try tauto; try congruence.
    - intros (Fl & Rg & Fee & Dp & (U & S1 & S2 & S3)).
      assert (0 <= li_input_amount i * (10000 - li_fee i)) by (apply Z.mul_nonneg_nonneg; lia).
      repeat split; try tauto; try congruence; try lia.
  Qed.

  Theorem dummy_rel_iff post : is_dummy_stmt i = true ->
    (Core.rel H (leaf_circuit i) post <-> dummy_conditions /\ post (leaf_public_inputs i)).
  Proof. intros D. rewrite (leaf_rel_iff H Hwf i W post), (dummy_ok_iff D). tauto. Qed.

  Theorem dummy_satisfiable : is_dummy_stmt i = true -> dummy_conditions ->
    Core.hon H (leaf_circuit i) = Some (leaf_public_inputs i).
  Proof. intros D C. apply (hon_leaf_iff H Hwf i W). apply (dummy_ok_iff D). exact C. Qed.

  (* honest failure = no witness at all *)
  Theorem leaf_unsat : Core.hon H (leaf_circuit i) = None -> forall post, ~ Core.rel H (leaf_circuit i) post.
  Proof. intros E. exact (refines_honest_fails H _ (leaf_refines H i W) E). Qed.

  Theorem leaf_sat : Core.hon H (leaf_circuit i) = Some (leaf_public_inputs i) ->
    Core.rel H (leaf_circuit i) (fun o => o = leaf_public_inputs i).
  Proof. intros E. apply (leaf_refines H i W). rewrite E. reflexivity. Qed.
End LeafTheorems.

(* header preimage order: parent, number, state root, extrinsics root, tree root, digest, with the
   PUBLIC block number *)
Lemma preimage_order i :
  header_preimage i = li_parent_hash i ++ [li_block_number i] ++ li_state_root i ++ li_extrinsics_root i
                      ++ li_tree_root i ++ li_digest i.
Proof. reflexivity. Qed.

Lemma public_inputs_layout i :
  leaf_public_inputs i = [li_asset i; li_out1 i; li_out2 i; li_fee i] ++ li_nullifier i ++ li_exit1 i
                         ++ li_exit2 i ++ li_block_hash i ++ [li_block_number i].
Proof. reflexivity. Qed.

Lemma public_inputs_length i : wf_in i -> length (leaf_public_inputs i) = 21%nat.
Proof.
  intros W. unfold leaf_public_inputs. rewrite !app_length.
  rewrite (proj1 (wfi_nullifier i W)), (proj1 (wfi_exit1 i W)), (proj1 (wfi_exit2 i W)),
    (proj1 (wfi_block_hash i W)). reflexivity.
Qed.

(* ================= concrete statements for the non-vacuity examples ================= *)
Definition H0 : list Z -> list Z := fun l => [1 + (fold_left Z.add l 0) mod 1000; 2; 3; 4].

Lemma H0_wf : hash_wf H0.
Proof.
  intros l. split; [reflexivity|]. unfold H0.
  repeat constructor; unfold canon, p; try lia.
Qed.

Definition ex_level0 : list (list Z) := [[1; 1; 1; 1]; [2; 2; 2; 2]; [3; 3; 3; 3]].
Definition ex_zero_level : list (list Z) := [[0; 0; 0; 0]; [0; 0; 0; 0]; [0; 0; 0; 0]].

(* a depth-1 statement built to be accepted; the knobs break one thing at a time *)
Definition ex_build (out1 out2 fee input depth flag : Z) (zero_block_hash : bool)
           (nullifier_override tree_root_override : option (list Z)) : LeafIn :=
  let secret := [11; 12; 13; 14] in
  let tc := [5; 0] in
  let asset := 0 in
  let account := H0 (H0 (UNSPENDABLE_SALT_FELTS ++ secret)) in
  let nullifier := H0 (H0 (NULLIFIER_SALT_FELTS ++ secret ++ tc)) in
  let sibs := ex_level0 :: repeat ex_zero_level 15 in
  let positions := 2 :: repeat 0 15 in
  let root := fold_insert H0 (H0 (account ++ tc ++ [asset; input]))
                          (firstn (Z.to_nat depth) (combine sibs positions)) in
  let tree_root := match tree_root_override with Some r => r | None => root end in
  let parent := [21; 22; 23; 24] in
  let number := 1000 in
  let state := [31; 32; 33; 34] in
  let extr := [41; 42; 43; 44] in
  let digest := repeat 7 28 in
  let block_hash := if zero_block_hash then [0; 0; 0; 0]
                    else H0 (parent ++ [number] ++ state ++ extr ++ tree_root ++ digest) in
  mkLeafIn asset out1 out2 fee account tc input
           root depth flag sibs positions
           (match nullifier_override with Some n => n | None => nullifier end) secret tc
           account secret
           [51; 52; 53; 54] [61; 62; 63; 64]
           block_hash parent number state extr tree_root digest.

Definition ex_real : LeafIn := ex_build 40 9 10 50 1 1 false None None.
Definition ex_real_depth0 : LeafIn := ex_build 40 9 10 50 0 1 false None None.
(* dummy: zero block hash, zero outputs, random nullifier, header tree root unrelated to the proof's root *)
Definition ex_dummy : LeafIn := ex_build 0 0 10 50 1 0 true (Some [9; 9; 9; 9]) (Some [6; 6; 6; 6]).
Definition ex_bad_fee : LeafIn := ex_build 40 9 10001 50 1 1 false None None.
Definition ex_bad_rule : LeafIn := ex_build 45 9 10 50 1 1 false None None.
Definition ex_bad_range : LeafIn := ex_build 4294967296 0 0 4294967295 1 1 false None None.
Definition ex_bad_nullifier : LeafIn := ex_build 40 9 10 50 1 1 false (Some [9; 9; 9; 9]) None.
Definition ex_bad_tree_root : LeafIn := ex_build 40 9 10 50 1 1 false None (Some [6; 6; 6; 6]).
Definition ex_bad_depth : LeafIn := ex_build 40 9 10 50 17 1 false None None.
Definition ex_flag_lie : LeafIn := ex_build 40 9 10 50 1 0 false None None.
Definition ex_dummy_flag_lie : LeafIn := ex_build 0 0 10 50 1 1 true (Some [9; 9; 9; 9]) (Some [6; 6; 6; 6]).
(* zero block hash but a non-zero output: not a dummy, every binding applies *)
Definition ex_zero_hash_with_output : LeafIn := ex_build 40 9 10 50 1 1 true None None.

Lemma ex_wf o1 o2 fee inp depth flag z n r :
  wf_inb (ex_build o1 o2 fee inp depth flag z n r) = true -> wf_in (ex_build o1 o2 fee inp depth flag z n r).
Proof. apply wf_inb_sound. Qed.
