(* plonky2 1.5.5 builder operations.
   - Gate-determined arithmetic (add, sub, mul, mul_const, mul_add, arithmetic, select, _if, and, or,
     not): pure field functions, exactly the formulas of gadgets/arithmetic.rs and gadgets/select.rs
     (they are used on non-boolean "BoolTarget::new_unsafe" values too, so no booleanity is assumed).
   - Hint-allocating gadgets as [Circ] programs over the primitives of Core.v, transcribed from
     gadgets/range_check.rs (range_check, split_low_high) and gadgets/arithmetic.rs (is_equal),
     with their refinement lemmas. *)
From Coq Require Import ZArith Lia List Bool.
From V.Base Require Import Common.
From V.Circ Require Import Field Core.
Import ListNotations.
Open Scope Z_scope.
(* mathcomp.zify (loaded through Base/Flt.v) resets the hook; set it again after all imports *)
Ltac Zify.zify_post_hook ::= Z.div_mod_to_equations.

(* ---------- gate-determined arithmetic ---------- *)
Definition g_not (b : Z) : Z := fsub 1 b.                               (* one - b                *)
Definition g_and (a b : Z) : Z := fmul a b.                             (* mul                    *)
Definition g_or (a b : Z) : Z := (a + b - a * b) mod p.                 (* arithmetic(-1,1,a,b,a) + b *)
Definition g_select (b x y : Z) : Z := (b * x - (b * y - y)) mod p.     (* mul_sub(b,x, mul_sub(b,y,y)) *)
Definition g_if (b x y : Z) : Z := ((1 - b) * y + b * x) mod p.         (* mul_add(not b, y, b*x) *)
Definition g_mul_const_add (c a b : Z) : Z := (c * a + b) mod p.        (* mul_const_add(c,a,b)   *)
Definition g_mul_add (a b c : Z) : Z := (a * b + c) mod p.
Definition g_mul_sub (a b c : Z) : Z := (a * b - c) mod p.
Definition g_xor (a b : Z) : Z := (a + b - 2 * (a * b)) mod p.          (* common/src/gadgets.rs xor *)

Lemma canon_g_not b : canon (g_not b). Proof. apply canon_fsub. Qed.
Lemma canon_g_and a b : canon (g_and a b). Proof. apply canon_fmul. Qed.
Lemma canon_g_or a b : canon (g_or a b). Proof. unfold g_or, canon. apply Z.mod_pos_bound. unfold p; lia. Qed.
Lemma canon_g_select b x y : canon (g_select b x y). Proof. unfold g_select, canon. apply Z.mod_pos_bound. unfold p; lia. Qed.
Lemma canon_g_if b x y : canon (g_if b x y). Proof. unfold g_if, canon. apply Z.mod_pos_bound. unfold p; lia. Qed.
Lemma canon_g_mca c a b : canon (g_mul_const_add c a b). Proof. unfold g_mul_const_add, canon. apply Z.mod_pos_bound. unfold p; lia. Qed.
Lemma canon_g_xor a b : canon (g_xor a b). Proof. unfold g_xor, canon. apply Z.mod_pos_bound. unfold p; lia. Qed.
#[export] Hint Resolve canon_g_not canon_g_and canon_g_or canon_g_select canon_g_if canon_g_mca canon_g_xor : canon.

(* on booleans they are the boolean connectives; select picks *)
Definition b2z (b : bool) : Z := if b then 1 else 0.
Lemma g_not_b b : g_not (b2z b) = b2z (negb b). Proof. destruct b; reflexivity. Qed.
Lemma g_and_b a b : g_and (b2z a) (b2z b) = b2z (a && b). Proof. destruct a, b; reflexivity. Qed.
Lemma g_or_b a b : g_or (b2z a) (b2z b) = b2z (a || b). Proof. destruct a, b; reflexivity. Qed.
Lemma g_xor_b a b : g_xor (b2z a) (b2z b) = b2z (xorb a b). Proof. destruct a, b; reflexivity. Qed.
Lemma g_select_b b x y : canon x -> canon y -> g_select (b2z b) x y = if b then x else y.
Proof. unfold g_select, canon, p. destruct b; cbn [b2z]; intros; rewrite Z.mod_small by lia; lia. Qed.
Lemma g_if_b b x y : canon x -> canon y -> g_if (b2z b) x y = if b then x else y.
Proof. unfold g_if, canon, p. destruct b; cbn [b2z]; intros; rewrite Z.mod_small by lia; lia. Qed.
Lemma canon_b2z b : canon (b2z b). Proof. destruct b; unfold canon, p; cbn; lia. Qed.
#[export] Hint Resolve canon_b2z : canon.

(* ---------- bit decompositions ---------- *)
Lemma bsum_bound bits : Forall bitZ bits -> 0 <= bsum bits < 2 ^ Z.of_nat (length bits).
Proof.
  induction bits as [|b r IH]; intros F; cbn [bsum length].
  - cbn. lia.
  - inversion F as [|? ? Hb Hr]; subst. specialize (IH Hr).
    rewrite Nat2Z.inj_succ, Z.pow_succ_r by lia. unfold bitZ in Hb. lia.
Qed.

Lemma bits_of_length x n : length (bits_of x n) = n.
Proof. revert x; induction n as [|n IH]; intros x; cbn [bits_of length]; [reflexivity|rewrite IH; reflexivity]. Qed.

Lemma bits_of_bits x n : Forall bitZ (bits_of x n).
Proof.
  revert x; induction n as [|n IH]; intros x; cbn [bits_of]; constructor; [|apply IH].
  unfold bitZ. pose proof (Z.mod_pos_bound x 2). lia.
Qed.

Lemma bsum_bits_of x n : 0 <= x < 2 ^ Z.of_nat n -> bsum (bits_of x n) = x.
Proof.
  revert x; induction n as [|n IH]; intros x Hx; cbn [bits_of bsum].
  - cbn in Hx. lia.
  - rewrite Nat2Z.inj_succ, Z.pow_succ_r in Hx by lia.
    assert (Hq : 0 <= x / 2 < 2 ^ Z.of_nat n).
    { clear IH. generalize dependent (2 ^ Z.of_nat n). intros. lia. }
    rewrite IH by exact Hq. lia.
Qed.

Lemma bits_unique bits : Forall bitZ bits -> bits_of (bsum bits) (length bits) = bits.
Proof.
  induction bits as [|b r IH]; intros F; cbn [bsum length bits_of]; [reflexivity|].
  inversion F as [|? ? Hb Hr]; subst.
  assert (E1 : (b + 2 * bsum r) mod 2 = b) by (unfold bitZ in Hb; lia).
  assert (E2 : (b + 2 * bsum r) / 2 = bsum r) by (unfold bitZ in Hb; lia).
  rewrite E1, E2, IH by assumption. reflexivity.
Qed.

Lemma pow2_63_lt_p n : (n <= 63)%nat -> 2 ^ Z.of_nat n < p.
Proof.
  intros Hn. apply Z.le_lt_trans with (2 ^ 63); [apply Z.pow_le_mono_r; lia|]. unfold p. lia.
Qed.

Section Prims.
  Variable H : list Z -> list Z.
  Notation rel := (rel H).
  Notation hon := (hon H).
  Notation refines := (refines H).

  (* ---- is_equal ---- *)
  Lemma rel_iseq {A} x y (k : Z -> Circ A) post : canon x -> canon y ->
    (rel (IsEq x y k) post <-> rel (k (if x =? y then 1 else 0)) post).
  Proof.
    intros Hx Hy. cbn [Core.rel]. split.
    - intros (e & inv & He & Hi & C1 & C2 & R).
      destruct (Z.eqb_spec x y) as [->|Hne].
      + assert (E1 : e = 1).
        { clear C1 R. rewrite fsub_diag, fmul_0_l in C2.
          apply (fsub_eq_0 0 (fsub 1 e) canon_0 (canon_fsub _ _)) in C2.
          fld. lia. }
        subst e. exact R.
      + assert (Hd : canon (fsub x y)) by apply canon_fsub.
        assert (Hd0 : fsub x y <> 0) by (intro E; apply (fsub_eq_0 x y Hx Hy) in E; contradiction).
        destruct (fmul_zero _ _ He Hd C1) as [->|]; [exact R|contradiction].
    - intros R. destruct (Z.eqb_spec x y) as [->|Hne].
      + exists 1, 0. split; [apply canon_1|]. split; [apply canon_0|].
        split; [rewrite fsub_diag; apply fmul_0_r|].
        split; [rewrite fsub_diag, fmul_0_l; reflexivity|exact R].
      + assert (Hd : canon (fsub x y)) by apply canon_fsub.
        assert (Hd0 : fsub x y <> 0) by (intro E; apply (fsub_eq_0 x y Hx Hy) in E; contradiction).
        destruct (finv_exists _ Hd Hd0) as (inv & Hinv & E).
        exists 0, inv. split; [apply canon_0|]. split; [exact Hinv|].
        split; [apply fmul_0_l|]. split; [rewrite E; reflexivity|exact R].
  Qed.

  Lemma refines_iseq {A} x y (k : Z -> Circ A) : canon x -> canon y ->
    refines (k (if x =? y then 1 else 0)) -> refines (IsEq x y k).
  Proof. intros Hx Hy Rk post. rewrite (rel_iseq x y k post Hx Hy). cbn [Core.hon]. apply Rk. Qed.

  (* ---- split_le / range_check for widths below 64: unique decomposition ---- *)
  Lemma rel_split {A} x n (k : list Z -> Circ A) post : canon x -> (1 <= n <= 63)%nat ->
    (rel (Split x n k) post <-> x < 2 ^ Z.of_nat n /\ rel (k (bits_of x n)) post).
  Proof.
    intros Hx Hn. cbn [Core.rel]. destruct n as [|n']; [lia|]. set (n := S n') in *. split.
    - intros (bits & L & B & S & R).
      pose proof (bsum_bound bits B) as Bd. rewrite L in Bd.
      pose proof (pow2_63_lt_p n ltac:(lia)) as Hp.
      assert (E : bsum bits = x) by (rewrite Z.mod_small in S by lia; exact S).
      split; [lia|]. rewrite <- E, <- L, bits_unique by assumption. exact R.
    - intros [Hlt R]. exists (bits_of x n). split; [apply bits_of_length|]. split; [apply bits_of_bits|].
      unfold canon in Hx. rewrite bsum_bits_of by lia. split; [apply Z.mod_small; exact Hx|exact R].
  Qed.

  Lemma refines_split {A} x n (k : list Z -> Circ A) : canon x -> (1 <= n <= 63)%nat ->
    refines (k (bits_of x n)) -> refines (Split x n k).
  Proof.
    intros Hx Hn Rk post. rewrite (rel_split x n k post Hx Hn). cbn [Core.hon].
    destruct n as [|n']; [lia|]. destruct (Z.ltb_spec x (2 ^ Z.of_nat (S n'))) as [L|L].
    - rewrite (Rk post). tauto.
    - split; [lia|tauto].
  Qed.

  (* range_check(x, n) = split_le(x, n) with the bits dropped *)
  Definition range_check (x : Z) (n : nat) : Circ unit := Split x n (fun _ => Ret tt).

  Lemma rel_range_check x n post : canon x -> (1 <= n <= 63)%nat ->
    (rel (range_check x n) post <-> x < 2 ^ Z.of_nat n /\ post tt).
  Proof. intros Hx Hn. unfold range_check. rewrite rel_split by assumption. cbn [Core.rel]. tauto. Qed.

  Lemma hon_range_check x n : (1 <= n)%nat ->
    hon (range_check x n) = if x <? 2 ^ Z.of_nat n then Some tt else None.
  Proof. intros Hn. unfold range_check. cbn [Core.hon]. destruct n; [lia|]. destruct (x <? _); reflexivity. Qed.

  Lemma refines_range_check x n : canon x -> (1 <= n <= 63)%nat -> refines (range_check x n).
  Proof. intros Hx Hn. apply refines_split; try assumption. apply refines_ret. Qed.

  (* ---- split_low_high(x, n_log, num_bits) ---- *)
  Definition split_low_high (x : Z) (n_log num_bits : nat) : Circ (Z * Z) :=
    Free2 (x mod 2 ^ Z.of_nat n_log) (x / 2 ^ Z.of_nat n_log) (fun lo hi =>
      _ <- range_check lo n_log ;;
      _ <- range_check hi (num_bits - n_log) ;;
      Assert x (g_mul_add hi (2 ^ Z.of_nat n_log) lo) (Ret (lo, hi))).

  (* relational content when both halves are 1..63 bits wide: two range facts and the recomposition mod p *)
  Lemma rel_split_low_high x a b post : (1 <= a <= 63)%nat -> (1 <= b - a <= 63)%nat ->
    (rel (split_low_high x a b) post <->
     exists lo hi, 0 <= lo < 2 ^ Z.of_nat a /\ 0 <= hi < 2 ^ Z.of_nat (b - a) /\
                   x = (hi * 2 ^ Z.of_nat a + lo) mod p /\ post (lo, hi)).
  Proof.
    intros Ha Hb. unfold split_low_high. cbn [Core.rel]. split.
    - intros (lo & hi & Clo & Chi & R).
      rewrite rel_bind in R. rewrite rel_range_check in R by assumption. destruct R as [Llo R].
      rewrite rel_bind in R. rewrite rel_range_check in R by assumption. destruct R as [Lhi R].
      cbn [Core.rel] in R. destruct R as [E R].
      exists lo, hi. unfold canon in *. repeat split; try lia; try assumption.
    - intros (lo & hi & Blo & Bhi & E & R).
      pose proof (pow2_63_lt_p a ltac:(lia)). pose proof (pow2_63_lt_p (b - a) ltac:(lia)).
      exists lo, hi. split; [unfold canon; lia|]. split; [unfold canon; lia|].
      rewrite rel_bind, rel_range_check by (unfold canon; lia). split; [lia|].
      rewrite rel_bind, rel_range_check by (unfold canon; lia). split; [lia|].
      cbn [Core.rel]. split; [exact E|exact R].
  Qed.

  Lemma hon_split_low_high x a b : canon x -> (1 <= a)%nat -> (1 <= b - a)%nat -> (b <= 64)%nat ->
    hon (split_low_high x a b) = Some (x mod 2 ^ Z.of_nat a, x / 2 ^ Z.of_nat a) \/
    hon (split_low_high x a b) = None.
  Proof.
    intros Hx Ha Hb Hb64. unfold split_low_high. cbn [Core.hon].
    rewrite hon_bind, hon_range_check by assumption.
    destruct (_ <? _); [|right; reflexivity].
    rewrite hon_bind, hon_range_check by assumption.
    destruct (_ <? _); [|right; reflexivity].
    cbn [Core.hon]. destruct (_ =? _); [left|right]; reflexivity.
  Qed.
End Prims.
