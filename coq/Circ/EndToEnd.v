(* End-to-end composition of the three circuit layers.

     leaf circuit (Circ/Leaf.v, LeafProofs.v)  ->  private batch (PrivateBatch.v, PrivateBatchProofs.v)
                                               ->  public batch  (PublicBatch.v, PublicBatchProofs.v, TwoLayer.v)
     and the recursive layer (Recursion.v): "every child proof verifies under the constant key".

   The per-layer theorems are stated over well-formed child STATEMENTS ([leaf_wf], [group_ok]).  Here those
   premises are discharged by acceptance of the layer below, so the statements are about the WHOLE system:
   for all leaf assignments, all sizes, all (adversarial) witnesses of every layer, and every hash function
   with 4 canonical output felts.

   Vocabulary
     [real_leaf i]           the leaf statement's block hash is not zero4 (the WRAPPER's notion of "real")
     [is_dummy_stmt i]       the LEAF circuit's notion of dummy: block hash zero AND both outputs zero
     [zero_hash_preimage_found H pre]   H pre = zero4
     [real_out_total is]     sum over the real leaves of out1 + out2
     [real_in_total is]      sum over the real leaves of the input (deposit) amount
     [real_net_deposits is]  sum over the real leaves of input * (10000 - fee)
     [out_nullifiers n out]  the n digests of the nullifier region of a private-batch output
     [deposit_bound H i bh]  (secret, count) of leaf i are those of a deposit leaf proven in the tree of block bh *)
From Coq Require Import ZArith Lia List Bool Permutation Sorted.
From V.Base Require Import Common.
From V.Generated Require Import Constants.
From V.Circ Require Import Field Core Prims Gadgets SortNet Sorting Leaf LeafProofs PrivateBatch PrivateBatchProofs
     PublicBatch PublicBatchProofs TwoLayer Recursion RecursionProofs.
From V.Spec Require Import LeanPort.
Import ListNotations.
Open Scope Z_scope.
Ltac Zify.zify_post_hook ::= Z.div_mod_to_equations.

(* ================================================================ 1. leaf acceptance => leaf_wf; the two dummy notions *)
Lemma len4_inv (l : list Z) : length l = 4%nat -> exists a b c d, l = [a; b; c; d].
Proof. destruct l as [|a [|b [|c [|d [|? ?]]]]]; try discriminate. intros _. eauto. Qed.

Lemma leaf_pis_fields i : wf_in i ->
  lf_asset (leaf_public_inputs i) = li_asset i /\
  lf_out1 (leaf_public_inputs i) = li_out1 i /\
  lf_out2 (leaf_public_inputs i) = li_out2 i /\
  lf_fee (leaf_public_inputs i) = li_fee i /\
  lf_null (leaf_public_inputs i) = li_nullifier i /\
  lf_exit1 (leaf_public_inputs i) = li_exit1 i /\
  lf_exit2 (leaf_public_inputs i) = li_exit2 i /\
  lf_bh (leaf_public_inputs i) = li_block_hash i /\
  lf_bn (leaf_public_inputs i) = li_block_number i.
Proof.
  intros W.
  destruct (len4_inv _ (proj1 (wfi_nullifier i W))) as (n0 & n1 & n2 & n3 & En).
  destruct (len4_inv _ (proj1 (wfi_exit1 i W))) as (a0 & a1 & a2 & a3 & Ea).
  destruct (len4_inv _ (proj1 (wfi_exit2 i W))) as (b0 & b1 & b2 & b3 & Eb).
  destruct (len4_inv _ (proj1 (wfi_block_hash i W))) as (h0 & h1 & h2 & h3 & Eh).
  unfold leaf_public_inputs. rewrite En, Ea, Eb, Eh. repeat split; reflexivity.
Qed.

Lemma leaf_pis_canon i : wf_in i -> Forall canon (leaf_public_inputs i).
Proof.
  intros W. unfold leaf_public_inputs.
  repeat (apply Forall_app; split);
    try exact (proj2 (wfi_nullifier i W)); try exact (proj2 (wfi_exit1 i W));
    try exact (proj2 (wfi_exit2 i W)); try exact (proj2 (wfi_block_hash i W));
    repeat constructor; apply W.
Qed.

(* the wrapper's notion of a real slot, read on the leaf assignment *)
Definition real_leaf (i : LeafIn) : bool := negb (list_eqb (li_block_hash i) zero4).

Lemma is_dummy_pb_leaf i : wf_in i -> is_dummy_pb (leaf_public_inputs i) = negb (real_leaf i).
Proof.
  intros W. destruct (leaf_pis_fields i W) as (_ & _ & _ & _ & _ & _ & _ & Eh & _).
  unfold is_dummy_pb, real_leaf. rewrite Eh, negb_involutive. reflexivity.
Qed.
Lemma is_real_pb_leaf i : wf_in i -> is_real_pb (leaf_public_inputs i) = real_leaf i.
Proof. intros W. unfold is_real_pb. rewrite (is_dummy_pb_leaf i W). apply negb_involutive. Qed.

Lemma real_leaf_not_dummy_stmt i : wf_in i -> real_leaf i = true -> is_dummy_stmt i = false.
Proof.
  intros W R. destruct (is_dummy_stmt i) eqn:D; [|reflexivity].
  apply (is_dummy_stmt_spec i (proj1 (wfi_block_hash i W))) in D. destruct D as (E & _).
  unfold real_leaf in R. rewrite E in R. discriminate R.
Qed.

Definition zero_hash_preimage_found (H : list Z -> list Z) (pre : list Z) : Prop := H pre = zero4.

Section LeafBridge.
  Variable H : list Z -> list Z.
  Hypothesis Hwf : hash_wf H.
  Variable i : LeafIn.
  Hypothesis W : wf_in i.

  Theorem leaf_sat_implies_leaf_wf post :
    rel H (leaf_circuit i) post -> leaf_wf (leaf_public_inputs i).
  Proof.
    intros R. pose proof (leaf_ok_of_rel H Hwf i W post R) as Ok.
    destruct Ok as ((_ & _ & _ & O1 & O2 & _) & _).
    destruct (leaf_pis_fields i W) as (_ & E1 & E2 & _).
    split; [exact (public_inputs_length i W)|]. split; [exact (leaf_pis_canon i W)|].
    rewrite E1, E2. rewrite pow2_32z in O1, O2. unfold two32. split; assumption.
  Qed.

  (* wrapper-real => leaf-real: every binding of the leaf circuit applies to a slot the wrapper counts *)
  Theorem wrapper_real_is_leaf_real :
    is_dummy_pb (leaf_public_inputs i) = false -> is_dummy_stmt i = false.
  Proof.
    intros D. apply (real_leaf_not_dummy_stmt i W). rewrite (is_dummy_pb_leaf i W) in D.
    apply negb_false_iff in D. exact D.
  Qed.

  (* leaf-dummy => wrapper-dummy *)
  Theorem leaf_dummy_is_wrapper_dummy :
    is_dummy_stmt i = true -> is_dummy_pb (leaf_public_inputs i) = true.
  Proof.
    intros D. apply (is_dummy_stmt_spec i (proj1 (wfi_block_hash i W))) in D. destruct D as (E & _).
    rewrite (is_dummy_pb_leaf i W). unfold real_leaf. rewrite E. reflexivity.
  Qed.

  (* wrapper-dummy and leaf-accepted: a full leaf dummy, or a preimage of the zero digest has been found *)
  Theorem wrapper_dummy_bridge post :
    rel H (leaf_circuit i) post -> is_dummy_pb (leaf_public_inputs i) = true ->
    (is_dummy_stmt i = true /\ li_out1 i = 0 /\ li_out2 i = 0) \/
    (is_dummy_stmt i = false /\ (li_out1 i <> 0 \/ li_out2 i <> 0) /\
     zero_hash_preimage_found H (header_preimage i)).
  Proof.
    intros R D. rewrite (is_dummy_pb_leaf i W) in D. apply negb_true_iff in D.
    unfold real_leaf in D. apply negb_false_iff, list_eqb_spec in D.
    pose proof (is_dummy_stmt_spec i (proj1 (wfi_block_hash i W))) as S.
    destruct (is_dummy_stmt i) eqn:Ds.
    - left. destruct (proj1 S eq_refl) as (_ & O1 & O2). auto.
    - right. split; [reflexivity|]. split.
      + destruct (Z.eq_dec (li_out1 i) 0) as [E1|N1]; [|left; exact N1].
        destruct (Z.eq_dec (li_out2 i) 0) as [E2|N2]; [|right; exact N2].
        exfalso. assert (X : false = true) by (apply S; auto). discriminate X.
      + destruct (bindings_enforced H Hwf i W post R Ds) as (_ & B & _).
        unfold zero_hash_preimage_found. rewrite <- B. exact D.
  Qed.

  (* if the hash never returns the zero digest the two notions coincide on accepted statements *)
  Corollary dummy_notions_agree post :
    (forall l, H l <> zero4) -> rel H (leaf_circuit i) post ->
    is_dummy_pb (leaf_public_inputs i) = is_dummy_stmt i.
  Proof.
    intros NZ R. destruct (is_dummy_pb (leaf_public_inputs i)) eqn:D.
    - destruct (wrapper_dummy_bridge post R D) as [(Ds & _)|(_ & _ & Z0)]; [symmetry; exact Ds|].
      exfalso. exact (NZ _ Z0).
    - symmetry. exact (wrapper_real_is_leaf_real D).
  Qed.
End LeafBridge.

(* ================================================================ 2./3./5. leaves + private batch *)
Fixpoint real_out_total (is : list LeafIn) : Z :=
  match is with
  | [] => 0
  | i :: r => (if real_leaf i then li_out1 i + li_out2 i else 0) + real_out_total r
  end.
Fixpoint real_in_total (is : list LeafIn) : Z :=
  match is with
  | [] => 0
  | i :: r => (if real_leaf i then li_input_amount i else 0) + real_in_total r
  end.
Fixpoint real_net_deposits (is : list LeafIn) : Z :=
  match is with
  | [] => 0
  | i :: r => (if real_leaf i then li_input_amount i * (10000 - li_fee i) else 0) + real_net_deposits r
  end.

Lemma real_out_total_app a b : real_out_total (a ++ b) = real_out_total a + real_out_total b.
Proof. induction a as [|i a IH]; cbn [app real_out_total]; [reflexivity|]. rewrite IH. lia. Qed.
Lemma real_in_total_app a b : real_in_total (a ++ b) = real_in_total a + real_in_total b.
Proof. induction a as [|i a IH]; cbn [app real_in_total]; [reflexivity|]. rewrite IH. lia. Qed.
Lemma real_net_deposits_app a b : real_net_deposits (a ++ b) = real_net_deposits a + real_net_deposits b.
Proof. induction a as [|i a IH]; cbn [app real_net_deposits]; [reflexivity|]. rewrite IH. lia. Qed.

Lemma inputExitTotal_leaves is : Forall wf_in is ->
  inputExitTotal (map leaf_public_inputs is) = real_out_total is.
Proof.
  induction 1 as [|i r W F IH]; cbn [map inputExitTotal real_out_total]; [reflexivity|].
  rewrite IH, (is_dummy_pb_leaf i W). destruct (leaf_pis_fields i W) as (_ & E1 & E2 & _).
  rewrite E1, E2. destruct (real_leaf i); reflexivity.
Qed.

(* a common fee factors out of the net deposits *)
Lemma real_net_common_fee f is : (forall i, In i is -> real_leaf i = true -> li_fee i = f) ->
  real_net_deposits is = (10000 - f) * real_in_total is.
Proof.
  induction is as [|i r IH]; intros C; cbn [real_net_deposits real_in_total]; [lia|].
  rewrite IH by (intros j Ij; apply C; right; exact Ij).
  destruct (real_leaf i) eqn:R; [|lia]. rewrite (C i (or_introl eq_refl) R). lia.
Qed.

(* the digests of the nullifier region of a private-batch output over n slots *)
Definition out_nullifiers (n : nat) (out : list Z) : list (list Z) :=
  chunk4 (firstn (4 * n) (skipn (8 + 10 * n) out)).

Definition nullifier_of (H : list Z -> list Z) (i : LeafIn) : list Z :=
  H (H (NULLIFIER_SALT_FELTS ++ li_null_secret i ++ li_null_tc i)).
(* the nullifier the batch publishes for slot (i, u) *)
Definition slot_nullifier (H : list Z -> list Z) (iu : LeafIn * list Z) : list Z :=
  if real_leaf (fst iu) then nullifier_of H (fst iu) else H (H (snd iu)).

(* the (secret, count) behind leaf i's nullifier are those of a deposit leaf
   (account = H(H(salt ++ secret)), count, asset, amount) proven, by the Merkle path of the assignment, in the
   tree whose root is hashed into the header of the block with hash [bh] *)
Definition deposit_bound (H : list Z -> list Z) (i : LeafIn) (bh : list Z) : Prop :=
  li_to_account i = H (H (UNSPENDABLE_SALT_FELTS ++ li_null_secret i)) /\
  li_tree_root i =
    fold_insert H (H (li_to_account i ++ li_null_tc i ++ [li_asset i; li_input_amount i]))
                (firstn (Z.to_nat (li_depth i)) (combine (li_siblings i) (li_positions i))) /\
  bh = H (li_parent_hash i ++ [li_block_number i] ++ li_state_root i ++ li_extrinsics_root i
          ++ li_tree_root i ++ li_digest i) /\
  li_block_hash i = bh.

Lemma combine_map_l {A B C} (f : A -> B) (l : list A) : forall (l' : list C),
  combine (map f l) l' = map (fun x => (f (fst x), snd x)) (combine l l').
Proof. induction l as [|a l IH]; intros [|c l']; cbn [map combine fst snd]; try reflexivity. rewrite IH. reflexivity. Qed.

Lemma perm_combine_fst {A B} (l l2 : list A) (l' l2' : list B) :
  length l' = length l -> length l2' = length l2 ->
  Permutation (combine l l') (combine l2 l2') -> Permutation l l2.
Proof.
  intros L L2 P. rewrite <- (map_fst_combine l l' L), <- (map_fst_combine l2 l2' L2).
  apply Permutation_map, P.
Qed.

Lemma header_preimage_bn i : wf_in i -> nth 4 (header_preimage i) 0 = li_block_number i.
Proof.
  intros W. destruct (len4_inv _ (proj1 (wfi_parent_hash i W))) as (a & b & c & d & E).
  unfold header_preimage. rewrite E. reflexivity.
Qed.

(* header fields of the private-batch output *)
Lemma priv_output_fields H leaves us fee bh bn : Forall leaf_fields leaves -> ref_header leaves = (fee, bh, bn) ->
  nth 1 (priv_output H leaves us) 0 = lf_asset (nth 0 leaves []) /\
  nth 2 (priv_output H leaves us) 0 = fee /\
  firstn 4 (skipn 3 (priv_output H leaves us)) = bh /\
  nth 7 (priv_output H leaves us) 0 = bn.
Proof.
  intros F RH. destruct (ref_header_good leaves fee bh bn F RH) as ((L & _) & _).
  destruct (len4_inv _ L) as (a & b & c & d & E). subst bh.
  unfold priv_output. rewrite RH. cbv zeta. repeat split; reflexivity.
Qed.

Lemma compat_real_ref leaves fee bh bn q : priv_compat leaves = true -> ref_header leaves = (fee, bh, bn) ->
  In q leaves -> is_dummy_pb q = false ->
  lf_asset q = lf_asset (nth 0 leaves []) /\ lf_fee q = fee /\ lf_bh q = bh.
Proof.
  unfold priv_compat. intros C RH I D. rewrite RH in C.
  rewrite !andb_true_iff in C. destruct C as (((A & B) & _) & _).
  rewrite forallb_forall in A, B. specialize (A q I). specialize (B q I). rewrite D in B. cbn [orb] in B.
  apply andb_true_iff in B. destruct B as (B1 & B2).
  apply Z.eqb_eq in A. apply Z.eqb_eq in B2. apply list_eqb_spec in B1. auto.
Qed.

Lemma fee_rule_sum H l : (forall i, In i l -> leaf_ok H i) -> 10000 * real_out_total l <= real_net_deposits l.
Proof.
  induction l as [|i r IH]; intros Ok; cbn [real_out_total real_net_deposits]; [lia|].
  assert (IHr : 10000 * real_out_total r <= real_net_deposits r) by (apply IH; intros j Ij; apply Ok; right; exact Ij).
  destruct (real_leaf i); [|lia].
  destruct (Ok i (or_introl eq_refl)) as (_ & (_ & Rule) & _). lia.
Qed.

(* ---- the conclusions of 2, 3 and 4 as named statements (reused for the full circuits in section 6) *)
(* 2: what every accepted private-batch output [out] over the leaf assignments [is] says about value *)
Definition value_statement (is : list LeafIn) (out : list Z) : Prop :=
  let slots := out_exit_slots (length is) out in
  slotsTotal slots = real_out_total is /\
  Forall (fun s => 0 <= fst s < two32) slots /\
  (forall i, In i is -> real_leaf i = true ->
     li_asset i = nth 1 out 0 /\ li_fee i = nth 2 out 0 /\ li_block_hash i = firstn 4 (skipn 3 out)) /\
  nth 2 out 0 <= 10000 /\
  10000 * slotsTotal slots <= real_net_deposits is /\
  real_net_deposits is = (10000 - nth 2 out 0) * real_in_total is.

(* 3: ... about nullifiers *)
Definition nullifier_statement (H : list Z -> list Z) (is : list LeafIn) (us : list (list Z)) (out : list Z) : Prop :=
  let nulls := out_nullifiers (length is) out in
  Permutation nulls (map (slot_nullifier H) (combine is us)) /\
  StronglySorted digest_le nulls /\
  (forall d, In d nulls ->
     (exists i, In i is /\ real_leaf i = true /\
                d = H (H (NULLIFIER_SALT_FELTS ++ li_null_secret i ++ li_null_tc i)) /\
                deposit_bound H i (firstn 4 (skipn 3 out))) \/
     (exists i u, In (i, u) (combine is us) /\ real_leaf i = false /\ d = H (H u))) /\
  NoDup (map (fun i => H (H (NULLIFIER_SALT_FELTS ++ li_null_secret i ++ li_null_tc i))) (filter real_leaf is)).

(* 4: what every accepted public-batch output [pout] over M private batches of n slots says about value;
   [leaves] = all leaf assignments of all batches *)
Definition two_layer_statement (n M : Z) (leaves : list LeafIn) (pout : list Z) : Prop :=
  let total := zsum (map (fun k => nth (12 + 5 * k) pout 0) (seq 0 (Z.to_nat (2 * n * M)))) in
  total = real_out_total leaves /\
  (forall i, In i leaves -> real_leaf i = true ->
     li_asset i = nth 4 pout 0 /\ li_fee i = nth 5 pout 0 /\ li_block_hash i = firstn 4 (skipn 6 pout)) /\
  nth 5 pout 0 <= 10000 /\
  10000 * total <= real_net_deposits leaves /\
  real_net_deposits leaves = (10000 - nth 5 pout 0) * real_in_total leaves.

Section Private.
  Variable H : list Z -> list Z.
  Hypothesis Hwf : hash_wf H.
  Variables (is : list LeafIn) (us : list (list Z)) (out : list Z).
  Hypothesis Hn : (1 <= length is <= 64)%nat.
  Hypothesis Wis : Forall wf_in is.
  Hypothesis Ris : Forall (fun i => rel H (leaf_circuit i) (fun _ => True)) is.
  Hypothesis Hus : length us = length is.
  Hypothesis Rb : rel H (private_batch (map leaf_public_inputs is) us) (fun o => o = out).

  Let leaves := map leaf_public_inputs is.

  Lemma leaves_wf : Forall leaf_wf leaves.
  Proof.
    unfold leaves. apply Forall_forall. intros q I. apply in_map_iff in I. destruct I as (i & <- & Ii).
    pose proof (proj1 (Forall_forall _ _) Wis i Ii) as W. pose proof (proj1 (Forall_forall _ _) Ris i Ii) as R.
    exact (leaf_sat_implies_leaf_wf H Hwf i W _ R).
  Qed.
  Let F : Forall leaf_fields leaves := leaf_wf_fields_all leaves leaves_wf.
  Let Ln : (1 <= length leaves <= 64)%nat.
  Proof. unfold leaves. rewrite map_length. exact Hn. Qed.
  Let Lu : length us = length leaves.
  Proof. unfold leaves. rewrite map_length. exact Hus. Qed.

  Lemma batch_output : out = priv_output H leaves us /\ priv_compat leaves = true.
  Proof.
    pose proof (proj1 (private_batch_spec H Hwf leaves us Ln leaves_wf Lu _) Rb) as (C & E).
    split; [symmetry; exact E|exact C].
  Qed.

  Lemma leaf_ok_in i : In i is -> wf_in i /\ leaf_ok H i.
  Proof.
    intros I. pose proof (proj1 (Forall_forall _ _) Wis i I) as W. pose proof (proj1 (Forall_forall _ _) Ris i I) as R.
    split; [exact W|]. exact (leaf_ok_of_rel H Hwf i W _ R).
  Qed.

  (* real slots agree with the header of the output *)
  Lemma real_leaf_header i : In i is -> real_leaf i = true ->
    li_asset i = nth 1 out 0 /\ li_fee i = nth 2 out 0 /\ li_block_hash i = firstn 4 (skipn 3 out).
  Proof.
    intros I R. destruct batch_output as (E & C). destruct (leaf_ok_in i I) as (W & _).
    destruct (ref_header leaves) as [[fee bh] bn] eqn:RH.
    destruct (priv_output_fields H leaves us fee bh bn F RH) as (Ea & Ef & Eb & _).
    rewrite E, Ea, Ef, Eb.
    assert (Iq : In (leaf_public_inputs i) leaves) by (apply in_map, I).
    assert (D : is_dummy_pb (leaf_public_inputs i) = false) by (rewrite (is_dummy_pb_leaf i W), R; reflexivity).
    destruct (compat_real_ref leaves fee bh bn _ C RH Iq D) as (A1 & A2 & A3).
    destruct (leaf_pis_fields i W) as (Fa & _ & _ & Ff & _ & _ & _ & Fb & _).
    rewrite <- Fa, <- Ff, <- Fb. auto.
  Qed.

  Lemma fee_felt_bound : nth 2 out 0 <= 10000.
  Proof.
    destruct batch_output as (E & C).
    destruct (ref_header leaves) as [[fee bh] bn] eqn:RH.
    destruct (priv_output_fields H leaves us fee bh bn F RH) as (_ & Ef & _).
    rewrite E, Ef. unfold ref_header in RH. destruct (find is_real_pb leaves) as [q|] eqn:Fd.
    - apply find_some in Fd. destruct Fd as (Iq & _). apply in_map_iff in Iq. destruct Iq as (i & <- & Ii).
      destruct (leaf_ok_in i Ii) as (W & (_ & (Fee & _) & _)).
      destruct (leaf_pis_fields i W) as (_ & _ & _ & Ff & _). inversion RH; subst. rewrite Ff. exact Fee.
    - inversion RH; subst. lia.
  Qed.

  (* ---- 2. value *)
  Theorem private_value_bound : value_statement is out.
  Proof.
    destruct batch_output as (E & C). unfold value_statement. cbv zeta.
    assert (Es : out_exit_slots (length is) out = groupExits (maskedChildPairs leaves)).
    { rewrite E. replace (length is) with (length leaves) by (unfold leaves; apply map_length).
      apply (priv_output_exit_slots H leaves us F). }
    assert (Et : slotsTotal (out_exit_slots (length is) out) = real_out_total is).
    { rewrite Es, conservation. apply inputExitTotal_leaves, Wis. }
    split; [exact Et|]. split.
    { rewrite Es. pose proof (group_slots_ok leaves leaves_wf) as G.
      pose proof (priv_compat_sums_ok leaves C) as S. unfold sums_ok in S. rewrite forallb_forall in S.
      rewrite Forall_forall in G. apply Forall_forall. intros s Is. split; [apply (G s Is)|]. apply Z.ltb_lt, S, Is. }
    split; [exact real_leaf_header|]. split; [exact fee_felt_bound|]. split.
    - rewrite Et. apply (fee_rule_sum H). intros i I. apply (leaf_ok_in i I).
    - apply real_net_common_fee. intros i I R. apply (real_leaf_header i I R).
  Qed.

  (* ---- 3. nullifiers *)
  Lemma real_leaf_bound i : In i is -> real_leaf i = true ->
    li_nullifier i = nullifier_of H i /\ deposit_bound H i (firstn 4 (skipn 3 out)).
  Proof.
    intros I R. destruct (leaf_ok_in i I) as (W & _). pose proof (proj1 (Forall_forall _ _) Ris) as Ris'.
    destruct (bindings_enforced H Hwf i W _ (Ris' i I) (real_leaf_not_dummy_stmt i W R))
      as ((B1 & B2 & B3) & B4 & B5).
    destruct (real_leaf_header i I R) as (_ & _ & Eb).
    split; [exact B1|]. unfold deposit_bound. rewrite <- Eb. rewrite B3 in B5.
    split; [exact B2|]. split; [exact B5|]. split; [exact B4|reflexivity].
  Qed.

  Lemma selected_as_slots : forall l us', (forall i, In i l -> In i is) ->
    selected_nullifiers H (map leaf_public_inputs l) us' = map (slot_nullifier H) (combine l us').
  Proof.
    induction l as [|i r IH]; intros [|u ur] Sub; cbn [map combine selected_nullifiers]; try reflexivity.
    rewrite IH by (intros j Ij; apply Sub; right; exact Ij). f_equal.
    destruct (leaf_ok_in i (Sub i (or_introl eq_refl))) as (W & _).
    rewrite (is_dummy_pb_leaf i W). unfold slot_nullifier. cbn [fst snd].
    destruct (real_leaf i) eqn:R; cbn [negb]; [|reflexivity].
    destruct (leaf_pis_fields i W) as (_ & _ & _ & _ & En & _). rewrite En.
    apply (real_leaf_bound i (Sub i (or_introl eq_refl)) R).
  Qed.

  Lemma real_nullifiers_map : forall l, (forall i, In i l -> In i is) ->
    map lf_null (filter is_real_pb (map leaf_public_inputs l)) = map (nullifier_of H) (filter real_leaf l).
  Proof.
    induction l as [|i r IH]; intros Sub; cbn [map filter]; [reflexivity|].
    destruct (leaf_ok_in i (Sub i (or_introl eq_refl))) as (W & _).
    rewrite (is_real_pb_leaf i W). destruct (real_leaf i) eqn:R; cbn [map].
    - rewrite IH by (intros j Ij; apply Sub; right; exact Ij). f_equal.
      destruct (leaf_pis_fields i W) as (_ & _ & _ & _ & En & _). rewrite En.
      apply (real_leaf_bound i (Sub i (or_introl eq_refl)) R).
    - apply IH. intros j Ij. apply Sub. right. exact Ij.
  Qed.

  Lemma out_nullifiers_sorted_selection :
    out_nullifiers (length is) out = sort_spec (selected_nullifiers H leaves us).
  Proof.
    destruct batch_output as (E & _). unfold out_nullifiers.
    replace (length is) with (length leaves) by (unfold leaves; apply map_length).
    rewrite E, (priv_output_null_region H Hwf leaves us F Lu).
    rewrite <- (app_nil_r (concat _)). rewrite chunk4_digests; [apply app_nil_r|].
    pose proof (selected_ok H Hwf leaves leaves_wf us) as G.
    eapply Forall_impl; [|eapply Permutation_Forall; [symmetry; apply sort_spec_perm|exact G]].
    intros d (L & _). exact L.
  Qed.

  Theorem nullifiers_are_bound : nullifier_statement H is us out.
  Proof.
    unfold nullifier_statement. cbv zeta. rewrite out_nullifiers_sorted_selection.
    assert (P : Permutation (sort_spec (selected_nullifiers H leaves us)) (map (slot_nullifier H) (combine is us))).
    { unfold leaves. rewrite <- (selected_as_slots is us (fun i I => I)). apply sort_spec_perm. }
    split; [exact P|]. split; [apply sort_spec_sorted|]. split.
    - intros d Id. apply (Permutation_in _ P) in Id. apply in_map_iff in Id. destruct Id as ([i u] & Ed & Iiu).
      pose proof (in_combine_l _ _ _ _ Iiu) as Ii. unfold slot_nullifier in Ed. cbn [fst snd] in Ed.
      destruct (real_leaf i) eqn:R.
      + left. exists i. split; [exact Ii|]. split; [exact R|]. split; [symmetry; exact Ed|].
        apply (real_leaf_bound i Ii R).
      + right. exists i, u. split; [exact Iiu|]. split; [exact R|symmetry; exact Ed].
    - destruct batch_output as (_ & C). apply priv_compat_iff in C. destruct C as (_ & _ & ND & _).
      unfold leaves in ND. rewrite (real_nullifiers_map is (fun i I => I)) in ND. exact ND.
  Qed.

  (* ---- 5. equal real block hashes have equal block numbers, if H does not collide on the header preimages *)
  Definition header_collision_free : Prop :=
    forall i j, In i is -> In j is -> real_leaf i = true -> real_leaf j = true ->
                H (header_preimage i) = H (header_preimage j) -> header_preimage i = header_preimage j.

  Theorem block_number_consistent : header_collision_free -> bn_determined leaves.
  Proof.
    intros Inj q q' Iq Iq' Rq Rq' E. unfold leaves in Iq, Iq'.
    apply in_map_iff in Iq. destruct Iq as (i & <- & Ii).
    apply in_map_iff in Iq'. destruct Iq' as (j & <- & Ij).
    destruct (leaf_ok_in i Ii) as (Wi & _). destruct (leaf_ok_in j Ij) as (Wj & _).
    rewrite (is_real_pb_leaf i Wi) in Rq. rewrite (is_real_pb_leaf j Wj) in Rq'.
    destruct (leaf_pis_fields i Wi) as (_ & _ & _ & _ & _ & _ & _ & Ebi & Eni).
    destruct (leaf_pis_fields j Wj) as (_ & _ & _ & _ & _ & _ & _ & Ebj & Enj).
    rewrite Ebi, Ebj in E. rewrite Eni, Enj.
    pose proof (proj1 (Forall_forall _ _) Ris) as Ris'.
    destruct (bindings_enforced H Hwf i Wi _ (Ris' i Ii) (real_leaf_not_dummy_stmt i Wi Rq)) as (_ & Bi & _).
    destruct (bindings_enforced H Hwf j Wj _ (Ris' j Ij) (real_leaf_not_dummy_stmt j Wj Rq')) as (_ & Bj & _).
    rewrite Bi, Bj in E. pose proof (Inj i j Ii Ij Rq Rq' E) as Epre.
    rewrite <- (header_preimage_bn i Wi), <- (header_preimage_bn j Wj), Epre. reflexivity.
  Qed.
End Private.

(* ---- corollary of 5: the premise of C09_perm_header is discharged for leaf-accepted batches.  Two batches holding
   the same (leaf assignment, dummy preimage) pairs in different slot orders: the second is accepted too, and
   every satisfying witness of it shows the same 8 header felts, block number included *)
Theorem perm_header_unconditional (H : list Z -> list Z) (is is' : list LeafIn) (us us' : list (list Z)) (out : list Z) :
  hash_wf H -> (1 <= length is <= 64)%nat ->
  Forall wf_in is -> Forall (fun i => rel H (leaf_circuit i) (fun _ => True)) is ->
  length us = length is -> length us' = length is' ->
  Permutation (combine is us) (combine is' us') ->
  header_collision_free H is ->
  rel H (private_batch (map leaf_public_inputs is) us) (fun o => o = out) ->
  (exists out', rel H (private_batch (map leaf_public_inputs is') us') (fun o => o = out')) /\
  (forall out', rel H (private_batch (map leaf_public_inputs is') us') (fun o => o = out') ->
                firstn 8 out' = firstn 8 out).
Proof.
  intros Hwf Hn Wis Ris Hus Hus' P Inj Rb.
  pose proof (perm_combine_fst is is' us us' Hus Hus' P) as Pis.
  set (leaves := map leaf_public_inputs is). set (leaves' := map leaf_public_inputs is').
  assert (Wl : Forall leaf_wf leaves) by exact (leaves_wf H Hwf is Wis Ris).
  assert (Wis' : Forall wf_in is') by exact (Permutation_Forall Pis Wis).
  assert (Ris' : Forall (fun i => rel H (leaf_circuit i) (fun _ => True)) is') by exact (Permutation_Forall Pis Ris).
  assert (Wl' : Forall leaf_wf leaves') by exact (leaves_wf H Hwf is' Wis' Ris').
  assert (Lu : length us = length leaves) by (unfold leaves; rewrite map_length; exact Hus).
  assert (Lu' : length us' = length leaves') by (unfold leaves'; rewrite map_length; exact Hus').
  assert (Ln' : (1 <= length leaves' <= 64)%nat).
  { unfold leaves'. rewrite map_length, <- (Permutation_length Pis). exact Hn. }
  assert (Pl : Permutation (combine leaves us) (combine leaves' us')).
  { unfold leaves, leaves'. rewrite !combine_map_l. apply Permutation_map, P. }
  destruct (batch_output H Hwf is us out Hn Wis Ris Hus Rb) as (E & C). fold leaves in E, C.
  pose proof (perm_compat leaves us leaves' us' Lu Lu' Pl C) as C'.
  pose proof (block_number_consistent H Hwf is Wis Ris Inj) as BN. fold leaves in BN.
  pose proof (perm_header H leaves us leaves' us' Wl Lu Lu' Pl C BN) as PH.
  split.
  - exists (priv_output H leaves' us'). apply (private_batch_spec H Hwf leaves' us' Ln' Wl' Lu'). split; [exact C'|reflexivity].
  - intros out' R'. apply (private_batch_spec H Hwf leaves' us' Ln' Wl' Lu') in R'. destruct R' as (_ & E').
    rewrite <- E', E. symmetry. exact PH.
Qed.

(* ================================================================ 4. two layers *)
(* a private batch: its leaf assignments and its dummy-nullifier preimages *)
Definition batch := (list LeafIn * list (list Z))%type.

(* [o] is the public output of some satisfying witness of the n-slot private-batch wrapper over leaf-accepted
   statements *)
Definition batch_accepted (H : list Z -> list Z) (n : Z) (b : batch) (o : list Z) : Prop :=
  zlen (fst b) = n /\ length (snd b) = length (fst b) /\
  Forall wf_in (fst b) /\ Forall (fun i => rel H (leaf_circuit i) (fun _ => True)) (fst b) /\
  rel H (private_batch (map leaf_public_inputs (fst b)) (snd b)) (fun x => x = o).

Definition all_leaves (batches : list batch) : list LeafIn := concat (map fst batches).

Lemma pub_output_fields n address inners a f bh bn : length address = 4%nat -> length bh = 4%nat ->
  pub_ref inners = (a, f, bh, bn) ->
  nth 4 (pub_output n address inners) 0 = a /\ nth 5 (pub_output n address inners) 0 = f /\
  firstn 4 (skipn 6 (pub_output n address inners)) = bh /\ nth 10 (pub_output n address inners) 0 = bn.
Proof.
  intros La Lb PR. destruct (len4_inv _ La) as (a0 & a1 & a2 & a3 & Ea).
  destruct (len4_inv _ Lb) as (b0 & b1 & b2 & b3 & Eb). subst address bh.
  unfold pub_output. rewrite PR. cbv zeta. repeat split; reflexivity.
Qed.

Lemma pub_compat_real_ref inners a f bh bn q : pub_compat inners = true -> pub_ref inners = (a, f, bh, bn) ->
  In q inners -> is_dummy_inner q = false -> in_asset q = a /\ in_fee q = f /\ in_bh q = bh.
Proof.
  unfold pub_compat. intros C PR I D. rewrite PR in C. rewrite forallb_forall in C. specialize (C q I).
  rewrite D in C. cbn [orb] in C. rewrite !andb_true_iff in C. destruct C as ((A & B) & E).
  apply Z.eqb_eq in A. apply Z.eqb_eq in B. apply list_eqb_spec in E. auto.
Qed.

Lemma zsum_real_out (batches : list batch) :
  zsum (map (fun b => real_out_total (fst b)) batches) = real_out_total (all_leaves batches).
Proof.
  unfold all_leaves. induction batches as [|b r IH]; cbn [map concat zsum fold_right]; [reflexivity|].
  rewrite real_out_total_app. unfold zsum in IH. rewrite IH. reflexivity.
Qed.

Definition groups_of (batches : list batch) : list group :=
  map (fun b : batch => (map leaf_public_inputs (fst b), snd b)) batches.

Section Accepted.
  Variable H : list Z -> list Z.
  Hypothesis Hwf : hash_wf H.
  Variable n : Z.
  Hypothesis Hn : 1 <= n <= 64.

  Lemma batch_len b o : batch_accepted H n b o -> (1 <= length (fst b) <= 64)%nat.
  Proof. intros (L & _). unfold zlen in L. lia. Qed.

  Lemma accepted_group b o : batch_accepted H n b o ->
    o = inner_of H (map leaf_public_inputs (fst b), snd b) /\ group_ok n (map leaf_public_inputs (fst b), snd b).
  Proof.
    intros A. pose proof (batch_len b o A) as Lb. destruct A as (L & Lu & W & R & Rb).
    destruct (batch_output H Hwf (fst b) (snd b) o Lb W R Lu Rb) as (Eo & C).
    split; [exact Eo|]. unfold group_ok.
    change (fst (map leaf_public_inputs (fst b), snd b)) with (map leaf_public_inputs (fst b)).
    change (snd (map leaf_public_inputs (fst b), snd b)) with (snd b).
    split; [unfold zlen in *; rewrite map_length; exact L|].
    split; [rewrite map_length; exact Lu|]. split; [exact (leaves_wf H Hwf (fst b) W R)|].
    apply priv_compat_sums_ok, C.
  Qed.

  Lemma accepted_groups batches outs : Forall2 (batch_accepted H n) batches outs ->
    outs = map (inner_of H) (groups_of batches) /\ Forall (group_ok n) (groups_of batches).
  Proof.
    unfold groups_of. induction 1 as [|b o bs os A F2 IH]; cbn [map]; [split; [reflexivity|constructor]|].
    destruct IH as (E & G). destruct (accepted_group b o A) as (Eo & Go).
    split; [f_equal; [exact Eo|exact E]|]. constructor; [exact Go|exact G].
  Qed.

  Lemma in_batches batches outs : Forall2 (batch_accepted H n) batches outs ->
    forall i, In i (all_leaves batches) ->
    exists b o, In b batches /\ In o outs /\ batch_accepted H n b o /\ In i (fst b).
  Proof.
    unfold all_leaves. induction 1 as [|b o bs os A F2 IH]; cbn [map concat]; [intros i []|].
    intros i I. apply in_app_or in I. destruct I as [I|I].
    - exists b, o. split; [left; reflexivity|]. split; [left; reflexivity|]. split; [exact A|exact I].
    - destruct (IH i I) as (b' & o' & Ib & Io & A' & Ii). exists b', o'.
      split; [right; exact Ib|]. split; [right; exact Io|]. split; [exact A'|exact Ii].
  Qed.

  Lemma in_outs batches outs : Forall2 (batch_accepted H n) batches outs ->
    forall o, In o outs -> exists b, batch_accepted H n b o.
  Proof.
    induction 1 as [|b o bs os A F2 IH]; [intros o []|]. intros o' [<-|I]; [exists b; exact A|exact (IH o' I)].
  Qed.

  Lemma exit_totals batches outs : Forall2 (batch_accepted H n) batches outs ->
    map (fun g : list (list Z) * list (list Z) => inputExitTotal (fst g)) (groups_of batches) = map (fun b : batch => real_out_total (fst b)) batches.
  Proof.
    unfold groups_of. induction 1 as [|b o bs os A F2 IH]; cbn [map]; [reflexivity|]. f_equal; [|exact IH].
    cbn [fst]. destruct A as (_ & _ & W & _). apply inputExitTotal_leaves, W.
  Qed.

  Lemma fee_rule_all batches outs : Forall2 (batch_accepted H n) batches outs ->
    10000 * real_out_total (all_leaves batches) <= real_net_deposits (all_leaves batches).
  Proof.
    unfold all_leaves. induction 1 as [|b o bs os A F2 IH]; cbn [map concat real_out_total real_net_deposits]; [lia|].
    rewrite real_out_total_app, real_net_deposits_app.
    pose proof (batch_len b o A) as Lb. destruct A as (L & Lu & W & Rl & Rb).
    pose proof (fee_rule_sum H (fst b) (fun i I => proj2 (leaf_ok_in H Hwf (fst b) W Rl i I))). lia.
  Qed.
End Accepted.

Section Public.
  Variable H : list Z -> list Z.
  Hypothesis Hwf : hash_wf H.
  Variable n : Z.
  Hypothesis Hn : 1 <= n <= 64.
  Variables (batches : list batch) (outs : list (list Z)) (address pout : list Z).
  Hypothesis Hb : Forall2 (batch_accepted H n) batches outs.
  Hypothesis La : length address = 4%nat.
  Hypothesis Rp : rel H (public_batch n address outs) (fun o => o = pout).

  Lemma public_output : pout = pub_output n address outs /\ pub_compat outs = true /\ Forall (inner_wf n) outs.
  Proof.
    destruct (accepted_groups H Hwf n Hn batches outs Hb) as (E & G).
    assert (Fi : Forall (inner_wf n) outs).
    { rewrite E. apply (inners_wf H Hwf n); [unfold p; lia|exact G]. }
    pose proof (proj1 (public_batch_spec H n (proj1 Hn) address outs Fi _) Rp) as (C & Eo).
    split; [symmetry; exact Eo|]. split; [exact C|exact Fi].
  Qed.

  (* every real leaf of every batch agrees with the header of the public output *)
  Lemma real_leaf_public_header i : In i (all_leaves batches) -> real_leaf i = true ->
    li_asset i = nth 4 pout 0 /\ li_fee i = nth 5 pout 0 /\ li_block_hash i = firstn 4 (skipn 6 pout).
  Proof.
    intros I R. destruct (in_batches H n batches outs Hb i I) as (b & o & Ib & Io & A & Ii).
    pose proof (batch_len H n Hn b o A) as Lb. destruct A as (L & Lu & W & Rl & Rb).
    destruct (real_leaf_header H Hwf (fst b) (snd b) o Lb W Rl Lu Rb i Ii R) as (Ea & Ef & Eh).
    destruct public_output as (Ep & C & Fi).
    destruct (pub_ref outs) as [[[a f] bh] bn] eqn:PR.
    assert (Lh : length (li_block_hash i) = 4%nat).
    { rewrite Forall_forall in W. exact (proj1 (wfi_block_hash i (W i Ii))). }
    assert (D : is_dummy_inner o = false).
    { unfold is_dummy_inner. change (in_bh o) with (firstn 4 (skipn 3 o)). rewrite <- Eh.
      unfold real_leaf in R. apply negb_true_iff in R. exact R. }
    destruct (pub_compat_real_ref outs a f bh bn o C PR Io D) as (Xa & Xf & Xh).
    assert (Lbh : length bh = 4%nat).
    { rewrite <- Xh. change (in_bh o) with (firstn 4 (skipn 3 o)). rewrite <- Eh. exact Lh. }
    destruct (pub_output_fields n address outs a f bh bn La Lbh PR) as (Pa & Pf & Ph & _).
    rewrite Ep, Pa, Pf, Ph, <- Xa, <- Xf, <- Xh.
    change (in_asset o) with (nth 1 o 0). change (in_fee o) with (nth 2 o 0).
    change (in_bh o) with (firstn 4 (skipn 3 o)). auto.
  Qed.

  Lemma public_fee_bound : nth 5 pout 0 <= 10000.
  Proof.
    destruct public_output as (Ep & C & Fi).
    destruct (find is_real_inner outs) as [q|] eqn:Fd.
    - assert (PR : pub_ref outs = (in_asset q, in_fee q, in_bh q, in_bn q)) by (unfold pub_ref; rewrite Fd; reflexivity).
      apply find_some in Fd. destruct Fd as (Iq & Rq).
      assert (Wq : inner_wf n q) by (rewrite Forall_forall in Fi; exact (Fi q Iq)).
      assert (Lbh : length (in_bh q) = 4%nat) by (apply (in_bh_length n q); [lia|exact Wq]).
      destruct (pub_output_fields n address outs _ _ _ _ La Lbh PR) as (_ & Pf & _).
      rewrite Ep, Pf. destruct (in_outs H n batches outs Hb q Iq) as (b & A).
      pose proof (batch_len H n Hn b q A) as Lb. destruct A as (L & Lu & W & Rl & Rb).
      exact (fee_felt_bound H Hwf (fst b) (snd b) q Lb W Rl Lu Rb).
    - assert (PR : pub_ref outs = (0, 0, zero4, 0)) by (unfold pub_ref; rewrite Fd; reflexivity).
      destruct (pub_output_fields n address outs 0 0 zero4 0 La eq_refl PR) as (_ & Pf & _).
      rewrite Ep, Pf. lia.
  Qed.

  Theorem two_layers_value : two_layer_statement n (zlen batches) (all_leaves batches) pout.
  Proof.
    unfold two_layer_statement. cbv zeta. destruct public_output as (Ep & C & Fi).
    destruct (accepted_groups H Hwf n Hn batches outs Hb) as (Eo & G).
    assert (Et : zsum (map (fun k => nth (12 + 5 * k) pout 0) (seq 0 (Z.to_nat (2 * n * zlen batches))))
                 = real_out_total (all_leaves batches)).
    { assert (HP : 2 * n < p) by (unfold p; lia).
      destruct (two_layer_value_felts H n address (groups_of batches) Hwf (proj1 Hn) HP La G) as (V & _).
      cbv zeta in V. rewrite <- Eo, <- Ep in V.
      replace (zlen (groups_of batches)) with (zlen batches) in V
        by (unfold groups_of, zlen; rewrite map_length; reflexivity).
      rewrite V, (exit_totals H n batches outs Hb). apply zsum_real_out. }
    split; [exact Et|]. split; [exact real_leaf_public_header|]. split; [exact public_fee_bound|]. split.
    - rewrite Et. exact (fee_rule_all H Hwf n Hn batches outs Hb).
    - apply real_net_common_fee. intros i I R. apply (real_leaf_public_header i I R).
  Qed.
End Public.

(* ---- nullifiers through both layers *)
Definition batch_has_real (b : batch) : bool := existsb real_leaf (fst b).
(* no published nullifier of a real batch is the zero digest (else: a preimage of the zero digest under H) *)
Definition nullifiers_nonzero (H : list Z -> list Z) (batches : list batch) : Prop :=
  forall b iu, In b batches -> batch_has_real b = true -> In iu (combine (fst b) (snd b)) ->
               slot_nullifier H iu <> zero4.

Lemma nullifiers_nonzero_of_hash H batches : (forall l, H l <> zero4) -> nullifiers_nonzero H batches.
Proof. intros NZ b [i u] _ _ _. unfold slot_nullifier, nullifier_of. cbn [fst snd]. destruct (real_leaf i); apply NZ. Qed.

Lemma batch_real_leaves is : Forall wf_in is -> batch_real (map leaf_public_inputs is) = existsb real_leaf is.
Proof.
  unfold batch_real. induction 1 as [|i r W F IH]; cbn [map existsb]; [reflexivity|].
  rewrite IH, (is_real_pb_leaf i W). reflexivity.
Qed.

Lemma deposit_bound_transport H i bh bh' : deposit_bound H i bh -> li_block_hash i = bh' -> deposit_bound H i bh'.
Proof. intros (A & B & C & D) E. unfold deposit_bound. rewrite <- E, D. auto. Qed.

Definition two_layer_nullifier_statement (H : list Z -> list Z) (n : Z) (batches : list batch) (pout : list Z) : Prop :=
  let M := zlen batches in
  let nulls := filter nonzero4 (chunk4 (region pout (12 + 10 * n * M) (4 * n * M))) in
  Permutation nulls
    (concat (map (fun b : batch => map (slot_nullifier H) (combine (fst b) (snd b))) (filter batch_has_real batches))) /\
  (forall d, In d nulls ->
     (exists i, In i (all_leaves batches) /\ real_leaf i = true /\
                d = H (H (NULLIFIER_SALT_FELTS ++ li_null_secret i ++ li_null_tc i)) /\
                deposit_bound H i (firstn 4 (skipn 6 pout))) \/
     (exists b i u, In b batches /\ batch_has_real b = true /\ In (i, u) (combine (fst b) (snd b)) /\
                    real_leaf i = false /\ d = H (H u))).

Section PublicNullifiers.
  Variable H : list Z -> list Z.
  Hypothesis Hwf : hash_wf H.
  Variable n : Z.
  Hypothesis Hn : 1 <= n <= 64.

  Lemma group_selected_slots b o : batch_accepted H n b o ->
    group_selected H (map leaf_public_inputs (fst b), snd b) = map (slot_nullifier H) (combine (fst b) (snd b)) /\
    batch_real (map leaf_public_inputs (fst b)) = batch_has_real b.
  Proof.
    intros A. pose proof (batch_len H n Hn b o A) as Lb. destruct A as (L & Lu & W & Rl & Rb).
    split; [|exact (batch_real_leaves (fst b) W)].
    unfold group_selected. cbn [fst snd].
    exact (selected_as_slots H Hwf (fst b) (snd b) o Lb W Rl Lu Rb (fst b) (snd b) (fun i I => I)).
  Qed.

  Lemma real_groups_selected batches outs : Forall2 (batch_accepted H n) batches outs ->
    concat (map (group_selected H) (filter (fun g : list (list Z) * list (list Z) => batch_real (fst g)) (groups_of batches)))
    = concat (map (fun b : batch => map (slot_nullifier H) (combine (fst b) (snd b))) (filter batch_has_real batches)).
  Proof.
    unfold groups_of. induction 1 as [|b o bs os A F2 IH]; cbn [map filter]; [reflexivity|].
    destruct (group_selected_slots b o A) as (E1 & E2). cbn [fst]. rewrite E2.
    destruct (batch_has_real b); cbn [map concat]; [rewrite E1, IH; reflexivity|exact IH].
  Qed.

  Lemma nonzero_premise batches outs : Forall2 (batch_accepted H n) batches outs -> nullifiers_nonzero H batches ->
    Forall (fun g : list (list Z) * list (list Z) => batch_real (fst g) = true ->
                     Forall (fun d => d <> zero4) (group_selected H g)) (groups_of batches).
  Proof.
    unfold groups_of. intros F2. induction F2 as [|b o bs os A F2 IH]; intros NZ; cbn [map]; constructor.
    - destruct (group_selected_slots b o A) as (E1 & E2). cbn [fst]. rewrite E1, E2. intros R.
      apply Forall_forall. intros d Id. apply in_map_iff in Id. destruct Id as (iu & <- & Iiu).
      exact (NZ b iu (or_introl eq_refl) R Iiu).
    - apply IH. intros b' iu Ib. apply NZ. right. exact Ib.
  Qed.

  Variables (batches : list batch) (outs : list (list Z)) (address pout : list Z).
  Hypothesis Hb : Forall2 (batch_accepted H n) batches outs.
  Hypothesis La : length address = 4%nat.
  Hypothesis Rp : rel H (public_batch n address outs) (fun o => o = pout).
  Hypothesis NZ : nullifiers_nonzero H batches.

  Theorem two_layers_nullifiers : two_layer_nullifier_statement H n batches pout.
  Proof.
    unfold two_layer_nullifier_statement. cbv zeta.
    destruct (public_output H Hwf n Hn batches outs address pout Hb La Rp) as (Ep & _ & _).
    destruct (accepted_groups H Hwf n Hn batches outs Hb) as (Eo & G).
    assert (HP : 2 * n < p) by (unfold p; lia).
    destruct (two_layer_nullifiers H Hwf n (proj1 Hn) HP address (groups_of batches) La G) as (_ & P).
    cbv zeta in P. rewrite <- Eo, <- Ep in P.
    replace (zlen (groups_of batches)) with (zlen batches) in P
      by (unfold groups_of, zlen; rewrite map_length; reflexivity).
    specialize (P (nonzero_premise batches outs Hb NZ)). rewrite (real_groups_selected batches outs Hb) in P.
    split; [exact P|]. intros d Id. apply (Permutation_in _ P) in Id.
    apply in_concat in Id. destruct Id as (l & Il & Idl). apply in_map_iff in Il. destruct Il as (b & <- & Ib).
    apply filter_In in Ib. destruct Ib as (Ib & Rb'). apply in_map_iff in Idl. destruct Idl as ([i u] & Ed & Iiu).
    unfold slot_nullifier in Ed. cbn [fst snd] in Ed. pose proof (in_combine_l _ _ _ _ Iiu) as Ii.
    destruct (real_leaf i) eqn:R.
    - left. exists i.
      assert (Ia : In i (all_leaves batches)).
      { unfold all_leaves. apply in_concat. exists (fst b). split; [apply in_map, Ib|exact Ii]. }
      split; [exact Ia|]. split; [exact R|]. split; [symmetry; exact Ed|].
      destruct (in_batches H n batches outs Hb i Ia) as (b' & o' & _ & _ & A' & Ii').
      pose proof (batch_len H n Hn b' o' A') as Lb. destruct A' as (L & Lu & W & Rl & Rbb).
      destruct (real_leaf_bound H Hwf (fst b') (snd b') o' Lb W Rl Lu Rbb i Ii' R) as (_ & DB).
      apply (deposit_bound_transport H i _ _ DB).
      apply (real_leaf_public_header H Hwf n Hn batches outs address pout Hb La Rp i Ia R).
    - right. exists b, i, u. split; [exact Ib|]. split; [exact Rb'|]. split; [exact Iiu|]. split; [exact R|symmetry; exact Ed].
  Qed.
End PublicNullifiers.

Lemma forall2_length {A B} (R : A -> B -> Prop) l l' : Forall2 R l l' -> length l = length l'.
Proof. induction 1 as [|a b l l' _ _ IH]; cbn [length]; [reflexivity|]. rewrite IH. reflexivity. Qed.

(* ================================================================ 6. the full circuits: wrapper + recursive verification *)
Section Full.
  Variables (VK PROOF : Type) (Verify : VK -> list Z -> PROOF -> bool) (H : list Z -> list Z).
  Hypothesis Hwf : hash_wf H.

  (* a satisfying assignment of the leaf circuit (field elements on every target) with these public inputs *)
  Definition leaf_witness (pis : list Z) : Prop :=
    exists i, wf_in i /\ leaf_public_inputs i = pis /\ rel H (leaf_circuit i) (fun _ => True).

  (* PREMISE (cryptographic, not proved): knowledge soundness of the proof system for the leaf circuit *)
  Definition leaf_knowledge_sound (leaf_vk : VK) : Prop :=
    forall pis pf, Verify leaf_vk pis pf = true -> leaf_witness pis.

  (* PREMISE: ... and for the n-slot private-batch circuit built over the leaf key *)
  Definition private_batch_knowledge_sound (leaf_vk pb_vk : VK) (n : Z) : Prop :=
    forall pis pf, Verify pb_vk pis pf = true ->
      exists children pre, length pre = length children /\
        private_batch_sat VK PROOF Verify H (mkPB leaf_vk n) children pre pis.

  Lemma extract_leaves leaf_vk : leaf_knowledge_sound leaf_vk -> forall children,
    recursive_verifiers VK PROOF Verify leaf_vk children ->
    exists is, map leaf_public_inputs is = map ch_pis children /\ Forall wf_in is /\
               Forall (fun i => rel H (leaf_circuit i) (fun _ => True)) is.
  Proof.
    intros KS. unfold recursive_verifiers. induction 1 as [|ch r V F IH]; [exists []; repeat split; constructor|].
    destruct IH as (is & E & W & R). destruct (KS _ _ V) as (i & Wi & Ei & Ri).
    exists (i :: is). cbn [map]. split; [f_equal; assumption|]. split; constructor; assumption.
  Qed.

  Lemma sat_accepted leaf_vk n children pre out : leaf_knowledge_sound leaf_vk ->
    length pre = length children ->
    private_batch_sat VK PROOF Verify H (mkPB leaf_vk n) children pre out ->
    exists is, map leaf_public_inputs is = map ch_pis children /\ batch_accepted H n (is, pre) out.
  Proof.
    intros KS Lp (Ln & V & R). cbn [pb_vk pb_n] in Ln, V.
    destruct (extract_leaves leaf_vk KS children V) as (is & E & W & Rl).
    exists is. split; [exact E|]. unfold batch_accepted. cbn [fst snd].
    assert (Ll : length is = length children).
    { rewrite <- (map_length leaf_public_inputs is), E. apply map_length. }
    split; [unfold zlen in *; rewrite Ll; exact Ln|]. split; [rewrite Ll; exact Lp|].
    split; [exact W|]. split; [exact Rl|]. rewrite E. exact R.
  Qed.

  (* ---- 2 and 3 for the full private-batch circuit *)
  Theorem full_private_batch leaf_vk n c children pre out :
    leaf_knowledge_sound leaf_vk ->
    private_batch_new VK leaf_vk 21 n = Ok c ->
    length pre = length children ->
    private_batch_sat VK PROOF Verify H c children pre out ->
    exists is, map leaf_public_inputs is = map ch_pis children /\
               Forall wf_in is /\ Forall (fun i => rel H (leaf_circuit i) (fun _ => True)) is /\
               value_statement is out /\ nullifier_statement H is pre out.
  Proof.
    intros KS New Lp Sat.
    assert (N0 : 0 <= n).
    { destruct (new_keeps_key VK leaf_vk 21 n c New) as (_ & En). destruct Sat as (Ln & _).
      rewrite En in Ln. rewrite <- Ln. apply zlen_nonneg. }
    apply (private_batch_new_iff VK leaf_vk 21 n c N0) in New. destruct New as (Rn & _ & ->).
    change MAX_PROOF_COUNT with 64 in Rn.
    destruct (sat_accepted leaf_vk n children pre out KS Lp Sat) as (is & E & A).
    pose proof (batch_len H n Rn (is, pre) out A) as Lb. destruct A as (L & Lu & W & Rl & Rb). cbn [fst snd] in *.
    exists is. split; [exact E|]. split; [exact W|]. split; [exact Rl|]. split.
    - exact (private_value_bound H Hwf is pre out Lb W Rl Lu Rb).
    - exact (nullifiers_are_bound H Hwf is pre out Lb W Rl Lu Rb).
  Qed.

  (* ---- 4 for the full public-batch circuit over full private-batch circuits *)
  Lemma extract_batches leaf_vk pb_vk n : leaf_knowledge_sound leaf_vk ->
    private_batch_knowledge_sound leaf_vk pb_vk n -> forall children,
    recursive_verifiers VK PROOF Verify pb_vk children ->
    exists batches, Forall2 (batch_accepted H n) batches (map ch_pis children).
  Proof.
    intros KS KSb. unfold recursive_verifiers. induction 1 as [|ch r V F IH]; [exists []; constructor|].
    destruct IH as (bs & F2). destruct (KSb _ _ V) as (children' & pre & Lp & Sat).
    destruct (sat_accepted leaf_vk n children' pre (ch_pis ch) KS Lp Sat) as (is & _ & A).
    exists ((is, pre) :: bs). cbn [map]. constructor; assumption.
  Qed.

  Theorem full_public_batch leaf_vk pb_vk n m cpub address children pout :
    leaf_knowledge_sound leaf_vk -> private_batch_knowledge_sound leaf_vk pb_vk n ->
    0 <= n ->
    public_batch_new VK pb_vk (21 * n + 8) m n = Ok cpub ->
    length address = 4%nat ->
    public_batch_sat VK PROOF Verify H cpub address children pout ->
    exists batches, Forall2 (batch_accepted H n) batches (map ch_pis children) /\
                    two_layer_statement n m (all_leaves batches) pout.
  Proof.
    intros KS KSb N0 New La Sat.
    assert (M0 : 0 <= m).
    { destruct (pub_new_keeps_key VK pb_vk _ m n cpub New) as (_ & Em & _). destruct Sat as (Lm & _).
      rewrite Em in Lm. rewrite <- Lm. apply zlen_nonneg. }
    apply (public_batch_new_iff VK pb_vk _ m n cpub M0 N0) in New. destruct New as (_ & Rn & _ & ->).
    change MAX_PROOF_COUNT with 64 in Rn. destruct Sat as (Lm & V & R). cbn [pub_vk pub_m pub_n] in Lm, V, R.
    destruct (extract_batches leaf_vk pb_vk n KS KSb children V) as (batches & F2).
    exists batches. split; [exact F2|].
    replace m with (zlen batches).
    - exact (two_layers_value H Hwf n Rn batches (map ch_pis children) address pout F2 La R).
    - rewrite <- Lm. unfold zlen. rewrite (forall2_length _ _ _ F2), map_length. reflexivity.
  Qed.
End Full.

(* ================================================================ concrete instances (non-vacuity) *)
Definition e2e_H : list Z -> list Z := LeafProofs.H0.
Definition e2e_real : LeafIn := LeafProofs.ex_real.                               (* in 50, out 40 + 9, fee 10 bps *)
Definition e2e_real2 : LeafIn := ex_build 30 5 10 50 1 1 false None None.         (* same deposit, other outputs *)
Definition e2e_dummy : LeafIn := LeafProofs.ex_dummy.
Definition e2e_is : list LeafIn := [e2e_real; e2e_dummy].
Definition e2e_us : list (list Z) := [[1; 1; 1; 1]; [2; 2; 2; 2]].
Definition e2e_out : list Z := priv_output e2e_H (map leaf_public_inputs e2e_is) e2e_us.

Lemma e2e_H_wf : hash_wf e2e_H. Proof. exact LeafProofs.H0_wf. Qed.

Lemma accepted_by_computation H i : hash_wf H -> wf_inb i = true -> leaf_accepts H i = true ->
  wf_in i /\ rel H (leaf_circuit i) (fun _ => True).
Proof.
  intros Hwf Wb A. pose proof (wf_inb_sound i Wb) as W. split; [exact W|].
  apply (leaf_rel_iff H Hwf i W). split; [|exact I]. apply (leaf_accepts_spec H Hwf i W), A.
Qed.

Lemma e2e_real_ok : wf_in e2e_real /\ rel e2e_H (leaf_circuit e2e_real) (fun _ => True).
Proof. apply accepted_by_computation; [exact e2e_H_wf|(vm_compute; reflexivity)..]. Qed.
Lemma e2e_real2_ok : wf_in e2e_real2 /\ rel e2e_H (leaf_circuit e2e_real2) (fun _ => True).
Proof. apply accepted_by_computation; [exact e2e_H_wf|(vm_compute; reflexivity)..]. Qed.
Lemma e2e_dummy_ok : wf_in e2e_dummy /\ rel e2e_H (leaf_circuit e2e_dummy) (fun _ => True).
Proof. apply accepted_by_computation; [exact e2e_H_wf|(vm_compute; reflexivity)..]. Qed.

Lemma batch_accepted_by_computation H n is us : hash_wf H -> (1 <= length is <= 64)%nat -> zlen is = n ->
  length us = length is -> Forall (fun i => wf_in i /\ rel H (leaf_circuit i) (fun _ => True)) is ->
  priv_compat (map leaf_public_inputs is) = true ->
  batch_accepted H n (is, us) (priv_output H (map leaf_public_inputs is) us).
Proof.
  intros Hwf Ln Lz Lu A C. unfold batch_accepted. cbn [fst snd].
  assert (W : Forall wf_in is) by (eapply Forall_impl; [|exact A]; intros i Hi; apply Hi).
  assert (R : Forall (fun i => rel H (leaf_circuit i) (fun _ => True)) is)
    by (eapply Forall_impl; [|exact A]; intros i Hi; apply Hi).
  split; [exact Lz|]. split; [exact Lu|]. split; [exact W|]. split; [exact R|].
  apply (private_batch_spec H Hwf).
  - rewrite map_length. exact Ln.
  - exact (leaves_wf H Hwf is W R).
  - rewrite map_length. exact Lu.
  - split; [exact C|reflexivity].
Qed.

Lemma e2e_batch_accepted : batch_accepted e2e_H 2 (e2e_is, e2e_us) e2e_out.
Proof.
  apply batch_accepted_by_computation; [exact e2e_H_wf|cbn; lia|reflexivity|reflexivity| |vm_compute; reflexivity].
  exact (Forall_cons _ e2e_real_ok (Forall_cons _ e2e_dummy_ok (Forall_nil _))).
Qed.

Lemma e2e_private_hypotheses :
  hash_wf e2e_H /\ (1 <= length e2e_is <= 64)%nat /\ Forall wf_in e2e_is /\
  Forall (fun i => rel e2e_H (leaf_circuit i) (fun _ => True)) e2e_is /\ length e2e_us = length e2e_is /\
  rel e2e_H (private_batch (map leaf_public_inputs e2e_is) e2e_us) (fun o => o = e2e_out).
Proof.
  destruct e2e_batch_accepted as (_ & Lu & W & R & Rb). cbn [fst snd] in *.
  split; [exact e2e_H_wf|]. split; [cbn; lia|]. auto.
Qed.

Lemma e2e_private_values :
  map real_leaf e2e_is = [true; false] /\
  out_exit_slots 2 e2e_out = [(40, [51; 52; 53; 54]); (9, [61; 62; 63; 64]); (0, zero4); (0, zero4)] /\
  real_out_total e2e_is = 49 /\ real_in_total e2e_is = 50 /\ real_net_deposits e2e_is = 499500 /\
  nth 2 e2e_out 0 = 10 /\
  out_nullifiers 2 e2e_out = [e2e_H (e2e_H [2; 2; 2; 2]); nullifier_of e2e_H e2e_real].
Proof. vm_compute. repeat split; reflexivity. Qed.

(* only one real leaf: collision freedom on the named preimages holds trivially *)
Lemma e2e_collision_free : header_collision_free e2e_H e2e_is.
Proof.
  intros i j Ii Ij Ri Rj _.
  assert (X : forall k, In k e2e_is -> real_leaf k = true -> k = e2e_real).
  { intros k [<-|[<-|[]]] Rk; [reflexivity|]. vm_compute in Rk. discriminate Rk. }
  rewrite (X i Ii Ri), (X j Ij Rj). reflexivity.
Qed.
Lemma e2e_reversed_perm : Permutation (combine e2e_is e2e_us) (combine (rev e2e_is) (rev e2e_us)).
Proof. apply perm_swap. Qed.

(* a hash that returns the zero digest on ONE input: the header preimage of a statement with zero block hash
   and non-zero outputs.  That statement is accepted by the leaf circuit and read as a dummy by the wrapper. *)
Definition e2e_H1 : list Z -> list Z :=
  fun l => if list_eqb l (header_preimage ex_zero_hash_with_output) then zero4 else LeafProofs.H0 l.
Lemma e2e_H1_wf : hash_wf e2e_H1.
Proof.
  intros l. unfold e2e_H1. destruct (list_eqb l _); [|apply LeafProofs.H0_wf].
  split; [reflexivity|]. repeat constructor; unfold canon, p; lia.
Qed.
Lemma e2e_zero_hash_instance :
  hash_wf e2e_H1 /\ wf_in ex_zero_hash_with_output /\
  rel e2e_H1 (leaf_circuit ex_zero_hash_with_output) (fun _ => True) /\
  is_dummy_pb (leaf_public_inputs ex_zero_hash_with_output) = true /\
  is_dummy_stmt ex_zero_hash_with_output = false /\
  zero_hash_preimage_found e2e_H1 (header_preimage ex_zero_hash_with_output).
Proof.
  split; [exact e2e_H1_wf|].
  destruct (accepted_by_computation e2e_H1 ex_zero_hash_with_output e2e_H1_wf) as (W & R); [(vm_compute; reflexivity)..|].
  split; [exact W|]. split; [exact R|]. vm_compute. repeat split; reflexivity.
Qed.
Lemma e2e_leaf_dummy_instance :
  is_dummy_pb (leaf_public_inputs e2e_dummy) = true /\ is_dummy_stmt e2e_dummy = true.
Proof. vm_compute. split; reflexivity. Qed.

(* ---- two layers: N = 2, M = 3 (real + dummy; dummy + real; all dummy) *)
Definition e2e_batches : list batch :=
  [(e2e_is, e2e_us); ([e2e_dummy; e2e_real2], e2e_us); ([e2e_dummy; e2e_dummy], [[3; 3; 3; 3]; [4; 4; 4; 4]])].
Definition e2e_outs : list (list Z) :=
  map (fun b : batch => priv_output e2e_H (map leaf_public_inputs (fst b)) (snd b)) e2e_batches.
Definition e2e_address : list Z := [101; 102; 103; 104].
Definition e2e_pout : list Z := pub_output 2 e2e_address e2e_outs.

Lemma e2e_batches_accepted : Forall2 (batch_accepted e2e_H 2) e2e_batches e2e_outs.
Proof.
  assert (B : forall a b us, wf_in a /\ rel e2e_H (leaf_circuit a) (fun _ => True) ->
                             wf_in b /\ rel e2e_H (leaf_circuit b) (fun _ => True) -> length us = 2%nat ->
                             priv_compat (map leaf_public_inputs [a; b]) = true ->
                             batch_accepted e2e_H 2 ([a; b], us) (priv_output e2e_H (map leaf_public_inputs [a; b]) us)).
  { intros a b us A Bb Lu C. apply batch_accepted_by_computation;
      [exact e2e_H_wf|cbn; lia|reflexivity|exact Lu| |exact C].
    exact (Forall_cons _ A (Forall_cons _ Bb (Forall_nil _))). }
  unfold e2e_batches, e2e_outs. cbn [map fst snd].
  constructor; [apply B; [exact e2e_real_ok|exact e2e_dummy_ok|reflexivity|vm_compute; reflexivity]|].
  constructor; [apply B; [exact e2e_dummy_ok|exact e2e_real2_ok|reflexivity|vm_compute; reflexivity]|].
  constructor; [apply B; [exact e2e_dummy_ok|exact e2e_dummy_ok|reflexivity|vm_compute; reflexivity]|].
  constructor.
Qed.

Lemma e2e_public_hypotheses :
  hash_wf e2e_H /\ 1 <= 2 <= 64 /\ Forall2 (batch_accepted e2e_H 2) e2e_batches e2e_outs /\
  length e2e_address = 4%nat /\
  rel e2e_H (public_batch 2 e2e_address e2e_outs) (fun o => o = e2e_pout).
Proof.
  split; [exact e2e_H_wf|]. split; [lia|]. split; [exact e2e_batches_accepted|]. split; [reflexivity|].
  destruct (accepted_groups e2e_H e2e_H_wf 2 ltac:(lia) _ _ e2e_batches_accepted) as (E & G).
  apply (public_batch_spec e2e_H 2 ltac:(lia)).
  - rewrite E. apply (inners_wf e2e_H e2e_H_wf 2); [unfold p; lia|exact G].
  - split; [vm_compute; reflexivity|reflexivity].
Qed.

Lemma e2e_public_values :
  map (fun k => nth (12 + 5 * k) e2e_pout 0) (seq 0 12) = [40; 9; 0; 0; 0; 0; 30; 5; 0; 0; 0; 0] /\
  real_out_total (all_leaves e2e_batches) = 84 /\ real_in_total (all_leaves e2e_batches) = 100 /\
  real_net_deposits (all_leaves e2e_batches) = 999000 /\ nth 5 e2e_pout 0 = 10.
Proof. vm_compute. repeat split; reflexivity. Qed.

Lemma e2e_H_nonzero : forall l, e2e_H l <> zero4.
Proof. intros l E. unfold e2e_H, LeafProofs.H0, zero4 in E. inversion E. Qed.

(* the nullifier region of the two-layer output.  e2e_real and e2e_real2 spend the SAME deposit (same secret and
   count) in two different private batches: both layers accept, the nullifier is listed twice and the deposit of 50
   is paid out twice (49 + 35).  Uniqueness across private batches is not a circuit property (it is enforced by the
   chain's settled-nullifier set, see public_batch/circuit/circuit_logic.rs); inside one private batch it is (3). *)
Lemma e2e_public_nullifiers :
  nullifiers_nonzero e2e_H e2e_batches /\
  filter nonzero4 (chunk4 (region e2e_pout (12 + 10 * 2 * 3) (4 * 2 * 3)))
  = [e2e_H (e2e_H [2; 2; 2; 2]); nullifier_of e2e_H e2e_real; e2e_H (e2e_H [1; 1; 1; 1]); nullifier_of e2e_H e2e_real2] /\
  nullifier_of e2e_H e2e_real = nullifier_of e2e_H e2e_real2 /\
  real_out_total (all_leaves e2e_batches) = 84 /\ li_input_amount e2e_real = 50.
Proof.
  split; [exact (nullifiers_nonzero_of_hash e2e_H e2e_batches e2e_H_nonzero)|]. vm_compute. repeat split; reflexivity.
Qed.

(* ---- full circuits: a toy proof system in which exactly the statements above have verifying proofs
   (key [true] = leaf circuit, key [false] = 2-slot private-batch circuit); it meets both soundness premises *)
Definition e2e_verify (vk : bool) (pis : list Z) (_ : unit) : bool :=
  if vk then list_eqb pis (leaf_public_inputs e2e_real) || list_eqb pis (leaf_public_inputs e2e_dummy)
  else list_eqb pis e2e_out.
Definition e2e_children : list (@child unit) :=
  [mkChild (leaf_public_inputs e2e_real) tt; mkChild (leaf_public_inputs e2e_dummy) tt].
Definition e2e_pout1 : list Z := pub_output 2 e2e_address [e2e_out].

Lemma e2e_leaf_ks : leaf_knowledge_sound bool unit e2e_verify e2e_H true.
Proof.
  intros pis pf V. unfold e2e_verify in V. apply orb_true_iff in V.
  destruct V as [V|V]; apply list_eqb_spec in V; subst pis.
  - exists e2e_real. split; [apply e2e_real_ok|]. split; [reflexivity|apply e2e_real_ok].
  - exists e2e_dummy. split; [apply e2e_dummy_ok|]. split; [reflexivity|apply e2e_dummy_ok].
Qed.

Lemma e2e_private_sat :
  private_batch_sat bool unit e2e_verify e2e_H (mkPB true 2) e2e_children e2e_us e2e_out.
Proof.
  unfold private_batch_sat. split; [reflexivity|]. split.
  - unfold e2e_children. apply Forall_cons; [|apply Forall_cons; [|apply Forall_nil]];
      cbn [pb_vk ch_pis ch_proof]; unfold e2e_verify; rewrite list_eqb_refl, ?orb_true_r; reflexivity.
  - exact (proj2 (proj2 (proj2 (proj2 (proj2 e2e_private_hypotheses))))).
Qed.

Lemma e2e_pb_ks : private_batch_knowledge_sound bool unit e2e_verify e2e_H true false 2.
Proof.
  intros pis pf V. unfold e2e_verify in V. apply list_eqb_spec in V. subst pis.
  exists e2e_children, e2e_us. split; [reflexivity|exact e2e_private_sat].
Qed.

Lemma e2e_full_private_hypotheses :
  hash_wf e2e_H /\ leaf_knowledge_sound bool unit e2e_verify e2e_H true /\
  private_batch_new bool true 21 2 = Ok (mkPB true 2) /\ length e2e_us = length e2e_children /\
  private_batch_sat bool unit e2e_verify e2e_H (mkPB true 2) e2e_children e2e_us e2e_out.
Proof.
  split; [exact e2e_H_wf|]. split; [exact e2e_leaf_ks|]. split; [reflexivity|]. split; [reflexivity|exact e2e_private_sat].
Qed.

Lemma e2e_full_public_hypotheses :
  private_batch_knowledge_sound bool unit e2e_verify e2e_H true false 2 /\
  public_batch_new bool false (21 * 2 + 8) 1 2 = Ok (mkPUB false 1 2) /\ length e2e_address = 4%nat /\
  public_batch_sat bool unit e2e_verify e2e_H (mkPUB false 1 2) e2e_address [mkChild e2e_out tt] e2e_pout1.
Proof.
  split; [exact e2e_pb_ks|]. split; [reflexivity|]. split; [reflexivity|].
  unfold public_batch_sat. split; [reflexivity|]. split.
  - apply Forall_cons; [|apply Forall_nil]. cbn [pub_vk ch_pis ch_proof]. unfold e2e_verify. apply list_eqb_refl.
  - cbn [pub_n map ch_pis].
    assert (F2 : Forall2 (batch_accepted e2e_H 2) [(e2e_is, e2e_us)] [e2e_out])
      by (constructor; [exact e2e_batch_accepted|constructor]).
    destruct (accepted_groups e2e_H e2e_H_wf 2 ltac:(lia) _ _ F2) as (E & G).
    apply (public_batch_spec e2e_H 2 ltac:(lia)).
    + rewrite E. apply (inners_wf e2e_H e2e_H_wf 2); [unfold p; lia|exact G].
    + split; [vm_compute; reflexivity|reflexivity].
Qed.
