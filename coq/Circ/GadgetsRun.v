(* Entry points of the gadget models for the correspondence runs (C30, C31, C10). No proofs. *)
From Coq Require Import ZArith List Bool.
From V.Base Require Import Common.
From V.Circ Require Import Field Core Prims Gadgets.
Import ListNotations.
Open Scope Z_scope.

Definition noH : list Z -> list Z := fun _ => [].

Definition enc_hon_z (r : option Z) : list Z := match r with Some v => [1; v] | None => [0] end.
Definition enc_hon_unit (r : option unit) : list Z := match r with Some _ => [1] | None => [0] end.
Definition enc_hon_digests (r : option (list (list Z))) : list Z :=
  match r with Some ds => 1 :: concat ds | None => [0] end.

Definition seg (args : list (list Z)) (i : nat) : list Z := nth i args [].
Definition arg (args : list (list Z)) (i j : nat) : Z := nth j (seg args i) 0.

(* override segments: [kind; occurrence; values...]  kind 1 = EqualityGenerator, 2 = LowHighGenerator,
   3 = BaseSplitGenerator (bits of the i-th split_le) *)
Fixpoint ovr_of_segs (segs : list (list Z)) : overrides :=
  match segs with
  | [] => mkOvr [] [] []
  | (kind :: occ :: vals) :: r =>
      let o := ovr_of_segs r in
      if kind =? 1 then mkOvr ((occ, vals) :: o_eq o) (o_lh o) (o_sp o)
      else if kind =? 2 then mkOvr (o_eq o) ((occ, vals) :: o_lh o) (o_sp o)
      else mkOvr (o_eq o) (o_lh o) ((occ, vals) :: o_sp o)
  | _ :: r => ovr_of_segs r
  end.

(* drop the widths from a trace: 1 = is_equal, 2 = split_le, 3 = low/high pair *)
Fixpoint trace_kinds (t : list Z) : list Z :=
  match t with
  | 2 :: _ :: r => 2 :: trace_kinds r
  | x :: r => x :: trace_kinds r
  | [] => []
  end.

Definition dispatch (fid : Z) (args : list (list Z)) : list Z :=
  if fid =? 3001 then
    enc_hon_z (hon noH (is_const_less_than (arg args 0 1) (arg args 0 2) (Z.to_nat (arg args 0 0))))
  else if fid =? 3002 then
    enc_hon_unit (hon noH (enforce_target_less_than_const (arg args 0 2) (arg args 0 1) (Z.to_nat (arg args 0 0))))
  else if fid =? 3003 then
    enc_hon_z (ovr noH (ovr_of_segs (tl args))
                   (is_const_less_than (arg args 0 1) (arg args 0 2) (Z.to_nat (arg args 0 0))) 0 0 0)
  else if fid =? 3004 then
    enc_hon_z (hon noH (bytes_digest_eq (seg args 0) (seg args 1)))
  else if fid =? 3005 then
    trace_kinds (trace noH (is_const_less_than (arg args 0 1) (arg args 0 2) (Z.to_nat (arg args 0 0))))
  else if fid =? 3101 then
    enc_hon_digests (hon noH (sort_digests4 args))
  else if fid =? 3102 then
    let n := Z.to_nat (arg args 0 0) in
    enc_hon_digests (ovr noH (ovr_of_segs (skipn n (tl args))) (sort_digests4 (firstn n (tl args))) 0 0 0)
  else if fid =? 3105 then
    trace_kinds (trace noH (sort_digests4 args))
  else [-2].
