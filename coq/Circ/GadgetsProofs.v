(* Proofs about the gadgets of common/src/gadgets.rs (model: Gadgets.v).
   For every comparison gadget: the exact set of outputs an adversarial prover can reach ([rel_*]),
   the honest output ([hon_*]) and "no witness freedom" ([refines_*]). *)
From Coq Require Import ZArith Lia List Bool.
From V.Base Require Import Common.
From V.Circ Require Import Field Core Prims Gadgets.
Import ListNotations.
Open Scope Z_scope.
(* mathcomp.zify (loaded through Base/Flt.v) resets the hook; set it again after all imports *)
Ltac Zify.zify_post_hook ::= Z.div_mod_to_equations.

Lemma pow2_32 : 2 ^ Z.of_nat 32 = two32. Proof. reflexivity. Qed.
Lemma pow2_1 : 2 ^ Z.of_nat 1 = 2. Proof. reflexivity. Qed.
Lemma pow2_64 : 2 ^ Z.of_nat 64 = two64. Proof. reflexivity. Qed.

Lemma canon_u32 v : 0 <= v < two32 -> canon v.
Proof. unfold canon, two32, p. lia. Qed.
Lemma canon_max32 : canon (two32 - 1).
Proof. unfold canon, two32, p. lia. Qed.
Lemma u32_mod x : 0 <= x mod two32 < two32.
Proof. unfold two32. lia. Qed.
Lemma u32_div_canon x : canon x -> 0 <= x / two32 < two32.
Proof. unfold canon, two32, p. lia. Qed.
Lemma u32_div_u64 x : 0 <= x < two64 -> 0 <= x / two32 < two32.
Proof. unfold two64, two32. lia. Qed.

Lemma g_not_0 : g_not 0 = 1. Proof. reflexivity. Qed.
Lemma g_not_1 : g_not 1 = 0. Proof. reflexivity. Qed.

(* ---------- lexicographic order on equal-length lists, most significant element first ---------- *)
Fixpoint lex_ltb (a b : list Z) : bool :=
  match a, b with
  | x :: xs, y :: ys => (x <? y) || ((x =? y) && lex_ltb xs ys)
  | _, _ => false
  end.

(* the fold of halves8_lt: pairs least significant first, [acc] = "the less significant part is <" *)
Fixpoint lsf_ltb (ps : list (Z * Z)) (acc : bool) : bool :=
  match ps with
  | [] => acc
  | (l, r) :: rest => lsf_ltb rest ((l <? r) || ((l =? r) && acc))
  end.

Lemma lsf_ltb_app l1 l2 acc : lsf_ltb (l1 ++ l2) acc = lsf_ltb l2 (lsf_ltb l1 acc).
Proof.
  revert acc; induction l1 as [|[l r] l1 IH]; intros acc; cbn [app lsf_ltb]; [reflexivity|apply IH].
Qed.

Lemma lsf_ltb_lex lhs rhs : lsf_ltb (rev (combine lhs rhs)) false = lex_ltb lhs rhs.
Proof.
  revert rhs; induction lhs as [|a lhs IH]; intros [|b rhs]; cbn [combine rev lsf_ltb lex_ltb]; try reflexivity.
  rewrite lsf_ltb_app, IH. reflexivity.
Qed.

Lemma lex_ltb_irrefl a : lex_ltb a a = false.
Proof.
  induction a as [|x a IH]; cbn [lex_ltb]; [reflexivity|].
  rewrite IH, Z.ltb_irrefl, andb_false_r. reflexivity.
Qed.

(* ---------- the bit comparator of is_const_less_than ---------- *)
Definition lt_step (st : Z * Z) (ab : Z * Z) : Z * Z :=
  let '(lt, eq) := st in
  let '(a, b) := ab in
  (g_or lt (g_and (g_and (g_not a) b) eq), g_and eq (g_not (g_xor a b))).
Fixpoint lt_st (pairs : list (Z * Z)) (st : Z * Z) : Z * Z :=
  match pairs with
  | [] => st
  | ab :: r => lt_st r (lt_step st ab)
  end.

Lemma lt_loop_st pairs : forall lt eq, lt_loop pairs lt eq = fst (lt_st pairs (lt, eq)).
Proof.
  induction pairs as [|[a b] r IH]; intros lt eq; cbn [lt_loop lt_st lt_step fst]; [reflexivity|apply IH].
Qed.

Lemma lt_st_app l1 l2 st : lt_st (l1 ++ l2) st = lt_st l2 (lt_st l1 st).
Proof. revert st; induction l1 as [|ab l1 IH]; intros st; cbn [app lt_st]; [reflexivity|apply IH]. Qed.

Lemma lt_step_bits (L E : bool) a b : bitZ a -> bitZ b ->
  lt_step (b2z L, b2z E) (a, b) = (b2z (L || ((a <? b) && E)), b2z (E && (a =? b))).
Proof.
  intros [->| ->] [->| ->]; destruct L, E; reflexivity.
Qed.

Lemma lt_st_spec a_bits : forall b_bits, length a_bits = length b_bits ->
  Forall bitZ a_bits -> Forall bitZ b_bits ->
  lt_st (rev (combine a_bits b_bits)) (0, 1) =
  (b2z (bsum a_bits <? bsum b_bits), b2z (bsum a_bits =? bsum b_bits)).
Proof.
  induction a_bits as [|a ar IH]; intros [|b br] L Fa Fb; cbn [length] in L; try discriminate.
  - reflexivity.
  - inversion Fa as [|? ? Ha Far]; subst. inversion Fb as [|? ? Hb Fbr]; subst.
    cbn [combine rev]. rewrite lt_st_app, (IH br) by (try assumption; lia).
    cbn [lt_st]. rewrite lt_step_bits by assumption. cbn [bsum].
    set (A := bsum ar). set (B := bsum br).
    assert (E1 : (A <? B) || ((a <? b) && (A =? B)) = (a + 2 * A <? b + 2 * B)).
    { unfold bitZ in Ha, Hb.
      destruct (Z.ltb_spec A B), (Z.ltb_spec a b), (Z.eqb_spec A B), (Z.ltb_spec (a + 2 * A) (b + 2 * B));
        cbn [orb andb]; try reflexivity; lia. }
    assert (E2 : (A =? B) && (a =? b) = (a + 2 * A =? b + 2 * B)).
    { unfold bitZ in Ha, Hb.
      destruct (Z.eqb_spec A B), (Z.eqb_spec a b), (Z.eqb_spec (a + 2 * A) (b + 2 * B));
        cbn [orb andb]; try reflexivity; lia. }
    rewrite E1, E2. reflexivity.
Qed.

(* 5. the loop computes the integer comparison of the two bit strings *)
Lemma lt_loop_spec a_bits b_bits : length a_bits = length b_bits ->
  Forall bitZ a_bits -> Forall bitZ b_bits ->
  lt_loop (rev (combine a_bits b_bits)) 0 1 = b2z (bsum a_bits <? bsum b_bits).
Proof.
  intros L Fa Fb. rewrite lt_loop_st, lt_st_spec by assumption. reflexivity.
Qed.

(* ---------- pure arithmetic facts ---------- *)
Lemma split64_solutions x lo hi : canon x -> 0 <= lo < two32 -> 0 <= hi < two32 ->
  x = (hi * two32 + lo) mod p ->
  (lo = x mod two32 /\ hi = x / two32) \/
  (x < two32 - 1 /\ lo = (x + p) mod two32 /\ hi = (x + p) / two32).
Proof. unfold canon, p, two32. intros. lia. Qed.

Lemma canonical_not_wrap x : canon x -> ~ (x / two32 = two32 - 1 /\ x mod two32 <> 0).
Proof. unfold canon, p, two32. intros. lia. Qed.

Lemma alias_wraps x : 0 <= x < two32 - 1 -> (x + p) / two32 = two32 - 1 /\ (x + p) mod two32 <> 0.
Proof. unfold p, two32. intros. lia. Qed.

Lemma wrap_flag lo hi :
  g_and (b2z (hi =? two32 - 1)) (g_not (b2z (lo =? 0))) = 0 <-> ~ (hi = two32 - 1 /\ lo <> 0).
Proof.
  rewrite g_not_b, g_and_b.
  destruct (Z.eqb_spec hi (two32 - 1)), (Z.eqb_spec lo 0); cbn [negb andb b2z]; split; intros; try tauto; try lia.
Qed.

Lemma u64_lt_halves c x : 0 <= c -> 0 <= x ->
  (c / two32 <? x / two32) || ((c / two32 =? x / two32) && (c mod two32 <? x mod two32)) = (c <? x).
Proof.
  unfold two32. intros Hc Hx.
  destruct (Z.ltb_spec (c / 4294967296) (x / 4294967296)),
           (Z.eqb_spec (c / 4294967296) (x / 4294967296)),
           (Z.ltb_spec (c mod 4294967296) (x mod 4294967296)),
           (Z.ltb_spec c x); cbn [orb andb]; try reflexivity; lia.
Qed.

Section GadgetsProofs.
  Variable H : list Z -> list Z.
  Notation rel := (rel H).
  Notation hon := (hon H).
  Notation refines := (refines H).

  Lemma refines_of_rel_hon {A} (c : Circ A) (v : A) :
    (forall post, rel c post <-> post v) -> hon c = Some v -> refines c.
  Proof. intros R E post. rewrite E. apply R. Qed.

  Lemma refines_hon_rel {A} (c : Circ A) (v : A) :
    refines c -> hon c = Some v -> forall post, rel c post <-> post v.
  Proof. intros R E post. rewrite (R post), E. tauto. Qed.

  (* ---------- 1. is_equal ---------- *)
  Lemma rel_is_equal x y post : canon x -> canon y ->
    (rel (is_equal x y) post <-> post (b2z (x =? y))).
  Proof.
    intros Hx Hy. unfold is_equal. rewrite rel_iseq by assumption. cbn [Core.rel]. unfold b2z. tauto.
  Qed.
  Lemma hon_is_equal x y : hon (is_equal x y) = Some (b2z (x =? y)).
  Proof. reflexivity. Qed.
  Lemma refines_is_equal x y : canon x -> canon y -> refines (is_equal x y).
  Proof.
    intros Hx Hy. apply (refines_of_rel_hon _ (b2z (x =? y))); [|apply hon_is_equal].
    intros post. apply rel_is_equal; assumption.
  Qed.

  (* ---------- 2. split_low_high(x, 32, 64): exactly two solutions ---------- *)
  Lemma rel_split_low_high_64 x post : canon x ->
    (rel (split_low_high x 32 64) post <->
     (post (x mod two32, x / two32) \/
      (x < two32 - 1 /\ post ((x + p) mod two32, (x + p) / two32)))).
  Proof.
    intros Hx. rewrite rel_split_low_high by lia.
    change (64 - 32)%nat with 32%nat. rewrite pow2_32. split.
    - intros (lo & hi & Hlo & Hhi & E & Hp).
      destruct (split64_solutions x lo hi Hx Hlo Hhi E) as [[-> ->]|(L & -> & ->)]; [left|right; split]; assumption.
    - intros [Hp|[L Hp]].
      + exists (x mod two32), (x / two32).
        split; [apply u32_mod|]. split; [apply u32_div_canon; exact Hx|]. split; [|exact Hp].
        clear Hp. unfold canon, p, two32 in *. lia.
      + exists ((x + p) mod two32), ((x + p) / two32).
        split; [apply u32_mod|]. split; [clear Hp; unfold canon, p, two32 in *; lia|]. split; [|exact Hp].
        clear Hp. unfold canon, p, two32 in *. lia.
  Qed.

  (* honest low/high generator: exact value whenever the integer fits *)
  Lemma hon_split_low_high_exact x a b : canon x -> (1 <= a)%nat -> (1 <= b - a)%nat ->
    x / 2 ^ Z.of_nat a < 2 ^ Z.of_nat (b - a) ->
    hon (split_low_high x a b) = Some (x mod 2 ^ Z.of_nat a, x / 2 ^ Z.of_nat a).
  Proof.
    intros Hx Ha Hb Hhi. unfold split_low_high. cbn [Core.hon].
    assert (PA : 0 < 2 ^ Z.of_nat a) by (apply Z.pow_pos_nonneg; lia).
    rewrite hon_bind, hon_range_check by assumption.
    destruct (Z.ltb_spec (x mod 2 ^ Z.of_nat a) (2 ^ Z.of_nat a)) as [_|Bad];
      [|pose proof (Z.mod_pos_bound x _ PA); lia].
    rewrite hon_bind, hon_range_check by assumption.
    destruct (Z.ltb_spec (x / 2 ^ Z.of_nat a) (2 ^ Z.of_nat (b - a))) as [_|Bad]; [|lia].
    cbn [Core.hon]. unfold g_mul_add.
    rewrite (Z.mul_comm (x / _)), <- Z.div_mod by lia.
    rewrite Z.mod_small by exact Hx. rewrite Z.eqb_refl. reflexivity.
  Qed.

  Lemma hon_split_low_high_64 x : canon x ->
    hon (split_low_high x 32 64) = Some (x mod two32, x / two32).
  Proof.
    intros Hx. rewrite hon_split_low_high_exact by (try lia; try assumption;
      change (64 - 32)%nat with 32%nat; rewrite pow2_32; apply u32_div_canon; assumption).
    rewrite pow2_32. reflexivity.
  Qed.

  (* ---------- 3. split_canonical_u32_halves: the alias is excluded ---------- *)
  Lemma rel_canonical_tail lo hi post : 0 <= lo < two32 -> 0 <= hi < two32 ->
    (rel (hi_is_max <- is_equal hi (two32 - 1) ;;
          lo_is_zero <- is_equal lo 0 ;;
          Assert (g_and hi_is_max (g_not lo_is_zero)) 0 (Ret (lo, hi))) post
     <-> ~ (hi = two32 - 1 /\ lo <> 0) /\ post (lo, hi)).
  Proof.
    intros Hlo Hhi.
    rewrite rel_bind, rel_is_equal by (try apply canon_u32; try apply canon_max32; assumption).
    rewrite rel_bind, rel_is_equal by (try apply canon_u32; try apply canon_0; assumption).
    cbn [Core.rel]. rewrite wrap_flag. tauto.
  Qed.

  Lemma rel_split_canonical x post : canon x ->
    (rel (split_canonical_u32_halves x) post <-> post (x mod two32, x / two32)).
  Proof.
    intros Hx. unfold split_canonical_u32_halves.
    rewrite rel_bind, rel_split_low_high_64 by assumption. cbv beta iota.
    split.
    - intros [R|[L R]].
      + apply rel_canonical_tail in R; [tauto|apply u32_mod|apply u32_div_canon; assumption].
      + exfalso. apply rel_canonical_tail in R.
        * destruct R as [N _]. apply N. apply alias_wraps. unfold canon in Hx. lia.
        * apply u32_mod.
        * clear R. unfold canon, p, two32 in *. lia.
    - intros Hp. left. apply rel_canonical_tail; [apply u32_mod|apply u32_div_canon; assumption|].
      split; [apply canonical_not_wrap; assumption|exact Hp].
  Qed.

  Lemma hon_split_canonical x : canon x ->
    hon (split_canonical_u32_halves x) = Some (x mod two32, x / two32).
  Proof.
    intros Hx. unfold split_canonical_u32_halves.
    rewrite hon_bind, hon_split_low_high_64 by assumption. cbv beta iota.
    rewrite hon_bind, hon_is_equal. rewrite hon_bind, hon_is_equal. cbn [Core.hon].
    pose proof (proj2 (wrap_flag (x mod two32) (x / two32)) (canonical_not_wrap x Hx)) as E.
    rewrite E. reflexivity.
  Qed.

  Lemma refines_split_canonical x : canon x -> refines (split_canonical_u32_halves x).
  Proof.
    intros Hx. apply (refines_of_rel_hon _ (x mod two32, x / two32)); [|apply hon_split_canonical; assumption].
    intros post. apply rel_split_canonical; assumption.
  Qed.

  (* ---------- 4. u32_lt ---------- *)
  Lemma u32_lt_t x y : 0 <= x < two32 -> 0 <= y < two32 ->
    fsub (fadd x two32) y = x + two32 - y.
  Proof. unfold fsub, fadd, two32, p. intros. lia. Qed.

  Lemma rel_u32_lt x y post : 0 <= x < two32 -> 0 <= y < two32 ->
    (rel (u32_lt x y) post <-> post (b2z (x <? y))).
  Proof.
    intros Hx Hy. unfold u32_lt. rewrite u32_lt_t by assumption.
    rewrite rel_bind, rel_split_low_high by lia.
    change (33 - 32)%nat with 1%nat. rewrite pow2_32, pow2_1. split.
    - intros (lo & hi & Hlo & Hhi & E & Hp). cbn [Core.rel] in Hp.
      assert (Eh : hi = if x <? y then 0 else 1).
      { clear Hp. destruct (Z.ltb_spec x y); unfold two32, p in *; lia. }
      subst hi. destruct (x <? y); [rewrite g_not_0 in Hp|rewrite g_not_1 in Hp]; exact Hp.
    - intros Hp. exists ((x + two32 - y) mod two32), (if x <? y then 0 else 1).
      split; [apply u32_mod|]. split; [destruct (x <? y); lia|].
      split; [destruct (Z.ltb_spec x y); unfold two32, p in *; lia|].
      cbn [Core.rel]. destruct (x <? y); [rewrite g_not_0|rewrite g_not_1]; exact Hp.
  Qed.

  Lemma hon_u32_lt x y : 0 <= x < two32 -> 0 <= y < two32 ->
    hon (u32_lt x y) = Some (b2z (x <? y)).
  Proof.
    intros Hx Hy. unfold u32_lt. rewrite u32_lt_t by assumption.
    rewrite hon_bind, hon_split_low_high_exact.
    - cbn [Core.hon]. rewrite pow2_32. f_equal.
      assert (Eh : (x + two32 - y) / two32 = if x <? y then 0 else 1).
      { destruct (Z.ltb_spec x y); unfold two32 in *; lia. }
      rewrite Eh. destruct (x <? y); reflexivity.
    - unfold canon, two32, p in *. lia.
    - lia.
    - lia.
    - change (33 - 32)%nat with 1%nat. rewrite pow2_32, pow2_1. unfold two32 in *. lia.
  Qed.

  Lemma refines_u32_lt x y : 0 <= x < two32 -> 0 <= y < two32 -> refines (u32_lt x y).
  Proof.
    intros Hx Hy. apply (refines_of_rel_hon _ (b2z (x <? y))); [|apply hon_u32_lt; assumption].
    intros post. apply rel_u32_lt; assumption.
  Qed.

  (* ---------- 11. halves8_lt (any length) ---------- *)
  Definition u32_pair (lr : Z * Z) : Prop := 0 <= fst lr < two32 /\ 0 <= snd lr < two32.

  Lemma rel_halves_lt_loop ps : forall acc post, Forall u32_pair ps ->
    (rel (halves_lt_loop ps (b2z acc)) post <-> post (b2z (lsf_ltb ps acc))).
  Proof.
    induction ps as [|[l r] ps IH]; intros acc post F; cbn [halves_lt_loop lsf_ltb].
    - cbn [Core.rel]. tauto.
    - inversion F as [|? ? [Hl Hr] F']; subst. cbn [fst snd] in Hl, Hr.
      rewrite rel_bind, rel_u32_lt by assumption.
      rewrite rel_bind, rel_is_equal by (apply canon_u32; assumption).
      rewrite g_and_b, g_or_b. apply IH. exact F'.
  Qed.

  Lemma hon_halves_lt_loop ps : forall acc, Forall u32_pair ps ->
    hon (halves_lt_loop ps (b2z acc)) = Some (b2z (lsf_ltb ps acc)).
  Proof.
    induction ps as [|[l r] ps IH]; intros acc F; cbn [halves_lt_loop lsf_ltb].
    - reflexivity.
    - inversion F as [|? ? [Hl Hr] F']; subst. cbn [fst snd] in Hl, Hr.
      rewrite hon_bind, hon_u32_lt by assumption.
      rewrite hon_bind, hon_is_equal.
      rewrite g_and_b, g_or_b. apply IH. exact F'.
  Qed.

  Lemma u32_pairs_combine lhs : forall rhs,
    Forall (fun v => 0 <= v < two32) lhs -> Forall (fun v => 0 <= v < two32) rhs ->
    Forall u32_pair (rev (combine lhs rhs)).
  Proof.
    intros rhs Fl Fr. apply Forall_rev. revert rhs Fr.
    induction Fl as [|a lhs Ha Fl IH]; intros rhs Fr; cbn [combine]; [constructor|].
    destruct Fr as [|b rhs Hb Fr]; constructor; [split; assumption|apply IH; assumption].
  Qed.

  Lemma rel_halves8_lt lhs rhs post : length lhs = length rhs ->
    Forall (fun v => 0 <= v < two32) lhs -> Forall (fun v => 0 <= v < two32) rhs ->
    (rel (halves8_lt lhs rhs) post <-> post (b2z (lex_ltb lhs rhs))).
  Proof.
    intros _ Fl Fr. unfold halves8_lt. change 0 with (b2z false) at 1.
    rewrite rel_halves_lt_loop by (apply u32_pairs_combine; assumption).
    rewrite lsf_ltb_lex. tauto.
  Qed.

  Lemma hon_halves8_lt lhs rhs : length lhs = length rhs ->
    Forall (fun v => 0 <= v < two32) lhs -> Forall (fun v => 0 <= v < two32) rhs ->
    hon (halves8_lt lhs rhs) = Some (b2z (lex_ltb lhs rhs)).
  Proof.
    intros _ Fl Fr. unfold halves8_lt. change 0 with (b2z false) at 1.
    rewrite hon_halves_lt_loop by (apply u32_pairs_combine; assumption).
    rewrite lsf_ltb_lex. reflexivity.
  Qed.

  Lemma refines_halves8_lt lhs rhs : length lhs = length rhs ->
    Forall (fun v => 0 <= v < two32) lhs -> Forall (fun v => 0 <= v < two32) rhs ->
    refines (halves8_lt lhs rhs).
  Proof.
    intros L Fl Fr. apply (refines_of_rel_hon _ (b2z (lex_ltb lhs rhs))); [|apply hon_halves8_lt; assumption].
    intros post. apply rel_halves8_lt; assumption.
  Qed.

  (* ---------- 6. is_const_less_than, widths 1..63 ---------- *)
  Lemma narrow_loop (w : nat) c x : 0 <= c < 2 ^ Z.of_nat w -> 0 <= x < 2 ^ Z.of_nat w ->
    lt_loop (rev (combine (bits_of c w) (bits_of x w))) 0 1 = b2z (c <? x).
  Proof.
    intros Hc Hx. rewrite lt_loop_spec.
    - rewrite !bsum_bits_of by assumption. reflexivity.
    - rewrite !bits_of_length. reflexivity.
    - apply bits_of_bits.
    - apply bits_of_bits.
  Qed.

  Lemma is_const_less_than_narrow_unfold (w : nat) c x : (w <> 64)%nat ->
    is_const_less_than c x w =
    (right_bits <- Split x w (fun bs => Ret bs) ;;
     Ret (lt_loop (rev (combine (bits_of c w) right_bits)) 0 1)).
  Proof.
    intros Hw. unfold is_const_less_than. destruct (Nat.eqb_spec w 64) as [E|_]; [contradiction|reflexivity].
  Qed.

  Lemma rel_is_const_less_than_narrow (w : nat) c x post :
    (1 <= w <= 63)%nat -> 0 <= c < 2 ^ Z.of_nat w -> canon x ->
    (rel (is_const_less_than c x w) post <-> x < 2 ^ Z.of_nat w /\ post (b2z (c <? x))).
  Proof.
    intros Hw Hc Hx. rewrite is_const_less_than_narrow_unfold by lia.
    rewrite rel_bind, rel_split by assumption. cbn [Core.rel].
    split; intros [L R]; (split; [exact L|]);
      [rewrite narrow_loop in R|rewrite narrow_loop]; try exact R; try assumption;
      unfold canon in Hx; lia.
  Qed.

  Lemma hon_is_const_less_than_narrow (w : nat) c x :
    (1 <= w <= 63)%nat -> 0 <= c < 2 ^ Z.of_nat w -> canon x ->
    hon (is_const_less_than c x w) = if x <? 2 ^ Z.of_nat w then Some (b2z (c <? x)) else None.
  Proof.
    intros Hw Hc Hx. rewrite is_const_less_than_narrow_unfold by lia.
    rewrite hon_bind. cbn [Core.hon]. destruct w as [|w']; [lia|].
    destruct (Z.ltb_spec x (2 ^ Z.of_nat (S w'))) as [L|L]; [|reflexivity].
    cbn [Core.hon]. rewrite narrow_loop; [reflexivity|assumption|unfold canon in Hx; lia].
  Qed.

  (* ---------- 7. is_const_less_than, width 64 ---------- *)
  Lemma rel_is_const_less_than_64 c x post : 0 <= c < two64 -> canon x ->
    (rel (is_const_less_than c x 64) post <-> post (b2z (c <? x))).
  Proof.
    intros Hc Hx. change (is_const_less_than c x 64) with (is_const_less_than_canonical_u64 c x).
    unfold is_const_less_than_canonical_u64.
    pose proof (u32_mod x) as Bxl. pose proof (u32_div_canon x Hx) as Bxh.
    pose proof (u32_mod c) as Bcl. pose proof (u32_div_u64 c Hc) as Bch.
    rewrite rel_bind, rel_split_canonical by assumption. cbv beta iota.
    rewrite rel_bind, rel_u32_lt by assumption.
    rewrite rel_bind, rel_u32_lt by assumption.
    rewrite rel_bind, rel_is_equal by (apply canon_u32; assumption).
    cbn [Core.rel]. rewrite g_and_b, g_or_b, u64_lt_halves by (unfold canon in Hx; lia). tauto.
  Qed.

  Lemma hon_is_const_less_than_64 c x : 0 <= c < two64 -> canon x ->
    hon (is_const_less_than c x 64) = Some (b2z (c <? x)).
  Proof.
    intros Hc Hx. change (is_const_less_than c x 64) with (is_const_less_than_canonical_u64 c x).
    unfold is_const_less_than_canonical_u64.
    pose proof (u32_mod x) as Bxl. pose proof (u32_div_canon x Hx) as Bxh.
    pose proof (u32_mod c) as Bcl. pose proof (u32_div_u64 c Hc) as Bch.
    rewrite hon_bind, hon_split_canonical by assumption. cbv beta iota.
    rewrite hon_bind, hon_u32_lt by assumption.
    rewrite hon_bind, hon_u32_lt by assumption.
    rewrite hon_bind, hon_is_equal.
    cbn [Core.hon]. rewrite g_and_b, g_or_b, u64_lt_halves by (unfold canon in Hx; lia). reflexivity.
  Qed.

  (* ---------- 9. no witness freedom in the comparison, all widths ---------- *)
  Lemma refines_is_const_less_than (w : nat) c x :
    (1 <= w <= 64)%nat -> 0 <= c < 2 ^ Z.of_nat w -> canon x ->
    refines (is_const_less_than c x w).
  Proof.
    intros Hw Hc Hx. destruct (Nat.eq_dec w 64) as [->|Hn].
    - rewrite pow2_64 in Hc.
      apply (refines_of_rel_hon _ (b2z (c <? x))); [|apply hon_is_const_less_than_64; assumption].
      intros post. apply rel_is_const_less_than_64; assumption.
    - intros post. rewrite rel_is_const_less_than_narrow, hon_is_const_less_than_narrow by (try assumption; lia).
      destruct (Z.ltb_spec x (2 ^ Z.of_nat w)) as [L|L]; [tauto|].
      split; [intros [L' _]; lia|tauto].
  Qed.

  (* ---------- 8. enforce_target_less_than_const ---------- *)
  Lemma b2z_eq_0 b : b2z b = 0 <-> b = false.
  Proof. destruct b; cbn [b2z]; split; intros; try reflexivity; discriminate. Qed.

  Lemma rel_enforce_target_less_than_const (w : nat) ub x post :
    (1 <= w <= 64)%nat -> 0 < ub -> ub - 1 < 2 ^ Z.of_nat w -> canon x ->
    (rel (enforce_target_less_than_const x ub w) post <-> x < ub /\ post tt).
  Proof.
    intros Hw Hub Hfit Hx. unfold enforce_target_less_than_const. rewrite rel_bind.
    destruct (Nat.eq_dec w 64) as [->|Hn].
    - rewrite pow2_64 in Hfit. rewrite rel_is_const_less_than_64 by (try assumption; lia).
      cbn [Core.rel]. rewrite b2z_eq_0, Z.ltb_ge. split; intros [L R]; (split; [lia|exact R]).
    - rewrite rel_is_const_less_than_narrow by (try assumption; lia).
      cbn [Core.rel]. rewrite b2z_eq_0, Z.ltb_ge. split.
      + intros (_ & L & R). split; [lia|exact R].
      + intros [L R]. split; [lia|]. split; [lia|exact R].
  Qed.

  Lemma hon_enforce_target_less_than_const (w : nat) ub x :
    (1 <= w <= 64)%nat -> 0 < ub -> ub - 1 < 2 ^ Z.of_nat w -> canon x ->
    hon (enforce_target_less_than_const x ub w) = if x <? ub then Some tt else None.
  Proof.
    intros Hw Hub Hfit Hx. unfold enforce_target_less_than_const. rewrite hon_bind.
    destruct (Nat.eq_dec w 64) as [->|Hn].
    - rewrite pow2_64 in Hfit. rewrite hon_is_const_less_than_64 by (try assumption; lia).
      cbn [Core.hon]. destruct (Z.ltb_spec (ub - 1) x), (Z.ltb_spec x ub); cbn [b2z Z.eqb]; try reflexivity; lia.
    - rewrite hon_is_const_less_than_narrow by (try assumption; lia).
      destruct (Z.ltb_spec x (2 ^ Z.of_nat w)), (Z.ltb_spec x ub); try lia; try reflexivity;
        cbn [Core.hon]; destruct (Z.ltb_spec (ub - 1) x); cbn [b2z Z.eqb]; try reflexivity; lia.
  Qed.

  Lemma refines_enforce_target_less_than_const (w : nat) ub x :
    (1 <= w <= 64)%nat -> 0 < ub -> ub - 1 < 2 ^ Z.of_nat w -> canon x ->
    refines (enforce_target_less_than_const x ub w).
  Proof.
    intros Hw Hub Hfit Hx post.
    rewrite rel_enforce_target_less_than_const, hon_enforce_target_less_than_const by assumption.
    destruct (Z.ltb_spec x ub); [tauto|]. split; [intros [L _]; lia|tauto].
  Qed.

  (* ---------- 10. bytes_digest_eq ---------- *)
  Lemma rel_bytes_digest_eq a c post : length a = 4%nat -> length c = 4%nat ->
    Forall canon a -> Forall canon c ->
    (rel (bytes_digest_eq a c) post <-> post (b2z (list_eqb a c))).
  Proof.
    intros La Lc Fa Fc.
    destruct a as [|a0 [|a1 [|a2 [|a3 [|? ?]]]]]; try discriminate La.
    destruct c as [|c0 [|c1 [|c2 [|c3 [|? ?]]]]]; try discriminate Lc.
    inversion Fa as [|? ? A0 Fa1]; subst. inversion Fa1 as [|? ? A1 Fa2]; subst.
    inversion Fa2 as [|? ? A2 Fa3]; subst. inversion Fa3 as [|? ? A3 _]; subst.
    inversion Fc as [|? ? C0 Fc1]; subst. inversion Fc1 as [|? ? C1 Fc2]; subst.
    inversion Fc2 as [|? ? C2 Fc3]; subst. inversion Fc3 as [|? ? C3 _]; subst.
    unfold bytes_digest_eq. cbn [nth].
    rewrite rel_bind, rel_is_equal by assumption.
    rewrite rel_bind, rel_is_equal by assumption.
    rewrite rel_bind, rel_is_equal by assumption.
    rewrite rel_bind, rel_is_equal by assumption.
    cbn [Core.rel list_eqb]. rewrite !g_and_b.
    destruct (a0 =? c0), (a1 =? c1), (a2 =? c2), (a3 =? c3); cbn [andb]; tauto.
  Qed.

  Lemma hon_bytes_digest_eq a c : hon (bytes_digest_eq a c) =
    Some (b2z ((nth 0 a 0 =? nth 0 c 0) && (nth 1 a 0 =? nth 1 c 0) &&
               ((nth 2 a 0 =? nth 2 c 0) && (nth 3 a 0 =? nth 3 c 0)))).
  Proof.
    unfold bytes_digest_eq.
    do 4 (rewrite hon_bind, hon_is_equal; cbv beta iota).
    cbn [Core.hon]. rewrite !g_and_b. reflexivity.
  Qed.

  Lemma hon_bytes_digest_eq_4 a c : length a = 4%nat -> length c = 4%nat ->
    hon (bytes_digest_eq a c) = Some (b2z (list_eqb a c)).
  Proof.
    intros La Lc. rewrite hon_bytes_digest_eq.
    destruct a as [|a0 [|a1 [|a2 [|a3 [|? ?]]]]]; try discriminate La.
    destruct c as [|c0 [|c1 [|c2 [|c3 [|? ?]]]]]; try discriminate Lc.
    cbn [nth list_eqb].
    destruct (a0 =? c0), (a1 =? c1), (a2 =? c2), (a3 =? c3); reflexivity.
  Qed.

  Lemma refines_bytes_digest_eq a c : length a = 4%nat -> length c = 4%nat ->
    Forall canon a -> Forall canon c -> refines (bytes_digest_eq a c).
  Proof.
    intros La Lc Fa Fc. apply (refines_of_rel_hon _ (b2z (list_eqb a c))); [|apply hon_bytes_digest_eq_4; assumption].
    intros post. apply rel_bytes_digest_eq; assumption.
  Qed.

  (* ---------- contrast: the raw 64-bit split DOES leave witness freedom (the x + p alias) ---------- *)
  Lemma split_low_high_64_alias_sat x : 0 <= x < two32 - 1 ->
    rel (split_low_high x 32 64) (fun lh => lh = (x + 1, two32 - 1)).
  Proof.
    intros Hx. apply rel_split_low_high_64; [unfold canon, two32, p in *; lia|].
    right. split; [lia|]. f_equal; unfold two32, p in *; lia.
  Qed.

  Lemma split_low_high_64_not_refines x : 0 <= x < two32 - 1 -> ~ refines (split_low_high x 32 64).
  Proof.
    intros Hx R. pose proof (split_low_high_64_alias_sat x Hx) as S. apply R in S.
    rewrite hon_split_low_high_64 in S by (unfold canon, two32, p in *; lia).
    inversion S as [[E1 E2]]. unfold two32 in *. lia.
  Qed.

  (* a plain 64-bit comparison on the raw split would be flippable: with the alias halves of x = 0
     the high-half comparison "0 < hi" comes out true although 0 < 0 is false *)
  Lemma alias_would_flip : b2z (0 <? (0 + p) / two32) = 1 /\ b2z (0 <? 0) = 0.
  Proof. split; reflexivity. Qed.
End GadgetsProofs.
