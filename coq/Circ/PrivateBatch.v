(* build_private_batch_constraints (wormhole/aggregator/src/private_batch/circuit/circuit_logic.rs:171),
   transcribed as a [Circ] program for an arbitrary number of leaf slots, in the order of the builder
   calls.  Inputs: the public-input vectors of the N child (leaf) proofs - in the full circuit these are
   the `public_inputs` targets of the recursively verified proofs (Recursion.v) - and one 4-felt
   dummy-nullifier preimage per slot.  Output: the registered public inputs (21 N + 8 felts).
   Model only; proofs in PrivateBatchProofs.v. *)
From Coq Require Import ZArith Lia List Bool.
From V.Base Require Import Common.
From V.Generated Require Import Constants.
From V.Circ Require Import Field Core Prims Gadgets.
Import ListNotations.
Open Scope Z_scope.

(* pis[OFFSET], pis[OFFSET .. OFFSET+4] with the layout constants of private_batch/circuit/constants.rs *)
Definition pi1 (pis : list Z) (off : Z) : Z := nth (Z.to_nat off) pis 0.
Definition pi4 (pis : list Z) (off : Z) : list Z := firstn 4 (skipn (Z.to_nat off) pis).

Definition lf_asset (pis : list Z) := pi1 pis PR_ASSET_ID_START.
Definition lf_out1 (pis : list Z) := pi1 pis PR_OUTPUT_AMOUNT_1_START.
Definition lf_out2 (pis : list Z) := pi1 pis PR_OUTPUT_AMOUNT_2_START.
Definition lf_fee (pis : list Z) := pi1 pis PR_VOLUME_FEE_BPS_START.
Definition lf_null (pis : list Z) := pi4 pis PR_NULLIFIER_START.
Definition lf_exit1 (pis : list Z) := pi4 pis PR_EXIT_1_START.
Definition lf_exit2 (pis : list Z) := pi4 pis PR_EXIT_2_START.
Definition lf_bh (pis : list Z) := pi4 pis PR_BLOCK_HASH_START.
Definition lf_bn (pis : list Z) := pi1 pis PR_BLOCK_NUMBER_START.

Definition zero4 : list Z := [0; 0; 0; 0].
Definition map2z (f : Z -> Z -> Z) (a b : list Z) : list Z := map (fun '(x, y) => f x y) (combine a b).

Fixpoint cmapM {A B} (f : A -> Circ B) (l : list A) : Circ (list B) :=
  match l with
  | [] => Ret []
  | x :: r => y <- f x ;; ys <- cmapM f r ;; Ret (y :: ys)
  end.

(* is_dummy_i = bytes_digest_eq(block_i, 0) *)
Definition dummy_flags (leaves : list (list Z)) : Circ (list Z) :=
  cmapM (fun pis => bytes_digest_eq (lf_bh pis) zero4) leaves.

(* first-real prefix scan (pure selects): returns (block_ref, block_number_ref, fee_ref) *)
Fixpoint scan_ref (leaves : list (list Z)) (flags : list Z) (found : Z) (bref : list Z) (bn fee : Z)
  : list Z * Z * Z :=
  match leaves, flags with
  | pis :: lr, d :: dr =>
      let is_real := g_not d in
      let not_found_yet := g_not found in
      let take := g_and is_real not_found_yet in
      scan_ref lr dr (g_or found is_real)
               (map2z (g_select take) (lf_bh pis) bref)
               (g_select take (lf_bn pis) bn)
               (g_select take (lf_fee pis) fee)
  | _, _ => (bref, bn, fee)
  end.

(* block / asset / fee consistency *)
Fixpoint consistency (leaves : list (list Z)) (flags : list Z) (asset_ref : Z) (block_ref : list Z) (fee_ref : Z)
  : Circ unit :=
  match leaves, flags with
  | pis :: lr, d :: dr =>
      matches_ref <- bytes_digest_eq (lf_bh pis) block_ref ;;
      Assert (g_or d matches_ref) 1 (
      Assert (lf_asset pis) asset_ref (
      fee_matches <- is_equal (lf_fee pis) fee_ref ;;
      Assert (g_or d fee_matches) 1 (
      consistency lr dr asset_ref block_ref fee_ref)))
  | _, _ => Ret tt
  end.

(* masked per-slot (exit, amount): slots 2i, 2i+1 come from proof i; dummy slots read as (0, 0) *)
Fixpoint masked_slots (leaves : list (list Z)) (flags : list Z) : list (list Z * Z) :=
  match leaves, flags with
  | pis :: lr, d :: dr =>
      (map (fun e => g_select d 0 e) (lf_exit1 pis), g_select d 0 (lf_out1 pis))
      :: (map (fun e => g_select d 0 e) (lf_exit2 pis), g_select d 0 (lf_out2 pis))
      :: masked_slots lr dr
  | _, _ => []
  end.

Fixpoint dup_scan (earlier : list (list Z)) (exit_slot : list Z) (is_dup : Z) : Circ Z :=
  match earlier with
  | [] => Ret is_dup
  | e :: r => m <- bytes_digest_eq e exit_slot ;; dup_scan r exit_slot (g_or is_dup m)
  end.

Fixpoint sum_scan (slots : list (list Z * Z)) (exit_slot : list Z) (acc : Z) : Circ Z :=
  match slots with
  | [] => Ret acc
  | (e, amount) :: r =>
      m <- bytes_digest_eq e exit_slot ;;
      sum_scan r exit_slot (fadd acc (g_select m amount 0))
  end.

(* one output slot: [final_sum; final_exit(4)] *)
Definition slot_out (all : list (list Z * Z)) (earlier : list (list Z)) (exit_slot : list Z) : Circ (list Z) :=
  is_duplicate <- dup_scan earlier exit_slot 0 ;;
  acc <- sum_scan all exit_slot 0 ;;
  let final_sum := g_select is_duplicate 0 acc in
  let final_exit := map (fun e => g_select is_duplicate 0 e) exit_slot in
  _ <- range_check final_sum 32 ;;
  Ret (final_sum :: final_exit).

Fixpoint slots_loop (all : list (list Z * Z)) (earlier : list (list Z)) (rest : list (list Z * Z))
  : Circ (list (list Z)) :=
  match rest with
  | [] => Ret []
  | (e, _) :: r =>
      o <- slot_out all earlier e ;;
      os <- slots_loop all (earlier ++ [e]) r ;;
      Ret (o :: os)
  end.

(* real-nullifier uniqueness: for i < j, (real_i AND real_j) AND (null_i == null_j) must be 0 *)
Fixpoint uniq_inner (is_real_i : Z) (null_i : list Z) (rest : list (Z * list Z)) : Circ unit :=
  match rest with
  | [] => Ret tt
  | (d_j, null_j) :: r =>
      let is_real_j := g_not d_j in
      let both_real := g_and is_real_i is_real_j in
      nullifiers_equal <- bytes_digest_eq null_i null_j ;;
      let collision := g_and both_real nullifiers_equal in
      Assert collision 0 (uniq_inner is_real_i null_i r)
  end.
Fixpoint uniq (l : list (Z * list Z)) : Circ unit :=
  match l with
  | [] => Ret tt
  | (d, n) :: r => _ <- uniq_inner (g_not d) n r ;; uniq r
  end.

(* selected_i = is_dummy_i ? H(H(preimage_i)) : nullifier_i *)
Fixpoint select_nullifiers (l : list (Z * list Z * list Z)) : Circ (list (list Z)) :=
  match l with
  | [] => Ret []
  | (d, real_null, pre) :: r =>
      Hash pre (fun inner =>
      Hash inner (fun dummy_null =>
      rest <- select_nullifiers r ;;
      Ret (map2z (g_select d) dummy_null real_null :: rest)))
  end.

Definition combine3 {A B C} (a : list A) (b : list B) (c : list C) : list (A * B * C) :=
  combine (combine a b) c.

Definition private_batch (leaves : list (list Z)) (pre_images : list (list Z)) : Circ (list Z) :=
  let n := zlen leaves in
  let num_exit_slots_t := n * 2 in
  let asset_ref := lf_asset (nth 0 leaves []) in
  flags <- dummy_flags leaves ;;
  let '(block_ref, block_number_ref, fee_ref) := scan_ref leaves flags 0 zero4 0 0 in
  _ <- consistency leaves flags asset_ref block_ref fee_ref ;;
  let slots := masked_slots leaves flags in
  outs <- slots_loop slots [] slots ;;
  _ <- uniq (combine flags (map lf_null leaves)) ;;
  selected <- select_nullifiers (combine3 flags (map lf_null leaves) pre_images) ;;
  sorted <- sort_digests4 selected ;;
  let body := [num_exit_slots_t; asset_ref; fee_ref] ++ block_ref ++ [block_number_ref]
              ++ concat outs ++ concat sorted in
  let expected_len := PR_LEAF_PI_LEN * n + 8 in
  Ret (body ++ repeat 0 (Z.to_nat (expected_len - zlen body))).
