(* build_public_batch_constraints (wormhole/aggregator/src/public_batch/circuit/circuit_logic.rs:167),
   transcribed for arbitrary M (inner private-batch proofs) and N (leaves per private batch), in the
   order of the builder calls.  Inputs: the aggregator address (4 witness felts) and the public-input
   vectors of the M child proofs (each 21 N + 8 felts).  Output: 12 + 14 M N felts.
   Model only; proofs in PublicBatchProofs.v. *)
From Coq Require Import ZArith Lia List Bool.
From V.Base Require Import Common.
From V.Generated Require Import Constants.
From V.Circ Require Import Field Core Prims Gadgets PrivateBatch.
Import ListNotations.
Open Scope Z_scope.

Definition in_asset (pis : list Z) := pi1 pis PR_OUT_ASSET_ID_OFFSET.
Definition in_fee (pis : list Z) := pi1 pis PR_OUT_VOLUME_FEE_BPS_OFFSET.
Definition in_bh (pis : list Z) := pi4 pis PR_OUT_BLOCK_HASH_OFFSET.
Definition in_bn (pis : list Z) := pi1 pis PR_OUT_BLOCK_NUMBER_OFFSET.

Definition pub_dummy_flags (inners : list (list Z)) : Circ (list Z) :=
  cmapM (fun pis => bytes_digest_eq (in_bh pis) zero4) inners.

(* first-real prefix scan: (block_ref, block_number_ref, asset_ref, fee_ref) *)
Fixpoint pub_scan_ref (inners : list (list Z)) (flags : list Z) (found : Z) (bref : list Z) (bn asset fee : Z)
  : list Z * Z * Z * Z :=
  match inners, flags with
  | pis :: lr, d :: dr =>
      let is_real := g_not d in
      let not_found_yet := g_not found in
      let take := g_and is_real not_found_yet in
      pub_scan_ref lr dr (g_or found is_real)
                   (map2z (g_select take) (in_bh pis) bref)
                   (g_select take (in_bn pis) bn)
                   (g_select take (in_asset pis) asset)
                   (g_select take (in_fee pis) fee)
  | _, _ => (bref, bn, asset, fee)
  end.

Fixpoint pub_consistency (inners : list (list Z)) (flags : list Z) (asset_ref fee_ref : Z) (block_ref : list Z)
  : Circ unit :=
  match inners, flags with
  | pis :: lr, d :: dr =>
      asset_matches <- is_equal (in_asset pis) asset_ref ;;
      Assert (g_or d asset_matches) 1 (
      fee_matches <- is_equal (in_fee pis) fee_ref ;;
      Assert (g_or d fee_matches) 1 (
      block_matches <- bytes_digest_eq (in_bh pis) block_ref ;;
      Assert (g_or d block_matches) 1 (
      pub_consistency lr dr asset_ref fee_ref block_ref)))
  | _, _ => Ret tt
  end.

(* forward a region of an inner's public inputs, zeroed when the inner is a dummy *)
Definition forward (d : Z) (pis : list Z) (start len : Z) : list Z :=
  map (fun v => g_select d 0 v) (firstn (Z.to_nat len) (skipn (Z.to_nat start) pis)).

Definition public_batch (n_leaves : Z) (address : list Z) (inners : list (list Z)) : Circ (list Z) :=
  let m := zlen inners in
  let slots_per := n_leaves * 2 in
  let nulls_per := n_leaves in
  flags <- pub_dummy_flags inners ;;
  let '(block_ref, block_number_ref, asset_ref, fee_ref) := pub_scan_ref inners flags 0 zero4 0 0 0 in
  _ <- pub_consistency inners flags asset_ref fee_ref block_ref ;;
  let total_exit_slots := m * slots_per in
  let exit_start := PR_OUT_HEADER_LEN in
  let null_start := PR_OUT_HEADER_LEN + slots_per * PR_OUT_EXIT_SLOT_LEN in
  let slots := concat (map (fun '(d, pis) => forward d pis exit_start (slots_per * PR_OUT_EXIT_SLOT_LEN))
                           (combine flags inners)) in
  let nulls := concat (map (fun '(d, pis) => forward d pis null_start (nulls_per * 4))
                           (combine flags inners)) in
  Ret (address ++ [asset_ref; fee_ref] ++ block_ref ++ [block_number_ref; total_exit_slots] ++ slots ++ nulls).
