(* Pure theory of the odd-even transposition network used by sort_digests4 (common/src/gadgets.rs):
   n rounds over n elements, round r compare-and-swaps the pairs (i, i+1) with i = r mod 2 (mod 2).

   - [oets_perm]    the output is a permutation of the input              (any length)
   - [oets_map]     order embeddings / monotone maps commute with the network (0-1 principle)
   - [oets01]       a 0-1 input of length <= 64 is sorted by the network.  Proof: a 0-1 list is
                    represented by its vector of prefix counts, on which a comparator acts as the
                    pointwise monotone map c(i+1) := max (c i) (c(i+2) - 1); hence the input
                    1^k 0^(n-k) (pointwise largest count vector) is the worst case, and the 2145
                    worst cases n <= 64, k <= n are evaluated inside Coq.
   - [oets_sorted]  hence any input of length <= 64 is sorted, for a strict weak order
   - [oets_isort]   and equals insertion sort when the order is moreover antisymmetric. *)
From Coq Require Import ZArith Arith Lia List Bool Permutation Sorted RelationClasses.
Import ListNotations.
Ltac Zify.zify_post_hook ::= Z.div_mod_to_equations.

Lemma list_ind2 {A} (P : list A -> Prop) :
  P [] -> (forall a, P [a]) -> (forall a b l, P l -> P (a :: b :: l)) -> forall l, P l.
Proof.
  intros H0 H1 H2. fix IH 1. intros [|a [|b l]]; [exact H0|apply H1|apply H2, IH].
Qed.

(* ================= the network ================= *)
Section Net.
  Context {X : Type}.
  Variable ltb : X -> X -> bool.

  Fixpoint cas_pairs_pure (v : list X) : list X :=
    match v with
    | a :: b :: r => (if ltb a b then a else b) :: (if ltb a b then b else a) :: cas_pairs_pure r
    | _ => v
    end.
  Definition sort_round_pure (round : nat) (v : list X) : list X :=
    if Nat.even round then cas_pairs_pure v
    else match v with
         | [] => []
         | x :: r => x :: cas_pairs_pure r
         end.
  Fixpoint sort_rounds_pure (rounds : list nat) (v : list X) : list X :=
    match rounds with
    | [] => v
    | r :: rs => sort_rounds_pure rs (sort_round_pure r v)
    end.
  Definition oets (v : list X) : list X := sort_rounds_pure (seq 0 (length v)) v.

  Lemma cas_pairs_perm v : Permutation (cas_pairs_pure v) v.
  Proof.
    induction v as [|a|a b r IH] using list_ind2; cbn [cas_pairs_pure]; try reflexivity.
    destruct (ltb a b).
    - do 2 apply perm_skip. exact IH.
    - etransitivity; [apply perm_swap|]. do 2 apply perm_skip. exact IH.
  Qed.
  Lemma sort_round_perm r v : Permutation (sort_round_pure r v) v.
  Proof.
    unfold sort_round_pure. destruct (Nat.even r); [apply cas_pairs_perm|].
    destruct v as [|x v]; [reflexivity|]. apply perm_skip, cas_pairs_perm.
  Qed.
  Lemma sort_rounds_perm rs v : Permutation (sort_rounds_pure rs v) v.
  Proof.
    revert v; induction rs as [|r rs IH]; intros v; cbn [sort_rounds_pure]; [reflexivity|].
    etransitivity; [apply IH|apply sort_round_perm].
  Qed.
  (* A1: any length *)
  Theorem oets_perm v : Permutation (oets v) v.
  Proof. apply sort_rounds_perm. Qed.
  Lemma oets_length v : length (oets v) = length v.
  Proof. apply Permutation_length, oets_perm. Qed.
  Lemma oets_Forall (P : X -> Prop) v : Forall P v -> Forall P (oets v).
  Proof. intros F. eapply Permutation_Forall; [symmetry; apply oets_perm|exact F]. Qed.
End Net.

(* ================= maps that commute with the comparators ================= *)
Section MapCommute.
  Context {X Y : Type}.
  Variables (ltX : X -> X -> bool) (ltY : Y -> Y -> bool) (g : X -> Y).
  Hypothesis compat : forall a b,
    g (if ltX a b then a else b) = (if ltY (g a) (g b) then g a else g b) /\
    g (if ltX a b then b else a) = (if ltY (g a) (g b) then g b else g a).

  Lemma cas_pairs_map v : map g (cas_pairs_pure ltX v) = cas_pairs_pure ltY (map g v).
  Proof.
    induction v as [|a|a b r IH] using list_ind2; cbn [cas_pairs_pure map]; try reflexivity.
    destruct (compat a b) as [E1 E2]. rewrite E1, E2, IH. reflexivity.
  Qed.
  Lemma sort_round_map r v : map g (sort_round_pure ltX r v) = sort_round_pure ltY r (map g v).
  Proof.
    unfold sort_round_pure. destruct (Nat.even r); [apply cas_pairs_map|].
    destruct v as [|x v]; [reflexivity|]. cbn [map]. rewrite cas_pairs_map. reflexivity.
  Qed.
  Lemma sort_rounds_map rs v : map g (sort_rounds_pure ltX rs v) = sort_rounds_pure ltY rs (map g v).
  Proof.
    revert v; induction rs as [|r rs IH]; intros v; cbn [sort_rounds_pure]; [reflexivity|].
    rewrite IH, sort_round_map. reflexivity.
  Qed.
  Theorem oets_map v : map g (oets ltX v) = oets ltY (map g v).
  Proof. unfold oets. rewrite map_length. apply sort_rounds_map. Qed.
End MapCommute.

(* an order embedding commutes *)
Lemma oets_map_embed {X Y} (ltX : X -> X -> bool) (ltY : Y -> Y -> bool) (g : X -> Y) :
  (forall a b, ltY (g a) (g b) = ltX a b) -> forall v, map g (oets ltX v) = oets ltY (map g v).
Proof.
  intros E. apply oets_map. intros a b. rewrite E. destruct (ltX a b); split; reflexivity.
Qed.

(* ================= 0-1 lists ================= *)
Definition ltbB (a b : bool) : bool := negb a && b.

(* a monotone predicate commutes (0-1 principle, first half) *)
Lemma oets_map_mono {X} (ltb : X -> X -> bool) (f : X -> bool) :
  (forall a b, ltb a b = true -> f a = true -> f b = true) ->
  (forall a b, ltb a b = false -> f b = true -> f a = true) ->
  forall v, map f (oets ltb v) = oets ltbB (map f v).
Proof.
  intros M1 M2. apply oets_map. intros a b. unfold ltbB.
  destruct (ltb a b) eqn:L; destruct (f a) eqn:Fa; destruct (f b) eqn:Fb; cbn; split;
    try reflexivity; try assumption.
  - specialize (M1 a b L Fa). congruence.
  - specialize (M1 a b L Fa). congruence.
  - specialize (M2 a b L Fb). congruence.
  - specialize (M2 a b L Fb). congruence.
Qed.

Fixpoint ones (l : list bool) : nat :=
  match l with
  | [] => 0
  | b :: r => (if b then 1 else 0) + ones r
  end.
Lemma ones_perm l l' : Permutation l l' -> ones l = ones l'.
Proof. induction 1; cbn [ones]; lia. Qed.
Lemma ones_le_length l : ones l <= length l.
Proof. induction l as [|b r IH]; cbn [ones length]; [lia|destruct b; lia]. Qed.

(* prefix counts: [pre c l] = c, c + #ones(l[..1]), c + #ones(l[..2]), ... (length l + 1 entries) *)
Fixpoint pre (c : nat) (l : list bool) : list nat :=
  match l with
  | [] => [c]
  | b :: r => c :: pre (if b then S c else c) r
  end.
Lemma pre_cons c l : exists t, pre c l = c :: t.
Proof. destruct l; cbn [pre]; eexists; reflexivity. Qed.
Lemma pre_inj l : forall l' c, pre c l = pre c l' -> l = l'.
Proof.
  induction l as [|b r IH]; intros [|b' r'] c E; cbn [pre] in E.
  - reflexivity.
  - destruct (pre_cons (if b' then S c else c) r') as [t Et]. rewrite Et in E. discriminate.
  - destruct (pre_cons (if b then S c else c) r) as [t Et]. rewrite Et in E. discriminate.
  - injection E as E.
    assert (Eb : b = b').
    { destruct (pre_cons (if b then S c else c) r) as [t Et].
      destruct (pre_cons (if b' then S c else c) r') as [t' Et'].
      rewrite Et, Et' in E. injection E as E0 _. destruct b, b'; try reflexivity; lia. }
    subst b'. f_equal. eapply IH. exact E.
Qed.

(* the comparators on count vectors *)
Fixpoint cas_c (c : list nat) : list nat :=
  match c with
  | c0 :: c1 :: r =>
      match r with
      | c2 :: _ => c0 :: Nat.max c0 (c2 - 1) :: cas_c r
      | [] => c
      end
  | _ => c
  end.
Definition round_c (round : nat) (c : list nat) : list nat :=
  if Nat.even round then cas_c c
  else match c with
       | [] => []
       | c0 :: r => c0 :: cas_c r
       end.
Fixpoint rounds_c (rounds : list nat) (c : list nat) : list nat :=
  match rounds with
  | [] => c
  | r :: rs => rounds_c rs (round_c r c)
  end.

Lemma pre_cas l : forall c, pre c (cas_pairs_pure ltbB l) = cas_c (pre c l).
Proof.
  induction l as [|a|a b r IH] using list_ind2; intros c; try reflexivity.
  cbn [cas_pairs_pure].
  set (c2 := if b then S (if a then S c else c) else (if a then S c else c)).
  assert (E : pre c (a :: b :: r) = c :: (if a then S c else c) :: pre c2 r) by reflexivity.
  rewrite E. destruct (pre_cons c2 r) as [t Et].
  assert (E2 : cas_c (c :: (if a then S c else c) :: pre c2 r)
               = c :: Nat.max c (c2 - 1) :: cas_c (pre c2 r)).
  { rewrite Et. reflexivity. }
  rewrite E2, <- IH. subst c2. unfold ltbB. destruct a, b; cbn [negb andb pre]; repeat f_equal; lia.
Qed.
Lemma pre_round r l c : pre c (sort_round_pure ltbB r l) = round_c r (pre c l).
Proof.
  unfold sort_round_pure, round_c. destruct (Nat.even r); [apply pre_cas|].
  destruct l as [|x l]; [reflexivity|]. cbn [pre]. rewrite pre_cas. reflexivity.
Qed.
Lemma pre_rounds rs : forall l c, pre c (sort_rounds_pure ltbB rs l) = rounds_c rs (pre c l).
Proof.
  induction rs as [|r rs IH]; intros l c; cbn [sort_rounds_pure rounds_c]; [reflexivity|].
  rewrite IH, pre_round. reflexivity.
Qed.

(* monotonicity *)
Lemma cas_c_mono c : forall d, Forall2 le c d -> Forall2 le (cas_c c) (cas_c d).
Proof.
  induction c as [|c0|c0 c1 r IH] using list_ind2; intros d F.
  - inversion F; subst. constructor.
  - inversion F as [|? ? ? ? L F']; subst. inversion F'; subst. cbn. constructor; [exact L|constructor].
  - inversion F as [|? d0 ? dr L0 F0]; subst. inversion F0 as [|? d1 ? r' L1 F1]; subst.
    destruct r as [|c2 rr].
    + inversion F1; subst. cbn. repeat constructor; assumption.
    + inversion F1 as [|? d2 ? rr' L2 F2]; subst.
      change (Forall2 le (c0 :: Nat.max c0 (c2 - 1) :: cas_c (c2 :: rr))
                         (d0 :: Nat.max d0 (d2 - 1) :: cas_c (d2 :: rr'))).
      constructor; [exact L0|]. constructor; [lia|]. apply IH. exact F1.
Qed.
Lemma round_c_mono r c d : Forall2 le c d -> Forall2 le (round_c r c) (round_c r d).
Proof.
  intros F. unfold round_c. destruct (Nat.even r); [apply cas_c_mono; exact F|].
  inversion F; subst; constructor; [assumption|apply cas_c_mono; assumption].
Qed.
Lemma rounds_c_mono rs : forall c d, Forall2 le c d -> Forall2 le (rounds_c rs c) (rounds_c rs d).
Proof.
  induction rs as [|r rs IH]; intros c d F; cbn [rounds_c]; [exact F|]. apply IH, round_c_mono, F.
Qed.
Lemma Forall2_le_antisym c : forall d, Forall2 le c d -> Forall2 le d c -> c = d.
Proof.
  induction c as [|x c IH]; intros d F G; inversion F; subst; [reflexivity|].
  inversion G; subst. f_equal; [lia|apply IH; assumption].
Qed.

(* pointwise largest / smallest count vectors: those of 1^k 0^(n-k) and of 0^z 1^(n-z) *)
Fixpoint ub (c k n : nat) : list nat :=
  match n with
  | O => [c]
  | S n' => c :: match k with O => ub c O n' | S k' => ub (S c) k' n' end
  end.
Fixpoint lb (c z n : nat) : list nat :=
  match n with
  | O => [c]
  | S n' => c :: match z with O => lb (S c) O n' | S z' => lb c z' n' end
  end.

Lemma pre_le_ub l : forall c c' k, c <= c' -> c + ones l <= c' + k ->
  Forall2 le (pre c l) (ub c' k (length l)).
Proof.
  induction l as [|b r IH]; intros c c' k L T; cbn [pre ub length ones] in *.
  - constructor; [exact L|constructor].
  - constructor; [exact L|]. destruct k as [|k']; destruct b; apply IH; lia.
Qed.
Lemma lb_le_pre l : forall c c' z, c' <= c -> c' + (length l - z) <= c + ones l ->
  Forall2 le (lb c' z (length l)) (pre c l).
Proof.
  induction l as [|b r IH]; intros c c' z L T; cbn [pre lb length ones] in *.
  - constructor; [exact L|constructor].
  - constructor; [exact L|]. pose proof (ones_le_length r) as B.
    destruct z as [|z']; destruct b; apply IH; lia.
Qed.
Lemma pre_lb_ones m : forall c, pre c (repeat true m) = lb c 0 m.
Proof. induction m as [|m IH]; intros c; cbn [repeat pre lb]; [reflexivity|rewrite IH; reflexivity]. Qed.
Lemma pre_lb z m : forall c, pre c (repeat false z ++ repeat true m) = lb c z (z + m).
Proof.
  induction z as [|z IH]; intros c; cbn [repeat app pre lb plus].
  - apply pre_lb_ones.
  - destruct m as [|m']; cbn [plus]; rewrite IH; reflexivity.
Qed.

(* the worst cases, evaluated *)
Fixpoint eqb_list (a b : list nat) : bool :=
  match a, b with
  | [], [] => true
  | x :: a', y :: b' => Nat.eqb x y && eqb_list a' b'
  | _, _ => false
  end.
Lemma eqb_list_eq a : forall b, eqb_list a b = true -> a = b.
Proof.
  induction a as [|x a IH]; intros [|y b] E; cbn [eqb_list] in E; try discriminate; [reflexivity|].
  apply andb_true_iff in E. destruct E as [E1 E2]. apply Nat.eqb_eq in E1. f_equal; [exact E1|apply IH, E2].
Qed.
Definition worst_sorted (n k : nat) : bool :=
  eqb_list (rounds_c (seq 0 n) (ub 0 k n)) (lb 0 (n - k) n).
Definition NET_MAX : nat := 64.
Lemma worst_cases_checked :
  forallb (fun n => forallb (worst_sorted n) (seq 0 (S n))) (seq 0 (S NET_MAX)) = true.
Proof. vm_compute. reflexivity. Qed.
Lemma worst_case n k : n <= NET_MAX -> k <= n -> rounds_c (seq 0 n) (ub 0 k n) = lb 0 (n - k) n.
Proof.
  intros Hn Hk. apply eqb_list_eq. pose proof worst_cases_checked as W.
  rewrite forallb_forall in W. specialize (W n). rewrite forallb_forall in W.
  apply W; apply in_seq; lia.
Qed.

(* A2 for 0-1 lists *)
Theorem oets01 l : length l <= NET_MAX ->
  oets ltbB l = repeat false (length l - ones l) ++ repeat true (ones l).
Proof.
  intros Hn. pose proof (ones_le_length l) as Hk.
  apply pre_inj with (c := 0). rewrite pre_lb.
  replace (length l - ones l + ones l) with (length l) by lia.
  apply Forall2_le_antisym.
  - unfold oets. rewrite pre_rounds, <- (worst_case (length l) (ones l)) by assumption.
    apply rounds_c_mono. apply pre_le_ub; lia.
  - rewrite <- (oets_length ltbB l) at 2. apply lb_le_pre; [lia|].
    rewrite (ones_perm _ _ (oets_perm ltbB l)), oets_length. lia.
Qed.

(* sortedness of 0-1 lists as a boolean *)
Fixpoint sortedB (l : list bool) : bool :=
  match l with
  | [] => true
  | a :: r => match r with
              | [] => true
              | b :: _ => implb a b && sortedB r
              end
  end.
Lemma sortedB_ones m : sortedB (repeat true m) = true.
Proof. induction m as [|[|m] IH]; try reflexivity. exact IH. Qed.
Lemma sortedB_zeros_ones z m : sortedB (repeat false z ++ repeat true m) = true.
Proof.
  induction z as [|z IH]; cbn [repeat app]; [apply sortedB_ones|].
  cbn [sortedB]. destruct (repeat false z ++ repeat true m); [reflexivity|exact IH].
Qed.

(* ================= general elements ================= *)
Section Order.
  Context {X : Type}.
  Variable ltb : X -> X -> bool.
  Hypothesis ltb_irrefl : forall x, ltb x x = false.
  Hypothesis ltb_trans : forall x y z, ltb x y = true -> ltb y z = true -> ltb x z = true.
  Hypothesis ltb_negtrans : forall x y z, ltb x y = false -> ltb y z = false -> ltb x z = false.

  Definition le_of (x y : X) : Prop := ltb y x = false.

  Lemma le_of_trans : Transitive le_of.
  Proof. intros x y z A B. unfold le_of in *. eapply ltb_negtrans; eassumption. Qed.

  Lemma thresholds_sorted out :
    (forall t, sortedB (map (ltb t) out) = true) -> Sorted le_of out.
  Proof.
    induction out as [|x r IH]; intros T; [constructor|].
    constructor.
    - apply IH. intros t. specialize (T t). cbn [map sortedB] in T.
      destruct r as [|y r']; [reflexivity|]. cbn [map] in T. apply andb_true_iff in T. apply T.
    - destruct r as [|y r']; constructor. specialize (T y). cbn [map sortedB] in T.
      apply andb_true_iff in T. destruct T as [T _]. rewrite ltb_irrefl in T.
      unfold le_of. destruct (ltb y x); [discriminate|reflexivity].
  Qed.

  (* A2: the 0-1 principle *)
  Theorem oets_sorted l : length l <= NET_MAX -> StronglySorted le_of (oets ltb l).
  Proof.
    intros Hn. apply Sorted_StronglySorted; [exact le_of_trans|]. apply thresholds_sorted. intros t.
    rewrite (oets_map_mono ltb (ltb t)).
    - rewrite oets01 by (rewrite map_length; exact Hn). apply sortedB_zeros_ones.
    - intros a b L Ta. eapply ltb_trans; eassumption.
    - intros a b L Tb. destruct (ltb t a) eqn:Ta; [reflexivity|].
      rewrite (ltb_negtrans t a b Ta L) in Tb. discriminate.
  Qed.

  (* ---- insertion sort as the specification ---- *)
  Fixpoint insert (x : X) (l : list X) : list X :=
    match l with
    | [] => [x]
    | y :: r => if ltb y x then y :: insert x r else x :: l
    end.
  Fixpoint isort (l : list X) : list X :=
    match l with
    | [] => []
    | x :: r => insert x (isort r)
    end.

  Lemma insert_perm x l : Permutation (insert x l) (x :: l).
  Proof.
    induction l as [|y r IH]; cbn [insert]; [reflexivity|].
    destruct (ltb y x); [|reflexivity].
    etransitivity; [apply perm_skip, IH|apply perm_swap].
  Qed.
  Theorem isort_perm l : Permutation (isort l) l.
  Proof.
    induction l as [|x r IH]; cbn [isort]; [reflexivity|].
    etransitivity; [apply insert_perm|apply perm_skip, IH].
  Qed.
  Lemma isort_length l : length (isort l) = length l.
  Proof. apply Permutation_length, isort_perm. Qed.

  Lemma ltb_asym x y : ltb x y = true -> ltb y x = false.
  Proof.
    intros A. destruct (ltb y x) eqn:B; [|reflexivity].
    pose proof (ltb_trans x y x A B) as C. rewrite ltb_irrefl in C. discriminate.
  Qed.

  Lemma insert_sorted x l : StronglySorted le_of l -> StronglySorted le_of (insert x l).
  Proof.
    induction 1 as [|y r S IH F]; cbn [insert]; [repeat constructor|].
    destruct (ltb y x) eqn:L.
    - constructor; [exact IH|].
      eapply Permutation_Forall; [symmetry; apply insert_perm|].
      constructor; [apply ltb_asym, L|exact F].
    - constructor; [constructor; assumption|].
      constructor; [exact L|]. eapply Forall_impl; [|exact F].
      intros z Hz. eapply le_of_trans; [exact L|exact Hz].
  Qed.
  Theorem isort_sorted l : StronglySorted le_of (isort l).
  Proof. induction l as [|x r IH]; cbn [isort]; [constructor|apply insert_sorted, IH]. Qed.

  (* ---- uniqueness of the sorted permutation for an antisymmetric order ---- *)
  Hypothesis ltb_antisym : forall x y, ltb x y = false -> ltb y x = false -> x = y.

  Lemma sorted_perm_unique l1 : forall l2,
    StronglySorted le_of l1 -> StronglySorted le_of l2 -> Permutation l1 l2 -> l1 = l2.
  Proof.
    induction l1 as [|a r1 IH]; intros l2 S1 S2 P.
    - apply Permutation_nil in P. congruence.
    - destruct l2 as [|b r2]; [apply Permutation_sym, Permutation_nil in P; discriminate|].
      inversion S1 as [|? ? S1' F1]; subst. inversion S2 as [|? ? S2' F2]; subst.
      assert (E : a = b).
      { assert (Ia : In a (b :: r2)) by (eapply Permutation_in; [exact P|left; reflexivity]).
        assert (Ib : In b (a :: r1)) by (eapply Permutation_in; [symmetry; exact P|left; reflexivity]).
        rewrite Forall_forall in F1, F2.
        destruct Ia as [Ea|Ia]; [congruence|]. destruct Ib as [Eb|Ib]; [congruence|].
        apply ltb_antisym; [apply (F2 a Ia)|apply (F1 b Ib)]. }
      subst b. f_equal. apply IH; try assumption. eapply Permutation_cons_inv. exact P.
  Qed.

  (* A3 *)
  Theorem oets_isort l : length l <= NET_MAX -> oets ltb l = isort l.
  Proof.
    intros Hn. apply sorted_perm_unique.
    - apply oets_sorted, Hn.
    - apply isort_sorted.
    - etransitivity; [apply oets_perm|symmetry; apply isort_perm].
  Qed.
End Order.
