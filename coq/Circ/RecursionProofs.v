(* Proofs about the recursive layer (C11): the wiring. *)
From V.Base Require Import Common.
From V.Generated Require Import Constants.
From V.Circ Require Import Field Core PrivateBatch PublicBatch Recursion.
From V.Sys Require Parsers.
Ltac Zify.zify_post_hook ::= Z.div_mod_to_equations.

Local Open Scope Z_scope.

Lemma count_ok_iff n : 0 <= n -> (count_ok n = Ok tt <-> 1 <= n <= MAX_PROOF_COUNT).
Proof.
  intro Hn. unfold count_ok, Parsers.validate_proof_count, guard, rbind.
  destruct (Z.eqb_spec n 0) as [->|N]; cbn [negb].
  - split; [discriminate|unfold MAX_PROOF_COUNT; lia].
  - destruct (Z.leb_spec n MAX_PROOF_COUNT) as [Hle|Hgt]; split; intro X; try reflexivity; try discriminate;
      unfold MAX_PROOF_COUNT in *; lia.
Qed.
Lemma count_ok_cases n : count_ok n = Ok tt \/ count_ok n = Err E_COUNT.
Proof. unfold count_ok. destruct (Parsers.validate_proof_count n) as [[]|]; auto. Qed.

Lemma pr_pi_len_exact n : 1 <= n <= MAX_PROOF_COUNT -> Parsers.pr_pi_len n = 21 * n + 8.
Proof.
  unfold MAX_PROOF_COUNT, Parsers.pr_pi_len, Parsers.wrap64, PR_LEAF_PI_LEN, two64. intro H.
  rewrite (Z.mod_small (21 * n)) by lia. rewrite Z.mod_small by lia. reflexivity.
Qed.

Section Proofs.
  Variable VK : Type.
  Variable PROOF : Type.
  Variable Verify : VK -> list Z -> PROOF -> bool.
  Variable H : list Z -> list Z.

  Notation pb_new := (private_batch_new VK).
  Notation pub_new := (public_batch_new VK).
  Notation pb_sat := (private_batch_sat VK PROOF Verify H).
  Notation pub_sat := (public_batch_sat VK PROOF Verify H).

  (* ---- constructors *)
  Lemma private_batch_new_iff vk npis n c : 0 <= n ->
    (pb_new vk npis n = Ok c <-> 1 <= n <= MAX_PROOF_COUNT /\ npis = PR_LEAF_PI_LEN /\ c = mkPB vk n).
  Proof.
    intro Hn. unfold private_batch_new, rbind.
    destruct (count_ok_cases n) as [E|E]; rewrite E.
    - apply (count_ok_iff n Hn) in E.
      destruct (Z.eqb_spec npis PR_LEAF_PI_LEN) as [->|N]; cbn [guard].
      + split; [intro X; inversion X; auto|intros (_ & _ & ->); reflexivity].
      + split; [discriminate|intros (_ & X & _); contradiction].
    - split; [discriminate|]. intros (X & _). apply (count_ok_iff n Hn) in X. congruence.
  Qed.

  Lemma private_batch_new_rejects_wrong_pi_len vk npis n :
    npis <> PR_LEAF_PI_LEN -> exists e, pb_new vk npis n = Err e /\ e <> -1.
  Proof.
    intro N. unfold private_batch_new, rbind.
    destruct (count_ok_cases n) as [E|E]; rewrite E.
    - destruct (Z.eqb_spec npis PR_LEAF_PI_LEN); [contradiction|]. exists E_PI_LEN. split; [reflexivity|discriminate].
    - exists E_COUNT. split; [reflexivity|discriminate].
  Qed.

  Lemma public_batch_new_iff vk npis m n c : 0 <= m -> 0 <= n ->
    (pub_new vk npis m n = Ok c <->
     1 <= m <= MAX_PROOF_COUNT /\ 1 <= n <= MAX_PROOF_COUNT /\ npis = 21 * n + 8 /\ c = mkPUB vk m n).
  Proof.
    intros Hm Hn. unfold public_batch_new, rbind.
    destruct (count_ok_cases m) as [Em|Em]; rewrite Em.
    - apply (count_ok_iff m Hm) in Em.
      destruct (count_ok_cases n) as [En|En]; rewrite En.
      + apply (count_ok_iff n Hn) in En. rewrite (pr_pi_len_exact n En).
        destruct (Z.eqb_spec npis (21 * n + 8)) as [->|N]; cbn [guard].
        * split; [intro X; inversion X; auto|intros (_ & _ & _ & ->); reflexivity].
        * split; [discriminate|intros (_ & _ & X & _); contradiction].
      + split; [discriminate|]. intros (_ & X & _). apply (count_ok_iff n Hn) in X. congruence.
    - split; [discriminate|]. intros (X & _). apply (count_ok_iff m Hm) in X. congruence.
  Qed.

  Lemma public_batch_new_rejects_wrong_pi_len vk npis m n :
    npis <> Parsers.pr_pi_len n -> exists e, pub_new vk npis m n = Err e /\ e <> -1.
  Proof.
    intro N. unfold public_batch_new, rbind.
    destruct (count_ok_cases m) as [Em|Em]; rewrite Em; [|exists E_COUNT; split; [reflexivity|discriminate]].
    destruct (count_ok_cases n) as [En|En]; rewrite En; [|exists E_COUNT; split; [reflexivity|discriminate]].
    destruct (Z.eqb_spec npis (Parsers.pr_pi_len n)); [contradiction|].
    exists E_PI_LEN. split; [reflexivity|discriminate].
  Qed.

  Lemma new_keeps_key vk npis n c : pb_new vk npis n = Ok c -> pb_vk c = vk /\ pb_n c = n.
  Proof.
    unfold private_batch_new, rbind. destruct (count_ok n); [|discriminate].
    destruct (npis =? PR_LEAF_PI_LEN); cbn [guard]; [|discriminate]. intro X; inversion X; auto.
  Qed.
  Lemma pub_new_keeps_key vk npis m n c : pub_new vk npis m n = Ok c -> pub_vk c = vk /\ pub_m c = m /\ pub_n c = n.
  Proof.
    unfold public_batch_new, rbind. destruct (count_ok m); [|discriminate]. destruct (count_ok n); [|discriminate].
    destruct (npis =? Parsers.pr_pi_len n); cbn [guard]; [|discriminate]. intro X; inversion X; auto.
  Qed.

  (* ---- every slot is verified against the one key the circuit was built with *)
  Lemma private_vk_is_constant vk npis n c children pre out :
    pb_new vk npis n = Ok c -> pb_sat c children pre out ->
    forall ch, In ch children -> Verify vk (ch_pis ch) (ch_proof ch) = true.
  Proof.
    intros Hnew (_ & Hrec & _) ch Hin. destruct (new_keeps_key _ _ _ _ Hnew) as [<- _].
    unfold recursive_verifiers in Hrec. rewrite Forall_forall in Hrec. apply Hrec. exact Hin.
  Qed.
  Lemma public_vk_is_constant vk npis m n c addr children out :
    pub_new vk npis m n = Ok c -> pub_sat c addr children out ->
    forall ch, In ch children -> Verify vk (ch_pis ch) (ch_proof ch) = true.
  Proof.
    intros Hnew (_ & Hrec & _) ch Hin. destruct (pub_new_keeps_key _ _ _ _ _ Hnew) as [<- _].
    unfold recursive_verifiers in Hrec. rewrite Forall_forall in Hrec. apply Hrec. exact Hin.
  Qed.

  (* ---- under knowledge soundness, a proof of a different circuit makes the outer circuit unsatisfiable *)
  Section Crypto.
    Variable produced_by : VK -> PROOF -> Prop.
    (* PREMISES (cryptographic, not proved): an accepted proof was produced for the circuit whose key it was
       verified under; and a proof is a proof for one circuit only (distinct circuits have distinct keys). *)
    Hypothesis knowledge_sound : forall vk pis pf, Verify vk pis pf = true -> produced_by vk pf.
    Hypothesis one_circuit : forall vk vk' pf, produced_by vk pf -> produced_by vk' pf -> vk = vk'.

    Lemma private_foreign_unsat vk npis n c children pre out ch vk' :
      pb_new vk npis n = Ok c -> In ch children -> produced_by vk' (ch_proof ch) -> vk' <> vk ->
      ~ pb_sat c children pre out.
    Proof.
      intros Hnew Hin Hp Hne Hsat. apply Hne.
      apply (one_circuit vk' vk (ch_proof ch) Hp). apply (knowledge_sound vk (ch_pis ch)).
      eapply private_vk_is_constant; eassumption.
    Qed.
    Lemma public_foreign_unsat vk npis m n c addr children out ch vk' :
      pub_new vk npis m n = Ok c -> In ch children -> produced_by vk' (ch_proof ch) -> vk' <> vk ->
      ~ pub_sat c addr children out.
    Proof.
      intros Hnew Hin Hp Hne Hsat. apply Hne.
      apply (one_circuit vk' vk (ch_proof ch) Hp). apply (knowledge_sound vk (ch_pis ch)).
      eapply public_vk_is_constant; eassumption.
    Qed.
  End Crypto.
End Proofs.

(* ---------------------------------------------------------------- the ideal instance meets the premises *)
Definition iproduced_by (vk : ikey) (pf : iproof) : Prop := fst pf = vk.
Lemma ideal_sound vk pis pf : iverify vk pis pf = true -> iproduced_by vk pf.
Proof.
  unfold iverify, iproduced_by. intro X. apply andb_true_iff in X. destruct X as [X _].
  apply list_eqb_spec in X. symmetry. exact X.
Qed.
Lemma ideal_one_circuit vk vk' pf : iproduced_by vk pf -> iproduced_by vk' pf -> vk = vk'.
Proof. unfold iproduced_by. congruence. Qed.

Lemma recursive_verifiers_b_spec VK PROOF Verify vk children :
  recursive_verifiers_b VK PROOF Verify vk children = true <-> recursive_verifiers VK PROOF Verify vk children.
Proof. unfold recursive_verifiers_b, recursive_verifiers. rewrite forallb_forall, Forall_forall. tauto. Qed.

Lemma rec_accepts_foreign baked children w ch :
  In ch children -> fst (ch_proof ch) <> baked -> rec_accepts baked children w = false.
Proof.
  intros Hin Hne. unfold rec_accepts. apply andb_false_iff. left.
  destruct (recursive_verifiers_b _ _ _ _ _) eqn:E; [|reflexivity].
  apply recursive_verifiers_b_spec in E. unfold recursive_verifiers in E. rewrite Forall_forall in E.
  specialize (E _ Hin). apply ideal_sound in E. unfold iproduced_by in E. exfalso. apply Hne. exact E.
Qed.
