(* The public-batch wrapper (model: PublicBatch.v = build_public_batch_constraints) against its
   specification (Spec/LeanPort.v: pub_compat / pub_output).

   Main results, for every hash H (unused: the wrapper does not hash), every n >= 1, every canonical
   4-felt address and every non-empty vector of well-formed inner statements:
     public_batch_spec     rel  <-> pub_compat = true /\ post (pub_output ..)
     public_batch_hon      hon  =  if pub_compat then Some (pub_output ..) else None
     refines_public_batch  no witness freedom
   plus the structure of [pub_output] (header / per-inner segments) and of [pub_compat]. *)
From Coq Require Import ZArith Lia List Bool.
From V.Base Require Import Common.
From V.Generated Require Import Constants.
From V.Circ Require Import Field Core Prims Gadgets GadgetsProofs SortNet Sorting PrivateBatch PublicBatch.
From V.Spec Require Import LeanPort.
Import ListNotations.
Open Scope Z_scope.
(* mathcomp.zify (loaded through Base/Flt.v) resets the hook; set it again after all imports *)
Ltac Zify.zify_post_hook ::= Z.div_mod_to_equations.

(* ================= generic list facts ================= *)
Lemma fa_firstn {A} (P : A -> Prop) k : forall l, Forall P l -> Forall P (firstn k l).
Proof.
  induction k as [|k IH]; intros l F; cbn [firstn]; [constructor|].
  destruct F as [|x l Hx F]; constructor; [exact Hx|apply IH, F].
Qed.
Lemma fa_skipn {A} (P : A -> Prop) k : forall l, Forall P l -> Forall P (skipn k l).
Proof.
  induction k as [|k IH]; intros l F; cbn [skipn]; [exact F|].
  destruct F as [|x l Hx F]; [constructor|apply IH, F].
Qed.
Lemma canon_nth l i : Forall canon l -> canon (nth i l 0).
Proof.
  intros F. destruct (nth_in_or_default i l 0) as [I|E]; [|rewrite E; apply canon_0].
  rewrite Forall_forall in F. apply F, I.
Qed.
Lemma map_combine_map {A B C} (f : A -> B) (g : B * A -> C) l :
  map g (combine (map f l) l) = map (fun x => g (f x, x)) l.
Proof. induction l as [|x l IH]; cbn [map combine]; [reflexivity|rewrite IH; reflexivity]. Qed.
Lemma map_const_repeat {A B} (b : B) (l : list A) : map (fun _ => b) l = repeat b (length l).
Proof. induction l as [|x l IH]; cbn [map length repeat]; [reflexivity|rewrite IH; reflexivity]. Qed.
Lemma find_app {A} (f : A -> bool) l1 l2 :
  find f (l1 ++ l2) = match find f l1 with Some x => Some x | None => find f l2 end.
Proof. induction l1 as [|x l1 IH]; cbn [app find]; [reflexivity|]. destruct (f x); [reflexivity|exact IH]. Qed.
Lemma find_map {A B} (f : B -> bool) (g : A -> B) l :
  find f (map g l) = option_map g (find (fun x => f (g x)) l).
Proof. induction l as [|x l IH]; cbn [map find option_map]; [reflexivity|]. destruct (f (g x)); [reflexivity|exact IH]. Qed.
Lemma find_all_false {A} (f : A -> bool) l : (forall x, In x l -> f x = false) -> find f l = None.
Proof.
  induction l as [|x l IH]; intros E; cbn [find]; [reflexivity|].
  rewrite (E x) by (left; reflexivity). apply IH. intros y I. apply E. right; exact I.
Qed.
Lemma zlen_repeat {A} (a : A) k : zlen (repeat a k) = Z.of_nat k.
Proof. unfold zlen. rewrite repeat_length. reflexivity. Qed.
Lemma zlen_map {A B} (f : A -> B) l : zlen (map f l) = zlen l.
Proof. unfold zlen. rewrite map_length. reflexivity. Qed.

(* ---- regions (slices) ---- *)
Lemma region_length (l : list Z) s len : 0 <= s -> 0 <= len -> s + len <= zlen l ->
  length (region l s len) = Z.to_nat len.
Proof. intros Hs Hl Hb. unfold region, zlen in *. rewrite firstn_length, skipn_length. lia. Qed.
Lemma region_zlen (l : list Z) s len : 0 <= s -> 0 <= len -> s + len <= zlen l -> zlen (region l s len) = len.
Proof. intros Hs Hl Hb. unfold zlen at 1. rewrite region_length by assumption. lia. Qed.
Lemma region_canon (l : list Z) s len : Forall canon l -> Forall canon (region l s len).
Proof. intros F. unfold region. apply fa_firstn, fa_skipn, F. Qed.
Lemma region_all (l : list Z) : region l 0 (zlen l) = l.
Proof. unfold region, zlen. rewrite Nat2Z.id. cbn [Z.to_nat skipn]. apply firstn_all. Qed.
Lemma region_app_skip (a b : list Z) s len : 0 <= s -> region (a ++ b) (zlen a + s) len = region b s len.
Proof.
  intros Hs. unfold region, zlen. rewrite skipn_app.
  replace (Z.to_nat (Z.of_nat (length a) + s)) with (length a + Z.to_nat s)%nat by lia.
  rewrite skipn_all2 by lia. cbn [app]. replace (length a + Z.to_nat s - length a)%nat with (Z.to_nat s) by lia.
  reflexivity.
Qed.
Lemma region_app_take (b c : list Z) s len : 0 <= s -> 0 <= len -> s + len <= zlen b ->
  region (b ++ c) s len = region b s len.
Proof.
  intros Hs Hl Hb. unfold region, zlen in *. rewrite skipn_app, firstn_app.
  replace (Z.to_nat s - length b)%nat with 0%nat by lia. cbn [skipn].
  rewrite skipn_length. replace (Z.to_nat len - (length b - Z.to_nat s))%nat with 0%nat by lia.
  cbn [firstn]. apply app_nil_r.
Qed.
Lemma region_concat_chunk (k : Z) (ls : list (list Z)) : 0 <= k -> Forall (fun l => zlen l = k) ls ->
  forall i, (i < length ls)%nat -> region (concat ls) (Z.of_nat i * k) k = nth i ls [].
Proof.
  intros Hk F. induction F as [|l ls Hl F IH]; intros i Hi; cbn [length] in Hi; [lia|].
  cbv beta in Hl. cbn [concat]. destruct i as [|i].
  - cbn [nth]. rewrite Z.mul_0_l. rewrite region_app_take by lia. rewrite <- Hl. apply region_all.
  - cbn [nth]. replace (Z.of_nat (S i) * k) with (zlen l + Z.of_nat i * k) by lia.
    rewrite region_app_skip by lia. apply IH. lia.
Qed.
Lemma zlen_concat_chunks (k : Z) (ls : list (list Z)) : Forall (fun l => zlen l = k) ls ->
  zlen (concat ls) = k * zlen ls.
Proof.
  induction 1 as [|l ls Hl F IH]; cbn [concat]; [unfold zlen; cbn [length]; lia|].
  cbv beta in Hl. rewrite zlen_app, zlen_cons, IH, Hl. lia.
Qed.

Lemma b2z_eq_1 b : b2z b = 1 <-> b = true.
Proof. destruct b; cbn [b2z]; split; intros E; try reflexivity; discriminate. Qed.
Lemma b2z_eqb_1 b : (b2z b =? 1) = b.
Proof. destruct b; reflexivity. Qed.

Lemma g_select_1_0 v : g_select 1 0 v = 0.
Proof. unfold g_select. replace (1 * 0 - (1 * v - v)) with 0 by lia. reflexivity. Qed.
Lemma g_select_0_0 v : canon v -> g_select 0 0 v = v.
Proof. intros Hv. unfold g_select. replace (0 * 0 - (0 * v - v)) with v by lia. apply Z.mod_small. exact Hv. Qed.

(* ================= well-formed inner statements ================= *)
Lemma inner_wf_canon n pis : inner_wf n pis -> Forall canon pis.
Proof. intros [_ F]; exact F. Qed.
Lemma in_bh_region pis : in_bh pis = region pis 3 4.
Proof. reflexivity. Qed.
Lemma in_bh_length n pis : 1 <= n -> inner_wf n pis -> length (in_bh pis) = 4%nat.
Proof. intros Hn [L _]. rewrite in_bh_region. rewrite region_length by lia. reflexivity. Qed.
Lemma in_bh_canon n pis : inner_wf n pis -> Forall canon (in_bh pis).
Proof. intros [_ F]. rewrite in_bh_region. apply region_canon, F. Qed.
Lemma in_asset_canon n pis : inner_wf n pis -> canon (in_asset pis).
Proof. intros [_ F]. apply canon_nth, F. Qed.
Lemma in_fee_canon n pis : inner_wf n pis -> canon (in_fee pis).
Proof. intros [_ F]. apply canon_nth, F. Qed.
Lemma in_bn_canon n pis : inner_wf n pis -> canon (in_bn pis).
Proof. intros [_ F]. apply canon_nth, F. Qed.
Lemma zero4_canon : Forall canon zero4.
Proof. repeat constructor; apply canon_0. Qed.

(* the consistency predicate of one inner against given references *)
Definition cons_ok (a f : Z) (bh : list Z) (pis : list Z) : bool :=
  is_dummy_inner pis || ((in_asset pis =? a) && (in_fee pis =? f) && list_eqb (in_bh pis) bh).
Definition dflag (pis : list Z) : Z := b2z (is_dummy_inner pis).

(* the two forwarded regions and the header of the specification output *)
Definition pub_header (n : Z) (address : list Z) (inners : list (list Z)) : list Z :=
  let '(asset_ref, fee_ref, bh_ref, bn_ref) := pub_ref inners in
  address ++ [asset_ref; fee_ref] ++ bh_ref ++ [bn_ref; 2 * n * zlen inners].
Definition pub_exits (n : Z) (inners : list (list Z)) : list Z :=
  concat (map (fun q => fwd_region q 8 (10 * n)) inners).
Definition pub_nulls (n : Z) (inners : list (list Z)) : list Z :=
  concat (map (fun q => fwd_region q (8 + 10 * n) (4 * n)) inners).

Lemma pub_output_split n address inners :
  pub_output n address inners = pub_header n address inners ++ pub_exits n inners ++ pub_nulls n inners.
Proof.
  unfold pub_output, pub_header, pub_exits, pub_nulls. destruct (pub_ref inners) as [[[a f] bh] bn].
  rewrite <- !app_assoc. reflexivity.
Qed.

Lemma pub_compat_cons_ok inners :
  pub_compat inners =
  let '(a, f, bh, _) := pub_ref inners in forallb (cons_ok a f bh) inners.
Proof. unfold pub_compat. destruct (pub_ref inners) as [[[a f] bh] bn]. reflexivity. Qed.

Section PublicBatchProofs.
  Variable H : list Z -> list Z.
  Variable n : Z.
  Hypothesis Hn : 1 <= n.

  (* conditional determinism: satisfiable iff [b]; then the only output is [v], also the honest one *)
  Definition cdet {A} (c : Circ A) (b : bool) (v : A) : Prop :=
    (forall post, rel H c post <-> (b = true /\ post v)) /\ hon H c = if b then Some v else None.

  Lemma det_cdet_bind {A B} (c : Circ A) (f : A -> Circ B) v b w :
    det H c v -> cdet (f v) b w -> cdet (bind c f) b w.
  Proof.
    intros [Rc Hc] [Rf Hf]. split.
    - intros post. rewrite rel_bind, Rc. apply Rf.
    - rewrite hon_bind, Hc. exact Hf.
  Qed.
  Lemma cdet_det_bind {A B} (c : Circ A) (f : A -> Circ B) v b w :
    cdet c b v -> det H (f v) w -> cdet (bind c f) b w.
  Proof.
    intros [Rc Hc] [Rf Hf]. split.
    - intros post. rewrite rel_bind, Rc, Rf. tauto.
    - rewrite hon_bind, Hc. destruct b; [exact Hf|reflexivity].
  Qed.
  Lemma cdet_refines {A} (c : Circ A) b v : cdet c b v -> refines H c.
  Proof.
    intros [R E] post. rewrite R, E. destruct b; [tauto|]. split; [intros [D _]; discriminate|tauto].
  Qed.

  (* ---- 1. dummy flags ---- *)
  Lemma det_pub_dummy_flags inners : Forall (inner_wf n) inners ->
    det H (pub_dummy_flags inners) (map dflag inners).
  Proof.
    unfold pub_dummy_flags.
    induction 1 as [|pis r W F IH]; cbn [cmapM map]; [apply det_ret; reflexivity|].
    eapply det_bind.
    { split; [intros post; apply rel_bytes_digest_eq|apply hon_bytes_digest_eq_4];
        try reflexivity; try apply zero4_canon;
        try (eapply in_bh_length; eassumption); eapply in_bh_canon; eassumption. }
    eapply det_bind; [exact IH|]. apply det_ret. reflexivity.
  Qed.

  (* ---- 2. the first-real prefix scan ---- *)
  Lemma pub_scan_ref_spec inners : Forall (inner_wf n) inners ->
    forall (f : bool) bref bn asset fee,
      length bref = 4%nat -> Forall canon bref -> canon bn -> canon asset -> canon fee ->
      pub_scan_ref inners (map dflag inners) (b2z f) bref bn asset fee =
      if f then (bref, bn, asset, fee)
      else match find is_real_inner inners with
           | Some q => (in_bh q, in_bn q, in_asset q, in_fee q)
           | None => (bref, bn, asset, fee)
           end.
  Proof.
    induction 1 as [|pis r W F IH]; intros f bref bn asset fee Lb Cb Cbn Ca Cf.
    - cbn [map pub_scan_ref find]. destruct f; reflexivity.
    - cbn [map pub_scan_ref find]. change (dflag pis) with (b2z (is_dummy_inner pis)).
      rewrite !g_not_b, g_and_b, g_or_b.
      change (map2z (g_select (b2z (negb (is_dummy_inner pis) && negb f))) (in_bh pis) bref)
        with (select_halves (b2z (negb (is_dummy_inner pis) && negb f)) (in_bh pis) bref).
      pose proof (in_bh_length n pis Hn W) as L4. pose proof (in_bh_canon n pis W) as C4.
      pose proof (in_bn_canon n pis W) as C1. pose proof (in_asset_canon n pis W) as C2.
      pose proof (in_fee_canon n pis W) as C3.
      rewrite select_halves_b by (try assumption; congruence).
      rewrite !g_select_b by assumption.
      change (is_real_inner pis) with (negb (is_dummy_inner pis)).
      destruct f, (is_dummy_inner pis); cbn [negb andb orb]; rewrite IH by assumption; reflexivity.
  Qed.

  Lemma pub_scan_ref_init inners : Forall (inner_wf n) inners ->
    pub_scan_ref inners (map dflag inners) 0 zero4 0 0 0 =
    match find is_real_inner inners with
    | Some q => (in_bh q, in_bn q, in_asset q, in_fee q)
    | None => (zero4, 0, 0, 0)
    end.
  Proof.
    intros F. exact (pub_scan_ref_spec inners F false zero4 0 0 0 eq_refl zero4_canon canon_0 canon_0 canon_0).
  Qed.

  (* ---- 3. the consistency assertions ---- *)
  Lemma rel_cons_step pis a f bh (k : Circ unit) post :
    inner_wf n pis -> canon a -> canon f -> length bh = 4%nat -> Forall canon bh ->
    (rel H (asset_matches <- is_equal (in_asset pis) a ;;
            Assert (g_or (dflag pis) asset_matches) 1 (
            fee_matches <- is_equal (in_fee pis) f ;;
            Assert (g_or (dflag pis) fee_matches) 1 (
            block_matches <- bytes_digest_eq (in_bh pis) bh ;;
            Assert (g_or (dflag pis) block_matches) 1 k))) post
     <-> cons_ok a f bh pis = true /\ rel H k post).
  Proof.
    intros W Ca Cf Lb Cb.
    rewrite rel_bind, rel_is_equal by (try assumption; eapply in_asset_canon; eassumption).
    cbn [rel].
    rewrite rel_bind, rel_is_equal by (try assumption; eapply in_fee_canon; eassumption).
    cbn [rel].
    rewrite rel_bind, rel_bytes_digest_eq
      by (try assumption; try (eapply in_bh_length; eassumption); eapply in_bh_canon; eassumption).
    cbn [rel]. unfold dflag, cons_ok. rewrite !g_or_b, !b2z_eq_1.
    destruct (is_dummy_inner pis), (in_asset pis =? a), (in_fee pis =? f), (list_eqb (in_bh pis) bh);
      cbn [orb andb]; intuition discriminate.
  Qed.

  Lemma hon_cons_step pis a f bh (k : Circ unit) :
    length (in_bh pis) = 4%nat -> length bh = 4%nat ->
    hon H (asset_matches <- is_equal (in_asset pis) a ;;
           Assert (g_or (dflag pis) asset_matches) 1 (
           fee_matches <- is_equal (in_fee pis) f ;;
           Assert (g_or (dflag pis) fee_matches) 1 (
           block_matches <- bytes_digest_eq (in_bh pis) bh ;;
           Assert (g_or (dflag pis) block_matches) 1 k)))
    = if cons_ok a f bh pis then hon H k else None.
  Proof.
    intros L4 Lb.
    rewrite hon_bind, hon_is_equal. cbn [hon]. unfold dflag, cons_ok. rewrite g_or_b, b2z_eqb_1.
    destruct (is_dummy_inner pis) eqn:D; cbn [orb].
    - rewrite hon_bind, hon_is_equal. cbn [hon]. rewrite g_or_b, b2z_eqb_1. cbn [orb].
      rewrite hon_bind, hon_bytes_digest_eq_4 by assumption. cbn [hon]. rewrite g_or_b, b2z_eqb_1. reflexivity.
    - destruct (in_asset pis =? a); cbn [andb]; [|reflexivity].
      rewrite hon_bind, hon_is_equal. cbn [hon]. rewrite g_or_b, b2z_eqb_1. cbn [orb].
      destruct (in_fee pis =? f); cbn [andb]; [|reflexivity].
      rewrite hon_bind, hon_bytes_digest_eq_4 by assumption. cbn [hon]. rewrite g_or_b, b2z_eqb_1. cbn [orb].
      reflexivity.
  Qed.

  Lemma cdet_pub_consistency a f bh : canon a -> canon f -> length bh = 4%nat -> Forall canon bh ->
    forall inners, Forall (inner_wf n) inners ->
    cdet (pub_consistency inners (map dflag inners) a f bh) (forallb (cons_ok a f bh) inners) tt.
  Proof.
    intros Ca Cf Lb Cb. induction 1 as [|pis r W F IH]; cbn [map pub_consistency forallb].
    - split; [intros post; cbn [rel]; tauto|reflexivity].
    - destruct IH as [IHr IHh]. split.
      + intros post. rewrite rel_cons_step by assumption. rewrite IHr, andb_true_iff. tauto.
      + rewrite hon_cons_step by (try assumption; eapply in_bh_length; eassumption).
        rewrite IHh. destruct (cons_ok a f bh pis); reflexivity.
  Qed.

  (* ---- 4. forwarding ---- *)
  Lemma forward_spec pis start len : inner_wf n pis -> 0 <= start -> 0 <= len -> start + len <= 21 * n + 8 ->
    forward (dflag pis) pis start len = fwd_region pis start len.
  Proof.
    intros [L F] Hs Hl Hb. unfold forward, fwd_region, dflag.
    change (firstn (Z.to_nat len) (skipn (Z.to_nat start) pis)) with (region pis start len).
    destruct (is_dummy_inner pis); cbn [b2z].
    - rewrite (map_ext _ (fun _ => 0)) by (intros v; apply g_select_1_0).
      rewrite map_const_repeat, region_length by lia. reflexivity.
    - rewrite <- (map_id (region pis start len)) at 2. apply map_ext_Forall.
      eapply Forall_impl; [|apply region_canon, F]. intros v Hv. apply g_select_0_0, Hv.
  Qed.

  Lemma forward_exits inners : Forall (inner_wf n) inners ->
    concat (map (fun '(d, pis) => forward d pis PR_OUT_HEADER_LEN (n * 2 * PR_OUT_EXIT_SLOT_LEN))
                (combine (map dflag inners) inners)) = pub_exits n inners.
  Proof.
    intros F. unfold pub_exits. rewrite map_combine_map. f_equal. apply map_ext_Forall.
    eapply Forall_impl; [|exact F]. intros pis W. cbv beta iota.
    replace (n * 2 * PR_OUT_EXIT_SLOT_LEN) with (10 * n) by (unfold PR_OUT_EXIT_SLOT_LEN; lia).
    change PR_OUT_HEADER_LEN with 8. apply forward_spec; [exact W|lia..].
  Qed.
  Lemma forward_nulls inners : Forall (inner_wf n) inners ->
    concat (map (fun '(d, pis) => forward d pis (PR_OUT_HEADER_LEN + n * 2 * PR_OUT_EXIT_SLOT_LEN) (n * 4))
                (combine (map dflag inners) inners)) = pub_nulls n inners.
  Proof.
    intros F. unfold pub_nulls. rewrite map_combine_map. f_equal. apply map_ext_Forall.
    eapply Forall_impl; [|exact F]. intros pis W. cbv beta iota.
    replace (PR_OUT_HEADER_LEN + n * 2 * PR_OUT_EXIT_SLOT_LEN) with (8 + 10 * n)
      by (unfold PR_OUT_HEADER_LEN, PR_OUT_EXIT_SLOT_LEN; lia).
    replace (n * 4) with (4 * n) by lia. apply forward_spec; [exact W|lia..].
  Qed.

  (* ================= the main theorem ================= *)
  Theorem cdet_public_batch address inners : Forall (inner_wf n) inners ->
    cdet (public_batch n address inners) (pub_compat inners) (pub_output n address inners).
  Proof.
    intros F. unfold public_batch.
    eapply det_cdet_bind; [apply det_pub_dummy_flags, F|].
    rewrite pub_scan_ref_init by exact F.
    rewrite forward_exits, forward_nulls by exact F.
    rewrite pub_compat_cons_ok, pub_output_split. unfold pub_header, pub_ref.
    destruct (find is_real_inner inners) as [q|] eqn:Ef; cbv beta iota.
    - apply find_some in Ef. destruct Ef as [Iq _].
      assert (Wq : inner_wf n q) by (rewrite Forall_forall in F; apply F, Iq).
      eapply cdet_det_bind.
      { apply cdet_pub_consistency; try exact F;
          [eapply in_asset_canon|eapply in_fee_canon|eapply in_bh_length|eapply in_bh_canon]; eassumption. }
      apply det_ret. replace (zlen inners * (n * 2)) with (2 * n * zlen inners) by lia.
      rewrite <- !app_assoc. reflexivity.
    - eapply cdet_det_bind.
      { apply cdet_pub_consistency; try exact F; try apply canon_0; [reflexivity|apply zero4_canon]. }
      apply det_ret. replace (zlen inners * (n * 2)) with (2 * n * zlen inners) by lia.
      rewrite <- !app_assoc. reflexivity.
  Qed.

  Theorem public_batch_spec address inners : Forall (inner_wf n) inners ->
    forall post, rel H (public_batch n address inners) post <->
                 (pub_compat inners = true /\ post (pub_output n address inners)).
  Proof. intros F. apply (cdet_public_batch address inners F). Qed.

  Theorem public_batch_hon address inners : Forall (inner_wf n) inners ->
    hon H (public_batch n address inners) =
    if pub_compat inners then Some (pub_output n address inners) else None.
  Proof. intros F. apply (cdet_public_batch address inners F). Qed.

  Theorem refines_public_batch address inners : Forall (inner_wf n) inners ->
    refines H (public_batch n address inners).
  Proof. intros F. eapply cdet_refines, cdet_public_batch, F. Qed.
End PublicBatchProofs.

(* ================= structure of the output (C12) ================= *)
Lemma fwd_region_zlen n q s len : inner_wf n q -> 0 <= s -> 0 <= len -> s + len <= 21 * n + 8 ->
  zlen (fwd_region q s len) = len.
Proof.
  intros [L _] Hs Hl Hb. unfold fwd_region. destruct (is_dummy_inner q).
  - rewrite zlen_repeat. lia.
  - apply region_zlen; lia.
Qed.

Lemma pub_header_zlen n address inners : 1 <= n -> length address = 4%nat -> Forall (inner_wf n) inners ->
  zlen (pub_header n address inners) = 12.
Proof.
  intros Hn La F. unfold pub_header, pub_ref.
  destruct (find is_real_inner inners) as [q|] eqn:Ef.
  - apply find_some in Ef. destruct Ef as [Iq _].
    assert (Wq : inner_wf n q) by (rewrite Forall_forall in F; apply F, Iq).
    pose proof (in_bh_length n q Hn Wq) as L4.
    unfold zlen. rewrite !app_length, La, L4. reflexivity.
  - unfold zlen. rewrite !app_length, La. reflexivity.
Qed.

Lemma pub_exits_chunks n inners : 1 <= n -> Forall (inner_wf n) inners ->
  Forall (fun l => zlen l = 10 * n) (map (fun q => fwd_region q 8 (10 * n)) inners).
Proof.
  intros Hn F. apply Forall_map. eapply Forall_impl; [|exact F]. intros q W. apply (fwd_region_zlen n); [exact W|lia..].
Qed.
Lemma pub_nulls_chunks n inners : 1 <= n -> Forall (inner_wf n) inners ->
  Forall (fun l => zlen l = 4 * n) (map (fun q => fwd_region q (8 + 10 * n) (4 * n)) inners).
Proof.
  intros Hn F. apply Forall_map. eapply Forall_impl; [|exact F]. intros q W. apply (fwd_region_zlen n); [exact W|lia..].
Qed.
Lemma pub_exits_zlen n inners : 1 <= n -> Forall (inner_wf n) inners -> zlen (pub_exits n inners) = 10 * n * zlen inners.
Proof.
  intros Hn F. unfold pub_exits. rewrite (zlen_concat_chunks (10 * n)) by (apply pub_exits_chunks; assumption).
  rewrite zlen_map. reflexivity.
Qed.
Lemma pub_nulls_zlen n inners : 1 <= n -> Forall (inner_wf n) inners -> zlen (pub_nulls n inners) = 4 * n * zlen inners.
Proof.
  intros Hn F. unfold pub_nulls. rewrite (zlen_concat_chunks (4 * n)) by (apply pub_nulls_chunks; assumption).
  rewrite zlen_map. reflexivity.
Qed.

Lemma pub_output_zlen n address inners : 1 <= n -> length address = 4%nat -> Forall (inner_wf n) inners ->
  zlen (pub_output n address inners) = 12 + 14 * n * zlen inners.
Proof.
  intros Hn La F. rewrite pub_output_split, !zlen_app, pub_header_zlen, pub_exits_zlen, pub_nulls_zlen by assumption.
  lia.
Qed.

Lemma pub_header_spelled n address inners :
  pub_header n address inners =
  address ++ (match find is_real_inner inners with
              | Some q => [nth 1 q 0; nth 2 q 0] ++ firstn 4 (skipn 3 q) ++ [nth 7 q 0]
              | None => [0; 0; 0; 0; 0; 0; 0]
              end) ++ [2 * n * zlen inners].
Proof.
  unfold pub_header, pub_ref. destruct (find is_real_inner inners) as [q|].
  - change (in_bh q) with (firstn 4 (skipn 3 q)). rewrite <- !app_assoc. reflexivity.
  - reflexivity.
Qed.

Lemma pub_output_header n address inners : 1 <= n -> length address = 4%nat -> Forall (inner_wf n) inners ->
  region (pub_output n address inners) 0 12 = pub_header n address inners.
Proof.
  intros Hn La F. pose proof (pub_header_zlen n address inners Hn La F) as L12.
  rewrite pub_output_split, region_app_take by lia. rewrite <- L12. apply region_all.
Qed.

Lemma pub_output_exit_region n address inners : 1 <= n -> length address = 4%nat -> Forall (inner_wf n) inners ->
  region (pub_output n address inners) 12 (10 * n * zlen inners) = pub_exits n inners.
Proof.
  intros Hn La F. pose proof (pub_header_zlen n address inners Hn La F) as L12.
  pose proof (pub_exits_zlen n inners Hn F) as LE. pose proof (zlen_nonneg inners).
  rewrite pub_output_split. replace 12 with (zlen (pub_header n address inners) + 0) by lia.
  rewrite region_app_skip, region_app_take by nia. rewrite <- LE. apply region_all.
Qed.
Lemma pub_output_null_region n address inners : 1 <= n -> length address = 4%nat -> Forall (inner_wf n) inners ->
  region (pub_output n address inners) (12 + 10 * n * zlen inners) (4 * n * zlen inners) = pub_nulls n inners.
Proof.
  intros Hn La F. pose proof (pub_header_zlen n address inners Hn La F) as L12.
  pose proof (pub_exits_zlen n inners Hn F) as LE. pose proof (pub_nulls_zlen n inners Hn F) as LN.
  pose proof (zlen_nonneg inners).
  rewrite pub_output_split.
  replace (12 + 10 * n * zlen inners) with (zlen (pub_header n address inners) + (zlen (pub_exits n inners) + 0)) by lia.
  rewrite !region_app_skip by nia. rewrite <- LN. apply region_all.
Qed.

Lemma nth_map_in {A B} (f : A -> B) l i dA dB : (i < length l)%nat -> nth i (map f l) dB = f (nth i l dA).
Proof. intros Hi. rewrite (nth_indep _ dB (f dA)) by (rewrite map_length; exact Hi). apply map_nth. Qed.

Lemma pub_output_exit_segment n address inners i :
  1 <= n -> length address = 4%nat -> Forall (inner_wf n) inners -> (i < length inners)%nat ->
  region (pub_output n address inners) (12 + Z.of_nat i * (10 * n)) (10 * n)
  = fwd_region (nth i inners []) 8 (10 * n).
Proof.
  intros Hn La F Hi. pose proof (pub_header_zlen n address inners Hn La F) as L12.
  pose proof (pub_exits_zlen n inners Hn F) as LE.
  rewrite pub_output_split.
  replace (12 + Z.of_nat i * (10 * n)) with (zlen (pub_header n address inners) + Z.of_nat i * (10 * n)) by lia.
  rewrite region_app_skip by nia. rewrite region_app_take by (unfold zlen in *; nia).
  unfold pub_exits. rewrite region_concat_chunk; [|lia|apply pub_exits_chunks; assumption|rewrite map_length; exact Hi].
  exact (nth_map_in (fun q => fwd_region q 8 (10 * n)) inners i [] [] Hi).
Qed.

Lemma pub_output_null_segment n address inners i :
  1 <= n -> length address = 4%nat -> Forall (inner_wf n) inners -> (i < length inners)%nat ->
  region (pub_output n address inners) (12 + 10 * n * zlen inners + Z.of_nat i * (4 * n)) (4 * n)
  = fwd_region (nth i inners []) (8 + 10 * n) (4 * n).
Proof.
  intros Hn La F Hi. pose proof (pub_header_zlen n address inners Hn La F) as L12.
  pose proof (pub_exits_zlen n inners Hn F) as LE.
  rewrite pub_output_split.
  replace (12 + 10 * n * zlen inners + Z.of_nat i * (4 * n))
    with (zlen (pub_header n address inners) + (zlen (pub_exits n inners) + Z.of_nat i * (4 * n))) by lia.
  pose proof (zlen_nonneg (pub_exits n inners)).
  rewrite !region_app_skip by nia.
  unfold pub_nulls. rewrite region_concat_chunk; [|lia|apply pub_nulls_chunks; assumption|rewrite map_length; exact Hi].
  exact (nth_map_in (fun q => fwd_region q (8 + 10 * n) (4 * n)) inners i [] [] Hi).
Qed.

Lemma fwd_region_dummy q s len : is_dummy_inner q = true -> fwd_region q s len = repeat 0 (Z.to_nat len).
Proof. intros D. unfold fwd_region. rewrite D. reflexivity. Qed.
Lemma fwd_region_real q s len : is_dummy_inner q = false -> fwd_region q s len = region q s len.
Proof. intros D. unfold fwd_region. rewrite D. reflexivity. Qed.

(* ================= structure of the acceptance condition (C13) ================= *)
Lemma pub_compat_iff inners :
  pub_compat inners = true <->
  forall a b, In a inners -> In b inners -> is_real_inner a = true -> is_real_inner b = true ->
              in_bh a = in_bh b /\ in_asset a = in_asset b /\ in_fee a = in_fee b.
Proof.
  rewrite pub_compat_cons_ok. unfold pub_ref.
  destruct (find is_real_inner inners) as [q|] eqn:Ef.
  - apply find_some in Ef. destruct Ef as [Iq Rq]. rewrite forallb_forall. split.
    + intros C a b Ia Ib Ra Rb.
      pose proof (C a Ia) as Ca. pose proof (C b Ib) as Cb. unfold cons_ok, is_real_inner in *.
      destruct (is_dummy_inner a); [discriminate|]. destruct (is_dummy_inner b); [discriminate|].
      cbn [orb] in Ca, Cb. rewrite !andb_true_iff, !Z.eqb_eq, list_eqb_spec in Ca, Cb.
      destruct Ca as [[A1 A2] A3]. destruct Cb as [[B1 B2] B3]. repeat split; congruence.
    + intros C x Ix. unfold cons_ok. destruct (is_dummy_inner x) eqn:D; [reflexivity|]. cbn [orb].
      destruct (C x q Ix Iq) as (E1 & E2 & E3); [unfold is_real_inner; rewrite D; reflexivity|exact Rq|].
      rewrite E1, E2, E3, !Z.eqb_refl. cbn [andb]. apply list_eqb_spec. reflexivity.
  - split.
    + intros _ a b Ia _ Ra _. rewrite (find_none _ _ Ef a Ia) in Ra. discriminate.
    + intros _. apply forallb_forall. intros x Ix. unfold cons_ok.
      pose proof (find_none _ _ Ef x Ix) as Rx. unfold is_real_inner in Rx.
      destruct (is_dummy_inner x); [reflexivity|discriminate].
Qed.

Lemma pub_ref_dummy_exempt l1 d d' l2 : is_dummy_inner d = true -> is_dummy_inner d' = true ->
  pub_ref (l1 ++ d :: l2) = pub_ref (l1 ++ d' :: l2).
Proof.
  intros D D'. unfold pub_ref. rewrite !find_app. cbn [find]. unfold is_real_inner at 2 5. rewrite D, D'. reflexivity.
Qed.

Lemma pub_compat_dummy_exempt l1 d d' l2 : is_dummy_inner d = true -> is_dummy_inner d' = true ->
  pub_compat (l1 ++ d :: l2) = pub_compat (l1 ++ d' :: l2).
Proof.
  intros D D'. rewrite !pub_compat_cons_ok. rewrite (pub_ref_dummy_exempt l1 d d' l2 D D').
  destruct (pub_ref (l1 ++ d' :: l2)) as [[[a f] bh] bn].
  rewrite !forallb_app. cbn [forallb].
  assert (E : cons_ok a f bh d = true) by (unfold cons_ok; rewrite D; reflexivity).
  assert (E' : cons_ok a f bh d' = true) by (unfold cons_ok; rewrite D'; reflexivity).
  rewrite E, E'. reflexivity.
Qed.

(* pub_compat is a function of the (asset, fee, block hash) triples alone *)
Definition inner_key (pis : list Z) : Z * Z * list Z := (in_asset pis, in_fee pis, in_bh pis).
Definition key_dummy (k : Z * Z * list Z) : bool := list_eqb (snd k) zero4.
Definition compat_keys (ks : list (Z * Z * list Z)) : bool :=
  let '(a, f, bh) := match find (fun k => negb (key_dummy k)) ks with Some k => k | None => (0, 0, zero4) end in
  forallb (fun k => key_dummy k || ((fst (fst k) =? a) && (snd (fst k) =? f) && list_eqb (snd k) bh)) ks.

Lemma forallb_map_comp {A B} (f : B -> bool) (g : A -> B) l : forallb f (map g l) = forallb (fun x => f (g x)) l.
Proof. induction l as [|x l IH]; cbn [map forallb]; [reflexivity|rewrite IH; reflexivity]. Qed.

Lemma pub_compat_keys inners : pub_compat inners = compat_keys (map inner_key inners).
Proof.
  rewrite pub_compat_cons_ok. unfold compat_keys, pub_ref. rewrite find_map.
  change (fun x : list Z => negb (key_dummy (inner_key x))) with is_real_inner.
  destruct (find is_real_inner inners) as [q|]; cbn [option_map]; unfold inner_key at 1;
    rewrite forallb_map_comp; reflexivity.
Qed.

Lemma pub_compat_only_keys inners inners' :
  map inner_key inners = map inner_key inners' -> pub_compat inners = pub_compat inners'.
Proof. intros E. rewrite !pub_compat_keys, E. reflexivity. Qed.

(* ================= corollaries at the circuit level ================= *)
Section Corollaries.
  Variable H : list Z -> list Z.
  Variable n : Z.
  Hypothesis Hn : 1 <= n.

  Lemma public_batch_output address inners post : Forall (inner_wf n) inners ->
    rel H (public_batch n address inners) post -> post (pub_output n address inners).
  Proof. intros F R. apply (public_batch_spec H n Hn address inners F) in R. apply R. Qed.

  Lemma public_batch_accept_iff address inners : Forall (inner_wf n) inners ->
    ((exists out, rel H (public_batch n address inners) (fun o => o = out)) <-> pub_compat inners = true).
  Proof.
    intros F. split.
    - intros [out R]. apply (public_batch_spec H n Hn address inners F) in R. apply R.
    - intros C. exists (pub_output n address inners). apply (public_batch_spec H n Hn address inners F).
      split; [exact C|reflexivity].
  Qed.

  Lemma public_batch_unique address inners a b : Forall (inner_wf n) inners ->
    rel H (public_batch n address inners) (fun x => x = a) ->
    rel H (public_batch n address inners) (fun x => x = b) -> a = b.
  Proof. intros F. apply refines_unique, refines_public_batch; assumption. Qed.

  Lemma public_batch_honest_fails address inners : Forall (inner_wf n) inners ->
    hon H (public_batch n address inners) = None -> forall post, ~ rel H (public_batch n address inners) post.
  Proof. intros F. apply refines_honest_fails, refines_public_batch; assumption. Qed.
End Corollaries.

(* ================= statement forms used by Properties/C12, C13 ================= *)
Lemma pub_output_segments n address inners i :
  1 <= n -> length address = 4%nat -> Forall (inner_wf n) inners -> (i < length inners)%nat ->
  region (pub_output n address inners) (12 + Z.of_nat i * (10 * n)) (10 * n)
  = (if is_real_inner (nth i inners []) then region (nth i inners []) 8 (10 * n)
     else repeat 0 (Z.to_nat (10 * n))) /\
  region (pub_output n address inners) (12 + 10 * n * zlen inners + Z.of_nat i * (4 * n)) (4 * n)
  = (if is_real_inner (nth i inners []) then region (nth i inners []) (8 + 10 * n) (4 * n)
     else repeat 0 (Z.to_nat (4 * n))).
Proof.
  intros Hn La F Hi. rewrite pub_output_exit_segment, pub_output_null_segment by assumption.
  unfold fwd_region, is_real_inner. destruct (is_dummy_inner (nth i inners [])); split; reflexivity.
Qed.

Lemma pub_output_dummy_zeroed n address inners i :
  1 <= n -> length address = 4%nat -> Forall (inner_wf n) inners -> (i < length inners)%nat ->
  firstn 4 (skipn 3 (nth i inners [])) = [0; 0; 0; 0] ->
  region (pub_output n address inners) (12 + Z.of_nat i * (10 * n)) (10 * n) = repeat 0 (Z.to_nat (10 * n)) /\
  region (pub_output n address inners) (12 + 10 * n * zlen inners + Z.of_nat i * (4 * n)) (4 * n)
  = repeat 0 (Z.to_nat (4 * n)).
Proof.
  intros Hn La F Hi Z4. destruct (pub_output_segments n address inners i Hn La F Hi) as [E1 E2].
  rewrite E1, E2. unfold is_real_inner, is_dummy_inner.
  change (in_bh (nth i inners [])) with (firstn 4 (skipn 3 (nth i inners []))). rewrite Z4.
  split; reflexivity.
Qed.

(* executable well-formedness, for concrete examples *)
Definition inner_wfb (n : Z) (pis : list Z) : bool := (zlen pis =? 21 * n + 8) && forallb is_canon pis.
Lemma inner_wfb_spec n pis : inner_wfb n pis = true -> inner_wf n pis.
Proof.
  unfold inner_wfb, inner_wf. rewrite andb_true_iff, Z.eqb_eq, forallb_forall, Forall_forall.
  intros [L C]. split; [exact L|]. intros x Ix. apply is_canon_spec, C, Ix.
Qed.
Lemma inners_wfb_spec n inners : forallb (inner_wfb n) inners = true -> Forall (inner_wf n) inners.
Proof. rewrite forallb_forall, Forall_forall. intros C x Ix. apply inner_wfb_spec, C, Ix. Qed.

Section Corollaries2.
  Variable H : list Z -> list Z.
  Variable n : Z.
  Hypothesis Hn : 1 <= n.

  Lemma public_batch_dummy_exempt address l1 d d' l2 :
    Forall (inner_wf n) (l1 ++ d :: l2) -> inner_wf n d' ->
    is_dummy_inner d = true -> is_dummy_inner d' = true ->
    ((exists out, rel H (public_batch n address (l1 ++ d :: l2)) (fun o => o = out)) <->
     (exists out, rel H (public_batch n address (l1 ++ d' :: l2)) (fun o => o = out))).
  Proof.
    intros F W' D D'.
    assert (F' : Forall (inner_wf n) (l1 ++ d' :: l2)).
    { apply Forall_app in F. destruct F as [F1 F2]. apply Forall_app. split; [exact F1|].
      inversion F2; subst. constructor; assumption. }
    rewrite !public_batch_accept_iff by assumption.
    rewrite (pub_compat_dummy_exempt l1 d d' l2 D D'). tauto.
  Qed.

  Lemma public_batch_only_keys address address' inners inners' :
    Forall (inner_wf n) inners -> Forall (inner_wf n) inners' ->
    map (fun q => (in_asset q, in_fee q, in_bh q)) inners = map (fun q => (in_asset q, in_fee q, in_bh q)) inners' ->
    ((exists out, rel H (public_batch n address inners) (fun o => o = out)) <->
     (exists out, rel H (public_batch n address' inners') (fun o => o = out))).
  Proof.
    intros F F' E. rewrite !public_batch_accept_iff by assumption.
    rewrite (pub_compat_only_keys inners inners' E). tauto.
  Qed.
End Corollaries2.

(* ---- further statement forms for Properties/C12, C36 ---- *)
Lemma pub_output_spelled n address inners :
  pub_output n address inners =
  address
  ++ (match find is_real_inner inners with
      | Some q => [in_asset q; in_fee q] ++ in_bh q ++ [in_bn q; 2 * n * zlen inners]
      | None => [0; 0] ++ [0; 0; 0; 0] ++ [0; 2 * n * zlen inners]
      end
      ++ concat (map (fun q => if is_dummy_inner q then repeat 0 (Z.to_nat (10 * n)) else region q 8 (10 * n)) inners)
      ++ concat (map (fun q => if is_dummy_inner q then repeat 0 (Z.to_nat (4 * n))
                               else region q (8 + 10 * n) (4 * n)) inners)).
Proof.
  unfold pub_output, pub_ref. destruct (find is_real_inner inners); rewrite <- ?app_assoc; reflexivity.
Qed.
Lemma pub_output_header_spelled n address inners :
  1 <= n -> length address = 4%nat -> Forall (inner_wf n) inners ->
  region (pub_output n address inners) 0 12 =
  address ++ (match find is_real_inner inners with
              | Some q => [nth 1 q 0; nth 2 q 0] ++ firstn 4 (skipn 3 q) ++ [nth 7 q 0]
              | None => [0; 0; 0; 0; 0; 0; 0]
              end) ++ [2 * n * zlen inners].
Proof. intros Hn La F. rewrite pub_output_header by assumption. apply pub_header_spelled. Qed.
Lemma pub_output_regions n address inners :
  1 <= n -> length address = 4%nat -> Forall (inner_wf n) inners ->
  region (pub_output n address inners) 12 (10 * n * zlen inners)
  = concat (map (fun q => fwd_region q 8 (10 * n)) inners) /\
  region (pub_output n address inners) (12 + 10 * n * zlen inners) (4 * n * zlen inners)
  = concat (map (fun q => fwd_region q (8 + 10 * n) (4 * n)) inners).
Proof.
  intros Hn La F.
  exact (conj (pub_output_exit_region n address inners Hn La F) (pub_output_null_region n address inners Hn La F)).
Qed.
Lemma pub_output_parts n address inners :
  pub_output n address inners = pub_header n address inners ++ pub_exits n inners ++ pub_nulls n inners /\
  pub_exits n inners = concat (map (fun q => fwd_region q 8 (10 * n)) inners) /\
  pub_nulls n inners = concat (map (fun q => fwd_region q (8 + 10 * n) (4 * n)) inners).
Proof. split; [apply pub_output_split|split; reflexivity]. Qed.
