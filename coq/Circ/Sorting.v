(* sort_digests4 (common/src/gadgets.rs:285, model Gadgets.v) refines the pure odd-even transposition
   network of SortNet.v on the digests, ordered lexicographically with limb 0 most significant; for at
   most 64 digests that is insertion sort ([sort_spec]). *)
From Coq Require Import ZArith Lia List Bool Permutation Sorted.
From V.Base Require Import Common.
From V.Generated Require Import Constants.
From V.Circ Require Import Field Core Prims Gadgets GadgetsProofs SortNet.
Import ListNotations.
Open Scope Z_scope.
(* mathcomp.zify (loaded through Base/Flt.v) resets the hook; set it again after all imports *)
Ltac Zify.zify_post_hook ::= Z.div_mod_to_equations.

(* ================= the order ================= *)
(* strict lexicographic order on integer lists, head most significant; total on ALL lists (a proper
   prefix is smaller), equal to [lex_ltb] on lists of equal length *)
Fixpoint lexlt (a b : list Z) : bool :=
  match a, b with
  | [], [] => false
  | [], _ :: _ => true
  | _ :: _, [] => false
  | x :: xs, y :: ys => (x <? y) || ((x =? y) && lexlt xs ys)
  end.

Lemma lexlt_cons_true x xs y ys :
  lexlt (x :: xs) (y :: ys) = true <-> x < y \/ (x = y /\ lexlt xs ys = true).
Proof. cbn [lexlt]. rewrite orb_true_iff, andb_true_iff, Z.ltb_lt, Z.eqb_eq. tauto. Qed.
Lemma lexlt_cons_false x xs y ys :
  lexlt (x :: xs) (y :: ys) = false <-> y <= x /\ (x <> y \/ lexlt xs ys = false).
Proof. cbn [lexlt]. rewrite orb_false_iff, andb_false_iff, Z.ltb_ge, Z.eqb_neq. tauto. Qed.

Lemma lexlt_irrefl a : lexlt a a = false.
Proof.
  induction a as [|x a IH]; [reflexivity|]. apply lexlt_cons_false. split; [lia|right; exact IH].
Qed.
Lemma lexlt_trans a : forall b c, lexlt a b = true -> lexlt b c = true -> lexlt a c = true.
Proof.
  induction a as [|x a IH]; intros [|y b] [|z c] A B; try discriminate; try reflexivity.
  apply lexlt_cons_true in A. apply lexlt_cons_true in B. apply lexlt_cons_true.
  destruct A as [A|[A1 A2]]; destruct B as [B|[B1 B2]]; try (left; lia).
  right. split; [lia|]. eapply IH; eassumption.
Qed.
Lemma lexlt_negtrans a : forall b c, lexlt a b = false -> lexlt b c = false -> lexlt a c = false.
Proof.
  induction a as [|x a IH]; intros [|y b] [|z c] A B; try discriminate; try reflexivity.
  apply lexlt_cons_false in A. apply lexlt_cons_false in B. apply lexlt_cons_false.
  destruct A as [A1 A2]; destruct B as [B1 B2]. split; [lia|].
  destruct (Z.eq_dec x z) as [E|N]; [right|left; exact N].
  destruct A2 as [A2|A2]; [lia|]. destruct B2 as [B2|B2]; [lia|]. eapply IH; eassumption.
Qed.
Lemma lexlt_antisym a : forall b, lexlt a b = false -> lexlt b a = false -> a = b.
Proof.
  induction a as [|x a IH]; intros [|y b] A B; try discriminate; try reflexivity.
  apply lexlt_cons_false in A. apply lexlt_cons_false in B.
  destruct A as [A1 A2]; destruct B as [B1 B2].
  assert (E : x = y) by lia. subst y. f_equal.
  destruct A2 as [A2|A2]; [lia|]. destruct B2 as [B2|B2]; [lia|]. apply IH; assumption.
Qed.
Lemma lex_ltb_lexlt a : forall b, length a = length b -> lex_ltb a b = lexlt a b.
Proof.
  induction a as [|x a IH]; intros [|y b] L; cbn [length] in L; try discriminate; [reflexivity|].
  cbn [lex_ltb lexlt]. rewrite IH by lia. reflexivity.
Qed.

(* order on digests = lists of limbs compared as integers, limb 0 most significant *)
Definition digest_ltb : list Z -> list Z -> bool := lexlt.
Definition digest_le (a b : list Z) : Prop := digest_ltb b a = false.
Definition sort_spec (values : list (list Z)) : list (list Z) := isort digest_ltb values.

Lemma digest_ltb_4 a0 a1 a2 a3 b0 b1 b2 b3 :
  digest_ltb [a0; a1; a2; a3] [b0; b1; b2; b3] =
  (a0 <? b0) || ((a0 =? b0) && ((a1 <? b1) || ((a1 =? b1) && ((a2 <? b2) || ((a2 =? b2) && (a3 <? b3)))))).
Proof. unfold digest_ltb. cbn [lexlt]. rewrite andb_false_r, orb_false_r. reflexivity. Qed.

Lemma sort_spec_perm values : Permutation (sort_spec values) values.
Proof. apply isort_perm. Qed.
Lemma sort_spec_sorted values : StronglySorted digest_le (sort_spec values).
Proof. apply (isort_sorted lexlt lexlt_irrefl lexlt_trans lexlt_negtrans). Qed.
Lemma sort_spec_unique values out :
  Permutation out values -> StronglySorted digest_le out -> out = sort_spec values.
Proof.
  intros P S.
  apply (sorted_perm_unique lexlt lexlt_antisym); [exact S|apply sort_spec_sorted|].
  etransitivity; [exact P|symmetry; apply sort_spec_perm].
Qed.

(* ================= 32-bit halves ================= *)
Fixpoint halves (d : list Z) : list Z :=
  match d with
  | [] => []
  | x :: r => (x / two32) :: (x mod two32) :: halves r
  end.

Lemma halves_length d : length (halves d) = (2 * length d)%nat.
Proof. induction d as [|x r IH]; cbn [halves length]; lia. Qed.
Lemma halves_u32 d : Forall canon d -> Forall (fun v => 0 <= v < two32) (halves d).
Proof.
  induction 1 as [|x r Hx F IH]; cbn [halves]; constructor; [apply u32_div_canon, Hx|].
  constructor; [apply u32_mod|exact IH].
Qed.
Lemma egress_halves d : Forall canon d -> egress_limbs (halves d) = d.
Proof.
  induction 1 as [|x r Hx F IH]; cbn [halves egress_limbs]; [reflexivity|]. rewrite IH. f_equal.
  unfold g_mul_const_add. rewrite <- Z.div_mod by (unfold two32; lia). apply Z.mod_small. exact Hx.
Qed.
Lemma halves_order_pair x y r :
  (x / two32 <? y / two32) || ((x / two32 =? y / two32) && ((x mod two32 <? y mod two32) || ((x mod two32 =? y mod two32) && r)))
  = (x <? y) || ((x =? y) && r).
Proof.
  destruct (Z.ltb_spec x y) as [L|L]; destruct (Z.eqb_spec x y) as [E|E];
  destruct (Z.ltb_spec (x / two32) (y / two32)) as [L1|L1];
  destruct (Z.eqb_spec (x / two32) (y / two32)) as [E1|E1];
  destruct (Z.ltb_spec (x mod two32) (y mod two32)) as [L2|L2];
  destruct (Z.eqb_spec (x mod two32) (y mod two32)) as [E2|E2];
  cbn [orb andb]; try reflexivity; exfalso; unfold two32 in *; lia.
Qed.
Lemma lexlt_halves a : forall b, lexlt (halves a) (halves b) = lexlt a b.
Proof.
  induction a as [|x a IH]; intros [|y b]; try reflexivity.
  cbn [halves lexlt]. rewrite IH. apply halves_order_pair.
Qed.

(* ================= linking ================= *)
Definition u32s (h : list Z) : Prop := Forall (fun v => 0 <= v < two32) h.
Definition good_halves (m : nat) (h : list Z) : Prop := length h = m /\ u32s h.

Lemma select_halves_b (f : bool) x : forall y, length x = length y -> Forall canon x -> Forall canon y ->
  select_halves (b2z f) x y = if f then x else y.
Proof.
  unfold select_halves.
  induction x as [|a x IH]; intros [|b y] L Fx Fy; cbn [length] in L; try discriminate.
  - destruct f; reflexivity.
  - inversion Fx; subst. inversion Fy; subst. cbn [combine map].
    rewrite IH by (try lia; assumption). rewrite g_select_b by assumption. destruct f; reflexivity.
Qed.
Lemma u32s_canon h : u32s h -> Forall canon h.
Proof. apply Forall_impl. intros v. apply canon_u32. Qed.

Section Sorting.
  Variable H : list Z -> list Z.
  Notation rel := (rel H).
  Notation hon := (hon H).
  Notation refines := (refines H).

  (* [c] has exactly one reachable output, which is also the honest one *)
  Definition det {A} (c : Circ A) (v : A) : Prop :=
    (forall post, rel c post <-> post v) /\ hon c = Some v.

  Lemma det_ret {A} (a b : A) : a = b -> det (Ret a) b.
  Proof. intros ->. split; [intros post; cbn; tauto|reflexivity]. Qed.
  Lemma det_bind {A B} (c : Circ A) (f : A -> Circ B) v w : det c v -> det (f v) w -> det (bind c f) w.
  Proof.
    intros [Rc Hc] [Rf Hf]. split.
    - intros post. rewrite rel_bind, Rc. apply Rf.
    - rewrite hon_bind, Hc. exact Hf.
  Qed.
  Lemma det_refines {A} (c : Circ A) v : det c v -> refines c.
  Proof. intros [R E]. exact (refines_of_rel_hon H c v R E). Qed.

  Lemma det_split_canonical x : canon x -> det (split_canonical_u32_halves x) (x mod two32, x / two32).
  Proof.
    intros Hx. split; [intros post; apply rel_split_canonical, Hx|apply hon_split_canonical, Hx].
  Qed.
  Lemma det_halves8_lt m a b : good_halves m a -> good_halves m b -> det (halves8_lt a b) (b2z (lexlt a b)).
  Proof.
    intros [La Fa] [Lb Fb]. rewrite <- lex_ltb_lexlt by congruence.
    split; [intros post; apply rel_halves8_lt|apply hon_halves8_lt]; try assumption; congruence.
  Qed.

  (* ---- ingress ---- *)
  Lemma det_ingress_limbs d : Forall canon d -> det (ingress_limbs d) (halves d).
  Proof.
    induction 1 as [|x r Hx F IH]; cbn [ingress_limbs halves]; [apply det_ret; reflexivity|].
    eapply det_bind; [apply det_split_canonical, Hx|]. cbv beta iota.
    eapply det_bind; [exact IH|]. apply det_ret. reflexivity.
  Qed.
  Lemma det_ingress ds : Forall (Forall canon) ds -> det (ingress ds) (map halves ds).
  Proof.
    induction 1 as [|d r Hd F IH]; cbn [ingress map]; [apply det_ret; reflexivity|].
    eapply det_bind; [apply det_ingress_limbs, Hd|].
    eapply det_bind; [exact IH|]. apply det_ret. reflexivity.
  Qed.

  (* ---- the comparator network ---- *)
  Lemma det_cas_pairs m v : Forall (good_halves m) v -> det (cas_pairs v) (cas_pairs_pure lexlt v).
  Proof.
    induction v as [|a|a b r IH] using list_ind2; intros F; cbn [cas_pairs cas_pairs_pure];
      try (apply det_ret; reflexivity).
    inversion F as [|? ? Ga F']; subst. inversion F' as [|? ? Gb Fr]; subst.
    eapply det_bind; [eapply det_halves8_lt; eassumption|].
    eapply det_bind; [apply IH, Fr|]. apply det_ret.
    destruct Ga as [La Ua], Gb as [Lb Ub]. pose proof (u32s_canon _ Ua). pose proof (u32s_canon _ Ub).
    rewrite !select_halves_b by (try assumption; congruence).
    destruct (lexlt a b); reflexivity.
  Qed.
  Lemma good_cas_pairs m v : Forall (good_halves m) v -> Forall (good_halves m) (cas_pairs_pure lexlt v).
  Proof. intros F. eapply Permutation_Forall; [symmetry; apply cas_pairs_perm|exact F]. Qed.
  Lemma det_sort_round m r v : Forall (good_halves m) v -> det (sort_round r v) (sort_round_pure lexlt r v).
  Proof.
    intros F. unfold sort_round, sort_round_pure. destruct (Nat.even r); [eapply det_cas_pairs, F|].
    destruct v as [|x v]; [apply det_ret; reflexivity|]. inversion F; subst.
    eapply det_bind; [eapply det_cas_pairs; eassumption|]. apply det_ret. reflexivity.
  Qed.
  Lemma good_sort_round m r v : Forall (good_halves m) v -> Forall (good_halves m) (sort_round_pure lexlt r v).
  Proof. intros F. eapply Permutation_Forall; [symmetry; apply sort_round_perm|exact F]. Qed.
  Lemma det_sort_rounds m rs : forall v, Forall (good_halves m) v ->
    det (sort_rounds rs v) (sort_rounds_pure lexlt rs v).
  Proof.
    induction rs as [|r rs IH]; intros v F; cbn [sort_rounds sort_rounds_pure]; [apply det_ret; reflexivity|].
    eapply det_bind; [eapply det_sort_round, F|]. apply IH. eapply good_sort_round, F.
  Qed.

  (* ---- the gadget: any number of digests, any common limb count ---- *)
  Definition good_digest (m : nat) (d : list Z) : Prop := length d = m /\ Forall canon d.

  Lemma oets_short {X} (ltb : X -> X -> bool) (v : list X) : (length v <= 1)%nat -> oets ltb v = v.
  Proof. destruct v as [|x [|y v]]; cbn [length]; intros L; [reflexivity|reflexivity|lia]. Qed.

  Theorem det_sort_digests4_oets m values : Forall (good_digest m) values ->
    det (sort_digests4 values) (oets digest_ltb values).
  Proof.
    intros G. unfold sort_digests4, digest_ltb. destruct (Nat.leb_spec (length values) 1) as [L|L].
    - apply det_ret. symmetry. apply oets_short, L.
    - assert (Fc : Forall (Forall canon) values) by (eapply Forall_impl; [|exact G]; intros d [_ C]; exact C).
      assert (Gh : Forall (good_halves (2 * m)) (map halves values)).
      { apply Forall_map. eapply Forall_impl; [|exact G]. intros d [Ld C].
        split; [rewrite halves_length, Ld; reflexivity|apply halves_u32, C]. }
      eapply det_bind; [apply det_ingress, Fc|].
      eapply det_bind; [eapply det_sort_rounds, Gh|]. apply det_ret.
      replace (length values) with (length (map halves values)) by apply map_length.
      change (sort_rounds_pure lexlt (seq 0 (length (map halves values))) (map halves values))
        with (oets lexlt (map halves values)).
      rewrite <- (oets_map_embed lexlt lexlt halves) by (intros a b; apply lexlt_halves).
      rewrite map_map. rewrite <- (map_id (oets lexlt values)) at 2.
      apply map_ext_Forall. apply oets_Forall.
      eapply Forall_impl; [|exact Fc]. intros d C. apply egress_halves, C.
  Qed.

  (* at most 64 digests (MAX_PROOF_COUNT): the network is insertion sort *)
  Lemma oets_sort_spec values : (length values <= NET_MAX)%nat -> oets digest_ltb values = sort_spec values.
  Proof. apply (oets_isort lexlt lexlt_irrefl lexlt_trans lexlt_negtrans lexlt_antisym). Qed.

  Theorem det_sort_digests4 m values : (length values <= NET_MAX)%nat -> Forall (good_digest m) values ->
    det (sort_digests4 values) (sort_spec values).
  Proof. intros L G. rewrite <- oets_sort_spec by exact L. apply det_sort_digests4_oets with (m := m), G. Qed.

  Theorem rel_sort_digests4 values post : (length values <= 64)%nat ->
    Forall (fun d => length d = 4%nat /\ Forall canon d) values ->
    (rel (sort_digests4 values) post <-> post (sort_spec values)).
  Proof. intros L G. apply (det_sort_digests4 4 values L G). Qed.
  Theorem hon_sort_digests4 values : (length values <= 64)%nat ->
    Forall (fun d => length d = 4%nat /\ Forall canon d) values ->
    hon (sort_digests4 values) = Some (sort_spec values).
  Proof. intros L G. apply (det_sort_digests4 4 values L G). Qed.
  (* no witness freedom, any length *)
  Theorem refines_sort_digests4 values :
    Forall (fun d => length d = 4%nat /\ Forall canon d) values -> refines (sort_digests4 values).
  Proof. intros G. eapply det_refines. apply (det_sort_digests4_oets 4 values G). Qed.

  (* permutation, any length: every satisfiable postcondition is witnessed by a permutation of the input,
     and no witness reaches an output that is not one *)
  Theorem sort_digests4_permutation values post :
    Forall (fun d => length d = 4%nat /\ Forall canon d) values ->
    rel (sort_digests4 values) post -> exists out, Permutation out values /\ post out.
  Proof.
    intros G R. apply (det_sort_digests4_oets 4 values G) in R.
    exists (oets digest_ltb values). split; [apply oets_perm|exact R].
  Qed.
  Theorem sort_digests4_never_not_permutation values :
    Forall (fun d => length d = 4%nat /\ Forall canon d) values ->
    ~ rel (sort_digests4 values) (fun out => ~ Permutation out values).
  Proof.
    intros G R. destruct (sort_digests4_permutation values _ G R) as (out & P & N). exact (N P).
  Qed.
  (* ... and for at most 64 digests none that is not in ascending order *)
  Theorem sort_digests4_never_unsorted values : (length values <= 64)%nat ->
    Forall (fun d => length d = 4%nat /\ Forall canon d) values ->
    ~ rel (sort_digests4 values) (fun out => ~ (Permutation out values /\ StronglySorted digest_le out)).
  Proof.
    intros L G R. apply (rel_sort_digests4 values _ L G) in R. apply R.
    split; [apply sort_spec_perm|apply sort_spec_sorted].
  Qed.
End Sorting.

(* the bound of the sortedness theorems is the largest batch the Rust code can build *)
Lemma NET_MAX_is_MAX_PROOF_COUNT : Z.of_nat NET_MAX = MAX_PROOF_COUNT.
Proof. reflexivity. Qed.
Theorem rel_sort_digests4_max H values post : Z.of_nat (length values) <= MAX_PROOF_COUNT ->
  Forall (fun d => length d = 4%nat /\ Forall canon d) values ->
  (rel H (sort_digests4 values) post <-> post (sort_spec values)).
Proof.
  intros L. apply rel_sort_digests4. rewrite <- NET_MAX_is_MAX_PROOF_COUNT in L. unfold NET_MAX in L. lia.
Qed.
