(* The Goldilocks field as canonical representatives in Z, with the facts the gadget proofs need:
   no zero divisors and existence of inverses, both from the primality of p (proved in Base/Lucas.v,
   no axiom). *)
From Coq Require Import ZArith Znumtheory Lia List Bool.
From V.Base Require Import Lucas Common.
Import ListNotations.
Open Scope Z_scope.
(* mathcomp.zify (loaded through Base/Flt.v) resets the hook; set it again after all imports *)
Ltac Zify.zify_post_hook ::= Z.div_mod_to_equations.

Lemma p_prime : prime p.
Proof. exact goldilocks_prime. Qed.

Definition canon (x : Z) : Prop := 0 <= x < p.
Definition fadd (x y : Z) : Z := (x + y) mod p.
Definition fsub (x y : Z) : Z := (x - y) mod p.
Definition fmul (x y : Z) : Z := (x * y) mod p.
Definition fneg (x : Z) : Z := (- x) mod p.

Ltac fld := unfold canon, fadd, fsub, fmul, fneg, p, two32, two64 in *.

Lemma canon_fadd x y : canon (fadd x y). Proof. fld; lia. Qed.
Lemma canon_fsub x y : canon (fsub x y). Proof. fld; lia. Qed.
Lemma canon_fmul x y : canon (fmul x y). Proof. fld; lia. Qed.
Lemma canon_0 : canon 0. Proof. fld; lia. Qed.
Lemma canon_1 : canon 1. Proof. fld; lia. Qed.
Lemma is_canon_spec x : is_canon x = true <-> canon x.
Proof. unfold is_canon, canon. rewrite andb_true_iff, Z.leb_le, Z.ltb_lt. tauto. Qed.
#[export] Hint Resolve canon_fadd canon_fsub canon_fmul canon_0 canon_1 : canon.

Lemma fmul_zero a b : canon a -> canon b -> fmul a b = 0 -> a = 0 \/ b = 0.
Proof.
  intros Ha Hb H. unfold fmul in H. apply Zmod_divide in H; [|unfold p; lia].
  apply prime_mult in H; [|exact p_prime].
  destruct H as [H|H]; [left|right]; destruct H as [k Hk]; fld; nia.
Qed.

Lemma finv_exists d : canon d -> d <> 0 -> exists inv, canon inv /\ fmul d inv = 1.
Proof.
  intros Hd Hn.
  assert (R : rel_prime d p).
  { apply rel_prime_sym. apply prime_rel_prime; [exact p_prime|].
    intros [k Hk]. fld. nia. }
  destruct (rel_prime_bezout _ _ R) as [u v E].
  exists (u mod p). split; [fld; lia|].
  unfold fmul. rewrite Z.mul_mod_idemp_r by (unfold p; lia).
  replace (d * u) with (1 + (- v) * p) by lia. rewrite Z.mod_add by (unfold p; lia).
  unfold p; reflexivity.
Qed.

Lemma fsub_eq_0 x y : canon x -> canon y -> (fsub x y = 0 <-> x = y).
Proof. fld. lia. Qed.
Lemma fsub_diag x : fsub x x = 0.
Proof. unfold fsub. rewrite Z.sub_diag. reflexivity. Qed.
Lemma fmul_0_l x : fmul 0 x = 0.
Proof. unfold fmul. rewrite Z.mul_0_l. reflexivity. Qed.
Lemma fmul_0_r x : fmul x 0 = 0.
Proof. unfold fmul. rewrite Z.mul_0_r. reflexivity. Qed.
Lemma fmul_1_l x : canon x -> fmul 1 x = x.
Proof. fld. intros. rewrite Z.mul_1_l. apply Z.mod_small. lia. Qed.
Lemma fmul_1_r x : canon x -> fmul x 1 = x.
Proof. fld. intros. rewrite Z.mul_1_r. apply Z.mod_small. lia. Qed.
Lemma fmul_comm x y : fmul x y = fmul y x.
Proof. unfold fmul. rewrite Z.mul_comm. reflexivity. Qed.
Lemma fadd_0_l x : canon x -> fadd 0 x = x.
Proof. fld. intros. apply Z.mod_small. lia. Qed.
Lemma fadd_0_r x : canon x -> fadd x 0 = x.
Proof. fld. intros. rewrite Z.add_0_r. apply Z.mod_small. lia. Qed.
Lemma fsub_0_r x : canon x -> fsub x 0 = x.
Proof. fld. intros. rewrite Z.sub_0_r. apply Z.mod_small. lia. Qed.

(* a value is a bit iff b*(b-1) = 0 (the BaseSum<2> limb constraint) *)
Lemma bit_constraint b : canon b -> (fmul b (fsub b 1) = 0 <-> b = 0 \/ b = 1).
Proof.
  intros Hb. split.
  - intros H. destruct (fmul_zero b (fsub b 1) Hb (canon_fsub _ _) H) as [E|E]; [left; exact E|right].
    apply (fsub_eq_0 b 1 Hb canon_1) in E. exact E.
  - intros [->| ->]; fld; reflexivity.
Qed.

Definition bitZ (b : Z) : Prop := b = 0 \/ b = 1.
Definition is_bit (b : Z) : bool := (b =? 0) || (b =? 1).
Lemma is_bit_spec b : is_bit b = true <-> bitZ b.
Proof. unfold is_bit, bitZ. rewrite orb_true_iff, !Z.eqb_eq. tauto. Qed.
