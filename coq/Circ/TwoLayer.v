(* Two-layer composition (C36): real private batches aggregated into a public batch.
   Pure composition over the SPECIFICATION functions of Spec/LeanPort.v ([priv_output] for the inner
   statements, [pub_output] for the outer one); the link to the circuits is private_batch_spec
   (PrivateBatchProofs.v) and public_batch_spec (PublicBatchProofs.v).

   A [group] = the leaf statements of one private batch with its dummy-nullifier preimages.
     inner_of g          the private-batch statement  priv_output H (fst g) (snd g)
     batch_real leaves   the batch contains a real leaf (<-> its reference block hash is non-zero)
     amounts5 l          every 5th felt of l (the sums of a region of [sum; exit(4)] slots)
     chunk4 l            l cut into 4-felt digests *)
From Coq Require Import ZArith Lia List Bool Permutation.
From V.Base Require Import Common.
From V.Generated Require Import Constants.
From V.Circ Require Import Field Core Prims Gadgets GadgetsProofs SortNet Sorting PrivateBatch PublicBatch PublicBatchProofs.
From V.Spec Require Import LeanPort.
Import ListNotations.
Open Scope Z_scope.
(* mathcomp.zify (loaded through Base/Flt.v) resets the hook; set it again after all imports *)
Ltac Zify.zify_post_hook ::= Z.div_mod_to_equations.

(* ================= conservation: grouped slots carry the total of the real leaves ================= *)
Lemma leqb_refl a : list_eqb a a = true.
Proof. apply list_eqb_spec. reflexivity. Qed.

Fixpoint nsum (seen : list digest) (xs : list (digest * Z)) : Z :=
  match xs with
  | [] => 0
  | (k, a) :: r => (if dmem k seen then 0 else a) + nsum seen r
  end.

Lemma dmem_cons k' k seen : dmem k' (k :: seen) = list_eqb k' k || dmem k' seen.
Proof. reflexivity. Qed.

Lemma nsum_seen_dup k seen xs : dmem k seen = true -> nsum (k :: seen) xs = nsum seen xs.
Proof.
  intros D. induction xs as [|[k' a'] r IH]; cbn [nsum]; [reflexivity|].
  rewrite IH, dmem_cons. destruct (list_eqb k' k) eqn:E; cbn [orb]; [|reflexivity].
  apply list_eqb_spec in E. subst k'. rewrite D. reflexivity.
Qed.
Lemma nsum_split k seen xs : dmem k seen = false -> nsum seen xs = matchSum k xs + nsum (k :: seen) xs.
Proof.
  intros D. induction xs as [|[k' a'] r IH]; cbn [nsum matchSum]; [reflexivity|].
  rewrite IH, dmem_cons. destruct (list_eqb k' k) eqn:E; cbn [orb].
  - apply list_eqb_spec in E. subst k'. rewrite D. lia.
  - destruct (dmem k' seen); lia.
Qed.
Lemma slotsTotal_groupAux xs : forall seen, slotsTotal (groupAux seen xs) = nsum seen xs.
Proof.
  induction xs as [|[k a] r IH]; intros seen; cbn [groupAux nsum]; [reflexivity|].
  destruct (dmem k seen) eqn:D; cbn [slotsTotal]; rewrite IH.
  - rewrite nsum_seen_dup by exact D. reflexivity.
  - rewrite (nsum_split k seen r D). lia.
Qed.
Lemma nsum_masked leaves : nsum [] (maskedChildPairs leaves) = inputExitTotal leaves.
Proof.
  induction leaves as [|q r IH]; cbn [maskedChildPairs inputExitTotal]; [reflexivity|].
  destruct (is_dummy_pb q); cbn [nsum dmem existsb]; rewrite IH; lia.
Qed.
Theorem exits_conservation leaves : slotsTotal (groupExits (maskedChildPairs leaves)) = inputExitTotal leaves.
Proof. unfold groupExits. rewrite slotsTotal_groupAux. apply nsum_masked. Qed.

(* ================= reading regions back ================= *)
Fixpoint amounts5 (l : list Z) : list Z :=
  match l with
  | a :: _ :: _ :: _ :: _ :: r => a :: amounts5 r
  | _ => []
  end.
Fixpoint chunk4 (l : list Z) : list (list Z) :=
  match l with
  | a :: b :: c :: d :: r => [a; b; c; d] :: chunk4 r
  | _ => []
  end.
Definition zsum (l : list Z) : Z := fold_right Z.add 0 l.
Definition nonzero4 (d : list Z) : bool := negb (list_eqb d zero4).

Lemma zsum_app a b : zsum (a ++ b) = zsum a + zsum b.
Proof. unfold zsum. induction a as [|x a IH]; cbn [app fold_right]; [reflexivity|]. rewrite IH. lia. Qed.
Lemma zsum_repeat0 k : zsum (repeat 0 k) = 0.
Proof. unfold zsum. induction k as [|k IH]; cbn [repeat fold_right]; [reflexivity|]. rewrite IH. reflexivity. Qed.

Lemma amounts5_app_slot a d rest : length d = 4%nat -> amounts5 ((a :: d) ++ rest) = a :: amounts5 rest.
Proof. intros L. destruct d as [|d0 [|d1 [|d2 [|d3 [|? ?]]]]]; try discriminate L. reflexivity. Qed.
Lemma amounts5_slots (slots : list (Z * digest)) rest : Forall (fun s => length (snd s) = 4%nat) slots ->
  amounts5 (flat_map flat_slot slots ++ rest) = map fst slots ++ amounts5 rest.
Proof.
  induction 1 as [|[a d] r Hd F IH]; cbn [flat_map map app]; [reflexivity|].
  unfold flat_slot at 1. cbn [fst snd] in *. rewrite <- app_assoc, amounts5_app_slot by exact Hd.
  rewrite IH. reflexivity.
Qed.
Lemma amounts5_zeros k rest : amounts5 (repeat 0 (5 * k) ++ rest) = repeat 0 k ++ amounts5 rest.
Proof.
  induction k as [|k IH]; [reflexivity|].
  replace (5 * S k)%nat with (S (S (S (S (S (5 * k)))))) by lia. cbn [repeat app amounts5]. rewrite IH. reflexivity.
Qed.
Lemma zsum_map_fst slots : zsum (map fst slots) = slotsTotal slots.
Proof. unfold zsum. induction slots as [|[a d] r IH]; cbn [map fold_right slotsTotal fst]; [reflexivity|]. rewrite IH. reflexivity. Qed.

Lemma amounts5_as_nth : forall m l, length l = (5 * m)%nat ->
  amounts5 l = map (fun k => nth (5 * k) l 0) (seq 0 m).
Proof.
  induction m as [|m IH]; intros l L.
  - destruct l; [reflexivity|discriminate L].
  - destruct l as [|a [|b [|c [|d [|e r]]]]]; cbn [length] in L; try lia.
    cbn [amounts5 seq map]. rewrite <- seq_shift, map_map. f_equal.
    rewrite (IH r) by lia. apply map_ext. intros k.
    replace (5 * S k)%nat with (S (S (S (S (S (5 * k)))))) by lia. reflexivity.
Qed.

Lemma chunk4_app_digest d rest : length d = 4%nat -> chunk4 (d ++ rest) = d :: chunk4 rest.
Proof. intros L. destruct d as [|d0 [|d1 [|d2 [|d3 [|? ?]]]]]; try discriminate L. reflexivity. Qed.
Lemma chunk4_digests (ds : list (list Z)) rest : Forall (fun d => length d = 4%nat) ds ->
  chunk4 (concat ds ++ rest) = ds ++ chunk4 rest.
Proof.
  induction 1 as [|d r Hd F IH]; cbn [concat app]; [reflexivity|].
  rewrite <- app_assoc, chunk4_app_digest by exact Hd. rewrite IH. reflexivity.
Qed.
Lemma chunk4_zeros k rest : chunk4 (repeat 0 (4 * k) ++ rest) = repeat zero4 k ++ chunk4 rest.
Proof.
  induction k as [|k IH]; [reflexivity|].
  replace (4 * S k)%nat with (S (S (S (S (4 * k))))) by lia. cbn [repeat app chunk4]. rewrite IH. reflexivity.
Qed.
Lemma filter_nonzero_zeros k : filter nonzero4 (repeat zero4 k) = [].
Proof. induction k as [|k IH]; cbn [repeat filter]; [reflexivity|]. exact IH. Qed.
Lemma filter_all_true {A} (f : A -> bool) l : Forall (fun x => f x = true) l -> filter f l = l.
Proof. induction 1 as [|x l Hx F IH]; cbn [filter]; [reflexivity|]. rewrite Hx, IH. reflexivity. Qed.
Lemma nonzero4_spec d : nonzero4 d = true <-> d <> zero4.
Proof.
  unfold nonzero4. destruct (list_eqb d zero4) eqn:E; cbn [negb].
  - apply list_eqb_spec in E. split; [discriminate|intros N; contradiction].
  - split; [|reflexivity]. intros _ Ed. apply list_eqb_spec in Ed. congruence.
Qed.

Lemma nth_skipn {A} (d : A) s : forall l i, nth i (skipn s l) d = nth (s + i) l d.
Proof.
  induction s as [|s IH]; intros l i; [reflexivity|].
  destruct l as [|x l]; cbn [skipn]; [destruct i; reflexivity|]. rewrite IH. reflexivity.
Qed.
Lemma nth_firstn_lt {A} (d : A) k : forall l i, (i < k)%nat -> nth i (firstn k l) d = nth i l d.
Proof.
  induction k as [|k IH]; intros l i Hi; [lia|].
  destruct l as [|x l]; [reflexivity|]. destruct i as [|i]; [reflexivity|]. cbn [firstn nth]. apply IH. lia.
Qed.
Lemma nth_region (l : list Z) s len i : (i < Z.to_nat len)%nat ->
  nth i (region l s len) 0 = nth (Z.to_nat s + i) l 0.
Proof. intros Hi. unfold region. rewrite nth_firstn_lt by exact Hi. apply nth_skipn. Qed.

(* ================= shape of the private-batch statement ================= *)
Definition digest4 (d : list Z) : Prop := length d = 4%nat /\ Forall canon d.
Lemma digest4_zero4 : digest4 zero4.
Proof. split; [reflexivity|apply zero4_canon]. Qed.

Lemma leaf_digest q (off : nat) : leaf_wf q -> (off + 4 <= 21)%nat -> digest4 (firstn 4 (skipn off q)).
Proof.
  intros (L & F & _) Ho. split; [rewrite firstn_length, skipn_length; lia|apply fa_firstn, fa_skipn, F].
Qed.
Lemma leaf_felt q i : leaf_wf q -> canon (nth i q 0).
Proof. intros (_ & F & _). apply canon_nth, F. Qed.

Definition pair_ok (kd : digest * Z) : Prop := digest4 (fst kd) /\ 0 <= snd kd.
Definition slot_ok (s : Z * digest) : Prop := 0 <= fst s /\ digest4 (snd s).

Lemma masked_pairs_ok leaves : Forall leaf_wf leaves -> Forall pair_ok (maskedChildPairs leaves).
Proof.
  induction 1 as [|q r W F IH]; cbn [maskedChildPairs]; [constructor|].
  assert (P0 : pair_ok (zero4, 0)) by (split; [apply digest4_zero4|cbn [snd]; lia]).
  constructor; [|constructor; [|exact IH]]; (destruct (is_dummy_pb q); [exact P0|]); split; cbn [fst snd].
  - exact (leaf_digest q 8 W ltac:(lia)).
  - apply (leaf_felt q 1 W).
  - exact (leaf_digest q 12 W ltac:(lia)).
  - apply (leaf_felt q 2 W).
Qed.
Lemma masked_pairs_length leaves : length (maskedChildPairs leaves) = (2 * length leaves)%nat.
Proof. induction leaves as [|q r IH]; cbn [maskedChildPairs length]; [reflexivity|]. rewrite IH. lia. Qed.

Lemma matchSum_nonneg k xs : Forall pair_ok xs -> 0 <= matchSum k xs.
Proof.
  induction 1 as [|[k' a'] r [_ Ha] F IH]; cbn [matchSum]; [lia|]. cbn [snd] in Ha.
  destruct (list_eqb k' k); lia.
Qed.
Lemma groupAux_ok xs : Forall pair_ok xs -> forall seen, Forall slot_ok (groupAux seen xs).
Proof.
  induction 1 as [|[k a] r [Hk Ha] F IH]; intros seen; cbn [groupAux]; [constructor|].
  cbn [fst snd] in Hk, Ha. constructor; [|apply IH].
  destruct (dmem k seen); split; cbn [fst snd]; try lia; try apply digest4_zero4; try exact Hk.
  pose proof (matchSum_nonneg k r F). lia.
Qed.
Lemma groupAux_length xs : forall seen, length (groupAux seen xs) = length xs.
Proof. induction xs as [|[k a] r IH]; intros seen; cbn [groupAux length]; [reflexivity|]. rewrite IH. reflexivity. Qed.

Lemma flat_slots_length slots : Forall slot_ok slots -> length (flat_map flat_slot slots) = (5 * length slots)%nat.
Proof.
  induction 1 as [|[a d] r [_ [Ld _]] F IH]; cbn [flat_map length]; [reflexivity|].
  cbn [snd] in Ld. unfold flat_slot at 1. cbn [fst snd]. rewrite app_length. cbn [length]. rewrite IH, Ld. lia.
Qed.
Lemma flat_slots_canon slots : Forall slot_ok slots -> Forall (fun s => fst s < two32) slots ->
  Forall canon (flat_map flat_slot slots).
Proof.
  induction 1 as [|[a d] r [Ha [_ Cd]] F IH]; intros B; cbn [flat_map]; [constructor|].
  inversion B as [|? ? Hb Br]; subst. cbn [fst snd] in *. unfold flat_slot at 1. cbn [fst snd].
  apply Forall_app. split; [|apply IH, Br]. constructor; [|exact Cd]. unfold canon, p, two32 in *. lia.
Qed.

Lemma concat_digests_length ds : Forall digest4 ds -> length (concat ds) = (4 * length ds)%nat.
Proof.
  induction 1 as [|d r [Ld _] F IH]; cbn [concat length]; [reflexivity|]. rewrite app_length, IH, Ld. lia.
Qed.
Lemma concat_digests_canon ds : Forall digest4 ds -> Forall canon (concat ds).
Proof.
  induction 1 as [|d r [_ Cd] F IH]; cbn [concat]; [constructor|]. apply Forall_app. split; assumption.
Qed.

Lemma existsb_find {A} (f : A -> bool) l : existsb f l = match find f l with Some _ => true | None => false end.
Proof. induction l as [|x l IH]; cbn [existsb find]; [reflexivity|]. destruct (f x); [reflexivity|exact IH]. Qed.

Definition batch_real (leaves : list (list Z)) : bool := existsb is_real_pb leaves.

Lemma all_dummy_total leaves : batch_real leaves = false -> inputExitTotal leaves = 0.
Proof.
  unfold batch_real. induction leaves as [|q r IH]; cbn [existsb inputExitTotal]; [reflexivity|].
  intros E. apply orb_false_iff in E. destruct E as [E1 E2]. unfold is_real_pb in E1.
  destruct (is_dummy_pb q); [|discriminate]. rewrite IH by exact E2. reflexivity.
Qed.

Lemma ref_header_shape leaves fee bh bn : Forall leaf_wf leaves -> ref_header leaves = (fee, bh, bn) ->
  canon fee /\ digest4 bh /\ canon bn /\ list_eqb bh zero4 = negb (batch_real leaves).
Proof.
  intros F E. unfold ref_header, batch_real in *. rewrite existsb_find.
  destruct (find is_real_pb leaves) as [q|] eqn:Ef.
  - apply find_some in Ef. destruct Ef as [Iq Rq]. inversion E; subst.
    assert (W : leaf_wf q) by (rewrite Forall_forall in F; apply F, Iq).
    split; [apply (leaf_felt q 3 W)|]. split; [exact (leaf_digest q 16 W ltac:(lia))|].
    split; [apply (leaf_felt q 20 W)|]. unfold is_real_pb, is_dummy_pb in Rq.
    destruct (list_eqb (lf_bh q) zero4); [discriminate|reflexivity].
  - inversion E; subst. split; [apply canon_0|]. split; [apply digest4_zero4|]. split; [apply canon_0|reflexivity].
Qed.

Definition H_shape (H : list Z -> list Z) : Prop := forall l, digest4 (H l).

Section TwoLayer.
  Variable H : list Z -> list Z.
  Hypothesis HH : H_shape H.

  Lemma selected_ok leaves : Forall leaf_wf leaves -> forall us, Forall digest4 (selected_nullifiers H leaves us).
  Proof.
    induction 1 as [|q r W F IH]; intros us; cbn [selected_nullifiers]; [constructor|].
    destruct us as [|u ur]; [constructor|]. constructor; [|apply IH].
    destruct (is_dummy_pb q); [apply HH|exact (leaf_digest q 4 W ltac:(lia))].
  Qed.
  Lemma selected_length leaves : forall us, length us = length leaves ->
    length (selected_nullifiers H leaves us) = length leaves.
  Proof.
    induction leaves as [|q r IH]; intros us L; cbn [selected_nullifiers]; [reflexivity|].
    destruct us as [|u ur]; [discriminate L|]. cbn [length] in *. rewrite IH by lia. reflexivity.
  Qed.

  (* the parts of the private-batch statement *)
  Definition priv_hdr (leaves : list (list Z)) : list Z :=
    let '(fee_ref, bh_ref, bn_ref) := ref_header leaves in
    [2 * zlen leaves; lf_asset (nth 0 leaves []); fee_ref] ++ bh_ref ++ [bn_ref].
  Definition priv_exits (leaves : list (list Z)) : list Z :=
    flat_map flat_slot (groupExits (maskedChildPairs leaves)).
  Definition priv_nulls (leaves us : list (list Z)) : list Z :=
    concat (sort_spec (selected_nullifiers H leaves us)).

  Lemma priv_output_split leaves us :
    priv_output H leaves us =
    priv_hdr leaves ++ priv_exits leaves ++ priv_nulls leaves us ++ repeat 0 (Z.to_nat (7 * zlen leaves)).
  Proof.
    unfold priv_output, priv_hdr, priv_exits, priv_nulls. destruct (ref_header leaves) as [[fee bh] bn].
    rewrite <- !app_assoc. reflexivity.
  Qed.

  (* accepted private batches: every grouped sum fits 32 bits (4th conjunct of priv_compat) *)
  Definition sums_ok (leaves : list (list Z)) : Prop :=
    forallb (fun s => fst s <? two32) (groupExits (maskedChildPairs leaves)) = true.
  Lemma priv_compat_sums_ok leaves : priv_compat leaves = true -> sums_ok leaves.
  Proof.
    unfold priv_compat, sums_ok. destruct (ref_header leaves) as [[fee bh] bn].
    rewrite !andb_true_iff. tauto.
  Qed.

  Definition group := (list (list Z) * list (list Z))%type.
  Definition inner_of (g : group) : list Z := priv_output H (fst g) (snd g).
  Definition group_ok (n : Z) (g : group) : Prop :=
    zlen (fst g) = n /\ length (snd g) = length (fst g) /\ Forall leaf_wf (fst g) /\ sums_ok (fst g).

  Section OneGroup.
    Variable n : Z.
    Variables leaves us : list (list Z).
    Hypothesis Ln : zlen leaves = n.
    Hypothesis Lu : length us = length leaves.
    Hypothesis W : Forall leaf_wf leaves.

    Lemma priv_hdr_shape : zlen (priv_hdr leaves) = 8 /\
      (2 * n < p -> Forall canon (priv_hdr leaves)) /\
      region (priv_hdr leaves) 3 4 = snd (fst (ref_header leaves)).
    Proof.
      unfold priv_hdr. destruct (ref_header leaves) as [[fee bh] bn] eqn:E.
      destruct (ref_header_shape leaves fee bh bn W E) as (Cf & [L4 C4] & Cb & _).
      split; [unfold zlen; rewrite !app_length, L4; reflexivity|]. split.
      - intros Hp. cbn [app]. constructor; [unfold canon; pose proof (zlen_nonneg leaves); lia|].
        constructor.
        { apply canon_nth. destruct (nth_in_or_default 0 leaves []) as [I|E0]; [|rewrite E0; constructor].
          rewrite Forall_forall in W. destruct (W _ I) as (_ & Fc & _). exact Fc. }
        constructor; [exact Cf|]. apply Forall_app. split; [exact C4|]. constructor; [exact Cb|constructor].
      - cbn [fst snd app]. destruct bh as [|b0 [|b1 [|b2 [|b3 [|? ?]]]]]; try discriminate L4. reflexivity.
    Qed.

    Lemma group_slots_ok : Forall slot_ok (groupExits (maskedChildPairs leaves)).
    Proof. apply groupAux_ok, masked_pairs_ok, W. Qed.

    Lemma priv_exits_zlen : zlen (priv_exits leaves) = 10 * n.
    Proof.
      unfold priv_exits, zlen. rewrite flat_slots_length by apply group_slots_ok.
      unfold groupExits. rewrite groupAux_length, masked_pairs_length. unfold zlen in Ln. lia.
    Qed.
    Lemma priv_nulls_zlen : zlen (priv_nulls leaves us) = 4 * n.
    Proof.
      unfold priv_nulls, zlen. rewrite concat_digests_length.
      - unfold sort_spec. rewrite isort_length, selected_length by exact Lu. unfold zlen in Ln. lia.
      - eapply Permutation_Forall; [symmetry; apply sort_spec_perm|]. apply selected_ok, W.
    Qed.

    Lemma priv_output_regions :
      in_bh (priv_output H leaves us) = snd (fst (ref_header leaves)) /\
      region (priv_output H leaves us) 8 (10 * n) = priv_exits leaves /\
      region (priv_output H leaves us) (8 + 10 * n) (4 * n) = priv_nulls leaves us.
    Proof.
      destruct priv_hdr_shape as (L8 & _ & E4). pose proof priv_exits_zlen as LE. pose proof priv_nulls_zlen as LN.
      pose proof (zlen_nonneg leaves) as Hn0.
      rewrite in_bh_region, priv_output_split. split; [|split].
      - rewrite region_app_take by lia. exact E4.
      - replace 8 with (zlen (priv_hdr leaves) + 0) by lia. rewrite region_app_skip, region_app_take by lia.
        rewrite <- LE. apply region_all.
      - replace (8 + 10 * n) with (zlen (priv_hdr leaves) + (zlen (priv_exits leaves) + 0)) by lia.
        rewrite !region_app_skip by lia. rewrite region_app_take by lia. rewrite <- LN. apply region_all.
    Qed.

    Lemma inner_dummy_iff : is_dummy_inner (priv_output H leaves us) = negb (batch_real leaves).
    Proof.
      unfold is_dummy_inner. rewrite (proj1 priv_output_regions).
      destruct (ref_header leaves) as [[fee bh] bn] eqn:E. cbn [fst snd].
      apply (ref_header_shape leaves fee bh bn W E).
    Qed.

    Lemma priv_output_wf : 2 * n < p -> sums_ok leaves -> inner_wf n (priv_output H leaves us).
    Proof.
      intros Hp S. destruct priv_hdr_shape as (L8 & C8 & _). split.
      - rewrite priv_output_split, !zlen_app, L8, priv_exits_zlen, priv_nulls_zlen, zlen_repeat.
        pose proof (zlen_nonneg leaves). lia.
      - rewrite priv_output_split. apply Forall_app. split; [apply C8, Hp|].
        apply Forall_app. split.
        { apply flat_slots_canon; [apply group_slots_ok|]. unfold sums_ok in S.
          rewrite forallb_forall in S. apply Forall_forall. intros s Is. apply Z.ltb_lt, S, Is. }
        apply Forall_app. split.
        { apply concat_digests_canon. eapply Permutation_Forall; [symmetry; apply sort_spec_perm|].
          apply selected_ok, W. }
        apply Forall_forall. intros x Ix. apply repeat_spec in Ix. subst x. apply canon_0.
    Qed.

    (* what the public layer forwards for this inner *)
    Lemma fwd_exits_of_group :
      fwd_region (priv_output H leaves us) 8 (10 * n) =
      if batch_real leaves then priv_exits leaves else repeat 0 (Z.to_nat (10 * n)).
    Proof.
      unfold fwd_region. rewrite inner_dummy_iff. destruct (batch_real leaves); cbn [negb]; [|reflexivity].
      apply priv_output_regions.
    Qed.
    Lemma fwd_nulls_of_group :
      fwd_region (priv_output H leaves us) (8 + 10 * n) (4 * n) =
      if batch_real leaves then priv_nulls leaves us else repeat 0 (Z.to_nat (4 * n)).
    Proof.
      unfold fwd_region. rewrite inner_dummy_iff. destruct (batch_real leaves); cbn [negb]; [|reflexivity].
      apply priv_output_regions.
    Qed.
  End OneGroup.

  (* ================= the composition ================= *)
  Section Groups.
    Variable n : Z.
    Hypothesis Hn : 1 <= n.
    Hypothesis Hp : 2 * n < p.

    Lemma inner_of_wf g : group_ok n g -> inner_wf n (inner_of g).
    Proof. intros (Ln & Lu & W & S). apply priv_output_wf; assumption. Qed.
    Lemma inners_wf groups : Forall (group_ok n) groups -> Forall (inner_wf n) (map inner_of groups).
    Proof. intros F. apply Forall_map. eapply Forall_impl; [|exact F]. apply inner_of_wf. Qed.

    Definition group_exits (g : group) : list Z :=
      if batch_real (fst g) then priv_exits (fst g) else repeat 0 (Z.to_nat (10 * n)).
    Definition group_nulls (g : group) : list Z :=
      if batch_real (fst g) then priv_nulls (fst g) (snd g) else repeat 0 (Z.to_nat (4 * n)).

    Lemma pub_exits_groups groups : Forall (group_ok n) groups ->
      pub_exits n (map inner_of groups) = concat (map group_exits groups).
    Proof.
      intros F. unfold pub_exits. rewrite map_map. f_equal. apply map_ext_Forall.
      eapply Forall_impl; [|exact F]. intros g (Ln & Lu & W & _). apply fwd_exits_of_group; assumption.
    Qed.
    Lemma pub_nulls_groups groups : Forall (group_ok n) groups ->
      pub_nulls n (map inner_of groups) = concat (map group_nulls groups).
    Proof.
      intros F. unfold pub_nulls. rewrite map_map. f_equal. apply map_ext_Forall.
      eapply Forall_impl; [|exact F]. intros g (Ln & Lu & W & _). apply fwd_nulls_of_group; assumption.
    Qed.

    (* ---- value ---- *)
    Lemma amounts5_group_exits g rest : group_ok n g ->
      zsum (amounts5 (group_exits g ++ rest)) = inputExitTotal (fst g) + zsum (amounts5 rest).
    Proof.
      intros (Ln & Lu & W & _). unfold group_exits. destruct (batch_real (fst g)) eqn:R.
      - unfold priv_exits. rewrite amounts5_slots.
        + rewrite zsum_app, zsum_map_fst, exits_conservation. reflexivity.
        + eapply Forall_impl; [|apply group_slots_ok, W]. intros s [_ [L4 _]]. exact L4.
      - replace (Z.to_nat (10 * n)) with (5 * Z.to_nat (2 * n))%nat by lia.
        rewrite amounts5_zeros, zsum_app, zsum_repeat0, all_dummy_total by exact R. reflexivity.
    Qed.

    Lemma exits_value groups : Forall (group_ok n) groups ->
      zsum (amounts5 (concat (map group_exits groups))) = zsum (map (fun g => inputExitTotal (fst g)) groups).
    Proof.
      induction 1 as [|g r G F IH]; cbn [map concat]; [reflexivity|].
      rewrite amounts5_group_exits by exact G. rewrite IH. reflexivity.
    Qed.

    Lemma total_real_only (groups : list group) :
      zsum (map (fun g => inputExitTotal (fst g)) groups) =
      zsum (map (fun g => inputExitTotal (fst g)) (filter (fun g => batch_real (fst g)) groups)).
    Proof.
      induction groups as [|g r IH]; cbn [map filter]; [reflexivity|].
      destruct (batch_real (fst g)) eqn:R; cbn [map]; unfold zsum in *; cbn [fold_right]; rewrite IH; [reflexivity|].
      rewrite all_dummy_total by exact R. reflexivity.
    Qed.

    Theorem two_layer_value address groups : length address = 4%nat -> Forall (group_ok n) groups ->
      let out := pub_output n address (map inner_of groups) in
      let M := zlen groups in
      zsum (amounts5 (region out 12 (10 * n * M))) = zsum (map (fun g => inputExitTotal (fst g)) groups) /\
      zsum (amounts5 (region out 12 (10 * n * M)))
      = zsum (map (fun g => inputExitTotal (fst g)) (filter (fun g => batch_real (fst g)) groups)) /\
      amounts5 (region out 12 (10 * n * M))
      = map (fun k => nth (12 + 5 * k) out 0) (seq 0 (Z.to_nat (2 * n * M))).
    Proof.
      intros La F out M. pose proof (inners_wf groups F) as Wf.
      assert (E : region out 12 (10 * n * M) = pub_exits n (map inner_of groups)).
      { unfold out, M. rewrite <- (zlen_map inner_of groups). apply pub_output_exit_region; assumption. }
      assert (V : zsum (amounts5 (region out 12 (10 * n * M))) = zsum (map (fun g => inputExitTotal (fst g)) groups)).
      { rewrite E, pub_exits_groups by exact F. apply exits_value, F. }
      split; [exact V|]. split; [rewrite V; apply total_real_only|].
      pose proof (zlen_nonneg groups) as HM. fold M in HM.
      assert (LR : length (region out 12 (10 * n * M)) = (5 * Z.to_nat (2 * n * M))%nat).
      { rewrite E. pose proof (pub_exits_zlen n (map inner_of groups) Hn Wf) as LE.
        rewrite zlen_map in LE. fold M in LE. unfold zlen in LE. nia. }
      rewrite (amounts5_as_nth _ _ LR). apply map_ext_in. intros k Ik. apply in_seq in Ik.
      rewrite nth_region by nia. reflexivity.
    Qed.

    (* ---- nullifiers ---- *)
    Definition group_selected (g : group) : list digest := selected_nullifiers H (fst g) (snd g).

    Lemma chunk4_group_nulls g rest : group_ok n g ->
      chunk4 (group_nulls g ++ rest) =
      (if batch_real (fst g) then sort_spec (group_selected g) else repeat zero4 (Z.to_nat n)) ++ chunk4 rest.
    Proof.
      intros (Ln & Lu & W & _). unfold group_nulls. destruct (batch_real (fst g)).
      - unfold priv_nulls. apply chunk4_digests.
        eapply Forall_impl; [|eapply Permutation_Forall; [symmetry; apply sort_spec_perm|apply selected_ok, W]].
        intros d [L4 _]. exact L4.
      - replace (Z.to_nat (4 * n)) with (4 * Z.to_nat n)%nat by lia. apply chunk4_zeros.
    Qed.

    Lemma nonzero_nullifiers groups : Forall (group_ok n) groups ->
      Forall (fun g => batch_real (fst g) = true -> Forall (fun d => d <> zero4) (group_selected g)) groups ->
      Permutation (filter nonzero4 (chunk4 (concat (map group_nulls groups))))
                  (concat (map group_selected (filter (fun g => batch_real (fst g)) groups))).
    Proof.
      induction 1 as [|g r G F IH]; intros NZ; cbn [map concat filter]; [reflexivity|].
      inversion NZ as [|? ? NZg NZr]; subst.
      rewrite chunk4_group_nulls by exact G. rewrite filter_app.
      destruct (batch_real (fst g)) eqn:R; cbn [map concat].
      - apply Permutation_app; [|apply IH, NZr].
        rewrite filter_all_true; [apply sort_spec_perm|].
        eapply Permutation_Forall; [symmetry; apply sort_spec_perm|].
        eapply Forall_impl; [|apply NZg; reflexivity]. intros d Nd. apply nonzero4_spec, Nd.
      - rewrite filter_nonzero_zeros. cbn [app]. apply IH, NZr.
    Qed.

    Theorem two_layer_nullifiers address groups : length address = 4%nat -> Forall (group_ok n) groups ->
      let out := pub_output n address (map inner_of groups) in
      let M := zlen groups in
      region out (12 + 10 * n * M) (4 * n * M)
      = concat (map (fun g => if batch_real (fst g) then concat (sort_spec (group_selected g))
                              else repeat 0 (Z.to_nat (4 * n))) groups) /\
      (Forall (fun g => batch_real (fst g) = true -> Forall (fun d => d <> zero4) (group_selected g)) groups ->
       Permutation (filter nonzero4 (chunk4 (region out (12 + 10 * n * M) (4 * n * M))))
                   (concat (map group_selected (filter (fun g => batch_real (fst g)) groups)))).
    Proof.
      intros La F out M. pose proof (inners_wf groups F) as Wf.
      assert (E : region out (12 + 10 * n * M) (4 * n * M) = concat (map group_nulls groups)).
      { unfold out, M. rewrite <- (zlen_map inner_of groups). rewrite pub_output_null_region by assumption.
        apply pub_nulls_groups, F. }
      split; [rewrite E; reflexivity|]. intros NZ. rewrite E. apply nonzero_nullifiers; assumption.
    Qed.
  End Groups.
End TwoLayer.

(* ================= padding inners add nothing ================= *)
Lemma pub_ref_padding inners pads : Forall (fun d => is_dummy_inner d = true) pads ->
  pub_ref (inners ++ pads) = pub_ref inners.
Proof.
  intros D. unfold pub_ref. rewrite find_app.
  rewrite (find_all_false is_real_inner pads).
  - destruct (find is_real_inner inners); reflexivity.
  - intros x Ix. rewrite Forall_forall in D. unfold is_real_inner. rewrite (D x Ix). reflexivity.
Qed.
Lemma pub_compat_padding inners pads : Forall (fun d => is_dummy_inner d = true) pads ->
  pub_compat (inners ++ pads) = pub_compat inners.
Proof.
  intros D. rewrite !pub_compat_cons_ok, (pub_ref_padding inners pads D).
  destruct (pub_ref inners) as [[[a f] bh] bn]. rewrite forallb_app.
  replace (forallb (cons_ok a f bh) pads) with true; [apply andb_true_r|].
  symmetry. apply forallb_forall. intros x Ix. rewrite Forall_forall in D. unfold cons_ok. rewrite (D x Ix). reflexivity.
Qed.
Lemma fwd_padding pads s len : Forall (fun d => is_dummy_inner d = true) pads ->
  concat (map (fun q => fwd_region q s len) pads) = repeat 0 (length pads * Z.to_nat len).
Proof.
  induction 1 as [|d r Hd F IH]; cbn [map concat length]; [reflexivity|].
  rewrite IH, (fwd_region_dummy d s len Hd), <- repeat_app. f_equal; lia.
Qed.
Lemma pub_exits_padding n inners pads : Forall (fun d => is_dummy_inner d = true) pads ->
  pub_exits n (inners ++ pads) = pub_exits n inners ++ repeat 0 (length pads * Z.to_nat (10 * n)).
Proof. intros D. unfold pub_exits. rewrite map_app, concat_app, (fwd_padding pads _ _ D). reflexivity. Qed.
Lemma pub_nulls_padding n inners pads : Forall (fun d => is_dummy_inner d = true) pads ->
  pub_nulls n (inners ++ pads) = pub_nulls n inners ++ repeat 0 (length pads * Z.to_nat (4 * n)).
Proof. intros D. unfold pub_nulls. rewrite map_app, concat_app, (fwd_padding pads _ _ D). reflexivity. Qed.

Lemma amounts5_app a b : (exists k, length a = (5 * k)%nat) -> amounts5 (a ++ b) = amounts5 a ++ amounts5 b.
Proof.
  intros [k L]. revert a L. induction k as [|k IH]; intros a L.
  - destruct a; [reflexivity|discriminate L].
  - destruct a as [|a0 [|a1 [|a2 [|a3 [|a4 r]]]]]; cbn [length] in L; try lia.
    cbn [app amounts5]. rewrite IH by lia. reflexivity.
Qed.
Lemma chunk4_app a b : (exists k, length a = (4 * k)%nat) -> chunk4 (a ++ b) = chunk4 a ++ chunk4 b.
Proof.
  intros [k L]. revert a L. induction k as [|k IH]; intros a L.
  - destruct a; [reflexivity|discriminate L].
  - destruct a as [|a0 [|a1 [|a2 [|a3 r]]]]; cbn [length] in L; try lia.
    cbn [app chunk4]. rewrite IH by lia. reflexivity.
Qed.

Theorem padding_adds_nothing n address inners pads :
  1 <= n -> Forall (inner_wf n) inners -> Forall (fun d => is_dummy_inner d = true) pads ->
  let K := length pads in
  (* acceptance and header references unchanged; the count grows by 2 n K *)
  pub_compat (inners ++ pads) = pub_compat inners /\
  pub_ref (inners ++ pads) = pub_ref inners /\
  pub_header n address (inners ++ pads) =
    (let '(a, f, bh, bn) := pub_ref inners in address ++ [a; f] ++ bh ++ [bn; 2 * n * (zlen inners + Z.of_nat K)]) /\
  (* each region only gets zeros appended *)
  pub_output n address (inners ++ pads) =
    pub_header n address (inners ++ pads)
    ++ (pub_exits n inners ++ repeat 0 (K * Z.to_nat (10 * n)))
    ++ (pub_nulls n inners ++ repeat 0 (K * Z.to_nat (4 * n))) /\
  (* ... so the total value and the non-zero nullifiers are those of the unpadded vector *)
  zsum (amounts5 (pub_exits n (inners ++ pads))) = zsum (amounts5 (pub_exits n inners)) /\
  filter nonzero4 (chunk4 (pub_nulls n (inners ++ pads))) = filter nonzero4 (chunk4 (pub_nulls n inners)).
Proof.
  intros Hn F D K.
  split; [apply pub_compat_padding, D|]. split; [apply pub_ref_padding, D|].
  split.
  { unfold pub_header. rewrite (pub_ref_padding inners pads D), zlen_app. reflexivity. }
  split.
  { rewrite pub_output_split, pub_exits_padding, pub_nulls_padding by exact D. reflexivity. }
  pose proof (pub_exits_zlen n inners Hn F) as LE. pose proof (pub_nulls_zlen n inners Hn F) as LN.
  pose proof (zlen_nonneg inners) as HM. subst K. split.
  - rewrite pub_exits_padding by exact D. rewrite amounts5_app.
    + replace (length pads * Z.to_nat (10 * n))%nat with (5 * (length pads * Z.to_nat (2 * n)))%nat by lia.
      rewrite <- (app_nil_r (repeat 0 _)), amounts5_zeros, zsum_app, zsum_app, zsum_repeat0. cbn. lia.
    + exists (Z.to_nat (2 * n * zlen inners)). unfold zlen in *. nia.
  - rewrite pub_nulls_padding by exact D. rewrite chunk4_app.
    + replace (length pads * Z.to_nat (4 * n))%nat with (4 * (length pads * Z.to_nat n))%nat by lia.
      rewrite <- (app_nil_r (repeat 0 _)), chunk4_zeros, filter_app, filter_app, filter_nonzero_zeros.
      cbn [chunk4 filter app]. apply app_nil_r.
    + exists (Z.to_nat (n * zlen inners)). unfold zlen in *. nia.
Qed.

(* ================= statement forms used by Properties/C36 ================= *)
Theorem two_layer_value_felts (H : list Z -> list Z) (n : Z) address (groups : list group) :
  H_shape H -> 1 <= n -> 2 * n < p -> length address = 4%nat -> Forall (group_ok n) groups ->
  let out := pub_output n address (map (inner_of H) groups) in
  zsum (map (fun k => nth (12 + 5 * k) out 0) (seq 0 (Z.to_nat (2 * n * zlen groups))))
  = zsum (map (fun g => inputExitTotal (fst g)) groups) /\
  zsum (map (fun k => nth (12 + 5 * k) out 0) (seq 0 (Z.to_nat (2 * n * zlen groups))))
  = zsum (map (fun g => inputExitTotal (fst g)) (filter (fun g => batch_real (fst g)) groups)).
Proof.
  intros HH Hn Hp La F out.
  destruct (two_layer_value H HH n Hn Hp address groups La F) as (V1 & V2 & E).
  fold out in V1, V2, E. rewrite <- E. split; assumption.
Qed.

Lemma inner_of_dummy_iff (H : list Z -> list Z) (n : Z) (g : group) : H_shape H -> group_ok n g ->
  is_dummy_inner (inner_of H g) = negb (batch_real (fst g)).
Proof. intros HH (Ln & Lu & W & _). exact (inner_dummy_iff H HH n (fst g) (snd g) Ln Lu W). Qed.

(* executable side conditions, for concrete examples *)
Definition leaf_wfb (q : list Z) : bool :=
  (length q =? 21)%nat && forallb is_canon q && (lf_out1 q <? two32) && (lf_out2 q <? two32).
Lemma leaf_wfb_spec q : leaf_wfb q = true -> leaf_wf q.
Proof.
  unfold leaf_wfb, leaf_wf. rewrite !andb_true_iff, Nat.eqb_eq, !Z.ltb_lt, forallb_forall, Forall_forall.
  intros [[[L C] O1] O2]. split; [exact L|]. split; [|split; assumption].
  intros x Ix. apply is_canon_spec, C, Ix.
Qed.
Definition group_okb (n : Z) (g : group) : bool :=
  (zlen (fst g) =? n) && (length (snd g) =? length (fst g))%nat && forallb leaf_wfb (fst g)
  && forallb (fun s => fst s <? two32) (groupExits (maskedChildPairs (fst g))).
Lemma group_okb_spec n g : group_okb n g = true -> group_ok n g.
Proof.
  unfold group_okb, group_ok, sums_ok. rewrite !andb_true_iff, Z.eqb_eq, Nat.eqb_eq.
  intros [[[L U] W] S]. split; [exact L|]. split; [exact U|]. split; [|exact S].
  rewrite forallb_forall in W. apply Forall_forall. intros q Iq. apply leaf_wfb_spec, W, Iq.
Qed.
Lemma groups_okb_spec n groups : forallb (group_okb n) groups = true -> Forall (group_ok n) groups.
Proof. rewrite forallb_forall, Forall_forall. intros C g Ig. apply group_okb_spec, C, Ig. Qed.
Lemma all_nonzero4_spec ds : forallb nonzero4 ds = true -> Forall (fun d => d <> zero4) ds.
Proof. rewrite forallb_forall, Forall_forall. intros C d Id. apply nonzero4_spec, C, Id. Qed.
Lemma forallb_Forall_true {A} (f : A -> bool) l : forallb f l = true -> Forall (fun x => f x = true) l.
Proof. rewrite forallb_forall, Forall_forall. tauto. Qed.
Lemma nonzero_premise_b (H : list Z -> list Z) (groups : list group) :
  forallb (fun g => negb (batch_real (fst g)) || forallb nonzero4 (selected_nullifiers H (fst g) (snd g))) groups = true ->
  Forall (fun g => batch_real (fst g) = true ->
                   Forall (fun d => d <> zero4) (selected_nullifiers H (fst g) (snd g))) groups.
Proof.
  rewrite forallb_forall, Forall_forall. intros C g Ig R. specialize (C g Ig). rewrite R in C. cbn [negb orb] in C.
  apply all_nonzero4_spec, C.
Qed.
