(* Proofs about the private-batch wrapper circuit (model: PrivateBatch.v; specification: Spec/LeanPort.v).

   Main theorem: for well-formed child statements (leaf_wf: 21 canonical felts, output amounts below 2^32)
   and a hash oracle with 4 canonical output felts, the constraint system of
   build_private_batch_constraints is satisfiable iff [priv_compat leaves], and then its only reachable
   public output is [priv_output H leaves us] - for an arbitrary (adversarial) witness. *)
From Coq Require Import ZArith Lia List Bool Permutation Sorted.
From V.Base Require Import Common.
From V.Generated Require Import Constants.
From V.Circ Require Import Field Core Prims Gadgets GadgetsProofs SortNet Sorting PrivateBatch.
From V.Spec Require Import LeanPort.
Import ListNotations.
Open Scope Z_scope.
(* mathcomp.zify (loaded through Base/Flt.v) resets the hook; set it again after all imports *)
Ltac Zify.zify_post_hook ::= Z.div_mod_to_equations.

(* ================================================================ generic list / bool facts *)
Definition good4 (d : list Z) : Prop := length d = 4%nat /\ Forall canon d.

Lemma good4_zero4 : good4 zero4.
Proof. split; [reflexivity|]. repeat constructor; unfold p; lia. Qed.

Lemma Forall_firstn_ {A} (P : A -> Prop) n (l : list A) : Forall P l -> Forall P (firstn n l).
Proof. intros F. rewrite <- (firstn_skipn n l) in F. apply Forall_app in F. apply F. Qed.
Lemma Forall_skipn_ {A} (P : A -> Prop) n (l : list A) : Forall P l -> Forall P (skipn n l).
Proof. intros F. rewrite <- (firstn_skipn n l) in F. apply Forall_app in F. apply F. Qed.

Lemma canon_nth n l : Forall canon l -> canon (nth n l 0).
Proof.
  intros F. destruct (nth_in_or_default n l 0) as [I| ->]; [|apply canon_0].
  rewrite Forall_forall in F. apply F, I.
Qed.

Lemma b2z_eqb_1 b : (b2z b =? 1) = b. Proof. destruct b; reflexivity. Qed.
Lemma b2z_eqb_0 b : (b2z b =? 0) = negb b. Proof. destruct b; reflexivity. Qed.
Lemma b2z_inj_1 b : b2z b = 1 <-> b = true. Proof. destruct b; cbn [b2z]; split; intros; try reflexivity; discriminate. Qed.

Lemma list_eqb_refl a : list_eqb a a = true.
Proof. apply list_eqb_spec. reflexivity. Qed.
Lemma list_eqb_sym a b : list_eqb a b = list_eqb b a.
Proof.
  destruct (list_eqb a b) eqn:E1, (list_eqb b a) eqn:E2; try reflexivity.
  - apply list_eqb_spec in E1. subst. rewrite list_eqb_refl in E2. discriminate.
  - apply list_eqb_spec in E2. subst. rewrite list_eqb_refl in E1. discriminate.
Qed.
Lemma list_eqb_false a b : list_eqb a b = false <-> a <> b.
Proof.
  split.
  - intros E ->. rewrite list_eqb_refl in E. discriminate.
  - intros N. destruct (list_eqb a b) eqn:E; [|reflexivity]. apply list_eqb_spec in E. contradiction.
Qed.

Lemma andb_shuffle x s d : x && (s && (d && true)) = x && d && s.
Proof. destruct x, s, d; reflexivity. Qed.

Lemma forallb_andb {A} (f g : A -> bool) l :
  forallb (fun x => f x && g x) l = forallb f l && forallb g l.
Proof.
  induction l as [|x l IH]; cbn [forallb]; [reflexivity|]. rewrite IH.
  destruct (f x), (g x), (forallb f l), (forallb g l); reflexivity.
Qed.
Lemma forallb_ext_in {A} (f g : A -> bool) l : (forall x, In x l -> f x = g x) -> forallb f l = forallb g l.
Proof.
  induction l as [|x l IH]; intros E; cbn [forallb]; [reflexivity|].
  rewrite (E x (or_introl eq_refl)), IH; [reflexivity|]. intros y Hy. apply E. right. exact Hy.
Qed.

Lemma map2z_select_b (f : bool) x y : length x = length y -> Forall canon x -> Forall canon y ->
  map2z (g_select (b2z f)) x y = if f then x else y.
Proof. intros L Fx Fy. exact (select_halves_b f x y L Fx Fy). Qed.

Lemma map_select0 (f : bool) e : good4 e ->
  map (fun x => g_select (b2z f) 0 x) e = if f then zero4 else e.
Proof.
  intros [L F]. destruct e as [|e0 [|e1 [|e2 [|e3 [|? ?]]]]]; try discriminate L.
  inversion F as [|? ? C0 F1]; subst. inversion F1 as [|? ? C1 F2]; subst.
  inversion F2 as [|? ? C2 F3]; subst. inversion F3 as [|? ? C3 _]; subst.
  cbn [map]. rewrite !g_select_b by (try assumption; apply canon_0). destruct f; reflexivity.
Qed.

(* ================================================================ well-formed child statements *)
Lemma good4_pi4 pis off : Forall canon pis -> (Z.to_nat off + 4 <= length pis)%nat -> good4 (pi4 pis off).
Proof.
  intros F L. unfold pi4. split.
  - rewrite firstn_length, skipn_length. lia.
  - apply Forall_firstn_, Forall_skipn_, F.
Qed.

Record leaf_fields (q : list Z) : Prop := {
  lw_bh : good4 (lf_bh q);
  lw_null : good4 (lf_null q);
  lw_exit1 : good4 (lf_exit1 q);
  lw_exit2 : good4 (lf_exit2 q);
  lw_asset : canon (lf_asset q);
  lw_fee : canon (lf_fee q);
  lw_bn : canon (lf_bn q);
  lw_out1 : 0 <= lf_out1 q < two32;
  lw_out2 : 0 <= lf_out2 q < two32 }.

Lemma leaf_wf_fields q : leaf_wf q -> leaf_fields q.
Proof.
  intros (L & F & O1 & O2).
  assert (C1 : canon (lf_out1 q)) by (apply canon_nth, F).
  assert (C2 : canon (lf_out2 q)) by (apply canon_nth, F).
  constructor; try (apply good4_pi4; [exact F|rewrite L; cbn; lia]); try (apply canon_nth, F);
    unfold canon in *; lia.
Qed.

Lemma leaf_wf_fields_all leaves : Forall leaf_wf leaves -> Forall leaf_fields leaves.
Proof. apply Forall_impl. exact leaf_wf_fields. Qed.

(* ================================================================ pure specification helpers *)
Definition dflag (q : list Z) : Z := b2z (is_dummy_pb q).

Definition ref_of (o : option (list Z)) (dflt : list Z * Z * Z) : list Z * Z * Z :=
  match o with Some q => (lf_bh q, lf_bn q, lf_fee q) | None => dflt end.

Definition cons_ok (asset_ref : Z) (block_ref : list Z) (fee_ref : Z) (q : list Z) : bool :=
  (is_dummy_pb q || list_eqb (lf_bh q) block_ref) &&
  ((lf_asset q =? asset_ref) && (is_dummy_pb q || (lf_fee q =? fee_ref))).

Definition slot_ok (s : list Z * Z) : Prop := good4 (fst s) /\ 0 <= snd s < two32.

(* "appeared earlier": the circuit compares every earlier exit with the slot's exit *)
Definition seen_before (earlier : list (list Z)) (e : list Z) : bool := existsb (fun x => list_eqb x e) earlier.

Definition slot_spec (all : list (list Z * Z)) (earlier : list (list Z)) (e : list Z) : Z * list Z :=
  if seen_before earlier e then (0, zero4) else (matchSum e all, e).

Fixpoint slots_spec (all : list (list Z * Z)) (earlier : list (list Z)) (rest : list (list Z * Z))
  : list (Z * list Z) :=
  match rest with
  | [] => []
  | (e, _) :: r => slot_spec all earlier e :: slots_spec all (earlier ++ [e]) r
  end.

Fixpoint uniq_ok (leaves : list (list Z)) : bool :=
  match leaves with
  | [] => true
  | q :: r =>
      forallb (fun q' => negb ((is_real_pb q && is_real_pb q') && list_eqb (lf_null q) (lf_null q'))) r
      && uniq_ok r
  end.

(* ---------------- masked slots ---------------- *)
Lemma masked_slots_spec leaves : Forall leaf_fields leaves ->
  masked_slots leaves (map dflag leaves) = maskedChildPairs leaves.
Proof.
  induction 1 as [|q lr Wq F IH]; cbn [map masked_slots maskedChildPairs]; [reflexivity|].
  rewrite IH. unfold dflag.
  rewrite !map_select0 by apply Wq.
  pose proof (lw_out1 q Wq) as O1. pose proof (lw_out2 q Wq) as O2.
  rewrite !g_select_b by (try apply canon_0; apply canon_u32; assumption).
  destruct (is_dummy_pb q); reflexivity.
Qed.

Lemma maskedChildPairs_ok leaves : Forall leaf_fields leaves -> Forall slot_ok (maskedChildPairs leaves).
Proof.
  induction 1 as [|q lr Wq F IH]; cbn [maskedChildPairs]; [constructor|].
  pose proof (lw_out1 q Wq) as O1. pose proof (lw_out2 q Wq) as O2.
  constructor; [|constructor; [|exact IH]]; destruct (is_dummy_pb q); split; cbn [fst snd];
    try apply good4_zero4; try apply Wq; try assumption; unfold two32; lia.
Qed.

Lemma maskedChildPairs_length leaves : length (maskedChildPairs leaves) = (2 * length leaves)%nat.
Proof. induction leaves as [|q lr IH]; cbn [maskedChildPairs length]; lia. Qed.

(* ---------------- first-real reference scan ---------------- *)
Lemma scan_ref_spec leaves : Forall leaf_fields leaves ->
  forall (found : bool) bref bn fee, good4 bref -> canon bn -> canon fee ->
  scan_ref leaves (map dflag leaves) (b2z found) bref bn fee =
  if found then (bref, bn, fee) else ref_of (find is_real_pb leaves) (bref, bn, fee).
Proof.
  induction 1 as [|q lr Wq F IH]; intros found bref bn fee Gb Cbn Cfee; cbn [map scan_ref find].
  - destruct found; reflexivity.
  - change (dflag q) with (b2z (is_dummy_pb q)). cbv zeta. unfold is_real_pb at 1.
    destruct Gb as [Lb Fb]. destruct (lw_bh q Wq) as [Lq Fq].
    rewrite !g_not_b, !g_and_b, !g_or_b.
    rewrite map2z_select_b by (try assumption; congruence).
    rewrite !g_select_b by (try assumption; apply Wq).
    rewrite IH.
    + destruct found, (is_dummy_pb q); cbn [negb andb orb ref_of]; reflexivity.
    + destruct (negb (is_dummy_pb q) && negb found); split; assumption.
    + destruct (negb (is_dummy_pb q) && negb found); [apply Wq|assumption].
    + destruct (negb (is_dummy_pb q) && negb found); [apply Wq|assumption].
Qed.

Lemma scan_ref_header leaves fee bh bn : Forall leaf_fields leaves ->
  ref_header leaves = (fee, bh, bn) ->
  scan_ref leaves (map dflag leaves) 0 zero4 0 0 = (bh, bn, fee).
Proof.
  intros F E.
  pose proof (scan_ref_spec leaves F false zero4 0 0 good4_zero4 canon_0 canon_0) as S.
  cbn [b2z] in S. rewrite S. unfold ref_header in E.
  destruct (find is_real_pb leaves); cbn [ref_of]; inversion E; subst; reflexivity.
Qed.

Lemma ref_header_good leaves fee bh bn : Forall leaf_fields leaves ->
  ref_header leaves = (fee, bh, bn) -> good4 bh /\ canon fee /\ canon bn.
Proof.
  intros F E. unfold ref_header in E. destruct (find is_real_pb leaves) as [q|] eqn:Fd.
  - apply find_some in Fd. destruct Fd as [I _]. rewrite Forall_forall in F. specialize (F q I).
    inversion E; subst. split; [apply F|]. split; apply F.
  - inversion E; subst. split; [apply good4_zero4|]. split; apply canon_0.
Qed.

(* ---------------- grouping: the circuit's formulation equals Lean's groupExits ---------------- *)
Lemma matchSum_app k xs ys : matchSum k (xs ++ ys) = matchSum k xs + matchSum k ys.
Proof. induction xs as [|[k' a'] xs IH]; cbn [app matchSum]; [reflexivity|]. rewrite IH. lia. Qed.

Lemma matchSum_unseen k pre : seen_before (map fst pre) k = false -> matchSum k pre = 0.
Proof.
  unfold seen_before. induction pre as [|[k' a'] pre IH]; cbn [map fst existsb matchSum]; [reflexivity|].
  intros E. apply orb_false_iff in E. destruct E as [E1 E2]. rewrite E1, IH by exact E2. reflexivity.
Qed.

Lemma seen_before_snoc earlier e k : seen_before (earlier ++ [e]) k = seen_before earlier k || list_eqb e k.
Proof. unfold seen_before. rewrite existsb_app. cbn [existsb]. rewrite orb_false_r. reflexivity. Qed.

Lemma slots_spec_groupAux rest : forall pre seen,
  (forall k, dmem k seen = seen_before (map fst pre) k) ->
  slots_spec (pre ++ rest) (map fst pre) rest = groupAux seen rest.
Proof.
  induction rest as [|[k a] r IH]; intros pre seen S; cbn [slots_spec groupAux]; [reflexivity|].
  f_equal.
  - unfold slot_spec. rewrite S. destruct (seen_before (map fst pre) k) eqn:E; [reflexivity|].
    rewrite matchSum_app, (matchSum_unseen k pre E). cbn [matchSum]. rewrite list_eqb_refl. reflexivity.
  - specialize (IH (pre ++ [(k, a)]) (k :: seen)).
    rewrite <- app_assoc, map_app in IH. cbn [app map fst] in IH. apply IH.
    intros k'. cbn [dmem existsb]. fold (dmem k' seen). rewrite S, seen_before_snoc.
    rewrite (list_eqb_sym k' k). apply orb_comm.
Qed.

Lemma slots_spec_groupExits xs : slots_spec xs [] xs = groupExits xs.
Proof. apply (slots_spec_groupAux xs [] []). intros k. reflexivity. Qed.

Lemma matchSum_bound k xs : Forall slot_ok xs -> 0 <= matchSum k xs <= zlen xs * two32.
Proof.
  induction 1 as [|[k' a'] xs [_ B] F IH]; cbn [matchSum]; [cbn; lia|].
  rewrite zlen_cons. cbn [snd] in B. destruct (list_eqb k' k); unfold two32 in *; lia.
Qed.

Lemma slots_spec_length all rest : forall earlier, length (slots_spec all earlier rest) = length rest.
Proof. induction rest as [|[e a] r IH]; intros earlier; cbn [slots_spec length]; [reflexivity|]. rewrite IH. reflexivity. Qed.

Lemma slot_spec_shape all earlier e : good4 e -> length (flat_slot (slot_spec all earlier e)) = 5%nat.
Proof.
  intros [L _]. unfold slot_spec, flat_slot. destruct (seen_before earlier e); cbn [fst snd length]; [reflexivity|].
  rewrite L. reflexivity.
Qed.

Lemma slots_spec_flat_length all rest : forall earlier, Forall slot_ok rest ->
  length (concat (map flat_slot (slots_spec all earlier rest))) = (5 * length rest)%nat.
Proof.
  induction rest as [|[e a] r IH]; intros earlier F; cbn [slots_spec map concat length]; [reflexivity|].
  inversion F as [|? ? [G _] F']; subst. cbn [fst] in G.
  rewrite app_length, IH by exact F'. rewrite slot_spec_shape by exact G. lia.
Qed.

(* ---------------- nullifier uniqueness ---------------- *)
Lemma uniq_ok_distinct leaves : uniq_ok leaves = distinct_digests (map lf_null (filter is_real_pb leaves)).
Proof.
  induction leaves as [|q r IH]; cbn [uniq_ok filter]; [reflexivity|].
  destruct (is_real_pb q) eqn:Rq; cbn [map distinct_digests andb].
  - rewrite IH. f_equal. clear IH.
    induction r as [|q' r IH]; cbn [forallb filter map dmem existsb]; [reflexivity|].
    rewrite IH. destruct (is_real_pb q'); cbn [andb map dmem existsb].
    + fold (dmem (lf_null q) (map lf_null (filter is_real_pb r))).
      rewrite negb_orb. reflexivity.
    + reflexivity.
  - rewrite IH. replace (forallb _ r) with true; [reflexivity|].
    symmetry. apply forallb_forall. intros; reflexivity.
Qed.

Lemma cons_ok_split a b f leaves :
  forallb (cons_ok a b f) leaves =
  forallb (fun q => lf_asset q =? a) leaves &&
  forallb (fun q => is_dummy_pb q || (list_eqb (lf_bh q) b && (lf_fee q =? f))) leaves.
Proof.
  rewrite <- forallb_andb. apply forallb_ext_in. intros q _. unfold cons_ok.
  destruct (is_dummy_pb q), (list_eqb (lf_bh q) b), (lf_asset q =? a), (lf_fee q =? f); reflexivity.
Qed.

Lemma concat_length4 (l : list (list Z)) : Forall (fun d => length d = 4%nat /\ Forall canon d) l ->
  length (concat l) = (4 * length l)%nat.
Proof.
  induction 1 as [|d l [Ld _] F IH]; cbn [concat length]; [reflexivity|]. rewrite app_length, IH, Ld. lia.
Qed.

Lemma selected_nullifiers_length H leaves : forall us, length us = length leaves ->
  length (selected_nullifiers H leaves us) = length leaves.
Proof.
  induction leaves as [|q r IH]; intros [|u ur] L; cbn [length] in L; cbn [length selected_nullifiers]; try lia.
  rewrite IH by lia. reflexivity.
Qed.

(* ================================================================ the circuit *)
Section PB.
  Variable H : list Z -> list Z.
  Hypothesis Hwf : forall l, length (H l) = 4%nat /\ Forall canon (H l).
  Notation rel := (rel H).
  Notation hon := (hon H).
  Notation det := (det H).

  (* [c] is satisfiable iff [ok]; then its only reachable output is [v]; the honest generators find it *)
  Definition gdet {A} (c : Circ A) (ok : bool) (v : A) : Prop :=
    (forall post, rel c post <-> ok = true /\ post v) /\ hon c = if ok then Some v else None.

  Lemma gdet_conv {A} (c : Circ A) ok ok' v v' : gdet c ok v -> ok = ok' -> v = v' -> gdet c ok' v'.
  Proof. intros G -> ->. exact G. Qed.
  Lemma gdet_ret {A} (a : A) : gdet (Ret a) true a.
  Proof. split; [intros post; cbn; tauto|reflexivity]. Qed.
  Lemma gdet_of_det {A} (c : Circ A) v : det c v -> gdet c true v.
  Proof. intros [R E]. split; [intros post; rewrite R; tauto|exact E]. Qed.
  Lemma gdet_bind {A B} (c : Circ A) (f : A -> Circ B) ok1 ok2 v w :
    gdet c ok1 v -> gdet (f v) ok2 w -> gdet (bind c f) (ok1 && ok2) w.
  Proof.
    intros [Rc Hc] [Rf Hf]. split.
    - intros post. rewrite rel_bind, Rc, Rf. rewrite andb_true_iff. tauto.
    - rewrite hon_bind, Hc. destruct ok1; [exact Hf|reflexivity].
  Qed.
  Lemma gdet_dbind {A B} (c : Circ A) (f : A -> Circ B) ok v w :
    det c v -> gdet (f v) ok w -> gdet (bind c f) ok w.
  Proof. intros D G. apply (gdet_bind c f true ok v w (gdet_of_det c v D) G). Qed.
  Lemma gdet_assert {A} x y (k : Circ A) ok v : gdet k ok v -> gdet (Assert x y k) ((x =? y) && ok) v.
  Proof.
    intros [R E]. split.
    - intros post. cbn [Core.rel]. rewrite R, andb_true_iff, Z.eqb_eq. tauto.
    - cbn [Core.hon]. destruct (x =? y); [exact E|reflexivity].
  Qed.
  Lemma det_hash {A} l (k : list Z -> Circ A) v : det (k (H l)) v -> det (Hash l k) v.
  Proof. intros D. exact D. Qed.
  Lemma gdet_refines {A} (c : Circ A) ok v : gdet c ok v -> refines H c.
  Proof. intros [R E] post. rewrite R, E. destruct ok; [tauto|]. split; [intros [X _]; discriminate|tauto]. Qed.

  Lemma det_bde a c : good4 a -> good4 c -> det (bytes_digest_eq a c) (b2z (list_eqb a c)).
  Proof.
    intros [La Fa] [Lc Fc]. split; [intros post; apply rel_bytes_digest_eq; assumption|].
    apply hon_bytes_digest_eq_4; assumption.
  Qed.
  Lemma det_is_equal x y : canon x -> canon y -> det (is_equal x y) (b2z (x =? y)).
  Proof. intros Hx Hy. split; [intros post; apply rel_is_equal; assumption|apply hon_is_equal]. Qed.
  Lemma gdet_range_check32 x : canon x -> gdet (range_check x 32) (x <? two32) tt.
  Proof.
    intros Hx. split.
    - intros post. rewrite rel_range_check by (try assumption; lia). rewrite pow2_32, Z.ltb_lt. tauto.
    - rewrite hon_range_check by lia. rewrite pow2_32. reflexivity.
  Qed.

  Lemma det_cmapM {A B} (f : A -> Circ B) (g : A -> B) l :
    Forall (fun x => det (f x) (g x)) l -> det (cmapM f l) (map g l).
  Proof.
    induction 1 as [|x l Dx F IH]; cbn [cmapM map]; [apply det_ret; reflexivity|].
    eapply det_bind; [exact Dx|]. eapply det_bind; [exact IH|]. apply det_ret. reflexivity.
  Qed.

  (* ---- stage 1: dummy flags ---- *)
  Lemma det_dummy_flags leaves : Forall leaf_fields leaves -> det (dummy_flags leaves) (map dflag leaves).
  Proof.
    intros F. unfold dummy_flags. apply det_cmapM. eapply Forall_impl; [|exact F].
    intros q Wq. apply det_bde; [apply Wq|apply good4_zero4].
  Qed.

  (* ---- stage 3: consistency ---- *)
  Lemma gdet_consistency leaves : Forall leaf_fields leaves -> forall a b f, good4 b -> canon f ->
    gdet (consistency leaves (map dflag leaves) a b f) (forallb (cons_ok a b f) leaves) tt.
  Proof.
    induction 1 as [|q lr Wq F IH]; intros a b f Gb Cf; cbn [map consistency forallb]; [apply gdet_ret|].
    eapply gdet_conv; [| |reflexivity].
    - eapply gdet_dbind; [apply det_bde; [apply Wq|exact Gb]|]. cbv beta.
      apply gdet_assert. apply gdet_assert.
      eapply gdet_dbind; [apply det_is_equal; [apply Wq|exact Cf]|]. cbv beta.
      apply gdet_assert. apply IH; assumption.
    - unfold dflag, cons_ok. rewrite !g_or_b, !b2z_eqb_1.
      destruct (is_dummy_pb q), (list_eqb (lf_bh q) b), (lf_asset q =? a), (lf_fee q =? f); reflexivity.
  Qed.

  (* ---- stage 5: one output slot ---- *)
  Lemma det_dup_scan earlier e : good4 e -> Forall good4 earlier -> forall acc : bool,
    det (dup_scan earlier e (b2z acc)) (b2z (acc || seen_before earlier e)).
  Proof.
    intros Ge. induction 1 as [|x r Gx F IH]; intros acc; cbn [dup_scan].
    - apply det_ret. unfold seen_before. cbn [existsb]. rewrite orb_false_r. reflexivity.
    - eapply det_bind; [apply det_bde; assumption|]. cbv beta. rewrite g_or_b.
      unfold seen_before. cbn [existsb]. rewrite orb_assoc. apply IH.
  Qed.

  Lemma det_sum_scan slots e : good4 e -> Forall slot_ok slots -> forall acc, 0 <= acc ->
    acc + zlen slots * two32 < p -> det (sum_scan slots e acc) (acc + matchSum e slots).
  Proof.
    intros Ge. induction 1 as [|[k a] r [Gk Ba] F IH]; intros acc A0 Bd; cbn [sum_scan matchSum].
    - apply det_ret. lia.
    - cbn [fst snd] in Gk, Ba. rewrite zlen_cons in Bd.
      eapply det_bind; [apply det_bde; assumption|]. cbv beta.
      rewrite g_select_b by (try apply canon_0; apply canon_u32; exact Ba).
      pose proof (zlen_nonneg r) as Zr.
      assert (E : fadd acc (if list_eqb k e then a else 0) = acc + (if list_eqb k e then a else 0)).
      { unfold fadd. apply Z.mod_small. destruct (list_eqb k e); unfold p, two32 in *; lia. }
      rewrite E. replace (acc + ((if list_eqb k e then a else 0) + matchSum e r))
        with (acc + (if list_eqb k e then a else 0) + matchSum e r) by lia.
      apply IH; destruct (list_eqb k e); unfold p, two32 in *; lia.
  Qed.

  Lemma gdet_slot_out all earlier e : good4 e -> Forall good4 earlier -> Forall slot_ok all ->
    zlen all * two32 < p ->
    gdet (slot_out all earlier e) (fst (slot_spec all earlier e) <? two32) (flat_slot (slot_spec all earlier e)).
  Proof.
    intros Ge Fe Fa Bd. unfold slot_out.
    pose proof (matchSum_bound e all Fa) as MB.
    eapply gdet_conv.
    - eapply gdet_dbind; [exact (det_dup_scan earlier e Ge Fe false)|]. cbv beta.
      eapply gdet_dbind; [apply (det_sum_scan all e Ge Fa 0); lia|]. cbv beta.
      eapply gdet_bind; [apply gdet_range_check32; apply canon_g_select|]. apply gdet_ret.
    - rewrite andb_true_r. cbn [orb]. rewrite Z.add_0_l.
      rewrite g_select_b by (try apply canon_0; unfold canon, p, two32 in *; lia).
      unfold slot_spec. destruct (seen_before earlier e); reflexivity.
    - cbn [orb]. rewrite Z.add_0_l.
      rewrite g_select_b by (try apply canon_0; unfold canon, p, two32 in *; lia).
      rewrite map_select0 by exact Ge.
      unfold slot_spec, flat_slot. destruct (seen_before earlier e); reflexivity.
  Qed.

  Lemma gdet_slots_loop all : Forall slot_ok all -> zlen all * two32 < p ->
    forall rest earlier, Forall slot_ok rest -> Forall good4 earlier ->
    gdet (slots_loop all earlier rest)
         (forallb (fun s => fst s <? two32) (slots_spec all earlier rest))
         (map flat_slot (slots_spec all earlier rest)).
  Proof.
    intros Fa Bd. induction rest as [|[e a] r IH]; intros earlier Fr Fe; cbn [slots_loop slots_spec forallb map].
    - apply gdet_ret.
    - inversion Fr as [|? ? [Ge _] Fr']; subst. cbn [fst] in Ge.
      eapply gdet_conv; [| |reflexivity].
      + eapply gdet_bind; [apply gdet_slot_out; assumption|].
        eapply gdet_bind; [apply IH; [exact Fr'|]|apply gdet_ret].
        apply Forall_app. split; [exact Fe|constructor; [exact Ge|constructor]].
      + rewrite andb_true_r. reflexivity.
  Qed.

  (* ---- stage 7: nullifier uniqueness ---- *)
  Lemma gdet_uniq_inner (ri : bool) ni : good4 ni -> forall rest, Forall leaf_fields rest ->
    gdet (uniq_inner (b2z ri) ni (combine (map dflag rest) (map lf_null rest)))
         (forallb (fun q' => negb ((ri && is_real_pb q') && list_eqb ni (lf_null q'))) rest) tt.
  Proof.
    intros Gi. induction 1 as [|q r Wq F IH]; cbn [map combine uniq_inner forallb]; [apply gdet_ret|].
    eapply gdet_conv; [| |reflexivity].
    - eapply gdet_dbind; [apply det_bde; [exact Gi|apply Wq]|]. cbv beta.
      apply gdet_assert. exact IH.
    - unfold dflag, is_real_pb. rewrite g_not_b, !g_and_b, b2z_eqb_0. reflexivity.
  Qed.

  Lemma gdet_uniq leaves : Forall leaf_fields leaves ->
    gdet (uniq (combine (map dflag leaves) (map lf_null leaves))) (uniq_ok leaves) tt.
  Proof.
    induction 1 as [|q r Wq F IH]; cbn [map combine uniq uniq_ok]; [apply gdet_ret|].
    eapply gdet_bind; [|exact IH].
    unfold dflag at 1. rewrite g_not_b. fold (is_real_pb q). apply gdet_uniq_inner; [apply Wq|exact F].
  Qed.

  (* ---- stage 8: nullifier selection ---- *)
  Lemma det_select_nullifiers leaves : Forall leaf_fields leaves -> forall us,
    det (select_nullifiers (combine3 (map dflag leaves) (map lf_null leaves) us))
        (selected_nullifiers H leaves us).
  Proof.
    unfold combine3.
    induction 1 as [|q r Wq F IH]; intros us; cbn [map combine select_nullifiers selected_nullifiers].
    - apply det_ret. reflexivity.
    - destruct us as [|u ur]; cbn [combine select_nullifiers]; [apply det_ret; reflexivity|].
      apply det_hash. apply det_hash.
      eapply det_bind; [apply IH|]. apply det_ret.
      destruct (Hwf (H u)) as [Lh Fh]. destruct (lw_null q Wq) as [Ln Fn].
      unfold dflag, dummyNull. rewrite map2z_select_b by (try assumption; congruence). reflexivity.
  Qed.

  Lemma selected_nullifiers_good leaves : Forall leaf_fields leaves -> forall us,
    Forall (fun d => length d = 4%nat /\ Forall canon d) (selected_nullifiers H leaves us).
  Proof.
    induction 1 as [|q r Wq F IH]; intros [|u ur]; cbn [selected_nullifiers]; try constructor; [|apply IH].
    destruct (is_dummy_pb q); [apply Hwf|apply Wq].
  Qed.

  (* ================================================================ main theorem *)
  Section Main.
    Variables (leaves us : list (list Z)).
    Hypothesis Hn : (1 <= length leaves <= 64)%nat.
    Hypothesis Hleaves : Forall leaf_wf leaves.
    Hypothesis Hus : length us = length leaves.

    Theorem gdet_private_batch :
      gdet (private_batch leaves us) (priv_compat leaves) (priv_output H leaves us).
    Proof.
      pose proof (leaf_wf_fields_all leaves Hleaves) as F.
      destruct (ref_header leaves) as [[fee bh] bn] eqn:RH.
      destruct (ref_header_good leaves fee bh bn F RH) as (Gbh & Cfee & Cbn).
      pose proof (maskedChildPairs_ok leaves F) as Fm.
      pose proof (maskedChildPairs_length leaves) as Lm.
      assert (Bm : zlen (maskedChildPairs leaves) * two32 < p).
      { unfold zlen. rewrite Lm. unfold two32, p. lia. }
      pose proof (selected_nullifiers_good leaves F us) as Gs.
      pose proof (selected_nullifiers_length H leaves us Hus) as Ls.
      eapply gdet_conv.
      - unfold private_batch. cbv zeta.
        eapply gdet_dbind; [apply det_dummy_flags, F|]. cbv beta.
        rewrite (scan_ref_header leaves fee bh bn F RH). cbv iota beta.
        rewrite (masked_slots_spec leaves F).
        eapply gdet_bind; [apply gdet_consistency; [exact F|exact Gbh|exact Cfee]|].
        eapply gdet_bind; [apply gdet_slots_loop; [exact Fm|exact Bm|exact Fm|constructor]|].
        eapply gdet_bind; [apply gdet_uniq, F|].
        eapply gdet_dbind; [apply det_select_nullifiers, F|].
        eapply gdet_dbind; [apply (det_sort_digests4 H 4); [unfold NET_MAX; apply Nat.le_trans with (length leaves); [apply Nat.eq_le_incl; exact Ls|lia]|exact Gs]|].
        apply gdet_ret.
      - unfold priv_compat. rewrite RH.
        rewrite cons_ok_split, slots_spec_groupExits, uniq_ok_distinct. apply andb_shuffle.
      - unfold priv_output. rewrite RH. cbv zeta.
        rewrite flat_map_concat_map.
        rewrite <- slots_spec_groupExits.
        set (E := concat (map flat_slot (slots_spec (maskedChildPairs leaves) [] (maskedChildPairs leaves)))).
        set (N := concat (sort_spec (selected_nullifiers H leaves us))).
        assert (LE : length E = (10 * length leaves)%nat).
        { unfold E. rewrite slots_spec_flat_length by exact Fm. unfold digest in *. lia. }
        assert (LN : length N = (4 * length leaves)%nat).
        { unfold N. rewrite concat_length4.
          - unfold sort_spec. rewrite isort_length. f_equal. exact Ls.
          - eapply Permutation_Forall; [symmetry; apply sort_spec_perm|exact Gs]. }
        assert (LB : zlen ([zlen leaves * 2; lf_asset (nth 0 leaves []); fee] ++ bh ++ [bn] ++ E ++ N)
                     = 8 + 14 * zlen leaves).
        { destruct Gbh as [Lbh _]. unfold zlen. rewrite !app_length, LE, LN, Lbh. cbn [length]. lia. }
        rewrite LB. change PR_LEAF_PI_LEN with 21.
        replace (21 * zlen leaves + 8 - (8 + 14 * zlen leaves)) with (7 * zlen leaves) by lia.
        replace (zlen leaves * 2) with (2 * zlen leaves) by lia.
        rewrite <- !app_assoc. reflexivity.
    Qed.

    Theorem private_batch_spec post :
      rel (private_batch leaves us) post <-> (priv_compat leaves = true /\ post (priv_output H leaves us)).
    Proof. apply gdet_private_batch. Qed.

    Theorem private_batch_hon :
      hon (private_batch leaves us) = if priv_compat leaves then Some (priv_output H leaves us) else None.
    Proof. apply gdet_private_batch. Qed.

    Theorem refines_private_batch : refines H (private_batch leaves us).
    Proof. eapply gdet_refines, gdet_private_batch. Qed.
  End Main.
End PB.

(* ================================================================ pure facts about the specification *)

(* ---------------- groupExits, slot by slot ---------------- *)
Definition key_at (xs : list (list Z * Z)) (k : nat) : list Z := fst (nth k xs ([], 0)).

Lemma slots_spec_nth all rest : forall earlier k d, (k < length rest)%nat ->
  nth k (slots_spec all earlier rest) d =
  slot_spec all (earlier ++ map fst (firstn k rest)) (fst (nth k rest ([], 0))).
Proof.
  induction rest as [|[e a] r IH]; intros earlier k d L; cbn [length] in L; [lia|].
  destruct k as [|k]; cbn [slots_spec nth firstn map fst].
  - rewrite app_nil_r. reflexivity.
  - rewrite IH by lia. rewrite <- app_assoc. reflexivity.
Qed.

Lemma groupExits_length xs : length (groupExits xs) = length xs.
Proof. rewrite <- slots_spec_groupExits. apply slots_spec_length. Qed.

Lemma groupExits_nth xs k d : (k < length xs)%nat ->
  nth k (groupExits xs) d = slot_spec xs (map fst (firstn k xs)) (key_at xs k).
Proof. intros L. rewrite <- slots_spec_groupExits. rewrite slots_spec_nth by exact L. reflexivity. Qed.

Lemma seen_before_firstn xs : forall k e,
  seen_before (map fst (firstn k xs)) e = true <->
  exists j, (j < k)%nat /\ (j < length xs)%nat /\ key_at xs j = e.
Proof.
  unfold seen_before, key_at.
  induction xs as [|x r IH]; intros k e.
  - rewrite firstn_nil. cbn [map existsb length]. split; [discriminate|]. intros (j & _ & L & _). lia.
  - destruct k as [|k]; cbn [firstn map existsb length].
    + split; [discriminate|]. intros (j & L & _). lia.
    + rewrite orb_true_iff, IH, list_eqb_spec. split.
      * intros [E|(j & L1 & L2 & E)].
        -- exists 0%nat. cbn [nth]. split; [lia|]. split; [lia|exact E].
        -- exists (S j). cbn [nth]. split; [lia|]. split; [lia|exact E].
      * intros (j & L1 & L2 & E). destruct j as [|j]; cbn [nth] in E; [left; exact E|].
        right. exists j. split; [lia|]. split; [lia|exact E].
Qed.

(* the first slot of an account carries the account's total ... *)
Lemma groupExits_first xs k d : (k < length xs)%nat ->
  (forall j, (j < k)%nat -> key_at xs j <> key_at xs k) ->
  nth k (groupExits xs) d = (matchSum (key_at xs k) xs, key_at xs k).
Proof.
  intros L N. rewrite groupExits_nth by exact L. unfold slot_spec.
  match goal with |- context [if ?b then _ else _] => destruct b eqn:E end; [|reflexivity].
  apply seen_before_firstn in E. destruct E as (j & L1 & _ & E). exfalso. exact (N j L1 E).
Qed.
(* ... every later slot of the same account is the all-zero slot *)
Lemma groupExits_later xs k d : (k < length xs)%nat ->
  (exists j, (j < k)%nat /\ key_at xs j = key_at xs k) ->
  nth k (groupExits xs) d = (0, zero4).
Proof.
  intros L (j & L1 & E). rewrite groupExits_nth by exact L. unfold slot_spec.
  match goal with |- context [if ?b then _ else _] => destruct b eqn:S end; [reflexivity|].
  exfalso. apply not_true_iff_false in S. apply S.
  apply seen_before_firstn. exists j. split; [exact L1|]. split; [lia|exact E].
Qed.

Lemma groupExits_entry xs s k : In (s, k) (groupExits xs) ->
  (s, k) = (0, zero4) \/ (In k (map fst xs) /\ s = matchSum k xs).
Proof.
  intros I. apply (In_nth _ _ (0, zero4)) in I. destruct I as (i & L & E).
  rewrite groupExits_length in L. rewrite groupExits_nth in E by exact L. unfold slot_spec in E.
  match type of E with context [if ?b then _ else _] => destruct b end; [left; symmetry; exact E|right].
  inversion E; subst. split; [|reflexivity]. unfold key_at. apply in_map. apply nth_In. exact L.
Qed.

(* ---------------- conservation (port of Lean's groupAux_conserves) ---------------- *)
Fixpoint sumUnseen (seen : list (list Z)) (xs : list (list Z * Z)) : Z :=
  match xs with
  | [] => 0
  | (k, a) :: r => (if dmem k seen then 0 else a) + sumUnseen seen r
  end.
Fixpoint amountsTotal (xs : list (list Z * Z)) : Z :=
  match xs with [] => 0 | (_, a) :: r => a + amountsTotal r end.

Lemma dmem_cons k' k seen : dmem k' (k :: seen) = list_eqb k' k || dmem k' seen.
Proof. reflexivity. Qed.
Lemma sumUnseen_split k seen r : dmem k seen = false ->
  sumUnseen seen r = matchSum k r + sumUnseen (k :: seen) r.
Proof.
  intros D. induction r as [|[k' a'] r IH]; cbn [sumUnseen matchSum]; [reflexivity|].
  rewrite IH, dmem_cons. destruct (list_eqb k' k) eqn:E; cbn [orb].
  - apply list_eqb_spec in E. subst k'. rewrite D. lia.
  - destruct (dmem k' seen); lia.
Qed.
Lemma sumUnseen_seen k seen r : dmem k seen = true -> sumUnseen (k :: seen) r = sumUnseen seen r.
Proof.
  intros D. induction r as [|[k' a'] r IH]; cbn [sumUnseen]; [reflexivity|].
  rewrite IH, dmem_cons. destruct (list_eqb k' k) eqn:E; cbn [orb]; [|reflexivity].
  apply list_eqb_spec in E. subst k'. rewrite D. reflexivity.
Qed.
Lemma groupAux_conserves xs : forall seen, slotsTotal (groupAux seen xs) = sumUnseen seen xs.
Proof.
  induction xs as [|[k a] r IH]; intros seen; cbn [groupAux sumUnseen]; [reflexivity|].
  destruct (dmem k seen) eqn:D; cbn [slotsTotal]; rewrite IH.
  - rewrite sumUnseen_seen by exact D. reflexivity.
  - rewrite (sumUnseen_split k seen r D). lia.
Qed.
Lemma sumUnseen_nil xs : sumUnseen [] xs = amountsTotal xs.
Proof. induction xs as [|[k a] r IH]; cbn [sumUnseen amountsTotal dmem existsb]; [reflexivity|]. rewrite IH. reflexivity. Qed.
Lemma groupExits_conserves xs : slotsTotal (groupExits xs) = amountsTotal xs.
Proof. unfold groupExits. rewrite groupAux_conserves. apply sumUnseen_nil. Qed.
Lemma amountsTotal_masked leaves : amountsTotal (maskedChildPairs leaves) = inputExitTotal leaves.
Proof.
  induction leaves as [|q r IH]; cbn [maskedChildPairs inputExitTotal]; [reflexivity|].
  destruct (is_dummy_pb q); cbn [amountsTotal]; rewrite IH; lia.
Qed.
Theorem conservation leaves : slotsTotal (groupExits (maskedChildPairs leaves)) = inputExitTotal leaves.
Proof. rewrite groupExits_conserves. apply amountsTotal_masked. Qed.

Lemma inputExitTotal_bound leaves : Forall leaf_fields leaves ->
  0 <= inputExitTotal leaves <= zlen leaves * (2 * two32 - 2).
Proof.
  induction 1 as [|q r Wq F IH]; cbn [inputExitTotal]; [cbn; lia|]. rewrite zlen_cons.
  pose proof (lw_out1 q Wq). pose proof (lw_out2 q Wq). pose proof (zlen_nonneg r).
  destruct (is_dummy_pb q); unfold two32 in *; lia.
Qed.

(* total sent to account [k] by the real children *)
Fixpoint accountTotal (k : list Z) (leaves : list (list Z)) : Z :=
  match leaves with
  | [] => 0
  | q :: r =>
      (if is_dummy_pb q then 0
       else (if list_eqb (lf_exit1 q) k then lf_out1 q else 0) + (if list_eqb (lf_exit2 q) k then lf_out2 q else 0))
      + accountTotal k r
  end.
Lemma matchSum_masked k leaves : matchSum k (maskedChildPairs leaves) = accountTotal k leaves.
Proof.
  induction leaves as [|q r IH]; cbn [maskedChildPairs accountTotal]; [reflexivity|].
  destruct (is_dummy_pb q); cbn [matchSum]; rewrite IH; [destruct (list_eqb zero4 k)|]; lia.
Qed.
Lemma slot_is_account_total leaves s k :
  In (s, k) (groupExits (maskedChildPairs leaves)) -> k <> zero4 -> s = accountTotal k leaves.
Proof.
  intros I N. apply groupExits_entry in I. destruct I as [E|[_ E]].
  - inversion E; subst. contradiction.
  - rewrite E. apply matchSum_masked.
Qed.

(* a dummy child contributes nothing, whatever its amount / exit fields hold *)
Lemma maskedChildPairs_app l1 l2 : maskedChildPairs (l1 ++ l2) = maskedChildPairs l1 ++ maskedChildPairs l2.
Proof. induction l1 as [|q r IH]; cbn [app maskedChildPairs]; [reflexivity|]. rewrite IH. reflexivity. Qed.
Lemma inputExitTotal_app l1 l2 : inputExitTotal (l1 ++ l2) = inputExitTotal l1 + inputExitTotal l2.
Proof. induction l1 as [|q r IH]; cbn [app inputExitTotal]; [reflexivity|]. rewrite IH. lia. Qed.
Lemma accountTotal_app k l1 l2 : accountTotal k (l1 ++ l2) = accountTotal k l1 + accountTotal k l2.
Proof. induction l1 as [|q r IH]; cbn [app accountTotal]; [reflexivity|]. rewrite IH. lia. Qed.
Lemma dummy_contributes_nothing l1 d l2 : is_dummy_pb d = true ->
  slotsTotal (groupExits (maskedChildPairs (l1 ++ d :: l2))) = inputExitTotal (l1 ++ l2) /\
  forall k, matchSum k (maskedChildPairs (l1 ++ d :: l2)) = matchSum k (maskedChildPairs (l1 ++ l2)).
Proof.
  intros D. split.
  - rewrite conservation, !inputExitTotal_app. cbn [inputExitTotal]. rewrite D. lia.
  - intros k. rewrite !matchSum_masked, !accountTotal_app. cbn [accountTotal]. rewrite D. lia.
Qed.

(* ---------------- decoding the public output ---------------- *)
Lemma firstn_exact {A} (a b : list A) n : length a = n -> firstn n (a ++ b) = a.
Proof. intros <-. rewrite firstn_app, Nat.sub_diag, firstn_all. cbn [firstn]. apply app_nil_r. Qed.
Lemma skipn_exact {A} (a b : list A) n : length a = n -> skipn n (a ++ b) = b.
Proof. intros <-. rewrite skipn_app, Nat.sub_diag, skipn_all. reflexivity. Qed.
Lemma skipn_exact2 {A} (a b : list A) n m : length a = n -> skipn (n + m) (a ++ b) = skipn m b.
Proof.
  intros <-. rewrite skipn_app. rewrite skipn_all2 by lia.
  replace (length a + m - length a)%nat with m by lia. reflexivity.
Qed.

Fixpoint read_slots (n : nat) (region : list Z) : list (Z * list Z) :=
  match n with
  | O => []
  | S m => (nth 0 region 0, firstn 4 (skipn 1 region)) :: read_slots m (skipn 5 region)
  end.
(* the 2N exit slots (sum, account) read back from the public output *)
Definition out_exit_slots (n : nat) (out : list Z) : list (Z * list Z) := read_slots (2 * n) (skipn 8 out).

Lemma read_slots_step a k X n : length k = 4%nat ->
  read_slots (S n) ((a :: k) ++ X) = (a, k) :: read_slots n X.
Proof.
  intros Lk. cbn [read_slots]. rewrite <- app_comm_cons. f_equal.
  - f_equal. change (skipn 1 (a :: k ++ X)) with (k ++ X). apply firstn_exact, Lk.
  - change (skipn 5 (a :: k ++ X)) with (skipn 4 (k ++ X)). rewrite (skipn_exact k X 4 Lk). reflexivity.
Qed.

Lemma read_slots_flat (G : list (Z * list Z)) tail : Forall (fun s => length (snd s) = 4%nat) G ->
  read_slots (length G) (flat_map flat_slot G ++ tail) = G.
Proof.
  induction 1 as [|[a k] G Lk F IH]; cbn [length flat_map]; [reflexivity|].
  cbn [snd] in Lk. change (flat_slot (a, k)) with (a :: k). rewrite <- app_assoc.
  rewrite read_slots_step by exact Lk. rewrite IH. reflexivity.
Qed.

Lemma groupExits_shape xs : Forall slot_ok xs -> Forall (fun s => length (snd s) = 4%nat) (groupExits xs).
Proof.
  intros F. apply Forall_forall. intros [s k] I. cbn [snd]. apply groupExits_entry in I.
  destruct I as [E|[I _]]; [inversion E; reflexivity|].
  apply in_map_iff in I. destruct I as ([k' a] & E & I). cbn [fst] in E. subst k'.
  rewrite Forall_forall in F. apply (F _ I).
Qed.

(* ---------------- the layout of the public output ---------------- *)
Definition po_header (leaves : list (list Z)) : list Z :=
  let '(fee, bh, bn) := ref_header leaves in
  [2 * zlen leaves; lf_asset (nth 0 leaves []); fee] ++ bh ++ [bn].

Lemma priv_output_split H leaves us :
  priv_output H leaves us =
  po_header leaves ++ flat_map flat_slot (groupExits (maskedChildPairs leaves))
  ++ concat (sort_spec (selected_nullifiers H leaves us)) ++ repeat 0 (Z.to_nat (7 * zlen leaves)).
Proof.
  unfold priv_output, po_header. destruct (ref_header leaves) as [[fee bh] bn]. cbv zeta.
  rewrite <- !app_assoc. reflexivity.
Qed.

Lemma po_header_length leaves : Forall leaf_fields leaves -> length (po_header leaves) = 8%nat.
Proof.
  intros F. unfold po_header. destruct (ref_header leaves) as [[fee bh] bn] eqn:RH.
  destruct (ref_header_good leaves fee bh bn F RH) as ([L _] & _). rewrite !app_length, L. reflexivity.
Qed.

Lemma po_header_find leaves :
  po_header leaves =
  [2 * zlen leaves; lf_asset (nth 0 leaves [])] ++
  match find is_real_pb leaves with
  | Some q => [lf_fee q] ++ lf_bh q ++ [lf_bn q]
  | None => [0; 0; 0; 0; 0; 0]
  end.
Proof. unfold po_header, ref_header. destruct (find is_real_pb leaves); reflexivity. Qed.

Lemma exit_region_length leaves : Forall leaf_fields leaves ->
  length (flat_map flat_slot (groupExits (maskedChildPairs leaves))) = (10 * length leaves)%nat.
Proof.
  intros F. rewrite flat_map_concat_map, <- slots_spec_groupExits.
  rewrite slots_spec_flat_length by (apply maskedChildPairs_ok, F).
  pose proof (maskedChildPairs_length leaves). unfold digest in *. lia.
Qed.

Section Layout.
  Variable H : list Z -> list Z.
  Hypothesis Hwf : forall l, length (H l) = 4%nat /\ Forall canon (H l).
  Variables (leaves us : list (list Z)).
  Hypothesis F : Forall leaf_fields leaves.
  Hypothesis Hus : length us = length leaves.

  Lemma null_region_length :
    length (concat (sort_spec (selected_nullifiers H leaves us))) = (4 * length leaves)%nat.
  Proof.
    rewrite concat_length4.
    - unfold sort_spec. rewrite isort_length. f_equal. apply selected_nullifiers_length, Hus.
    - apply Forall_forall. intros d I.
      pose proof (selected_nullifiers_good H Hwf leaves F us) as G. rewrite Forall_forall in G. apply G.
      eapply Permutation_in; [apply sort_spec_perm|exact I].
  Qed.

  Lemma priv_output_length : length (priv_output H leaves us) = (21 * length leaves + 8)%nat.
  Proof.
    rewrite priv_output_split, !app_length, po_header_length, exit_region_length, null_region_length by exact F.
    rewrite repeat_length. unfold zlen. lia.
  Qed.

  Lemma priv_output_header : firstn 8 (priv_output H leaves us) = po_header leaves.
  Proof. rewrite priv_output_split. apply firstn_exact, po_header_length, F. Qed.

  Lemma priv_output_exit_region :
    firstn (10 * length leaves) (skipn 8 (priv_output H leaves us)) =
    flat_map flat_slot (groupExits (maskedChildPairs leaves)).
  Proof.
    rewrite priv_output_split, (skipn_exact _ _ 8 (po_header_length leaves F)).
    apply firstn_exact, exit_region_length, F.
  Qed.

  Lemma priv_output_exit_slots :
    out_exit_slots (length leaves) (priv_output H leaves us) = groupExits (maskedChildPairs leaves).
  Proof.
    unfold out_exit_slots. rewrite priv_output_split, (skipn_exact _ _ 8 (po_header_length leaves F)).
    replace (2 * length leaves)%nat with (length (groupExits (maskedChildPairs leaves))).
    - apply read_slots_flat, groupExits_shape, maskedChildPairs_ok, F.
    - rewrite groupExits_length. apply maskedChildPairs_length.
  Qed.

  Lemma priv_output_null_region :
    firstn (4 * length leaves) (skipn (8 + 10 * length leaves) (priv_output H leaves us)) =
    concat (sort_spec (selected_nullifiers H leaves us)).
  Proof.
    rewrite priv_output_split, (skipn_exact2 _ _ 8 _ (po_header_length leaves F)).
    rewrite (skipn_exact _ _ _ (exit_region_length leaves F)).
    apply firstn_exact, null_region_length.
  Qed.

  Lemma priv_output_padding :
    skipn (8 + 14 * length leaves) (priv_output H leaves us) = repeat 0 (7 * length leaves).
  Proof.
    rewrite priv_output_split.
    replace (8 + 14 * length leaves)%nat with (8 + (10 * length leaves + 4 * length leaves))%nat by lia.
    rewrite (skipn_exact2 _ _ 8 _ (po_header_length leaves F)).
    rewrite (skipn_exact2 _ _ _ _ (exit_region_length leaves F)).
    rewrite (skipn_exact _ _ _ null_region_length).
    f_equal. unfold zlen. lia.
  Qed.
End Layout.

(* ---------------- acceptance, spelled out ---------------- *)
Lemma distinct_digests_NoDup l : distinct_digests l = true <-> NoDup l.
Proof.
  induction l as [|d r IH]; cbn [distinct_digests].
  - split; [constructor|reflexivity].
  - rewrite andb_true_iff, negb_true_iff, IH. split.
    + intros [N D]. constructor; [|exact D]. intros I. apply not_true_iff_false in N. apply N.
      unfold dmem. apply existsb_exists. exists d. split; [exact I|apply list_eqb_refl].
    + intros ND. inversion ND as [|? ? N D]; subst. split; [|exact D].
      apply not_true_iff_false. intros E. apply N. unfold dmem in E. apply existsb_exists in E.
      destruct E as (x & I & E). apply list_eqb_spec in E. subst x. exact I.
Qed.

Lemma seen_before_true earlier e : seen_before earlier e = true <-> In e earlier.
Proof.
  unfold seen_before. rewrite existsb_exists. split.
  - intros (x & I & E). apply list_eqb_spec in E. subst x. exact I.
  - intros I. exists e. split; [exact I|apply list_eqb_refl].
Qed.

Lemma slots_spec_sums_ok all rest : forall earlier,
  forallb (fun s => fst s <? two32) (slots_spec all earlier rest) = true <->
  (forall k, In k (map fst rest) -> ~ In k earlier -> matchSum k all < two32).
Proof.
  induction rest as [|[e a] r IH]; intros earlier; cbn [slots_spec forallb map fst].
  - split; [intros _ k []|reflexivity].
  - rewrite andb_true_iff, IH. unfold slot_spec. split.
    + intros [S0 Sr] k [<-|I] N.
      * destruct (seen_before earlier e) eqn:S; [apply seen_before_true in S; contradiction|].
        cbn [fst] in S0. apply Z.ltb_lt, S0.
      * destruct (list_eqb e k) eqn:E.
        -- apply list_eqb_spec in E. subst k.
           destruct (seen_before earlier e) eqn:S; [apply seen_before_true in S; contradiction|].
           cbn [fst] in S0. apply Z.ltb_lt, S0.
        -- apply Sr; [exact I|]. intros I'. apply in_app_or in I'. destruct I' as [I'|[->|[]]]; [contradiction|].
           rewrite list_eqb_refl in E. discriminate.
    + intros A. split.
      * destruct (seen_before earlier e) eqn:S; cbn [fst]; [reflexivity|].
        apply Z.ltb_lt, A; [left; reflexivity|]. intros I. apply seen_before_true in I. rewrite I in S. discriminate.
      * intros k I N. apply A; [right; exact I|]. intros I'. apply N. apply in_or_app. left. exact I'.
Qed.

Lemma group_sums_ok xs :
  forallb (fun s => fst s <? two32) (groupExits xs) = true <->
  (forall e a, In (e, a) xs -> matchSum e xs < two32).
Proof.
  rewrite <- slots_spec_groupExits, slots_spec_sums_ok. split.
  - intros A e a I. apply A; [|intros []]. apply in_map_iff. exists (e, a). split; [reflexivity|exact I].
  - intros A k I _. apply in_map_iff in I. destruct I as ([e a] & E & I). cbn [fst] in E. subst e. exact (A k a I).
Qed.

(* order-independent form of the acceptance condition *)
Definition compat_prop (leaves : list (list Z)) : Prop :=
  (forall q q', In q leaves -> In q' leaves -> lf_asset q = lf_asset q') /\
  (forall q q', In q leaves -> In q' leaves -> is_real_pb q = true -> is_real_pb q' = true ->
                lf_bh q = lf_bh q' /\ lf_fee q = lf_fee q') /\
  NoDup (map lf_null (filter is_real_pb leaves)) /\
  (forall e a, In (e, a) (maskedChildPairs leaves) -> matchSum e (maskedChildPairs leaves) < two32).

Lemma nth0_in {A} (l : list A) d x : In x l -> In (nth 0 l d) l.
Proof. destruct l as [|y l]; [intros []|]. intros _. left. reflexivity. Qed.

Lemma assets_ok_iff leaves :
  forallb (fun q => lf_asset q =? lf_asset (nth 0 leaves [])) leaves = true <->
  (forall q q', In q leaves -> In q' leaves -> lf_asset q = lf_asset q').
Proof.
  rewrite forallb_forall. split.
  - intros A q q' I I'. apply A in I. apply A in I'. apply Z.eqb_eq in I. apply Z.eqb_eq in I'. congruence.
  - intros A q I. apply Z.eqb_eq. apply A; [exact I|]. eapply nth0_in, I.
Qed.

Lemma refs_ok_iff leaves fee bh bn : ref_header leaves = (fee, bh, bn) ->
  forallb (fun q => is_dummy_pb q || (list_eqb (lf_bh q) bh && (lf_fee q =? fee))) leaves = true <->
  (forall q q', In q leaves -> In q' leaves -> is_real_pb q = true -> is_real_pb q' = true ->
                lf_bh q = lf_bh q' /\ lf_fee q = lf_fee q').
Proof.
  intros RH. rewrite forallb_forall. unfold ref_header in RH. split.
  - intros A q q' I I' R R'. apply A in I. apply A in I'. unfold is_real_pb in R, R'.
    apply negb_true_iff in R. apply negb_true_iff in R'. rewrite R in I. rewrite R' in I'.
    cbn [orb] in I, I'. apply andb_true_iff in I. apply andb_true_iff in I'.
    destruct I as [I1 I2]. destruct I' as [I1' I2'].
    apply list_eqb_spec in I1. apply list_eqb_spec in I1'. apply Z.eqb_eq in I2. apply Z.eqb_eq in I2'.
    split; congruence.
  - intros A q I. destruct (is_dummy_pb q) eqn:D; [reflexivity|]. cbn [orb].
    assert (R : is_real_pb q = true) by (unfold is_real_pb; rewrite D; reflexivity).
    destruct (find is_real_pb leaves) as [q0|] eqn:Fd.
    + apply find_some in Fd. destruct Fd as [I0 R0]. inversion RH; subst.
      destruct (A q q0 I I0 R R0) as [E1 E2]. rewrite E1, E2, list_eqb_refl, Z.eqb_refl. reflexivity.
    + rewrite (find_none _ _ Fd q I) in R. discriminate.
Qed.

Theorem priv_compat_iff leaves : priv_compat leaves = true <-> compat_prop leaves.
Proof.
  unfold priv_compat, compat_prop. destruct (ref_header leaves) as [[fee bh] bn] eqn:RH.
  rewrite !andb_true_iff, assets_ok_iff, (refs_ok_iff leaves fee bh bn RH), distinct_digests_NoDup, group_sums_ok.
  tauto.
Qed.

(* ---------------- permutations of the slots ---------------- *)
Lemma perm_filter {A} (f : A -> bool) l l' : Permutation l l' -> Permutation (filter f l) (filter f l').
Proof.
  induction 1 as [|x l l' P IH|x y l|l l' l'' P1 IH1 P2 IH2]; cbn [filter].
  - constructor.
  - destruct (f x); [apply perm_skip|]; exact IH.
  - destruct (f x), (f y); try apply perm_swap; reflexivity.
  - etransitivity; eassumption.
Qed.

Lemma perm_masked l l' : Permutation l l' -> Permutation (maskedChildPairs l) (maskedChildPairs l').
Proof.
  induction 1 as [|x l l' P IH|x y l|l l' l'' P1 IH1 P2 IH2]; cbn [maskedChildPairs].
  - constructor.
  - apply perm_skip, perm_skip, IH.
  - set (r := maskedChildPairs l).
    set (x1 := if is_dummy_pb x then (zero4, 0) else (lf_exit1 x, lf_out1 x)).
    set (x2 := if is_dummy_pb x then (zero4, 0) else (lf_exit2 x, lf_out2 x)).
    set (y1 := if is_dummy_pb y then (zero4, 0) else (lf_exit1 y, lf_out1 y)).
    set (y2 := if is_dummy_pb y then (zero4, 0) else (lf_exit2 y, lf_out2 y)).
    change (Permutation ([y1; y2] ++ [x1; x2] ++ r) ([x1; x2] ++ [y1; y2] ++ r)).
    rewrite !app_assoc. apply Permutation_app_tail, Permutation_app_comm.
  - etransitivity; eassumption.
Qed.

Lemma perm_matchSum k xs xs' : Permutation xs xs' -> matchSum k xs = matchSum k xs'.
Proof.
  induction 1 as [|[k1 a1] l l' P IH|[k1 a1] [k2 a2] l|l l' l'' P1 IH1 P2 IH2]; cbn [matchSum]; lia.
Qed.

Lemma compat_prop_perm l l' : Permutation l l' -> compat_prop l -> compat_prop l'.
Proof.
  intros P (A & B & C & D). assert (P' : Permutation l' l) by (symmetry; exact P).
  split; [|split; [|split]].
  - intros q q' I I'. apply A; eapply Permutation_in; eassumption.
  - intros q q' I I'. apply B; eapply Permutation_in; eassumption.
  - eapply Permutation_NoDup; [|exact C]. apply Permutation_map, perm_filter, P.
  - intros e a I. rewrite <- (perm_matchSum e _ _ (perm_masked l l' P)).
    apply (D e a). eapply Permutation_in; [apply perm_masked, P'|exact I].
Qed.

Theorem priv_compat_perm l l' : Permutation l l' -> priv_compat l = priv_compat l'.
Proof.
  intros P. apply eq_true_iff_eq. rewrite !priv_compat_iff.
  split; apply compat_prop_perm; [exact P|symmetry; exact P].
Qed.

Lemma map_fst_combine {A B} (l : list A) : forall (l' : list B), length l' = length l -> map fst (combine l l') = l.
Proof.
  induction l as [|x l IH]; intros [|y l'] L; cbn [length] in L; try discriminate; cbn [combine map fst]; [reflexivity|].
  rewrite IH by lia. reflexivity.
Qed.

Lemma perm_combine_leaves (leaves us leaves' us' : list (list Z)) :
  length us = length leaves -> length us' = length leaves' ->
  Permutation (combine leaves us) (combine leaves' us') -> Permutation leaves leaves'.
Proof.
  intros L L' P. rewrite <- (map_fst_combine leaves us L), <- (map_fst_combine leaves' us' L').
  apply Permutation_map, P.
Qed.

Theorem priv_compat_order_irrelevant (leaves us leaves' us' : list (list Z)) :
  length us = length leaves -> length us' = length leaves' ->
  Permutation (combine leaves us) (combine leaves' us') -> priv_compat leaves = priv_compat leaves'.
Proof. intros L L' P. apply priv_compat_perm. exact (perm_combine_leaves _ _ _ _ L L' P). Qed.

(* ---------------- permuting the slots: nullifier region ---------------- *)
Definition sel_of (H : list Z -> list Z) (qu : list Z * list Z) : list Z :=
  if is_dummy_pb (fst qu) then dummyNull H (snd qu) else lf_null (fst qu).

Lemma selected_nullifiers_map H leaves : forall us,
  selected_nullifiers H leaves us = map (sel_of H) (combine leaves us).
Proof.
  induction leaves as [|q r IH]; intros [|u ur]; cbn [selected_nullifiers combine map]; try reflexivity.
  rewrite IH. reflexivity.
Qed.

Lemma sort_spec_perm_eq a b : Permutation a b -> sort_spec a = sort_spec b.
Proof.
  intros P. apply sort_spec_unique; [|apply sort_spec_sorted].
  etransitivity; [apply sort_spec_perm|exact P].
Qed.

Theorem perm_nullifiers H (leaves us leaves' us' : list (list Z)) :
  Permutation (combine leaves us) (combine leaves' us') ->
  concat (sort_spec (selected_nullifiers H leaves us)) = concat (sort_spec (selected_nullifiers H leaves' us')).
Proof.
  intros P. f_equal. apply sort_spec_perm_eq. rewrite !selected_nullifiers_map. apply Permutation_map, P.
Qed.

(* ---------------- permuting the slots: header ---------------- *)
Definition bn_determined (leaves : list (list Z)) : Prop :=
  forall q q', In q leaves -> In q' leaves -> is_real_pb q = true -> is_real_pb q' = true ->
               lf_bh q = lf_bh q' -> lf_bn q = lf_bn q'.

Lemma perm_ref_header l l' fee bh bn fee' bh' bn' : Permutation l l' -> compat_prop l ->
  ref_header l = (fee, bh, bn) -> ref_header l' = (fee', bh', bn') ->
  fee = fee' /\ bh = bh' /\ (bn_determined l -> bn = bn').
Proof.
  intros P (_ & B & _ & _) R R'. unfold ref_header in R, R'.
  destruct (find is_real_pb l) as [q|] eqn:Fq; destruct (find is_real_pb l') as [q'|] eqn:Fq'.
  - apply find_some in Fq. apply find_some in Fq'. destruct Fq as [I Rq]. destruct Fq' as [I' Rq'].
    apply (Permutation_in _ (Permutation_sym P)) in I'.
    destruct (B q q' I I' Rq Rq') as [E1 E2]. inversion R; inversion R'; subst.
    split; [exact E2|]. split; [exact E1|]. intros D. exact (D q q' I I' Rq Rq' E1).
  - apply find_some in Fq. destruct Fq as [I Rq]. apply (Permutation_in _ P) in I.
    rewrite (find_none _ _ Fq' q I) in Rq. discriminate.
  - apply find_some in Fq'. destruct Fq' as [I' Rq']. apply (Permutation_in _ (Permutation_sym P)) in I'.
    rewrite (find_none _ _ Fq q' I') in Rq'. discriminate.
  - inversion R; inversion R'; subst. split; [reflexivity|]. split; reflexivity.
Qed.

Lemma perm_asset0 l l' : Permutation l l' -> compat_prop l ->
  lf_asset (nth 0 l []) = lf_asset (nth 0 l' []).
Proof.
  intros P (A & _). destruct l as [|x l].
  - apply Permutation_nil in P. subst l'. reflexivity.
  - destruct l' as [|x' l']; [apply Permutation_sym, Permutation_nil in P; discriminate|].
    cbn [nth]. apply A; [left; reflexivity|]. apply (Permutation_in _ (Permutation_sym P)). left. reflexivity.
Qed.

Lemma perm_po_header l l' : Permutation l l' -> priv_compat l = true ->
  Forall leaf_fields l ->
  firstn 7 (po_header l) = firstn 7 (po_header l') /\ (bn_determined l -> po_header l = po_header l').
Proof.
  intros P C F. apply priv_compat_iff in C.
  assert (F' : Forall leaf_fields l') by (eapply Permutation_Forall; [exact P|exact F]).
  unfold po_header.
  destruct (ref_header l) as [[fee bh] bn] eqn:R. destruct (ref_header l') as [[fee' bh'] bn'] eqn:R'.
  destruct (perm_ref_header l l' _ _ _ _ _ _ P C R R') as (E1 & E2 & E3). subst fee' bh'.
  destruct (ref_header_good l fee bh bn F R) as ([Lb _] & _).
  rewrite (perm_asset0 l l' P C). unfold zlen. rewrite (Permutation_length P). split.
  - destruct bh as [|b0 [|b1 [|b2 [|b3 [|? ?]]]]]; try discriminate Lb. reflexivity.
  - intros D. rewrite (E3 D). reflexivity.
Qed.

(* ---------------- permuting the slots: exit slots ---------------- *)
Definition is_zero_slot (s : Z * list Z) : bool := (fst s =? 0) && list_eqb (snd s) zero4.
Definition nonzero_slot (s : Z * list Z) : bool := negb (is_zero_slot s).

Fixpoint first_keys (earlier : list (list Z)) (rest : list (list Z * Z)) : list (list Z) :=
  match rest with
  | [] => []
  | (e, _) :: r =>
      if seen_before earlier e then first_keys (earlier ++ [e]) r else e :: first_keys (earlier ++ [e]) r
  end.

Lemma slots_spec_nonzero all rest : forall earlier,
  filter nonzero_slot (slots_spec all earlier rest) =
  filter nonzero_slot (map (fun k => (matchSum k all, k)) (first_keys earlier rest)).
Proof.
  induction rest as [|[e a] r IH]; intros earlier; cbn [slots_spec first_keys]; [reflexivity|].
  unfold slot_spec. destruct (seen_before earlier e); cbn [map filter]; rewrite IH; reflexivity.
Qed.

Lemma first_keys_in rest : forall earlier k,
  In k (first_keys earlier rest) <-> In k (map fst rest) /\ ~ In k earlier.
Proof.
  induction rest as [|[e a] r IH]; intros earlier k; cbn [first_keys map fst]; [cbn; tauto|].
  assert (X : In k (first_keys (earlier ++ [e]) r) <-> In k (map fst r) /\ ~ In k earlier /\ e <> k).
  { rewrite IH. split.
    - intros [I N]. split; [exact I|]. split; intros I'; apply N, in_or_app; [left; exact I'|right; left; exact I'].
    - intros (I & N1 & N2). split; [exact I|]. intros I'. apply in_app_or in I'. destruct I' as [I'|[I'|[]]]; contradiction. }
  destruct (seen_before earlier e) eqn:S.
  - apply seen_before_true in S. rewrite X. cbn [In]. split.
    + intros (I & N1 & N2). tauto.
    + intros [[E|I] N]; [subst; contradiction|]. split; [exact I|]. split; [exact N|]. intros E. subst. contradiction.
  - assert (S' : ~ In e earlier) by (intros I; apply seen_before_true in I; rewrite I in S; discriminate).
    cbn [In]. rewrite X. split.
    + intros [E|(I & N1 & N2)]; [subst; tauto|tauto].
    + intros [[E|I] N]; [left; exact E|]. destruct (list_eqb e k) eqn:E.
      * apply list_eqb_spec in E. left. exact E.
      * apply list_eqb_false in E. right. tauto.
Qed.

Lemma first_keys_nodup rest : forall earlier, NoDup (first_keys earlier rest).
Proof.
  induction rest as [|[e a] r IH]; intros earlier; cbn [first_keys]; [constructor|].
  destruct (seen_before earlier e); [apply IH|]. constructor; [|apply IH].
  intros I. apply first_keys_in in I. destruct I as [_ N]. apply N. apply in_or_app. right. left. reflexivity.
Qed.

Theorem perm_nonzero_slots xs xs' : Permutation xs xs' ->
  Permutation (filter nonzero_slot (groupExits xs)) (filter nonzero_slot (groupExits xs')).
Proof.
  intros P. rewrite <- !slots_spec_groupExits, !slots_spec_nonzero.
  apply perm_filter.
  rewrite (map_ext (fun k => (matchSum k xs, k)) (fun k => (matchSum k xs', k)))
    by (intros k; rewrite (perm_matchSum k xs xs' P); reflexivity).
  apply Permutation_map. apply NoDup_Permutation; try apply first_keys_nodup.
  intros k. rewrite !first_keys_in.
  assert (Q : In k (map fst xs) <-> In k (map fst xs')).
  { split; apply Permutation_in, Permutation_map; [exact P|symmetry; exact P]. }
  tauto.
Qed.

Theorem perm_exit_slots l l' : Permutation l l' ->
  Permutation (filter nonzero_slot (groupExits (maskedChildPairs l)))
              (filter nonzero_slot (groupExits (maskedChildPairs l'))).
Proof. intros P. apply perm_nonzero_slots, perm_masked, P. Qed.

(* ---------------- which output slots are the all-zero slot ---------------- *)
Lemma masked_nth leaves : forall i d, (i < length leaves)%nat ->
  nth (2 * i) (maskedChildPairs leaves) d =
    (if is_dummy_pb (nth i leaves []) then (zero4, 0) else (lf_exit1 (nth i leaves []), lf_out1 (nth i leaves []))) /\
  nth (2 * i + 1) (maskedChildPairs leaves) d =
    (if is_dummy_pb (nth i leaves []) then (zero4, 0) else (lf_exit2 (nth i leaves []), lf_out2 (nth i leaves []))).
Proof.
  induction leaves as [|q r IH]; intros i d L; cbn [length] in L; [lia|].
  destruct i as [|i]; cbn [maskedChildPairs].
  - split; reflexivity.
  - replace (2 * S i)%nat with (S (S (2 * i))) by lia. replace (S (S (2 * i)) + 1)%nat with (S (S (2 * i + 1))) by lia.
    cbn [nth]. apply IH. lia.
Qed.

Definition no_payment_to_zero_account (leaves : list (list Z)) : Prop :=
  forall q, In q leaves -> is_real_pb q = true ->
    (lf_exit1 q = zero4 -> lf_out1 q = 0) /\ (lf_exit2 q = zero4 -> lf_out2 q = 0).

Lemma accountTotal_zero4 leaves : no_payment_to_zero_account leaves -> accountTotal zero4 leaves = 0.
Proof.
  induction leaves as [|q r IH]; intros N; cbn [accountTotal]; [reflexivity|].
  rewrite IH by (intros q' I; apply N; right; exact I).
  destruct (is_dummy_pb q) eqn:D; [reflexivity|].
  destruct (N q (or_introl eq_refl)) as [N1 N2]; [unfold is_real_pb; rewrite D; reflexivity|].
  destruct (list_eqb (lf_exit1 q) zero4) eqn:E1; destruct (list_eqb (lf_exit2 q) zero4) eqn:E2;
    try (apply list_eqb_spec in E1; rewrite (N1 E1)); try (apply list_eqb_spec in E2; rewrite (N2 E2)); reflexivity.
Qed.

Theorem dummy_slots_zero leaves i j d : (i < length leaves)%nat -> is_dummy_pb (nth i leaves []) = true ->
  no_payment_to_zero_account leaves -> (j = 2 * i \/ j = 2 * i + 1)%nat ->
  nth j (groupExits (maskedChildPairs leaves)) d = (0, zero4).
Proof.
  intros L D N J.
  assert (Lj : (j < length (maskedChildPairs leaves))%nat) by (rewrite maskedChildPairs_length; lia).
  assert (K : key_at (maskedChildPairs leaves) j = zero4).
  { unfold key_at. destruct (masked_nth leaves i ([], 0) L) as [E1 E2]. rewrite D in E1, E2.
    destruct J as [-> | ->]; [exact (f_equal fst E1)|exact (f_equal fst E2)]. }
  rewrite groupExits_nth by exact Lj. unfold slot_spec. rewrite K.
  match goal with |- context [if ?b then _ else _] => destruct b end; [reflexivity|].
  rewrite matchSum_masked, accountTotal_zero4 by exact N. reflexivity.
Qed.

(* ---------------- dummy slots: only the block-hash sentinel and the asset id matter ---------------- *)
Definition same_up_to_dummy_fields (q q' : list Z) : Prop :=
  q = q' \/ (is_dummy_pb q = true /\ is_dummy_pb q' = true /\ lf_asset q = lf_asset q').

Notation sdf := (Forall2 same_up_to_dummy_fields).

Lemma sdf_length l l' : sdf l l' -> length l = length l'.
Proof. induction 1 as [|q q' r r' _ _ IH]; cbn [length]; [reflexivity|rewrite IH; reflexivity]. Qed.
Lemma sdf_asset0 l l' : sdf l l' -> lf_asset (nth 0 l []) = lf_asset (nth 0 l' []).
Proof. intros R. destruct R as [|q q' r r' [->|(_ & _ & E)] _]; cbn [nth]; congruence. Qed.
Lemma sdf_find l l' : sdf l l' -> find is_real_pb l = find is_real_pb l'.
Proof.
  induction 1 as [|q q' r r' [->|(D & D' & _)] _ IH]; cbn [find]; [reflexivity|rewrite IH; reflexivity|].
  unfold is_real_pb. rewrite D, D'. cbn [negb]. exact IH.
Qed.
Lemma sdf_ref_header l l' : sdf l l' -> ref_header l = ref_header l'.
Proof. intros R. unfold ref_header. rewrite (sdf_find l l' R). reflexivity. Qed.
Lemma sdf_masked l l' : sdf l l' -> maskedChildPairs l = maskedChildPairs l'.
Proof.
  induction 1 as [|q q' r r' [->|(D & D' & _)] _ IH]; cbn [maskedChildPairs]; [reflexivity|rewrite IH; reflexivity|].
  rewrite D, D', IH. reflexivity.
Qed.
Lemma sdf_selected H l l' : sdf l l' -> forall us, selected_nullifiers H l us = selected_nullifiers H l' us.
Proof.
  induction 1 as [|q q' r r' [->|(D & D' & _)] _ IH]; intros [|u ur]; cbn [selected_nullifiers]; try reflexivity.
  - rewrite IH. reflexivity.
  - rewrite D, D', IH. reflexivity.
Qed.
Lemma sdf_assets a l l' : sdf l l' ->
  forallb (fun q => lf_asset q =? a) l = forallb (fun q => lf_asset q =? a) l'.
Proof.
  induction 1 as [|q q' r r' [->|(_ & _ & E)] _ IH]; cbn [forallb]; [reflexivity|rewrite IH; reflexivity|].
  rewrite E, IH. reflexivity.
Qed.
Lemma sdf_refs bh fee l l' : sdf l l' ->
  forallb (fun q => is_dummy_pb q || (list_eqb (lf_bh q) bh && (lf_fee q =? fee))) l =
  forallb (fun q => is_dummy_pb q || (list_eqb (lf_bh q) bh && (lf_fee q =? fee))) l'.
Proof.
  induction 1 as [|q q' r r' [->|(D & D' & _)] _ IH]; cbn [forallb]; [reflexivity|rewrite IH; reflexivity|].
  rewrite D, D', IH. reflexivity.
Qed.
Lemma sdf_real l l' : sdf l l' -> filter is_real_pb l = filter is_real_pb l'.
Proof.
  induction 1 as [|q q' r r' [->|(D & D' & _)] _ IH]; cbn [filter]; [reflexivity|rewrite IH; reflexivity|].
  assert (E : is_real_pb q = false) by (unfold is_real_pb; rewrite D; reflexivity).
  assert (E' : is_real_pb q' = false) by (unfold is_real_pb; rewrite D'; reflexivity).
  rewrite E, E'. exact IH.
Qed.

Theorem dummy_noninterference_output H l l' us : sdf l l' -> priv_output H l us = priv_output H l' us.
Proof.
  intros R. unfold priv_output.
  rewrite (sdf_ref_header l l' R), (sdf_masked l l' R), (sdf_selected H l l' R), (sdf_asset0 l l' R).
  unfold zlen. rewrite (sdf_length l l' R). reflexivity.
Qed.
Theorem dummy_noninterference_compat l l' : sdf l l' -> priv_compat l = priv_compat l'.
Proof.
  intros R. unfold priv_compat.
  rewrite (sdf_ref_header l l' R), (sdf_masked l l' R), (sdf_real l l' R), (sdf_asset0 l l' R).
  destruct (ref_header l') as [[fee bh] bn]. rewrite (sdf_assets _ l l' R), (sdf_refs bh fee l l' R). reflexivity.
Qed.

Lemma Forall2_sdf_refl l : Forall2 same_up_to_dummy_fields l l.
Proof. induction l; constructor; [left; reflexivity|assumption]. Qed.

Theorem dummy_fields_irrelevant l1 d d' l2 :
  is_dummy_pb d = true -> is_dummy_pb d' = true -> lf_asset d = lf_asset d' ->
  priv_compat (l1 ++ d :: l2) = priv_compat (l1 ++ d' :: l2) /\
  forall H us, priv_output H (l1 ++ d :: l2) us = priv_output H (l1 ++ d' :: l2) us.
Proof.
  intros D D' E.
  assert (R : Forall2 same_up_to_dummy_fields (l1 ++ d :: l2) (l1 ++ d' :: l2)).
  { apply Forall2_app; [apply Forall2_sdf_refl|]. constructor; [right; tauto|apply Forall2_sdf_refl]. }
  split; [apply dummy_noninterference_compat, R|]. intros H us. apply dummy_noninterference_output, R.
Qed.

(* ---------------- the acceptance condition in plain words ---------------- *)
Lemma is_real_pb_iff q : is_real_pb q = true <-> lf_bh q <> zero4.
Proof. unfold is_real_pb, is_dummy_pb. rewrite negb_true_iff. apply list_eqb_false. Qed.

Theorem compat_spelled_out leaves :
  priv_compat leaves = true <->
  (* one asset over all slots (dummies included) *)
  Forall (fun q => lf_asset q = lf_asset (nth 0 leaves [])) leaves /\
  (* the real slots (non-zero block hash) share one block hash and one fee *)
  (forall q q', In q leaves -> In q' leaves -> lf_bh q <> zero4 -> lf_bh q' <> zero4 ->
                lf_bh q = lf_bh q' /\ lf_fee q = lf_fee q') /\
  (* the nullifiers of the real slots are pairwise distinct *)
  NoDup (map lf_null (filter is_real_pb leaves)) /\
  (* every exit account receives less than 2^32 in total *)
  (forall e a, In (e, a) (maskedChildPairs leaves) -> matchSum e (maskedChildPairs leaves) < two32).
Proof.
  rewrite priv_compat_iff. unfold compat_prop. rewrite Forall_forall. split.
  - intros (A & B & C & D). split; [|split; [|split; [exact C|exact D]]].
    + intros q I. apply A; [exact I|]. eapply nth0_in, I.
    + intros q q' I I' N N'. apply B; try assumption; apply is_real_pb_iff; assumption.
  - intros (A & B & C & D). split; [|split; [|split; [exact C|exact D]]].
    + intros q q' I I'. rewrite (A q I), (A q' I'). reflexivity.
    + intros q q' I I' N N'. apply B; try assumption; apply is_real_pb_iff; assumption.
Qed.

(* ================================================================ consequences for every satisfying witness *)
Section Consequences.
  Variable H : list Z -> list Z.
  Hypothesis Hwf : forall l, length (H l) = 4%nat /\ Forall canon (H l).
  Variables (leaves us : list (list Z)).
  Hypothesis Hn : (1 <= length leaves <= 64)%nat.
  Hypothesis Hleaves : Forall leaf_wf leaves.
  Hypothesis Hus : length us = length leaves.

  Theorem private_batch_output post :
    rel H (private_batch leaves us) post -> post (priv_output H leaves us).
  Proof. intros R. apply (private_batch_spec H Hwf leaves us Hn Hleaves Hus) in R. apply R. Qed.

  Theorem private_batch_output_eq out :
    rel H (private_batch leaves us) (fun o => o = out) -> out = priv_output H leaves us.
  Proof. intros R. symmetry. exact (private_batch_output _ R). Qed.

  Theorem private_batch_accept_iff :
    (exists out, rel H (private_batch leaves us) (fun o => o = out)) <-> priv_compat leaves = true.
  Proof.
    split.
    - intros [out R]. apply (private_batch_spec H Hwf leaves us Hn Hleaves Hus) in R. apply R.
    - intros C. exists (priv_output H leaves us).
      apply (private_batch_spec H Hwf leaves us Hn Hleaves Hus). split; [exact C|reflexivity].
  Qed.

  Theorem private_batch_unique_output a b :
    rel H (private_batch leaves us) (fun o => o = a) -> rel H (private_batch leaves us) (fun o => o = b) -> a = b.
  Proof. apply refines_unique. exact (refines_private_batch H Hwf leaves us Hn Hleaves Hus). Qed.

  Theorem private_batch_honest_fails_all_fail :
    hon H (private_batch leaves us) = None -> forall post, ~ rel H (private_batch leaves us) post.
  Proof. apply refines_honest_fails. exact (refines_private_batch H Hwf leaves us Hn Hleaves Hus). Qed.

  Theorem circuit_conservation out : rel H (private_batch leaves us) (fun o => o = out) ->
    slotsTotal (out_exit_slots (length leaves) out) = inputExitTotal leaves /\
    0 <= inputExitTotal leaves < 2 ^ 39.
  Proof.
    intros R. rewrite (private_batch_output_eq out R).
    pose proof (leaf_wf_fields_all leaves Hleaves) as F.
    rewrite (priv_output_exit_slots H leaves us F). split; [apply conservation|].
    pose proof (inputExitTotal_bound leaves F) as B. change (2 ^ 39) with 549755813888.
    unfold zlen, two32 in B. lia.
  Qed.

  Theorem circuit_slot_is_account_total out s k : rel H (private_batch leaves us) (fun o => o = out) ->
    In (s, k) (out_exit_slots (length leaves) out) -> k <> zero4 -> s = accountTotal k leaves.
  Proof.
    intros R. rewrite (private_batch_output_eq out R).
    rewrite (priv_output_exit_slots H leaves us (leaf_wf_fields_all leaves Hleaves)).
    apply slot_is_account_total.
  Qed.
End Consequences.

(* ---------------- permuted batches: header of the public output ---------------- *)
Section PermHeader.
  Variable H : list Z -> list Z.
  Variables (leaves us leaves' us' : list (list Z)).
  Hypothesis Hleaves : Forall leaf_wf leaves.
  Hypothesis Hus : length us = length leaves.
  Hypothesis Hus' : length us' = length leaves'.
  Hypothesis Hperm : Permutation (combine leaves us) (combine leaves' us').
  Hypothesis Hcompat : priv_compat leaves = true.

  Let P : Permutation leaves leaves' := perm_combine_leaves leaves us leaves' us' Hus Hus' Hperm.
  Let F : Forall leaf_fields leaves := leaf_wf_fields_all leaves Hleaves.
  Let F' : Forall leaf_fields leaves' := Permutation_Forall P F.

  Theorem perm_header_without_number :
    firstn 7 (priv_output H leaves us) = firstn 7 (priv_output H leaves' us').
  Proof.
    replace 7%nat with (Nat.min 7 8) by reflexivity. rewrite <- !firstn_firstn.
    rewrite (priv_output_header H leaves us F), (priv_output_header H leaves' us' F').
    apply (perm_po_header leaves leaves' P Hcompat F).
  Qed.

  Theorem perm_header : bn_determined leaves ->
    firstn 8 (priv_output H leaves us) = firstn 8 (priv_output H leaves' us').
  Proof.
    intros D. rewrite (priv_output_header H leaves us F), (priv_output_header H leaves' us' F').
    apply (perm_po_header leaves leaves' P Hcompat F), D.
  Qed.

  Theorem perm_compat : priv_compat leaves' = true.
  Proof. rewrite <- (priv_compat_perm leaves leaves' P). exact Hcompat. Qed.
End PermHeader.

(* ================================================================ concrete instances (non-vacuity, refutations) *)
Definition leaf_wfb (q : list Z) : bool :=
  (length q =? 21)%nat && forallb is_canon q && (lf_out1 q <? two32) && (lf_out2 q <? two32).
Lemma leaf_wfb_ok q : leaf_wfb q = true -> leaf_wf q.
Proof.
  unfold leaf_wfb, leaf_wf. rewrite !andb_true_iff, Nat.eqb_eq, !Z.ltb_lt, forallb_forall, Forall_forall.
  intros [[[L C] O1] O2]. split; [exact L|]. split; [|split; assumption].
  intros x I. apply is_canon_spec, C, I.
Qed.
Lemma leaves_wfb_ok l : forallb leaf_wfb l = true -> Forall leaf_wf l.
Proof. rewrite forallb_forall, Forall_forall. intros A q I. apply leaf_wfb_ok, A, I. Qed.

Definition H0 (l : list Z) : list Z := [1 + (fold_left Z.add l 0) mod 1000; 2; 3; 4].
Lemma H0_wf : forall l, length (H0 l) = 4%nat /\ Forall canon (H0 l).
Proof.
  intros l. split; [reflexivity|]. unfold H0.
  pose proof (Z.mod_pos_bound (fold_left Z.add l 0) 1000 ltac:(lia)).
  repeat (constructor; [unfold canon, p; lia|]). constructor.
Qed.

(*                              asset out1 out2 fee  nullifier      exit 1          exit 2          block hash      number *)
Definition ex_real1 : list Z := [0; 10; 20; 5;  11; 12; 13; 14;  21; 22; 23; 24;  31; 32; 33; 34;  41; 42; 43; 44;  7].
Definition ex_dummy : list Z := [0; 99; 98; 3;  1; 1; 1; 1;      9; 9; 9; 9;      8; 8; 8; 8;      0; 0; 0; 0;      0].
Definition ex_real2 : list Z := [0; 30; 40; 5;  15; 16; 17; 18;  21; 22; 23; 24;  51; 52; 53; 54;  41; 42; 43; 44;  7].
(* same block hash as ex_real1, another block number *)
Definition ex_real3 : list Z := [0; 30; 40; 5;  15; 16; 17; 18;  21; 22; 23; 24;  51; 52; 53; 54;  41; 42; 43; 44;  8].
(* pays 5 to the all-zero account *)
Definition ex_real4 : list Z := [0; 5; 6; 5;    15; 16; 17; 18;  0; 0; 0; 0;      51; 52; 53; 54;  41; 42; 43; 44;  7].
Definition ex_leaves : list (list Z) := [ex_real1; ex_dummy; ex_real2].
Definition ex_us : list (list Z) := [[1; 1; 1; 1]; [2; 2; 2; 2]; [3; 3; 3; 3]].

Lemma ex_leaves_wf : Forall leaf_wf ex_leaves.
Proof. apply leaves_wfb_ok. vm_compute. reflexivity. Qed.
Lemma ex_compat : priv_compat ex_leaves = true.
Proof. vm_compute. reflexivity. Qed.
Lemma ex_hon : hon H0 (private_batch ex_leaves ex_us) = Some (priv_output H0 ex_leaves ex_us).
Proof. vm_compute. reflexivity. Qed.
Lemma ex_output_slots :
  groupExits (maskedChildPairs ex_leaves) =
  [(40, [21; 22; 23; 24]); (20, [31; 32; 33; 34]); (0, zero4); (0, zero4); (0, zero4); (40, [51; 52; 53; 54])].
Proof. vm_compute. reflexivity. Qed.

(* without "equal block hashes have equal block numbers" the header's block number depends on the slot order *)
Theorem perm_block_number_refuted :
  exists H leaves us leaves' us',
    (forall l, length (H l) = 4%nat /\ Forall canon (H l)) /\
    Forall leaf_wf leaves /\ length us = length leaves /\ length us' = length leaves' /\
    Permutation (combine leaves us) (combine leaves' us') /\ priv_compat leaves = true /\
    firstn 8 (priv_output H leaves us) <> firstn 8 (priv_output H leaves' us').
Proof.
  exists H0, [ex_real1; ex_real3], [[1; 1; 1; 1]; [2; 2; 2; 2]], [ex_real3; ex_real1], [[2; 2; 2; 2]; [1; 1; 1; 1]].
  split; [exact H0_wf|]. split; [apply leaves_wfb_ok; vm_compute; reflexivity|].
  split; [reflexivity|]. split; [reflexivity|]. split; [cbn [combine]; apply perm_swap|].
  split; [vm_compute; reflexivity|]. vm_compute. discriminate.
Qed.

(* a dummy child's output slot is NOT always the all-zero slot: it is the first slot of the all-zero
   account, and shows whatever real children pay to that account *)
Theorem dummy_slot_zero_refuted :
  exists leaves, Forall leaf_wf leaves /\ priv_compat leaves = true /\
    is_dummy_pb (nth 0 leaves []) = true /\
    nth 0 (groupExits (maskedChildPairs leaves)) (0, zero4) = (5, zero4).
Proof.
  exists [ex_dummy; ex_real4]. split; [apply leaves_wfb_ok; vm_compute; reflexivity|].
  split; [vm_compute; reflexivity|]. split; vm_compute; reflexivity.
Qed.

(* ================================================================ statements over [leaf_wf] for Properties/C06-C09 *)
Section Statements.
  Variable H : list Z -> list Z.
  Hypothesis Hwf : forall l, length (H l) = 4%nat /\ Forall canon (H l).

  Section One.
    Variables (leaves us : list (list Z)).
    Hypothesis Hleaves : Forall leaf_wf leaves.
    Hypothesis Hus : length us = length leaves.
    Let F : Forall leaf_fields leaves := leaf_wf_fields_all leaves Hleaves.

    Theorem output_length : length (priv_output H leaves us) = (21 * length leaves + 8)%nat.
    Proof. exact (priv_output_length H Hwf leaves us F Hus). Qed.

    Theorem output_header :
      firstn 8 (priv_output H leaves us) =
      [2 * zlen leaves; lf_asset (nth 0 leaves [])] ++
      match find is_real_pb leaves with
      | Some q => [lf_fee q] ++ lf_bh q ++ [lf_bn q]
      | None => [0; 0; 0; 0; 0; 0]
      end.
    Proof. rewrite (priv_output_header H leaves us F). apply po_header_find. Qed.

    Theorem output_exit_region :
      firstn (10 * length leaves) (skipn 8 (priv_output H leaves us)) =
      flat_map flat_slot (groupExits (maskedChildPairs leaves)).
    Proof. exact (priv_output_exit_region H leaves us F). Qed.

    Theorem output_exit_slots :
      out_exit_slots (length leaves) (priv_output H leaves us) = groupExits (maskedChildPairs leaves).
    Proof. exact (priv_output_exit_slots H leaves us F). Qed.

    Theorem output_nullifier_region :
      firstn (4 * length leaves) (skipn (8 + 10 * length leaves) (priv_output H leaves us)) =
        concat (sort_spec (selected_nullifiers H leaves us)) /\
      StronglySorted digest_le (sort_spec (selected_nullifiers H leaves us)) /\
      Permutation (sort_spec (selected_nullifiers H leaves us)) (selected_nullifiers H leaves us).
    Proof.
      split; [exact (priv_output_null_region H Hwf leaves us F Hus)|].
      split; [apply sort_spec_sorted|apply sort_spec_perm].
    Qed.

    Theorem output_padding :
      skipn (8 + 14 * length leaves) (priv_output H leaves us) = repeat 0 (7 * length leaves).
    Proof. exact (priv_output_padding H Hwf leaves us F Hus). Qed.

    Theorem output_dummy_slots_zero i j : (i < length leaves)%nat -> is_dummy_pb (nth i leaves []) = true ->
      no_payment_to_zero_account leaves -> (j = 2 * i \/ j = 2 * i + 1)%nat ->
      nth j (out_exit_slots (length leaves) (priv_output H leaves us)) (0, zero4) = (0, zero4).
    Proof. rewrite output_exit_slots. apply dummy_slots_zero. Qed.

    Theorem output_duplicate_slots_zero k : (k < 2 * length leaves)%nat ->
      (exists j, (j < k)%nat /\ key_at (maskedChildPairs leaves) j = key_at (maskedChildPairs leaves) k) ->
      nth k (out_exit_slots (length leaves) (priv_output H leaves us)) (0, zero4) = (0, zero4).
    Proof.
      intros L. rewrite output_exit_slots. apply groupExits_later.
      rewrite maskedChildPairs_length. exact L.
    Qed.
  End One.

  Section Two.
    Variables (leaves us leaves' us' : list (list Z)).
    Hypothesis Hleaves : Forall leaf_wf leaves.
    Hypothesis Hus : length us = length leaves.
    Hypothesis Hus' : length us' = length leaves'.
    Hypothesis Hperm : Permutation (combine leaves us) (combine leaves' us').
    Let P : Permutation leaves leaves' := perm_combine_leaves leaves us leaves' us' Hus Hus' Hperm.
    Let Hleaves' : Forall leaf_wf leaves' := Permutation_Forall P Hleaves.

    Theorem perm_output_nullifiers :
      firstn (4 * length leaves) (skipn (8 + 10 * length leaves) (priv_output H leaves us)) =
      firstn (4 * length leaves') (skipn (8 + 10 * length leaves') (priv_output H leaves' us')).
    Proof.
      rewrite (proj1 (output_nullifier_region leaves us Hleaves Hus)).
      rewrite (proj1 (output_nullifier_region leaves' us' Hleaves' Hus')).
      apply perm_nullifiers, Hperm.
    Qed.

    Theorem perm_output_exit_slots :
      Permutation
        (filter nonzero_slot (out_exit_slots (length leaves) (priv_output H leaves us)))
        (filter nonzero_slot (out_exit_slots (length leaves') (priv_output H leaves' us'))).
    Proof.
      rewrite (output_exit_slots leaves us Hleaves), (output_exit_slots leaves' us' Hleaves').
      apply perm_exit_slots, P.
    Qed.
  End Two.
End Statements.

Lemma ex_len : (1 <= length ex_leaves <= 64)%nat.
Proof. cbn [ex_leaves length]. lia. Qed.
Lemma ex_bn_determined : bn_determined ex_leaves.
Proof.
  intros q q' I I' R R' _. cbn [ex_leaves In] in I, I'.
  destruct I as [<-|[<-|[<-|[]]]]; destruct I' as [<-|[<-|[<-|[]]]]; try reflexivity; discriminate.
Qed.
Lemma ex_no_zero_payment : no_payment_to_zero_account ex_leaves.
Proof.
  intros q I R. cbn [ex_leaves In] in I.
  destruct I as [<-|[<-|[<-|[]]]]; try discriminate R; split; intros E; discriminate E.
Qed.
Lemma ex_reversed :
  Permutation (combine ex_leaves ex_us) (combine (rev ex_leaves) (rev ex_us)) /\
  firstn 8 (priv_output H0 (rev ex_leaves) (rev ex_us)) = firstn 8 (priv_output H0 ex_leaves ex_us) /\
  skipn 38 (priv_output H0 (rev ex_leaves) (rev ex_us)) = skipn 38 (priv_output H0 ex_leaves ex_us) /\
  out_exit_slots 3 (priv_output H0 (rev ex_leaves) (rev ex_us)) =
    [(40, [21; 22; 23; 24]); (40, [51; 52; 53; 54]); (0, zero4); (0, zero4); (0, zero4); (20, [31; 32; 33; 34])].
Proof.
  split; [change (combine (rev ex_leaves) (rev ex_us)) with (rev (combine ex_leaves ex_us)); apply Permutation_rev|].
  vm_compute. repeat split; reflexivity.
Qed.

(* ---------------- dummy non-interference without the same-asset premise ----------------
   Under acceptance of both batches and at least one real slot the dummies' asset ids are forced to
   the real slots' asset id; with no real slot at all the asset id shown in the header IS a dummy's. *)
Definition same_up_to_dummy (q q' : list Z) : Prop :=
  q = q' \/ (is_dummy_pb q = true /\ is_dummy_pb q' = true).

Lemma sud_real_in l l' r : Forall2 same_up_to_dummy l l' -> In r l -> is_real_pb r = true -> In r l'.
Proof.
  induction 1 as [|q q' t t' S _ IH]; intros I R; [destruct I|].
  destruct I as [->|I]; [|right; apply IH; assumption].
  destruct S as [->|[D _]]; [left; reflexivity|]. unfold is_real_pb in R. rewrite D in R. discriminate.
Qed.
Lemma sud_sdf a l l' : Forall2 same_up_to_dummy l l' ->
  Forall (fun q => lf_asset q = a) l -> Forall (fun q => lf_asset q = a) l' -> sdf l l'.
Proof.
  induction 1 as [|q q' t t' S _ IH]; intros A A'; [constructor|].
  inversion A as [|? ? Aq At]; subst. inversion A' as [|? ? Aq' At']; subst.
  constructor; [|apply IH; assumption].
  destruct S as [->|[D D']]; [left; reflexivity|right]. split; [exact D|]. split; [exact D'|congruence].
Qed.

Theorem dummy_noninterference_under_compat H l l' us : Forall2 same_up_to_dummy l l' ->
  priv_compat l = true -> priv_compat l' = true -> (exists r, In r l /\ is_real_pb r = true) ->
  priv_output H l us = priv_output H l' us.
Proof.
  intros S C C' (r & I & R). apply dummy_noninterference_output.
  apply compat_spelled_out in C. apply compat_spelled_out in C'. destruct C as [A _]. destruct C' as [A' _].
  pose proof (sud_real_in l l' r S I R) as I'.
  assert (E : lf_asset (nth 0 l []) = lf_asset (nth 0 l' [])).
  { rewrite Forall_forall in A, A'. rewrite <- (A r I), <- (A' r I'). reflexivity. }
  apply (sud_sdf (lf_asset (nth 0 l [])) l l' S A). rewrite E. exact A'.
Qed.

Definition ex_dummy_asset1 : list Z := [1; 0; 0; 0; 0; 0; 0; 0; 0; 0; 0; 0; 0; 0; 0; 0; 0; 0; 0; 0; 0].
Theorem dummy_asset_shows_refuted :
  exists H l l' us, (forall x, length (H x) = 4%nat /\ Forall canon (H x)) /\
    Forall leaf_wf l /\ Forall leaf_wf l' /\ length us = length l /\
    Forall2 same_up_to_dummy l l' /\ priv_compat l = true /\ priv_compat l' = true /\
    priv_output H l us <> priv_output H l' us.
Proof.
  exists H0, [ex_dummy], [ex_dummy_asset1], [[1; 1; 1; 1]].
  split; [exact H0_wf|]. split; [apply leaves_wfb_ok; vm_compute; reflexivity|].
  split; [apply leaves_wfb_ok; vm_compute; reflexivity|]. split; [reflexivity|].
  split; [constructor; [right; split; vm_compute; reflexivity|constructor]|].
  split; [vm_compute; reflexivity|]. split; [vm_compute; reflexivity|]. vm_compute. discriminate.
Qed.
