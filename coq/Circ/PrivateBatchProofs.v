(* Proofs about the private-batch wrapper circuit (model: PrivateBatch.v; specification: Spec/LeanPort.v).

   Main theorem: for well-formed child statements (leaf_wf: 21 canonical felts, output amounts below 2^32)
   and a hash oracle with 4 canonical output felts, the constraint system of
   build_private_batch_constraints is satisfiable iff [priv_compat leaves], and then its only reachable
   public output is [priv_output H leaves us] - for an arbitrary (adversarial) witness. *)
From Coq Require Import ZArith Lia List Bool Permutation Sorted.
From V.Base Require Import Common.
From V.Generated Require Import Constants.
From V.Circ Require Import Field Core Prims Gadgets GadgetsProofs SortNet Sorting PrivateBatch.
From V.Spec Require Import LeanPort.
Import ListNotations.
Open Scope Z_scope.
(* mathcomp.zify (loaded through Base/Flt.v) resets the hook; set it again after all imports *)
Ltac Zify.zify_post_hook ::= Z.div_mod_to_equations.

(* ================================================================ generic list / bool facts *)
Definition good4 (d : list Z) : Prop := length d = 4%nat /\ Forall canon d.

Lemma good4_zero4 : good4 zero4.
Proof. split; [reflexivity|]. repeat constructor; unfold p; lia. Qed.

Lemma Forall_firstn_ {A} (P : A -> Prop) n (l : list A) : Forall P l -> Forall P (firstn n l).
Proof. intros F. rewrite <- (firstn_skipn n l) in F. apply Forall_app in F. apply F. Qed.
Lemma Forall_skipn_ {A} (P : A -> Prop) n (l : list A) : Forall P l -> Forall P (skipn n l).
Proof. intros F. rewrite <- (firstn_skipn n l) in F. apply Forall_app in F. apply F. Qed.

Lemma canon_nth n l : Forall canon l -> canon (nth n l 0).
Proof.
  intros F. destruct (nth_in_or_default n l 0) as [I| ->]; [|apply canon_0].
  rewrite Forall_forall in F. apply F, I.
Qed.

Lemma b2z_eqb_1 b : (b2z b =? 1) = b. Proof. destruct b; reflexivity. Qed.
Lemma b2z_eqb_0 b : (b2z b =? 0) = negb b. Proof. destruct b; reflexivity. Qed.
Lemma b2z_inj_1 b : b2z b = 1 <-> b = true. Proof. destruct b; cbn [b2z]; split; intros; try reflexivity; discriminate. Qed.

Lemma list_eqb_refl a : list_eqb a a = true.
Proof. apply list_eqb_spec. reflexivity. Qed.
Lemma list_eqb_sym a b : list_eqb a b = list_eqb b a.
Proof.
  destruct (list_eqb a b) eqn:E1, (list_eqb b a) eqn:E2; try reflexivity.
  - apply list_eqb_spec in E1. subst. rewrite list_eqb_refl in E2. discriminate.
  - apply list_eqb_spec in E2. subst. rewrite list_eqb_refl in E1. discriminate.
Qed.
Lemma list_eqb_false a b : list_eqb a b = false <-> a <> b.
Proof.
  split.
  - intros E ->. rewrite list_eqb_refl in E. discriminate.
  - intros N. destruct (list_eqb a b) eqn:E; [|reflexivity]. apply list_eqb_spec in E. contradiction.
Qed.

Lemma forallb_andb {A} (f g : A -> bool) l :
  forallb (fun x => f x && g x) l = forallb f l && forallb g l.
Proof.
  induction l as [|x l IH]; cbn [forallb]; [reflexivity|]. rewrite IH.
  destruct (f x), (g x), (forallb f l), (forallb g l); reflexivity.
Qed.
Lemma forallb_ext_in {A} (f g : A -> bool) l : (forall x, In x l -> f x = g x) -> forallb f l = forallb g l.
Proof.
  induction l as [|x l IH]; intros E; cbn [forallb]; [reflexivity|].
  rewrite (E x (or_introl eq_refl)), IH; [reflexivity|]. intros y Hy. apply E. right. exact Hy.
Qed.

Lemma map2z_select_b (f : bool) x y : length x = length y -> Forall canon x -> Forall canon y ->
  map2z (g_select (b2z f)) x y = if f then x else y.
Proof. intros L Fx Fy. exact (select_halves_b f x y L Fx Fy). Qed.

Lemma map_select0 (f : bool) e : good4 e ->
  map (fun x => g_select (b2z f) 0 x) e = if f then zero4 else e.
Proof.
  intros [L F]. destruct e as [|e0 [|e1 [|e2 [|e3 [|? ?]]]]]; try discriminate L.
  inversion F as [|? ? C0 F1]; subst. inversion F1 as [|? ? C1 F2]; subst.
  inversion F2 as [|? ? C2 F3]; subst. inversion F3 as [|? ? C3 _]; subst.
  cbn [map]. rewrite !g_select_b by (try assumption; apply canon_0). destruct f; reflexivity.
Qed.

(* ================================================================ well-formed child statements *)
Lemma good4_pi4 pis off : Forall canon pis -> (Z.to_nat off + 4 <= length pis)%nat -> good4 (pi4 pis off).
Proof.
  intros F L. unfold pi4. split.
  - rewrite firstn_length, skipn_length. lia.
  - apply Forall_firstn_, Forall_skipn_, F.
Qed.

Record leaf_fields (q : list Z) : Prop := {
  lw_bh : good4 (lf_bh q);
  lw_null : good4 (lf_null q);
  lw_exit1 : good4 (lf_exit1 q);
  lw_exit2 : good4 (lf_exit2 q);
  lw_asset : canon (lf_asset q);
  lw_fee : canon (lf_fee q);
  lw_bn : canon (lf_bn q);
  lw_out1 : 0 <= lf_out1 q < two32;
  lw_out2 : 0 <= lf_out2 q < two32 }.

Lemma leaf_wf_fields q : leaf_wf q -> leaf_fields q.
Proof.
  intros (L & F & O1 & O2).
  assert (C1 : canon (lf_out1 q)) by (apply canon_nth, F).
  assert (C2 : canon (lf_out2 q)) by (apply canon_nth, F).
  constructor; try (apply good4_pi4; [exact F|rewrite L; cbn; lia]); try (apply canon_nth, F);
    unfold canon in *; lia.
Qed.

Lemma leaf_wf_fields_all leaves : Forall leaf_wf leaves -> Forall leaf_fields leaves.
Proof. apply Forall_impl. exact leaf_wf_fields. Qed.

(* ================================================================ pure specification helpers *)
Definition dflag (q : list Z) : Z := b2z (is_dummy_pb q).

Definition ref_of (o : option (list Z)) (dflt : list Z * Z * Z) : list Z * Z * Z :=
  match o with Some q => (lf_bh q, lf_bn q, lf_fee q) | None => dflt end.

Definition cons_ok (asset_ref : Z) (block_ref : list Z) (fee_ref : Z) (q : list Z) : bool :=
  (is_dummy_pb q || list_eqb (lf_bh q) block_ref) &&
  ((lf_asset q =? asset_ref) && (is_dummy_pb q || (lf_fee q =? fee_ref))).

Definition slot_ok (s : list Z * Z) : Prop := good4 (fst s) /\ 0 <= snd s < two32.

(* "appeared earlier": the circuit compares every earlier exit with the slot's exit *)
Definition seen_before (earlier : list (list Z)) (e : list Z) : bool := existsb (fun x => list_eqb x e) earlier.

Definition slot_spec (all : list (list Z * Z)) (earlier : list (list Z)) (e : list Z) : Z * list Z :=
  if seen_before earlier e then (0, zero4) else (matchSum e all, e).

Fixpoint slots_spec (all : list (list Z * Z)) (earlier : list (list Z)) (rest : list (list Z * Z))
  : list (Z * list Z) :=
  match rest with
  | [] => []
  | (e, _) :: r => slot_spec all earlier e :: slots_spec all (earlier ++ [e]) r
  end.

Fixpoint uniq_ok (leaves : list (list Z)) : bool :=
  match leaves with
  | [] => true
  | q :: r =>
      forallb (fun q' => negb ((is_real_pb q && is_real_pb q') && list_eqb (lf_null q) (lf_null q'))) r
      && uniq_ok r
  end.

(* ---------------- masked slots ---------------- *)
Lemma masked_slots_spec leaves : Forall leaf_fields leaves ->
  masked_slots leaves (map dflag leaves) = maskedChildPairs leaves.
Proof.
  induction 1 as [|q lr Wq F IH]; cbn [map masked_slots maskedChildPairs]; [reflexivity|].
  rewrite IH. unfold dflag.
  rewrite !map_select0 by apply Wq.
  pose proof (lw_out1 q Wq) as O1. pose proof (lw_out2 q Wq) as O2.
  rewrite !g_select_b by (try apply canon_0; apply canon_u32; assumption).
  destruct (is_dummy_pb q); reflexivity.
Qed.

Lemma maskedChildPairs_ok leaves : Forall leaf_fields leaves -> Forall slot_ok (maskedChildPairs leaves).
Proof.
  induction 1 as [|q lr Wq F IH]; cbn [maskedChildPairs]; [constructor|].
  pose proof (lw_out1 q Wq) as O1. pose proof (lw_out2 q Wq) as O2.
  constructor; [|constructor; [|exact IH]]; destruct (is_dummy_pb q); split; cbn [fst snd];
    try apply good4_zero4; try apply Wq; try assumption; unfold two32; lia.
Qed.

Lemma maskedChildPairs_length leaves : length (maskedChildPairs leaves) = (2 * length leaves)%nat.
Proof. induction leaves as [|q lr IH]; cbn [maskedChildPairs length]; lia. Qed.

(* ---------------- first-real reference scan ---------------- *)
Lemma scan_ref_spec leaves : Forall leaf_fields leaves ->
  forall (found : bool) bref bn fee, good4 bref -> canon bn -> canon fee ->
  scan_ref leaves (map dflag leaves) (b2z found) bref bn fee =
  if found then (bref, bn, fee) else ref_of (find is_real_pb leaves) (bref, bn, fee).
Proof.
  induction 1 as [|q lr Wq F IH]; intros found bref bn fee Gb Cbn Cfee; cbn [map scan_ref find].
  - destruct found; reflexivity.
  - change (dflag q) with (b2z (is_dummy_pb q)). cbv zeta. unfold is_real_pb at 1.
    destruct Gb as [Lb Fb]. destruct (lw_bh q Wq) as [Lq Fq].
    rewrite !g_not_b, !g_and_b, !g_or_b.
    rewrite map2z_select_b by (try assumption; congruence).
    rewrite !g_select_b by (try assumption; apply Wq).
    rewrite IH.
    + destruct found, (is_dummy_pb q); cbn [negb andb orb ref_of]; reflexivity.
    + destruct (negb (is_dummy_pb q) && negb found); split; assumption.
    + destruct (negb (is_dummy_pb q) && negb found); [apply Wq|assumption].
    + destruct (negb (is_dummy_pb q) && negb found); [apply Wq|assumption].
Qed.

Lemma scan_ref_header leaves fee bh bn : Forall leaf_fields leaves ->
  ref_header leaves = (fee, bh, bn) ->
  scan_ref leaves (map dflag leaves) 0 zero4 0 0 = (bh, bn, fee).
Proof.
  intros F E.
  pose proof (scan_ref_spec leaves F false zero4 0 0 good4_zero4 canon_0 canon_0) as S.
  cbn [b2z] in S. rewrite S. unfold ref_header in E.
  destruct (find is_real_pb leaves); cbn [ref_of]; inversion E; subst; reflexivity.
Qed.

Lemma ref_header_good leaves fee bh bn : Forall leaf_fields leaves ->
  ref_header leaves = (fee, bh, bn) -> good4 bh /\ canon fee /\ canon bn.
Proof.
  intros F E. unfold ref_header in E. destruct (find is_real_pb leaves) as [q|] eqn:Fd.
  - apply find_some in Fd. destruct Fd as [I _]. rewrite Forall_forall in F. specialize (F q I).
    inversion E; subst. split; [apply F|]. split; apply F.
  - inversion E; subst. split; [apply good4_zero4|]. split; apply canon_0.
Qed.

(* ---------------- grouping: the circuit's formulation equals Lean's groupExits ---------------- *)
Lemma matchSum_app k xs ys : matchSum k (xs ++ ys) = matchSum k xs + matchSum k ys.
Proof. induction xs as [|[k' a'] xs IH]; cbn [app matchSum]; [reflexivity|]. rewrite IH. lia. Qed.

Lemma matchSum_unseen k pre : seen_before (map fst pre) k = false -> matchSum k pre = 0.
Proof.
  unfold seen_before. induction pre as [|[k' a'] pre IH]; cbn [map fst existsb matchSum]; [reflexivity|].
  intros E. apply orb_false_iff in E. destruct E as [E1 E2]. rewrite E1, IH by exact E2. reflexivity.
Qed.

Lemma seen_before_snoc earlier e k : seen_before (earlier ++ [e]) k = seen_before earlier k || list_eqb e k.
Proof. unfold seen_before. rewrite existsb_app. cbn [existsb]. rewrite orb_false_r. reflexivity. Qed.

Lemma slots_spec_groupAux rest : forall pre seen,
  (forall k, dmem k seen = seen_before (map fst pre) k) ->
  slots_spec (pre ++ rest) (map fst pre) rest = groupAux seen rest.
Proof.
  induction rest as [|[k a] r IH]; intros pre seen S; cbn [slots_spec groupAux]; [reflexivity|].
  f_equal.
  - unfold slot_spec. rewrite S. destruct (seen_before (map fst pre) k) eqn:E; [reflexivity|].
    rewrite matchSum_app, (matchSum_unseen k pre E). cbn [matchSum]. rewrite list_eqb_refl. reflexivity.
  - specialize (IH (pre ++ [(k, a)]) (k :: seen)).
    rewrite <- app_assoc, map_app in IH. cbn [app map fst] in IH. apply IH.
    intros k'. cbn [dmem existsb]. fold (dmem k' seen). rewrite S, seen_before_snoc.
    rewrite (list_eqb_sym k' k). apply orb_comm.
Qed.

Lemma slots_spec_groupExits xs : slots_spec xs [] xs = groupExits xs.
Proof. apply (slots_spec_groupAux xs [] []). intros k. reflexivity. Qed.

Lemma matchSum_bound k xs : Forall slot_ok xs -> 0 <= matchSum k xs <= zlen xs * two32.
Proof.
  induction 1 as [|[k' a'] xs [_ B] F IH]; cbn [matchSum]; [cbn; lia|].
  rewrite zlen_cons. cbn [snd] in B. destruct (list_eqb k' k); unfold two32 in *; lia.
Qed.

Lemma slots_spec_length all rest : forall earlier, length (slots_spec all earlier rest) = length rest.
Proof. induction rest as [|[e a] r IH]; intros earlier; cbn [slots_spec length]; [reflexivity|]. rewrite IH. reflexivity. Qed.

Lemma slot_spec_shape all earlier e : good4 e -> length (flat_slot (slot_spec all earlier e)) = 5%nat.
Proof.
  intros [L _]. unfold slot_spec, flat_slot. destruct (seen_before earlier e); cbn [fst snd length]; [reflexivity|].
  rewrite L. reflexivity.
Qed.

Lemma slots_spec_flat_length all rest : forall earlier, Forall slot_ok rest ->
  length (concat (map flat_slot (slots_spec all earlier rest))) = (5 * length rest)%nat.
Proof.
  induction rest as [|[e a] r IH]; intros earlier F; cbn [slots_spec map concat length]; [reflexivity|].
  inversion F as [|? ? [G _] F']; subst. cbn [fst] in G.
  rewrite app_length, IH by exact F'. rewrite slot_spec_shape by exact G. lia.
Qed.

(* ---------------- nullifier uniqueness ---------------- *)
Lemma uniq_ok_distinct leaves : uniq_ok leaves = distinct_digests (map lf_null (filter is_real_pb leaves)).
Proof.
  induction leaves as [|q r IH]; cbn [uniq_ok filter]; [reflexivity|].
  destruct (is_real_pb q) eqn:Rq; cbn [map distinct_digests andb].
  - rewrite IH. f_equal. clear IH.
    induction r as [|q' r IH]; cbn [forallb filter map dmem existsb]; [reflexivity|].
    rewrite IH. destruct (is_real_pb q'); cbn [andb map dmem existsb].
    + fold (dmem (lf_null q) (map lf_null (filter is_real_pb r))).
      rewrite negb_orb. reflexivity.
    + reflexivity.
  - rewrite IH. replace (forallb _ r) with true; [reflexivity|].
    symmetry. apply forallb_forall. intros; reflexivity.
Qed.

Lemma cons_ok_split a b f leaves :
  forallb (cons_ok a b f) leaves =
  forallb (fun q => lf_asset q =? a) leaves &&
  forallb (fun q => is_dummy_pb q || (list_eqb (lf_bh q) b && (lf_fee q =? f))) leaves.
Proof.
  rewrite <- forallb_andb. apply forallb_ext_in. intros q _. unfold cons_ok.
  destruct (is_dummy_pb q), (list_eqb (lf_bh q) b), (lf_asset q =? a), (lf_fee q =? f); reflexivity.
Qed.

(* ================================================================ the circuit *)
Section PB.
  Variable H : list Z -> list Z.
  Hypothesis Hwf : forall l, length (H l) = 4%nat /\ Forall canon (H l).
  Notation rel := (rel H).
  Notation hon := (hon H).
  Notation det := (det H).

  (* [c] is satisfiable iff [ok]; then its only reachable output is [v]; the honest generators find it *)
  Definition gdet {A} (c : Circ A) (ok : bool) (v : A) : Prop :=
    (forall post, rel c post <-> ok = true /\ post v) /\ hon c = if ok then Some v else None.

  Lemma gdet_conv {A} (c : Circ A) ok ok' v v' : gdet c ok v -> ok = ok' -> v = v' -> gdet c ok' v'.
  Proof. intros G -> ->. exact G. Qed.
  Lemma gdet_ret {A} (a : A) : gdet (Ret a) true a.
  Proof. split; [intros post; cbn; tauto|reflexivity]. Qed.
  Lemma gdet_of_det {A} (c : Circ A) v : det c v -> gdet c true v.
  Proof. intros [R E]. split; [intros post; rewrite R; tauto|exact E]. Qed.
  Lemma gdet_bind {A B} (c : Circ A) (f : A -> Circ B) ok1 ok2 v w :
    gdet c ok1 v -> gdet (f v) ok2 w -> gdet (bind c f) (ok1 && ok2) w.
  Proof.
    intros [Rc Hc] [Rf Hf]. split.
    - intros post. rewrite rel_bind, Rc, Rf. rewrite andb_true_iff. tauto.
    - rewrite hon_bind, Hc. destruct ok1; [exact Hf|reflexivity].
  Qed.
  Lemma gdet_dbind {A B} (c : Circ A) (f : A -> Circ B) ok v w :
    det c v -> gdet (f v) ok w -> gdet (bind c f) ok w.
  Proof. intros D G. apply (gdet_bind c f true ok v w (gdet_of_det c v D) G). Qed.
  Lemma gdet_assert {A} x y (k : Circ A) ok v : gdet k ok v -> gdet (Assert x y k) ((x =? y) && ok) v.
  Proof.
    intros [R E]. split.
    - intros post. cbn [Core.rel]. rewrite R, andb_true_iff, Z.eqb_eq. tauto.
    - cbn [Core.hon]. destruct (x =? y); [exact E|reflexivity].
  Qed.
  Lemma det_hash {A} l (k : list Z -> Circ A) v : det (k (H l)) v -> det (Hash l k) v.
  Proof. intros D. exact D. Qed.
  Lemma gdet_refines {A} (c : Circ A) ok v : gdet c ok v -> refines H c.
  Proof. intros [R E] post. rewrite R, E. destruct ok; [tauto|]. split; [intros [X _]; discriminate|tauto]. Qed.

  Lemma det_bde a c : good4 a -> good4 c -> det (bytes_digest_eq a c) (b2z (list_eqb a c)).
  Proof.
    intros [La Fa] [Lc Fc]. split; [intros post; apply rel_bytes_digest_eq; assumption|].
    apply hon_bytes_digest_eq_4; assumption.
  Qed.
  Lemma det_is_equal x y : canon x -> canon y -> det (is_equal x y) (b2z (x =? y)).
  Proof. intros Hx Hy. split; [intros post; apply rel_is_equal; assumption|apply hon_is_equal]. Qed.
  Lemma gdet_range_check32 x : canon x -> gdet (range_check x 32) (x <? two32) tt.
  Proof.
    intros Hx. split.
    - intros post. rewrite rel_range_check by (try assumption; lia). rewrite pow2_32, Z.ltb_lt. tauto.
    - rewrite hon_range_check by lia. rewrite pow2_32. reflexivity.
  Qed.

  Lemma det_cmapM {A B} (f : A -> Circ B) (g : A -> B) l :
    Forall (fun x => det (f x) (g x)) l -> det (cmapM f l) (map g l).
  Proof.
    induction 1 as [|x l Dx F IH]; cbn [cmapM map]; [apply det_ret; reflexivity|].
    eapply det_bind; [exact Dx|]. eapply det_bind; [exact IH|]. apply det_ret. reflexivity.
  Qed.

  (* ---- stage 1: dummy flags ---- *)
  Lemma det_dummy_flags leaves : Forall leaf_fields leaves -> det (dummy_flags leaves) (map dflag leaves).
  Proof.
    intros F. unfold dummy_flags. apply det_cmapM. eapply Forall_impl; [|exact F].
    intros q Wq. apply det_bde; [apply Wq|apply good4_zero4].
  Qed.

  (* ---- stage 3: consistency ---- *)
  Lemma gdet_consistency leaves : Forall leaf_fields leaves -> forall a b f, good4 b -> canon f ->
    gdet (consistency leaves (map dflag leaves) a b f) (forallb (cons_ok a b f) leaves) tt.
  Proof.
    induction 1 as [|q lr Wq F IH]; intros a b f Gb Cf; cbn [map consistency forallb]; [apply gdet_ret|].
    eapply gdet_conv; [| |reflexivity].
    - eapply gdet_dbind; [apply det_bde; [apply Wq|exact Gb]|]. cbv beta.
      apply gdet_assert. apply gdet_assert.
      eapply gdet_dbind; [apply det_is_equal; [apply Wq|exact Cf]|]. cbv beta.
      apply gdet_assert. apply IH; assumption.
    - unfold dflag, cons_ok. rewrite !g_or_b, !b2z_eqb_1.
      destruct (is_dummy_pb q), (list_eqb (lf_bh q) b), (lf_asset q =? a), (lf_fee q =? f); reflexivity.
  Qed.

  (* ---- stage 5: one output slot ---- *)
  Lemma det_dup_scan earlier e : good4 e -> Forall good4 earlier -> forall acc : bool,
    det (dup_scan earlier e (b2z acc)) (b2z (acc || seen_before earlier e)).
  Proof.
    intros Ge. induction 1 as [|x r Gx F IH]; intros acc; cbn [dup_scan].
    - apply det_ret. unfold seen_before. cbn [existsb]. rewrite orb_false_r. reflexivity.
    - eapply det_bind; [apply det_bde; assumption|]. cbv beta. rewrite g_or_b.
      unfold seen_before. cbn [existsb]. rewrite orb_assoc. apply IH.
  Qed.

  Lemma det_sum_scan slots e : good4 e -> Forall slot_ok slots -> forall acc, 0 <= acc ->
    acc + zlen slots * two32 < p -> det (sum_scan slots e acc) (acc + matchSum e slots).
  Proof.
    intros Ge. induction 1 as [|[k a] r [Gk Ba] F IH]; intros acc A0 Bd; cbn [sum_scan matchSum].
    - apply det_ret. lia.
    - cbn [fst snd] in Gk, Ba. rewrite zlen_cons in Bd.
      eapply det_bind; [apply det_bde; assumption|]. cbv beta.
      rewrite g_select_b by (try apply canon_0; apply canon_u32; exact Ba).
      pose proof (zlen_nonneg r) as Zr.
      assert (E : fadd acc (if list_eqb k e then a else 0) = acc + (if list_eqb k e then a else 0)).
      { unfold fadd. apply Z.mod_small. destruct (list_eqb k e); unfold p, two32 in *; lia. }
      rewrite E. replace (acc + ((if list_eqb k e then a else 0) + matchSum e r))
        with (acc + (if list_eqb k e then a else 0) + matchSum e r) by lia.
      apply IH; destruct (list_eqb k e); unfold p, two32 in *; lia.
  Qed.

  Lemma gdet_slot_out all earlier e : good4 e -> Forall good4 earlier -> Forall slot_ok all ->
    zlen all * two32 < p ->
    gdet (slot_out all earlier e) (fst (slot_spec all earlier e) <? two32) (flat_slot (slot_spec all earlier e)).
  Proof.
    intros Ge Fe Fa Bd. unfold slot_out.
    pose proof (matchSum_bound e all Fa) as MB.
    eapply gdet_conv.
    - eapply gdet_dbind; [exact (det_dup_scan earlier e Ge Fe false)|]. cbv beta.
      eapply gdet_dbind; [apply (det_sum_scan all e Ge Fa 0); lia|]. cbv beta.
      eapply gdet_bind; [apply gdet_range_check32; apply canon_g_select|]. apply gdet_ret.
    - rewrite andb_true_r. cbn [orb]. rewrite Z.add_0_l.
      rewrite g_select_b by (try apply canon_0; unfold canon, p, two32 in *; lia).
      unfold slot_spec. destruct (seen_before earlier e); reflexivity.
    - cbn [orb]. rewrite Z.add_0_l.
      rewrite g_select_b by (try apply canon_0; unfold canon, p, two32 in *; lia).
      rewrite map_select0 by exact Ge.
      unfold slot_spec, flat_slot. destruct (seen_before earlier e); reflexivity.
  Qed.

  Lemma gdet_slots_loop all : Forall slot_ok all -> zlen all * two32 < p ->
    forall rest earlier, Forall slot_ok rest -> Forall good4 earlier ->
    gdet (slots_loop all earlier rest)
         (forallb (fun s => fst s <? two32) (slots_spec all earlier rest))
         (map flat_slot (slots_spec all earlier rest)).
  Proof.
    intros Fa Bd. induction rest as [|[e a] r IH]; intros earlier Fr Fe; cbn [slots_loop slots_spec forallb map].
    - apply gdet_ret.
    - inversion Fr as [|? ? [Ge _] Fr']; subst. cbn [fst] in Ge.
      eapply gdet_conv; [| |reflexivity].
      + eapply gdet_bind; [apply gdet_slot_out; assumption|].
        eapply gdet_bind; [apply IH; [exact Fr'|]|apply gdet_ret].
        apply Forall_app. split; [exact Fe|constructor; [exact Ge|constructor]].
      + rewrite andb_true_r. reflexivity.
  Qed.

  (* ---- stage 7: nullifier uniqueness ---- *)
  Lemma gdet_uniq_inner (ri : bool) ni : good4 ni -> forall rest, Forall leaf_fields rest ->
    gdet (uniq_inner (b2z ri) ni (combine (map dflag rest) (map lf_null rest)))
         (forallb (fun q' => negb ((ri && is_real_pb q') && list_eqb ni (lf_null q'))) rest) tt.
  Proof.
    intros Gi. induction 1 as [|q r Wq F IH]; cbn [map combine uniq_inner forallb]; [apply gdet_ret|].
    eapply gdet_conv; [| |reflexivity].
    - eapply gdet_dbind; [apply det_bde; [exact Gi|apply Wq]|]. cbv beta.
      apply gdet_assert. exact IH.
    - unfold dflag, is_real_pb. rewrite g_not_b, !g_and_b, b2z_eqb_0. reflexivity.
  Qed.

  Lemma gdet_uniq leaves : Forall leaf_fields leaves ->
    gdet (uniq (combine (map dflag leaves) (map lf_null leaves))) (uniq_ok leaves) tt.
  Proof.
    induction 1 as [|q r Wq F IH]; cbn [map combine uniq uniq_ok]; [apply gdet_ret|].
    eapply gdet_bind; [|exact IH].
    unfold dflag at 1. rewrite g_not_b. fold (is_real_pb q). apply gdet_uniq_inner; [apply Wq|exact F].
  Qed.

  (* ---- stage 8: nullifier selection ---- *)
  Lemma det_select_nullifiers leaves : Forall leaf_fields leaves -> forall us,
    det (select_nullifiers (combine3 (map dflag leaves) (map lf_null leaves) us))
        (selected_nullifiers H leaves us).
  Proof.
    unfold combine3.
    induction 1 as [|q r Wq F IH]; intros us; cbn [map combine select_nullifiers selected_nullifiers].
    - apply det_ret. reflexivity.
    - destruct us as [|u ur]; cbn [combine select_nullifiers]; [apply det_ret; reflexivity|].
      apply det_hash. apply det_hash.
      eapply det_bind; [apply IH|]. apply det_ret.
      destruct (Hwf (H u)) as [Lh Fh]. destruct (lw_null q Wq) as [Ln Fn].
      unfold dflag, dummyNull. rewrite map2z_select_b by (try assumption; congruence). reflexivity.
  Qed.

  Lemma selected_nullifiers_good leaves : Forall leaf_fields leaves -> forall us,
    Forall (fun d => length d = 4%nat /\ Forall canon d) (selected_nullifiers H leaves us).
  Proof.
    induction 1 as [|q r Wq F IH]; intros [|u ur]; cbn [selected_nullifiers]; try constructor; [|apply IH].
    destruct (is_dummy_pb q); [apply Hwf|apply Wq].
  Qed.

  Lemma selected_nullifiers_length leaves : forall us, length us = length leaves ->
    length (selected_nullifiers H leaves us) = length leaves.
  Proof.
    induction leaves as [|q r IH]; intros [|u ur] L; cbn [length selected_nullifiers] in *; try lia.
    rewrite IH by lia. reflexivity.
  Qed.

  Lemma concat_length4 (l : list (list Z)) : Forall (fun d => length d = 4%nat /\ Forall canon d) l ->
    length (concat l) = (4 * length l)%nat.
  Proof.
    induction 1 as [|d l [Ld _] F IH]; cbn [concat length]; [reflexivity|]. rewrite app_length, IH, Ld. lia.
  Qed.

  (* ================================================================ main theorem *)
  Section Main.
    Variables (leaves us : list (list Z)).
    Hypothesis Hn : (1 <= length leaves <= 64)%nat.
    Hypothesis Hleaves : Forall leaf_wf leaves.
    Hypothesis Hus : length us = length leaves.

    Theorem gdet_private_batch :
      gdet (private_batch leaves us) (priv_compat leaves) (priv_output H leaves us).
    Proof.
      pose proof (leaf_wf_fields_all leaves Hleaves) as F.
      destruct (ref_header leaves) as [[fee bh] bn] eqn:RH.
      destruct (ref_header_good leaves fee bh bn F RH) as (Gbh & Cfee & Cbn).
      pose proof (maskedChildPairs_ok leaves F) as Fm.
      pose proof (maskedChildPairs_length leaves) as Lm.
      assert (Bm : zlen (maskedChildPairs leaves) * two32 < p).
      { unfold zlen. rewrite Lm. unfold two32, p. lia. }
      pose proof (selected_nullifiers_good leaves F us) as Gs.
      pose proof (selected_nullifiers_length leaves us Hus) as Ls.
      eapply gdet_conv.
      - unfold private_batch. cbv zeta.
        eapply gdet_dbind; [apply det_dummy_flags, F|]. cbv beta.
        rewrite (scan_ref_header leaves fee bh bn F RH). cbv iota beta.
        rewrite (masked_slots_spec leaves F).
        eapply gdet_bind; [apply gdet_consistency; [exact F|exact Gbh|exact Cfee]|].
        eapply gdet_bind; [apply gdet_slots_loop; [exact Fm|exact Bm|exact Fm|constructor]|].
        eapply gdet_bind; [apply gdet_uniq, F|].
        eapply gdet_dbind; [apply det_select_nullifiers, F|].
        eapply gdet_dbind; [apply (det_sort_digests4 H 4); [match goal with |- ?G => idtac G end; rewrite Ls; unfold NET_MAX; lia|exact Gs]|].
        apply gdet_ret.
      - unfold priv_compat. rewrite RH. rewrite andb_true_r.
        rewrite cons_ok_split, slots_spec_groupExits, uniq_ok_distinct.
        destruct (forallb (fun q => lf_asset q =? lf_asset (nth 0 leaves [])) leaves),
                 (forallb (fun q => is_dummy_pb q || (list_eqb (lf_bh q) bh && (lf_fee q =? fee))) leaves),
                 (distinct_digests (map lf_null (filter is_real_pb leaves))),
                 (forallb (fun s => fst s <? two32) (groupExits (maskedChildPairs leaves))); reflexivity.
      - unfold priv_output. rewrite RH. cbv zeta.
        rewrite flat_map_concat_map.
        rewrite <- slots_spec_groupExits.
        set (E := concat (map flat_slot (slots_spec (maskedChildPairs leaves) [] (maskedChildPairs leaves)))).
        set (N := concat (sort_spec (selected_nullifiers H leaves us))).
        assert (LE : length E = (10 * length leaves)%nat).
        { unfold E. rewrite slots_spec_flat_length by exact Fm. rewrite Lm. lia. }
        assert (LN : length N = (4 * length leaves)%nat).
        { unfold N. rewrite concat_length4.
          - unfold sort_spec. rewrite isort_length, Ls. reflexivity.
          - eapply Permutation_Forall; [symmetry; apply sort_spec_perm|exact Gs]. }
        assert (LB : zlen ([zlen leaves * 2; lf_asset (nth 0 leaves []); fee] ++ bh ++ [bn] ++ E ++ N)
                     = 8 + 14 * zlen leaves).
        { destruct Gbh as [Lbh _]. unfold zlen. rewrite !app_length, LE, LN, Lbh. cbn [length]. lia. }
        rewrite LB. change PR_LEAF_PI_LEN with 21.
        replace (21 * zlen leaves + 8 - (8 + 14 * zlen leaves)) with (7 * zlen leaves) by lia.
        replace (zlen leaves * 2) with (2 * zlen leaves) by lia.
        rewrite <- !app_assoc. reflexivity.
    Qed.

    Theorem private_batch_spec post :
      rel (private_batch leaves us) post <-> (priv_compat leaves = true /\ post (priv_output H leaves us)).
    Proof. apply gdet_private_batch. Qed.

    Theorem private_batch_hon :
      hon (private_batch leaves us) = if priv_compat leaves then Some (priv_output H leaves us) else None.
    Proof. apply gdet_private_batch. Qed.

    Theorem refines_private_batch : refines H (private_batch leaves us).
    Proof. eapply gdet_refines, gdet_private_batch. Qed.
  End Main.
End PB.
