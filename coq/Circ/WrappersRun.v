(* Entry points of the wrapper-circuit models (private batch, public batch, two layers) for the
   correspondence runs (C06-C10, C12, C13, C36). The hash oracle is a parameter. No proofs. *)
From Coq Require Import ZArith List Bool.
From V.Base Require Import Common.
From V.Circ Require Import Field Core Prims Gadgets GadgetsRun PrivateBatch PublicBatch.
Import ListNotations.
Open Scope Z_scope.

Definition enc_list (r : option (list Z)) : list Z := match r with Some v => 1 :: v | None => [0] end.

(* private batch: seg0 = [n]; then n leaf PI vectors (21 felts each); then n preimages; then overrides *)
Definition pb_args (a : list (list Z)) : list (list Z) * list (list Z) * list (list Z) :=
  let n := Z.to_nat (arg a 0 0) in
  (firstn n (tl a), firstn n (skipn n (tl a)), skipn (n + n) (tl a)).

(* public batch: seg0 = [m; n_leaves]; seg1 = address; then m inner PI vectors; then overrides *)
Definition pu_args (a : list (list Z)) : Z * list Z * list (list Z) * list (list Z) :=
  let m := Z.to_nat (arg a 0 0) in
  (arg a 0 1, seg a 1, firstn m (skipn 2 a), skipn (2 + m) a).

(* two layers: seg0 = [m; n]; seg1 = address; then m*n leaf PI vectors; then m*n preimages:
   the private wrapper output of each group of n leaves is fed to the public wrapper *)
Fixpoint groups {A} (fuel : nat) (n : nat) (l : list A) : list (list A) :=
  match fuel with
  | O => []
  | S f => match l with [] => [] | _ => firstn n l :: groups f n (skipn n l) end
  end.
Fixpoint hon_all (H : list Z -> list Z) (gs : list (list (list Z) * list (list Z))) : option (list (list Z)) :=
  match gs with
  | [] => Some []
  | (lv, pre) :: r =>
      match hon H (private_batch lv pre), hon_all H r with
      | Some o, Some os => Some (o :: os)
      | _, _ => None
      end
  end.

Definition dispatch_h (H : list Z -> list Z) (fid : Z) (a : list (list Z)) : list Z :=
  if fid =? 601 then
    let '(lv, pre, _) := pb_args a in enc_list (hon H (private_batch lv pre))
  else if fid =? 602 then
    let '(lv, pre, o) := pb_args a in enc_list (ovr H (ovr_of_segs o) (private_batch lv pre) 0 0 0)
  else if fid =? 605 then
    let '(lv, pre, _) := pb_args a in trace_kinds (trace H (private_batch lv pre))
  else if fid =? 1201 then
    let '(nl, addr, inners, _) := pu_args a in enc_list (hon H (public_batch nl addr inners))
  else if fid =? 1202 then
    let '(nl, addr, inners, o) := pu_args a in enc_list (ovr H (ovr_of_segs o) (public_batch nl addr inners) 0 0 0)
  else if fid =? 1205 then
    let '(nl, addr, inners, _) := pu_args a in trace_kinds (trace H (public_batch nl addr inners))
  else if fid =? 3601 then
    let m := Z.to_nat (arg a 0 0) in
    let n := Z.to_nat (arg a 0 1) in
    let lv := firstn (m * n) (skipn 2 a) in
    let pre := firstn (m * n) (skipn (2 + m * n) a) in
    match hon_all H (combine (groups m n lv) (groups m n pre)) with
    | None => [0]
    | Some inners => enc_list (hon H (public_batch (Z.of_nat n) (seg a 1) inners))
    end
  else [-2].
