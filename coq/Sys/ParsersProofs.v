(* Proofs about the public-input parser model (C24) and the proof-count arithmetic (C29).
   The specification vocabulary ([at_], [sub], [u32_at], [digest_at], [wf_*], [layout_*], [valid_*])
   is independent of the parsers: positional predicates over the input vector. *)
From V.Base Require Import Common.
From V.Generated Require Import Constants.
From V.Sys Require Import Parsers.

Local Open Scope Z_scope.

(* ------------------------------------------------------------------------------------------------ *)
(** * Specification vocabulary *)

Definition at_ (l : list Z) (i : nat) : Z := nth i l 0.
Definition sub (l : list Z) (a n : nat) : list Z := firstn n (skipn a l).
Definition is_u32P (x : Z) : Prop := 0 <= x < two32.
Definition canonP (x : Z) : Prop := 0 <= x < p.
Definition is_u64P (x : Z) : Prop := 0 <= x < two64.
Definition u32_at (l : list Z) (i : nat) : Prop := is_u32P (at_ l i).
(* the four limbs starting at [a] are canonical field elements *)
Definition digest_at (l : list Z) (a : nat) : Prop := forall k, (k < 4)%nat -> canonP (at_ l (a + k)).
(* a digest value: exactly four limbs, each below p *)
Definition digestP (d : list Z) : Prop := length d = 4%nat /\ Forall canonP d.

(* results compared by class: Ok with the value, or "some error" *)
Definition res_class {A} (r : res A) : option A := match r with Ok a => Some a | Err _ => None end.

(* ------------------------------------------------------------------------------------------------ *)
(** * Monad inversion *)

Lemma rbind_ok_inv {A B} (m : res A) (f : A -> res B) b :
  rbind m f = Ok b -> exists a, m = Ok a /\ f a = Ok b.
Proof. destruct m as [a|c]; cbn [rbind]; intro H; [exists a; auto|discriminate]. Qed.

Lemma guard_ok_inv b c u : guard b c = Ok u -> b = true.
Proof. destruct b; cbn [guard]; intro H; [reflexivity|discriminate]. Qed.

Lemma guard_true c : guard true c = Ok tt.
Proof. reflexivity. Qed.

Lemma rbind_ok {A B} (m : res A) (f : A -> res B) a : m = Ok a -> rbind m f = f a.
Proof. intros ->. reflexivity. Qed.

Lemma res_class_of_iff {A} (r1 r2 : res A) :
  (forall s, r1 = Ok s <-> r2 = Ok s) -> res_class r1 = res_class r2.
Proof.
  intro H. destruct r1 as [a|c], r2 as [b|d]; cbn [res_class]; try reflexivity.
  - pose proof (proj1 (H a) eq_refl) as E. inversion E. reflexivity.
  - pose proof (proj1 (H a) eq_refl) as E. discriminate.
  - pose proof (proj2 (H b) eq_refl) as E. discriminate.
Qed.

(* one step of inversion of  [x <-? m ;; k = Ok s] *)
Ltac inv1 H :=
  let a := fresh "v" in let E := fresh "E" in
  apply rbind_ok_inv in H; destruct H as (a & E & H).
Ltac invg H :=
  let a := fresh "u" in let E := fresh "G" in
  apply rbind_ok_inv in H; destruct H as (a & E & H); apply guard_ok_inv in E.

(* ------------------------------------------------------------------------------------------------ *)
(** * "No panic" *)

Definition safe {A} (r : res A) : Prop := r <> Err PANIC.

Lemma safe_ok {A} (a : A) : safe (Ok a).
Proof. unfold safe; discriminate. Qed.
Lemma safe_err {A} c : c <> PANIC -> safe (@Err A c).
Proof. unfold safe; intros H E; inversion E; contradiction. Qed.
Lemma safe_bind {A B} (m : res A) (f : A -> res B) :
  safe m -> (forall a, m = Ok a -> safe (f a)) -> safe (rbind m f).
Proof.
  intros Hm Hf. destruct m as [a|c]; cbn [rbind]; [apply Hf; reflexivity|].
  intro E. apply Hm. inversion E. reflexivity.
Qed.
Lemma safe_guard_bind {B} b c (f : unit -> res B) :
  c <> PANIC -> (b = true -> safe (f tt)) -> safe (rbind (guard b c) f).
Proof.
  intros Hc Hf. destruct b; cbn [guard rbind]; [apply Hf; reflexivity|apply safe_err; exact Hc].
Qed.

(* ------------------------------------------------------------------------------------------------ *)
(** * List facts *)

Lemma length_sub l a n : (a + n <= length l)%nat -> length (sub l a n) = n.
Proof. intro H. unfold sub. rewrite firstn_length, skipn_length. lia. Qed.

Lemma nth_skipn_add (l : list Z) a k : nth k (skipn a l) 0 = nth (a + k) l 0.
Proof.
  revert l. induction a as [|a IH]; intro l; [reflexivity|].
  destruct l as [|x l]; cbn [skipn Nat.add nth]; [destruct k; reflexivity|apply IH].
Qed.
Lemma nth_firstn_lt (l : list Z) n k : (k < n)%nat -> nth k (firstn n l) 0 = nth k l 0.
Proof.
  revert l k. induction n as [|n IH]; intros l k H; [lia|].
  destruct l as [|x l]; cbn [firstn]; [reflexivity|].
  destruct k as [|k]; cbn [nth]; [reflexivity|apply IH; lia].
Qed.
Lemma nth_sub l a n k : (k < n)%nat -> nth k (sub l a n) 0 = at_ l (a + k).
Proof. intro H. unfold sub, at_. rewrite nth_firstn_lt by exact H. apply nth_skipn_add. Qed.

Lemma Forall_sub_digest l a :
  (a + 4 <= length l)%nat -> (Forall canonP (sub l a 4) <-> digest_at l a).
Proof.
  intro H. unfold digest_at. rewrite Forall_forall. split.
  - intros F k Hk. rewrite <- (nth_sub l a 4 k Hk). apply F. apply nth_In. rewrite length_sub; lia.
  - intros D x Hx. destruct (In_nth _ _ 0 Hx) as (k & Hk & <-).
    rewrite length_sub in Hk by lia. rewrite nth_sub by lia. apply D. exact Hk.
Qed.

Lemma skipn_skipn_add {A} (l : list A) a b : skipn b (skipn a l) = skipn (a + b) l.
Proof.
  revert l. induction a as [|a IH]; intro l; [reflexivity|].
  destruct l as [|x l]; cbn [skipn Nat.add]; [destruct b; reflexivity|apply IH].
Qed.
Lemma sub_sub_skip l a b n : sub (skipn a l) b n = sub l (a + b) n.
Proof. unfold sub. rewrite skipn_skipn_add. reflexivity. Qed.

Lemma skipn_app_len {A} (pre l : list A) k : skipn (length pre + k) (pre ++ l) = skipn k l.
Proof.
  induction pre as [|x pre IH]; cbn [length app]; [reflexivity|].
  cbn [Nat.add skipn]. exact IH.
Qed.

Lemma nth_error_app_len {A} (pre l : list A) k : nth_error (pre ++ l) (length pre + k) = nth_error l k.
Proof.
  induction pre as [|x pre IH]; cbn [length app]; [reflexivity|]. cbn [Nat.add nth_error]. exact IH.
Qed.

(* ------------------------------------------------------------------------------------------------ *)
(** * Readers *)

Lemma is_u32_iff x : is_u32 x = true <-> is_u32P x.
Proof. unfold is_u32, is_u32P. rewrite andb_true_iff, Z.leb_le, Z.ltb_lt. tauto. Qed.

Lemma is_canon_in_iff x : is_canon_in x = true <-> canonP x.
Proof.
  unfold is_canon_in, canonP. rewrite andb_true_iff, Z.leb_le, Z.ltb_lt.
  change INPUTS_GOLDILOCKS_ORDER with p. tauto.
Qed.

Lemma forallb_canon_iff l : forallb is_canon_in l = true <-> Forall canonP l.
Proof.
  rewrite forallb_forall, Forall_forall. split; intros H x Hx; apply is_canon_in_iff; auto.
Qed.

Lemma get_ok_iff l i v : get l i = Ok v <-> (i < length l)%nat /\ v = at_ l i.
Proof.
  unfold get, at_. destruct (nth_error l i) as [w|] eqn:E.
  - pose proof (nth_error_nth _ _ 0 E) as N.
    assert (i < length l)%nat by (apply nth_error_Some; congruence).
    split; [intro HH; inversion HH; subst; auto | intros [_ ->]; congruence].
  - apply nth_error_None in E. split; [discriminate|intros [? _]; lia].
Qed.

Lemma get_u32_ok_iff l i v :
  get_u32 l i = Ok v <-> (i < length l)%nat /\ v = at_ l i /\ u32_at l i.
Proof.
  unfold get_u32, u32, u32_at. split.
  - intro H. inv1 H. apply get_ok_iff in E as [L ->]. invg H. inversion H; subst.
    apply is_u32_iff in G. auto.
  - intros (L & -> & U). rewrite (proj2 (get_ok_iff l i _) (conj L eq_refl)). cbn [rbind].
    apply is_u32_iff in U. rewrite U. reflexivity.
Qed.

Lemma slice_ok_iff l a n s : slice l a n = Ok s <-> (a + n <= length l)%nat /\ s = sub l a n.
Proof.
  unfold slice, sub. destruct (Nat.leb_spec (a + n) (length l)).
  - split; [intro E; inversion E; auto | intros [_ ->]; reflexivity].
  - split; [discriminate | intros [? _]; lia].
Qed.

Lemma digest4_ok_iff s d : digest4 s = Ok d <-> d = s /\ digestP s.
Proof.
  unfold digest4, digestP. split.
  - intro H. invg H. invg H. inversion H; subst. apply Nat.eqb_eq in G. apply forallb_canon_iff in G0. auto.
  - intros (-> & L & F). apply Nat.eqb_eq in L. apply forallb_canon_iff in F. rewrite L, F. reflexivity.
Qed.

Lemma get_digest_ok_iff l a d :
  get_digest l a = Ok d <-> (a + 4 <= length l)%nat /\ d = sub l a 4 /\ digest_at l a.
Proof.
  unfold get_digest. split.
  - intro H. inv1 H. apply slice_ok_iff in E as [L ->]. apply digest4_ok_iff in H as (-> & _ & F).
    apply Forall_sub_digest in F; auto.
  - intros (L & -> & D). rewrite (proj2 (slice_ok_iff l a 4 _) (conj L eq_refl)). cbn [rbind].
    apply digest4_ok_iff. split; [reflexivity|]. split; [apply length_sub; exact L|].
    apply Forall_sub_digest; assumption.
Qed.

Lemma felts4_ok_iff s d : felts4 s = Ok d <-> d = s /\ length s = 4%nat.
Proof.
  unfold felts4. split.
  - intro H. invg H. inversion H; subst. apply Nat.eqb_eq in G. auto.
  - intros (-> & L). apply Nat.eqb_eq in L. rewrite L. reflexivity.
Qed.

Lemma get_felts4_ok_iff l a d :
  get_felts4 l a = Ok d <-> (a + 4 <= length l)%nat /\ d = sub l a 4.
Proof.
  unfold get_felts4. split.
  - intro H. inv1 H. apply slice_ok_iff in E as [L ->]. apply felts4_ok_iff in H as (-> & _). auto.
  - intros (L & ->). rewrite (proj2 (slice_ok_iff l a 4 _) (conj L eq_refl)). cbn [rbind].
    apply felts4_ok_iff. split; [reflexivity|apply length_sub; exact L].
Qed.

(* safety of the readers *)
Lemma safe_get_u32 l i : (i < length l)%nat -> safe (get_u32 l i).
Proof.
  intro H. unfold get_u32, get. destruct (nth_error l i) eqn:E.
  - cbn [rbind]. unfold u32. apply safe_guard_bind; [discriminate|intros; apply safe_ok].
  - apply nth_error_None in E. lia.
Qed.
Lemma safe_slice l a n : (a + n <= length l)%nat -> safe (slice l a n).
Proof. intro H. unfold slice. destruct (Nat.leb_spec (a + n) (length l)); [apply safe_ok|lia]. Qed.
Lemma safe_digest4 s : safe (digest4 s).
Proof.
  unfold digest4. apply safe_guard_bind; [discriminate|intros _].
  apply safe_guard_bind; [discriminate|intros _]. apply safe_ok.
Qed.
Lemma safe_felts4 s : safe (felts4 s).
Proof. unfold felts4. apply safe_guard_bind; [discriminate|intros _]. apply safe_ok. Qed.
Lemma safe_get_digest l a : (a + 4 <= length l)%nat -> safe (get_digest l a).
Proof. intro H. unfold get_digest. apply safe_bind; [apply safe_slice; exact H|intros; apply safe_digest4]. Qed.
Lemma safe_get_felts4 l a : (a + 4 <= length l)%nat -> safe (get_felts4 l a).
Proof. intro H. unfold get_felts4. apply safe_bind; [apply safe_slice; exact H|intros; apply safe_felts4]. Qed.

Lemma get_u32_at l i : (i < length l)%nat -> u32_at l i -> get_u32 l i = Ok (at_ l i).
Proof. intros. apply get_u32_ok_iff. auto. Qed.
Lemma get_digest_at l a : (a + 4 <= length l)%nat -> digest_at l a -> get_digest l a = Ok (sub l a 4).
Proof. intros. apply get_digest_ok_iff. auto. Qed.
Lemma get_felts4_at l a : (a + 4 <= length l)%nat -> get_felts4 l a = Ok (sub l a 4).
Proof. intros. apply get_felts4_ok_iff. auto. Qed.

Ltac norm_reads := repeat match goal with
  | H : get_u32 _ _ = Ok _ |- _ => apply get_u32_ok_iff in H; destruct H as (? & ? & ?)
  | H : get_digest _ _ = Ok _ |- _ => apply get_digest_ok_iff in H; destruct H as (? & ? & ?)
  | H : get_felts4 _ _ = Ok _ |- _ => apply get_felts4_ok_iff in H; destruct H as (? & ?)
  end.

(* a vector of canonical values has canonical limbs everywhere *)
Lemma Forall_canon_at l i : Forall canonP l -> canonP (at_ l i).
Proof.
  intro F. unfold at_. destruct (Nat.lt_ge_cases i (length l)) as [H|H].
  - rewrite Forall_forall in F. apply F. apply nth_In. exact H.
  - rewrite nth_overflow by exact H. unfold canonP, p. lia.
Qed.
Lemma Forall_canon_digest_at l a : Forall canonP l -> digest_at l a.
Proof. intros F k _. apply Forall_canon_at. exact F. Qed.

Lemma to_canonical_canon x : is_u64P x -> canonP (to_canonical x).
Proof.
  unfold is_u64P, canonP, to_canonical. change FIELD_ORDER with p.
  destruct (Z.leb_spec p x); unfold p, two64 in *; lia.
Qed.
Lemma to_canonical_id x : canonP x -> to_canonical x = x.
Proof.
  unfold canonP, to_canonical. change FIELD_ORDER with p.
  destruct (Z.leb_spec p x); unfold p in *; lia.
Qed.
Lemma map_to_canonical_canon raw : Forall is_u64P raw -> Forall canonP (map to_canonical raw).
Proof.
  intro F. induction F as [|x l Hx _ IH]; cbn [map]; constructor; [apply to_canonical_canon; exact Hx|exact IH].
Qed.
Lemma map_to_canonical_id l : Forall canonP l -> map to_canonical l = l.
Proof.
  intro F. induction F as [|x l Hx _ IH]; cbn [map]; [reflexivity|]. rewrite to_canonical_id by exact Hx. congruence.
Qed.

(* ------------------------------------------------------------------------------------------------ *)
(** * Leaf parser (21 felts) *)

Definition wf_leaf (pis : list Z) : Prop :=
  length pis = 21%nat /\
  u32_at pis 0 /\ u32_at pis 1 /\ u32_at pis 2 /\ u32_at pis 3 /\
  digest_at pis 4 /\ digest_at pis 8 /\ digest_at pis 12 /\ digest_at pis 16 /\
  u32_at pis 20.

Definition layout_leaf (pis : list Z) : LeafPI :=
  mkLeafPI (at_ pis 0) (at_ pis 1) (at_ pis 2) (at_ pis 3)
           (sub pis 4 4) (sub pis 8 4) (sub pis 12 4) (sub pis 16 4) (at_ pis 20).

(* the parsers with the generated constants unfolded *)
Definition parse_leaf_u64_lit (pis : list Z) : res LeafPI :=
  _ <-? guard (zlen pis =? 21) 10 ;;
  a <-? get_u32 pis 0 ;; o1 <-? get_u32 pis 1 ;; o2 <-? get_u32 pis 2 ;; fee <-? get_u32 pis 3 ;;
  nl <-? get_digest pis 4 ;; e1 <-? get_digest pis 8 ;; e2 <-? get_digest pis 12 ;; bh <-? get_digest pis 16 ;;
  bn <-? get_u32 pis 20 ;;
  Ok (mkLeafPI a o1 o2 fee nl e1 e2 bh bn).
Lemma parse_leaf_u64_unfold pis : parse_leaf_u64 pis = parse_leaf_u64_lit pis.
Proof. reflexivity. Qed.

Definition parse_leaf_canon_lit (pis : list Z) : res LeafPI :=
  _ <-? guard (zlen pis =? 21) 10 ;;
  a <-? get_u32 pis 0 ;; o1 <-? get_u32 pis 1 ;; o2 <-? get_u32 pis 2 ;; fee <-? get_u32 pis 3 ;;
  nl <-? get_felts4 pis 4 ;; bh <-? get_felts4 pis 16 ;; e1 <-? get_felts4 pis 8 ;; e2 <-? get_felts4 pis 12 ;;
  bn <-? get_u32 pis 20 ;;
  Ok (mkLeafPI a o1 o2 fee nl e1 e2 bh bn).
Lemma parse_leaf_canon_unfold pis : parse_leaf_canon pis = parse_leaf_canon_lit pis.
Proof. reflexivity. Qed.

Lemma zlen_eqb_true {A} (l : list A) (k : Z) n : k = Z.of_nat n -> ((zlen l =? k) = true <-> length l = n).
Proof. intros ->. unfold zlen. rewrite Z.eqb_eq. lia. Qed.

Lemma leaf_accept_iff pis s : parse_leaf_u64 pis = Ok s <-> wf_leaf pis /\ s = layout_leaf pis.
Proof.
  rewrite parse_leaf_u64_unfold. unfold parse_leaf_u64_lit, wf_leaf, layout_leaf. split.
  - intro H. invg H. apply (zlen_eqb_true pis 21 21 eq_refl) in G.
    do 9 inv1 H. norm_reads. inversion H; subst. tauto.
  - intros ((L & U0 & U1 & U2 & U3 & D4 & D8 & D12 & D16 & U20) & ->).
    rewrite (proj2 (zlen_eqb_true pis 21 21 eq_refl) L). cbn [guard rbind].
    rewrite !get_u32_at by (assumption || lia).
    rewrite !get_digest_at by (assumption || lia). reflexivity.
Qed.

Lemma leaf_canon_accept_iff pis s :
  Forall canonP pis -> (parse_leaf_canon pis = Ok s <-> wf_leaf pis /\ s = layout_leaf pis).
Proof.
  intro F. rewrite parse_leaf_canon_unfold. unfold parse_leaf_canon_lit, wf_leaf, layout_leaf. split.
  - intro H. invg H. apply (zlen_eqb_true pis 21 21 eq_refl) in G.
    do 9 inv1 H. norm_reads. inversion H; subst.
    assert (forall a, digest_at pis a) as D by (intro; apply Forall_canon_digest_at; exact F).
    pose proof (D 4%nat); pose proof (D 8%nat); pose proof (D 12%nat); pose proof (D 16%nat). tauto.
  - intros ((L & U0 & U1 & U2 & U3 & D4 & D8 & D12 & D16 & U20) & ->).
    rewrite (proj2 (zlen_eqb_true pis 21 21 eq_refl) L). cbn [guard rbind].
    rewrite !get_u32_at by (assumption || lia).
    rewrite !get_felts4_at by lia. reflexivity.
Qed.

Lemma leaf_parsers_agree raw :
  Forall is_u64P raw -> res_class (parse_leaf_felts raw) = res_class (parse_leaf_u64 (map to_canonical raw)).
Proof.
  intro F. apply res_class_of_iff. intro s. unfold parse_leaf_felts.
  rewrite leaf_canon_accept_iff by (apply map_to_canonical_canon; exact F).
  rewrite leaf_accept_iff. tauto.
Qed.

(* ------------------------------------------------------------------------------------------------ *)
(** * Record regions: [count] slots of 5 felts / digests of 4 felts starting at [cur] *)

Fixpoint slots_at (l : list Z) (cur count : nat) : list Slot :=
  match count with
  | O => []
  | S c => mkSlot (at_ l cur) (sub l (cur + 1) 4) :: slots_at l (cur + 5) c
  end.
Fixpoint digests_at (l : list Z) (cur count : nat) : list (list Z) :=
  match count with
  | O => []
  | S c => sub l cur 4 :: digests_at l (cur + 4) c
  end.
Definition slots_wf (l : list Z) (cur count : nat) : Prop :=
  forall j, (j < count)%nat -> u32_at l (cur + 5 * j) /\ digest_at l (cur + 5 * j + 1).
Definition digests_wf (l : list Z) (cur count : nat) : Prop :=
  forall j, (j < count)%nat -> digest_at l (cur + 4 * j).

(* the recursive layouts, read positionally *)
Lemma slots_at_length l cur count : length (slots_at l cur count) = count.
Proof. revert cur; induction count as [|c IH]; intro cur; cbn [slots_at length]; [reflexivity|rewrite IH; reflexivity]. Qed.
Lemma digests_at_length l cur count : length (digests_at l cur count) = count.
Proof. revert cur; induction count as [|c IH]; intro cur; cbn [digests_at length]; [reflexivity|rewrite IH; reflexivity]. Qed.
Lemma slots_at_nth l cur count j d :
  (j < count)%nat -> nth j (slots_at l cur count) d = mkSlot (at_ l (cur + 5 * j)) (sub l (cur + 5 * j + 1) 4).
Proof.
  revert cur j; induction count as [|c IH]; intros cur j H; [lia|].
  cbn [slots_at]. destruct j as [|j]; cbn [nth].
  - replace (cur + 5 * 0)%nat with cur by lia. reflexivity.
  - rewrite IH by lia. replace (cur + 5 + 5 * j)%nat with (cur + 5 * S j)%nat by lia. reflexivity.
Qed.
Lemma digests_at_nth l cur count j d :
  (j < count)%nat -> nth j (digests_at l cur count) d = sub l (cur + 4 * j) 4.
Proof.
  revert cur j; induction count as [|c IH]; intros cur j H; [lia|].
  cbn [digests_at]. destruct j as [|j]; cbn [nth].
  - replace (cur + 4 * 0)%nat with cur by lia. reflexivity.
  - rewrite IH by lia. replace (cur + 4 + 4 * j)%nat with (cur + 4 * S j)%nat by lia. reflexivity.
Qed.

Lemma slots_wf_S l cur c :
  slots_wf l cur (S c) <-> u32_at l cur /\ digest_at l (cur + 1) /\ slots_wf l (cur + 5) c.
Proof.
  unfold slots_wf. split.
  - intro H. split; [|split].
    + destruct (H 0%nat ltac:(lia)) as [U _]. replace (cur + 5 * 0)%nat with cur in U by lia. exact U.
    + destruct (H 0%nat ltac:(lia)) as [_ D]. replace (cur + 5 * 0 + 1)%nat with (cur + 1)%nat in D by lia. exact D.
    + intros j Hj. destruct (H (S j) ltac:(lia)) as [U D].
      replace (cur + 5 * S j)%nat with (cur + 5 + 5 * j)%nat in U, D by lia. auto.
  - intros (U & D & R) j Hj. destruct j as [|j].
    + replace (cur + 5 * 0)%nat with cur by lia. auto.
    + replace (cur + 5 * S j)%nat with (cur + 5 + 5 * j)%nat by lia. apply R. lia.
Qed.
Lemma digests_wf_S l cur c :
  digests_wf l cur (S c) <-> digest_at l cur /\ digests_wf l (cur + 4) c.
Proof.
  unfold digests_wf. split.
  - intro H. split.
    + pose proof (H 0%nat ltac:(lia)) as D. replace (cur + 4 * 0)%nat with cur in D by lia. exact D.
    + intros j Hj. pose proof (H (S j) ltac:(lia)) as D.
      replace (cur + 4 * S j)%nat with (cur + 4 + 4 * j)%nat in D by lia. exact D.
  - intros (D & R) j Hj. destruct j as [|j].
    + replace (cur + 4 * 0)%nat with cur by lia. exact D.
    + replace (cur + 4 * S j)%nat with (cur + 4 + 4 * j)%nat by lia. apply R. lia.
Qed.
Lemma slots_wf_O l cur : slots_wf l cur 0.
Proof. intros j H. lia. Qed.
Lemma digests_wf_O l cur : digests_wf l cur 0.
Proof. intros j H. lia. Qed.

(* ---- the checked cursor loops of the private-batch u64 parser *)
Lemma read_slots_ok_iff l cur count r :
  (cur + 5 * count <= length l)%nat ->
  (read_slots l cur count = Ok r <-> slots_wf l cur count /\ r = slots_at l cur count).
Proof.
  revert cur r. induction count as [|c IH]; intros cur r B.
  - cbn [read_slots slots_at]. split; [intro H; inversion H; split; [apply slots_wf_O|reflexivity]|intros [_ ->]; reflexivity].
  - cbn [read_slots slots_at]. rewrite slots_wf_S. split.
    + intro H. invg H. inv1 H. invg H. do 2 inv1 H. norm_reads. apply IH in E1; [|lia].
      destruct E1 as [W ->]. inversion H; subst. tauto.
    + intros ((U & D & W) & ->).
      replace (cur <? length l)%nat with true by (symmetry; apply Nat.ltb_lt; lia).
      replace (cur + 1 + 4 <=? length l)%nat with true by (symmetry; apply Nat.leb_le; lia).
      cbn [guard rbind]. rewrite get_u32_at by (assumption || lia).
      rewrite get_digest_at by (assumption || lia). cbn [rbind].
      rewrite (proj2 (IH (cur + 5)%nat _ ltac:(lia)) (conj W eq_refl)). reflexivity.
Qed.
Lemma read_digests_ok_iff l cur count r :
  (cur + 4 * count <= length l)%nat ->
  (read_digests l cur count = Ok r <-> digests_wf l cur count /\ r = digests_at l cur count).
Proof.
  revert cur r. induction count as [|c IH]; intros cur r B.
  - cbn [read_digests digests_at]. split; [intro H; inversion H; split; [apply digests_wf_O|reflexivity]|intros [_ ->]; reflexivity].
  - cbn [read_digests digests_at]. rewrite digests_wf_S. split.
    + intro H. invg H. do 2 inv1 H. norm_reads. apply IH in E0; [|lia].
      destruct E0 as [W ->]. inversion H; subst. tauto.
    + intros ((D & W) & ->).
      replace (cur + 4 <=? length l)%nat with true by (symmetry; apply Nat.leb_le; lia).
      cbn [guard rbind]. rewrite get_digest_at by (assumption || lia). cbn [rbind].
      rewrite (proj2 (IH (cur + 4)%nat _ ltac:(lia)) (conj W eq_refl)). reflexivity.
Qed.

(* ---- the unchecked loops of the public-batch parser: in range they coincide with the checked ones *)
Lemma read_slots_unchecked_eq l cur count :
  (cur + 5 * count <= length l)%nat -> read_slots_unchecked l cur count = read_slots l cur count.
Proof.
  revert cur. induction count as [|c IH]; intros cur B; cbn [read_slots read_slots_unchecked]; [reflexivity|].
  replace (cur <? length l)%nat with true by (symmetry; apply Nat.ltb_lt; lia).
  replace (cur + 1 + 4 <=? length l)%nat with true by (symmetry; apply Nat.leb_le; lia).
  cbn [guard rbind]. destruct (get_u32 l cur); cbn [rbind]; [|reflexivity].
  destruct (get_digest l (cur + 1)); cbn [rbind]; [|reflexivity].
  rewrite IH by lia. reflexivity.
Qed.
Lemma read_digests_unchecked_eq l cur count :
  (cur + 4 * count <= length l)%nat -> read_digests_unchecked l cur count = read_digests l cur count.
Proof.
  revert cur. induction count as [|c IH]; intros cur B; cbn [read_digests read_digests_unchecked]; [reflexivity|].
  replace (cur + 4 <=? length l)%nat with true by (symmetry; apply Nat.leb_le; lia).
  cbn [guard rbind]. destruct (get_digest l cur); cbn [rbind]; [|reflexivity].
  rewrite IH by lia. reflexivity.
Qed.

(* ---- safety *)
Lemma safe_read_slots l cur count : safe (read_slots l cur count).
Proof.
  revert cur. induction count as [|c IH]; intro cur; cbn [read_slots]; [apply safe_ok|].
  apply safe_guard_bind; [discriminate|intro G]. apply Nat.ltb_lt in G.
  apply safe_bind; [apply safe_get_u32; exact G|intros s _].
  apply safe_guard_bind; [discriminate|intro G2]. apply Nat.leb_le in G2.
  apply safe_bind; [apply safe_get_digest; lia|intros a _].
  apply safe_bind; [apply IH|intros; apply safe_ok].
Qed.
Lemma safe_read_digests l cur count : safe (read_digests l cur count).
Proof.
  revert cur. induction count as [|c IH]; intro cur; cbn [read_digests]; [apply safe_ok|].
  apply safe_guard_bind; [discriminate|intro G]. apply Nat.leb_le in G.
  apply safe_bind; [apply safe_get_digest; lia|intros a _].
  apply safe_bind; [apply IH|intros; apply safe_ok].
Qed.

(* ---- chunks *)
Lemma chunks_fuel_irrel {A} (k : nat) (f1 f2 : nat) (l : list A) :
  (0 < k)%nat -> (length l <= f1)%nat -> (length l <= f2)%nat -> chunks_fuel f1 k l = chunks_fuel f2 k l.
Proof.
  intro K. revert f2 l. induction f1 as [|f1 IH]; intros f2 l H1 H2.
  - destruct l; [|cbn [length] in H1; lia]. destruct f2; reflexivity.
  - destruct l as [|x l]; [destruct f2; reflexivity|].
    destruct f2 as [|f2]; [cbn [length] in H2; lia|].
    cbn [chunks_fuel]. f_equal. apply IH; rewrite skipn_length; cbn [length] in *; lia.
Qed.
Lemma chunks_step (k : nat) (l : list Z) cur :
  (0 < k)%nat -> (cur + k <= length l)%nat ->
  chunks k (skipn cur l) = sub l cur k :: chunks k (skipn (cur + k) l).
Proof.
  intros K B. unfold chunks at 1.
  assert (length (skipn cur l) = length l - cur)%nat as L by apply skipn_length.
  destruct (skipn cur l) as [|x r] eqn:E; [cbn [length] in L; lia|].
  rewrite L. destruct (length l - cur)%nat as [|f] eqn:Ef; [lia|].
  cbn [chunks_fuel]. unfold sub. rewrite E. f_equal.
  rewrite <- skipn_skipn_add. rewrite E. unfold chunks.
  apply chunks_fuel_irrel; [exact K| |lia].
  rewrite skipn_length. cbn [length] in *. lia.
Qed.

Lemma sub_sub l a n b m : (b + m <= n)%nat -> (a + n <= length l)%nat -> sub (sub l a n) b m = sub l (a + b) m.
Proof.
  intros H1 H2. apply (nth_ext _ _ 0 0).
  - rewrite !length_sub; try lia. rewrite length_sub; lia.
  - intros k Hk. rewrite length_sub in Hk by (rewrite length_sub; lia).
    rewrite !nth_sub by lia. unfold at_ at 1. rewrite nth_sub by lia. f_equal. lia.
Qed.

Lemma felt_slot_ok_iff l cur s :
  (cur + 5 <= length l)%nat ->
  (felt_slot (sub l cur 5) = Ok s <-> u32_at l cur /\ s = mkSlot (at_ l cur) (sub l (cur + 1) 4)).
Proof.
  intro B. unfold felt_slot.
  assert (length (sub l cur 5) = 5%nat) as L5 by (apply length_sub; lia).
  assert (at_ (sub l cur 5) 0 = at_ l cur) as A0.
  { unfold at_ at 1. rewrite nth_sub by lia. f_equal. lia. }
  assert (sub (sub l cur 5) 1 4 = sub l (cur + 1) 4) as S1 by (apply sub_sub; lia).
  split.
  - intro H. do 2 inv1 H. norm_reads. inversion H; subst. unfold u32_at in *. rewrite A0 in *. rewrite S1. auto.
  - intros (U & ->). rewrite get_u32_at; [|lia|unfold u32_at; rewrite A0; exact U]. cbn [rbind].
    rewrite get_felts4_at by lia. cbn [rbind]. rewrite A0, S1. reflexivity.
Qed.

Lemma mapM_slots_ok_iff l cur count r :
  (cur + 5 * count <= length l)%nat ->
  (mapM felt_slot (firstn count (chunks 5 (skipn cur l))) = Ok r <->
   (forall j, (j < count)%nat -> u32_at l (cur + 5 * j)) /\ r = slots_at l cur count).
Proof.
  revert cur r. induction count as [|c IH]; intros cur r B.
  - cbn [firstn mapM slots_at]. split; [intro H; inversion H; split; [intros; lia|reflexivity]|intros [_ ->]; reflexivity].
  - rewrite chunks_step by lia. cbn [firstn mapM slots_at]. split.
    + intro H. do 2 inv1 H. apply felt_slot_ok_iff in E; [|lia]. destruct E as [U ->].
      apply IH in E0; [|lia]. destruct E0 as [W ->]. inversion H; subst. split; [|reflexivity].
      intros j Hj. destruct j as [|j].
      * replace (cur + 5 * 0)%nat with cur by lia. exact U.
      * replace (cur + 5 * S j)%nat with (cur + 5 + 5 * j)%nat by lia. apply W. lia.
    + intros (U & ->).
      assert (u32_at l cur) as U0.
      { pose proof (U 0%nat ltac:(lia)) as U0. replace (cur + 5 * 0)%nat with cur in U0 by lia. exact U0. }
      rewrite (proj2 (felt_slot_ok_iff l cur (mkSlot (at_ l cur) (sub l (cur + 1) 4)) ltac:(lia)) (conj U0 eq_refl)).
      cbn [rbind]. rewrite (proj2 (IH (cur + 5)%nat (slots_at l (cur + 5) c) ltac:(lia))); [reflexivity|split; [|reflexivity]].
      intros j Hj. pose proof (U (S j) ltac:(lia)) as Uj.
      replace (cur + 5 * S j)%nat with (cur + 5 + 5 * j)%nat in Uj by lia. exact Uj.
Qed.

Lemma mapM_digests_ok l cur count :
  (cur + 4 * count <= length l)%nat ->
  mapM felts4 (firstn count (chunks 4 (skipn cur l))) = Ok (digests_at l cur count).
Proof.
  revert cur. induction count as [|c IH]; intros cur B; [reflexivity|].
  rewrite chunks_step by lia. cbn [firstn mapM digests_at].
  rewrite (proj2 (felts4_ok_iff (sub l cur 4) _) (conj eq_refl (length_sub l cur 4 ltac:(lia)))). cbn [rbind].
  rewrite IH by lia. reflexivity.
Qed.

Lemma safe_mapM_slots l cur count :
  (cur + 5 * count <= length l)%nat -> safe (mapM felt_slot (firstn count (chunks 5 (skipn cur l)))).
Proof.
  revert cur. induction count as [|c IH]; intros cur B; [apply safe_ok|].
  rewrite chunks_step by lia. cbn [firstn mapM].
  assert (length (sub l cur 5) = 5%nat) as L5 by (apply length_sub; lia).
  apply safe_bind.
  - unfold felt_slot. apply safe_bind; [apply safe_get_u32; lia|intros ? _].
    apply safe_bind; [apply safe_get_felts4; lia|intros; apply safe_ok].
  - intros ? _. apply safe_bind; [apply IH; lia|intros; apply safe_ok].
Qed.

(* ------------------------------------------------------------------------------------------------ *)
(** * Proof counts *)

Lemma validate_ok_iff c u : validate_proof_count c = Ok u <-> c <> 0 /\ c <= 64.
Proof.
  unfold validate_proof_count. change MAX_PROOF_COUNT with 64. destruct u. split.
  - intro H. invg H. invg H. apply negb_true_iff in G. apply Z.eqb_neq in G. apply Z.leb_le in G0. auto.
  - intros [N L]. apply Z.eqb_neq in N. apply Z.leb_le in L. rewrite N, L. reflexivity.
Qed.
Lemma validate_ok c : c <> 0 -> c <= 64 -> validate_proof_count c = Ok tt.
Proof. intros. apply validate_ok_iff. auto. Qed.
Lemma safe_validate c : safe (validate_proof_count c).
Proof.
  unfold validate_proof_count. apply safe_guard_bind; [discriminate|intros _].
  apply safe_guard_bind; [discriminate|intros _]. apply safe_ok.
Qed.

(* ------------------------------------------------------------------------------------------------ *)
(** * Private-batch parsers (8 + 21 n felts) *)

Definition wf_priv (n : nat) (pis : list Z) : Prop :=
  (1 <= n <= 64)%nat /\ length pis = (8 + 21 * n)%nat /\
  at_ pis 0 = Z.of_nat (2 * n) /\ u32_at pis 1 /\ u32_at pis 2 /\ digest_at pis 3 /\ u32_at pis 7 /\
  slots_wf pis 8 (2 * n) /\ digests_wf pis (8 + 10 * n) n.
  (* indices 8 + 14 n .. 8 + 21 n are padding: unconstrained *)

Definition layout_priv (n : nat) (pis : list Z) : PrivPI :=
  mkPrivPI (at_ pis 0) (at_ pis 1) (at_ pis 2) (sub pis 3 4) (at_ pis 7)
           (slots_at pis 8 (2 * n)) (digests_at pis (8 + 10 * n) n).

Lemma priv_len_facts (pis : list Z) (n : nat) :
  length pis = (8 + 21 * n)%nat ->
  (8 <=? length pis)%nat = true /\
  Z.of_nat (length pis - 8) mod LEAF_PI_LEN = 0 /\
  Z.of_nat (length pis - 8) / LEAF_PI_LEN = Z.of_nat n.
Proof.
  intro L. change LEAF_PI_LEN with 21. split; [apply Nat.leb_le; lia|].
  replace (Z.of_nat (length pis - 8)) with (Z.of_nat n * 21) by lia.
  rewrite Z_mod_mult, Z_div_mult by lia. auto.
Qed.

Lemma priv_len_inv (pis : list Z) :
  (8 <=? length pis)%nat = true ->
  (Z.of_nat (length pis - 8) mod LEAF_PI_LEN =? 0) = true ->
  length pis = (8 + 21 * Z.to_nat (Z.of_nat (length pis - 8) / LEAF_PI_LEN))%nat.
Proof.
  change LEAF_PI_LEN with 21. intros H1 H2. apply Nat.leb_le in H1. apply Z.eqb_eq in H2. lia.
Qed.

Lemma priv_accept_iff pis s :
  parse_priv_u64 pis = Ok s <-> exists n, wf_priv n pis /\ s = layout_priv n pis.
Proof.
  unfold parse_priv_u64, wf_priv, layout_priv. cbv zeta. split.
  - intro H. invg H. invg H. pose proof (priv_len_inv pis G G0) as L.
    set (nz := Z.of_nat (length pis - 8) / LEAF_PI_LEN) in *.
    do 3 inv1 H. inv1 H. destruct v2. apply validate_ok_iff in E2. invg H. apply Z.eqb_eq in G1.
    do 2 inv1 H.
    assert (0 <= nz) as NZ by (subst nz; change LEAF_PI_LEN with 21; lia).
    set (n := Z.to_nat nz) in *.
    inv1 H. replace (n * 2)%nat with (2 * n)%nat in E5 by lia.
    apply read_slots_ok_iff in E5; [|lia]. destruct E5 as [W1 ->].
    inv1 H. replace (8 + n * 2 * 5)%nat with (8 + 10 * n)%nat in E5 by lia.
    apply read_digests_ok_iff in E5; [|lia]. destruct E5 as [W2 ->].
    norm_reads. inversion H; subst. exists n.
    assert (at_ pis 0 = Z.of_nat (2 * n)) as A0 by lia.
    rewrite A0. split; [|reflexivity]. repeat (split; [first [assumption|lia]|]). assumption.
  - intros (n & ((N1 & N2) & L & A0 & U1 & U2 & D3 & U7 & W1 & W2) & ->).
    destruct (priv_len_facts pis n L) as (F1 & F2 & F3).
    rewrite F1, F2, F3. cbn [Z.eqb guard rbind].
    assert (u32_at pis 0) as U0 by (unfold u32_at, is_u32P; rewrite A0; unfold two32; lia).
    rewrite !get_u32_at by (assumption || lia). cbn [rbind].
    rewrite validate_ok by lia. cbn [rbind].
    replace (at_ pis 0 =? Z.of_nat n * 2) with true by (symmetry; apply Z.eqb_eq; lia).
    cbn [guard rbind]. rewrite get_digest_at by (assumption || lia). cbn [rbind].
    rewrite Nat2Z.id.
    replace (n * 2)%nat with (2 * n)%nat by lia.
    rewrite (proj2 (read_slots_ok_iff pis 8 (2 * n) _ ltac:(lia)) (conj W1 eq_refl)). cbn [rbind].
    replace (8 + 2 * n * 5)%nat with (8 + 10 * n)%nat by lia.
    rewrite (proj2 (read_digests_ok_iff pis (8 + 10 * n) n _ ltac:(lia)) (conj W2 eq_refl)). reflexivity.
Qed.

Lemma priv_canon_accept_iff pis s :
  Forall canonP pis ->
  (parse_priv_canon pis = Ok s <-> exists n, wf_priv n pis /\ s = layout_priv n pis).
Proof.
  intro F.
  assert (forall a, digest_at pis a) as DA by (intro; apply Forall_canon_digest_at; exact F).
  unfold parse_priv_canon, wf_priv, layout_priv. cbv zeta. split.
  - intro H. invg H. invg H. pose proof (priv_len_inv pis G G0) as L.
    set (nz := Z.of_nat (length pis - 8) / LEAF_PI_LEN) in *.
    inv1 H. destruct v. apply validate_ok_iff in E. inv1 H. invg H. apply Z.eqb_eq in G1.
    do 4 inv1 H.
    assert (0 <= nz) as NZ by (subst nz; change LEAF_PI_LEN with 21; lia).
    set (n := Z.to_nat nz) in *.
    inv1 H. replace (n * 2)%nat with (2 * n)%nat in E5 by lia.
    apply mapM_slots_ok_iff in E5; [|lia]. destruct E5 as [W1 ->].
    inv1 H. replace (8 + n * 2 * 5)%nat with (8 + 10 * n)%nat in E5 by lia.
    rewrite mapM_digests_ok in E5 by lia. inversion E5; subst v4.
    norm_reads. inversion H; subst. exists n.
    assert (at_ pis 0 = Z.of_nat (2 * n)) as A0 by lia.
    rewrite A0. split; [|reflexivity]. repeat (split; [first [assumption|lia|apply DA]|]).
    split; [|intros j _; apply DA]. intros j Hj. split; [apply W1; exact Hj|apply DA].
  - intros (n & ((N1 & N2) & L & A0 & U1 & U2 & D3 & U7 & W1 & W2) & ->).
    destruct (priv_len_facts pis n L) as (F1 & F2 & F3).
    rewrite F1, F2, F3. cbn [Z.eqb guard rbind].
    assert (u32_at pis 0) as U0 by (unfold u32_at, is_u32P; rewrite A0; unfold two32; lia).
    rewrite validate_ok by lia. cbn [rbind].
    rewrite !get_u32_at by (assumption || lia). cbn [rbind].
    replace (at_ pis 0 =? Z.of_nat n * 2) with true by (symmetry; apply Z.eqb_eq; lia).
    cbn [guard rbind]. rewrite get_felts4_at by lia. cbn [rbind].
    rewrite Nat2Z.id.
    replace (n * 2)%nat with (2 * n)%nat by lia.
    rewrite (proj2 (mapM_slots_ok_iff pis 8 (2 * n) (slots_at pis 8 (2 * n)) ltac:(lia))); [|split; [|reflexivity]].
    2:{ intros j Hj. apply W1. exact Hj. }
    cbn [rbind].
    replace (8 + 2 * n * 5)%nat with (8 + 10 * n)%nat by lia.
    rewrite mapM_digests_ok by lia. reflexivity.
Qed.

Lemma priv_parsers_agree raw :
  Forall is_u64P raw -> res_class (parse_priv_felts raw) = res_class (parse_priv_u64 (map to_canonical raw)).
Proof.
  intro F. apply res_class_of_iff. intro s. unfold parse_priv_felts.
  rewrite priv_canon_accept_iff by (apply map_to_canonical_canon; exact F).
  rewrite priv_accept_iff. tauto.
Qed.

(* ------------------------------------------------------------------------------------------------ *)
(** * Layout-length arithmetic (C29) *)

Lemma wrap64_small x : 0 <= x < two64 -> wrap64 x = x.
Proof. intro H. unfold wrap64. apply Z.mod_small. exact H. Qed.

Lemma checked_mul_some a b : 0 <= a * b < two64 -> checked_mul a b = Some (a * b).
Proof. intro H. unfold checked_mul. destruct (Z.ltb_spec (a * b) two64); [reflexivity|lia]. Qed.
Lemma checked_add_some a b : 0 <= a + b < two64 -> checked_add a b = Some (a + b).
Proof. intro H. unfold checked_add. destruct (Z.ltb_spec (a + b) two64); [reflexivity|lia]. Qed.

(* try_pi_len computes the exact length whenever no intermediate overflows, and the only
   intermediate that is not bounded by the final sum (when m = 0) is n * 2 *)
Lemma try_pi_len_spec m n :
  0 <= m -> 0 <= n ->
  try_pi_len m n = if (n * 2 <? two64) && (pi_len_exact m n <? two64) then Some (pi_len_exact m n) else None.
Proof.
  intros Hm Hn. unfold try_pi_len, pi_len_exact, checked_mul, checked_add.
  change PUBLIC_EXIT_SLOT_LEN with 5. change PUBLIC_HEADER_LEN with 12.
  assert (0 <= m * n) as Hmn by (apply Z.mul_nonneg_nonneg; assumption).
  destruct (Z.ltb_spec (n * 2) two64) as [A|A]; cbn [andb]; [|reflexivity].
  destruct (Z.ltb_spec (12 + m * (2 * n) * 5 + m * n * 4) two64) as [T|T].
  - destruct (Z.ltb_spec (m * (n * 2)) two64); [|lia].
    destruct (Z.ltb_spec (m * (n * 2) * 5) two64); [|lia].
    destruct (Z.ltb_spec (m * n) two64); [|lia].
    destruct (Z.ltb_spec (m * n * 4) two64); [|lia].
    destruct (Z.ltb_spec (12 + m * (n * 2) * 5) two64); [|lia].
    destruct (Z.ltb_spec (12 + m * (n * 2) * 5 + m * n * 4) two64); [|lia].
    f_equal. lia.
  - destruct (Z.ltb_spec (m * (n * 2)) two64); [|reflexivity].
    destruct (Z.ltb_spec (m * (n * 2) * 5) two64); [|reflexivity].
    destruct (Z.ltb_spec (m * n) two64); [|reflexivity].
    destruct (Z.ltb_spec (m * n * 4) two64); [|reflexivity].
    destruct (Z.ltb_spec (12 + m * (n * 2) * 5) two64); [|reflexivity].
    destruct (Z.ltb_spec (12 + m * (n * 2) * 5 + m * n * 4) two64); [lia|reflexivity].
Qed.

Lemma small_product m n : 1 <= m <= 64 -> 1 <= n <= 64 -> 1 <= m * n <= 4096.
Proof. intros. nia. Qed.

Lemma try_pi_len_valid m n :
  1 <= m <= 64 -> 1 <= n <= 64 -> try_pi_len m n = Some (pi_len_exact m n) /\ pi_len_exact m n = 12 + 14 * (m * n).
Proof.
  intros Hm Hn. pose proof (small_product m n Hm Hn) as P.
  rewrite try_pi_len_spec by lia.
  assert (pi_len_exact m n = 12 + 14 * (m * n)) as E by (unfold pi_len_exact; lia).
  rewrite E.
  destruct (Z.ltb_spec (n * 2) two64); [|unfold two64 in *; lia].
  destruct (Z.ltb_spec (12 + 14 * (m * n)) two64); [|unfold two64 in *; lia].
  auto.
Qed.

Lemma pi_len_wrapping_valid m n :
  1 <= m <= 64 -> 1 <= n <= 64 -> pi_len_wrapping m n = pi_len_exact m n.
Proof.
  intros Hm Hn. pose proof (small_product m n Hm Hn) as P.
  unfold pi_len_wrapping, pi_len_exact. change PUBLIC_EXIT_SLOT_LEN with 5. change PUBLIC_HEADER_LEN with 12.
  rewrite (wrap64_small (n * 2)) by (unfold two64; lia).
  rewrite (wrap64_small (m * (n * 2))) by (unfold two64; lia).
  rewrite (wrap64_small (m * (n * 2) * 5)) by (unfold two64; lia).
  rewrite (wrap64_small (m * n)) by (unfold two64; lia).
  rewrite (wrap64_small (m * n * 4)) by (unfold two64; lia).
  rewrite (wrap64_small (12 + m * (n * 2) * 5)) by (unfold two64; lia).
  rewrite wrap64_small by (unfold two64; lia). lia.
Qed.

Lemma try_pi_len_none_iff m n :
  0 <= m < two64 -> 0 <= n < two64 ->
  (try_pi_len m n = None <-> 2 * n >= two64 \/ pi_len_exact m n >= two64).
Proof.
  intros Hm Hn. rewrite try_pi_len_spec by lia.
  destruct (Z.ltb_spec (n * 2) two64); destruct (Z.ltb_spec (pi_len_exact m n) two64); cbn [andb];
    split; intro HH; try discriminate; try reflexivity; lia.
Qed.
Lemma try_pi_len_none_iff_pos m n :
  1 <= m < two64 -> 0 <= n < two64 ->
  (try_pi_len m n = None <-> pi_len_exact m n >= two64).
Proof.
  intros Hm Hn. rewrite try_pi_len_none_iff by lia.
  assert (n <= m * n) by nia. unfold pi_len_exact. split; [intros [A|A]|intro A]; lia.
Qed.

(* the aggregator's layout helpers *)
Lemma pr_layout_valid n :
  1 <= n <= 64 ->
  pr_exit_slots_count n = 2 * n /\ pr_nullifiers_count n = n /\ pr_exit_slots_start = 8 /\
  pr_nullifiers_start n = 8 + 10 * n /\ pr_pi_len n = 8 + 21 * n.
Proof.
  intro Hn. unfold pr_nullifiers_start, pr_pi_len, pr_exit_slots_count, pr_nullifiers_count, pr_exit_slots_start.
  change PR_OUT_HEADER_LEN with 8. change PR_OUT_EXIT_SLOT_LEN with 5. change PR_LEAF_PI_LEN with 21.
  rewrite (wrap64_small (n * 2)) by (unfold two64; lia).
  rewrite (wrap64_small (n * 2 * 5)) by (unfold two64; lia).
  rewrite (wrap64_small (8 + n * 2 * 5)) by (unfold two64; lia).
  rewrite (wrap64_small (21 * n)) by (unfold two64; lia).
  rewrite (wrap64_small (21 * n + 8)) by (unfold two64; lia).
  repeat split; lia.
Qed.
Lemma pu_layout_valid m n :
  1 <= m <= 64 -> 1 <= n <= 64 ->
  pu_total_exit_slots m n = 2 * (m * n) /\ pu_total_nullifiers m n = m * n /\ pu_exit_slots_start = 12 /\
  pu_nullifiers_start m n = 12 + 10 * (m * n) /\ pu_pi_len m n = pi_len_exact m n.
Proof.
  intros Hm Hn. pose proof (small_product m n Hm Hn) as P.
  unfold pu_pi_len, pu_nullifiers_start, pu_total_exit_slots, pu_total_nullifiers, pu_exit_slots_start,
    pr_exit_slots_count, pr_nullifiers_count, pi_len_exact.
  change PU_HEADER_LEN with 12. change PR_OUT_EXIT_SLOT_LEN with 5.
  rewrite (wrap64_small (n * 2)) by (unfold two64; lia).
  rewrite (wrap64_small (m * (n * 2))) by (unfold two64; lia).
  rewrite (wrap64_small (m * (n * 2) * 5)) by (unfold two64; lia).
  rewrite (wrap64_small (m * n)) by (unfold two64; lia).
  rewrite (wrap64_small (m * n * 4)) by (unfold two64; lia).
  rewrite (wrap64_small (12 + m * (n * 2) * 5)) by (unfold two64; lia).
  rewrite (wrap64_small (12 + m * (n * 2) * 5 + m * n * 4)) by (unfold two64; lia).
  repeat split; lia.
Qed.

Lemma validate_exact c :
  0 <= c < two64 -> (validate_proof_count c = Ok tt <-> 1 <= c <= 64).
Proof. intro H. rewrite validate_ok_iff. lia. Qed.

Lemma config_accepts_iff l o :
  0 <= l -> (match o with Some n => 0 <= n | None => True end) ->
  (config_accepts l o = true <-> 1 <= l <= 64 /\ match o with Some n => 1 <= n <= 64 | None => True end).
Proof.
  intros Hl Ho. unfold config_accepts. rewrite andb_true_iff.
  assert (forall c, 0 <= c -> (is_ok (validate_proof_count c) = true <-> 1 <= c <= 64)) as V.
  { intros c Hc. destruct (validate_proof_count c) as [[]|e] eqn:E; cbn [is_ok].
    - apply validate_ok_iff in E. split; [lia|reflexivity].
    - split; [discriminate|]. intro R. rewrite validate_ok in E by lia. discriminate. }
  rewrite V by exact Hl. destruct o as [n|]; [rewrite V by exact Ho|]; tauto.
Qed.

(* ------------------------------------------------------------------------------------------------ *)
(** * Public-batch parser (12 + 14 m n felts) *)

Definition wf_pub (m n : nat) (pis : list Z) : Prop :=
  length pis = (12 + 14 * (m * n))%nat /\
  digest_at pis 0 /\ u32_at pis 4 /\ u32_at pis 5 /\ digest_at pis 6 /\ u32_at pis 10 /\
  at_ pis 11 = Z.of_nat (2 * (m * n)) /\
  slots_wf pis 12 (2 * (m * n)) /\ digests_wf pis (12 + 10 * (m * n)) (m * n).

Definition layout_pub (m n : nat) (pis : list Z) : PubPI :=
  mkPubPI (sub pis 0 4) (at_ pis 4) (at_ pis 5) (sub pis 6 4) (at_ pis 10) (at_ pis 11)
          (slots_at pis 12 (2 * (m * n))) (digests_at pis (12 + 10 * (m * n)) (m * n)).

Definition parse_pub_u64_lit (pis : list Z) (m n : Z) : res PubPI :=
  _ <-? validate_proof_count m ;;
  _ <-? validate_proof_count n ;;
  match try_pi_len m n with
  | None => Err 50
  | Some expected =>
    _ <-? guard (zlen pis =? expected) 51 ;;
    match checked_mul m (wrap64 (n * 2)) with
    | None => Err 52
    | Some total =>
      _ <-? guard (is_u32 total) 53 ;;
      addr <-? get_digest pis 0 ;;
      asset <-? get_u32 pis 4 ;;
      fee <-? get_u32 pis 5 ;;
      bh <-? get_digest pis 6 ;;
      bn <-? get_u32 pis 10 ;;
      tes <-? get_u32 pis 11 ;;
      _ <-? guard (tes =? total) 54 ;;
      slots <-? read_slots_unchecked pis 12 (Z.to_nat total) ;;
      match checked_mul m n with
      | None => Err 55
      | Some tn =>
        nulls <-? read_digests_unchecked pis (12 + Z.to_nat total * 5) (Z.to_nat tn) ;;
        Ok (mkPubPI addr asset fee bh bn tes slots nulls)
      end
    end
  end.
Lemma parse_pub_u64_unfold pis m n : parse_pub_u64 pis m n = parse_pub_u64_lit pis m n.
Proof. reflexivity. Qed.

Lemma pub_accept_iff_nat pis (M N : nat) s :
  parse_pub_u64 pis (Z.of_nat M) (Z.of_nat N) = Ok s <->
  (1 <= M <= 64)%nat /\ (1 <= N <= 64)%nat /\ wf_pub M N pis /\ s = layout_pub M N pis.
Proof.
  rewrite parse_pub_u64_unfold. unfold parse_pub_u64_lit, wf_pub, layout_pub.
  set (m := Z.of_nat M). set (n := Z.of_nat N).
  assert (Z.of_nat (M * N) = m * n) as MN by (subst m n; lia).
  split.
  - intro H. inv1 H. destruct v. apply validate_ok_iff in E. inv1 H. destruct v. apply validate_ok_iff in E0.
    assert (1 <= m <= 64) as Hm by (subst m; lia). assert (1 <= n <= 64) as Hn by (subst n; lia).
    pose proof (small_product m n Hm Hn) as P.
    destruct (try_pi_len_valid m n Hm Hn) as [T X]. rewrite T, X in H.
    invg H. apply Z.eqb_eq in G. unfold zlen in G.
    rewrite (wrap64_small (n * 2)) in H by (unfold two64; lia).
    rewrite checked_mul_some in H by (unfold two64; lia).
    invg H. do 6 inv1 H. invg H. apply Z.eqb_eq in G1.
    replace (Z.to_nat (m * (n * 2))) with (2 * (M * N))%nat in H by lia.
    inv1 H. rewrite read_slots_unchecked_eq in E7 by lia.
    apply read_slots_ok_iff in E7; [|lia]. destruct E7 as [W1 ->].
    rewrite checked_mul_some in H by (unfold two64; lia).
    replace (Z.to_nat (m * n)) with (M * N)%nat in H by lia.
    replace (12 + 2 * (M * N) * 5)%nat with (12 + 10 * (M * N))%nat in H by lia.
    inv1 H. rewrite read_digests_unchecked_eq in E7 by lia.
    apply read_digests_ok_iff in E7; [|lia]. destruct E7 as [W2 ->].
    norm_reads. inversion H; subst v v0 v1 v2 v3 v4 s.
    split; [lia|]. split; [lia|]. split; [|reflexivity].
    repeat (split; [first [assumption|lia]|]). assumption.
  - intros ((M1 & M2) & (N1 & N2) & (L & D0 & U4 & U5 & D6 & U10 & A11 & W1 & W2) & ->).
    assert (1 <= m <= 64) as Hm by (subst m; lia). assert (1 <= n <= 64) as Hn by (subst n; lia).
    pose proof (small_product m n Hm Hn) as P.
    rewrite !validate_ok by lia. cbn [rbind].
    destruct (try_pi_len_valid m n Hm Hn) as [T X]. rewrite T, X.
    replace (zlen pis =? 12 + 14 * (m * n)) with true by (symmetry; apply Z.eqb_eq; unfold zlen; lia).
    cbn [guard rbind].
    rewrite (wrap64_small (n * 2)) by (unfold two64; lia).
    rewrite checked_mul_some by (unfold two64; lia).
    replace (is_u32 (m * (n * 2))) with true by (symmetry; apply is_u32_iff; unfold is_u32P, two32; lia).
    cbn [guard rbind].
    assert (u32_at pis 11) as U11 by (unfold u32_at, is_u32P; rewrite A11; unfold two32; lia).
    rewrite !get_digest_at by (assumption || lia).
    rewrite !get_u32_at by (assumption || lia). cbn [rbind].
    replace (at_ pis 11 =? m * (n * 2)) with true by (symmetry; apply Z.eqb_eq; lia).
    cbn [guard rbind].
    replace (Z.to_nat (m * (n * 2))) with (2 * (M * N))%nat by lia.
    rewrite read_slots_unchecked_eq by lia.
    rewrite (proj2 (read_slots_ok_iff pis 12 (2 * (M * N)) _ ltac:(lia)) (conj W1 eq_refl)). cbn [rbind].
    rewrite checked_mul_some by (unfold two64; lia).
    replace (Z.to_nat (m * n)) with (M * N)%nat by lia.
    replace (12 + 2 * (M * N) * 5)%nat with (12 + 10 * (M * N))%nat by lia.
    rewrite read_digests_unchecked_eq by lia.
    rewrite (proj2 (read_digests_ok_iff pis (12 + 10 * (M * N)) (M * N) _ ltac:(lia)) (conj W2 eq_refl)).
    reflexivity.
Qed.

Lemma pub_accept_iff pis m n s :
  0 <= m < two64 -> 0 <= n < two64 ->
  (parse_pub_u64 pis m n = Ok s <->
   1 <= m <= 64 /\ 1 <= n <= 64 /\ wf_pub (Z.to_nat m) (Z.to_nat n) pis /\ s = layout_pub (Z.to_nat m) (Z.to_nat n) pis).
Proof.
  intros Hm Hn. rewrite <- (Z2Nat.id m) at 1 by lia. rewrite <- (Z2Nat.id n) at 1 by lia.
  rewrite pub_accept_iff_nat. split; intros (A & B & C); (split; [lia|]); (split; [lia|]); exact C.
Qed.

(* ------------------------------------------------------------------------------------------------ *)
(** * Totality: no parser reaches the model's rendering of an index panic *)

Ltac safe_read := first
  [ apply safe_get_u32; lia | apply safe_get_digest; lia | apply safe_get_felts4; lia
  | apply safe_validate | apply safe_read_slots | apply safe_read_digests ].
Ltac safe_step := first
  [ apply safe_ok
  | apply safe_guard_bind; [discriminate|intro]
  | apply safe_bind; [safe_read|intros ? _] ].

Lemma safe_parse_leaf_u64 pis : safe (parse_leaf_u64 pis).
Proof.
  rewrite parse_leaf_u64_unfold. unfold parse_leaf_u64_lit.
  apply safe_guard_bind; [discriminate|intro G]. apply (zlen_eqb_true pis 21 21 eq_refl) in G.
  repeat safe_step.
Qed.
Lemma safe_parse_leaf_canon pis : safe (parse_leaf_canon pis).
Proof.
  rewrite parse_leaf_canon_unfold. unfold parse_leaf_canon_lit.
  apply safe_guard_bind; [discriminate|intro G]. apply (zlen_eqb_true pis 21 21 eq_refl) in G.
  repeat safe_step.
Qed.
Lemma safe_parse_priv_u64 pis : safe (parse_priv_u64 pis).
Proof.
  unfold parse_priv_u64. cbv zeta.
  apply safe_guard_bind; [discriminate|intro G]. apply Nat.leb_le in G.
  repeat safe_step.
Qed.
Lemma safe_parse_priv_canon pis : safe (parse_priv_canon pis).
Proof.
  unfold parse_priv_canon. cbv zeta.
  apply safe_guard_bind; [discriminate|intro G].
  apply safe_guard_bind; [discriminate|intro G0]. pose proof (priv_len_inv pis G G0) as L.
  apply Nat.leb_le in G.
  set (nz := Z.of_nat (length pis - 8) / LEAF_PI_LEN) in *.
  apply safe_bind; [apply safe_validate|intros [] V]. apply validate_ok_iff in V.
  do 6 safe_step.
  apply safe_bind; [apply safe_mapM_slots; lia|intros ? _].
  apply safe_bind; [|intros; apply safe_ok].
  rewrite mapM_digests_ok by lia. apply safe_ok.
Qed.
Lemma safe_parse_pub_u64 pis m n : 0 <= m -> 0 <= n -> safe (parse_pub_u64 pis m n).
Proof.
  intros Hm0 Hn0. rewrite parse_pub_u64_unfold. unfold parse_pub_u64_lit.
  apply safe_bind; [apply safe_validate|intros [] V1]. apply validate_ok_iff in V1.
  apply safe_bind; [apply safe_validate|intros [] V2]. apply validate_ok_iff in V2.
  assert (1 <= m <= 64) as Hm by lia. assert (1 <= n <= 64) as Hn by lia.
  pose proof (small_product m n Hm Hn) as P.
  destruct (try_pi_len_valid m n Hm Hn) as [T X]. rewrite T, X.
  apply safe_guard_bind; [discriminate|intro G]. apply Z.eqb_eq in G. unfold zlen in G.
  rewrite (wrap64_small (n * 2)) by (unfold two64; lia).
  rewrite checked_mul_some by (unfold two64; lia).
  do 8 safe_step.
  rewrite read_slots_unchecked_eq by lia.
  apply safe_bind; [apply safe_read_slots|intros ? _].
  rewrite checked_mul_some by (unfold two64; lia).
  rewrite read_digests_unchecked_eq by lia.
  apply safe_bind; [apply safe_read_digests|intros; apply safe_ok].
Qed.

Lemma parsers_total :
  (forall pis, Forall is_u64P pis -> parse_leaf_u64 pis <> Err PANIC) /\
  (forall raw, Forall is_u64P raw -> parse_leaf_felts raw <> Err PANIC) /\
  (forall pis, Forall is_u64P pis -> parse_priv_u64 pis <> Err PANIC) /\
  (forall raw, Forall is_u64P raw -> parse_priv_felts raw <> Err PANIC) /\
  (forall pis m n, Forall is_u64P pis -> is_u64P m -> is_u64P n -> parse_pub_u64 pis m n <> Err PANIC).
Proof.
  repeat split; intros.
  - apply safe_parse_leaf_u64.
  - apply safe_parse_leaf_canon.
  - apply safe_parse_priv_u64.
  - apply safe_parse_priv_canon.
  - apply safe_parse_pub_u64; unfold is_u64P in *; lia.
Qed.

(* ------------------------------------------------------------------------------------------------ *)
(** * Round trips: parse (serialize s) = Ok s for every valid structure *)

Definition valid_slot (s : Slot) : Prop := is_u32P (s_sum s) /\ digestP (s_account s).

Definition valid_leaf (s : LeafPI) : Prop :=
  is_u32P (l_asset s) /\ is_u32P (l_out1 s) /\ is_u32P (l_out2 s) /\ is_u32P (l_fee s) /\
  digestP (l_null s) /\ digestP (l_exit1 s) /\ digestP (l_exit2 s) /\ digestP (l_bh s) /\ is_u32P (l_bn s).

Definition valid_priv (n : nat) (s : PrivPI) : Prop :=
  (1 <= n <= 64)%nat /\ pb_num_exit_slots s = Z.of_nat (2 * n) /\
  is_u32P (pb_asset s) /\ is_u32P (pb_fee s) /\ digestP (pb_bh s) /\ is_u32P (pb_bn s) /\
  length (pb_slots s) = (2 * n)%nat /\ Forall valid_slot (pb_slots s) /\
  length (pb_nulls s) = n /\ Forall digestP (pb_nulls s).

Definition valid_pub (m n : nat) (s : PubPI) : Prop :=
  (1 <= m <= 64)%nat /\ (1 <= n <= 64)%nat /\
  digestP (pu_addr s) /\ is_u32P (pu_asset s) /\ is_u32P (pu_fee s) /\ digestP (pu_bh s) /\ is_u32P (pu_bn s) /\
  pu_total s = Z.of_nat (2 * (m * n)) /\
  length (pu_slots s) = (2 * (m * n))%nat /\ Forall valid_slot (pu_slots s) /\
  length (pu_nulls s) = (m * n)%nat /\ Forall digestP (pu_nulls s).

Lemma digestP_inv d : digestP d -> exists a b c e, d = [a; b; c; e] /\ canonP a /\ canonP b /\ canonP c /\ canonP e.
Proof.
  intros [L F]. destruct d as [|a [|b [|c [|e [|? ?]]]]]; cbn [length] in L; try lia.
  inversion F as [|? ? Ha F1]; subst. inversion F1 as [|? ? Hb F2]; subst.
  inversion F2 as [|? ? Hc F3]; subst. inversion F3 as [|? ? He F4]; subst.
  exists a, b, c, e. auto.
Qed.

Lemma at_app_len pre l k : at_ (pre ++ l) (length pre + k) = at_ l k.
Proof. unfold at_. apply app_nth2_plus. Qed.
Lemma sub_app_len pre l k n : sub (pre ++ l) (length pre + k) n = sub l k n.
Proof. unfold sub. rewrite skipn_app_len. reflexivity. Qed.

Ltac digest_at_concrete :=
  let k := fresh "k" in let Hk := fresh "Hk" in
  intros k Hk;
  do 4 (destruct k as [|k]; [unfold at_; cbn [Nat.add nth]; assumption|]); lia.

Lemma leaf_roundtrip s : valid_leaf s -> parse_leaf_u64 (serialize_leaf s) = Ok s.
Proof.
  destruct s as [a o1 o2 fee nl e1 e2 bh bn]. unfold valid_leaf. cbn [l_asset l_out1 l_out2 l_fee l_null l_exit1 l_exit2 l_bh l_bn].
  intros (Ua & U1 & U2 & Uf & Dn & D1 & D2 & Db & Ub).
  destruct (digestP_inv _ Dn) as (n0 & n1 & n2 & n3 & -> & ? & ? & ? & ?).
  destruct (digestP_inv _ D1) as (x0 & x1 & x2 & x3 & -> & ? & ? & ? & ?).
  destruct (digestP_inv _ D2) as (y0 & y1 & y2 & y3 & -> & ? & ? & ? & ?).
  destruct (digestP_inv _ Db) as (h0 & h1 & h2 & h3 & -> & ? & ? & ? & ?).
  apply leaf_accept_iff. unfold serialize_leaf.
  cbn [l_asset l_out1 l_out2 l_fee l_null l_exit1 l_exit2 l_bh l_bn app].
  split; [|reflexivity].
  unfold wf_leaf. split; [reflexivity|].
  repeat (split; [first [assumption|digest_at_concrete]|]). assumption.
Qed.

Lemma flat_slots_length slots : Forall valid_slot slots -> length (flat_map flat_slot slots) = (5 * length slots)%nat.
Proof.
  intro F. induction F as [|s l [_ [L _]] _ IH]; [reflexivity|].
  cbn [flat_map length]. rewrite app_length, IH. unfold flat_slot. cbn [length]. lia.
Qed.
Lemma concat_digests_length ds : Forall digestP ds -> length (concat ds) = (4 * length ds)%nat.
Proof.
  intro F. induction F as [|d l [L _] _ IH]; [reflexivity|].
  cbn [concat length]. rewrite app_length, IH. lia.
Qed.

Lemma slots_region slots : forall pre post,
  Forall valid_slot slots ->
  slots_wf (pre ++ flat_map flat_slot slots ++ post) (length pre) (length slots) /\
  slots_at (pre ++ flat_map flat_slot slots ++ post) (length pre) (length slots) = slots.
Proof.
  induction slots as [|s rest IH]; intros pre post F.
  - split; [apply slots_wf_O|reflexivity].
  - inversion F as [|? ? [Us Ds] Fr]; subst. destruct s as [sum acc]. cbn [s_sum s_account] in *.
    destruct (digestP_inv _ Ds) as (a & b & c & e & -> & Ca & Cb & Cc & Ce).
    cbn [length].
    change (flat_map flat_slot ({| s_sum := sum; s_account := [a; b; c; e] |} :: rest) ++ post)
      with (sum :: a :: b :: c :: e :: flat_map flat_slot rest ++ post).
    set (R := flat_map flat_slot rest ++ post).
    assert (pre ++ sum :: a :: b :: c :: e :: R = (pre ++ [sum; a; b; c; e]) ++ R) as EQ
      by (rewrite <- app_assoc; reflexivity).
    destruct (IH (pre ++ [sum; a; b; c; e]) post Fr) as [W A]. fold R in W, A.
    rewrite app_length in W, A. cbn [length] in W, A. rewrite <- EQ in W, A.
    assert (at_ (pre ++ sum :: a :: b :: c :: e :: R) (length pre) = sum) as A0.
    { rewrite <- (Nat.add_0_r (length pre)). rewrite at_app_len. reflexivity. }
    assert (sub (pre ++ sum :: a :: b :: c :: e :: R) (length pre + 1) 4 = [a; b; c; e]) as S1.
    { rewrite sub_app_len. reflexivity. }
    split.
    + apply slots_wf_S. split; [unfold u32_at; rewrite A0; exact Us|]. split; [|exact W].
      intros k Hk. rewrite <- Nat.add_assoc. rewrite at_app_len.
      do 4 (destruct k as [|k]; [unfold at_; cbn [Nat.add nth]; assumption|]). lia.
    + cbn [slots_at]. rewrite A0, S1, A. reflexivity.
Qed.

Lemma digests_region ds : forall pre post,
  Forall digestP ds ->
  digests_wf (pre ++ concat ds ++ post) (length pre) (length ds) /\
  digests_at (pre ++ concat ds ++ post) (length pre) (length ds) = ds.
Proof.
  induction ds as [|d rest IH]; intros pre post F.
  - split; [apply digests_wf_O|reflexivity].
  - inversion F as [|? ? Dd Fr]; subst.
    destruct (digestP_inv _ Dd) as (a & b & c & e & -> & Ca & Cb & Cc & Ce).
    cbn [length].
    change (concat ([a; b; c; e] :: rest) ++ post) with (a :: b :: c :: e :: concat rest ++ post).
    set (R := concat rest ++ post).
    assert (pre ++ a :: b :: c :: e :: R = (pre ++ [a; b; c; e]) ++ R) as EQ
      by (rewrite <- app_assoc; reflexivity).
    destruct (IH (pre ++ [a; b; c; e]) post Fr) as [W A]. fold R in W, A.
    rewrite app_length in W, A. cbn [length] in W, A. rewrite <- EQ in W, A.
    assert (sub (pre ++ a :: b :: c :: e :: R) (length pre) 4 = [a; b; c; e]) as S0.
    { rewrite <- (Nat.add_0_r (length pre)). rewrite sub_app_len. reflexivity. }
    split.
    + apply digests_wf_S. split; [|exact W].
      intros k Hk. rewrite at_app_len.
      do 4 (destruct k as [|k]; [unfold at_; cbn [Nat.add nth]; assumption|]). lia.
    + cbn [digests_at]. rewrite S0, A. reflexivity.
Qed.

Lemma priv_roundtrip n s padding :
  valid_priv n s -> length padding = (7 * n)%nat -> parse_priv_u64 (serialize_priv s padding) = Ok s.
Proof.
  destruct s as [nes asset fee bh bn slots nulls]. unfold valid_priv.
  cbn [pb_num_exit_slots pb_asset pb_fee pb_bh pb_bn pb_slots pb_nulls].
  intros (N & E0 & Ua & Uf & Dh & Ub & Ls & Fs & Ln & Fn) Lp.
  destruct (digestP_inv _ Dh) as (h0 & h1 & h2 & h3 & -> & ? & ? & ? & ?).
  apply priv_accept_iff. exists n. unfold serialize_priv.
  cbn [pb_num_exit_slots pb_asset pb_fee pb_bh pb_bn pb_slots pb_nulls app].
  set (pre := [nes; asset; fee; h0; h1; h2; h3; bn]).
  set (post := concat nulls ++ padding).
  change (nes :: asset :: fee :: h0 :: h1 :: h2 :: h3 :: bn :: flat_map flat_slot slots ++ post)
    with (pre ++ flat_map flat_slot slots ++ post).
  pose proof (flat_slots_length slots Fs) as LS. pose proof (concat_digests_length nulls Fn) as LN.
  destruct (slots_region slots pre post Fs) as [W1 A1]. rewrite Ls in W1, A1. change (length pre) with 8%nat in W1, A1.
  assert (pre ++ flat_map flat_slot slots ++ post = (pre ++ flat_map flat_slot slots) ++ concat nulls ++ padding) as EQ
    by (unfold post; rewrite app_assoc; reflexivity).
  destruct (digests_region nulls (pre ++ flat_map flat_slot slots) padding Fn) as [W2 A2].
  rewrite <- EQ in W2, A2. rewrite app_length, LS, Ls, Ln in W2, A2. change (length pre) with 8%nat in W2, A2.
  replace (8 + 5 * (2 * n))%nat with (8 + 10 * n)%nat in W2, A2 by lia.
  split.
  - unfold wf_priv. split; [exact N|]. split.
    { rewrite !app_length. unfold post. rewrite app_length, LS, LN, Ls, Ln, Lp. cbn [length pre]. lia. }
    split; [exact E0|].
    repeat (split; [first [assumption|digest_at_concrete]|]). assumption.
  - unfold layout_priv. rewrite A1, A2. reflexivity.
Qed.

Lemma pub_roundtrip m n s :
  valid_pub m n s -> parse_pub_u64 (serialize_pub s) (Z.of_nat m) (Z.of_nat n) = Ok s.
Proof.
  destruct s as [addr asset fee bh bn total slots nulls]. unfold valid_pub.
  cbn [pu_addr pu_asset pu_fee pu_bh pu_bn pu_total pu_slots pu_nulls].
  intros (M & N & Da & Ua & Uf & Dh & Ub & Et & Ls & Fs & Ln & Fn).
  destruct (digestP_inv _ Da) as (a0 & a1 & a2 & a3 & -> & ? & ? & ? & ?).
  destruct (digestP_inv _ Dh) as (h0 & h1 & h2 & h3 & -> & ? & ? & ? & ?).
  apply pub_accept_iff_nat. split; [exact M|]. split; [exact N|]. unfold serialize_pub.
  cbn [pu_addr pu_asset pu_fee pu_bh pu_bn pu_total pu_slots pu_nulls app].
  set (pre := [a0; a1; a2; a3; asset; fee; h0; h1; h2; h3; bn; total]).
  change (a0 :: a1 :: a2 :: a3 :: asset :: fee :: h0 :: h1 :: h2 :: h3 :: bn :: total :: flat_map flat_slot slots ++ concat nulls)
    with (pre ++ flat_map flat_slot slots ++ concat nulls).
  pose proof (flat_slots_length slots Fs) as LS. pose proof (concat_digests_length nulls Fn) as LN.
  destruct (slots_region slots pre (concat nulls) Fs) as [W1 A1]. rewrite Ls in W1, A1. change (length pre) with 12%nat in W1, A1.
  assert (pre ++ flat_map flat_slot slots ++ concat nulls = (pre ++ flat_map flat_slot slots) ++ concat nulls ++ []) as EQ
    by (rewrite app_nil_r, app_assoc; reflexivity).
  destruct (digests_region nulls (pre ++ flat_map flat_slot slots) [] Fn) as [W2 A2].
  rewrite <- EQ in W2, A2. rewrite app_length, LS, Ls, Ln in W2, A2. change (length pre) with 12%nat in W2, A2.
  replace (12 + 5 * (2 * (m * n)))%nat with (12 + 10 * (m * n))%nat in W2, A2 by lia.
  split.
  - unfold wf_pub. split.
    { rewrite !app_length. rewrite LS, LN, Ls, Ln. cbn [length pre]. lia. }
    repeat (split; [first [assumption|digest_at_concrete]|]). assumption.
  - unfold layout_pub. rewrite A1, A2. reflexivity.
Qed.

Lemma is_ok_validate_iff c : 0 <= c -> (is_ok (validate_proof_count c) = true <-> 1 <= c <= 64).
Proof.
  intro Hc. destruct (validate_proof_count c) as [[]|e] eqn:E; cbn [is_ok].
  - apply validate_ok_iff in E. split; [lia|reflexivity].
  - split; [discriminate|]. intro R. rewrite validate_ok in E by lia. discriminate.
Qed.
Lemma counts_accept_iff cs :
  Forall (fun c => 0 <= c < two64) cs -> (counts_accept cs = true <-> Forall (fun c => 1 <= c <= 64) cs).
Proof.
  intro F. unfold counts_accept. induction F as [|c l Hc _ IH]; cbn [forallb].
  - split; [constructor|reflexivity].
  - rewrite andb_true_iff, IH, is_ok_validate_iff by lia. split.
    + intros [A B]. constructor; assumption.
    + intro H. inversion H; subst. auto.
Qed.
Lemma no_wrap_all m n :
  1 <= m <= 64 -> 1 <= n <= 64 ->
  pi_len_exact m n < two64 /\
  pi_len_wrapping m n = pi_len_exact m n /\
  try_pi_len m n = Some (pi_len_exact m n) /\
  (pr_exit_slots_count n = 2 * n /\ pr_nullifiers_count n = n /\ pr_exit_slots_start = 8 /\
   pr_nullifiers_start n = 8 + 10 * n /\ pr_pi_len n = 8 + 21 * n) /\
  (pu_total_exit_slots m n = 2 * (m * n) /\ pu_total_nullifiers m n = m * n /\ pu_exit_slots_start = 12 /\
   pu_nullifiers_start m n = 12 + 10 * (m * n) /\ pu_pi_len m n = pi_len_exact m n).
Proof.
  intros Hm Hn. pose proof (small_product m n Hm Hn) as P.
  destruct (try_pi_len_valid m n Hm Hn) as [T X].
  split; [rewrite X; unfold two64; lia|].
  split; [apply pi_len_wrapping_valid; assumption|].
  split; [exact T|].
  split; [apply pr_layout_valid; assumption|apply pu_layout_valid; assumption].
Qed.
