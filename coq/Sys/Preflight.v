(* Executable model of the batch provers' commit-time admission checks (C14) and of the padding-template
   validators (C16).

     wormhole/aggregator/src/private_batch/prover/lib.rs : PrivateBatchProver::commit (the checks before padding),
                                                            ensure_leaf_batch_compatible, verify_dummy_leaf_template
     wormhole/aggregator/src/public_batch/prover/lib.rs  : preflight_private_batch_proofs (called by
                                                            PublicBatchProver::commit and ProvingContext::prove_batch),
                                                            ensure_private_batch_compatible,
                                                            verify_dummy_private_batch_template

   A child proof is abstract: its public-input vector (canonical u64 values of the felts) and whether the
   pinned child verifier accepts it.  Checks are transcribed in the ORDER of the Rust code; every error
   carries the class of the check that failed.  Model only; proofs in PreflightProofs.v. *)
From V.Base Require Import Common.
From V.Generated Require Import Constants.
From V.Circ Require Import PrivateBatch PublicBatch.
From V.Spec Require Import LeanPort.
From V.Sys Require Import Parsers.
Ltac Zify.zify_post_hook ::= Z.div_mod_to_equations.

Record child := mkChild { c_pis : list Z; c_ok : bool }.

(* ---------------------------------------------------------------- error classes *)
Definition E_EMPTY : Z := 1.        (* "no ... proofs to aggregate" *)
Definition E_TOO_MANY : Z := 2.     (* more proofs than slots *)
Definition E_PI_LEN : Z := 3.       (* public-input length mismatch *)
Definition E_INVALID : Z := 4.      (* child proof fails verification under the pinned verifier *)
Definition E_PAD_ASSET : Z := 5.    (* padding needed and the proof's asset id is not 0 (or not even a u32) *)
Definition E_ASSET : Z := 6.        (* asset ids differ *)
Definition E_BLOCK : Z := 7.        (* real proofs for different blocks *)
Definition E_FEE : Z := 8.          (* real proofs with different fee rates *)
Definition E_DUP_NULL : Z := 9.     (* two real proofs with one nullifier *)
Definition E_ALL_DUMMY : Z := 10.   (* no real proof *)
Definition E_SUM : Z := 11.         (* a grouped exit sum exceeds u32::MAX *)

(* ---------------------------------------------------------------- private batch: ensure_leaf_batch_compatible *)
(* `metas.first()` / `.skip(1)`: every later asset id equals the first one *)
Definition asset_check (ms : list (list Z)) : res unit :=
  match ms with
  | [] => Ok tt
  | first :: rest => guard (forallb (fun m => lf_asset m =? lf_asset first) rest) E_ASSET
  end.

(* the main loop: `reference` = first non-dummy meta seen so far, `seen` = nullifiers of the non-dummy metas so
   far (the HashMap's key set).  Per non-dummy meta, in this order: block hash, fee, nullifier. *)
Fixpoint compat_loop (reference : option (list Z)) (seen : list (list Z)) (ms : list (list Z))
  : res (option (list Z)) :=
  match ms with
  | [] => Ok reference
  | m :: r =>
    if is_dummy_pb m then compat_loop reference seen r
    else
      rf <-? match reference with
             | None => Ok m
             | Some rf =>
               _ <-? guard (list_eqb (lf_bh m) (lf_bh rf)) E_BLOCK ;;
               _ <-? guard (lf_fee m =? lf_fee rf) E_FEE ;;
               Ok rf
             end ;;
      _ <-? guard (negb (dmem (lf_null m) seen)) E_DUP_NULL ;;
      compat_loop (Some rf) (lf_null m :: seen) r
  end.

(* the grouped-exit-sum pass: a map exit account -> u128 sum, fed with both (exit account, output amount) pairs of
   every non-dummy meta.  The map is an association list with distinct keys. *)
Fixpoint acc_add (k : list Z) (a : Z) (acc : list (list Z * Z)) : list (list Z * Z) :=
  match acc with
  | [] => [(k, a)]
  | (k', s) :: r => if list_eqb k' k then (k', s + a) :: r else (k', s) :: acc_add k a r
  end.
Definition real_pairs (ms : list (list Z)) : list (list Z * Z) :=
  flat_map (fun m => if is_dummy_pb m then [] else [(lf_exit1 m, lf_out1 m); (lf_exit2 m, lf_out2 m)]) ms.
Definition exit_sums (ms : list (list Z)) : list (list Z * Z) :=
  fold_left (fun acc ka => acc_add (fst ka) (snd ka) acc) (real_pairs ms) [].
(* `sum > u32::MAX` for some account -> bail *)
Definition sum_check (ms : list (list Z)) : res unit :=
  guard (forallb (fun ks => snd ks <? two32) (exit_sums ms)) E_SUM.

(* the function as it was BEFORE the grouped-sum repair (kept to record why the pass is needed) *)
Definition ensure_leaf_batch_compatible_nosum (ms : list (list Z)) : res unit :=
  _ <-? asset_check ms ;;
  rf <-? compat_loop None [] ms ;;
  guard (match rf with Some _ => true | None => false end) E_ALL_DUMMY.

Definition ensure_leaf_batch_compatible (ms : list (list Z)) : res unit :=
  _ <-? ensure_leaf_batch_compatible_nosum ms ;;
  sum_check ms.

(* the per-proof loop of commit: shape, cryptography, and (only when padding will be added) native asset *)
Fixpoint check_leaf_children (padding : bool) (cs : list child) : res unit :=
  match cs with
  | [] => Ok tt
  | c :: r =>
    _ <-? guard (zlen (c_pis c) =? PR_LEAF_PI_LEN) E_PI_LEN ;;
    _ <-? guard (c_ok c) E_INVALID ;;
    _ <-? guard (negb padding || (lf_asset (c_pis c) =? 0)) E_PAD_ASSET ;;
    check_leaf_children padding r
  end.

(* PrivateBatchProver::commit up to (not including) padding, shuffling and witness filling; n = num_leaf_proofs *)
Definition private_commit_preflight_with (compat : list (list Z) -> res unit) (n : Z) (cs : list child) : res unit :=
  _ <-? guard (negb (zlen cs =? 0)) E_EMPTY ;;
  _ <-? guard (zlen cs <=? n) E_TOO_MANY ;;
  _ <-? check_leaf_children (zlen cs <? n) cs ;;
  compat (map c_pis cs).
Definition private_commit_preflight := private_commit_preflight_with ensure_leaf_batch_compatible.
Definition private_commit_preflight_nosum := private_commit_preflight_with ensure_leaf_batch_compatible_nosum.

(* what commit then hands to the circuit (before the shuffle): the supplied proofs followed by copies of the template *)
Definition padded (n : Z) (ms : list (list Z)) (tpl : list Z) : list (list Z) :=
  ms ++ repeat tpl (Z.to_nat (n - zlen ms)).

(* ---------------------------------------------------------------- public batch *)
Fixpoint check_inner_children (pi_len : Z) (cs : list child) : res unit :=
  match cs with
  | [] => Ok tt
  | c :: r =>
    _ <-? guard (zlen (c_pis c) =? pi_len) E_PI_LEN ;;
    _ <-? guard (c_ok c) E_INVALID ;;
    check_inner_children pi_len r
  end.

(* ensure_private_batch_compatible: per non-dummy meta, in this order: block hash, asset, fee *)
Fixpoint inner_loop (reference : option (list Z)) (ms : list (list Z)) : res (option (list Z)) :=
  match ms with
  | [] => Ok reference
  | m :: r =>
    if is_dummy_inner m then inner_loop reference r
    else
      match reference with
      | None => inner_loop (Some m) r
      | Some rf =>
        _ <-? guard (list_eqb (in_bh m) (in_bh rf)) E_BLOCK ;;
        _ <-? guard (in_asset m =? in_asset rf) E_ASSET ;;
        _ <-? guard (in_fee m =? in_fee rf) E_FEE ;;
        inner_loop (Some rf) r
      end
  end.
Definition ensure_private_batch_compatible (ms : list (list Z)) : res unit :=
  rf <-? inner_loop None ms ;;
  guard (match rf with Some _ => true | None => false end) E_ALL_DUMMY.

(* preflight_private_batch_proofs; m = num_private_batch_proofs, pi_len = the pinned verifier's num_public_inputs *)
Definition public_preflight (m pi_len : Z) (cs : list child) : res unit :=
  _ <-? guard (negb (zlen cs =? 0)) E_EMPTY ;;
  _ <-? guard (zlen cs <=? m) E_TOO_MANY ;;
  _ <-? check_inner_children pi_len cs ;;
  ensure_private_batch_compatible (map c_pis cs).

(* ---------------------------------------------------------------- padding templates (C16) *)
Definition T_PARSE : Z := 1.
Definition T_BLOCK : Z := 2.
Definition T_OUTPUT : Z := 3.
Definition T_ASSET : Z := 4.
Definition T_EXIT : Z := 5.
Definition T_VERIFY : Z := 6.

Definition reclass {A} (r : res A) (code : Z) : res A :=
  match r with Ok a => Ok a | Err _ => Err code end.

(* verify_dummy_leaf_template: parse (PublicCircuitInputs::try_from_u64_slice), sentinel, then cryptography *)
Definition leaf_template_check (t : child) : res unit :=
  pis <-? reclass (parse_leaf_u64 (c_pis t)) T_PARSE ;;
  _ <-? guard (list_eqb (l_bh pis) zero4) T_BLOCK ;;
  _ <-? guard ((l_out1 pis =? 0) && (l_out2 pis =? 0)) T_OUTPUT ;;
  _ <-? guard (l_asset pis =? 0) T_ASSET ;;
  _ <-? guard (list_eqb (l_exit1 pis) zero4 && list_eqb (l_exit2 pis) zero4) T_EXIT ;;
  guard (c_ok t) T_VERIFY.

(* the slot loop of verify_dummy_private_batch_template: per slot, amount then account *)
Fixpoint slots_check (ss : list Slot) : res unit :=
  match ss with
  | [] => Ok tt
  | s :: r =>
    _ <-? guard (s_sum s =? 0) T_OUTPUT ;;
    _ <-? guard (list_eqb (s_account s) zero4) T_EXIT ;;
    slots_check r
  end.
Definition private_batch_template_check (t : child) : res unit :=
  pis <-? reclass (parse_priv_u64 (c_pis t)) T_PARSE ;;
  _ <-? guard (list_eqb (pb_bh pis) zero4) T_BLOCK ;;
  _ <-? slots_check (pb_slots pis) ;;
  guard (c_ok t) T_VERIFY.

(* ---------------------------------------------------------------- canonical encodings / dispatch *)
Definition enc_unit (r : res unit) : list Z :=
  match r with Ok _ => [1] | Err c => [0; c] end.

Definition seg (args : list (list Z)) (i : nat) : list Z := nth i args [].
Definition arg (args : list (list Z)) (i j : nat) : Z := nth j (seg args i) 0.

(* a child segment is [verifies; pis...] *)
Definition child_of_seg (s : list Z) : child :=
  match s with
  | [] => mkChild [] false
  | v :: pis => mkChild pis (negb (v =? 0))
  end.
Definition b2z (b : bool) : Z := if b then 1 else 0.

Definition dispatch (fid : Z) (args : list (list Z)) : list Z :=
  (* 1401: commit result.  segs: [n]; template pis; children *)
  if fid =? 1401 then enc_unit (private_commit_preflight (arg args 0 0) (map child_of_seg (skipn 2 args)))
  (* 1402: after an accepted commit, can the circuit be satisfied by the padded batch? (any order: C14_private_accept_sound) *)
  else if fid =? 1402 then
    [b2z (priv_compat (padded (arg args 0 0) (map c_pis (map child_of_seg (skipn 2 args))) (seg args 1)))]
  (* 1403: an explicitly ordered batch of leaf statements *)
  else if fid =? 1403 then [b2z (priv_compat args)]
  (* 1404: the compatibility function alone *)
  else if fid =? 1404 then enc_unit (ensure_leaf_batch_compatible args)
  (* 1411 / 1414: public preflight.  segs: [m; pi_len]; template pis; children *)
  else if (fid =? 1411) || (fid =? 1414) then
    enc_unit (public_preflight (arg args 0 0) (arg args 0 1) (map child_of_seg (skipn 2 args)))
  else if fid =? 1412 then
    [b2z (pub_compat (padded (arg args 0 0) (map c_pis (map child_of_seg (skipn 2 args))) (seg args 1)))]
  (* 1601 / 1602: template at an entry point.  segs: [entry id]; [verifies; pis...] *)
  else if fid =? 1601 then enc_unit (leaf_template_check (child_of_seg (seg args 1)))
  else if fid =? 1602 then enc_unit (private_batch_template_check (child_of_seg (seg args 1)))
  else [-2].
