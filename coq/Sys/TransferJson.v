(* Executable model of the transfer-proof document parser (C35).
     common/src/circuit.rs : TransferProofJson::{from_json_str, validate},
                             deserialize_bounded_state_root, deserialize_bounded_storage_proof (NodeVisitor,
                             StorageProofVisitor), deserialize_bounded_vec / deserialize_bounded_indices,
                             #[derive(Deserialize)] TransferProofJsonRaw
   What is modelled: the raw-length gate, then the parser as a function of the *decoded* document: a JSON
   object given as its ordered list of (key, value) entries (or a top-level array given as its elements), where a value is described by what the
   visitors observe (an in-range integer, a string of a decoded byte length, an array of strings, an
   array of integers, or "anything else").  serde_json's lexing (whitespace, escapes, UTF-8, number
   syntax, nesting) is NOT modelled: [wf = false] stands for "serde_json reports a syntax error somewhere in
   the text", and the decoded lengths are inputs.
   Lengths are usize values (Z).  Only the class of the result is compared with the implementation
   (Ok doc / Err raw-cap / Err parse). *)
From V.Base Require Import Common.
From V.Generated Require Import Constants.

Definition PANIC : Z := -1.
Definition E_RAW : Z := 1.      (* "transfer proof JSON exceeds .. bytes; refusing to parse it" *)
Definition E_PARSE : Z := 2.    (* "failed to parse transfer proof JSON: .."  (every serde error) *)

(* usize::checked_add on a 64-bit target *)
Definition checked_add (a b : Z) : option Z := if a + b <? two64 then Some (a + b) else None.

(* ---------------------------------------------------------------- decoded JSON values *)

Inductive jval :=
| JInt (v : Z)              (* a JSON integer literal (no sign, fraction or exponent) of value v >= 0 *)
| JStr (len : Z)            (* a JSON string; len = byte length of the decoded (unescaped, UTF-8) content *)
| JStrs (lens : list Z)     (* an array whose elements are all strings: decoded byte lengths *)
| JInts (vals : list Z)     (* an array whose elements are all non-negative integer literals *)
| JOther.                   (* any other well-formed JSON value: null, bool, float, negative, object, mixed array *)

(* keys of the derive(Deserialize) field matcher; every other key is an ignored unknown field *)
Definition K_TRANSFER_COUNT : Z := 1.
Definition K_STATE_ROOT : Z := 2.
Definition K_STORAGE_PROOF : Z := 3.
Definition K_INDICES : Z := 4.

Definition entry := (Z * jval)%type.

(* the parsed document: the lengths are all that the caps and [validate] look at *)
Record Doc := mkDoc {
  d_transfer_count : Z;
  d_state_root_len : Z;
  d_nodes : list Z;          (* storage_proof[i].len() *)
  d_indices : list Z }.

(* ---------------------------------------------------------------- the bounded visitors *)

(* u64 / usize from a JSON integer literal *)
Definition de_u64 (v : jval) : res Z :=
  match v with JInt x => _ <-? guard (is_u64 x) 30 ;; Ok x | _ => Err 31 end.

(* deserialize_bounded_state_root: visit_str / visit_string *)
Definition de_state_root (v : jval) : res Z :=
  match v with
  | JStr len => _ <-? guard (negb (MAX_STATE_ROOT_HEX_LEN <? len)) 32 ;; Ok len
  | _ => Err 33
  end.

(* NodeVisitor: one storage-proof node *)
Definition de_node (len : Z) : res Z :=
  _ <-? guard (negb (MAX_STORAGE_PROOF_NODE_HEX_LEN <? len)) 34 ;; Ok len.

(* StorageProofVisitor::visit_seq.  [rest] = elements not yet consumed, [out_len] = out.len(),
   [total] = total_bytes.
     while out.len() < MAX_STORAGE_PROOF_NODES { next_element()? else return Ok; checked_add; cap; push }
     if next_element::<IgnoredAny>()?.is_some() { Err } ; Ok *)
Fixpoint sp_visit (rest : list Z) (out_len total : Z) {struct rest} : res unit :=
  if out_len <? MAX_STORAGE_PROOF_NODES then
    match rest with
    | [] => Ok tt
    | n :: r =>
      node <-? de_node n ;;
      match checked_add total node with
      | None => Err 35
      | Some t =>
        _ <-? guard (negb (MAX_STORAGE_PROOF_HEX_BYTES <? t)) 36 ;;
        sp_visit r (out_len + 1) t
      end
    end
  else
    match rest with
    | [] => Ok tt
    | _ :: _ => Err 37
    end.

(* an empty array is both an array of strings and an array of integers *)
Definition as_strs (v : jval) : option (list Z) :=
  match v with JStrs l => Some l | JInts [] => Some [] | _ => None end.
Definition as_ints (v : jval) : option (list Z) :=
  match v with JInts l => Some l | JStrs [] => Some [] | _ => None end.

Definition de_storage_proof (v : jval) : res (list Z) :=
  match as_strs v with
  | Some lens => _ <-? sp_visit lens 0 0 ;; Ok lens
  | None => Err 38
  end.

(* BoundedSeqVisitor::visit_seq for indices (T = usize):
     while let Some(item) = seq.next_element()? { if out.len() >= max { Err } ; push } *)
Fixpoint bv_visit (rest : list Z) (out_len : Z) {struct rest} : res unit :=
  match rest with
  | [] => Ok tt
  | x :: r =>
    _ <-? guard (is_u64 x) 39 ;;
    _ <-? guard (negb (MAX_MERKLE_INDICES <=? out_len)) 40 ;;
    bv_visit r (out_len + 1)
  end.

Definition de_indices (v : jval) : res (list Z) :=
  match as_ints v with
  | Some vals => _ <-? bv_visit vals 0 ;; Ok vals
  | None => Err 41
  end.

(* ---------------------------------------------------------------- derive(Deserialize) for the 4-field struct
   visit_map: known key already seen -> duplicate field; known key -> run its deserializer; unknown key ->
   IgnoredAny.  After the last entry every field must have been seen. *)

Record Slots := mkSlots {
  s_tc : option Z; s_sr : option Z; s_sp : option (list Z); s_ix : option (list Z) }.

Definition no_slots : Slots := mkSlots None None None None.

Fixpoint visit_map (es : list entry) (s : Slots) {struct es} : res Slots :=
  match es with
  | [] => Ok s
  | (k, v) :: r =>
    if k =? K_TRANSFER_COUNT then
      match s_tc s with
      | Some _ => Err 50
      | None => x <-? de_u64 v ;; visit_map r (mkSlots (Some x) (s_sr s) (s_sp s) (s_ix s))
      end
    else if k =? K_STATE_ROOT then
      match s_sr s with
      | Some _ => Err 50
      | None => x <-? de_state_root v ;; visit_map r (mkSlots (s_tc s) (Some x) (s_sp s) (s_ix s))
      end
    else if k =? K_STORAGE_PROOF then
      match s_sp s with
      | Some _ => Err 50
      | None => x <-? de_storage_proof v ;; visit_map r (mkSlots (s_tc s) (s_sr s) (Some x) (s_ix s))
      end
    else if k =? K_INDICES then
      match s_ix s with
      | Some _ => Err 50
      | None => x <-? de_indices v ;; visit_map r (mkSlots (s_tc s) (s_sr s) (s_sp s) (Some x))
      end
    else visit_map r s
  end.

Definition finish (s : Slots) : res Doc :=
  match s_tc s, s_sr s, s_sp s, s_ix s with
  | Some tc, Some sr, Some sp, Some ix => Ok (mkDoc tc sr sp ix)
  | _, _, _, _ => Err 51       (* missing field *)
  end.

Definition parse_obj (es : list entry) : res Doc :=
  s <-? visit_map es no_slots ;;
  finish s.

(* derive(Deserialize) also generates visit_seq, and serde_json's deserialize_struct hands a top-level
   JSON *array* to it: the elements are the fields in declaration order, through the same bounded
   visitors; fewer than four elements is invalid_length, more than four fails serde_json's end_seq. *)
Definition parse_seq (vs : list jval) : res Doc :=
  match vs with
  | [a; b; c; e] =>
    tc <-? de_u64 a ;;
    sr <-? de_state_root b ;;
    sp <-? de_storage_proof c ;;
    ix <-? de_indices e ;;
    Ok (mkDoc tc sr sp ix)
  | _ => Err 53
  end.

(* the decoded top-level value: an object (ordered members) or an array (ordered elements);
   any other top-level value is described as [wf = false] *)
Inductive top :=
| TObj (es : list entry)
| TSeq (vs : list jval).

(* serde_json::from_str::<TransferProofJsonRaw> on a text whose decoded content is (wf, t) *)
Definition serde_parse (wf : bool) (t : top) : res Doc :=
  _ <-? guard wf 52 ;;
  match t with
  | TObj es => parse_obj es
  | TSeq vs => parse_seq vs
  end.

(* TransferProofJson::from_json_str: the raw byte length is looked at first, then the text is parsed *)
Definition from_json_str (raw_len : Z) (wf : bool) (t : top) : res Doc :=
  if MAX_TRANSFER_PROOF_JSON_BYTES <? raw_len then Err E_RAW
  else match serde_parse wf t with
       | Ok d => Ok d
       | Err _ => Err E_PARSE
       end.

(* ---------------------------------------------------------------- TransferProofJson::validate *)

Fixpoint validate_nodes (nodes : list Z) (total : Z) {struct nodes} : res unit :=
  match nodes with
  | [] => Ok tt
  | n :: r =>
    _ <-? guard (negb (MAX_STORAGE_PROOF_NODE_HEX_LEN <? n)) 62 ;;
    match checked_add total n with
    | None => Err 63
    | Some t =>
      _ <-? guard (negb (MAX_STORAGE_PROOF_HEX_BYTES <? t)) 64 ;;
      validate_nodes r t
    end
  end.

Definition validate (d : Doc) : res unit :=
  _ <-? guard (negb (MAX_STATE_ROOT_HEX_LEN <? d_state_root_len d)) 60 ;;
  _ <-? guard (negb (MAX_STORAGE_PROOF_NODES <? zlen (d_nodes d))) 61 ;;
  _ <-? validate_nodes (d_nodes d) 0 ;;
  _ <-? guard (negb (MAX_MERKLE_INDICES <? zlen (d_indices d))) 65 ;;
  Ok tt.

(* ---------------------------------------------------------------- encodings for the correspondence *)

Definition enc_doc (d : Doc) : list Z :=
  [d_transfer_count d; d_state_root_len d; zlen (d_nodes d); zlen (d_indices d)] ++ d_nodes d ++ d_indices d.

Definition enc_unit (r : res unit) : Z := match r with Ok _ => 1 | Err _ => 0 end.

(* Ok d -> 1 :: validate(d) :: doc ;  Err kind -> [0; kind] *)
Definition enc_parse (r : res Doc) : list Z :=
  match r with
  | Ok d => 1 :: enc_unit (validate d) :: enc_doc d
  | Err c => if c =? PANIC then [PANIC] else [0; c]
  end.

(* head segment: [raw_len; wf; shape]  shape 0 = top-level object, 1 = top-level array (keys unused)
   entry segment: key :: type :: payload   type: 0 other, 1 int (value), 2 string (len),
   3 array of strings (lens), 4 array of ints (values) *)
Definition dec_entry (l : list Z) : entry :=
  match l with
  | k :: t :: payload =>
    (k, if t =? 1 then JInt (nth 0 payload 0)
        else if t =? 2 then JStr (nth 0 payload 0)
        else if t =? 3 then JStrs payload
        else if t =? 4 then JInts payload
        else JOther)
  | _ => (0, JOther)
  end.

(* directly constructed struct: [transfer_count; state_root.len(); indices.len()] ; node lens *)
Definition json_dispatch (fid : Z) (args : list (list Z)) : list Z :=
  if fid =? 3501 then
    match args with
    | hd :: es =>
      let t := if nth 2 hd 0 =? 0 then TObj (map dec_entry es) else TSeq (map (fun l => snd (dec_entry l)) es) in
      enc_parse (from_json_str (nth 0 hd 0) (negb (nth 1 hd 0 =? 0)) t)
    | [] => [-2]
    end
  else if fid =? 3502 then
    match args with
    | hd :: nodes :: ix :: _ => [enc_unit (validate (mkDoc (nth 0 hd 0) (nth 1 hd 0) nodes ix))]
    | _ => [-2]
    end
  else [-2].
