(* Executable model of the artifact loaders (C17).

     wormhole/verifier/src/lib.rs            read_artifact_file, WormholeVerifier::new_from_bytes / new_from_files
     wormhole/aggregator/src/common/utils.rs read_artifact_file, ensure_artifact_bytes_match_canonical,
                                             load_canonical_leaf_verifier_data, load_canonical_private_batch_verifier_data
     wormhole/aggregator/src/aggregator.rs   load_private_batch_verifier_from_bins, load_public_batch_verifier_from_bins,
                                             PublicBatchAggregator::with_limits
     .../private_batch/prover/lib.rs         PrivateBatchProver::new_from_bytes / new_from_files / new_from_binaries_dir
     .../public_batch/prover/lib.rs          PublicBatchProver::new_from_bytes / new_from_files / new_from_binaries_dir
     .../private_batch/circuit/build.rs      generate_private_batch_circuit_binaries (the reads and the leaf pin)
     .../public_batch/circuit/build.rs       generate_public_batch_circuit_binaries  (the reads and the private-batch pin)

   Byte strings are lists of Z (0..255).  A loader returns its result TOGETHER WITH THE LOG OF WHAT IT
   TOUCHED ([EvStat id] = metadata of file [id] was asked for, [EvRead id] = file [id] was opened and
   read, [EvHash k] = input [k] was keccak-hashed), so that "rejected before being read or hashed" and
   "no prover ever reads a prover artifact" are statements about the model (C17.v) and observations
   about the implementation (strace of the real loaders, harness/src/bin/loaders.rs).

   External behaviour is a Section variable, never an axiom: keccak256, the canonical serialisations
   produced by a fresh rebuild of the circuits, plonky2's (de)serialisers, the dummy-template
   validators, the JSON parser of config.json. *)
From V.Base Require Import Common.
From V.Generated Require Import Constants.
From V.Sys Require Parsers.

Definition E_SIZE : Z := 2.   (* "... exceeds the ... byte limit"            *)
Definition E_PIN : Z := 3.    (* "... does not match the canonical ..."      *)
Definition E_OTHER : Z := 4.  (* io error, undecodable, bad template, bad count *)

Definition bytes := list Z.

(* ---------------------------------------------------------------- effect log *)
Inductive ev := EvStat (id : Z) | EvRead (id : Z) | EvHash (id : Z).
Definition ev_id (e : ev) : Z := match e with EvStat i => i | EvRead i => i | EvHash i => i end.
Definition is_hash (e : ev) : bool := match e with EvHash _ => true | _ => false end.
Definition is_read (e : ev) : bool := match e with EvRead _ => true | _ => false end.

Definition L (A : Type) : Type := (list ev * res A)%type.
Definition trace {A} (m : L A) : list ev := fst m.
Definition result {A} (m : L A) : res A := snd m.
Definition lret {A} (a : A) : L A := ([], Ok a).
Definition lfail {A} (c : Z) : L A := ([], Err c).
Definition lbind {A B} (m : L A) (f : A -> L B) : L B :=
  match snd m with
  | Ok a => (fst m ++ fst (f a), snd (f a))
  | Err c => (fst m, Err c)
  end.
Notation "x <-! m ;; k" := (lbind m (fun x => k)) (at level 61, m at next level, right associativity).
Definition emit (e : ev) : L unit := ([e], Ok tt).
Definition lift {A} (r : res A) : L A := ([], r).
Definition lguard (b : bool) (c : Z) : L unit := lift (guard b c).
Definition of_opt {A} (o : option A) (c : Z) : res A := match o with Some a => Ok a | None => Err c end.

(* ---------------------------------------------------------------- files and directories *)
(* [f_len] is what the metadata claims (a sparse file claims a huge length at no cost), [f_bytes] what a
   read returns.  A directory maps file-name ids to files; [None] = no such file. *)
Record file := mkFile { f_len : Z; f_bytes : bytes }.
Definition dir := Z -> option file.

Definition F_COMMON : Z := 0.        (* common.bin                     *)
Definition F_VERIFIER : Z := 1.      (* verifier.bin                   *)
Definition F_DUMMY : Z := 2.         (* dummy_proof.bin                *)
Definition F_PB_COMMON : Z := 3.     (* private_batch_common.bin       *)
Definition F_PB_VERIFIER : Z := 4.   (* private_batch_verifier.bin     *)
Definition F_PB_DUMMY : Z := 5.      (* dummy_private_batch_proof.bin  *)
Definition F_PUB_COMMON : Z := 6.    (* public_batch_common.bin        *)
Definition F_PUB_VERIFIER : Z := 7.  (* public_batch_verifier.bin      *)
Definition F_CONFIG : Z := 8.        (* config.json                    *)
Definition F_PROVER : Z := 9.        (* prover.bin                     *)
Definition F_PB_PROVER : Z := 10.    (* private_batch_prover.bin       *)
Definition F_PUB_PROVER : Z := 11.   (* public_batch_prover.bin        *)
(* ids >= 12: any other file name *)
Definition is_prover_id (i : Z) : bool := (i =? F_PROVER) || (i =? F_PB_PROVER) || (i =? F_PUB_PROVER).

(* read_artifact_file (both crates): stat, compare the claimed length with the cap, only then read *)
Definition read_artifact_file (cap : Z) (id : Z) (d : dir) : L bytes :=
  _ <-! emit (EvStat id) ;;
  match d id with
  | None => lfail E_OTHER
  | Some f =>
    _ <-! lguard (f_len f <=? cap) E_SIZE ;;
    _ <-! emit (EvRead id) ;;
    lret (f_bytes f)
  end.

Definition count_ok (n : Z) : res unit :=
  match Parsers.validate_proof_count n with Ok _ => Ok tt | Err _ => Err E_OTHER end.

(* ================================================================ verifier crate *)
Section Verifier.
  Variable keccak : bytes -> bytes.
  Variables pin_v pin_c : bytes.             (* CANONICAL_LEAF_VERIFIER_KECCAK256 / CANONICAL_LEAF_COMMON_KECCAK256 *)
  (* deserialisation of both artifacts + ensure_loaded_matches_canonical_leaf_profile *)
  Variable decode_ok : bytes -> bytes -> bool.

  Definition HV : Z := 0.  (* the verifier-only input *)
  Definition HC : Z := 1.  (* the common input        *)

  Definition verifier_new_from_bytes (v c : bytes) : L unit :=
    _ <-! lguard (zlen v <=? MAX_VERIFIER_ARTIFACT_BYTES) E_SIZE ;;
    _ <-! lguard (zlen c <=? MAX_VERIFIER_ARTIFACT_BYTES) E_SIZE ;;
    _ <-! emit (EvHash HV) ;;
    _ <-! lguard (list_eqb (keccak v) pin_v) E_PIN ;;
    _ <-! emit (EvHash HC) ;;
    _ <-! lguard (list_eqb (keccak c) pin_c) E_PIN ;;
    _ <-! lguard (decode_ok v c) E_OTHER ;;
    lret tt.

  Definition verifier_new_from_files (d : dir) (idv idc : Z) : L unit :=
    v <-! read_artifact_file MAX_VERIFIER_ARTIFACT_BYTES idv d ;;
    c <-! read_artifact_file MAX_VERIFIER_ARTIFACT_BYTES idc d ;;
    verifier_new_from_bytes v c.
End Verifier.

(* ================================================================ aggregator crate *)
Section Aggregator.
  (* serialisations of a fresh rebuild of the canonical circuits *)
  Variables leaf_c leaf_v : bytes.                    (* common / verifier-only of the canonical leaf *)
  Variable canon_pb : Z -> bytes * bytes.             (* private batch for n leaves: (common, verifier-only) *)
  Variable canon_pub : Z -> Z -> bytes * bytes.       (* public batch for (m, n) *)
  (* plonky2: from_bytes followed by to_bytes; None = does not deserialise *)
  Variables reser_c reser_v : bytes -> option bytes.
  Variable cfg_ok : bytes -> bool.                    (* the decoded common data carries the canonical config *)
  Variable leaf_template_ok : bytes -> bool.          (* load_dummy_proof + verify_dummy_leaf_template *)
  Variable pb_template_ok : Z -> bytes -> bool.       (* from_bytes + verify_dummy_private_batch_template *)
  Variable parse_config : bytes -> option (Z * option Z).  (* config.json -> (num_leaf_proofs, num_private_batch_proofs) *)

  Definition CAP : Z := MAX_ARTIFACT_FILE_BYTES.

  (* ensure_artifact_bytes_match_canonical: raw byte equality, common first *)
  Definition ensure_bytes_match (common vo cc cv : bytes) : res unit :=
    _ <-? guard (list_eqb common cc) E_PIN ;;
    _ <-? guard (list_eqb vo cv) E_PIN ;;
    Ok tt.

  Definition load_canonical_leaf (common vo : bytes) : res unit :=
    ensure_bytes_match common vo leaf_c leaf_v.

  (* the canonical rebuild (PrivateBatchCircuit::new) refuses an out-of-range count first *)
  Definition load_canonical_private_batch (common vo : bytes) (n : Z) : res unit :=
    _ <-? count_ok n ;;
    ensure_bytes_match common vo (fst (canon_pb n)) (snd (canon_pb n)).

  (* load_public_batch_verifier_from_bins: deserialise, then compare config and RE-serialisation *)
  Definition load_public_batch (d : dir) (m n : Z) : L unit :=
    c <-! read_artifact_file CAP F_PUB_COMMON d ;;
    v <-! read_artifact_file CAP F_PUB_VERIFIER d ;;
    rc <-! lift (of_opt (reser_c c) E_OTHER) ;;
    rv <-! lift (of_opt (reser_v v) E_OTHER) ;;
    _ <-! lift (count_ok m) ;;
    _ <-! lift (count_ok n) ;;
    _ <-! lguard (cfg_ok c) E_PIN ;;
    _ <-! lguard (list_eqb rc (fst (canon_pub m n))) E_PIN ;;
    _ <-! lguard (list_eqb rv (snd (canon_pub m n))) E_PIN ;;
    lret tt.

  (* CircuitBinsConfig::load *)
  Definition load_config (d : dir) : L (Z * option Z) :=
    b <-! read_artifact_file CAP F_CONFIG d ;;
    cfg <-! lift (of_opt (parse_config b) E_OTHER) ;;
    _ <-! lift (count_ok (fst cfg)) ;;
    _ <-! lift (match snd cfg with Some m => count_ok m | None => Ok tt end) ;;
    lret cfg.

  (* PrivateBatchProver::new_from_binaries_dir -> new_from_files -> new_from_bytes *)
  Definition private_prover_from_dir (d : dir) : L unit :=
    cfg <-! load_config d ;;
    common <-! read_artifact_file CAP F_COMMON d ;;
    vo <-! read_artifact_file CAP F_VERIFIER d ;;
    dp <-! read_artifact_file CAP F_DUMMY d ;;
    _ <-! lift (count_ok (fst cfg)) ;;
    _ <-! lift (load_canonical_leaf common vo) ;;
    _ <-! lguard (leaf_template_ok dp) E_OTHER ;;
    lret tt.

  (* PublicBatchProver::new_from_binaries_dir -> new_from_files -> new_from_bytes *)
  Definition public_prover_from_dir (d : dir) : L unit :=
    cfg <-! load_config d ;;
    m <-! lift (of_opt (snd cfg) E_OTHER) ;;
    common <-! read_artifact_file CAP F_PB_COMMON d ;;
    vo <-! read_artifact_file CAP F_PB_VERIFIER d ;;
    dp <-! read_artifact_file CAP F_PB_DUMMY d ;;
    _ <-! lift (count_ok (fst cfg)) ;;
    _ <-! lift (count_ok m) ;;
    _ <-! lift (load_canonical_private_batch common vo (fst cfg)) ;;
    _ <-! lguard (pb_template_ok (fst cfg) dp) E_OTHER ;;
    lret tt.

  (* PublicBatchAggregator::with_limits (everything a ProvingContext is later built from) *)
  Definition aggregator_new (d : dir) : L unit :=
    cfg <-! load_config d ;;
    m <-! lift (of_opt (snd cfg) E_OTHER) ;;
    common <-! read_artifact_file CAP F_PB_COMMON d ;;
    vo <-! read_artifact_file CAP F_PB_VERIFIER d ;;
    _ <-! lift (load_canonical_private_batch common vo (fst cfg)) ;;
    _ <-! load_public_batch d m (fst cfg) ;;
    dp <-! read_artifact_file CAP F_PB_DUMMY d ;;
    _ <-! lguard (pb_template_ok (fst cfg) dp) E_OTHER ;;
    lret tt.

  (* generate_private_batch_circuit_binaries(dir, n, include_prover = false): what it loads *)
  Definition gen_private_batch (d : dir) (n : Z) : L unit :=
    _ <-! lift (count_ok n) ;;
    common <-! read_artifact_file CAP F_COMMON d ;;
    vo <-! read_artifact_file CAP F_VERIFIER d ;;
    _ <-! lift (load_canonical_leaf common vo) ;;
    lret tt.

  (* generate_public_batch_circuit_binaries(dir, m, n): what it loads *)
  Definition gen_public_batch (d : dir) (m n : Z) : L unit :=
    _ <-! lift (count_ok m) ;;
    _ <-! lift (count_ok n) ;;
    common <-! read_artifact_file CAP F_PB_COMMON d ;;
    vo <-! read_artifact_file CAP F_PB_VERIFIER d ;;
    _ <-! lift (load_canonical_private_batch common vo n) ;;
    lret tt.

  (* wormhole_prover::build_fresh / WormholeProver::new: the leaf prover is built from source *)
  Definition leaf_prover_new : L unit := lret tt.
End Aggregator.

(* ---------------------------------------------------------------- canonical encodings *)
Definition enc_class {A} (r : res A) : list Z :=
  match r with Ok _ => [1] | Err c => [0; c] end.
Definition enc_ev (e : ev) : Z :=
  match e with EvStat i => 100 + i | EvRead i => 200 + i | EvHash i => 300 + i end.
