(* Proofs about the prover-side model of leaf proving (model: LeafProver.v; circuit: Circ/Leaf.v with
   Circ/LeafProofs.v).

   [fill] never panics and fails exactly on an over-deep path, a positions/siblings length mismatch or
   a position above 3.  For every well-formed honest input the filled assignment is well-formed and
   satisfies the acceptance condition [leaf_ok] of the leaf circuit, so honest witness generation
   succeeds with the 21 public inputs [layout21 x], which parse back to the statement.  The
   cryptographic step (a satisfying witness yields a proof the pinned verifier accepts) is not
   modelled here; the correspondence harness checks it on every case. *)
From Coq Require Import ZArith Lia List Bool.
From V.Base Require Import Common.
From V.Generated Require Import Constants.
From V.Circ Require Import Field Core Prims Gadgets GadgetsProofs Leaf LeafProofs.
From V.Sys Require Import Parsers ParsersProofs LeafProver.
Import ListNotations.
Open Scope Z_scope.
(* mathcomp.zify (loaded through Base/Flt.v) resets the hook; set it again after all imports *)
Ltac Zify.zify_post_hook ::= Z.div_mod_to_equations.

Lemma inputs_order_pin : INPUTS_GOLDILOCKS_ORDER = p. Proof. reflexivity. Qed.
Lemma leaf_pi_len_pin : LEAF_PI_LEN = 21. Proof. reflexivity. Qed.

(* ---------- well-formed caller inputs ---------- *)
Record wf_x (x : ProverIn) : Prop := mk_wf_x {
  wx_asset : 0 <= x_asset x < 2 ^ 32;
  wx_out1 : 0 <= x_out1 x < 2 ^ 32;
  wx_out2 : 0 <= x_out2 x < 2 ^ 32;
  wx_fee : 0 <= x_fee x < 2 ^ 32;
  wx_input_amount : 0 <= x_input_amount x < 2 ^ 32;
  wx_block_number : 0 <= x_block_number x < 2 ^ 32;
  wx_transfer_count : 0 <= x_transfer_count x < 2 ^ 64;
  wx_nullifier : wf_list 4 (x_nullifier x);
  wx_exit1 : wf_list 4 (x_exit1 x);
  wx_exit2 : wf_list 4 (x_exit2 x);
  wx_block_hash : wf_list 4 (x_block_hash x);
  wx_secret : wf_list 4 (x_secret x);
  wx_unspendable_account : wf_list 4 (x_unspendable_account x);
  wx_parent_hash : wf_list 4 (x_parent_hash x);
  wx_state_root : wf_list 4 (x_state_root x);
  wx_extrinsics_root : wf_list 4 (x_extrinsics_root x);
  wx_tree_root : wf_list 4 (x_tree_root x);
  wx_digest : wf_list (Z.to_nat DIGEST_LOGS_FELTS) (x_digest x);
  wx_siblings : Forall wf_level (x_siblings x)
}.

Definition wf_xb (x : ProverIn) : bool :=
  forallb is_u32 [x_asset x; x_out1 x; x_out2 x; x_fee x; x_input_amount x; x_block_number x] &&
  is_u64 (x_transfer_count x) &&
  forallb (wf_listb 4) [x_nullifier x; x_exit1 x; x_exit2 x; x_block_hash x; x_secret x;
                        x_unspendable_account x; x_parent_hash x; x_state_root x; x_extrinsics_root x;
                        x_tree_root x] &&
  wf_listb (Z.to_nat DIGEST_LOGS_FELTS) (x_digest x) &&
  forallb wf_levelb (x_siblings x).

Lemma is_u32_pow x : is_u32 x = true <-> 0 <= x < 2 ^ 32.
Proof. unfold is_u32. rewrite andb_true_iff, Z.leb_le, Z.ltb_lt. change two32 with (2 ^ 32). tauto. Qed.
Lemma is_u64_pow x : is_u64 x = true <-> 0 <= x < 2 ^ 64.
Proof. unfold is_u64. rewrite andb_true_iff, Z.leb_le, Z.ltb_lt. change two64 with (2 ^ 64). tauto. Qed.

Lemma wf_xb_sound x : wf_xb x = true -> wf_x x.
Proof.
  unfold wf_xb. rewrite !andb_true_iff. intros [[[[S T] L4] D] Sb].
  cbn [forallb] in S, L4. rewrite !andb_true_iff, !is_u32_pow in S.
  rewrite !andb_true_iff, !wf_listb_spec in L4. apply is_u64_pow in T. apply wf_listb_spec in D.
  apply (forallb_Forall_iff wf_levelb wf_level _ wf_levelb_spec) in Sb.
  constructor; tauto.
Qed.

(* ---------- honest inputs ---------- *)
Definition x_leaf_preimage (x : ProverIn) : list Z :=
  x_unspendable_account x ++ tc_limbs (x_transfer_count x) ++ [x_asset x; x_input_amount x].
Definition x_header_preimage (x : ProverIn) : list Z :=
  x_parent_hash x ++ [x_block_number x] ++ x_state_root x ++ x_extrinsics_root x ++ x_tree_root x
  ++ x_digest x.
Definition x_dummy_stmt (x : ProverIn) : Prop :=
  x_block_hash x = [0; 0; 0; 0] /\ x_out1 x = 0 /\ x_out2 x = 0.

Record honest (H : list Z -> list Z) (x : ProverIn) : Prop := mk_honest {
  hx_depth : (length (x_siblings x) <= 16)%nat;
  hx_positions_len : length (x_positions x) = length (x_siblings x);
  hx_positions : Forall (fun q => 0 <= q <= 3) (x_positions x);
  hx_fee : x_fee x <= 10000;
  hx_rule : (x_out1 x + x_out2 x) * 10000 <= x_input_amount x * (10000 - x_fee x);
  hx_account : x_unspendable_account x = H (H (UNSPENDABLE_SALT_FELTS ++ x_secret x));
  hx_bindings : ~ x_dummy_stmt x ->
    x_nullifier x = H (H (NULLIFIER_SALT_FELTS ++ x_secret x ++ tc_limbs (x_transfer_count x))) /\
    x_tree_root x = fold_insert H (H (x_leaf_preimage x)) (combine (x_siblings x) (x_positions x)) /\
    x_block_hash x = H (x_header_preimage x)
}.

(* ---------- the assignment [fill] produces ---------- *)
Definition filled (x : ProverIn) : LeafIn :=
  mkLeafIn (x_asset x) (x_out1 x) (x_out2 x) (x_fee x)
           (x_unspendable_account x) (tc_limbs (x_transfer_count x)) (x_input_amount x)
           (x_tree_root x) (zlen (x_siblings x)) (if x_is_dummy x then 0 else 1)
           (pad_levels (x_siblings x)) (pad_positions (x_positions x))
           (x_nullifier x) (x_secret x) (tc_limbs (x_transfer_count x))
           (x_unspendable_account x) (x_secret x)
           (x_exit1 x) (x_exit2 x)
           (x_block_hash x) (x_parent_hash x) (x_block_number x) (x_state_root x) (x_extrinsics_root x)
           (x_tree_root x) (x_digest x).

Ltac li_simpl :=
  cbn [filled li_asset li_out1 li_out2 li_fee li_to_account li_leaf_tc li_input_amount li_root_hash li_depth
       li_is_not_dummy li_siblings li_positions li_nullifier li_null_secret li_null_tc li_unsp_account
       li_unsp_secret li_exit1 li_exit2 li_block_hash li_parent_hash li_block_number li_state_root
       li_extrinsics_root li_tree_root li_digest].

Definition fill_rejects (x : ProverIn) : Prop :=
  zlen (x_siblings x) > 16 \/ zlen (x_positions x) <> zlen (x_siblings x) \/
  Exists (fun q => q > 3) (x_positions x).

Lemma forallb_false_Exists {A} (f : A -> bool) l : forallb f l = false -> Exists (fun a => f a = false) l.
Proof.
  induction l as [|a l IH]; cbn [forallb]; [discriminate|].
  destruct (f a) eqn:E; cbn [andb]; intros R; [right; apply IH; exact R|left; exact E].
Qed.

Lemma positions_le3_iff ps : forallb (fun q => q <=? 3) ps = true <-> ~ Exists (fun q => q > 3) ps.
Proof.
  rewrite (forallb_Forall_iff (fun q => q <=? 3) (fun q => q <= 3) ps) by (intros q; apply Z.leb_le).
  rewrite <- Forall_Exists_neg. split; intros F; eapply Forall_impl; try exact F; cbv beta; intros; lia.
Qed.

(* fill either returns the assignment [filled x] or one of the error codes 1, 2, 3 *)
Lemma fill_cases x :
  (~ fill_rejects x /\ fill x = Ok (filled x)) \/
  (fill_rejects x /\ (fill x = Err 1 \/ fill x = Err 2 \/ fill x = Err 3)).
Proof.
  unfold fill, fill_rejects. change MERKLE_MAX_DEPTH with 16.
  destruct (Z.leb_spec (zlen (x_siblings x)) 16) as [L1|L1]; cbn [guard rbind].
  2:{ right. split; [left; lia|left; reflexivity]. }
  destruct (Z.eqb_spec (zlen (x_positions x)) (zlen (x_siblings x))) as [L2|L2]; cbn [guard rbind].
  2:{ right. split; [right; left; exact L2|right; left; reflexivity]. }
  destruct (forallb (fun q => q <=? 3) (x_positions x)) eqn:L3; cbn [guard rbind].
  - left. split; [|reflexivity]. apply positions_le3_iff in L3. intros [R|[R|R]]; [lia|contradiction|contradiction].
  - right. split; [|right; right; reflexivity]. right; right.
    apply forallb_false_Exists in L3. eapply Exists_impl; [|exact L3]. cbv beta. intros q Hq.
    apply Z.leb_gt in Hq. lia.
Qed.

Theorem fill_rejects_iff x : (exists c, fill x = Err c) <-> fill_rejects x.
Proof.
  destruct (fill_cases x) as [[N E]|[R E]].
  - split; [intros [c Ec]; rewrite E in Ec; discriminate Ec|intros R; contradiction].
  - split; [intros _; exact R|intros _]. destruct E as [E|[E|E]]; eexists; exact E.
Qed.

Theorem fill_no_panic x : fill x <> Err (-1).
Proof.
  destruct (fill_cases x) as [[_ E]|[_ [E|[E|E]]]]; rewrite E; discriminate.
Qed.

Theorem fill_ok_inv x i : fill x = Ok i -> i = filled x.
Proof.
  destruct (fill_cases x) as [[_ E]|[_ [E|[E|E]]]]; rewrite E; intros Q; inversion Q; reflexivity.
Qed.

(* ---------- whatever is proved exposes exactly the statement ---------- *)
Lemma hon_leaf_output H i pis : hon H (leaf_circuit i) = Some pis -> pis = leaf_public_inputs i.
Proof.
  unfold leaf_circuit. cbn [hon]. destruct (_ =? 0); [|discriminate].
  do 4 (rewrite hon_bind; match goal with |- context [match ?c with Some _ => _ | None => None end] =>
                             destruct c; [|discriminate] end).
  cbn [hon]. intros E. inversion E. reflexivity.
Qed.

Lemma filled_public_inputs x : leaf_public_inputs (filled x) = layout21 x.
Proof. reflexivity. Qed.

Theorem dishonest_fails H x i pis : fill x = Ok i -> hon H (leaf_circuit i) = Some pis -> pis = layout21 x.
Proof.
  intros F E. apply fill_ok_inv in F. subst i. apply hon_leaf_output in E. rewrite E. apply filled_public_inputs.
Qed.

(* ---------- padding ---------- *)
Lemma combine_app_eq {A B} (a1 a2 : list A) (b1 b2 : list B) : length a1 = length b1 ->
  combine (a1 ++ a2) (b1 ++ b2) = combine a1 b1 ++ combine a2 b2.
Proof.
  revert b1; induction a1 as [|a a1 IH]; intros [|b b1] L; cbn [length] in L; try discriminate; [reflexivity|].
  cbn [app combine]. rewrite IH by lia. reflexivity.
Qed.

Lemma firstn_padded s ps : length ps = length s ->
  firstn (Z.to_nat (zlen s)) (combine (pad_levels s) (pad_positions ps)) = combine s ps.
Proof.
  intros L. unfold zlen, pad_levels, pad_positions. rewrite Nat2Z.id, combine_app_eq by congruence.
  replace (length s) with (length (combine s ps) + 0)%nat at 1 by (rewrite combine_length; lia).
  rewrite firstn_app_2. cbn [firstn]. apply app_nil_r.
Qed.

Lemma zero_level_wf : wf_level [[0; 0; 0; 0]; [0; 0; 0; 0]; [0; 0; 0; 0]].
Proof.
  assert (Z4 : wf_list 4 [0; 0; 0; 0]) by (split; [reflexivity|repeat constructor; apply canon_0]).
  split; [reflexivity|]. do 3 (constructor; [exact Z4|]). constructor.
Qed.

Lemma Forall_repeat {A} (P : A -> Prop) a n : P a -> Forall P (repeat a n).
Proof. intros Pa. induction n; cbn [repeat]; constructor; assumption. Qed.

Lemma tc_limbs_wf tc : 0 <= tc < 2 ^ 64 ->
  wf_list 2 (tc_limbs tc) /\ Forall (fun v => v < 2 ^ 32) (tc_limbs tc).
Proof.
  intros Htc. change (2 ^ 64) with 18446744073709551616 in Htc. unfold tc_limbs, wf_list.
  change (2 ^ 32) with 4294967296.
  assert (B1 : 0 <= tc / two32 < 4294967296) by (unfold two32; lia).
  assert (B2 : 0 <= tc mod two32 < 4294967296) by (unfold two32; lia).
  split; [split; [reflexivity|]|]; repeat constructor; unfold canon, p; lia.
Qed.

Lemma canon_u32p v : 0 <= v < 2 ^ 32 -> canon v.
Proof. change (2 ^ 32) with 4294967296. unfold canon, p. lia. Qed.

Section Complete.
  Variable H : list Z -> list Z.
  Hypothesis Hwf : hash_wf H.
  Variable x : ProverIn.
  Hypothesis Wx : wf_x x.
  Hypothesis Hx : honest H x.

  Lemma honest_not_rejected : ~ fill_rejects x.
  Proof.
    pose proof (hx_depth H x Hx) as D. pose proof (hx_positions_len H x Hx) as L.
    pose proof (hx_positions H x Hx) as P. unfold fill_rejects, zlen.
    intros [R|[R|R]]; [lia|lia|]. apply Exists_exists in R. destruct R as (q & Iq & Hq).
    rewrite Forall_forall in P. specialize (P q Iq). lia.
  Qed.

  Lemma fill_honest : fill x = Ok (filled x).
  Proof. destruct (fill_cases x) as [[_ E]|[R _]]; [exact E|exfalso; exact (honest_not_rejected R)]. Qed.

  Lemma filled_wf : wf_in (filled x).
  Proof.
    pose proof (hx_depth H x Hx) as D. pose proof (hx_positions_len H x Hx) as L.
    pose proof (hx_positions H x Hx) as P.
    destruct (tc_limbs_wf _ (wx_transfer_count x Wx)) as [Wtc _].
    constructor; li_simpl;
      try (apply canon_u32p; first [exact (wx_asset x Wx)|exact (wx_out1 x Wx)|exact (wx_out2 x Wx)
                                   |exact (wx_fee x Wx)|exact (wx_input_amount x Wx)
                                   |exact (wx_block_number x Wx)]);
      try exact Wtc;
      try first [exact (wx_nullifier x Wx)|exact (wx_exit1 x Wx)|exact (wx_exit2 x Wx)
                |exact (wx_block_hash x Wx)|exact (wx_secret x Wx)|exact (wx_unspendable_account x Wx)
                |exact (wx_parent_hash x Wx)|exact (wx_state_root x Wx)|exact (wx_extrinsics_root x Wx)
                |exact (wx_tree_root x Wx)|exact (wx_digest x Wx)].
    - unfold zlen, canon, p. lia.
    - destruct (x_is_dummy x); [apply canon_0|apply canon_1].
    - unfold pad_levels. change (Z.to_nat MERKLE_MAX_DEPTH) with 16%nat. split.
      + rewrite app_length, repeat_length. lia.
      + apply Forall_app. split; [exact (wx_siblings x Wx)|apply Forall_repeat; exact zero_level_wf].
    - unfold pad_positions. change (Z.to_nat MERKLE_MAX_DEPTH) with 16%nat. split.
      + rewrite app_length, repeat_length. lia.
      + apply Forall_app. split; [|apply Forall_repeat; apply canon_0].
        eapply Forall_impl; [|exact P]. cbv beta. intros q Hq. unfold canon, p. lia.
  Qed.

  Lemma filled_is_dummy : is_dummy_stmt (filled x) = x_is_dummy x.
  Proof.
    unfold is_dummy_stmt, x_is_dummy, at4. li_simpl.
    destruct (wx_block_hash x Wx) as [L _].
    destruct (x_block_hash x) as [|b0 [|b1 [|b2 [|b3 [|? ?]]]]]; try discriminate L.
    cbn [nth list_eqb]. rewrite andb_true_r, !andb_assoc. reflexivity.
  Qed.

  Lemma filled_not_dummy : is_dummy_stmt (filled x) = false -> ~ x_dummy_stmt x.
  Proof.
    intros D N. assert (T : is_dummy_stmt (filled x) = true); [|congruence].
    apply is_dummy_stmt_spec; [exact (proj1 (wx_block_hash x Wx))|exact N].
  Qed.

  Lemma filled_ok : leaf_ok H (filled x).
  Proof.
    pose proof (hx_depth H x Hx) as D. pose proof (hx_positions_len H x Hx) as L.
    pose proof (hx_positions H x Hx) as P.
    destruct (tc_limbs_wf _ (wx_transfer_count x Wx)) as [_ Rtc].
    unfold leaf_ok. rewrite filled_is_dummy.
    split; [|split; [|split; [|split; [|split]]]].
    - li_simpl. pose proof (wx_asset x Wx). pose proof (wx_out1 x Wx). pose proof (wx_out2 x Wx).
      pose proof (wx_input_amount x Wx). pose proof (wx_block_number x Wx). tauto.
    - li_simpl. split; [exact (hx_fee H x Hx)|exact (hx_rule H x Hx)].
    - li_simpl. split; [unfold zlen; change MERKLE_MAX_DEPTH with 16; lia|].
      unfold pad_positions. apply Forall_app. split.
      + eapply Forall_impl; [|exact P]. cbv beta. intros q Hq. lia.
      + apply Forall_repeat. lia.
    - li_simpl. reflexivity.
    - li_simpl. rewrite <- (hx_account H x Hx). tauto.
    - rewrite <- filled_is_dummy. intros Dm. apply filled_not_dummy in Dm.
      destruct (hx_bindings H x Hx Dm) as (N & T & B).
      unfold merkle_root, leaf_preimage, leaf_levels, header_preimage. li_simpl.
      rewrite firstn_padded by exact L.
      split; [exact N|]. split; [exact B|]. split; [reflexivity|]. symmetry. exact T.
  Qed.

  Theorem complete :
    exists i, fill x = Ok i /\ hon H (leaf_circuit i) = Some (layout21 x) /\ prove_outcome H x = 1 :: layout21 x.
  Proof.
    exists (filled x).
    assert (E : hon H (leaf_circuit (filled x)) = Some (layout21 x)).
    { rewrite <- filled_public_inputs. apply (hon_leaf_iff H Hwf (filled x) filled_wf). exact filled_ok. }
    split; [exact fill_honest|]. split; [exact E|].
    unfold prove_outcome. rewrite fill_honest, E. reflexivity.
  Qed.
End Complete.

(* ---------- the public inputs: order, length, and they parse back to the statement ---------- *)
Definition statement (x : ProverIn) : LeafPI :=
  mkLeafPI (x_asset x) (x_out1 x) (x_out2 x) (x_fee x) (x_nullifier x) (x_exit1 x) (x_exit2 x)
           (x_block_hash x) (x_block_number x).

Lemma layout21_order x :
  layout21 x = [x_asset x; x_out1 x; x_out2 x; x_fee x] ++ x_nullifier x ++ x_exit1 x ++ x_exit2 x
               ++ x_block_hash x ++ [x_block_number x].
Proof. reflexivity. Qed.

Lemma layout21_length x : wf_x x -> length (layout21 x) = 21%nat.
Proof.
  intros W. unfold layout21. rewrite !app_length.
  rewrite (proj1 (wx_nullifier x W)), (proj1 (wx_exit1 x W)), (proj1 (wx_exit2 x W)),
    (proj1 (wx_block_hash x W)). reflexivity.
Qed.

Lemma digest_at_4 a b c d (pre post : list Z) n : length pre = n ->
  canon a -> canon b -> canon c -> canon d -> digest_at (pre ++ a :: b :: c :: d :: post) n.
Proof.
  intros L Ca Cb Cc Cd k Hk. unfold at_. subst n.
  rewrite app_nth2 by lia. replace (length pre + k - length pre)%nat with k by lia.
  destruct k as [|[|[|[|k]]]]; cbn [nth]; try assumption. lia.
Qed.

Theorem parse_back x : wf_x x -> parse_leaf_u64 (layout21 x) = Ok (statement x).
Proof.
  intros W. apply leaf_accept_iff.
  destruct (wx_nullifier x W) as [Ln Fn]. destruct (wx_exit1 x W) as [L1 F1].
  destruct (wx_exit2 x W) as [L2 F2]. destruct (wx_block_hash x W) as [Lb Fb].
  pose proof (wx_asset x W) as Ua. pose proof (wx_out1 x W) as Uo1. pose proof (wx_out2 x W) as Uo2.
  pose proof (wx_fee x W) as Uf. pose proof (wx_block_number x W) as Ub.
  change (2 ^ 32) with two32 in Ua, Uo1, Uo2, Uf, Ub.
  unfold layout21, statement.
  destruct (x_nullifier x) as [|n0 [|n1 [|n2 [|n3 [|? ?]]]]]; try discriminate Ln.
  destruct (x_exit1 x) as [|e0 [|e1 [|e2 [|e3 [|? ?]]]]]; try discriminate L1.
  destruct (x_exit2 x) as [|g0 [|g1 [|g2 [|g3 [|? ?]]]]]; try discriminate L2.
  destruct (x_block_hash x) as [|b0 [|b1 [|b2 [|b3 [|? ?]]]]]; try discriminate Lb.
  inversion Fn as [|? ? Cn0 Fn1]; subst. inversion Fn1 as [|? ? Cn1 Fn2]; subst.
  inversion Fn2 as [|? ? Cn2 Fn3]; subst. inversion Fn3 as [|? ? Cn3 _]; subst.
  inversion F1 as [|? ? Ce0 F11]; subst. inversion F11 as [|? ? Ce1 F12]; subst.
  inversion F12 as [|? ? Ce2 F13]; subst. inversion F13 as [|? ? Ce3 _]; subst.
  inversion F2 as [|? ? Cg0 F21]; subst. inversion F21 as [|? ? Cg1 F22]; subst.
  inversion F22 as [|? ? Cg2 F23]; subst. inversion F23 as [|? ? Cg3 _]; subst.
  inversion Fb as [|? ? Cb0 Fb1]; subst. inversion Fb1 as [|? ? Cb1 Fb2]; subst.
  inversion Fb2 as [|? ? Cb2 Fb3]; subst. inversion Fb3 as [|? ? Cb3 _]; subst.
  cbn [app]. split; [|reflexivity].
  unfold wf_leaf, u32_at, at_, is_u32P. cbn [nth length].
  split; [reflexivity|]. repeat (split; [assumption|]).
  split; [apply (digest_at_4 n0 n1 n2 n3 [_; _; _; _] _ 4 eq_refl); assumption|].
  split; [apply (digest_at_4 e0 e1 e2 e3 [_; _; _; _; _; _; _; _] _ 8 eq_refl); assumption|].
  split; [apply (digest_at_4 g0 g1 g2 g3 [_; _; _; _; _; _; _; _; _; _; _; _] _ 12 eq_refl); assumption|].
  split; [apply (digest_at_4 b0 b1 b2 b3 [_; _; _; _; _; _; _; _; _; _; _; _; _; _; _; _] _ 16 eq_refl); assumption|].
  assumption.
Qed.

(* ---------- a concrete honest input (depth 1) over the oracle H0 of LeafProofs ---------- *)
Definition ex_x_build (out1 out2 fee : Z) (positions : list Z) (nsibs : nat) : ProverIn :=
  let secret := [11; 12; 13; 14] in
  let tc := 5 * two32 + 7 in
  let asset := 0 in
  let input := 50 in
  let account := H0 (H0 (UNSPENDABLE_SALT_FELTS ++ secret)) in
  let nullifier := H0 (H0 (NULLIFIER_SALT_FELTS ++ secret ++ tc_limbs tc)) in
  let sibs := repeat ex_level0 nsibs in
  let root := fold_insert H0 (H0 (account ++ tc_limbs tc ++ [asset; input])) (combine sibs positions) in
  let parent := [21; 22; 23; 24] in
  let number := 1000 in
  let state := [31; 32; 33; 34] in
  let extr := [41; 42; 43; 44] in
  let digest := repeat 7 28 in
  let block_hash := H0 (parent ++ [number] ++ state ++ extr ++ root ++ digest) in
  mkProverIn asset out1 out2 fee nullifier [51; 52; 53; 54] [61; 62; 63; 64] block_hash number
             secret tc account parent state extr digest input root sibs positions.

Definition ex_x : ProverIn := ex_x_build 40 9 10 [2] 1.
Definition ex_x_depth0 : ProverIn := ex_x_build 40 9 10 [] 0.
Definition ex_x_bad_rule : ProverIn := ex_x_build 45 9 10 [2] 1.
Definition ex_x_deep : ProverIn := ex_x_build 40 9 10 (repeat 0 17) 17.
Definition ex_x_mismatch : ProverIn := ex_x_build 40 9 10 [2; 0] 1.
Definition ex_x_pos4 : ProverIn := ex_x_build 40 9 10 [4] 1.

Lemma ex_x_wf : wf_x ex_x.
Proof. apply wf_xb_sound. vm_compute. reflexivity. Qed.

Lemma ex_x_honest : honest H0 ex_x.
Proof.
  constructor.
  - vm_compute. lia.
  - reflexivity.
  - repeat constructor; lia.
  - vm_compute. discriminate.
  - vm_compute. discriminate.
  - vm_compute. reflexivity.
  - intros _. repeat split; vm_compute; reflexivity.
Qed.
