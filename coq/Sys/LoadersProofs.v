(* Proofs about the loader model (C17). *)
From V.Base Require Import Common.
From V.Generated Require Import Constants.
From V.Sys Require Parsers.
From V.Sys Require Import Loaders.

Local Open Scope Z_scope.

(* propositional glue that does not drag unused section variables into the proof terms (tauto does) *)
Ltac ptauto := repeat match goal with H : _ /\ _ |- _ => destruct H end; repeat split; try assumption; try reflexivity.
Ltac inl := cbn; auto 12.
(* drop every section variable the statement does not mention *)
Ltac clr := repeat match goal with x : _ |- _ => clear x end.

(* ---------------------------------------------------------------- the logging monad *)
Lemma result_lbind {A B} (m : L A) (f : A -> L B) b :
  result (lbind m f) = Ok b <-> exists a, result m = Ok a /\ result (f a) = Ok b.
Proof.
  unfold result, lbind. destruct m as [t [a|c]]; cbn [fst snd].
  - split; [intro H; exists a; split; [reflexivity|exact H]|intros (a' & E & H); inversion E; subst; exact H].
  - split; [discriminate|intros (a' & E & _); discriminate].
Qed.

Lemma result_lbind_err {A B} (m : L A) (f : A -> L B) c :
  result m = Err c -> lbind m f = (trace m, Err c).
Proof. unfold result, trace, lbind. destruct m as [t [a|c']]; cbn [fst snd]; intro E; [discriminate|congruence]. Qed.

Lemma lbind_ok {A B} (m : L A) (f : A -> L B) a :
  result m = Ok a -> lbind m f = (trace m ++ trace (f a), result (f a)).
Proof. unfold result, trace, lbind. destruct m as [t [a'|c']]; cbn [fst snd]; intro E; [congruence|discriminate]. Qed.

Lemma trace_lbind {A B} (m : L A) (f : A -> L B) :
  trace (lbind m f) = trace m ++ match result m with Ok a => trace (f a) | Err _ => [] end.
Proof. unfold trace, result, lbind. destruct m as [t [a|c]]; cbn [fst snd]; [reflexivity|rewrite app_nil_r; reflexivity]. Qed.

Lemma Forall_trace_lbind {A B} (P : ev -> Prop) (m : L A) (f : A -> L B) :
  Forall P (trace m) -> (forall a, Forall P (trace (f a))) -> Forall P (trace (lbind m f)).
Proof.
  intros Hm Hf. rewrite trace_lbind. apply Forall_app. split; [exact Hm|].
  destruct (result m); [apply Hf|constructor].
Qed.

Lemma lbind_ext {A B} (m m' : L A) (f g : A -> L B) :
  m = m' -> (forall a, f a = g a) -> lbind m f = lbind m' g.
Proof. intros -> H. unfold lbind. destruct (snd m'); [rewrite H; reflexivity|reflexivity]. Qed.

Lemma trace_lift {A} (r : res A) : trace (lift r) = []. Proof. reflexivity. Qed.
Lemma trace_lguard b c : trace (lguard b c) = []. Proof. reflexivity. Qed.
Lemma result_lguard b c : result (lguard b c) = Ok tt <-> b = true.
Proof. unfold lguard, lift, result, guard. destruct b; cbn; split; intro; try reflexivity; discriminate. Qed.
Lemma result_lift {A} (r : res A) : result (lift r) = r. Proof. reflexivity. Qed.

Lemma guard_ok b c : guard b c = Ok tt <-> b = true.
Proof. unfold guard. destruct b; split; intro; try reflexivity; discriminate. Qed.
Lemma rbind_ok {A B} (m : res A) (f : A -> res B) b :
  rbind m f = Ok b <-> exists a, m = Ok a /\ f a = Ok b.
Proof.
  destruct m as [a|c]; cbn [rbind].
  - split; [intro H; exists a; auto|intros (a' & E & H); inversion E; subst; exact H].
  - split; [discriminate|intros (a' & E & _); discriminate].
Qed.
Lemma of_opt_ok {A} (o : option A) c a : of_opt o c = Ok a <-> o = Some a.
Proof. destruct o; cbn; split; intro H; inversion H; reflexivity. Qed.

Lemma count_ok_iff n : count_ok n = Ok tt <-> 1 <= n <= MAX_PROOF_COUNT \/ (n < 0).
Proof.
  unfold count_ok, Parsers.validate_proof_count, guard, rbind.
  destruct (Z.eqb_spec n 0) as [->|N]; cbn [negb].
  - split; [discriminate|intros [H|H]; unfold MAX_PROOF_COUNT in *; lia].
  - destruct (Z.leb_spec n MAX_PROOF_COUNT) as [Hle|Hgt]; split; intro X; try reflexivity; try discriminate; unfold MAX_PROOF_COUNT in *; lia.
Qed.
(* counts are usize values: non-negative *)
Lemma count_ok_nonneg n : 0 <= n -> (count_ok n = Ok tt <-> 1 <= n <= MAX_PROOF_COUNT).
Proof. intro Hn. rewrite count_ok_iff. lia. Qed.
Lemma count_ok_unit n u : count_ok n = Ok u <-> count_ok n = Ok tt.
Proof. destruct u. split; intro H; exact H. Qed.

(* ---------------------------------------------------------------- read_artifact_file *)
Lemma read_oversize cap id d f :
  d id = Some f -> f_len f > cap -> read_artifact_file cap id d = ([EvStat id], Err E_SIZE).
Proof.
  intros E H. unfold read_artifact_file. rewrite E.
  unfold lbind, emit, lguard, lift, guard. cbn [fst snd].
  destruct (Z.leb_spec (f_len f) cap); [lia|reflexivity].
Qed.

Lemma read_missing cap id d : d id = None -> read_artifact_file cap id d = ([EvStat id], Err E_OTHER).
Proof. intros E. unfold read_artifact_file. rewrite E. reflexivity. Qed.

Lemma read_ok cap id d f :
  d id = Some f -> f_len f <= cap -> read_artifact_file cap id d = ([EvStat id; EvRead id], Ok (f_bytes f)).
Proof.
  intros E H. unfold read_artifact_file. rewrite E.
  unfold lbind, emit, lguard, lift, guard, lret. cbn [fst snd].
  destruct (Z.leb_spec (f_len f) cap); [reflexivity|lia].
Qed.

Lemma read_result_ok cap id d b :
  result (read_artifact_file cap id d) = Ok b <-> exists f, d id = Some f /\ f_len f <= cap /\ b = f_bytes f.
Proof.
  destruct (d id) as [f|] eqn:E.
  - destruct (Z.leb_spec (f_len f) cap) as [Hle|Hgt].
    + rewrite (read_ok cap id d f E Hle). cbn [result snd]. split.
      * intro H; inversion H; subst. exists f. auto.
      * intros (f' & E' & _ & ->). inversion E'; subst. reflexivity.
    + rewrite (read_oversize cap id d f E) by lia. cbn [result snd]. split; [discriminate|].
      intros (f' & E' & Hle & _). inversion E'; subst. lia.
  - rewrite (read_missing cap id d E). cbn [result snd]. split; [discriminate|intros (f' & E' & _); discriminate].
Qed.

(* the only things a capped read touches are the metadata and (within the cap) the contents of file [id] *)
Lemma read_trace_cases cap id d :
  trace (read_artifact_file cap id d) = [EvStat id] \/
  (trace (read_artifact_file cap id d) = [EvStat id; EvRead id] /\ exists f, d id = Some f /\ f_len f <= cap).
Proof.
  destruct (d id) as [f|] eqn:E.
  - destruct (Z.leb_spec (f_len f) cap) as [Hle|Hgt].
    + right. rewrite (read_ok cap id d f E Hle). split; [reflexivity|exists f; auto].
    + left. rewrite (read_oversize cap id d f E) by lia. reflexivity.
  - left. rewrite (read_missing cap id d E). reflexivity.
Qed.

Lemma read_trace_ids (P : ev -> Prop) cap id d :
  P (EvStat id) -> P (EvRead id) -> Forall P (trace (read_artifact_file cap id d)).
Proof.
  intros H1 H2. destruct (read_trace_cases cap id d) as [->|[-> _]]; repeat constructor; assumption.
Qed.

(* a file whose claimed length exceeds the cap is never read, whatever else the directory holds *)
Lemma read_never_oversize cap id d id' f :
  d id' = Some f -> f_len f > cap -> Forall (fun e => e <> EvRead id') (trace (read_artifact_file cap id d)).
Proof.
  intros E H. destruct (read_trace_cases cap id d) as [->|[-> (f' & E' & Hle)]].
  - repeat constructor; discriminate.
  - repeat constructor; [discriminate|]. intro X. inversion X; subst. rewrite E in E'. inversion E'; subst. lia.
Qed.

Lemma read_agree cap id d d' : d id = d' id -> read_artifact_file cap id d = read_artifact_file cap id d'.
Proof. intro E. unfold read_artifact_file. rewrite E. reflexivity. Qed.

(* ================================================================ verifier crate *)
Section VerifierProofs.
  Set Default Proof Using "Type".
  Variable keccak : bytes -> bytes.
  Variables pin_v pin_c : bytes.
  Variable decode_ok : bytes -> bytes -> bool.

  Notation vbytes := (verifier_new_from_bytes keccak pin_v pin_c decode_ok).
  Notation vfiles := (verifier_new_from_files keccak pin_v pin_c decode_ok).

  Lemma verifier_bytes_iff v c :
    result (vbytes v c) = Ok tt <->
    zlen v <= MAX_VERIFIER_ARTIFACT_BYTES /\ zlen c <= MAX_VERIFIER_ARTIFACT_BYTES /\
    keccak v = pin_v /\ keccak c = pin_c /\ decode_ok v c = true.
  Proof.
    clr.
    unfold verifier_new_from_bytes.
    split.
    - intro H. apply result_lbind in H. destruct H as ([] & H1 & H). apply result_lguard in H1.
      apply result_lbind in H. destruct H as ([] & H2 & H). apply result_lguard in H2.
      apply result_lbind in H. destruct H as ([] & _ & H).
      apply result_lbind in H. destruct H as ([] & H3 & H). apply result_lguard in H3.
      apply result_lbind in H. destruct H as ([] & _ & H).
      apply result_lbind in H. destruct H as ([] & H4 & H). apply result_lguard in H4.
      apply result_lbind in H. destruct H as ([] & H5 & _). apply result_lguard in H5.
      apply Z.leb_le in H1, H2. apply list_eqb_spec in H3, H4. ptauto.
    - intros (H1 & H2 & H3 & H4 & H5).
      apply Z.leb_le in H1, H2. apply list_eqb_spec in H3, H4.
      apply result_lbind. exists tt. split; [apply result_lguard; exact H1|].
      apply result_lbind. exists tt. split; [apply result_lguard; exact H2|].
      apply result_lbind. exists tt. split; [reflexivity|].
      apply result_lbind. exists tt. split; [apply result_lguard; exact H3|].
      apply result_lbind. exists tt. split; [reflexivity|].
      apply result_lbind. exists tt. split; [apply result_lguard; exact H4|].
      apply result_lbind. exists tt. split; [apply result_lguard; exact H5|reflexivity].
  Qed.

  (* over the cap: rejected with the size error and NOTHING has been hashed (empty log) *)
  Lemma verifier_bytes_oversize v c :
    zlen v > MAX_VERIFIER_ARTIFACT_BYTES \/ zlen c > MAX_VERIFIER_ARTIFACT_BYTES ->
    vbytes v c = ([], Err E_SIZE).
  Proof.
    clr.
    intros H. unfold verifier_new_from_bytes, lbind, lguard, lift, guard. cbn [fst snd].
    destruct (Z.leb_spec (zlen v) MAX_VERIFIER_ARTIFACT_BYTES) as [Hv|Hv]; cbn [fst snd]; [|reflexivity].
    destruct (Z.leb_spec (zlen c) MAX_VERIFIER_ARTIFACT_BYTES) as [Hc|Hc]; cbn [fst snd]; [lia|reflexivity].
  Qed.

  (* hashing happens only within the cap *)
  Lemma verifier_bytes_hash_within_cap v c :
    existsb is_hash (trace (vbytes v c)) = true ->
    zlen v <= MAX_VERIFIER_ARTIFACT_BYTES /\ zlen c <= MAX_VERIFIER_ARTIFACT_BYTES.
  Proof.
    clr.
    intros H.
    destruct (Z.leb_spec (zlen v) MAX_VERIFIER_ARTIFACT_BYTES) as [Hv|Hv];
    destruct (Z.leb_spec (zlen c) MAX_VERIFIER_ARTIFACT_BYTES) as [Hc|Hc]; try (split; assumption);
      rewrite verifier_bytes_oversize in H by lia; discriminate.
  Qed.

  Lemma verifier_bytes_only_canonical (can_v can_c : bytes) v c :
    pin_v = keccak can_v -> pin_c = keccak can_c ->
    (keccak v = keccak can_v -> v = can_v) -> (keccak c = keccak can_c -> c = can_c) ->
    result (vbytes v c) = Ok tt ->
    zlen v <= MAX_VERIFIER_ARTIFACT_BYTES /\ zlen c <= MAX_VERIFIER_ARTIFACT_BYTES /\ v = can_v /\ c = can_c.
  Proof.
    clr.
    intros Pv Pc Iv Ic H. apply verifier_bytes_iff in H. destruct H as (H1 & H2 & H3 & H4 & _).
    subst pin_v pin_c. auto.
  Qed.

  Lemma verifier_files_iff d idv idc :
    result (vfiles d idv idc) = Ok tt <->
    exists fv fc, d idv = Some fv /\ d idc = Some fc /\
      f_len fv <= MAX_VERIFIER_ARTIFACT_BYTES /\ f_len fc <= MAX_VERIFIER_ARTIFACT_BYTES /\
      result (vbytes (f_bytes fv) (f_bytes fc)) = Ok tt.
  Proof.
    clr.
    unfold verifier_new_from_files. rewrite result_lbind. split.
    - intros (v & Hv & H). apply result_lbind in H. destruct H as (c & Hc & H).
      apply read_result_ok in Hv. destruct Hv as (fv & Ev & Lv & ->).
      apply read_result_ok in Hc. destruct Hc as (fc & Ec & Lc & ->).
      exists fv, fc. auto.
    - intros (fv & fc & Ev & Ec & Lv & Lc & H).
      exists (f_bytes fv). split; [apply read_result_ok; exists fv; auto|].
      apply result_lbind. exists (f_bytes fc). split; [apply read_result_ok; exists fc; auto|exact H].
  Qed.

  (* an oversized verifier file: only its metadata is looked at; nothing is read, nothing is hashed *)
  Lemma verifier_files_oversize_first d idv idc fv :
    d idv = Some fv -> f_len fv > MAX_VERIFIER_ARTIFACT_BYTES ->
    vfiles d idv idc = ([EvStat idv], Err E_SIZE).
  Proof.
    clr.
    intros E H. unfold verifier_new_from_files.
    rewrite (result_lbind_err _ _ E_SIZE); rewrite (read_oversize _ _ _ _ E H); reflexivity.
  Qed.

  (* an oversized common file: the (in-cap) verifier file has been read, the common file only stat'ed, nothing hashed *)
  Lemma verifier_files_oversize_second d idv idc fv fc :
    d idv = Some fv -> f_len fv <= MAX_VERIFIER_ARTIFACT_BYTES ->
    d idc = Some fc -> f_len fc > MAX_VERIFIER_ARTIFACT_BYTES ->
    vfiles d idv idc = ([EvStat idv; EvRead idv; EvStat idc], Err E_SIZE).
  Proof.
    clr.
    intros Ev Lv Ec Hc. unfold verifier_new_from_files.
    rewrite (lbind_ok _ _ (f_bytes fv)) by (rewrite (read_ok _ _ _ _ Ev Lv); reflexivity).
    rewrite (read_ok _ _ _ _ Ev Lv). cbn [trace fst].
    rewrite (result_lbind_err _ _ E_SIZE) by (rewrite (read_oversize _ _ _ _ Ec Hc); reflexivity).
    rewrite (read_oversize _ _ _ _ Ec Hc). reflexivity.
  Qed.

  Lemma verifier_files_never_read_oversize d idv idc id f :
    d id = Some f -> f_len f > MAX_VERIFIER_ARTIFACT_BYTES ->
    Forall (fun e => e <> EvRead id) (trace (vfiles d idv idc)).
  Proof.
    clr.
    intros E H. unfold verifier_new_from_files.
    apply Forall_trace_lbind; [eapply read_never_oversize; eassumption|intro v].
    apply Forall_trace_lbind; [eapply read_never_oversize; eassumption|intro c].
    unfold verifier_new_from_bytes.
    repeat (apply Forall_trace_lbind; [try (rewrite trace_lguard; constructor); try (repeat constructor; discriminate)|intros ?]).
    constructor.
  Qed.
End VerifierProofs.

(* ================================================================ aggregator crate *)
Section AggregatorProofs.
  Set Default Proof Using "Type".
  Variables leaf_c leaf_v : bytes.
  Variable canon_pb : Z -> bytes * bytes.
  Variable canon_pub : Z -> Z -> bytes * bytes.
  Variables reser_c reser_v : bytes -> option bytes.
  Variable cfg_ok : bytes -> bool.
  Variable leaf_template_ok : bytes -> bool.
  Variable pb_template_ok : Z -> bytes -> bool.
  Variable parse_config : bytes -> option (Z * option Z).

  Notation ld_leaf := (load_canonical_leaf leaf_c leaf_v).
  Notation ld_pb := (load_canonical_private_batch canon_pb).
  Notation ld_pub := (load_public_batch canon_pub reser_c reser_v cfg_ok).
  Notation ld_cfg := (load_config parse_config).
  Notation priv_prover := (private_prover_from_dir leaf_c leaf_v leaf_template_ok parse_config).
  Notation pub_prover := (public_prover_from_dir canon_pb pb_template_ok parse_config).
  Notation agg_new := (aggregator_new canon_pb canon_pub reser_c reser_v cfg_ok pb_template_ok parse_config).
  Notation gen_pb := (gen_private_batch leaf_c leaf_v).
  Notation gen_pub := (gen_public_batch canon_pb).

  Lemma ensure_bytes_match_iff common vo cc cv u :
    ensure_bytes_match common vo cc cv = Ok u <-> common = cc /\ vo = cv.
  Proof.
    clr.
    destruct u. unfold ensure_bytes_match. rewrite rbind_ok. split.
    - intros ([] & H1 & H). apply rbind_ok in H. destruct H as ([] & H2 & _).
      apply guard_ok in H1, H2. apply list_eqb_spec in H1, H2. auto.
    - intros [-> ->]. exists tt. split; [apply guard_ok; apply list_eqb_spec; reflexivity|].
      apply rbind_ok. exists tt. split; [apply guard_ok; apply list_eqb_spec; reflexivity|reflexivity].
  Qed.

  Lemma load_canonical_leaf_iff common vo u :
    ld_leaf common vo = Ok u <-> common = leaf_c /\ vo = leaf_v.
  Proof. clr. apply ensure_bytes_match_iff. Qed.

  Lemma load_canonical_private_batch_iff common vo n u : 0 <= n ->
    (ld_pb common vo n = Ok u <->
     1 <= n <= MAX_PROOF_COUNT /\ common = fst (canon_pb n) /\ vo = snd (canon_pb n)).
  Proof.
    clr.
    intro Hn. unfold load_canonical_private_batch. rewrite rbind_ok. split.
    - intros ([] & H1 & H). apply (count_ok_nonneg n Hn) in H1. apply ensure_bytes_match_iff in H. ptauto.
    - intros (H1 & H). exists tt. split; [apply (count_ok_nonneg n Hn); exact H1|apply ensure_bytes_match_iff; exact H].
  Qed.

  (* "semantically identical": the artifact deserialises, carries the canonical config, and re-serialises to the
     canonical bytes *)
  Lemma load_public_batch_iff d m n : 0 <= m -> 0 <= n ->
    (result (ld_pub d m n) = Ok tt <->
     exists fc fv, d F_PUB_COMMON = Some fc /\ d F_PUB_VERIFIER = Some fv /\
       f_len fc <= MAX_ARTIFACT_FILE_BYTES /\ f_len fv <= MAX_ARTIFACT_FILE_BYTES /\
       1 <= m <= MAX_PROOF_COUNT /\ 1 <= n <= MAX_PROOF_COUNT /\
       cfg_ok (f_bytes fc) = true /\
       reser_c (f_bytes fc) = Some (fst (canon_pub m n)) /\
       reser_v (f_bytes fv) = Some (snd (canon_pub m n))).
  Proof.
    clr.
    intros Hm Hn. unfold load_public_batch, CAP. split.
    - intro H.
      apply result_lbind in H. destruct H as (c & Hc & H). apply read_result_ok in Hc. destruct Hc as (fc & Ec & Lc & ->).
      apply result_lbind in H. destruct H as (v & Hv & H). apply read_result_ok in Hv. destruct Hv as (fv & Ev & Lv & ->).
      apply result_lbind in H. destruct H as (rc & Hrc & H). rewrite result_lift in Hrc. apply of_opt_ok in Hrc.
      apply result_lbind in H. destruct H as (rv & Hrv & H). rewrite result_lift in Hrv. apply of_opt_ok in Hrv.
      apply result_lbind in H. destruct H as ([] & H1 & H). rewrite result_lift in H1. apply (count_ok_nonneg m Hm) in H1.
      apply result_lbind in H. destruct H as ([] & H2 & H). rewrite result_lift in H2. apply (count_ok_nonneg n Hn) in H2.
      apply result_lbind in H. destruct H as ([] & H3 & H). apply result_lguard in H3.
      apply result_lbind in H. destruct H as ([] & H4 & H). apply result_lguard in H4. apply list_eqb_spec in H4.
      apply result_lbind in H. destruct H as ([] & H5 & _). apply result_lguard in H5. apply list_eqb_spec in H5.
      exists fc, fv. subst rc rv. ptauto.
    - intros (fc & fv & Ec & Ev & Lc & Lv & H1 & H2 & H3 & H4 & H5).
      apply result_lbind. exists (f_bytes fc). split; [apply read_result_ok; exists fc; auto|].
      apply result_lbind. exists (f_bytes fv). split; [apply read_result_ok; exists fv; auto|].
      apply result_lbind. exists (fst (canon_pub m n)). split; [rewrite result_lift; apply of_opt_ok; exact H4|].
      apply result_lbind. exists (snd (canon_pub m n)). split; [rewrite result_lift; apply of_opt_ok; exact H5|].
      apply result_lbind. exists tt. split; [rewrite result_lift; apply (count_ok_nonneg m Hm); exact H1|].
      apply result_lbind. exists tt. split; [rewrite result_lift; apply (count_ok_nonneg n Hn); exact H2|].
      apply result_lbind. exists tt. split; [apply result_lguard; exact H3|].
      apply result_lbind. exists tt. split; [apply result_lguard; apply list_eqb_spec; reflexivity|].
      apply result_lbind. exists tt. split; [apply result_lguard; apply list_eqb_spec; reflexivity|reflexivity].
  Qed.

  (* well-formed parsed configs: usize counts *)
  Definition cfg_nonneg (cfg : Z * option Z) : Prop :=
    0 <= fst cfg /\ match snd cfg with Some m => 0 <= m | None => True end.

  Lemma load_config_ok d cfg : (forall b c, parse_config b = Some c -> cfg_nonneg c) ->
    (result (ld_cfg d) = Ok cfg <->
     exists f, d F_CONFIG = Some f /\ f_len f <= MAX_ARTIFACT_FILE_BYTES /\ parse_config (f_bytes f) = Some cfg /\
       1 <= fst cfg <= MAX_PROOF_COUNT /\ match snd cfg with Some m => 1 <= m <= MAX_PROOF_COUNT | None => True end).
  Proof.
    clr.
    intro WF. unfold load_config, CAP. split.
    - intro H.
      apply result_lbind in H. destruct H as (b & Hb & H). apply read_result_ok in Hb. destruct Hb as (f & Ef & Lf & ->).
      apply result_lbind in H. destruct H as (c & Hc & H). rewrite result_lift in Hc. apply of_opt_ok in Hc.
      destruct (WF _ _ Hc) as [N1 N2].
      apply result_lbind in H. destruct H as ([] & H1 & H). rewrite result_lift in H1. apply (count_ok_nonneg _ N1) in H1.
      apply result_lbind in H. destruct H as ([] & H2 & H). rewrite result_lift in H2.
      cbn in H. inversion H; subst c. exists f. repeat split; try assumption; try lia.
      destruct (snd cfg) as [m|]; [apply (count_ok_nonneg _ N2) in H2; exact H2|exact I].
    - intros (f & Ef & Lf & Hc & H1 & H2). destruct (WF _ _ Hc) as [N1 N2].
      apply result_lbind. exists (f_bytes f). split; [apply read_result_ok; exists f; auto|].
      apply result_lbind. exists cfg. split; [rewrite result_lift; apply of_opt_ok; exact Hc|].
      apply result_lbind. exists tt. split; [rewrite result_lift; apply (count_ok_nonneg _ N1); exact H1|].
      apply result_lbind. exists tt. split; [|reflexivity].
      rewrite result_lift. destruct (snd cfg) as [m|]; [apply (count_ok_nonneg _ N2); exact H2|reflexivity].
  Qed.

  Hypothesis parse_wf : forall b c, parse_config b = Some c -> cfg_nonneg c.
  Ltac clr0 := repeat match goal with x : _ |- _ => lazymatch x with parse_wf => fail | _ => clear x end end.

  (* ---- PrivateBatchProver::new_from_binaries_dir *)
  Lemma private_prover_iff d :
    result (priv_prover d) = Ok tt <->
    exists fcfg cfg fc fv fd,
      d F_CONFIG = Some fcfg /\ f_len fcfg <= MAX_ARTIFACT_FILE_BYTES /\ parse_config (f_bytes fcfg) = Some cfg /\
      1 <= fst cfg <= MAX_PROOF_COUNT /\ match snd cfg with Some m => 1 <= m <= MAX_PROOF_COUNT | None => True end /\
      d F_COMMON = Some fc /\ d F_VERIFIER = Some fv /\ d F_DUMMY = Some fd /\
      f_len fc <= MAX_ARTIFACT_FILE_BYTES /\ f_len fv <= MAX_ARTIFACT_FILE_BYTES /\ f_len fd <= MAX_ARTIFACT_FILE_BYTES /\
      f_bytes fc = leaf_c /\ f_bytes fv = leaf_v /\ leaf_template_ok (f_bytes fd) = true.
  Proof using Type parse_wf.
    clr0.
    unfold private_prover_from_dir, CAP. split.
    - intro H.
      apply result_lbind in H. destruct H as (cfg & Hcfg & H). apply (load_config_ok d cfg parse_wf) in Hcfg.
      destruct Hcfg as (fcfg & E0 & L0 & P0 & C1 & C2).
      apply result_lbind in H. destruct H as (c & Hc & H). apply read_result_ok in Hc. destruct Hc as (fc & Ec & Lc & ->).
      apply result_lbind in H. destruct H as (v & Hv & H). apply read_result_ok in Hv. destruct Hv as (fv & Ev & Lv & ->).
      apply result_lbind in H. destruct H as (dp & Hd & H). apply read_result_ok in Hd. destruct Hd as (fd & Ed & Ld & ->).
      apply result_lbind in H. destruct H as ([] & _ & H).
      apply result_lbind in H. destruct H as ([] & H1 & H). rewrite result_lift in H1. apply load_canonical_leaf_iff in H1.
      apply result_lbind in H. destruct H as ([] & H2 & _). apply result_lguard in H2.
      exists fcfg, cfg, fc, fv, fd. ptauto.
    - intros (fcfg & cfg & fc & fv & fd & E0 & L0 & P0 & C1 & C2 & Ec & Ev & Ed & Lc & Lv & Ld & B1 & B2 & T).
      apply result_lbind. exists cfg. split; [apply (load_config_ok d cfg parse_wf); exists fcfg; auto|].
      apply result_lbind. exists (f_bytes fc). split; [apply read_result_ok; exists fc; auto|].
      apply result_lbind. exists (f_bytes fv). split; [apply read_result_ok; exists fv; auto|].
      apply result_lbind. exists (f_bytes fd). split; [apply read_result_ok; exists fd; auto|].
      apply result_lbind. exists tt. split.
      { rewrite result_lift. apply count_ok_nonneg; [lia|exact C1]. }
      apply result_lbind. exists tt. split; [rewrite result_lift; apply load_canonical_leaf_iff; auto|].
      apply result_lbind. exists tt. split; [apply result_lguard; exact T|reflexivity].
  Qed.

  (* ---- PublicBatchProver::new_from_binaries_dir *)
  Lemma public_prover_iff d :
    result (pub_prover d) = Ok tt <->
    exists fcfg n m fc fv fd,
      d F_CONFIG = Some fcfg /\ f_len fcfg <= MAX_ARTIFACT_FILE_BYTES /\ parse_config (f_bytes fcfg) = Some (n, Some m) /\
      1 <= n <= MAX_PROOF_COUNT /\ 1 <= m <= MAX_PROOF_COUNT /\
      d F_PB_COMMON = Some fc /\ d F_PB_VERIFIER = Some fv /\ d F_PB_DUMMY = Some fd /\
      f_len fc <= MAX_ARTIFACT_FILE_BYTES /\ f_len fv <= MAX_ARTIFACT_FILE_BYTES /\ f_len fd <= MAX_ARTIFACT_FILE_BYTES /\
      f_bytes fc = fst (canon_pb n) /\ f_bytes fv = snd (canon_pb n) /\ pb_template_ok n (f_bytes fd) = true.
  Proof using Type parse_wf.
    clr0.
    unfold public_prover_from_dir, CAP. split.
    - intro H.
      apply result_lbind in H. destruct H as (cfg & Hcfg & H). apply (load_config_ok d cfg parse_wf) in Hcfg.
      destruct Hcfg as (fcfg & E0 & L0 & P0 & C1 & C2).
      apply result_lbind in H. destruct H as (m & Hm & H). rewrite result_lift in Hm. apply of_opt_ok in Hm.
      destruct cfg as [n om]. cbn [fst snd] in *. subst om.
      apply result_lbind in H. destruct H as (c & Hc & H). apply read_result_ok in Hc. destruct Hc as (fc & Ec & Lc & ->).
      apply result_lbind in H. destruct H as (v & Hv & H). apply read_result_ok in Hv. destruct Hv as (fv & Ev & Lv & ->).
      apply result_lbind in H. destruct H as (dp & Hd & H). apply read_result_ok in Hd. destruct Hd as (fd & Ed & Ld & ->).
      apply result_lbind in H. destruct H as ([] & _ & H).
      apply result_lbind in H. destruct H as ([] & _ & H).
      apply result_lbind in H. destruct H as ([] & H1 & H). rewrite result_lift in H1.
      apply load_canonical_private_batch_iff in H1; [|lia].
      apply result_lbind in H. destruct H as ([] & H2 & _). apply result_lguard in H2.
      exists fcfg, n, m, fc, fv, fd. ptauto.
    - intros (fcfg & n & m & fc & fv & fd & E0 & L0 & P0 & C1 & C2 & Ec & Ev & Ed & Lc & Lv & Ld & B1 & B2 & T).
      apply result_lbind. exists (n, Some m). split; [apply (load_config_ok d _ parse_wf); exists fcfg; cbn [fst snd]; auto|].
      cbn [fst snd].
      apply result_lbind. exists m. split; [reflexivity|].
      apply result_lbind. exists (f_bytes fc). split; [apply read_result_ok; exists fc; auto|].
      apply result_lbind. exists (f_bytes fv). split; [apply read_result_ok; exists fv; auto|].
      apply result_lbind. exists (f_bytes fd). split; [apply read_result_ok; exists fd; auto|].
      apply result_lbind. exists tt. split; [rewrite result_lift; apply count_ok_nonneg; [lia|exact C1]|].
      apply result_lbind. exists tt. split; [rewrite result_lift; apply count_ok_nonneg; [lia|exact C2]|].
      apply result_lbind. exists tt. split.
      { rewrite result_lift. apply load_canonical_private_batch_iff; [lia|]. auto. }
      apply result_lbind. exists tt. split; [apply result_lguard; exact T|reflexivity].
  Qed.

  (* ---- PublicBatchAggregator::with_limits *)
  Lemma aggregator_new_iff d :
    result (agg_new d) = Ok tt <->
    exists fcfg n m fc fv fd fpc fpv,
      d F_CONFIG = Some fcfg /\ f_len fcfg <= MAX_ARTIFACT_FILE_BYTES /\ parse_config (f_bytes fcfg) = Some (n, Some m) /\
      1 <= n <= MAX_PROOF_COUNT /\ 1 <= m <= MAX_PROOF_COUNT /\
      d F_PB_COMMON = Some fc /\ d F_PB_VERIFIER = Some fv /\ d F_PB_DUMMY = Some fd /\
      d F_PUB_COMMON = Some fpc /\ d F_PUB_VERIFIER = Some fpv /\
      f_len fc <= MAX_ARTIFACT_FILE_BYTES /\ f_len fv <= MAX_ARTIFACT_FILE_BYTES /\ f_len fd <= MAX_ARTIFACT_FILE_BYTES /\
      f_len fpc <= MAX_ARTIFACT_FILE_BYTES /\ f_len fpv <= MAX_ARTIFACT_FILE_BYTES /\
      f_bytes fc = fst (canon_pb n) /\ f_bytes fv = snd (canon_pb n) /\
      cfg_ok (f_bytes fpc) = true /\
      reser_c (f_bytes fpc) = Some (fst (canon_pub m n)) /\ reser_v (f_bytes fpv) = Some (snd (canon_pub m n)) /\
      pb_template_ok n (f_bytes fd) = true.
  Proof using Type parse_wf.
    clr0.
    unfold aggregator_new, CAP. split.
    - intro H.
      apply result_lbind in H. destruct H as (cfg & Hcfg & H). apply (load_config_ok d cfg parse_wf) in Hcfg.
      destruct Hcfg as (fcfg & E0 & L0 & P0 & C1 & C2).
      apply result_lbind in H. destruct H as (m & Hm & H). rewrite result_lift in Hm. apply of_opt_ok in Hm.
      destruct cfg as [n om]. cbn [fst snd] in *. subst om.
      apply result_lbind in H. destruct H as (c & Hc & H). apply read_result_ok in Hc. destruct Hc as (fc & Ec & Lc & ->).
      apply result_lbind in H. destruct H as (v & Hv & H). apply read_result_ok in Hv. destruct Hv as (fv & Ev & Lv & ->).
      apply result_lbind in H. destruct H as ([] & H1 & H). rewrite result_lift in H1.
      apply load_canonical_private_batch_iff in H1; [|lia].
      apply result_lbind in H. destruct H as ([] & H2 & H). apply load_public_batch_iff in H2; [|lia|lia].
      destruct H2 as (fpc & fpv & Epc & Epv & Lpc & Lpv & _ & _ & K1 & K2 & K3).
      apply result_lbind in H. destruct H as (dp & Hd & H). apply read_result_ok in Hd. destruct Hd as (fd & Ed & Ld & ->).
      apply result_lbind in H. destruct H as ([] & H3 & _). apply result_lguard in H3.
      exists fcfg, n, m, fc, fv, fd, fpc, fpv. ptauto.
    - intros (fcfg & n & m & fc & fv & fd & fpc & fpv & E0 & L0 & P0 & C1 & C2 & Ec & Ev & Ed & Epc & Epv &
              Lc & Lv & Ld & Lpc & Lpv & B1 & B2 & K1 & K2 & K3 & T).
      apply result_lbind. exists (n, Some m). split; [apply (load_config_ok d _ parse_wf); exists fcfg; cbn [fst snd]; auto|].
      cbn [fst snd].
      apply result_lbind. exists m. split; [reflexivity|].
      apply result_lbind. exists (f_bytes fc). split; [apply read_result_ok; exists fc; auto|].
      apply result_lbind. exists (f_bytes fv). split; [apply read_result_ok; exists fv; auto|].
      apply result_lbind. exists tt. split.
      { rewrite result_lift. apply load_canonical_private_batch_iff; [lia|]. auto. }
      apply result_lbind. exists tt. split.
      { apply load_public_batch_iff; [lia|lia|]. exists fpc, fpv. ptauto. }
      apply result_lbind. exists (f_bytes fd). split; [apply read_result_ok; exists fd; auto|].
      apply result_lbind. exists tt. split; [apply result_lguard; exact T|reflexivity].
  Qed.

  (* ---- build.rs *)
  Lemma gen_private_batch_iff d n : 0 <= n ->
    (result (gen_pb d n) = Ok tt <->
     1 <= n <= MAX_PROOF_COUNT /\
     exists fc fv, d F_COMMON = Some fc /\ d F_VERIFIER = Some fv /\
       f_len fc <= MAX_ARTIFACT_FILE_BYTES /\ f_len fv <= MAX_ARTIFACT_FILE_BYTES /\
       f_bytes fc = leaf_c /\ f_bytes fv = leaf_v).
  Proof.
    clr.
    intro Hn. unfold gen_private_batch, CAP. split.
    - intro H.
      apply result_lbind in H. destruct H as ([] & H0 & H). rewrite result_lift in H0. apply (count_ok_nonneg n Hn) in H0.
      apply result_lbind in H. destruct H as (c & Hc & H). apply read_result_ok in Hc. destruct Hc as (fc & Ec & Lc & ->).
      apply result_lbind in H. destruct H as (v & Hv & H). apply read_result_ok in Hv. destruct Hv as (fv & Ev & Lv & ->).
      apply result_lbind in H. destruct H as ([] & H1 & _). rewrite result_lift in H1. apply load_canonical_leaf_iff in H1.
      split; [exact H0|]. exists fc, fv. ptauto.
    - intros (H0 & fc & fv & Ec & Ev & Lc & Lv & B1 & B2).
      apply result_lbind. exists tt. split; [rewrite result_lift; apply (count_ok_nonneg n Hn); exact H0|].
      apply result_lbind. exists (f_bytes fc). split; [apply read_result_ok; exists fc; auto|].
      apply result_lbind. exists (f_bytes fv). split; [apply read_result_ok; exists fv; auto|].
      apply result_lbind. exists tt. split; [rewrite result_lift; apply load_canonical_leaf_iff; auto|reflexivity].
  Qed.

  Lemma gen_public_batch_iff d m n : 0 <= m -> 0 <= n ->
    (result (gen_pub d m n) = Ok tt <->
     1 <= m <= MAX_PROOF_COUNT /\ 1 <= n <= MAX_PROOF_COUNT /\
     exists fc fv, d F_PB_COMMON = Some fc /\ d F_PB_VERIFIER = Some fv /\
       f_len fc <= MAX_ARTIFACT_FILE_BYTES /\ f_len fv <= MAX_ARTIFACT_FILE_BYTES /\
       f_bytes fc = fst (canon_pb n) /\ f_bytes fv = snd (canon_pb n)).
  Proof.
    clr.
    intros Hm Hn. unfold gen_public_batch, CAP. split.
    - intro H.
      apply result_lbind in H. destruct H as ([] & H0 & H). rewrite result_lift in H0. apply (count_ok_nonneg m Hm) in H0.
      apply result_lbind in H. destruct H as ([] & H0' & H). rewrite result_lift in H0'. apply (count_ok_nonneg n Hn) in H0'.
      apply result_lbind in H. destruct H as (c & Hc & H). apply read_result_ok in Hc. destruct Hc as (fc & Ec & Lc & ->).
      apply result_lbind in H. destruct H as (v & Hv & H). apply read_result_ok in Hv. destruct Hv as (fv & Ev & Lv & ->).
      apply result_lbind in H. destruct H as ([] & H1 & _). rewrite result_lift in H1.
      apply load_canonical_private_batch_iff in H1; [|exact Hn].
      split; [exact H0|]. split; [exact H0'|]. exists fc, fv. ptauto.
    - intros (H0 & H0' & fc & fv & Ec & Ev & Lc & Lv & B1 & B2).
      apply result_lbind. exists tt. split; [rewrite result_lift; apply (count_ok_nonneg m Hm); exact H0|].
      apply result_lbind. exists tt. split; [rewrite result_lift; apply (count_ok_nonneg n Hn); exact H0'|].
      apply result_lbind. exists (f_bytes fc). split; [apply read_result_ok; exists fc; auto|].
      apply result_lbind. exists (f_bytes fv). split; [apply read_result_ok; exists fv; auto|].
      apply result_lbind. exists tt. split; [|reflexivity].
      rewrite result_lift. apply load_canonical_private_batch_iff; [exact Hn|]. auto.
  Qed.

  (* ---------------------------------------------------------------- what the loaders touch *)
  (* Every event of every loader is a stat or a read of one of the listed file ids: compositional. *)
  Ltac trace_forall :=
    repeat first
      [ apply read_trace_ids; (split; [inl|reflexivity])
      | apply Forall_trace_lbind; [|intros ?]
      | rewrite trace_lift; constructor
      | rewrite trace_lguard; constructor
      | constructor ].

  Definition touches_only (ids : list Z) (e : ev) : Prop :=
    In (ev_id e) ids /\ is_hash e = false.

  Lemma load_config_touches d : Forall (touches_only [F_CONFIG]) (trace (ld_cfg d)).
  Proof. clr. unfold load_config, touches_only. trace_forall. Qed.

  Lemma load_public_batch_touches d m n :
    Forall (touches_only [F_PUB_COMMON; F_PUB_VERIFIER]) (trace (ld_pub d m n)).
  Proof. clr. unfold load_public_batch, touches_only. trace_forall. Qed.

  Lemma Forall_touches_mono ids ids' t : incl ids ids' -> Forall (touches_only ids) t -> Forall (touches_only ids') t.
  Proof. clr. intros Hi H. eapply Forall_impl; [|exact H]. intros e [H1 H2]. split; [apply Hi; exact H1|exact H2]. Qed.

  Definition PRIVATE_PROVER_FILES := [F_CONFIG; F_COMMON; F_VERIFIER; F_DUMMY].
  Definition PUBLIC_PROVER_FILES := [F_CONFIG; F_PB_COMMON; F_PB_VERIFIER; F_PB_DUMMY].
  Definition AGGREGATOR_FILES := [F_CONFIG; F_PB_COMMON; F_PB_VERIFIER; F_PB_DUMMY; F_PUB_COMMON; F_PUB_VERIFIER].

  Lemma private_prover_touches d : Forall (touches_only PRIVATE_PROVER_FILES) (trace (priv_prover d)).
  Proof.
    clr.
    unfold private_prover_from_dir.
    apply Forall_trace_lbind.
    { eapply Forall_touches_mono; [|apply load_config_touches]. intros x [<-|[]]. inl. }
    intros cfg. unfold touches_only, PRIVATE_PROVER_FILES. trace_forall.
  Qed.

  Lemma public_prover_touches d : Forall (touches_only PUBLIC_PROVER_FILES) (trace (pub_prover d)).
  Proof.
    clr.
    unfold public_prover_from_dir.
    apply Forall_trace_lbind.
    { eapply Forall_touches_mono; [|apply load_config_touches]. intros x [<-|[]]. inl. }
    intros cfg. unfold touches_only, PUBLIC_PROVER_FILES. trace_forall.
  Qed.

  Lemma aggregator_new_touches d : Forall (touches_only AGGREGATOR_FILES) (trace (agg_new d)).
  Proof.
    clr.
    unfold aggregator_new.
    apply Forall_trace_lbind.
    { eapply Forall_touches_mono; [|apply load_config_touches]. intros x [<-|[]]. inl. }
    intros cfg.
    apply Forall_trace_lbind; [rewrite trace_lift; constructor|intros m].
    apply Forall_trace_lbind; [apply read_trace_ids; split; inl|intros c].
    apply Forall_trace_lbind; [apply read_trace_ids; split; inl|intros v].
    apply Forall_trace_lbind; [rewrite trace_lift; constructor|intros ?].
    apply Forall_trace_lbind.
    { eapply Forall_touches_mono; [|apply load_public_batch_touches]. intros x [<-|[<-|[]]]; inl. }
    intros ?.
    apply Forall_trace_lbind; [apply read_trace_ids; split; inl|intros dp].
    apply Forall_trace_lbind; [rewrite trace_lguard; constructor|intros ?]. constructor.
  Qed.

  Lemma touches_not_prover ids e :
    forallb (fun i => negb (is_prover_id i)) ids = true -> touches_only ids e -> is_prover_id (ev_id e) = false.
  Proof.
    clr.
    intros Hall [Hin _]. rewrite forallb_forall in Hall. specialize (Hall _ Hin).
    destruct (is_prover_id (ev_id e)); [discriminate|reflexivity].
  Qed.

  (* no prover ever looks at (stat) or reads a prover artifact, whatever the directory contains *)
  Lemma no_prover_artifact_read d :
    Forall (fun e => is_prover_id (ev_id e) = false) (trace (priv_prover d)) /\
    Forall (fun e => is_prover_id (ev_id e) = false) (trace (pub_prover d)) /\
    Forall (fun e => is_prover_id (ev_id e) = false) (trace (agg_new d)) /\
    trace leaf_prover_new = [].
  Proof.
    clr.
    repeat split.
    - eapply Forall_impl; [|apply private_prover_touches]. intro e. apply touches_not_prover. reflexivity.
    - eapply Forall_impl; [|apply public_prover_touches]. intro e. apply touches_not_prover. reflexivity.
    - eapply Forall_impl; [|apply aggregator_new_touches]. intro e. apply touches_not_prover. reflexivity.
  Qed.

  (* ---- a loader's whole behaviour depends only on its own files: extra files, bogus *_prover.bin, ... are inert *)
  Definition dir_agree (ids : list Z) (d d' : dir) : Prop := forall i, In i ids -> d i = d' i.

  Ltac agree_tac H :=
    repeat first
      [ reflexivity
      | apply read_agree; apply H; inl
      | apply lbind_ext; [|intros ?] ].

  Lemma load_config_agree d d' : dir_agree [F_CONFIG] d d' -> ld_cfg d = ld_cfg d'.
  Proof. clr. intro H. unfold load_config. agree_tac H. Qed.

  Lemma load_public_batch_agree d d' m n : dir_agree [F_PUB_COMMON; F_PUB_VERIFIER] d d' -> ld_pub d m n = ld_pub d' m n.
  Proof. clr. intro H. unfold load_public_batch. agree_tac H. Qed.

  Lemma dir_agree_incl ids ids' d d' : incl ids ids' -> dir_agree ids' d d' -> dir_agree ids d d'.
  Proof. clr. intros Hi H i Hin. apply H. apply Hi. exact Hin. Qed.

  Lemma private_prover_agree d d' : dir_agree PRIVATE_PROVER_FILES d d' -> priv_prover d = priv_prover d'.
  Proof.
    clr.
    intro H. unfold private_prover_from_dir.
    apply lbind_ext; [apply load_config_agree; eapply dir_agree_incl; [|exact H]; intros x [<-|[]]; inl|intros ?].
    unfold PRIVATE_PROVER_FILES in H. agree_tac H.
  Qed.

  Lemma public_prover_agree d d' : dir_agree PUBLIC_PROVER_FILES d d' -> pub_prover d = pub_prover d'.
  Proof.
    clr.
    intro H. unfold public_prover_from_dir.
    apply lbind_ext; [apply load_config_agree; eapply dir_agree_incl; [|exact H]; intros x [<-|[]]; inl|intros ?].
    unfold PUBLIC_PROVER_FILES in H. agree_tac H.
  Qed.

  Lemma aggregator_new_agree d d' : dir_agree AGGREGATOR_FILES d d' -> agg_new d = agg_new d'.
  Proof.
    clr.
    intro H. unfold aggregator_new.
    apply lbind_ext; [apply load_config_agree; eapply dir_agree_incl; [|exact H]; intros x [<-|[]]; inl|intros ?].
    apply lbind_ext; [reflexivity|intros ?].
    apply lbind_ext; [apply read_agree; apply H; inl|intros ?].
    apply lbind_ext; [apply read_agree; apply H; inl|intros ?].
    apply lbind_ext; [reflexivity|intros ?].
    apply lbind_ext; [apply load_public_batch_agree; eapply dir_agree_incl; [|exact H]; intros x [<-|[<-|[]]]; inl|intros ?].
    unfold AGGREGATOR_FILES in H. agree_tac H.
  Qed.

  (* ---- a file over the cap is never read by any loader *)
  Ltac never_tac E H :=
    repeat first
      [ eapply read_never_oversize; [exact E|exact H]
      | apply Forall_trace_lbind; [|intros ?]
      | rewrite trace_lift; constructor
      | rewrite trace_lguard; constructor
      | constructor ].

  Lemma never_read_oversize d id f :
    d id = Some f -> f_len f > MAX_ARTIFACT_FILE_BYTES ->
    Forall (fun e => e <> EvRead id) (trace (priv_prover d)) /\
    Forall (fun e => e <> EvRead id) (trace (pub_prover d)) /\
    Forall (fun e => e <> EvRead id) (trace (agg_new d)) /\
    (forall n, Forall (fun e => e <> EvRead id) (trace (gen_pb d n))) /\
    (forall m n, Forall (fun e => e <> EvRead id) (trace (gen_pub d m n))).
  Proof.
    clr.
    intros E H. unfold CAP in *.
    assert (Hcfg : Forall (fun e => e <> EvRead id) (trace (ld_cfg d))).
    { unfold load_config, CAP. never_tac E H. }
    assert (Hpub : forall m n, Forall (fun e => e <> EvRead id) (trace (ld_pub d m n))).
    { intros m n. unfold load_public_batch, CAP. never_tac E H. }
    repeat split.
    - unfold private_prover_from_dir, CAP. apply Forall_trace_lbind; [exact Hcfg|intros ?]. never_tac E H.
    - unfold public_prover_from_dir, CAP. apply Forall_trace_lbind; [exact Hcfg|intros ?]. never_tac E H.
    - unfold aggregator_new, CAP. apply Forall_trace_lbind; [exact Hcfg|intros ?].
      apply Forall_trace_lbind; [rewrite trace_lift; constructor|intros ?].
      apply Forall_trace_lbind; [eapply read_never_oversize; [exact E|exact H]|intros ?].
      apply Forall_trace_lbind; [eapply read_never_oversize; [exact E|exact H]|intros ?].
      apply Forall_trace_lbind; [rewrite trace_lift; constructor|intros ?].
      apply Forall_trace_lbind; [apply Hpub|intros ?]. never_tac E H.
    - intro n. unfold gen_private_batch, CAP. never_tac E H.
    - intros m n. unfold gen_public_batch, CAP. never_tac E H.
  Qed.

  (* ---- and if the FIRST artifact a loader consults is over the cap, it fails with the size error having read none *)
  Lemma gen_private_batch_oversize d n f : count_ok n = Ok tt ->
    d F_COMMON = Some f -> f_len f > MAX_ARTIFACT_FILE_BYTES ->
    gen_pb d n = ([EvStat F_COMMON], Err E_SIZE).
  Proof.
    clr.
    intros Hn E H. unfold gen_private_batch, CAP.
    rewrite (lbind_ok _ _ tt) by (rewrite result_lift; exact Hn). rewrite trace_lift. cbn [app].
    rewrite (result_lbind_err _ _ E_SIZE) by (rewrite (read_oversize _ _ _ _ E H); reflexivity).
    rewrite (read_oversize _ _ _ _ E H). reflexivity.
  Qed.
End AggregatorProofs.
