(* Proofs about the proof-pool model (C19-C22). *)
From V.Base Require Import Common.
From V.Generated Require Import Constants.
From V.Sys Require Import Pool.

(* ------------------------------------------------------------------ small list facts *)

Lemma list_eqb_refl a : list_eqb a a = true.
Proof. apply list_eqb_spec. reflexivity. Qed.

Lemma list_eqb_neq a b : list_eqb a b = false <-> a <> b.
Proof.
  split; intro H.
  - intro E. apply list_eqb_spec in E. congruence.
  - destruct (list_eqb a b) eqn:E; [|reflexivity]. apply list_eqb_spec in E. contradiction.
Qed.

Lemma list_eqb_sym a b : list_eqb a b = list_eqb b a.
Proof.
  destruct (list_eqb a b) eqn:E1, (list_eqb b a) eqn:E2; try reflexivity.
  - apply list_eqb_spec in E1. subst. rewrite list_eqb_refl in E2. discriminate.
  - apply list_eqb_spec in E2. subst. rewrite list_eqb_refl in E1. discriminate.
Qed.

Lemma mem_spec n l : mem n l = true <-> In n l.
Proof.
  unfold mem. rewrite existsb_exists. split.
  - intros [x [Hin He]]. apply list_eqb_spec in He. subst. exact Hin.
  - intro Hin. exists n. split; [exact Hin|apply list_eqb_refl].
Qed.

Lemma mem_false n l : mem n l = false <-> ~ In n l.
Proof.
  split; intro H.
  - intro Hin. apply mem_spec in Hin. congruence.
  - destruct (mem n l) eqn:E; [|reflexivity]. apply mem_spec in E. contradiction.
Qed.

Lemma filter_length_le {A} (f : A -> bool) l : (length (filter f l) <= length l)%nat.
Proof. induction l as [|x l IH]; cbn [filter length]; [lia|]. destruct (f x); cbn [length]; lia. Qed.

Lemma filter_filter {A} (f g : A -> bool) l : filter f (filter g l) = filter (fun x => g x && f x) l.
Proof.
  induction l as [|x l IH]; cbn [filter]; [reflexivity|].
  destruct (g x); cbn [filter andb]; [destruct (f x)|]; rewrite IH; reflexivity.
Qed.

Lemma filter_true {A} (l : list A) : filter (fun _ => true) l = l.
Proof. induction l as [|x l IH]; cbn [filter]; [reflexivity|]. rewrite IH. reflexivity. Qed.

Lemma filter_false {A} (l : list A) : filter (fun _ => false) l = [].
Proof. induction l as [|x l IH]; cbn [filter]; [reflexivity|exact IH]. Qed.

Lemma filter_map_comm {A B} (f : A -> B) (g : B -> bool) l :
  filter g (map f l) = map f (filter (fun x => g (f x)) l).
Proof.
  induction l as [|x l IH]; cbn [filter map]; [reflexivity|].
  destruct (g (f x)); cbn [map]; rewrite IH; reflexivity.
Qed.

Lemma filter_flat_map {A B} (f : A -> list B) (g : B -> bool) l :
  filter g (flat_map f l) = flat_map (fun x => filter g (f x)) l.
Proof.
  induction l as [|x l IH]; cbn [flat_map filter]; [reflexivity|].
  rewrite filter_app, IH. reflexivity.
Qed.

(* two different elements satisfying [f] make the filtered list at least two long *)
Lemma filter_two {A} (f : A -> bool) (l : list A) x y :
  In x l -> In y l -> x <> y -> f x = true -> f y = true -> (2 <= length (filter f l))%nat.
Proof.
  induction l as [|z l IH]; intros Hx Hy Hne Fx Fy; [contradiction|].
  assert (Hone : forall w, In w l -> f w = true -> (1 <= length (filter f l))%nat).
  { intros w Hw Fw. assert (Hin : In w (filter f l)) by (apply filter_In; auto).
    destruct (filter f l); [contradiction|cbn [length]; lia]. }
  cbn [filter]. destruct Hx as [Hx|Hx], Hy as [Hy|Hy].
  - congruence.
  - subst z. rewrite Fx. cbn [length]. specialize (Hone y Hy Fy). lia.
  - subst z. rewrite Fy. cbn [length]. specialize (Hone x Hx Fx). lia.
  - specialize (IH Hx Hy Hne Fx Fy). destruct (f z); cbn [length]; lia.
Qed.

Lemma in_firstn {A} n : forall (l : list A) x, In x (firstn n l) -> In x l.
Proof.
  induction n as [|n IH]; intros l x H; [contradiction|]. destruct l as [|y l]; [contradiction|].
  cbn [firstn] in H. destruct H as [H|H]; [left; exact H|right; apply IH; exact H].
Qed.

Lemma NoDup_app_cons_end {A} (l : list A) x : NoDup l -> ~ In x l -> NoDup (l ++ [x]).
Proof.
  induction l as [|y l IH]; intros Hnd Hni; cbn [app].
  - constructor; [intros []|constructor].
  - inversion Hnd as [|? ? Hy Hl]; subst. constructor.
    + rewrite in_app_iff. intros [H|[H|[]]]; [contradiction|]. subst. apply Hni. left. reflexivity.
    + apply IH; [exact Hl|]. intro H. apply Hni. right. exact H.
Qed.

(* ------------------------------------------------------------------ views of the bucket map *)

(* every pooled entry with the key of its bucket, buckets in map order, entries in admission order *)
Definition keyed_entries (bs : list (key * bucket)) : list (key * entry) :=
  flat_map (fun kb => map (pair (fst kb)) (b_proofs (snd kb))) bs.

Definition pooled (st : state) : list entry := all_entries (s_buckets st).

(* the pooled proofs of one key, in admission order *)
Definition bucket_entries (k : key) (bs : list (key * bucket)) : list entry :=
  map snd (filter (fun ke => list_eqb (fst ke) k) (keyed_entries bs)).

Lemma all_entries_keyed bs : all_entries bs = map snd (keyed_entries bs).
Proof.
  unfold all_entries, keyed_entries. induction bs as [|kb r IH]; cbn [flat_map map]; [reflexivity|].
  rewrite map_app, map_map. cbn [snd]. rewrite map_id, IH. reflexivity.
Qed.

Lemma keyed_in bs k e :
  In (k, e) (keyed_entries bs) <-> exists b, In (k, b) bs /\ In e (b_proofs b).
Proof.
  unfold keyed_entries. rewrite in_flat_map. split.
  - intros [[k' b] [Hin Hm]]. cbn [fst snd] in Hm. apply in_map_iff in Hm.
    destruct Hm as [e' [He Hin']]. inversion He; subst. exists b. auto.
  - intros [b [Hin He]]. exists (k, b). split; [exact Hin|]. cbn [fst snd]. apply in_map. exact He.
Qed.

Lemma keyed_key_in bs k e : In (k, e) (keyed_entries bs) -> In k (map fst bs).
Proof.
  intro H. apply keyed_in in H. destruct H as [b [Hin _]].
  change k with (fst (k, b)). apply in_map. exact Hin.
Qed.

(* ------------------------------------------------------------------ find_bucket *)

Lemma find_bucket_some k bs b : find_bucket k bs = Some b -> In (k, b) bs.
Proof.
  induction bs as [|[k' b'] r IH]; cbn [find_bucket]; [discriminate|].
  destruct (list_eqb k' k) eqn:E.
  - intro H. inversion H; subst. apply list_eqb_spec in E. subst. left. reflexivity.
  - intro H. right. apply IH. exact H.
Qed.

Lemma find_bucket_none k bs : find_bucket k bs = None <-> ~ In k (map fst bs).
Proof.
  induction bs as [|[k' b'] r IH]; cbn [find_bucket map fst In].
  - split; [intros _ []|reflexivity].
  - destruct (list_eqb k' k) eqn:E.
    + apply list_eqb_spec in E. subst. split; [discriminate|]. intro H. exfalso. apply H. left. reflexivity.
    + apply list_eqb_neq in E. rewrite IH. split; [intros H [H1|H1]; [congruence|contradiction]|].
      intros H H1. apply H. right. exact H1.
Qed.

Lemma find_bucket_nodup k bs b :
  NoDup (map fst bs) -> In (k, b) bs -> find_bucket k bs = Some b.
Proof.
  induction bs as [|[k' b'] r IH]; cbn [find_bucket map fst]; intros Hnd Hin; [contradiction|].
  inversion Hnd as [|? ? Hni Hnd']; subst.
  destruct Hin as [Hin|Hin].
  - inversion Hin; subst. rewrite list_eqb_refl. reflexivity.
  - destruct (list_eqb k' k) eqn:E.
    + apply list_eqb_spec in E. subst. exfalso. apply Hni.
      change k with (fst (k, b)). apply in_map. exact Hin.
    + apply IH; assumption.
Qed.

Lemma has_bucket_true k bs : has_bucket k bs = true <-> In k (map fst bs).
Proof.
  unfold has_bucket. destruct (find_bucket k bs) eqn:E.
  - split; [|reflexivity]. intros _. apply find_bucket_some in E.
    change k with (fst (k, b)). apply in_map. exact E.
  - split; [discriminate|]. intro H. apply find_bucket_none in E. contradiction.
Qed.

Lemma keyed_cons k b r : keyed_entries ((k, b) :: r) = map (pair k) (b_proofs b) ++ keyed_entries r.
Proof. reflexivity. Qed.

Lemma bucket_entries_cons k k' b r :
  bucket_entries k ((k', b) :: r) = (if list_eqb k' k then b_proofs b else []) ++ bucket_entries k r.
Proof.
  unfold bucket_entries. rewrite keyed_cons, filter_app, map_app. f_equal.
  rewrite (filter_map_comm (pair k')). cbn [fst].
  destruct (list_eqb k' k).
  - rewrite filter_true, map_map. cbn [snd]. apply map_id.
  - rewrite filter_false. reflexivity.
Qed.

Lemma bucket_entries_no_key k bs : ~ In k (map fst bs) -> bucket_entries k bs = [].
Proof.
  induction bs as [|[k' b'] r IH]; intro H; [reflexivity|].
  rewrite bucket_entries_cons. cbn [map fst] in H.
  rewrite IH by (intro H1; apply H; right; exact H1).
  assert (Hne : list_eqb k' k = false).
  { apply list_eqb_neq. intro E. apply H. left. exact E. }
  rewrite Hne. reflexivity.
Qed.

Lemma bucket_entries_find k bs :
  NoDup (map fst bs) ->
  bucket_entries k bs = match find_bucket k bs with Some b => b_proofs b | None => [] end.
Proof.
  induction bs as [|[k' b'] r IH]; intro Hnd; [reflexivity|].
  inversion Hnd as [|? ? Hni Hnd']; subst.
  rewrite bucket_entries_cons. cbn [find_bucket].
  destruct (list_eqb k' k) eqn:E.
  - apply list_eqb_spec in E. subst k'. rewrite bucket_entries_no_key by exact Hni. apply app_nil_r.
  - cbn [app]. apply IH. exact Hnd'.
Qed.

(* ------------------------------------------------------------------ add_entry *)

Lemma add_entry_keyed_perm k e bs x :
  In x (keyed_entries (add_entry k e bs)) <-> In x (keyed_entries bs) \/ x = (k, e).
Proof.
  induction bs as [|[k' b'] r IH].
  - cbn. intuition congruence.
  - cbn [add_entry]. destruct (list_eqb k' k) eqn:E.
    + apply list_eqb_spec in E. subst k'. unfold keyed_entries. cbn [flat_map fst snd b_proofs].
      rewrite map_app. cbn [map]. rewrite !in_app_iff. cbn [In]. intuition congruence.
    + unfold keyed_entries in *. cbn [flat_map fst snd]. rewrite !in_app_iff, IH. intuition.
Qed.

Lemma add_entry_keys k e bs :
  map fst (add_entry k e bs) = if has_bucket k bs then map fst bs else map fst bs ++ [k].
Proof.
  unfold has_bucket. induction bs as [|[k' b'] r IH]; cbn [add_entry find_bucket]; [reflexivity|].
  destruct (list_eqb k' k) eqn:E; [reflexivity|].
  cbn [map fst]. rewrite IH. destruct (find_bucket k r); reflexivity.
Qed.

Lemma add_entry_length k e bs :
  zlen (add_entry k e bs) = if has_bucket k bs then zlen bs else zlen bs + 1.
Proof.
  unfold zlen. rewrite <- (map_length fst (add_entry k e bs)), add_entry_keys.
  destruct (has_bucket k bs); [rewrite map_length; reflexivity|].
  rewrite app_length, map_length. cbn [length]. lia.
Qed.

Lemma add_entry_nonempty k e bs :
  Forall (fun kb => b_proofs (snd kb) <> []) bs ->
  Forall (fun kb => b_proofs (snd kb) <> []) (add_entry k e bs).
Proof.
  induction bs as [|[k' b'] r IH]; intro H; cbn [add_entry].
  - constructor; [cbn; discriminate|constructor].
  - inversion H; subst. destruct (list_eqb k' k).
    + constructor; [|assumption]. cbn [snd b_proofs]. intro E. apply app_eq_nil in E. destruct E; discriminate.
    + constructor; [assumption|]. apply IH. assumption.
Qed.

Lemma add_entry_all k e bs :
  length (all_entries (add_entry k e bs)) = S (length (all_entries bs)).
Proof.
  unfold all_entries. induction bs as [|[k' b'] r IH]; cbn [add_entry flat_map]; [reflexivity|].
  destruct (list_eqb k' k); cbn [flat_map snd b_proofs]; rewrite !app_length.
  - cbn [length]. lia.
  - rewrite IH. lia.
Qed.

Lemma add_entry_filter_count (f : entry -> bool) k e bs :
  length (filter f (all_entries (add_entry k e bs)))
  = (length (filter f (all_entries bs)) + (if f e then 1 else 0))%nat.
Proof.
  unfold all_entries. induction bs as [|[k' b'] r IH]; cbn [add_entry flat_map snd b_proofs].
  - cbn [filter app]. destruct (f e); reflexivity.
  - destruct (list_eqb k' k); cbn [flat_map snd b_proofs]; rewrite !filter_app, !app_length.
    + cbn [filter]. destruct (f e); cbn [length]; lia.
    + rewrite IH. lia.
Qed.

(* ------------------------------------------------------------------ mark_snapshot *)

Lemma mark_snapshot_keyed k t bs : keyed_entries (mark_snapshot k t bs) = keyed_entries bs.
Proof.
  unfold keyed_entries. induction bs as [|[k' b'] r IH]; cbn [mark_snapshot flat_map]; [reflexivity|].
  destruct (list_eqb k' k); cbn [flat_map fst snd b_proofs]; [reflexivity|]. rewrite IH. reflexivity.
Qed.

Lemma mark_snapshot_keys k t bs : map fst (mark_snapshot k t bs) = map fst bs.
Proof.
  induction bs as [|[k' b'] r IH]; cbn [mark_snapshot map]; [reflexivity|].
  destruct (list_eqb k' k); cbn [map fst]; [reflexivity|]. rewrite IH. reflexivity.
Qed.

Lemma mark_snapshot_nonempty k t bs :
  Forall (fun kb => b_proofs (snd kb) <> []) bs ->
  Forall (fun kb => b_proofs (snd kb) <> []) (mark_snapshot k t bs).
Proof.
  induction bs as [|[k' b'] r IH]; intro H; cbn [mark_snapshot]; [constructor|].
  inversion H; subst. destruct (list_eqb k' k); constructor; auto.
Qed.

(* ------------------------------------------------------------------ retain_buckets *)

Definition kept (sel : key -> bool) (keep : entry -> bool) (ke : key * entry) : bool :=
  negb (sel (fst ke)) || keep (snd ke).

Lemma retain_keyed sel keep bs :
  keyed_entries (retain_buckets sel keep bs) = filter (kept sel keep) (keyed_entries bs).
Proof.
  unfold keyed_entries, retain_buckets. induction bs as [|[k b] r IH]; cbn [flat_map]; [reflexivity|].
  rewrite flat_map_app, filter_app, IH. f_equal. cbn [fst snd].
  rewrite (filter_map_comm (pair k)). unfold kept. cbn [fst snd].
  destruct (sel k); cbn [negb orb].
  - destruct (filter keep (b_proofs b)) eqn:E; cbn [flat_map map]; [reflexivity|].
    cbn [fst snd b_proofs]. rewrite app_nil_r. reflexivity.
  - cbn [flat_map fst snd]. rewrite app_nil_r, filter_true. reflexivity.
Qed.

Lemma removed_keyed sel keep bs :
  removed_entries sel keep bs = map snd (filter (fun ke => negb (kept sel keep ke)) (keyed_entries bs)).
Proof.
  unfold keyed_entries, removed_entries. induction bs as [|[k b] r IH]; cbn [flat_map]; [reflexivity|].
  rewrite filter_app, map_app, IH. f_equal. cbn [fst snd].
  rewrite (filter_map_comm (pair k)), map_map. cbn [snd]. rewrite map_id. unfold kept. cbn [fst snd].
  destruct (sel k); cbn [negb orb]; [reflexivity|]. rewrite filter_false. reflexivity.
Qed.

Definition retain_head (sel : key -> bool) (keep : entry -> bool) (k : key) (b : bucket) : list (key * bucket) :=
  if sel k then match filter keep (b_proofs b) with
                | [] => []
                | ps => [(k, mkBucket ps (b_snap b))]
                end
  else [(k, b)].

Lemma retain_cons sel keep k b r :
  retain_buckets sel keep ((k, b) :: r) = retain_head sel keep k b ++ retain_buckets sel keep r.
Proof. reflexivity. Qed.

Lemma retain_head_cases sel keep k b :
  retain_head sel keep k b = [] \/ exists b', retain_head sel keep k b = [(k, b')] /\ b_proofs b' <> [] \/
  (retain_head sel keep k b = [(k, b)]).
Proof.
  unfold retain_head. destruct (sel k).
  - destruct (filter keep (b_proofs b)) eqn:E; [left; reflexivity|].
    right. eexists. left. split; [reflexivity|]. cbn. discriminate.
  - right. exists b. right. reflexivity.
Qed.

Lemma retain_head_keys sel keep k b x : In x (map fst (retain_head sel keep k b)) -> x = k.
Proof.
  unfold retain_head. destruct (sel k).
  - destruct (filter keep (b_proofs b)); cbn; [contradiction|]. intros [H|[]]. auto.
  - cbn. intros [H|[]]. auto.
Qed.

Lemma retain_head_length sel keep k b : (length (retain_head sel keep k b) <= 1)%nat.
Proof.
  unfold retain_head. destruct (sel k); [|cbn; lia]. destruct (filter keep (b_proofs b)); cbn; lia.
Qed.

Lemma retain_keys_incl sel keep bs k :
  In k (map fst (retain_buckets sel keep bs)) -> In k (map fst bs).
Proof.
  induction bs as [|[k' b] r IH]; [auto|].
  rewrite retain_cons, map_app, in_app_iff. cbn [map fst]. intros [H|H].
  - left. apply retain_head_keys in H. auto.
  - right. apply IH. exact H.
Qed.

Lemma retain_keys_nodup sel keep bs :
  NoDup (map fst bs) -> NoDup (map fst (retain_buckets sel keep bs)).
Proof.
  induction bs as [|[k b] r IH]; intro H; [constructor|].
  inversion H as [|? ? Hni Hnd]; subst. specialize (IH Hnd).
  rewrite retain_cons, map_app.
  assert (Hni' : ~ In k (map fst (retain_buckets sel keep r))).
  { intro Hin. apply Hni. eapply retain_keys_incl. exact Hin. }
  unfold retain_head. destruct (sel k).
  - destruct (filter keep (b_proofs b)); cbn [map app fst]; [exact IH|]. constructor; assumption.
  - cbn [map app fst]. constructor; assumption.
Qed.

Lemma retain_length sel keep bs : (length (retain_buckets sel keep bs) <= length bs)%nat.
Proof.
  induction bs as [|[k b] r IH]; [cbn; lia|].
  rewrite retain_cons, app_length. pose proof (retain_head_length sel keep k b). cbn [length]. lia.
Qed.

Lemma retain_nonempty sel keep bs :
  Forall (fun kb => b_proofs (snd kb) <> []) bs ->
  Forall (fun kb => b_proofs (snd kb) <> []) (retain_buckets sel keep bs).
Proof.
  induction bs as [|[k b] r IH]; intro H; [constructor|].
  inversion H as [|? ? Hb Hr]; subst. rewrite retain_cons. apply Forall_app. split; [|apply IH; exact Hr].
  unfold retain_head. destruct (sel k).
  - destruct (filter keep (b_proofs b)) eqn:E; constructor; [|constructor]. cbn. discriminate.
  - constructor; [exact Hb|constructor].
Qed.

(* ------------------------------------------------------------------ the nullifier index *)

Lemma idx_lookup_remove_all ns n idx :
  idx_lookup n (idx_remove_all ns idx) = if mem n ns then None else idx_lookup n idx.
Proof.
  unfold idx_remove_all. induction idx as [|[n' k'] r IH]; cbn [filter idx_lookup fst].
  - destruct (mem n ns); reflexivity.
  - destruct (mem n' ns) eqn:Em; cbn [negb idx_lookup].
    + rewrite IH. destruct (list_eqb n' n) eqn:E; [|reflexivity].
      apply list_eqb_spec in E. subst. rewrite Em. reflexivity.
    + destruct (list_eqb n' n) eqn:E; [|exact IH].
      apply list_eqb_spec in E. subst. rewrite Em. reflexivity.
Qed.

Lemma idx_lookup_insert n' k n idx :
  idx_lookup n (idx_insert n' k idx) = if list_eqb n' n then Some k else idx_lookup n idx.
Proof.
  unfold idx_insert. cbn [idx_lookup]. destruct (list_eqb n' n) eqn:E; [reflexivity|].
  rewrite idx_lookup_remove_all. cbn [mem existsb]. rewrite list_eqb_sym, E. reflexivity.
Qed.

Lemma idx_lookup_insert_all ns k n idx :
  idx_lookup n (idx_insert_all ns k idx) = if mem n ns then Some k else idx_lookup n idx.
Proof.
  unfold idx_insert_all. revert idx. induction ns as [|n' r IH]; intro idx; cbn [fold_left]; [reflexivity|].
  rewrite IH. cbn [mem existsb]. fold (mem n r). rewrite idx_lookup_insert, (list_eqb_sym n n').
  destruct (mem n r); [rewrite orb_true_r; reflexivity|]. rewrite orb_false_r. reflexivity.
Qed.

Lemma idx_keys_remove_all ns idx x : In x (map fst (idx_remove_all ns idx)) -> In x (map fst idx).
Proof.
  unfold idx_remove_all. intro H. apply in_map_iff in H. destruct H as [y [E Hin]].
  apply filter_In in Hin. destruct Hin as [Hin _]. subst. apply in_map. exact Hin.
Qed.

Lemma idx_nodup_remove_all ns idx : NoDup (map fst idx) -> NoDup (map fst (idx_remove_all ns idx)).
Proof.
  unfold idx_remove_all. induction idx as [|[n k] r IH]; intro H; cbn [filter]; [constructor|].
  inversion H as [|? ? Hni Hnd]; subst. cbn [fst]. destruct (negb (mem n ns)); [|apply IH; exact Hnd].
  cbn [map fst]. constructor; [|apply IH; exact Hnd].
  intro Hin. apply Hni. eapply idx_keys_remove_all. exact Hin.
Qed.

Lemma idx_nodup_insert n k idx : NoDup (map fst idx) -> NoDup (map fst (idx_insert n k idx)).
Proof.
  intro H. unfold idx_insert. cbn [map fst]. constructor; [|apply idx_nodup_remove_all; exact H].
  intro Hin. apply in_map_iff in Hin. destruct Hin as [[n' k'] [E Hin]]. cbn [fst] in E. subst n'.
  unfold idx_remove_all in Hin. apply filter_In in Hin. destruct Hin as [_ Hf]. cbn [fst mem existsb] in Hf.
  rewrite list_eqb_refl in Hf. discriminate.
Qed.

Lemma idx_nodup_insert_all ns k idx : NoDup (map fst idx) -> NoDup (map fst (idx_insert_all ns k idx)).
Proof.
  unfold idx_insert_all. revert idx. induction ns as [|n r IH]; intros idx H; cbn [fold_left]; [exact H|].
  apply IH. apply idx_nodup_insert. exact H.
Qed.

Lemma idx_mem_false n idx : idx_mem n idx = false <-> idx_lookup n idx = None.
Proof. unfold idx_mem. destruct (idx_lookup n idx); split; congruence. Qed.

(* ------------------------------------------------------------------ configurations, parse_metadata *)

(* what ProofPool::new establishes *)
Record wf_cfg (cfg : config) : Prop := {
  wf_batch : 1 <= c_batch cfg <= MAX_PROOF_COUNT;
  wf_leaves : 1 <= c_leaves cfg <= MAX_PROOF_COUNT;
  wf_max_proofs : c_batch cfg <= c_max_proofs cfg;
  wf_max_buckets : 0 < c_max_buckets cfg;
  wf_budget : 0 < c_budget cfg;
  wf_window : 0 < c_window cfg;
  wf_pi_len : c_pi_len cfg = pi_len_of (c_leaves cfg) }.

(* public inputs are u64 values *)
Definition wf_proof (pr : proof) : Prop := Forall (fun x => 0 <= x < two64) (p_pis pr).
Definition wf_op (o : op) : Prop := match o with Push pr => wf_proof pr | _ => True end.

Lemma to_canonical_range x : 0 <= x < two64 -> 0 <= to_canonical x < p.
Proof. unfold to_canonical, two64, p. intro H. destruct (Z.leb_spec 18446744069414584321 x); lia. Qed.

Lemma sat_add64_range a b : 0 <= a -> 0 <= b -> 0 <= sat_add64 a b < two64.
Proof. unfold sat_add64, two64. intros. destruct (Z.ltb_spec (a + b) 18446744073709551616); lia. Qed.

Lemma getc_ok pis i : (i < length pis)%nat -> exists v, getc pis i = Ok v.
Proof.
  intro H. unfold getc. destruct (nth_error pis i) eqn:E; [eexists; reflexivity|].
  apply nth_error_None in E. lia.
Qed.

Lemma getc_range pis i v : Forall (fun x => 0 <= x < two64) pis -> getc pis i = Ok v -> 0 <= v < p.
Proof.
  intros Hw. unfold getc. destruct (nth_error pis i) eqn:E; [|discriminate].
  intro H. inversion H; subst. apply to_canonical_range.
  apply nth_error_In in E. rewrite Forall_forall in Hw. apply Hw. exact E.
Qed.

Lemma slice4_ok pis a : (a + 4 <= length pis)%nat -> exists d, slice4 pis a = Ok d /\ length d = 4%nat.
Proof.
  intro H. unfold slice4. destruct (Nat.leb_spec (a + 4) (length pis)); [|lia].
  eexists. split; [reflexivity|]. rewrite map_length, firstn_length, skipn_length. lia.
Qed.

Lemma slice4_len pis a d : slice4 pis a = Ok d -> length d = 4%nat.
Proof.
  unfold slice4. destruct (Nat.leb_spec (a + 4) (length pis)); [|discriminate].
  intro E. assert (E' : d = map to_canonical (firstn 4 (skipn a pis))) by congruence.
  rewrite E', map_length, firstn_length, skipn_length. lia.
Qed.

Lemma read_nulls_ok pis count : forall start,
  (start + 4 * count <= length pis)%nat -> exists l, read_nulls pis start count = Ok l.
Proof.
  induction count as [|c IH]; intros start H; cbn [read_nulls]; [eexists; reflexivity|].
  destruct (slice4_ok pis start) as [d [Hd _]]; [lia|]. rewrite Hd. cbn [rbind].
  destruct (IH (start + 4)%nat) as [l Hl]; [lia|]. rewrite Hl. cbn [rbind]. eexists. reflexivity.
Qed.

Lemma read_volume_ok pis count : forall start acc,
  (start + SLOT * count <= length pis)%nat -> exists v, read_volume pis start count acc = Ok v.
Proof.
  assert (HS : SLOT = 5%nat) by reflexivity.
  induction count as [|c IH]; intros start acc H; cbn [read_volume]; [eexists; reflexivity|].
  destruct (getc_ok pis start) as [v Hv]; [lia|]. rewrite Hv. cbn [rbind]. apply IH. lia.
Qed.

Lemma read_volume_range pis count : forall start acc v,
  Forall (fun x => 0 <= x < two64) pis -> 0 <= acc < two64 ->
  read_volume pis start count acc = Ok v -> 0 <= v < two64.
Proof.
  induction count as [|c IH]; intros start acc v Hw Ha; cbn [read_volume].
  - intro E. inversion E; subst. exact Ha.
  - destruct (getc pis start) as [x|] eqn:Ex; cbn [rbind]; [|discriminate].
    apply IH; [exact Hw|]. apply sat_add64_range; [lia|]. pose proof (getc_range _ _ _ Hw Ex). lia.
Qed.

Lemma read_err_panic_nulls pis count : forall start c, read_nulls pis start count = Err c -> c = PANIC.
Proof.
  induction count as [|n IH]; intros start c; cbn [read_nulls]; [discriminate|].
  unfold slice4 at 1. destruct (start + 4 <=? length pis)%nat; cbn [rbind].
  - destruct (read_nulls pis (start + 4) n) eqn:E; cbn [rbind]; [discriminate|].
    intro H. inversion H; subst. eapply IH. exact E.
  - intro H. inversion H. reflexivity.
Qed.

Lemma read_err_panic_volume pis count : forall start acc c, read_volume pis start count acc = Err c -> c = PANIC.
Proof.
  induction count as [|n IH]; intros start acc c; cbn [read_volume]; [discriminate|].
  unfold getc at 1. destruct (nth_error pis start); cbn [rbind].
  - apply IH.
  - intro H. inversion H. reflexivity.
Qed.

Lemma read_meta_err_panic pis c : read_meta pis = Err c -> c = PANIC.
Proof.
  unfold read_meta, slice4, getc.
  destruct (OFF_BH + 4 <=? length pis)%nat; cbn [rbind]; [|intro H; inversion H; reflexivity].
  destruct (nth_error pis OFF_ASSET); cbn [rbind]; [|intro H; inversion H; reflexivity].
  destruct (nth_error pis OFF_FEE); cbn [rbind]; [discriminate|intro H; inversion H; reflexivity].
Qed.

Lemma parse_err_codes cfg pr c : parse_metadata cfg pr = Err c -> c = E_LEN \/ c = PANIC.
Proof.
  unfold parse_metadata. destruct (zlen (p_pis pr) =? c_pi_len cfg); cbn [guard rbind].
  - destruct (read_meta (p_pis pr)) as [m|c1] eqn:Em; cbn [rbind].
    + destruct (read_nulls _ _ _) as [l|c2] eqn:En; cbn [rbind].
      * destruct (read_volume _ _ _ _) as [v|c3] eqn:Ev; cbn [rbind]; [discriminate|].
        intro H. inversion H; subst. right. eapply read_err_panic_volume. exact Ev.
      * intro H. inversion H; subst. right. eapply read_err_panic_nulls. exact En.
    + intro H. inversion H; subst. right. eapply read_meta_err_panic. exact Em.
  - intro H. inversion H. left. reflexivity.
Qed.

(* for a configuration accepted by ProofPool::new, parsing fails exactly on a wrong length; the digests
   are always canonical because the limbs are canonicalised field elements *)
Lemma parse_ok_iff_len cfg pr :
  wf_cfg cfg -> (is_ok (parse_metadata cfg pr) = true <-> zlen (p_pis pr) = c_pi_len cfg).
Proof.
  intro W. destruct W as [_ [Hl1 Hl2] _ _ _ _ Hpl]. unfold parse_metadata.
  destruct (Z.eqb_spec (zlen (p_pis pr)) (c_pi_len cfg)) as [E|E]; cbn [guard rbind].
  2:{ cbn [is_ok]. split; [discriminate|contradiction]. }
  split; [intros _; exact E|intros _].
  assert (Hlen : length (p_pis pr) = (21 * Z.to_nat (c_leaves cfg) + 8)%nat).
  { unfold zlen in E. rewrite Hpl in E. unfold pi_len_of, LEAF_PI_LEN in E. lia. }
  set (n := Z.to_nat (c_leaves cfg)) in *.
  assert (Hn : (1 <= n)%nat) by (unfold n; lia).
  assert (HB : OFF_BH = 3%nat) by reflexivity. assert (HA : OFF_ASSET = 1%nat) by reflexivity.
  assert (HF : OFF_FEE = 2%nat) by reflexivity. assert (HH : HEADER = 8%nat) by reflexivity.
  assert (HS : SLOT = 5%nat) by reflexivity.
  unfold read_meta.
  destruct (slice4_ok (p_pis pr) OFF_BH) as [bh [Hbh _]]; [lia|]. rewrite Hbh. cbn [rbind].
  destruct (getc_ok (p_pis pr) OFF_ASSET) as [a Ha]; [lia|]. rewrite Ha. cbn [rbind].
  destruct (getc_ok (p_pis pr) OFF_FEE) as [f Hf]; [lia|]. rewrite Hf. cbn [rbind].
  destruct (read_nulls_ok (p_pis pr) n (nullifiers_start n)) as [l Hl]; [unfold nullifiers_start; lia|].
  rewrite Hl. cbn [rbind].
  destruct (read_volume_ok (p_pis pr) (n * 2) HEADER 0) as [v Hv]; [lia|]. rewrite Hv. reflexivity.
Qed.

Lemma parse_meta cfg pr k nulls vol :
  parse_metadata cfg pr = Ok (k, nulls, vol) ->
  zlen (p_pis pr) = c_pi_len cfg /\
  exists bh a f, read_meta (p_pis pr) = Ok (bh, a, f) /\ k = bh ++ [a; f] /\ length bh = 4%nat.
Proof.
  unfold parse_metadata. destruct (Z.eqb_spec (zlen (p_pis pr)) (c_pi_len cfg)) as [E|E]; cbn [guard rbind]; [|discriminate].
  destruct (read_meta (p_pis pr)) as [[[bh a] f]|] eqn:Em; cbn [rbind]; [|discriminate].
  destruct (read_nulls _ _ _); cbn [rbind]; [|discriminate].
  destruct (read_volume _ _ _ _); cbn [rbind]; [|discriminate].
  intro H. inversion H; subst. split; [exact E|]. exists bh, a, f. split; [reflexivity|]. split; [reflexivity|].
  unfold read_meta in Em. destruct (slice4 (p_pis pr) OFF_BH) eqn:Es; cbn [rbind] in Em; [|discriminate].
  destruct (getc (p_pis pr) OFF_ASSET); cbn [rbind] in Em; [|discriminate].
  destruct (getc (p_pis pr) OFF_FEE); cbn [rbind] in Em; [|discriminate].
  inversion Em; subst. eapply slice4_len. exact Es.
Qed.

Lemma parse_vol_range cfg pr k nulls vol :
  wf_proof pr -> parse_metadata cfg pr = Ok (k, nulls, vol) -> 0 <= vol < two64.
Proof.
  intro Hw. unfold parse_metadata. destruct (zlen (p_pis pr) =? c_pi_len cfg); cbn [guard rbind]; [|discriminate].
  destruct (read_meta (p_pis pr)); cbn [rbind]; [|discriminate].
  destruct (read_nulls _ _ _); cbn [rbind]; [|discriminate].
  destruct (read_volume _ _ _ _) eqn:Ev; cbn [rbind]; [|discriminate].
  intro H. inversion H; subst. eapply read_volume_range; [exact Hw| |exact Ev]. unfold two64. lia.
Qed.

Lemma is_dummy_key bh a f : length bh = 4%nat -> is_dummy (bh ++ [a; f]) = list_eqb bh ZERO_DIGEST.
Proof. intro H. unfold is_dummy. rewrite firstn_app, H, Nat.sub_diag, <- H, firstn_all. cbn [firstn]. rewrite app_nil_r. reflexivity. Qed.

(* ------------------------------------------------------------------ the invariant (C20) *)

Definition entry_ok (cfg : config) (ke : key * entry) : Prop :=
  parse_metadata cfg (e_proof (snd ke)) = Ok (fst ke, e_nulls (snd ke), e_vol (snd ke))
  /\ p_ver (e_proof (snd ke)) = true
  /\ is_dummy (fst ke) = false
  /\ 0 <= e_vol (snd ke) < two64.

Definition has_null (n : digest) (e : entry) : bool := mem n (e_nulls e).
(* in how many pooled proofs does nullifier [n] occur *)
Definition null_count (n : digest) (bs : list (key * bucket)) : nat :=
  length (filter (has_null n) (all_entries bs)).

Record Inv (cfg : config) (st : state) : Prop := {
  (* the bucket map is a map *)
  inv_keys : NoDup (map fst (s_buckets st));
  (* no bucket is empty *)
  inv_nonempty : Forall (fun kb => b_proofs (snd kb) <> []) (s_buckets st);
  (* every proof sits in the bucket of its own key (and was admitted: it parses to exactly the recorded
     metadata, verifies, is not the dummy sentinel) *)
  inv_entry : Forall (entry_ok cfg) (keyed_entries (s_buckets st));
  (* the index holds exactly the nullifiers of the pooled proofs, each mapped to its proof's bucket *)
  inv_index : forall n k, idx_lookup n (s_index st) = Some k <->
                          exists e, In (k, e) (keyed_entries (s_buckets st)) /\ In n (e_nulls e);
  inv_index_nodup : NoDup (map fst (s_index st));
  (* no nullifier occurs in two pooled proofs *)
  inv_unshared : forall n, (null_count n (s_buckets st) <= 1)%nat;
  (* limits *)
  inv_len : total_len (s_buckets st) <= c_max_proofs cfg;
  inv_nbuckets : zlen (s_buckets st) <= c_max_buckets cfg;
  inv_verifs : 0 <= s_verifs st <= c_budget cfg }.

Lemma null_count_keyed n bs :
  null_count n bs = length (filter (fun ke => has_null n (snd ke)) (keyed_entries bs)).
Proof. unfold null_count. rewrite all_entries_keyed, filter_map_comm, map_length. reflexivity. Qed.

Lemma null_count_pos n bs k e :
  In (k, e) (keyed_entries bs) -> In n (e_nulls e) -> (1 <= null_count n bs)%nat.
Proof.
  intros Hin Hn. rewrite null_count_keyed.
  assert (H : In (k, e) (filter (fun ke => has_null n (snd ke)) (keyed_entries bs))).
  { apply filter_In. split; [exact Hin|]. cbn [snd]. unfold has_null. apply mem_spec. exact Hn. }
  destruct (filter _ _); [contradiction|cbn [length]; lia].
Qed.

Lemma inv_init cfg t0 : wf_cfg cfg -> Inv cfg (init t0).
Proof.
  intro W. destruct W. unfold init. constructor; cbn.
  - constructor.
  - constructor.
  - constructor.
  - intros n k. split; [discriminate|intros [e [[] _]]].
  - constructor.
  - intro n. lia.
  - unfold total_len, zlen. cbn. lia.
  - unfold zlen. cbn. lia.
  - lia.
Qed.

(* a change of the budget fields only *)
Lemma inv_set_budget cfg st ws v :
  Inv cfg st -> 0 <= v <= c_budget cfg -> Inv cfg (set_budget st ws v).
Proof. intros I Hv. destruct I. constructor; cbn; auto. Qed.

Lemma inv_add cfg st k e :
  Inv cfg st -> entry_ok cfg (k, e) ->
  (forall n, In n (e_nulls e) -> idx_lookup n (s_index st) = None) ->
  total_len (s_buckets st) < c_max_proofs cfg ->
  (has_bucket k (s_buckets st) = true \/ zlen (s_buckets st) < c_max_buckets cfg) ->
  Inv cfg (set_buckets st (add_entry k e (s_buckets st)) (idx_insert_all (e_nulls e) k (s_index st))).
Proof.
  intros I Hok Hfresh Hlen Hbk. destruct I as [Ik Ine Ie Ii Iin Iu Il Inb Iv].
  constructor; cbn [set_buckets s_buckets s_index s_verifs].
  - rewrite add_entry_keys. destruct (has_bucket k (s_buckets st)) eqn:Hb; [exact Ik|].
    apply NoDup_app_cons_end; [exact Ik|]. intro Hin. apply has_bucket_true in Hin. congruence.
  - apply add_entry_nonempty. exact Ine.
  - apply Forall_forall. intros x Hx. apply add_entry_keyed_perm in Hx. destruct Hx as [Hx|Hx].
    + rewrite Forall_forall in Ie. apply Ie. exact Hx.
    + subst x. exact Hok.
  - intros n k'. rewrite idx_lookup_insert_all. destruct (mem n (e_nulls e)) eqn:Em.
    + apply mem_spec in Em. split.
      * intro H. inversion H; subst k'. exists e. split; [|exact Em]. apply add_entry_keyed_perm. right. reflexivity.
      * intros [e' [Hin Hn]]. apply add_entry_keyed_perm in Hin. destruct Hin as [Hin|Hin].
        -- assert (Hl : idx_lookup n (s_index st) = Some k') by (apply Ii; exists e'; auto).
           rewrite (Hfresh n Em) in Hl. discriminate.
        -- inversion Hin; subst. reflexivity.
    + apply mem_false in Em. rewrite Ii. split.
      * intros [e' [Hin Hn]]. exists e'. split; [|exact Hn]. apply add_entry_keyed_perm. left. exact Hin.
      * intros [e' [Hin Hn]]. apply add_entry_keyed_perm in Hin. destruct Hin as [Hin|Hin].
        -- exists e'. auto.
        -- inversion Hin; subst. contradiction.
  - apply idx_nodup_insert_all. exact Iin.
  - intro n. unfold null_count. rewrite add_entry_filter_count. fold (null_count n (s_buckets st)).
    unfold has_null. destruct (mem n (e_nulls e)) eqn:Em; [|specialize (Iu n); lia].
    apply mem_spec in Em.
    assert (H0 : null_count n (s_buckets st) = 0%nat).
    { destruct (null_count n (s_buckets st)) eqn:Ec; [reflexivity|]. exfalso.
      rewrite null_count_keyed in Ec.
      destruct (filter (fun ke => has_null n (snd ke)) (keyed_entries (s_buckets st))) as [|[k' e'] r] eqn:Ef; [discriminate|].
      assert (Hin : In (k', e') (filter (fun ke => has_null n (snd ke)) (keyed_entries (s_buckets st)))) by (rewrite Ef; left; reflexivity).
      apply filter_In in Hin. destruct Hin as [Hin Hh]. cbn [snd] in Hh. unfold has_null in Hh. apply mem_spec in Hh.
      assert (Hl : idx_lookup n (s_index st) = Some k') by (apply Ii; exists e'; auto).
      rewrite (Hfresh n Em) in Hl. discriminate. }
    lia.
  - unfold total_len, zlen in *. rewrite add_entry_all. lia.
  - rewrite add_entry_length. destruct (has_bucket k (s_buckets st)); [exact Inb|]. destruct Hbk; [discriminate|lia].
  - exact Iv.
Qed.

Lemma filter_and_length_le {A} (f g : A -> bool) l :
  (length (filter (fun x => g x && f x) l) <= length (filter f l))%nat.
Proof.
  rewrite (filter_ext _ (fun x => f x && g x)) by (intro; apply andb_comm).
  rewrite <- filter_filter. apply filter_length_le.
Qed.

Lemma inv_retain cfg st sel keep :
  Inv cfg st -> Inv cfg (fst (retain_state sel keep st)).
Proof.
  intro I. destruct I as [Ik Ine Ie Ii Iin Iu Il Inb Iv].
  unfold retain_state. cbn [fst]. constructor; cbn [set_buckets s_buckets s_index s_verifs].
  - apply retain_keys_nodup. exact Ik.
  - apply retain_nonempty. exact Ine.
  - rewrite retain_keyed. apply Forall_forall. intros x Hx. apply filter_In in Hx.
    rewrite Forall_forall in Ie. apply Ie. apply Hx.
  - intros n k. rewrite idx_lookup_remove_all, retain_keyed, removed_keyed.
    destruct (mem n (flat_map e_nulls (map snd (filter (fun ke => negb (kept sel keep ke)) (keyed_entries (s_buckets st)))))) eqn:Em.
    + split; [discriminate|]. intros [e [Hin Hn]]. exfalso.
      apply filter_In in Hin. destruct Hin as [Hin Hk].
      apply mem_spec in Em. apply in_flat_map in Em. destruct Em as [e' [He' Hn']].
      apply in_map_iff in He'. destruct He' as [[k' e''] [E Hin']]. cbn [snd] in E. subst e''.
      apply filter_In in Hin'. destruct Hin' as [Hin' Hk'].
      assert (Hne : (k, e) <> (k', e')).
      { intro E. rewrite E in Hk. rewrite Hk in Hk'. discriminate. }
      pose proof (filter_two (fun ke => has_null n (snd ke)) _ _ _ Hin Hin' Hne) as H2.
      rewrite <- null_count_keyed in H2. specialize (Iu n).
      assert (2 <= null_count n (s_buckets st))%nat; [|lia].
      apply H2; cbn [snd]; unfold has_null; apply mem_spec; assumption.
    + apply mem_false in Em. rewrite Ii. split.
      * intros [e [Hin Hn]]. exists e. split; [|exact Hn]. apply filter_In. split; [exact Hin|].
        destruct (kept sel keep (k, e)) eqn:Hk; [reflexivity|]. exfalso. apply Em.
        apply in_flat_map. exists e. split; [|exact Hn].
        change e with (snd (k, e)). apply in_map. apply filter_In. split; [exact Hin|]. rewrite Hk. reflexivity.
      * intros [e [Hin Hn]]. apply filter_In in Hin. exists e. split; [apply Hin|exact Hn].
  - apply idx_nodup_remove_all. exact Iin.
  - intro n. rewrite null_count_keyed, retain_keyed, filter_filter.
    specialize (Iu n). rewrite null_count_keyed in Iu.
    pose proof (filter_and_length_le (fun ke => has_null n (snd ke)) (kept sel keep) (keyed_entries (s_buckets st))). lia.
  - unfold total_len, zlen in *. rewrite all_entries_keyed, map_length, retain_keyed.
    rewrite all_entries_keyed, map_length in Il.
    pose proof (filter_length_le (kept sel keep) (keyed_entries (s_buckets st))). lia.
  - unfold zlen in *. pose proof (retain_length sel keep (s_buckets st)). lia.
  - exact Iv.
Qed.

(* ------------------------------------------------------------------ push, flattened *)

Definition restarts (cfg : config) (st : state) : bool :=
  sat_sub (s_now st) (s_win_start st) >=? c_window cfg.
(* the attempt counter as the budget check of a push sees it *)
Definition window_verifs (cfg : config) (st : state) : Z :=
  if restarts cfg st then 0 else s_verifs st.
Definition window_start (cfg : config) (st : state) : Z :=
  if restarts cfg st then s_now st else s_win_start st.
Definition windowed (cfg : config) (st : state) : state :=
  set_budget st (window_start cfg st) (window_verifs cfg st).
Definition charged (cfg : config) (st : state) : state :=
  set_budget st (window_start cfg st) (window_verifs cfg st + 1).

Lemma set_budget_id st : set_budget st (s_win_start st) (s_verifs st) = st.
Proof. destruct st. reflexivity. Qed.

Lemma push_cases cfg st pr :
  push cfg st pr =
  if total_len (s_buckets st) >=? c_max_proofs cfg then reject st E_FULL false false
  else match parse_metadata cfg pr with
       | Err c => reject st c false false
       | Ok (k, nulls, vol) =>
         if is_dummy k then reject st E_DUMMY false false
         else if window_verifs cfg st >=? c_budget cfg
              then reject (windowed cfg st) E_BUDGET false (restarts cfg st)
         else if negb (p_ver pr) then reject (charged cfg st) E_VERIFY true (restarts cfg st)
         else if negb (has_bucket k (s_buckets st)) && (zlen (s_buckets st) >=? c_max_buckets cfg)
              then reject (charged cfg st) E_BUCKETS true (restarts cfg st)
         else if existsb (fun n => idx_mem n (s_index st)) nulls
              then reject (charged cfg st) E_DUP true (restarts cfg st)
         else (set_buckets (charged cfg st)
                           (add_entry k (mkEntry pr nulls vol (s_now st)) (s_buckets st))
                           (idx_insert_all nulls k (s_index st)),
               mkOut (RPush (Ok k)) true (restarts cfg st))
       end.
Proof.
  unfold push. destruct (total_len (s_buckets st) >=? c_max_proofs cfg); [reflexivity|].
  destruct (parse_metadata cfg pr) as [[[k nulls] vol]|c]; [|reflexivity].
  destruct (is_dummy k); [reflexivity|].
  unfold windowed, charged, window_verifs, window_start, restarts.
  destruct (sat_sub (s_now st) (s_win_start st) >=? c_window cfg).
  - cbn [set_budget s_verifs s_buckets s_index s_win_start s_now]. reflexivity.
  - rewrite set_budget_id. reflexivity.
Qed.

(* ------------------------------------------------------------------ the removal paths, specified *)

Lemma affected_in S idx k : In k (affected_keys S idx) <-> exists n, In n S /\ idx_lookup n idx = Some k.
Proof.
  unfold affected_keys. rewrite in_flat_map. split.
  - intros [n [Hn Hk]]. exists n. split; [exact Hn|]. destruct (idx_lookup n idx); [|contradiction].
    destruct Hk as [Hk|[]]. subst. reflexivity.
  - intros [n [Hn Hk]]. exists n. split; [exact Hn|]. rewrite Hk. left. reflexivity.
Qed.

Lemma stale_spec S e : stale S e = true <-> exists n, In n (e_nulls e) /\ In n S.
Proof.
  unfold stale. rewrite existsb_exists. split; intros [n [H1 H2]]; exists n; (split; [exact H1|]); apply mem_spec; exact H2.
Qed.

Lemma evict_settled_spec cfg st S :
  Inv cfg st ->
  keyed_entries (s_buckets (fst (evict_settled st S)))
    = filter (fun ke => negb (stale S (snd ke))) (keyed_entries (s_buckets st))
  /\ snd (evict_settled st S) = filter (stale S) (pooled st).
Proof.
  intro I. unfold evict_settled, retain_state. cbn [fst snd set_buckets s_buckets].
  set (sel := fun k : key => existsb (list_eqb k) (affected_keys S (s_index st))).
  set (keep := fun e : entry => negb (stale S e)).
  assert (Hk : forall ke, In ke (keyed_entries (s_buckets st)) -> kept sel keep ke = negb (stale S (snd ke))).
  { intros [k e] Hin. unfold kept, keep. cbn [fst snd]. destruct (stale S e) eqn:Es; cbn [negb]; [|apply orb_true_r].
    rewrite orb_false_r. apply stale_spec in Es. destruct Es as [n [Hn HS]].
    assert (Hl : idx_lookup n (s_index st) = Some k) by (apply (inv_index _ _ I); exists e; auto).
    assert (Hs : sel k = true); [|rewrite Hs; reflexivity].
    unfold sel. apply existsb_exists. exists k. split; [|apply list_eqb_refl].
    apply affected_in. exists n. auto. }
  split.
  - rewrite retain_keyed. apply filter_ext_in. exact Hk.
  - rewrite removed_keyed. unfold pooled. rewrite all_entries_keyed, filter_map_comm. f_equal.
    apply filter_ext_in. intros ke Hin. rewrite (Hk ke Hin). apply negb_involutive.
Qed.

Lemma evict_older_spec st a :
  keyed_entries (s_buckets (fst (evict_older st a)))
    = filter (fun ke => negb (expired (s_now st) a (snd ke))) (keyed_entries (s_buckets st))
  /\ snd (evict_older st a) = filter (expired (s_now st) a) (pooled st).
Proof.
  unfold evict_older, retain_state. cbn [fst snd set_buckets s_buckets]. split.
  - rewrite retain_keyed. apply filter_ext. intros [k e]. reflexivity.
  - rewrite removed_keyed. unfold pooled. rewrite all_entries_keyed, filter_map_comm. f_equal.
    apply filter_ext. intros [k e]. unfold kept. cbn [fst snd negb orb]. apply negb_involutive.
Qed.

Lemma filter_keys_retain k bs :
  filter (fun kb => negb (list_eqb (fst kb) k)) bs
  = retain_buckets (fun k' => list_eqb k' k) (fun _ => false) bs.
Proof.
  induction bs as [|[k' b] r IH]; [reflexivity|].
  rewrite retain_cons. cbn [filter fst]. unfold retain_head. rewrite filter_false.
  destruct (list_eqb k' k); cbn [negb app]; rewrite IH; reflexivity.
Qed.

Lemma removed_bucket_entries k bs :
  removed_entries (fun k' => list_eqb k' k) (fun _ => false) bs = bucket_entries k bs.
Proof.
  rewrite removed_keyed. unfold bucket_entries. f_equal. apply filter_ext. intros [k' e].
  unfold kept. cbn [fst snd]. rewrite orb_false_r. apply negb_involutive.
Qed.

Lemma remove_bucket_some st k b :
  NoDup (map fst (s_buckets st)) -> find_bucket k (s_buckets st) = Some b ->
  remove_bucket st k
  = (fst (retain_state (fun k' => list_eqb k' k) (fun _ => false) st), map e_proof (bucket_entries k (s_buckets st))).
Proof.
  intros Hnd Hf. unfold remove_bucket, retain_state. rewrite Hf. cbn [fst].
  rewrite filter_keys_retain, removed_bucket_entries, (bucket_entries_find k _ Hnd), Hf. reflexivity.
Qed.

Lemma remove_bucket_keyed st k :
  keyed_entries (s_buckets (fst (remove_bucket st k)))
  = filter (fun ke => negb (list_eqb (fst ke) k)) (keyed_entries (s_buckets st)).
Proof.
  unfold remove_bucket. destruct (find_bucket k (s_buckets st)) eqn:Hf; cbn [fst set_buckets s_buckets].
  - rewrite filter_keys_retain, retain_keyed. apply filter_ext. intros [k' e]. unfold kept. cbn [fst snd].
    apply orb_false_r.
  - apply find_bucket_none in Hf. symmetry.
    rewrite (filter_ext_in _ (fun _ => true)); [apply filter_true|].
    intros [k' e] Hin. cbn [fst]. apply keyed_key_in in Hin.
    destruct (list_eqb k' k) eqn:E; [|reflexivity]. apply list_eqb_spec in E. subst. contradiction.
Qed.

Lemma remove_bucket_ret st k :
  NoDup (map fst (s_buckets st)) ->
  snd (remove_bucket st k) = map e_proof (bucket_entries k (s_buckets st)).
Proof.
  intro Hnd. rewrite (bucket_entries_find k _ Hnd). unfold remove_bucket.
  destruct (find_bucket k (s_buckets st)); reflexivity.
Qed.

Lemma inv_remove_bucket cfg st k : Inv cfg st -> Inv cfg (fst (remove_bucket st k)).
Proof.
  intro I. destruct (find_bucket k (s_buckets st)) eqn:Hf.
  - rewrite (remove_bucket_some st k b (inv_keys _ _ I) Hf). cbn [fst]. apply inv_retain. exact I.
  - unfold remove_bucket. rewrite Hf. exact I.
Qed.

Lemma inv_snapshot cfg st k : Inv cfg st -> Inv cfg (fst (snapshot cfg st k)).
Proof.
  intro I. unfold snapshot. destruct (find_bucket k (s_buckets st)); [|exact I].
  cbn [fst]. destruct I as [Ik Ine Ie Ii Iin Iu Il Inb Iv].
  constructor; cbn [set_buckets s_buckets s_index s_verifs].
  - rewrite mark_snapshot_keys. exact Ik.
  - apply mark_snapshot_nonempty. exact Ine.
  - rewrite mark_snapshot_keyed. exact Ie.
  - intros n k'. rewrite mark_snapshot_keyed. apply Ii.
  - exact Iin.
  - intro n. rewrite null_count_keyed, mark_snapshot_keyed, <- null_count_keyed. apply Iu.
  - unfold total_len in *. rewrite all_entries_keyed, mark_snapshot_keyed, <- all_entries_keyed. exact Il.
  - unfold zlen in *. rewrite <- (map_length fst), mark_snapshot_keys, map_length. exact Inb.
  - exact Iv.
Qed.

Lemma window_verifs_range cfg st : 0 <= c_budget cfg -> 0 <= s_verifs st <= c_budget cfg ->
  0 <= window_verifs cfg st <= c_budget cfg.
Proof. intros. unfold window_verifs. destruct (restarts cfg st); lia. Qed.

Lemma inv_push cfg st pr : wf_cfg cfg -> Inv cfg st -> wf_proof pr -> Inv cfg (fst (push cfg st pr)).
Proof.
  intros W I Hw. rewrite push_cases.
  assert (Hb : 0 <= c_budget cfg) by (destruct W; lia).
  pose proof (window_verifs_range cfg st Hb (inv_verifs _ _ I)) as Hwv.
  destruct (Z.geb_spec (total_len (s_buckets st)) (c_max_proofs cfg)) as [_|Hlen]; [exact I|].
  destruct (parse_metadata cfg pr) as [[[k nulls] vol]|c] eqn:Ep; [|exact I].
  destruct (is_dummy k) eqn:Ed; [exact I|].
  destruct (Z.geb_spec (window_verifs cfg st) (c_budget cfg)) as [_|Hbud].
  { cbn [reject fst]. apply inv_set_budget; assumption. }
  assert (Ic : Inv cfg (charged cfg st)) by (apply inv_set_budget; [exact I|lia]).
  destruct (p_ver pr) eqn:Ev; cbn [negb]; [|exact Ic].
  destruct (negb (has_bucket k (s_buckets st)) && (zlen (s_buckets st) >=? c_max_buckets cfg)) eqn:Ebk; [exact Ic|].
  destruct (existsb (fun n => idx_mem n (s_index st)) nulls) eqn:Edup; [exact Ic|].
  cbn [fst].
  change (s_buckets st) with (s_buckets (charged cfg st)). change (s_index st) with (s_index (charged cfg st)).
  change nulls with (e_nulls (mkEntry pr nulls vol (s_now st))) at 2.
  apply inv_add.
  - exact Ic.
  - unfold entry_ok. cbn [fst snd e_proof e_nulls e_vol]. repeat split; try assumption;
      apply (parse_vol_range cfg pr k nulls vol Hw Ep).
  - cbn [e_nulls]. intros n Hn. apply idx_mem_false.
    destruct (idx_mem n (s_index (charged cfg st))) eqn:E; [|reflexivity].
    assert (existsb (fun n => idx_mem n (s_index st)) nulls = true); [|congruence].
    apply existsb_exists. exists n. split; assumption.
  - exact Hlen.
  - cbn [charged set_budget s_buckets]. apply andb_false_iff in Ebk. destruct Ebk as [E|E].
    + left. apply negb_false_iff. exact E.
    + right. destruct (Z.geb_spec (zlen (s_buckets st)) (c_max_buckets cfg)); [discriminate|lia].
Qed.

Lemma inv_step cfg st o : wf_cfg cfg -> Inv cfg st -> wf_op o -> Inv cfg (fst (step cfg st o)).
Proof.
  intros W I Hw. destruct o as [pr|S|a|k|k|dt|]; cbn [step].
  - apply inv_push; assumption.
  - pose proof (inv_retain cfg st (fun k => existsb (list_eqb k) (affected_keys S (s_index st))) (fun e => negb (stale S e)) I) as H.
    unfold evict_settled. destruct (retain_state _ _ st). exact H.
  - pose proof (inv_retain cfg st (fun _ => true) (fun e => negb (expired (s_now st) a e)) I) as H.
    unfold evict_older. destruct (retain_state _ _ st). exact H.
  - pose proof (inv_snapshot cfg st k I) as H. destruct (snapshot cfg st k). exact H.
  - pose proof (inv_remove_bucket cfg st k I) as H. destruct (remove_bucket st k). exact H.
  - cbn [fst]. destruct I. constructor; cbn; assumption.
  - exact I.
Qed.

Lemma run_cons cfg st o r :
  run cfg st (o :: r) = (fst (run cfg (fst (step cfg st o)) r), snd (step cfg st o) :: snd (run cfg (fst (step cfg st o)) r)).
Proof. cbn [run]. destruct (step cfg st o) as [st1 x]. cbn [fst snd]. destruct (run cfg st1 r). reflexivity. Qed.

Lemma inv_run cfg ops : forall st, wf_cfg cfg -> Inv cfg st -> Forall wf_op ops -> Inv cfg (fst (run cfg st ops)).
Proof.
  induction ops as [|o r IH]; intros st W I Hw; [exact I|].
  inversion Hw; subst. rewrite run_cons. cbn [fst]. apply IH; [exact W| |assumption]. apply inv_step; assumption.
Qed.

(* the final state of a run, as a fold (the form used in C20_inv_reachable) *)
Lemma run_fold cfg ops : forall st, fst (run cfg st ops) = fold_left (fun s o => fst (step cfg s o)) ops st.
Proof. induction ops as [|o r IH]; intro st; [reflexivity|]. rewrite run_cons. cbn [fst fold_left]. apply IH. Qed.

(* ------------------------------------------------------------------ C19: admission *)

Ltac pcbn := cbn [reject snd fst o_ret o_verified s_verifs s_win_start set_budget set_buckets charged windowed].

Definition admitted (o : out) : Prop := exists k, o_ret o = RPush (Ok k).

Lemma push_admit_iff cfg st pr :
  admitted (snd (push cfg st pr)) <->
  total_len (s_buckets st) < c_max_proofs cfg
  /\ exists k nulls vol,
       parse_metadata cfg pr = Ok (k, nulls, vol)
       /\ is_dummy k = false
       /\ window_verifs cfg st < c_budget cfg
       /\ p_ver pr = true
       /\ (has_bucket k (s_buckets st) = true \/ zlen (s_buckets st) < c_max_buckets cfg)
       /\ (forall n, In n nulls -> idx_lookup n (s_index st) = None).
Proof.
  unfold admitted. rewrite push_cases.
  destruct (Z.geb_spec (total_len (s_buckets st)) (c_max_proofs cfg)) as [Hlen|Hlen].
  { pcbn. split; [intros [k H]; discriminate|intros [H _]; lia]. }
  destruct (parse_metadata cfg pr) as [[[k nulls] vol]|c] eqn:Ep.
  2:{ pcbn. split; [intros [k H]; discriminate|intros [_ [k [n [v [H _]]]]]; discriminate]. }
  destruct (is_dummy k) eqn:Ed.
  { pcbn. split; [intros [k' H]; discriminate|]. intros [_ [k' [n [v [H [H1 _]]]]]]. inversion H; subst. congruence. }
  destruct (Z.geb_spec (window_verifs cfg st) (c_budget cfg)) as [Hb|Hb].
  { pcbn. split; [intros [k' H]; discriminate|]. intros [_ [k' [n [v [H [_ [H1 _]]]]]]]. lia. }
  destruct (p_ver pr) eqn:Ev; cbn [negb].
  2:{ pcbn. split; [intros [k' H]; discriminate|]. intros [_ [k' [n [v [H [_ [_ [H1 _]]]]]]]]. discriminate. }
  destruct (negb (has_bucket k (s_buckets st)) && (zlen (s_buckets st) >=? c_max_buckets cfg)) eqn:Ebk.
  { pcbn. split; [intros [k' H]; discriminate|]. intros [_ [k' [n [v [H [_ [_ [_ [H1 _]]]]]]]]]. inversion H; subst.
    apply andb_true_iff in Ebk. destruct Ebk as [E1 E2]. apply negb_true_iff in E1.
    destruct (Z.geb_spec (zlen (s_buckets st)) (c_max_buckets cfg)); [|discriminate].
    destruct H1; [congruence|lia]. }
  destruct (existsb (fun n => idx_mem n (s_index st)) nulls) eqn:Edup.
  { pcbn. split; [intros [k' H]; discriminate|]. intros [_ [k' [n [v [H [_ [_ [_ [_ H1]]]]]]]]]. inversion H; subst.
    apply existsb_exists in Edup. destruct Edup as [x [Hx Hm]]. apply H1 in Hx.
    unfold idx_mem in Hm. rewrite Hx in Hm. discriminate. }
  cbn [snd o_ret]. split; [intros _|intros _; eexists; reflexivity].
  split; [exact Hlen|]. exists k, nulls, vol. repeat split; try assumption.
  - apply andb_false_iff in Ebk. destruct Ebk as [E|E].
    + left. apply negb_false_iff. exact E.
    + right. destruct (Z.geb_spec (zlen (s_buckets st)) (c_max_buckets cfg)); [discriminate|lia].
  - intros n Hn. apply idx_mem_false. destruct (idx_mem n (s_index st)) eqn:E; [|reflexivity].
    assert (existsb (fun n => idx_mem n (s_index st)) nulls = true); [|congruence].
    apply existsb_exists. exists n. split; assumption.
Qed.

(* the bucket-limit and duplicate-nullifier rejections are only reachable after a successful
   verification, and after the budget was charged for it *)
Lemma push_order cfg st pr :
  o_ret (snd (push cfg st pr)) = RPush (Err E_BUCKETS) \/ o_ret (snd (push cfg st pr)) = RPush (Err E_DUP) ->
  p_ver pr = true
  /\ o_verified (snd (push cfg st pr)) = true
  /\ window_verifs cfg st < c_budget cfg
  /\ s_verifs (fst (push cfg st pr)) = window_verifs cfg st + 1.
Proof.
  rewrite push_cases.
  destruct (total_len (s_buckets st) >=? c_max_proofs cfg).
  { pcbn. intros [H|H]; discriminate. }
  destruct (parse_metadata cfg pr) as [[[k nulls] vol]|c] eqn:Ep.
  2:{ pcbn. apply parse_err_codes in Ep. intros [H|H]; inversion H; subst; destruct Ep; discriminate. }
  destruct (is_dummy k). { pcbn. intros [H|H]; discriminate. }
  destruct (Z.geb_spec (window_verifs cfg st) (c_budget cfg)) as [Hb|Hb]. { pcbn. intros [H|H]; discriminate. }
  destruct (p_ver pr); cbn [negb]. 2:{ pcbn. intros [H|H]; discriminate. }
  destruct (negb (has_bucket k (s_buckets st)) && (zlen (s_buckets st) >=? c_max_buckets cfg)).
  { pcbn. intros _. repeat split; lia. }
  destruct (existsb (fun n => idx_mem n (s_index st)) nulls).
  { pcbn. intros _. repeat split; lia. }
  pcbn. intros [H|H]; discriminate.
Qed.

(* a rejected push changes nothing but the budget fields *)
Lemma push_reject_unchanged cfg st pr c :
  o_ret (snd (push cfg st pr)) = RPush (Err c) ->
  fst (push cfg st pr) = set_budget st (s_win_start (fst (push cfg st pr))) (s_verifs (fst (push cfg st pr))).
Proof.
  rewrite push_cases.
  destruct (total_len (s_buckets st) >=? c_max_proofs cfg). { pcbn. intros _. symmetry. apply set_budget_id. }
  destruct (parse_metadata cfg pr) as [[[k nulls] vol]|c']. 2:{ pcbn. intros _. symmetry. apply set_budget_id. }
  destruct (is_dummy k). { pcbn. intros _. symmetry. apply set_budget_id. }
  destruct (window_verifs cfg st >=? c_budget cfg). { pcbn. intros _. reflexivity. }
  destruct (negb (p_ver pr)). { pcbn. intros _. reflexivity. }
  destruct (negb (has_bucket k (s_buckets st)) && (zlen (s_buckets st) >=? c_max_buckets cfg)). { pcbn. intros _. reflexivity. }
  destruct (existsb (fun n => idx_mem n (s_index st)) nulls). { pcbn. intros _. reflexivity. }
  pcbn. discriminate.
Qed.

(* and the budget fields themselves move in the documented way only *)
Lemma push_reject_budget cfg st pr c :
  o_ret (snd (push cfg st pr)) = RPush (Err c) ->
  (o_verified (snd (push cfg st pr)) = false /\ (c = E_FULL \/ c = E_LEN \/ c = PANIC \/ c = E_DUMMY)
     /\ fst (push cfg st pr) = st)
  \/ (o_verified (snd (push cfg st pr)) = false /\ c = E_BUDGET /\ fst (push cfg st pr) = windowed cfg st)
  \/ (o_verified (snd (push cfg st pr)) = true /\ (c = E_VERIFY \/ c = E_BUCKETS \/ c = E_DUP)
     /\ fst (push cfg st pr) = charged cfg st).
Proof.
  rewrite push_cases.
  destruct (total_len (s_buckets st) >=? c_max_proofs cfg). { pcbn. intro H. inversion H. left. auto. }
  destruct (parse_metadata cfg pr) as [[[k nulls] vol]|c'] eqn:Ep.
  2:{ pcbn. intro H. inversion H; subst. left. apply parse_err_codes in Ep. repeat split; auto. destruct Ep; auto. }
  destruct (is_dummy k). { pcbn. intro H. inversion H. left. auto 6. }
  destruct (window_verifs cfg st >=? c_budget cfg). { pcbn. intro H. inversion H. right. left. auto. }
  destruct (negb (p_ver pr)). { pcbn. intro H. inversion H. right. right. auto. }
  destruct (negb (has_bucket k (s_buckets st)) && (zlen (s_buckets st) >=? c_max_buckets cfg)). { pcbn. intro H. inversion H. right. right. auto. }
  destruct (existsb (fun n => idx_mem n (s_index st)) nulls). { pcbn. intro H. inversion H. right. right. auto 6. }
  pcbn. discriminate.
Qed.

(* ------------------------------------------------------------------ C21: custody *)

Lemma pooled_in bs e : In e (all_entries bs) <-> exists k, In (k, e) (keyed_entries bs).
Proof.
  rewrite all_entries_keyed, in_map_iff. split.
  - intros [[k e'] [E Hin]]. cbn [snd] in E. subst. exists k. exact Hin.
  - intros [k Hin]. exists (k, e). split; [reflexivity|exact Hin].
Qed.

Lemma push_buckets cfg st pr :
  s_buckets (fst (push cfg st pr)) = s_buckets st
  \/ exists k nulls vol, parse_metadata cfg pr = Ok (k, nulls, vol) /\ o_ret (snd (push cfg st pr)) = RPush (Ok k)
       /\ s_buckets (fst (push cfg st pr)) = add_entry k (mkEntry pr nulls vol (s_now st)) (s_buckets st).
Proof.
  rewrite push_cases.
  destruct (total_len (s_buckets st) >=? c_max_proofs cfg); [left; reflexivity|].
  destruct (parse_metadata cfg pr) as [[[k nulls] vol]|c]; [|left; reflexivity].
  destruct (is_dummy k); [left; reflexivity|].
  destruct (window_verifs cfg st >=? c_budget cfg); [left; reflexivity|].
  destruct (negb (p_ver pr)); [left; reflexivity|].
  destruct (negb (has_bucket k (s_buckets st)) && (zlen (s_buckets st) >=? c_max_buckets cfg)); [left; reflexivity|].
  destruct (existsb (fun n => idx_mem n (s_index st)) nulls); [left; reflexivity|].
  right. exists k, nulls, vol. auto.
Qed.

Lemma push_keeps cfg st pr e : In e (pooled st) -> In e (pooled (fst (push cfg st pr))).
Proof.
  unfold pooled. intro H. destruct (push_buckets cfg st pr) as [E|[k [nulls [vol [_ [_ E]]]]]]; rewrite E; [exact H|].
  apply pooled_in in H. destruct H as [k' H]. apply pooled_in. exists k'. apply add_entry_keyed_perm. left. exact H.
Qed.

Lemma retain_leaves sel keep bs k e :
  In (k, e) (keyed_entries bs) -> ~ In e (all_entries (retain_buckets sel keep bs)) ->
  sel k = true /\ keep e = false.
Proof.
  intros Hin Hni.
  destruct (kept sel keep (k, e)) eqn:Hk.
  - exfalso. apply Hni. apply pooled_in. exists k. rewrite retain_keyed. apply filter_In. auto.
  - unfold kept in Hk. cbn [fst snd] in Hk. apply orb_false_iff in Hk. destruct Hk as [H1 H2].
    apply negb_false_iff in H1. auto.
Qed.

Lemma snapshot_keyed cfg st k :
  keyed_entries (s_buckets (fst (snapshot cfg st k))) = keyed_entries (s_buckets st).
Proof.
  unfold snapshot. destruct (find_bucket k (s_buckets st)); [|reflexivity].
  cbn [fst set_buckets s_buckets]. apply mark_snapshot_keyed.
Qed.

Lemma snapshot_pooled cfg st k : pooled (fst (snapshot cfg st k)) = pooled st.
Proof. unfold pooled. rewrite !all_entries_keyed, snapshot_keyed. reflexivity. Qed.

Lemma expired_spec now a e : expired now a e = true <-> sat_sub now (e_at e) > a.
Proof. unfold expired. destruct (Z.gtb_spec (sat_sub now (e_at e)) a); split; intro; try lia; try discriminate; reflexivity. Qed.

Lemma step_settled_buckets cfg st S :
  s_buckets (fst (step cfg st (EvictSettled S)))
  = retain_buckets (fun k => existsb (list_eqb k) (affected_keys S (s_index st))) (fun e => negb (stale S e)) (s_buckets st).
Proof. reflexivity. Qed.

Lemma step_older_buckets cfg st a :
  s_buckets (fst (step cfg st (EvictOlder a)))
  = retain_buckets (fun _ => true) (fun e => negb (expired (s_now st) a e)) (s_buckets st).
Proof. reflexivity. Qed.

(* a pooled proof disappears only by settlement of one of its nullifiers, by expiry, or with its bucket
   (and then it is handed back) *)
Lemma leaves_only_by cfg st o e :
  Inv cfg st -> In e (pooled st) -> ~ In e (pooled (fst (step cfg st o))) ->
  (exists S n, o = EvictSettled S /\ In n (e_nulls e) /\ In n S)
  \/ (exists a, o = EvictOlder a /\ sat_sub (s_now st) (e_at e) > a)
  \/ (exists k l, o = RemoveBucket k /\ In (k, e) (keyed_entries (s_buckets st))
                  /\ o_ret (snd (step cfg st o)) = RRemoved l /\ In (e_proof e) l).
Proof.
  intros I Hin Hni. pose proof Hin as Hin0. unfold pooled in Hin. apply pooled_in in Hin. destruct Hin as [k Hk].
  destruct o as [pr|S|a|k'|k'|dt|].
  - exfalso. apply Hni. apply push_keeps. exact Hin0.
  - left. unfold pooled in Hni. rewrite step_settled_buckets in Hni.
    destruct (retain_leaves _ _ _ _ _ Hk Hni) as [_ H]. apply negb_false_iff in H. apply stale_spec in H.
    destruct H as [n [H1 H2]]. exists S, n. auto.
  - right. left. unfold pooled in Hni. rewrite step_older_buckets in Hni.
    destruct (retain_leaves _ _ _ _ _ Hk Hni) as [_ H]. apply negb_false_iff in H. apply expired_spec in H.
    exists a. auto.
  - exfalso. apply Hni. cbn [step]. destruct (snapshot cfg st k') eqn:E. cbn [fst].
    change s with (fst (s, o)). rewrite <- E, snapshot_pooled. exact Hin0.
  - right. right. cbn [step] in *. destruct (remove_bucket st k') as [st' r] eqn:E. cbn [fst snd quiet o_ret] in *.
    assert (E1 : st' = fst (remove_bucket st k')) by (rewrite E; reflexivity).
    assert (E2 : r = snd (remove_bucket st k')) by (rewrite E; reflexivity).
    assert (Hkk : list_eqb k k' = true).
    { destruct (list_eqb k k') eqn:Ek; [reflexivity|]. exfalso. apply Hni. unfold pooled. apply pooled_in. exists k.
      rewrite E1, remove_bucket_keyed. apply filter_In. split; [exact Hk|]. cbn [fst]. rewrite Ek. reflexivity. }
    apply list_eqb_spec in Hkk. subst k'. exists k, r. repeat split; [exact Hk|].
    rewrite E2, (remove_bucket_ret st k (inv_keys _ _ I)). apply in_map. unfold bucket_entries.
    change e with (snd (k, e)). apply in_map. apply filter_In. split; [exact Hk|]. cbn [fst]. apply list_eqb_refl.
  - exfalso. apply Hni. exact Hin0.
  - exfalso. apply Hni. exact Hin0.
Qed.

(* each removal path removes exactly the proofs it targets and reports their number *)
Lemma evict_settled_exact cfg st S :
  Inv cfg st ->
  pooled (fst (step cfg st (EvictSettled S))) = filter (fun e => negb (stale S e)) (pooled st)
  /\ o_ret (snd (step cfg st (EvictSettled S))) = RCount (zlen (filter (stale S) (pooled st))).
Proof.
  intro I. cbn [step]. destruct (evict_settled_spec cfg st S I) as [H1 H2].
  destruct (evict_settled st S) as [st' rem]. cbn [fst snd quiet o_ret] in *. split.
  - unfold pooled. rewrite !all_entries_keyed, H1, filter_map_comm. reflexivity.
  - rewrite H2. reflexivity.
Qed.

Lemma evict_older_exact cfg st a :
  pooled (fst (step cfg st (EvictOlder a))) = filter (fun e => negb (expired (s_now st) a e)) (pooled st)
  /\ o_ret (snd (step cfg st (EvictOlder a))) = RCount (zlen (filter (expired (s_now st) a) (pooled st))).
Proof.
  cbn [step]. destruct (evict_older_spec st a) as [H1 H2].
  destruct (evict_older st a) as [st' rem]. cbn [fst snd quiet o_ret] in *. split.
  - unfold pooled. rewrite !all_entries_keyed, H1, filter_map_comm. reflexivity.
  - rewrite H2. reflexivity.
Qed.

Lemma remove_bucket_exact cfg st k :
  Inv cfg st ->
  keyed_entries (s_buckets (fst (step cfg st (RemoveBucket k))))
    = filter (fun ke => negb (list_eqb (fst ke) k)) (keyed_entries (s_buckets st))
  /\ o_ret (snd (step cfg st (RemoveBucket k))) = RRemoved (map e_proof (bucket_entries k (s_buckets st))).
Proof.
  intro I. cbn [step]. pose proof (remove_bucket_keyed st k) as H1.
  pose proof (remove_bucket_ret st k (inv_keys _ _ I)) as H2.
  destruct (remove_bucket st k) as [st' r]. cbn [fst snd quiet o_ret] in *. split; [exact H1|]. rewrite H2. reflexivity.
Qed.

(* the index is re-derivable from the buckets after every step (so "removes exactly" includes the index) *)

(* snapshots: nothing removed, nothing re-keyed; the oldest min(count, batch) proofs in admission order *)
Definition snapshot_of (cfg : config) (l : list entry) : list proof :=
  map e_proof (firstn (Z.to_nat (Z.min (zlen l) (c_batch cfg))) l).

Lemma find_bucket_nonempty cfg st k b : Inv cfg st -> find_bucket k (s_buckets st) = Some b -> b_proofs b <> [].
Proof.
  intros I Hf. apply find_bucket_some in Hf. pose proof (inv_nonempty _ _ I) as H. rewrite Forall_forall in H.
  apply (H (k, b)). exact Hf.
Qed.

Lemma snapshot_exact cfg st k :
  Inv cfg st ->
  keyed_entries (s_buckets (fst (step cfg st (Snapshot k)))) = keyed_entries (s_buckets st)
  /\ s_index (fst (step cfg st (Snapshot k))) = s_index st
  /\ (bucket_entries k (s_buckets st) = [] -> o_ret (snd (step cfg st (Snapshot k))) = RSnap None)
  /\ (bucket_entries k (s_buckets st) <> [] ->
      o_ret (snd (step cfg st (Snapshot k))) = RSnap (Some (snapshot_of cfg (bucket_entries k (s_buckets st))))).
Proof.
  intro I. cbn [step]. pose proof (snapshot_keyed cfg st k) as H1.
  rewrite (bucket_entries_find k _ (inv_keys _ _ I)).
  unfold snapshot in *. destruct (find_bucket k (s_buckets st)) as [b|] eqn:Hf; cbn [fst snd quiet o_ret set_buckets s_index] in *.
  - split; [exact H1|]. split; [reflexivity|]. split.
    + intro E. exfalso. eapply find_bucket_nonempty; eassumption.
    + intros _. reflexivity.
  - split; [exact H1|]. split; [reflexivity|]. split; [reflexivity|]. intro H. contradiction.
Qed.

(* ------------------------------------------------------------------ C21: every snapshot passes the public-batch preflight *)

Lemma pf_each_ok cfg ps :
  Forall (fun pr => zlen (p_pis pr) = c_pi_len cfg /\ p_ver pr = true) ps -> pf_each cfg ps = Ok tt.
Proof.
  induction 1 as [|pr r [H1 H2] _ IH]; cbn [pf_each]; [reflexivity|].
  rewrite H1, Z.eqb_refl, H2. cbn [guard rbind]. exact IH.
Qed.

Lemma mapM_const {A B} (f : A -> res B) (m : B) l :
  Forall (fun x => f x = Ok m) l -> mapM f l = Ok (map (fun _ => m) l).
Proof.
  induction 1 as [|x r H _ IH]; cbn [mapM map]; [reflexivity|]. rewrite H, IH. reflexivity.
Qed.

Lemma compat_same (bh : digest) (a f : Z) (l : list proof) :
  list_eqb bh ZERO_DIGEST = false ->
  compat (Some (bh, a, f)) (map (fun _ => (bh, a, f)) l) = Ok tt.
Proof.
  intro Hz. induction l as [|x r IH]; cbn [map compat]; [reflexivity|].
  rewrite Hz, list_eqb_refl, !Z.eqb_refl. cbn [negb]. exact IH.
Qed.

Lemma key_split (bh : list Z) (a f : Z) (bh' : list Z) (a' f' : Z) :
  length bh = 4%nat -> length bh' = 4%nat -> bh ++ [a; f] = bh' ++ [a'; f'] -> (bh, a, f) = (bh', a', f').
Proof.
  intros H1 H2 E.
  destruct bh as [|x0 [|x1 [|x2 [|x3 [|]]]]]; try discriminate.
  destruct bh' as [|y0 [|y1 [|y2 [|y3 [|]]]]]; try discriminate.
  cbn [app] in E. inversion E. reflexivity.
Qed.

Lemma preflight_bucket_ok cfg st k :
  wf_cfg cfg -> Inv cfg st -> bucket_entries k (s_buckets st) <> [] ->
  preflight cfg (snapshot_of cfg (bucket_entries k (s_buckets st))) = Ok tt.
Proof.
  intros W I Hne. set (l := bucket_entries k (s_buckets st)) in *.
  set (n := Z.to_nat (Z.min (zlen l) (c_batch cfg))).
  assert (Hb : 1 <= c_batch cfg) by (destruct W; lia).
  assert (Hl : 1 <= zlen l). { unfold zlen. destruct l; [contradiction|cbn [length]; lia]. }
  assert (Hlen : zlen (snapshot_of cfg l) = Z.min (zlen l) (c_batch cfg)).
  { unfold snapshot_of, zlen. rewrite map_length, firstn_length. fold n. unfold zlen in *. lia. }
  (* every entry of the bucket is an admitted proof of key k *)
  assert (Hall : forall e, In e (firstn n l) -> entry_ok cfg (k, e)).
  { intros e He. apply in_firstn in He. unfold l, bucket_entries in He. apply in_map_iff in He.
    destruct He as [[k' e'] [E Hin]]. cbn [snd] in E. subst e'. apply filter_In in Hin. destruct Hin as [Hin Hk].
    cbn [fst] in Hk. apply list_eqb_spec in Hk. subst k'.
    pose proof (inv_entry _ _ I) as Hf. rewrite Forall_forall in Hf. apply Hf. exact Hin. }
  unfold preflight. rewrite Hlen.
  destruct (Z.eqb_spec (Z.min (zlen l) (c_batch cfg)) 0); [lia|]. cbn [negb guard rbind].
  destruct (Z.leb_spec (Z.min (zlen l) (c_batch cfg)) (c_batch cfg)); [|lia]. cbn [guard rbind].
  rewrite pf_each_ok.
  2:{ unfold snapshot_of. fold n. apply Forall_forall. intros pr Hpr. apply in_map_iff in Hpr.
      destruct Hpr as [e [E He]]. subst pr. destruct (Hall e He) as [Hp [Hv _]]. cbn [fst snd] in *.
      apply parse_meta in Hp. destruct Hp as [Hp _]. auto. }
  cbn [rbind].
  (* all metadata triples coincide and are not the dummy sentinel *)
  assert (Hfirst : exists e0, In e0 (firstn n l)).
  { unfold n. destruct l as [|e0 r]; [contradiction|]. exists e0.
    assert (exists m, Z.to_nat (Z.min (zlen (e0 :: r)) (c_batch cfg)) = S m) as [m Hm].
    { exists (Z.to_nat (Z.min (zlen (e0 :: r)) (c_batch cfg)) - 1)%nat. lia. }
    rewrite Hm. left. reflexivity. }
  destruct Hfirst as [e0 He0]. destruct (Hall e0 He0) as [Hp0 [_ [Hd0 _]]]. cbn [fst snd] in *.
  apply parse_meta in Hp0. destruct Hp0 as [_ [bh [a [f [Hm0 [Hk0 Hbh0]]]]]].
  rewrite (mapM_const _ (bh, a, f)).
  2:{ unfold snapshot_of. fold n. apply Forall_forall. intros pr Hpr. apply in_map_iff in Hpr.
      destruct Hpr as [e [E He]]. subst pr. destruct (Hall e He) as [Hp _]. cbn [fst snd] in *.
      apply parse_meta in Hp. destruct Hp as [_ [bh' [a' [f' [Hm [Hk Hbh]]]]]].
      rewrite Hm. f_equal. symmetry. apply key_split; [assumption|assumption|congruence]. }
  cbn [rbind].
  assert (Hz : list_eqb bh ZERO_DIGEST = false).
  { rewrite Hk0, is_dummy_key in Hd0 by exact Hbh0. exact Hd0. }
  unfold snapshot_of. fold n. destruct (firstn n l) as [|e1 r1]; [contradiction|].
  cbn [map compat]. rewrite Hz. apply (compat_same bh a f (map e_proof r1)) in Hz.
  rewrite map_map in Hz. rewrite map_map. exact Hz.
Qed.

(* ------------------------------------------------------------------ C22: the verification budget *)

Fixpoint verify_calls (l : list out) : Z :=
  match l with [] => 0 | o :: r => b2z (o_verified o) + verify_calls r end.

Definition budget_ok (cfg : config) (st : state) : Prop := 0 <= s_verifs st <= c_budget cfg.

(* what one push does to the budget fields, by outcome *)
Lemma push_budget cfg st pr :
  let r := push cfg st pr in
  (o_restarted (snd r) = true -> restarts cfg st = true)
  /\ s_verifs (fst r) = (if o_restarted (snd r) then 0 else s_verifs st) + b2z (o_verified (snd r))
  /\ s_win_start (fst r) = (if o_restarted (snd r) then s_now st else s_win_start st)
  /\ (o_verified (snd r) = true -> window_verifs cfg st < c_budget cfg)
  /\ (c_budget cfg <= window_verifs cfg st -> o_verified (snd r) = false)
  /\ s_now (fst r) = s_now st.
Proof.
  cbv zeta. rewrite push_cases.
  destruct (total_len (s_buckets st) >=? c_max_proofs cfg).
  { pcbn. cbn [b2z o_restarted]. repeat split; try discriminate; lia. }
  destruct (parse_metadata cfg pr) as [[[k nulls] vol]|c].
  2:{ pcbn. cbn [b2z o_restarted]. repeat split; try discriminate; lia. }
  destruct (is_dummy k). { pcbn. cbn [b2z o_restarted]. repeat split; try discriminate; lia. }
  assert (Hwv : window_verifs cfg st = if restarts cfg st then 0 else s_verifs st) by reflexivity.
  assert (Hws : window_start cfg st = if restarts cfg st then s_now st else s_win_start st) by reflexivity.
  destruct (Z.geb_spec (window_verifs cfg st) (c_budget cfg)) as [Hb|Hb].
  { pcbn. cbn [b2z o_restarted s_now]. rewrite Hwv, Hws. destruct (restarts cfg st); repeat split; try discriminate; try lia; auto. }
  destruct (negb (p_ver pr)).
  { pcbn. cbn [b2z o_restarted s_now]. rewrite Hws. rewrite Hwv at 1. destruct (restarts cfg st); repeat split; try discriminate; try lia; auto. }
  destruct (negb (has_bucket k (s_buckets st)) && (zlen (s_buckets st) >=? c_max_buckets cfg)).
  { pcbn. cbn [b2z o_restarted s_now]. rewrite Hws. rewrite Hwv at 1. destruct (restarts cfg st); repeat split; try discriminate; try lia; auto. }
  destruct (existsb (fun n => idx_mem n (s_index st)) nulls).
  { pcbn. cbn [b2z o_restarted s_now]. rewrite Hws. rewrite Hwv at 1. destruct (restarts cfg st); repeat split; try discriminate; try lia; auto. }
  pcbn. cbn [b2z o_restarted s_now]. rewrite Hws. rewrite Hwv at 1. destruct (restarts cfg st); repeat split; try discriminate; try lia; auto.
Qed.

Lemma push_verified_restart cfg st pr :
  o_verified (snd (push cfg st pr)) = true -> o_restarted (snd (push cfg st pr)) = restarts cfg st.
Proof.
  rewrite push_cases.
  destruct (total_len (s_buckets st) >=? c_max_proofs cfg). { pcbn. discriminate. }
  destruct (parse_metadata cfg pr) as [[[k nulls] vol]|c]. 2:{ pcbn. discriminate. }
  destruct (is_dummy k). { pcbn. discriminate. }
  destruct (window_verifs cfg st >=? c_budget cfg). { pcbn. discriminate. }
  destruct (negb (p_ver pr)). { reflexivity. }
  destruct (negb (has_bucket k (s_buckets st)) && (zlen (s_buckets st) >=? c_max_buckets cfg)). { reflexivity. }
  destruct (existsb (fun n => idx_mem n (s_index st)) nulls); reflexivity.
Qed.

Lemma step_verified_restart cfg st o :
  o_verified (snd (step cfg st o)) = true -> o_restarted (snd (step cfg st o)) = restarts cfg st.
Proof.
  destruct o as [pr|S|a|k|k|dt|]; cbn [step].
  - apply push_verified_restart.
  - unfold evict_settled, retain_state. cbn. discriminate.
  - unfold evict_older, retain_state. cbn. discriminate.
  - unfold snapshot. destruct (find_bucket k (s_buckets st)); cbn; discriminate.
  - unfold remove_bucket. destruct (find_bucket k (s_buckets st)); cbn; discriminate.
  - cbn. discriminate.
  - cbn. discriminate.
Qed.

Lemma restarts_spec cfg st : 0 < c_window cfg ->
  (restarts cfg st = true <-> s_now st - s_win_start st >= c_window cfg).
Proof.
  intro W. unfold restarts, sat_sub. destruct (Z.ltb_spec (s_now st) (s_win_start st));
    destruct (Z.geb_spec 0 (c_window cfg)); destruct (Z.geb_spec (s_now st - s_win_start st) (c_window cfg));
    split; intro; try lia; try discriminate; try reflexivity.
Qed.

(* one step, as far as the budget is concerned *)
Lemma step_budget cfg st o :
  let r := step cfg st o in
  (o_restarted (snd r) = true -> (exists pr, o = Push pr) /\ restarts cfg st = true)
  /\ s_verifs (fst r) = (if o_restarted (snd r) then 0 else s_verifs st) + b2z (o_verified (snd r))
  /\ s_win_start (fst r) = (if o_restarted (snd r) then s_now st else s_win_start st)
  /\ (o_verified (snd r) = true -> (exists pr, o = Push pr) /\ window_verifs cfg st < c_budget cfg).
Proof.
  cbv zeta. destruct o as [pr|S|a|k|k|dt|]; cbn [step].
  - destruct (push_budget cfg st pr) as [H1 [H2 [H3 [H4 _]]]]. repeat split; eauto.
  - unfold evict_settled, retain_state. cbn. repeat split; try discriminate; lia.
  - unfold evict_older, retain_state. cbn. repeat split; try discriminate; lia.
  - unfold snapshot. destruct (find_bucket k (s_buckets st)); cbn; repeat split; try discriminate; lia.
  - unfold remove_bucket. destruct (find_bucket k (s_buckets st)); cbn; repeat split; try discriminate; lia.
  - cbn. repeat split; try discriminate; lia.
  - cbn. repeat split; try discriminate; lia.
Qed.

Lemma step_budget_ok cfg st o : 0 <= c_budget cfg -> budget_ok cfg st -> budget_ok cfg (fst (step cfg st o)).
Proof.
  intros Hb Hok. unfold budget_ok in *. destruct (step_budget cfg st o) as [H1 [H2 [_ H4]]]. rewrite H2.
  destruct (o_verified (snd (step cfg st o))) eqn:Ev; cbn [b2z].
  - destruct (H4 eq_refl) as [_ Hw]. unfold window_verifs in Hw.
    pose proof (step_verified_restart cfg st o Ev) as Hvr. rewrite <- Hvr in Hw.
    destruct (o_restarted (snd (step cfg st o))) eqn:Er; lia.
  - destruct (o_restarted (snd (step cfg st o))); lia.
Qed.

Definition no_restart (l : list out) : Prop := Forall (fun o => o_restarted o = false) l.

(* within a stretch of history without a window restart, every verifier call is counted *)
Lemma run_counts cfg ops : forall st,
  no_restart (snd (run cfg st ops)) ->
  s_verifs (fst (run cfg st ops)) = s_verifs st + verify_calls (snd (run cfg st ops))
  /\ s_win_start (fst (run cfg st ops)) = s_win_start st.
Proof.
  induction ops as [|o r IH]; intros st Hn; [cbn; split; [lia|reflexivity]|].
  rewrite run_cons in *. cbn [fst snd verify_calls] in *. inversion Hn as [|? ? Ho Hr]; subst.
  destruct (IH _ Hr) as [E1 E2]. rewrite E1, E2.
  destruct (step_budget cfg st o) as [_ [H2 [H3 _]]]. rewrite Ho in H2, H3. split; lia.
Qed.

Lemma run_budget_ok cfg ops : forall st,
  0 <= c_budget cfg -> budget_ok cfg st -> budget_ok cfg (fst (run cfg st ops)).
Proof.
  induction ops as [|o r IH]; intros st Hb Hok; [exact Hok|].
  rewrite run_cons. cbn [fst]. apply IH; [exact Hb|]. apply step_budget_ok; assumption.
Qed.

Lemma budget_no_restart cfg st ops :
  0 <= c_budget cfg -> budget_ok cfg st -> no_restart (snd (run cfg st ops)) ->
  s_verifs st + verify_calls (snd (run cfg st ops)) <= c_budget cfg.
Proof.
  intros Hb Hok Hn. destruct (run_counts cfg ops st Hn) as [E _].
  pose proof (run_budget_ok cfg ops st Hb Hok) as H. unfold budget_ok in H. lia.
Qed.

(* a whole window: the step that restarts it, then any history up to (excluding) the next restart *)
Lemma budget_window cfg st o ops :
  0 <= c_budget cfg -> budget_ok cfg st ->
  o_restarted (snd (step cfg st o)) = true ->
  no_restart (snd (run cfg (fst (step cfg st o)) ops)) ->
  verify_calls (snd (step cfg st o) :: snd (run cfg (fst (step cfg st o)) ops)) <= c_budget cfg.
Proof.
  intros Hb Hok Hr Hn. cbn [verify_calls].
  pose proof (step_budget_ok cfg st o Hb Hok) as Hok1.
  pose proof (budget_no_restart cfg _ ops Hb Hok1 Hn) as H.
  destruct (step_budget cfg st o) as [_ [H2 _]]. rewrite Hr in H2. lia.
Qed.

(* ------------------------------------------------------------------ C20: statistics *)

Definition zsum (l : list Z) : Z := fold_right Z.add 0 l.

Lemma sat_fold_min l : forall acc,
  0 <= acc <= two64 - 1 -> Forall (fun v => 0 <= v) l ->
  fold_left sat_add64 l acc = Z.min (acc + zsum l) (two64 - 1).
Proof.
  induction l as [|v r IH]; intros acc Ha Hl; cbn [fold_left zsum fold_right].
  - rewrite Z.add_0_r. symmetry. apply Z.min_l. lia.
  - inversion Hl as [|? ? Hv Hr]; subst.
    assert (Hs : 0 <= zsum r). { clear -Hr. induction Hr; cbn [zsum fold_right]; [lia|]. unfold zsum in *. lia. }
    fold (zsum r).
    pose proof (sat_add64_range acc v ltac:(lia) Hv) as Hrange.
    rewrite IH; [|lia|exact Hr].
    unfold sat_add64. destruct (Z.ltb_spec (acc + v) two64) as [Hlt|Hge].
    + rewrite Z.add_assoc. reflexivity.
    + rewrite (Z.min_r (two64 - 1 + zsum r)) by lia. rewrite Z.min_r by lia. reflexivity.
Qed.

Lemma max_fold_ge l : forall acc, acc <= fold_left Z.max l acc /\ Forall (fun v => v <= fold_left Z.max l acc) l.
Proof.
  induction l as [|v r IH]; intro acc; cbn [fold_left]; [split; [lia|constructor]|].
  destruct (IH (Z.max acc v)) as [H1 H2]. split; [lia|]. constructor; [lia|exact H2].
Qed.

Lemma max_fold_attained l : forall acc, fold_left Z.max l acc = acc \/ In (fold_left Z.max l acc) l.
Proof.
  induction l as [|v r IH]; intro acc; cbn [fold_left]; [left; reflexivity|].
  destruct (IH (Z.max acc v)) as [H|H].
  - rewrite H. destruct (Z.max_spec acc v) as [[_ E]|[_ E]]; rewrite E; [right; left; reflexivity|left; reflexivity].
  - right. right. exact H.
Qed.

Lemma sat_sub_nonneg a b : 0 <= sat_sub a b.
Proof. unfold sat_sub. destruct (Z.ltb_spec a b); lia. Qed.

(* the statistics are exactly the per-bucket functions of the pooled contents *)
Lemma stats_exact cfg st :
  Inv cfg st ->
  map st_key (stats cfg st) = map fst (s_buckets st)
  /\ forall s, In s (stats cfg st) ->
       let l := bucket_entries (st_key s) (s_buckets st) in
       l <> []
       /\ st_num s = zlen l
       /\ st_batch s = c_batch cfg
       /\ st_volume s = Z.min (zsum (map e_vol l)) (two64 - 1)
       /\ (forall e, In e l -> sat_sub (s_now st) (e_at e) <= st_oldest s)
       /\ (exists e, In e l /\ st_oldest s = sat_sub (s_now st) (e_at e))
       /\ (exists b, find_bucket (st_key s) (s_buckets st) = Some b
                     /\ st_snap_age s = option_map (sat_sub (s_now st)) (b_snap b)).
Proof.
  intro I. split.
  - unfold stats. rewrite map_map. apply map_ext. intros [k b]. reflexivity.
  - intros s Hs. unfold stats in Hs. apply in_map_iff in Hs. destruct Hs as [[k b] [E Hin]]. subst s.
    unfold stat_of. cbn [st_key fst snd]. cbv zeta.
    pose proof (find_bucket_nodup k _ b (inv_keys _ _ I) Hin) as Hf.
    rewrite (bucket_entries_find k _ (inv_keys _ _ I)), Hf.
    assert (Hne : b_proofs b <> []) by (eapply find_bucket_nonempty; eassumption).
    cbn [st_num st_batch st_volume st_oldest st_snap_age].
    split; [exact Hne|]. split; [reflexivity|]. split; [reflexivity|]. split; [|split; [|split]].
    + rewrite sat_fold_min; [reflexivity|unfold two64; lia|].
      apply Forall_forall. intros v Hv. apply in_map_iff in Hv. destruct Hv as [e [E He]]. subst v.
      pose proof (inv_entry _ _ I) as Hall. rewrite Forall_forall in Hall.
      assert (Hk : In (k, e) (keyed_entries (s_buckets st))) by (apply keyed_in; exists b; auto).
      destruct (Hall _ Hk) as [_ [_ [_ Hr]]]. cbn [snd] in Hr. lia.
    + intros e He. destruct (max_fold_ge (map (fun e => sat_sub (s_now st) (e_at e)) (b_proofs b)) 0) as [_ H].
      rewrite Forall_forall in H. apply H. apply in_map_iff. exists e. auto.
    + destruct (max_fold_attained (map (fun e => sat_sub (s_now st) (e_at e)) (b_proofs b)) 0) as [H|H].
      * destruct (b_proofs b) as [|e0 r] eqn:Eb; [contradiction|]. exists e0. split; [left; reflexivity|].
        destruct (max_fold_ge (map (fun e => sat_sub (s_now st) (e_at e)) (e0 :: r)) 0) as [_ H'].
        inversion H'; subst. pose proof (sat_sub_nonneg (s_now st) (e_at e0)). lia.
      * apply in_map_iff in H. destruct H as [e [E He]]. exists e. split; [exact He|]. symmetry. exact E.
    + exists b. split; reflexivity.
Qed.

(* a snapshot stamps its bucket with the current time *)
Lemma snapshot_marks cfg st k b :
  find_bucket k (s_buckets st) = Some b ->
  exists b', find_bucket k (s_buckets (fst (step cfg st (Snapshot k)))) = Some b'
             /\ b_snap b' = Some (s_now st) /\ b_proofs b' = b_proofs b.
Proof.
  intro Hf. cbn [step]. unfold snapshot. rewrite Hf. cbn [fst set_buckets s_buckets].
  revert Hf. induction (s_buckets st) as [|[k' b1] r IH]; cbn [find_bucket mark_snapshot]; [discriminate|].
  destruct (list_eqb k' k) eqn:E; cbn [find_bucket]; rewrite E.
  - intro H. inversion H; subst. eexists. split; [reflexivity|]. split; reflexivity.
  - exact IH.
Qed.

(* ------------------------------------------------------------------ readable corollaries *)

(* the dummy sentinel is exactly "the four block-hash limbs are zero (as field elements)" *)
Lemma parse_dummy cfg pr k nulls vol :
  parse_metadata cfg pr = Ok (k, nulls, vol) ->
  is_dummy k = list_eqb (map to_canonical (firstn 4 (skipn OFF_BH (p_pis pr)))) ZERO_DIGEST.
Proof.
  intro H. apply parse_meta in H. destruct H as [_ [bh [a [f [Hm [Hk Hl]]]]]]. subst k.
  rewrite is_dummy_key by exact Hl. f_equal.
  unfold read_meta, slice4 in Hm. destruct (OFF_BH + 4 <=? length (p_pis pr))%nat; cbn [rbind] in Hm; [|discriminate].
  destruct (getc (p_pis pr) OFF_ASSET); cbn [rbind] in Hm; [|discriminate].
  destruct (getc (p_pis pr) OFF_FEE); cbn [rbind] in Hm; [|discriminate]. congruence.
Qed.

(* under the invariant, "not in the index" is "in no pooled proof", "has a bucket" is "some pooled proof has this key" *)
Lemma index_none_iff cfg st n :
  Inv cfg st -> (idx_lookup n (s_index st) = None <-> forall e, In e (pooled st) -> ~ In n (e_nulls e)).
Proof.
  intro I. split.
  - intros Hn e He Hin. unfold pooled in He. apply pooled_in in He. destruct He as [k Hk].
    assert (idx_lookup n (s_index st) = Some k) by (apply (inv_index _ _ I); exists e; auto). congruence.
  - intro H. destruct (idx_lookup n (s_index st)) as [k|] eqn:E; [|reflexivity]. exfalso.
    apply (inv_index _ _ I) in E. destruct E as [e [Hk Hn]]. apply (H e); [|exact Hn].
    unfold pooled. apply pooled_in. exists k. exact Hk.
Qed.

Lemma has_bucket_iff_pooled cfg st k :
  Inv cfg st -> (has_bucket k (s_buckets st) = true <-> exists e, In (k, e) (keyed_entries (s_buckets st))).
Proof.
  intro I. rewrite has_bucket_true. split.
  - intro H. apply in_map_iff in H. destruct H as [[k' b] [E Hin]]. cbn [fst] in E. subst k'.
    pose proof (inv_nonempty _ _ I) as Hne. rewrite Forall_forall in Hne. specialize (Hne _ Hin). cbn [snd] in Hne.
    destruct (b_proofs b) as [|e r] eqn:Eb; [contradiction|]. exists e. apply keyed_in. exists b. split; [exact Hin|].
    rewrite Eb. left. reflexivity.
  - intros [e H]. eapply keyed_key_in. exact H.
Qed.

(* no nullifier in two pooled proofs, pairwise form (positions = elements of the keyed list) *)
Lemma unshared_pairs cfg st ke1 ke2 n :
  Inv cfg st -> In ke1 (keyed_entries (s_buckets st)) -> In ke2 (keyed_entries (s_buckets st)) ->
  ke1 <> ke2 -> In n (e_nulls (snd ke1)) -> ~ In n (e_nulls (snd ke2)).
Proof.
  intros I H1 H2 Hne Hn1 Hn2. pose proof (inv_unshared _ _ I n) as Hu. rewrite null_count_keyed in Hu.
  pose proof (filter_two (fun ke => has_null n (snd ke)) _ _ _ H1 H2 Hne) as H.
  assert (2 <= length (filter (fun ke => has_null n (snd ke)) (keyed_entries (s_buckets st))))%nat; [|lia].
  apply H; unfold has_null; apply mem_spec; assumption.
Qed.

(* the window restarts only when a full window has elapsed, only in a push, and then it starts now *)
Lemma window_restart cfg st o :
  0 < c_window cfg ->
  (o_restarted (snd (step cfg st o)) = true ->
     (exists pr, o = Push pr) /\ s_now st - s_win_start st >= c_window cfg
     /\ s_win_start (fst (step cfg st o)) = s_now st)
  /\ (o_restarted (snd (step cfg st o)) = false ->
     s_win_start (fst (step cfg st o)) = s_win_start st
     /\ s_verifs (fst (step cfg st o)) = s_verifs st + b2z (o_verified (snd (step cfg st o)))).
Proof.
  intro W. destruct (step_budget cfg st o) as [H1 [H2 [H3 _]]]. split; intro Hr; rewrite Hr in *.
  - destruct (H1 eq_refl) as [Hp Hrs]. apply restarts_spec in Hrs; auto.
  - split; [exact H3|exact H2].
Qed.

(* an exhausted budget rejects without calling the verifier, and changes nothing but (possibly) the
   window start *)
Lemma exhausted_no_verify cfg st pr :
  c_budget cfg <= window_verifs cfg st ->
  o_verified (snd (step cfg st (Push pr))) = false
  /\ (exists c, o_ret (snd (step cfg st (Push pr))) = RPush (Err c))
  /\ s_buckets (fst (step cfg st (Push pr))) = s_buckets st
  /\ s_index (fst (step cfg st (Push pr))) = s_index st.
Proof.
  intro H. cbn [step]. rewrite push_cases.
  destruct (total_len (s_buckets st) >=? c_max_proofs cfg). { pcbn. repeat split; eauto. }
  destruct (parse_metadata cfg pr) as [[[k nulls] vol]|c]. 2:{ pcbn. repeat split; eauto. }
  destruct (is_dummy k). { pcbn. repeat split; eauto. }
  destruct (Z.geb_spec (window_verifs cfg st) (c_budget cfg)); [|lia].
  pcbn. repeat split; eauto.
Qed.

(* and with budget left (and a well-formed, non-dummy proof, room in the pool) the verifier IS called *)
Lemma budget_left_verifies cfg st pr k nulls vol :
  total_len (s_buckets st) < c_max_proofs cfg -> parse_metadata cfg pr = Ok (k, nulls, vol) -> is_dummy k = false ->
  window_verifs cfg st < c_budget cfg -> o_verified (snd (step cfg st (Push pr))) = true.
Proof.
  intros Hl Hp Hd Hb. cbn [step]. rewrite push_cases, Hp, Hd.
  destruct (Z.geb_spec (total_len (s_buckets st)) (c_max_proofs cfg)); [lia|].
  destruct (Z.geb_spec (window_verifs cfg st) (c_budget cfg)); [lia|].
  destruct (negb (p_ver pr)); [reflexivity|].
  destruct (negb (has_bucket k (s_buckets st)) && (zlen (s_buckets st) >=? c_max_buckets cfg)); [reflexivity|].
  destruct (existsb (fun n => idx_mem n (s_index st)) nulls); reflexivity.
Qed.

(* ------------------------------------------------------------------ statements of Properties/C19..C22 that need glue *)

Lemma conditions_on_pooled_stmt : forall cfg st,
  Inv cfg st ->
  (forall k, has_bucket k (s_buckets st) = true <-> exists e, In (k, e) (keyed_entries (s_buckets st)))
  /\ (forall n, idx_lookup n (s_index st) = None <-> forall e, In e (pooled st) -> ~ In n (e_nulls e)).
Proof. intros cfg st I. split; intro x; [exact (has_bucket_iff_pooled cfg st x I)|exact (index_none_iff cfg st x I)]. Qed.

Lemma inv_means_stmt : forall cfg st,
  Inv cfg st ->
  (* the index contains exactly the nullifiers of the pooled proofs, each mapped to its proof's bucket *)
  (forall n k, idx_lookup n (s_index st) = Some k <->
               exists e, In (k, e) (keyed_entries (s_buckets st)) /\ In n (e_nulls e))
  /\ NoDup (map fst (s_index st))
  (* no two pooled proofs share a nullifier *)
  /\ (forall n, (null_count n (s_buckets st) <= 1)%nat)
  /\ (forall ke1 ke2 n, In ke1 (keyed_entries (s_buckets st)) -> In ke2 (keyed_entries (s_buckets st)) ->
                        ke1 <> ke2 -> In n (e_nulls (snd ke1)) -> ~ In n (e_nulls (snd ke2)))
  (* no bucket is empty; bucket keys are unique *)
  /\ (forall k b, In (k, b) (s_buckets st) -> b_proofs b <> [])
  /\ NoDup (map fst (s_buckets st))
  (* every proof sits in the bucket of its own key, with the metadata its public inputs parse to; it
     verified and is not the dummy sentinel *)
  /\ (forall k e, In (k, e) (keyed_entries (s_buckets st)) ->
        parse_metadata cfg (e_proof e) = Ok (k, e_nulls e, e_vol e)
        /\ p_ver (e_proof e) = true /\ is_dummy k = false /\ 0 <= e_vol e < two64)
  (* the proof and bucket counts are within the limits (and the attempt counter within the budget) *)
  /\ total_len (s_buckets st) <= c_max_proofs cfg
  /\ zlen (s_buckets st) <= c_max_buckets cfg
  /\ 0 <= s_verifs st <= c_budget cfg.
Proof.
  intros cfg st I. pose proof I as I0. destruct I as [Ik Ine Ie Ii Iin Iu Il Inb Iv].
  repeat split; try assumption; try apply Ii; try apply Iv.
  - intros ke1 ke2 n H1 H2 Hne Hn. exact (unshared_pairs cfg st ke1 ke2 n I0 H1 H2 Hne Hn).
  - intros k b Hin. rewrite Forall_forall in Ine. exact (Ine (k, b) Hin).
  - rewrite Forall_forall in Ie. apply (Ie (k, e)). assumption.
  - rewrite Forall_forall in Ie. apply (Ie (k, e)). assumption.
  - rewrite Forall_forall in Ie. apply (Ie (k, e)). assumption.
  - rewrite Forall_forall in Ie. apply (Ie (k, e)). assumption.
  - rewrite Forall_forall in Ie. apply (Ie (k, e)). assumption.
Qed.

Lemma inv_reachable_stmt : forall cfg t0 ops,
  wf_cfg cfg -> Forall wf_op ops ->
  Inv cfg (fold_left (fun s o => fst (step cfg s o)) ops (init t0)).
Proof.
  intros cfg t0 ops W Hw. rewrite <- run_fold. apply inv_run; [exact W|apply inv_init; exact W|exact Hw].
Qed.

Lemma evict_exact_stmt : forall cfg st,
  Inv cfg st ->
  (forall S,
     pooled (fst (step cfg st (EvictSettled S))) = filter (fun e => negb (stale S e)) (pooled st)
     /\ o_ret (snd (step cfg st (EvictSettled S))) = RCount (zlen (filter (stale S) (pooled st))))
  /\ (forall a,
     pooled (fst (step cfg st (EvictOlder a))) = filter (fun e => negb (expired (s_now st) a e)) (pooled st)
     /\ o_ret (snd (step cfg st (EvictOlder a))) = RCount (zlen (filter (expired (s_now st) a) (pooled st))))
  /\ (forall k,
     keyed_entries (s_buckets (fst (step cfg st (RemoveBucket k))))
       = filter (fun ke => negb (list_eqb (fst ke) k)) (keyed_entries (s_buckets st))
     /\ o_ret (snd (step cfg st (RemoveBucket k))) = RRemoved (map e_proof (bucket_entries k (s_buckets st)))).
Proof.
  intros cfg st I. split; [|split].
  - intro S. exact (evict_settled_exact cfg st S I).
  - intro a. exact (evict_older_exact cfg st a).
  - intro k. exact (remove_bucket_exact cfg st k I).
Qed.

Lemma stale_expired_meaning_stmt : forall S now a e,
  (stale S e = true <-> exists n, In n (e_nulls e) /\ In n S)
  /\ (expired now a e = true <-> sat_sub now (e_at e) > a).
Proof. intros. split; [apply stale_spec|apply expired_spec]. Qed.

Lemma snapshot_preflight_ok_stmt : forall cfg st k ps,
  wf_cfg cfg -> Inv cfg st ->
  o_ret (snd (step cfg st (Snapshot k))) = RSnap (Some ps) -> preflight cfg ps = Ok tt.
Proof.
  intros cfg st k ps W I H. destruct (snapshot_exact cfg st k I) as [_ [_ [Hn Hs]]].
  destruct (bucket_entries k (s_buckets st)) as [|e0 r] eqn:E.
  - rewrite (Hn eq_refl) in H. discriminate.
  - assert (Hne : bucket_entries k (s_buckets st) <> []) by (rewrite E; discriminate).
    rewrite Hs in H by discriminate. inversion H; subst ps.
    rewrite <- E. exact (preflight_bucket_ok cfg st k W I Hne).
Qed.

Lemma budget_stmt : forall cfg st ops,
  0 <= c_budget cfg -> 0 <= s_verifs st <= c_budget cfg ->
  Forall (fun o => o_restarted o = false) (snd (run cfg st ops)) ->
  s_verifs st + verify_calls (snd (run cfg st ops)) <= c_budget cfg
  /\ s_verifs (fst (run cfg st ops)) = s_verifs st + verify_calls (snd (run cfg st ops)).
Proof.
  intros cfg st ops Hb Hok Hn. split; [exact (budget_no_restart cfg st ops Hb Hok Hn)|].
  exact (proj1 (run_counts cfg ops st Hn)).
Qed.

Lemma counter_bounded_stmt : forall cfg t0 ops,
  0 <= c_budget cfg -> 0 <= s_verifs (fst (run cfg (init t0) ops)) <= c_budget cfg.
Proof. intros cfg t0 ops Hb. apply run_budget_ok; [exact Hb|]. unfold budget_ok. cbn. lia. Qed.

(* ------------------------------------------------------------------ admission order is age order *)

(* admission times along a bucket never decrease and never exceed the clock *)
Fixpoint nondecr_upto (now : Z) (l : list Z) : Prop :=
  match l with
  | [] => True
  | x :: r => x <= now /\ Forall (fun y => x <= y) r /\ nondecr_upto now r
  end.

Definition bucket_times_ok (now : Z) (kb : key * bucket) : Prop :=
  nondecr_upto now (map e_at (b_proofs (snd kb))).
Definition TimeInv (st : state) : Prop := Forall (bucket_times_ok (s_now st)) (s_buckets st).

Lemma nondecr_filter now (keep : entry -> bool) ps :
  nondecr_upto now (map e_at ps) -> nondecr_upto now (map e_at (filter keep ps)).
Proof.
  induction ps as [|e r IH]; cbn [map filter nondecr_upto]; [auto|].
  intros [H1 [H2 H3]]. destruct (keep e); [|apply IH; exact H3].
  cbn [map nondecr_upto]. split; [exact H1|]. split; [|apply IH; exact H3].
  rewrite Forall_forall in *. intros y Hy. apply in_map_iff in Hy. destruct Hy as [e' [E He']]. subst y.
  apply filter_In in He'. apply H2. apply in_map. apply He'.
Qed.

Lemma nondecr_snoc now ps e :
  e_at e = now -> nondecr_upto now (map e_at ps) -> nondecr_upto now (map e_at (ps ++ [e])).
Proof.
  intro He. induction ps as [|x r IH]; cbn [map app nondecr_upto].
  - intros _. rewrite He. repeat split; [lia|constructor].
  - intros [H1 [H2 H3]]. split; [exact H1|]. split; [|apply IH; exact H3].
    rewrite map_app. apply Forall_app. split; [exact H2|]. cbn [map]. constructor; [lia|constructor].
Qed.

Lemma nondecr_later now now' l : now <= now' -> nondecr_upto now l -> nondecr_upto now' l.
Proof.
  intro Hle. induction l as [|x r IH]; cbn [nondecr_upto]; [auto|].
  intros [H1 [H2 H3]]. split; [lia|]. split; [exact H2|apply IH; exact H3].
Qed.

Lemma time_add now k e bs :
  e_at e = now -> Forall (bucket_times_ok now) bs -> Forall (bucket_times_ok now) (add_entry k e bs).
Proof.
  intro He. induction bs as [|[k' b] r IH]; intro H; cbn [add_entry].
  - constructor; [|constructor]. unfold bucket_times_ok. cbn. rewrite He. repeat split; [lia|constructor].
  - pose proof (Forall_inv H) as Hb. pose proof (Forall_inv_tail H) as Hr. destruct (list_eqb k' k).
    + constructor; [|exact Hr]. unfold bucket_times_ok in *. cbn [snd b_proofs] in *. apply nondecr_snoc; assumption.
    + constructor; [exact Hb|apply IH; exact Hr].
Qed.

Lemma time_retain now sel keep bs :
  Forall (bucket_times_ok now) bs -> Forall (bucket_times_ok now) (retain_buckets sel keep bs).
Proof.
  induction bs as [|[k b] r IH]; intro H; [constructor|].
  inversion H as [|? ? Hb Hr]; subst. rewrite retain_cons. apply Forall_app. split; [|apply IH; exact Hr].
  unfold retain_head. destruct (sel k); [|constructor; [exact Hb|constructor]].
  destruct (filter keep (b_proofs b)) eqn:E; constructor; [|constructor].
  unfold bucket_times_ok in *. cbn [snd b_proofs] in *. rewrite <- E. apply nondecr_filter. exact Hb.
Qed.

Lemma time_mark now k t bs :
  Forall (bucket_times_ok now) bs -> Forall (bucket_times_ok now) (mark_snapshot k t bs).
Proof.
  induction bs as [|[k' b] r IH]; intro H; cbn [mark_snapshot]; [constructor|].
  inversion H as [|? ? Hb Hr]; subst. destruct (list_eqb k' k); constructor; auto.
Qed.

Lemma time_step cfg st o : TimeInv st -> TimeInv (fst (step cfg st o)).
Proof.
  unfold TimeInv. intro T. destruct o as [pr|S|a|k|k|dt|]; cbn [step].
  - assert (Hnow : s_now (fst (push cfg st pr)) = s_now st) by (apply (push_budget cfg st pr)).
    rewrite Hnow. destruct (push_buckets cfg st pr) as [E|[k [nulls [vol [_ [_ E]]]]]]; rewrite E; [exact T|].
    apply time_add; [reflexivity|exact T].
  - unfold evict_settled, retain_state. cbn [fst set_buckets s_buckets s_now]. apply time_retain. exact T.
  - unfold evict_older, retain_state. cbn [fst set_buckets s_buckets s_now]. apply time_retain. exact T.
  - unfold snapshot. destruct (find_bucket k (s_buckets st)); cbn [fst set_buckets s_buckets s_now]; [|exact T].
    apply time_mark. exact T.
  - unfold remove_bucket. destruct (find_bucket k (s_buckets st)); cbn [fst set_buckets s_buckets s_now]; [|exact T].
    rewrite filter_keys_retain. apply time_retain. exact T.
  - cbn [fst s_buckets s_now]. eapply Forall_impl; [|exact T]. intros kb H. unfold bucket_times_ok in *.
    eapply nondecr_later; [|exact H]. lia.
  - exact T.
Qed.

Lemma time_run cfg ops : forall st, TimeInv st -> TimeInv (fst (run cfg st ops)).
Proof.
  induction ops as [|o r IH]; intros st T; [exact T|]. rewrite run_cons. cbn [fst]. apply IH. apply time_step. exact T.
Qed.

Lemma time_init t0 : TimeInv (init t0).
Proof. constructor. Qed.

(* in a sorted bucket the first [n] proofs are the [n] oldest, and the oldest age is the first proof's *)
Lemma nondecr_split now n : forall l x y,
  nondecr_upto now l -> In x (firstn n l) -> In y (skipn n l) -> x <= y.
Proof.
  induction n as [|n IH]; intros l x y H Hx Hy; [contradiction|].
  destruct l as [|z r]; [contradiction|]. cbn [firstn skipn nondecr_upto] in *.
  destruct H as [_ [H2 H3]]. destruct Hx as [Hx|Hx].
  - subst z. rewrite Forall_forall in H2. apply H2.
    clear -Hy. revert r Hy. induction n as [|n IH]; intros r Hy; [exact Hy|]. destruct r; [contradiction|].
    right. apply IH. exact Hy.
  - eapply IH; eassumption.
Qed.

Lemma sat_sub_mono now x y : x <= y -> sat_sub now y <= sat_sub now x.
Proof. intro H. unfold sat_sub. destruct (Z.ltb_spec now y), (Z.ltb_spec now x); lia. Qed.

Lemma bucket_entries_times cfg st k :
  Inv cfg st -> TimeInv st -> nondecr_upto (s_now st) (map e_at (bucket_entries k (s_buckets st))).
Proof.
  intros I T. rewrite (bucket_entries_find k _ (inv_keys _ _ I)).
  destruct (find_bucket k (s_buckets st)) as [b|] eqn:Hf; [|exact Logic.I].
  apply find_bucket_some in Hf. unfold TimeInv in T. rewrite Forall_forall in T. exact (T _ Hf).
Qed.

(* the snapshot is made of the oldest proofs of the bucket: nothing left behind was admitted earlier *)
Lemma snapshot_oldest cfg st k n e1 e2 :
  Inv cfg st -> TimeInv st ->
  In e1 (firstn n (bucket_entries k (s_buckets st))) -> In e2 (skipn n (bucket_entries k (s_buckets st))) ->
  e_at e1 <= e_at e2.
Proof.
  intros I T H1 H2. pose proof (bucket_entries_times cfg st k I T) as Hs.
  eapply (nondecr_split (s_now st) n (map e_at (bucket_entries k (s_buckets st)))); [exact Hs| |].
  - rewrite firstn_map. apply in_map. exact H1.
  - rewrite skipn_map. apply in_map. exact H2.
Qed.

Lemma stats_oldest_is_first cfg st s :
  Inv cfg st -> TimeInv st -> In s (stats cfg st) ->
  exists e r, bucket_entries (st_key s) (s_buckets st) = e :: r /\ st_oldest s = s_now st - e_at e.
Proof.
  intros I T Hs. destruct (stats_exact cfg st I) as [_ H]. destruct (H s Hs) as [Hne [_ [_ [_ [Hge [[e [He Hat]] _]]]]]].
  pose proof (bucket_entries_times cfg st (st_key s) I T) as Hsort.
  destruct (bucket_entries (st_key s) (s_buckets st)) as [|e0 r] eqn:E; [contradiction|].
  exists e0, r. split; [reflexivity|]. cbn [map nondecr_upto] in Hsort. destruct Hsort as [H1 [H2 _]].
  assert (Hle : sat_sub (s_now st) (e_at e) <= sat_sub (s_now st) (e_at e0)).
  { destruct He as [He|He]; [subst; lia|]. apply sat_sub_mono. rewrite Forall_forall in H2. apply H2. apply in_map. exact He. }
  pose proof (Hge e0 (or_introl eq_refl)) as Hge0.
  assert (st_oldest s = sat_sub (s_now st) (e_at e0)) by lia.
  unfold sat_sub in H0. destruct (Z.ltb_spec (s_now st) (e_at e0)); lia.
Qed.

Lemma time_reachable cfg t0 ops : TimeInv (fst (run cfg (init t0) ops)).
Proof. apply time_run. apply time_init. Qed.
