(* Executable model of batch padding, shuffling and dummy-preimage sampling (C15).
     wormhole/aggregator/src/private_batch/prover/lib.rs
        commit                       : count checks, `for _ in 0..num_dummies_needed { proofs.push(template.clone()) }`,
                                       `if proofs.len() > 1 { proofs.shuffle(&mut rng) }`,
                                       generate_dummy_nullifier_pre_images_for_slots(proofs.len())
     wormhole/aggregator/src/public_batch/prover/lib.rs
        commit                       : count checks (preflight), the same padding loop, NO shuffle
     wormhole/aggregator/src/dummy_proof.rs
        generate_random_nullifier_preimage : `loop { rng.fill(&mut [0u8; 32]); if let Ok(d) = BytesDigest::try_from(..) { return d } }`
     rand 0.8.6 src/seq/mod.rs
        SliceRandom::shuffle         : `for i in (1..self.len()).rev() { self.swap(i, gen_index(rng, i + 1)); }`
        gen_index                    : `rng.gen_range(0..ubound as u32) as usize`      (ubound <= u32::MAX)
     rand 0.8.6 src/distributions/uniform.rs  (uniform_int_impl! { u32, u32, u32 })
        sample_single_inclusive      : range = high - low + 1; zone = (range << range.leading_zeros()).wrapping_sub(1);
                                       loop { v = rng.gen::<u32>(); (hi, lo) = v.wmul(range); if lo <= zone { return low + hi } }
   Proofs are opaque values (a type parameter, or Z labels in the dispatch).  The randomness is an explicit input:
   the vector of index draws (Fisher-Yates), the stream of u32 outputs of the generator (gen_index), the stream of
   32-byte candidates (preimages).  What produces those streams (ThreadRng) is NOT modelled.
   What commit checks before padding (proof verification, asset / block / nullifier compatibility) is the subject of
   C14, not of this model: here [commit_private] only has the two count checks that decide how many dummies are added. *)
From V.Base Require Import Common.
From V.Generated Require Import Constants.
From V.Sys Require Import Encoding.

Local Open Scope Z_scope.

(* ---------------------------------------------------------------- padding *)

(* `for _ in 0..n.saturating_sub(len) { proofs.push(template.clone()) }` *)
Definition pad {A} (proofs : list A) (template : A) (n : nat) : list A :=
  proofs ++ repeat template (n - length proofs).

(* the count checks of PrivateBatchProver::commit / preflight_private_batch_proofs: non-empty, at most n *)
Definition count_ok {A} (proofs : list A) (n : nat) : bool :=
  negb (Nat.eqb (length proofs) 0) && Nat.leb (length proofs) n.

(* ---------------------------------------------------------------- Fisher-Yates as in rand 0.8.6 *)

(* l[i] := x (no-op out of range) *)
Definition upd {A} (l : list A) (i : nat) (x : A) : list A :=
  if Nat.ltb i (length l) then firstn i l ++ x :: skipn (S i) l else l.

(* slice::swap(i, j); out of range = Rust panic, rendered as "unchanged" here and excluded by [valid_draws] *)
Definition swap {A} (l : list A) (i j : nat) : list A :=
  match nth_error l i, nth_error l j with
  | Some a, Some b => upd (upd l i b) j a
  | _, _ => l
  end.

(* `for i in (1..len).rev() { swap(i, draw) }`: [fy_go i draws l] performs the steps i, i-1, .., 1 and
   consumes one draw per step (the draw for step i must be in [0, i]) *)
Fixpoint fy_go {A} (i : nat) (draws : list nat) (l : list A) : list A :=
  match i with
  | O => l
  | S i' => match draws with
            | d :: ds => fy_go i' ds (swap l i d)
            | [] => l
            end
  end.

Definition fisher_yates {A} (l : list A) (draws : list nat) : list A := fy_go (length l - 1) draws l.

(* the draw vectors rand can produce for a slice of length i+1: one draw in [0, j] for j = i, i-1, .., 1 *)
Fixpoint valid_draws (i : nat) (draws : list nat) : Prop :=
  match i, draws with
  | O, [] => True
  | S i', d :: ds => (d <= i)%nat /\ valid_draws i' ds
  | _, _ => False
  end.

Fixpoint valid_drawsb (i : nat) (draws : list nat) : bool :=
  match i, draws with
  | O, [] => true
  | S i', d :: ds => Nat.leb d i && valid_drawsb i' ds
  | _, _ => false
  end.

(* ---------------------------------------------------------------- gen_index / gen_range(0..ubound as u32) *)

(* u32::leading_zeros for 0 < x < 2^32 *)
Definition lz32 (x : Z) : Z := 31 - Z.log2 x.
(* (range << range.leading_zeros()).wrapping_sub(1) *)
Definition zone32 (range : Z) : Z := ((range * 2 ^ lz32 range) mod two32 - 1) mod two32.
(* v.wmul(range) = (high word, low word) of the 64-bit product *)
Definition wmul_hi (v range : Z) : Z := (v * range) / two32.
Definition wmul_lo (v range : Z) : Z := (v * range) mod two32.
Definition accept32 (range v : Z) : bool := wmul_lo v range <=? zone32 range.

(* consumes u32 outputs until one is accepted; None = stream exhausted *)
Fixpoint gen_index (range : Z) (stream : list Z) : option (Z * list Z) :=
  match stream with
  | [] => None
  | v :: rest => if accept32 range v then Some (wmul_hi v range, rest) else gen_index range rest
  end.

(* the draws of a whole shuffle of a slice of length i+1, taken from a u32 stream: steps i, i-1, .., 1 with
   ubound = step + 1 *)
Fixpoint draws_from_stream (i : nat) (stream : list Z) : option (list nat * list Z) :=
  match i with
  | O => Some ([], stream)
  | S i' => match gen_index (Z.of_nat i + 1) stream with
            | None => None
            | Some (d, rest) =>
              match draws_from_stream i' rest with
              | None => None
              | Some (ds, rest') => Some (Z.to_nat d :: ds, rest')
              end
            end
  end.

(* SliceRandom::shuffle driven by a generator whose u32 outputs are [stream] *)
Definition shuffle_stream {A} (l : list A) (stream : list Z) : option (list A * list nat * list Z) :=
  match draws_from_stream (length l - 1) stream with
  | None => None
  | Some (ds, rest) => Some (fisher_yates l ds, ds, rest)
  end.

(* ---------------------------------------------------------------- commit *)

(* PrivateBatchProver::commit, slot order as a function of the draws: Err 1 = rejected by a count check *)
Definition commit_private {A} (proofs : list A) (template : A) (n : nat) (draws : list nat) : res (list A) :=
  if count_ok proofs n then
    let padded := pad proofs template n in
    Ok (if Nat.ltb 1 (length padded) then fisher_yates padded draws else padded)
  else Err 1.

(* PublicBatchProver::commit: no shuffle *)
Definition commit_public {A} (proofs : list A) (template : A) (n : nat) : res (list A) :=
  if count_ok proofs n then Ok (pad proofs template n) else Err 1.

(* ---------------------------------------------------------------- dummy preimages *)

(* generate_random_nullifier_preimage over a stream of 32-byte candidates: the first one BytesDigest::try_from
   accepts; the slot value is bytes_to_digest of it *)
Fixpoint sample_preimage (cands : list (list Z)) : option (list Z * list (list Z)) :=
  match cands with
  | [] => None
  | c :: rest => match bytes_digest_try_from c with
                 | Ok d => Some (bytes_to_digest d, rest)
                 | Err _ => sample_preimage rest
                 end
  end.

(* generate_dummy_nullifier_pre_images_for_slots(n): one sample per slot, in slot order *)
Fixpoint sample_preimages (n : nat) (cands : list (list Z)) : option (list (list Z)) :=
  match n with
  | O => Some []
  | S k => match sample_preimage cands with
           | None => None
           | Some (d, rest) => match sample_preimages k rest with
                               | None => None
                               | Some ds => Some (d :: ds)
                               end
           end
  end.

(* ---------------------------------------------------------------- executable predicates on observations
   (evaluated by the correspondence run on what the REAL commit wrote into its partial witness) *)

Fixpoint insert_z (x : Z) (l : list Z) : list Z :=
  match l with
  | [] => [x]
  | y :: r => if x <=? y then x :: l else y :: insert_z x r
  end.
Definition sort_z (l : list Z) : list Z := fold_right insert_z [] l.

Fixpoint chunks4 (l : list Z) : list (list Z) :=
  match l with
  | a :: b :: c :: d :: r => [a; b; c; d] :: chunks4 r
  | [] => []
  | _ => [l]
  end.

Fixpoint mem_l (x : list Z) (l : list (list Z)) : bool :=
  match l with [] => false | y :: r => list_eqb x y || mem_l x r end.
Fixpoint nodup_l (l : list (list Z)) : bool :=
  match l with [] => true | x :: r => negb (mem_l x r) && nodup_l r end.

Definition canonical_digest (d : list Z) : bool :=
  Nat.eqb (length d) 4 && forallb (fun v => (0 <=? v) && (v <? INPUTS_GOLDILOCKS_ORDER)) d.

(* labels of the real proofs: 1..k in the order supplied; the template is 0 *)
Definition real_labels (k : nat) : list Z := map Z.of_nat (seq 1 k).

(* a committed private batch: [labels] = slot labels in committed order, [pre] = the 4n preimage limbs *)
Definition private_obs_ok (k n : nat) (labels pre : list Z) : bool :=
  list_eqb (sort_z labels) (sort_z (pad (real_labels k) 0 n))
  && Nat.eqb (length labels) n
  && Nat.eqb (length (chunks4 pre)) n
  && forallb canonical_digest (chunks4 pre)
  && nodup_l (chunks4 pre).

(* a committed public batch: the slot labels in committed order *)
Definition public_obs_ok (k n : nat) (labels : list Z) : bool :=
  list_eqb labels (pad (real_labels k) 0 n).

(* the preimages of two commits share no value *)
Definition fresh_ok (pre1 pre2 : list Z) : bool :=
  forallb canonical_digest (chunks4 pre1 ++ chunks4 pre2) && nodup_l (chunks4 pre1 ++ chunks4 pre2).

(* sanity bound on a histogram over the n! slot orders: every order was seen *)
Definition fact_z (n : nat) : Z := Z.of_nat (fact n).
Definition histogram_ok (n : nat) (counts : list Z) : bool :=
  (zlen counts =? fact_z n) && forallb (fun c => 1 <=? c) counts.

(* ---------------------------------------------------------------- dispatch *)

Definition nats (l : list Z) : list nat := map Z.to_nat l.
Definition zs (l : list nat) : list Z := map Z.of_nat l.
Definition b2z (b : bool) : Z := if b then 1 else 2.

Definition dispatch_shuffle (fid : Z) (args : list (list Z)) : list Z :=
  (* 1501: shuffle of [0..n) driven by the u32 stream: permutation, draws, number of u32 consumed *)
  if fid =? 1501 then
    let n := Z.to_nat (arg args 0 0) in
    match shuffle_stream (map Z.of_nat (seq 0 n)) (seg args 1) with
    | None => [-3]
    | Some (perm, ds, rest) => 1 :: perm ++ zs ds ++ [zlen (seg args 1) - zlen rest]
    end
  (* 1502: gen_range(0..ubound as u32) on a u32 stream: index, number consumed *)
  else if fid =? 1502 then
    match gen_index (arg args 0 0) (seg args 1) with
    | None => [-3]
    | Some (d, rest) => [1; d; zlen (seg args 1) - zlen rest]
    end
  (* 1503: one candidate of the preimage sampler: accepted? + limbs *)
  else if fid =? 1503 then
    match sample_preimage [seg args 0] with
    | None => [0]
    | Some (d, _) => 1 :: d
    end
  (* 1504: a private commit of k proofs into n slots: rejected ([0]) or the observation satisfies the property ([1]) *)
  else if fid =? 1504 then
    let k := Z.to_nat (arg args 0 0) in let n := Z.to_nat (arg args 0 1) in
    if count_ok (real_labels k) n then [b2z (private_obs_ok k n (seg args 1) (seg args 2))] else [0]
  (* 1505: preimages of two commits *)
  else if fid =? 1505 then [b2z (fresh_ok (seg args 0) (seg args 1))]
  (* 1506: a public commit of k proofs into n slots *)
  else if fid =? 1506 then
    let k := Z.to_nat (arg args 0 0) in let n := Z.to_nat (arg args 0 1) in
    if count_ok (real_labels k) n then [b2z (public_obs_ok k n (seg args 1))] else [0]
  (* 1507: the private commit as a function of a draw vector (for replaying one observed order) *)
  else if fid =? 1507 then
    let k := Z.to_nat (arg args 0 0) in let n := Z.to_nat (arg args 0 1) in
    match commit_private (real_labels k) 0 n (nats (seg args 1)) with
    | Ok l => 1 :: l
    | Err _ => [0]
    end
  (* 1508: histogram of observed slot orders over n distinct slots *)
  else if fid =? 1508 then [b2z (histogram_ok (Z.to_nat (arg args 0 0)) (seg args 1))]
  else [-2].
