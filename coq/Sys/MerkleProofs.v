(* Proofs about the native Merkle-proof model (Sys/Merkle.v) and its link to the leaf circuit's tree walk
   (Circ/Leaf.v).  H is an arbitrary function returning four canonical field elements ([hash_wf]).

   Vocabulary:
     u64 v, typed_digest d, typed_level l    the Rust types: Hash256 = 4 limbs below 2^64, [Hash256; 3]
     canonical d                             four limbs, each a canonical field element (0 <= v < p)
     insert_at pos cur sibs                  the siblings with [cur] inserted at index [pos]
     fold_insert H cur levels                the fold of H (concat (insert_at pos cur sibs)) over the levels
     hash_le / hash_lt                       the byte-lexicographic order of the 32-byte strings
     rank cur sibs                           number of siblings strictly below [cur] in that order *)
From Coq Require Import ZArith Lia List Bool Permutation Sorted.
From V.Base Require Import Common.
From V.Generated Require Import Constants.
From V.Circ Require Import Field Core Prims Gadgets GadgetsProofs Leaf.
From V.Sys Require Import Merkle.
Import ListNotations.
Open Scope Z_scope.
(* mathcomp.zify (loaded through Base/Flt.v) resets the hook; set it again after all imports *)
Ltac Zify.zify_post_hook ::= Z.div_mod_to_equations.

Lemma modulus_pin : MERKLE_GOLDILOCKS_MODULUS = p. Proof. reflexivity. Qed.
Lemma max_depth_pin : MERKLE_MAX_DEPTH = 16. Proof. reflexivity. Qed.
Lemma arity_pin : MERKLE_ARITY = 4 /\ MERKLE_SIBLINGS_PER_LEVEL = 3. Proof. split; reflexivity. Qed.

(* ---------------------------------------------------------------- types *)
Definition u64 (v : Z) : Prop := 0 <= v < two64.
Definition typed_digest (d : digest) : Prop := length d = 4%nat /\ Forall u64 d.
Definition typed_level (l : list digest) : Prop := length l = 3%nat /\ Forall typed_digest l.
Definition canonical (d : digest) : Prop := length d = 4%nat /\ Forall canon d.
Definition canonical_level (l : list digest) : Prop := length l = 3%nat /\ Forall canonical l.
Definition hash_wf (H : list Z -> list Z) : Prop := forall l, canonical (H l).

Record typed_proof (pr : proof) : Prop := mk_typed_proof {
  tp_siblings : Forall typed_level (pf_siblings pr);
  tp_positions : Forall (fun q => 0 <= q < 256) (pf_positions pr);
  tp_leaf : typed_digest (pf_leaf pr);
  tp_root : typed_digest (pf_root pr)
}.

Lemma forallb_Forall_iff {A} (f : A -> bool) (P : A -> Prop) l :
  (forall x, In x l -> (f x = true <-> P x)) -> (forallb f l = true <-> Forall P l).
Proof.
  induction l as [|a l IH]; intros E; cbn [forallb].
  - split; [constructor|reflexivity].
  - rewrite andb_true_iff, (E a (or_introl eq_refl)), IH by (intros x Hx; apply E; right; exact Hx).
    split; [intros [? ?]; constructor; assumption|intros F; inversion F; tauto].
Qed.

Lemma perm_Forall {A} (P : A -> Prop) l l' : Permutation l l' -> Forall P l -> Forall P l'.
Proof.
  intros Pm F. rewrite Forall_forall in *. intros x Hx. apply F.
  apply (Permutation_in _ (Permutation_sym Pm)). exact Hx.
Qed.

Lemma canon_u64 v : canon v -> u64 v.
Proof. unfold canon, u64, p, two64. lia. Qed.
Lemma canonical_typed d : canonical d -> typed_digest d.
Proof. intros [L F]. split; [exact L|]. eapply Forall_impl; [|exact F]. apply canon_u64. Qed.
Lemma canonical_level_typed l : canonical_level l -> typed_level l.
Proof. intros [L F]. split; [exact L|]. eapply Forall_impl; [|exact F]. apply canonical_typed. Qed.

Lemma is_canonical_hash_spec d : typed_digest d -> (is_canonical_hash d = true <-> canonical d).
Proof.
  intros [L F]. unfold is_canonical_hash, canonical.
  rewrite (forallb_Forall_iff _ canon).
  - tauto.
  - intros v Hv. rewrite Forall_forall in F. specialize (F v Hv). unfold u64 in F.
    rewrite Z.ltb_lt, modulus_pin. unfold canon. lia.
Qed.
Lemma is_canonical_of_canonical d : canonical d -> is_canonical_hash d = true.
Proof. intros C. apply is_canonical_hash_spec; [apply canonical_typed|]; exact C. Qed.

Lemma level_canonical_spec l : typed_level l -> (forallb is_canonical_hash l = true <-> canonical_level l).
Proof.
  intros [L F]. unfold canonical_level. rewrite (forallb_Forall_iff _ canonical).
  - tauto.
  - intros d Hd. apply is_canonical_hash_spec. rewrite Forall_forall in F. auto.
Qed.
Lemma levels_canonical_spec ls : Forall typed_level ls ->
  (forallb (forallb is_canonical_hash) ls = true <-> Forall canonical_level ls).
Proof.
  intros F. apply forallb_Forall_iff. intros l Hl. apply level_canonical_spec. rewrite Forall_forall in F. auto.
Qed.

Lemma hash_eqb_spec a b : hash_eqb a b = true <-> a = b.
Proof. apply list_eqb_spec. Qed.
Lemma hash_eqb_refl a : hash_eqb a a = true.
Proof. apply hash_eqb_spec. reflexivity. Qed.

(* ---------------------------------------------------------------- insert_at_position *)
Definition insert_at (pos : Z) (cur : digest) (sibs : list digest) : list digest :=
  firstn (Z.to_nat pos) sibs ++ cur :: skipn (Z.to_nat pos) sibs.
Definition pos_ok (q : Z) : bool := (0 <=? q) && (q <? 4).
Lemma pos_ok_spec q : pos_ok q = true <-> 0 <= q < 4.
Proof. unfold pos_ok. rewrite andb_true_iff, Z.leb_le, Z.ltb_lt. tauto. Qed.

Lemma insert_at_position_spec cur s0 s1 s2 pos :
  insert_at_position cur [s0; s1; s2] pos =
  if pos_ok pos then Ok (insert_at pos cur [s0; s1; s2]) else Err 1.
Proof.
  unfold insert_at_position, pos_ok.
  destruct (Z.eqb_spec pos 0) as [->|N0]; [reflexivity|].
  destruct (Z.eqb_spec pos 1) as [->|N1]; [reflexivity|].
  destruct (Z.eqb_spec pos 2) as [->|N2]; [reflexivity|].
  destruct (Z.eqb_spec pos 3) as [->|N3]; [reflexivity|].
  destruct (Z.leb_spec 0 pos), (Z.ltb_spec pos 4); cbn [andb]; try reflexivity. lia.
Qed.

Lemma insert_at_position_len3 cur sibs pos : length sibs = 3%nat ->
  insert_at_position cur sibs pos = if pos_ok pos then Ok (insert_at pos cur sibs) else Err 1.
Proof.
  intros L. destruct sibs as [|s0 [|s1 [|s2 [|? ?]]]]; try discriminate L. apply insert_at_position_spec.
Qed.

Lemma Forall_firstn {A} (P : A -> Prop) n : forall l, Forall P l -> Forall P (firstn n l).
Proof.
  induction n as [|n IH]; intros [|x l] F; cbn [firstn]; try constructor.
  - inversion F; assumption.
  - apply IH. inversion F; assumption.
Qed.
Lemma Forall_skipn {A} (P : A -> Prop) n : forall l, Forall P l -> Forall P (skipn n l).
Proof.
  induction n as [|n IH]; intros [|x l] F; cbn [skipn]; try assumption; try constructor.
  apply IH. inversion F; assumption.
Qed.
Lemma Forall_insert_at (P : digest -> Prop) pos cur sibs : P cur -> Forall P sibs -> Forall P (insert_at pos cur sibs).
Proof.
  intros Pc F. unfold insert_at. apply Forall_app. split; [apply Forall_firstn; exact F|].
  constructor; [exact Pc|apply Forall_skipn; exact F].
Qed.
Lemma insert_at_length pos cur sibs : length (insert_at pos cur sibs) = S (length sibs).
Proof.
  unfold insert_at. rewrite app_length. cbn [length]. rewrite Nat.add_succ_r, <- app_length, firstn_skipn.
  reflexivity.
Qed.
Lemma insert_at_perm pos cur sibs : Permutation (insert_at pos cur sibs) (cur :: sibs).
Proof.
  unfold insert_at. rewrite <- (firstn_skipn (Z.to_nat pos) sibs) at 3.
  symmetry. apply Permutation_middle.
Qed.

(* ---------------------------------------------------------------- node hashing on canonical children *)
Lemma hash_node_presorted_canonical H ch : Forall canonical ch -> hash_node_presorted H ch = Ok (H (concat ch)).
Proof.
  intros F. unfold hash_node_presorted.
  replace (forallb is_canonical_hash ch) with true; [reflexivity|].
  symmetry. apply forallb_forall. intros d Hd. apply is_canonical_of_canonical. rewrite Forall_forall in F. auto.
Qed.
Lemma hash_node_presorted_ok_iff H ch : Forall typed_digest ch ->
  (is_ok (hash_node_presorted H ch) = true <-> Forall canonical ch).
Proof.
  intros T. unfold hash_node_presorted.
  destruct (forallb is_canonical_hash ch) eqn:E; cbn [is_ok].
  - split; [intros _|reflexivity]. apply (forallb_Forall_iff is_canonical_hash canonical ch); [|exact E].
    intros d Hd. apply is_canonical_hash_spec. rewrite Forall_forall in T. auto.
  - split; [discriminate|]. intros F. rewrite <- E. apply forallb_forall. intros d Hd.
    apply is_canonical_of_canonical. rewrite Forall_forall in F. auto.
Qed.

(* ---------------------------------------------------------------- the walk = the fold *)
Fixpoint fold_insert (H : list Z -> list Z) (cur : digest) (levels : list (list digest * Z)) : digest :=
  match levels with
  | [] => cur
  | (sibs, pos) :: r => fold_insert H (H (concat (insert_at pos cur sibs))) r
  end.

Lemma fold_insert_canonical H : hash_wf H -> forall levels cur, canonical cur -> canonical (fold_insert H cur levels).
Proof.
  intros Hwf. induction levels as [|[sibs pos] r IH]; intros cur C; cbn [fold_insert]; [exact C|].
  apply IH. apply Hwf.
Qed.

Lemma walk_spec H : hash_wf H -> forall levels cur, canonical cur ->
  Forall (fun lv => canonical_level (fst lv)) levels ->
  walk H cur levels =
  if forallb (fun lv => pos_ok (snd lv)) levels then Some (fold_insert H cur levels) else None.
Proof.
  intros Hwf. induction levels as [|[sibs pos] r IH]; intros cur C F; cbn [walk forallb fold_insert]; [reflexivity|].
  inversion F as [|? ? [L Fs] Fr]; subst. cbn [fst snd] in *.
  rewrite insert_at_position_len3 by exact L.
  destruct (pos_ok pos); cbn [andb]; [|reflexivity].
  rewrite hash_node_presorted_canonical by (apply Forall_insert_at; assumption).
  apply IH; [apply Hwf|exact Fr].
Qed.

Lemma combine_fst_Forall {A B} (P : A -> Prop) (xs : list A) : forall (ys : list B), Forall P xs ->
  Forall (fun xy => P (fst xy)) (combine xs ys).
Proof.
  induction xs as [|x xs IH]; intros [|y ys] F; cbn [combine]; try constructor.
  - inversion F; assumption.
  - apply IH. inversion F; assumption.
Qed.
Lemma combine_snd_forallb {A} (f : Z -> bool) (xs : list A) : forall ys, length xs = length ys ->
  forallb (fun xy => f (snd xy)) (combine xs ys) = forallb f ys.
Proof.
  induction xs as [|x xs IH]; intros [|y ys] L; cbn [length] in L; try discriminate; cbn [combine forallb snd]; [reflexivity|].
  rewrite IH by lia. reflexivity.
Qed.

Lemma zlen_eq {A B} (a : list A) (b : list B) : zlen a = zlen b <-> length a = length b.
Proof. unfold zlen. lia. Qed.

(* verify_with_positions, exactly *)
Theorem verify_iff H pr : hash_wf H -> typed_proof pr ->
  (verify_with_positions H pr = true <->
   zlen (pf_siblings pr) <= 16 /\
   length (pf_positions pr) = length (pf_siblings pr) /\
   canonical (pf_leaf pr) /\
   Forall canonical_level (pf_siblings pr) /\
   Forall (fun q => 0 <= q < 4) (pf_positions pr) /\
   fold_insert H (pf_leaf pr) (combine (pf_siblings pr) (pf_positions pr)) = pf_root pr).
Proof.
  intros Hwf [Ts Tp Tl Tr]. unfold verify_with_positions. rewrite max_depth_pin.
  destruct (Z.ltb_spec 16 (zlen (pf_siblings pr))) as [Big|Small]; [split; [discriminate|intros [? _]; lia]|].
  destruct (Z.eqb_spec (zlen (pf_siblings pr)) (zlen (pf_positions pr))) as [El|Nl]; cbn [negb].
  2:{ split; [discriminate|]. intros (_ & L & _). exfalso. apply Nl. apply zlen_eq. symmetry. exact L. }
  apply zlen_eq in El.
  destruct (is_canonical_hash (pf_leaf pr)) eqn:Cl; cbn [negb].
  2:{ split; [discriminate|]. intros (_ & _ & C & _). apply is_canonical_of_canonical in C. congruence. }
  apply (is_canonical_hash_spec _ Tl) in Cl.
  destruct (forallb (forallb is_canonical_hash) (pf_siblings pr)) eqn:Cs; cbn [negb].
  2:{ split; [discriminate|]. intros (_ & _ & _ & C & _). apply (levels_canonical_spec _ Ts) in C. congruence. }
  apply (levels_canonical_spec _ Ts) in Cs.
  rewrite (walk_spec H Hwf) by (try assumption; apply combine_fst_Forall; exact Cs).
  rewrite (combine_snd_forallb pos_ok) by exact El.
  destruct (forallb pos_ok (pf_positions pr)) eqn:Pq.
  - rewrite hash_eqb_spec. apply (forallb_Forall_iff pos_ok (fun q => 0 <= q < 4)) in Pq; [|intros; apply pos_ok_spec].
    split; [intros E; repeat (split; [first [lia|congruence|assumption]|]); exact E|intros (_ & _ & _ & _ & _ & E); exact E].
  - split; [discriminate|]. intros (_ & _ & _ & _ & F & _).
    apply (forallb_Forall_iff pos_ok (fun q => 0 <= q < 4)) in F; [congruence|intros; apply pos_ok_spec].
Qed.

(* the root of an accepted proof is canonical as well *)
Lemma verify_root_canonical H pr : hash_wf H -> typed_proof pr ->
  verify_with_positions H pr = true -> canonical (pf_root pr).
Proof.
  intros Hwf T V. apply (verify_iff H pr Hwf T) in V. destruct V as (_ & _ & C & _ & _ & E).
  rewrite <- E. apply fold_insert_canonical; assumption.
Qed.

(* ================================================================ the order of [u8; 32] *)

Definition hash_le (a b : digest) : Prop := hash_leb a b = true.
Definition hash_lt (a b : digest) : Prop := hash_ltb a b = true.

Lemma lex_total a : forall b, lex_leb a b = false -> lex_leb b a = true.
Proof.
  induction a as [|x a IH]; intros [|y b]; cbn [lex_leb]; try discriminate; try reflexivity.
  destruct (Z.ltb_spec x y), (Z.ltb_spec y x); try discriminate; try reflexivity; try lia. apply IH.
Qed.
Lemma lex_antisym a : forall b, lex_leb a b = true -> lex_leb b a = true -> a = b.
Proof.
  induction a as [|x a IH]; intros [|y b]; cbn [lex_leb]; try discriminate; try reflexivity.
  destruct (Z.ltb_spec x y), (Z.ltb_spec y x); try discriminate; try lia.
  intros H1 H2. f_equal; [lia|apply IH; assumption].
Qed.
Lemma lex_trans a : forall b c, lex_leb a b = true -> lex_leb b c = true -> lex_leb a c = true.
Proof.
  induction a as [|x a IH]; intros [|y b] [|z c]; cbn [lex_leb]; try discriminate; try reflexivity.
  destruct (Z.ltb_spec x y), (Z.ltb_spec y z), (Z.ltb_spec y x), (Z.ltb_spec z y), (Z.ltb_spec x z), (Z.ltb_spec z x);
    try discriminate; try reflexivity; try lia.
  apply IH.
Qed.
Lemma lex_refl a : lex_leb a a = true.
Proof. induction a as [|x a IH]; [reflexivity|]. cbn [lex_leb]. rewrite Z.ltb_irrefl. exact IH. Qed.

(* the readable form of "strictly below": the first differing byte decides *)
Inductive lex_lt : list Z -> list Z -> Prop :=
| lex_lt_here x y a b : x < y -> lex_lt (x :: a) (y :: b)
| lex_lt_next x a b : lex_lt a b -> lex_lt (x :: a) (x :: b).

Lemma lex_ltb_spec a : forall b, length a = length b -> (lex_leb b a = false <-> lex_lt a b).
Proof.
  induction a as [|x a IH]; intros [|y b] L; cbn [length] in L; try discriminate.
  - cbn. split; [discriminate|intros I; inversion I].
  - cbn [lex_leb]. destruct (Z.ltb_spec y x) as [Lyx|Gyx].
    + split; [discriminate|]. intros I. inversion I; subst; lia.
    + destruct (Z.ltb_spec x y) as [Lxy|Gxy].
      * split; [intros _; constructor; exact Lxy|reflexivity].
      * assert (x = y) by lia. subst y. rewrite IH by lia.
        split; [intros I; constructor; exact I|intros I; inversion I; subst; [lia|assumption]].
Qed.

(* bytes of a hash: 32 of them, and they determine the limbs *)
Lemma to_le_length n : forall x, length (to_le n x) = n.
Proof. induction n as [|n IH]; intros x; cbn [to_le length]; [reflexivity|rewrite IH; reflexivity]. Qed.

Lemma to_le_inj n : forall x y, to_le n x = to_le n y -> x mod 256 ^ Z.of_nat n = y mod 256 ^ Z.of_nat n.
Proof.
  induction n as [|n IH]; intros x y E.
  - cbn. rewrite !Z.mod_1_r. reflexivity.
  - cbn [to_le] in E. inversion E as [[E0 E1]]. apply IH in E1.
    rewrite Nat2Z.inj_succ, Z.pow_succ_r by lia.
    rewrite !Z.rem_mul_r by lia. rewrite E0, E1. reflexivity.
Qed.
Lemma pow256_8 : 256 ^ Z.of_nat 8 = two64. Proof. reflexivity. Qed.
Lemma bytes_of_limb_inj x y : u64 x -> u64 y -> bytes_of_limb x = bytes_of_limb y -> x = y.
Proof.
  unfold bytes_of_limb, u64. intros Hx Hy E. apply to_le_inj in E. rewrite pow256_8 in E.
  rewrite !Z.mod_small in E by assumption. exact E.
Qed.

Lemma app_eq_len {A} (a1 : list A) : forall a2 b1 b2, length a1 = length a2 -> a1 ++ b1 = a2 ++ b2 -> a1 = a2 /\ b1 = b2.
Proof.
  induction a1 as [|x a1 IH]; intros [|y a2] b1 b2 L E; cbn [length] in L; try discriminate.
  - split; [reflexivity|exact E].
  - cbn [app] in E. inversion E; subst. destruct (IH a2 b1 b2) as [-> ->]; [lia|assumption|]. split; reflexivity.
Qed.

Lemma bytes_of_digest_inj a : forall b, Forall u64 a -> Forall u64 b -> length a = length b ->
  bytes_of_digest a = bytes_of_digest b -> a = b.
Proof.
  induction a as [|x a IH]; intros [|y b] Fa Fb L E; cbn [length] in L; try discriminate; [reflexivity|].
  inversion Fa; inversion Fb; subst. cbn [bytes_of_digest flat_map] in E.
  apply app_eq_len in E; [|unfold bytes_of_limb; rewrite !to_le_length; reflexivity].
  destruct E as [E1 E2]. f_equal; [apply bytes_of_limb_inj; assumption|apply IH; try assumption; lia].
Qed.
Lemma bytes_of_digest_length d : length (bytes_of_digest d) = (8 * length d)%nat.
Proof.
  induction d as [|x d IH]; [reflexivity|]. cbn [bytes_of_digest flat_map length].
  rewrite app_length. unfold bytes_of_limb at 1. rewrite to_le_length. fold (bytes_of_digest d). rewrite IH. lia.
Qed.

(* a total order on hashes *)
Lemma hash_le_refl a : hash_le a a.
Proof. apply lex_refl. Qed.
Lemma hash_le_total a b : hash_leb a b = false -> hash_le b a.
Proof. apply lex_total. Qed.
Lemma hash_le_trans a b c : hash_le a b -> hash_le b c -> hash_le a c.
Proof. apply lex_trans. Qed.
Lemma hash_le_antisym a b : typed_digest a -> typed_digest b -> hash_le a b -> hash_le b a -> a = b.
Proof.
  intros [La Fa] [Lb Fb] H1 H2. apply bytes_of_digest_inj; try assumption; [congruence|].
  apply lex_antisym; assumption.
Qed.
Lemma hash_ltb_irrefl a : hash_ltb a a = false.
Proof. unfold hash_ltb. rewrite (hash_le_refl a). reflexivity. Qed.
(* strictly below = the byte strings differ and the first differing byte is smaller *)
Lemma hash_lt_spec a b : length a = length b -> (hash_lt a b <-> lex_lt (bytes_of_digest a) (bytes_of_digest b)).
Proof.
  intros L. unfold hash_lt, hash_ltb, hash_leb. rewrite negb_true_iff.
  apply lex_ltb_spec. rewrite !bytes_of_digest_length. lia.
Qed.

(* ---------------------------------------------------------------- sort *)
Lemma insert_perm x l : Permutation (insert_sorted x l) (x :: l).
Proof.
  induction l as [|y r IH]; [reflexivity|]. cbn [insert_sorted].
  destruct (hash_leb x y); [reflexivity|]. rewrite IH. apply perm_swap.
Qed.
Lemma sort_perm l : Permutation (sort_hashes l) l.
Proof.
  induction l as [|x l IH]; [reflexivity|]. cbn [sort_hashes fold_right].
  fold (sort_hashes l). rewrite insert_perm. constructor. exact IH.
Qed.
Lemma insert_sorted_sorted x l : StronglySorted hash_le l -> StronglySorted hash_le (insert_sorted x l).
Proof.
  induction 1 as [|y r S IH F]; [repeat constructor|]. cbn [insert_sorted].
  destruct (hash_leb x y) eqn:E.
  - constructor; [constructor; assumption|]. constructor; [exact E|].
    rewrite Forall_forall in *. intros z Hz. eapply hash_le_trans; [exact E|apply F, Hz].
  - constructor; [exact IH|]. apply hash_le_total in E.
    rewrite Forall_forall in *. intros z Hz.
    apply (Permutation_in _ (insert_perm x r)) in Hz. destruct Hz as [<-|Hz]; [exact E|apply F, Hz].
Qed.
Lemma sort_sorted l : StronglySorted hash_le (sort_hashes l).
Proof.
  induction l as [|x l IH]; [constructor|]. cbn [sort_hashes fold_right]. apply insert_sorted_sorted, IH.
Qed.
(* the sorted arrangement of a multiset of (typed) hashes is unique: this is what [T]::sort returns,
   whatever the algorithm *)
Lemma sorted_perm_eq l1 : forall l2, Forall typed_digest l1 -> StronglySorted hash_le l1 -> StronglySorted hash_le l2 ->
  Permutation l1 l2 -> l1 = l2.
Proof.
  induction l1 as [|a l1 IH]; intros l2 T S1 S2 P.
  - apply Permutation_nil in P. auto.
  - destruct l2 as [|b l2]; [apply Permutation_sym, Permutation_nil in P; discriminate|].
    assert (T2 : Forall typed_digest (b :: l2)) by (apply (perm_Forall _ _ _ P); exact T).
    inversion_clear S1 as [|? ? S1' F1]. inversion_clear S2 as [|? ? S2' F2].
    rewrite Forall_forall in F1, F2.
    assert (Hab : hash_le a b).
    { assert (I : In b (a :: l1)) by (apply (Permutation_in _ (Permutation_sym P)); left; reflexivity).
      destruct I as [<-|I]; [apply hash_le_refl|apply F1, I]. }
    assert (Hba : hash_le b a).
    { assert (I : In a (b :: l2)) by (apply (Permutation_in _ P); left; reflexivity).
      destruct I as [<-|I]; [apply hash_le_refl|apply F2, I]. }
    inversion T; inversion T2; subst.
    assert (E : a = b) by (apply hash_le_antisym; assumption). subst b.
    f_equal. apply IH; try assumption. eapply Permutation_cons_inv; exact P.
Qed.
Lemma sort_unique l s : Forall typed_digest l -> Permutation s l -> StronglySorted hash_le s -> sort_hashes l = s.
Proof.
  intros T P S. apply sorted_perm_eq; [|apply sort_sorted|exact S|].
  - apply (perm_Forall _ _ _ (Permutation_sym (sort_perm l))). exact T.
  - rewrite sort_perm. symmetry. exact P.
Qed.

(* ---------------------------------------------------------------- rank = index of the first occurrence *)
Definition count_lt (cur : digest) (l : list digest) : nat := length (filter (fun s => hash_ltb s cur) l).
Definition rank (cur : digest) (sibs : list digest) : Z := Z.of_nat (count_lt cur sibs).

Lemma count_lt_perm cur l l' : Permutation l l' -> count_lt cur l = count_lt cur l'.
Proof.
  unfold count_lt. induction 1 as [|x l l' P IH|x y l|l l' l'' P1 IH1 P2 IH2]; cbn [filter].
  - reflexivity.
  - destruct (hash_ltb x cur); cbn [length]; rewrite IH; reflexivity.
  - destruct (hash_ltb x cur), (hash_ltb y cur); reflexivity.
  - congruence.
Qed.
Lemma count_lt_le cur l : (count_lt cur l <= length l)%nat.
Proof.
  unfold count_lt. induction l as [|x l IH]; cbn [filter length]; [lia|].
  destruct (hash_ltb x cur); cbn [length]; lia.
Qed.
Lemma count_lt_cons_self cur l : count_lt cur (cur :: l) = count_lt cur l.
Proof. unfold count_lt. cbn [filter]. rewrite hash_ltb_irrefl. reflexivity. Qed.
Lemma count_lt_all_ge cur l : Forall (hash_le cur) l -> count_lt cur l = 0%nat.
Proof.
  unfold count_lt. induction 1 as [|x l Hx F IH]; [reflexivity|]. cbn [filter].
  unfold hash_ltb. rewrite Hx. cbn [negb]. exact IH.
Qed.

Lemma find_index_sorted cur l : typed_digest cur -> Forall typed_digest l -> StronglySorted hash_le l -> In cur l ->
  find_index (hash_eqb cur) l = Some (count_lt cur l).
Proof.
  intros Tc. induction l as [|x r IH]; intros T S I; [destruct I|].
  inversion T as [|? ? Tx Tr]; subst. inversion S as [|? ? Sr Fx]; subst.
  cbn [find_index]. destruct (hash_eqb cur x) eqn:E.
  - apply hash_eqb_spec in E. subst x. rewrite count_lt_cons_self, count_lt_all_ge by exact Fx. reflexivity.
  - destruct I as [->|I]; [rewrite hash_eqb_refl in E; discriminate|].
    rewrite IH by assumption. f_equal.
    unfold count_lt at 2. cbn [filter].
    assert (Lt : hash_ltb x cur = true).
    { unfold hash_ltb. destruct (hash_leb cur x) eqn:Le; [|reflexivity]. exfalso.
      rewrite Forall_forall in Fx. specialize (Fx cur I).
      assert (x = cur) by (apply hash_le_antisym; assumption). subst x. rewrite hash_eqb_refl in E. discriminate. }
    rewrite Lt. reflexivity.
Qed.

Lemma find_index_split f : forall l n, find_index f l = Some n ->
  exists a x b, l = a ++ x :: b /\ length a = n /\ f x = true /\ remove_nth n l = a ++ b.
Proof.
  induction l as [|y r IH]; intros n E; cbn [find_index] in E; [discriminate|].
  destruct (f y) eqn:Fy.
  - inversion E; subst. exists [], y, r. repeat split; assumption.
  - destruct (find_index f r) as [m|] eqn:Er; [|discriminate]. inversion E; subst.
    destruct (IH m eq_refl) as (a & x & b & -> & L & Fx & R).
    exists (y :: a), x, b. cbn [app length remove_nth]. rewrite R, L. repeat split. exact Fx.
Qed.

Lemma sorted_remove {A} (R : A -> A -> Prop) a x b : StronglySorted R (a ++ x :: b) -> StronglySorted R (a ++ b).
Proof.
  induction a as [|y a IH]; cbn [app]; intros S; inversion S as [|? ? S' F]; subst; [exact S'|].
  constructor; [apply IH; exact S'|].
  apply Forall_app in F. destruct F as [F1 F2]. inversion F2; subst. apply Forall_app. split; assumption.
Qed.

Lemma insert_at_split (a b : list digest) x : insert_at (Z.of_nat (length a)) x (a ++ b) = a ++ x :: b.
Proof.
  unfold insert_at. rewrite Nat2Z.id, firstn_app, skipn_app, Nat.sub_diag, firstn_all, skipn_all.
  cbn [firstn skipn app]. rewrite app_nil_r. reflexivity.
Qed.

(* one level of from_unsorted *)
Lemma level_normalised cur lv : typed_digest cur -> Forall typed_digest lv ->
  let sorted := sort_hashes (cur :: lv) in
  find_index (hash_eqb cur) sorted = Some (count_lt cur lv) /\
  Permutation (remove_nth (count_lt cur lv) sorted) lv /\
  StronglySorted hash_le (remove_nth (count_lt cur lv) sorted) /\
  insert_at (rank cur lv) cur (remove_nth (count_lt cur lv) sorted) = sorted.
Proof.
  intros Tc Tl sorted.
  assert (P : Permutation sorted (cur :: lv)) by apply sort_perm.
  assert (Ts : Forall typed_digest sorted).
  { apply (perm_Forall _ _ _ (Permutation_sym P)). constructor; assumption. }
  assert (I : In cur sorted) by (apply (Permutation_in _ (Permutation_sym P)); left; reflexivity).
  assert (E : find_index (hash_eqb cur) sorted = Some (count_lt cur lv)).
  { rewrite (find_index_sorted cur sorted Tc Ts (sort_sorted _) I).
    rewrite (count_lt_perm cur _ _ P), count_lt_cons_self. reflexivity. }
  split; [exact E|].
  destruct (find_index_split _ _ _ E) as (a & x & b & Es & La & Fx & R).
  apply hash_eqb_spec in Fx. subst x. rewrite R.
  split; [|split].
  - apply Permutation_cons_inv with (a := cur). rewrite <- P, Es. apply Permutation_middle.
  - apply (sorted_remove hash_le a cur b). rewrite <- Es. apply sort_sorted.
  - unfold rank. rewrite <- La, Es. apply insert_at_split.
Qed.

(* ---------------------------------------------------------------- from_unsorted *)
(* the root reached from [cur] through unsorted child sets (each set hashed in sorted order) *)
Fixpoint root_of (H : list Z -> list Z) (cur : digest) (levels : list (list digest)) : digest :=
  match levels with
  | [] => cur
  | lv :: r => root_of H (H (concat (sort_hashes (cur :: lv)))) r
  end.

(* what from_unsorted stores for a path: per level the position is the rank of the running hash, the
   stored siblings are the given ones, sorted, and inserting the running hash at the position gives the
   sorted child set *)
Fixpoint normalised (H : list Z -> list Z) (cur : digest) (unsorted stored : list (list digest)) (positions : list Z) : Prop :=
  match unsorted, stored, positions with
  | [], [], [] => True
  | lv :: ur, s :: sr, q :: qr =>
      q = rank cur lv /\ Permutation s lv /\ StronglySorted hash_le s /\
      insert_at q cur s = sort_hashes (cur :: lv) /\
      normalised H (H (concat (sort_hashes (cur :: lv)))) ur sr qr
  | _, _, _ => False
  end.

Lemma fu_loop_spec H : hash_wf H -> forall levels cur, canonical cur -> Forall (Forall canonical) levels ->
  exists ss ps, fu_loop H cur levels = Ok (ss, ps, root_of H cur levels) /\ normalised H cur levels ss ps.
Proof.
  intros Hwf. induction levels as [|lv r IH]; intros cur C F.
  - exists [], []. split; [reflexivity|exact I].
  - inversion F as [|? ? Fl Fr]; subst. cbn [fu_loop root_of].
    assert (Tl : Forall typed_digest lv) by (eapply Forall_impl; [|exact Fl]; apply canonical_typed).
    destruct (level_normalised cur lv (canonical_typed _ C) Tl) as (E & P & S & Ins). cbv zeta in E, P, S, Ins.
    rewrite E.
    rewrite hash_node_presorted_canonical.
    2:{ apply (perm_Forall _ _ _ (Permutation_sym (sort_perm (cur :: lv)))). constructor; assumption. }
    destruct (IH (H (concat (sort_hashes (cur :: lv)))) (Hwf _) Fr) as (ss & ps & E2 & N).
    rewrite E2. eexists _, _. split; [reflexivity|].
    cbn [normalised]. fold (rank cur lv). repeat (split; [first [reflexivity|assumption]|]). exact N.
Qed.

Lemma normalised_lengths H : forall unsorted cur stored positions, normalised H cur unsorted stored positions ->
  length stored = length unsorted /\ length positions = length unsorted.
Proof.
  induction unsorted as [|lv ur IH]; intros cur [|s sr] [|q qr] N; cbn [normalised] in N; try contradiction.
  - split; reflexivity.
  - destruct N as (_ & _ & _ & _ & N). destruct (IH _ _ _ N) as [L1 L2]. cbn [length]. split; congruence.
Qed.

Lemma normalised_fold H : forall unsorted cur stored positions, normalised H cur unsorted stored positions ->
  fold_insert H cur (combine stored positions) = root_of H cur unsorted.
Proof.
  induction unsorted as [|lv ur IH]; intros cur [|s sr] [|q qr] N; cbn [normalised] in N; try contradiction.
  - reflexivity.
  - destruct N as (_ & _ & _ & E & N). cbn [combine fold_insert root_of]. rewrite E. apply IH. exact N.
Qed.

Lemma normalised_typed H : forall unsorted cur stored positions, Forall typed_level unsorted ->
  normalised H cur unsorted stored positions ->
  Forall typed_level stored /\ Forall (fun q => 0 <= q < 4) positions.
Proof.
  induction unsorted as [|lv ur IH]; intros cur [|s sr] [|q qr] T N; cbn [normalised] in N; try contradiction.
  - split; constructor.
  - destruct N as (Eq & P & _ & _ & N). inversion T as [|? ? [Ll Tl] Tr]; subst.
    destruct (IH _ _ _ Tr N) as [T1 T2]. split; constructor; try assumption.
    + split; [rewrite (Permutation_length P); exact Ll|].
      apply (perm_Forall _ _ _ (Permutation_sym P)). exact Tl.
    + unfold rank. pose proof (count_lt_le cur lv). lia.
Qed.

Lemma compute_root_spec H : hash_wf H -> forall levels cur, canonical cur -> Forall (Forall canonical) levels ->
  compute_root H cur levels = Ok (root_of H cur levels).
Proof.
  intros Hwf. induction levels as [|lv r IH]; intros cur C F; cbn [compute_root root_of]; [reflexivity|].
  inversion F as [|? ? Fl Fr]; subst. unfold hash_node.
  rewrite hash_node_presorted_canonical.
  2:{ apply (perm_Forall _ _ _ (Permutation_sym (sort_perm (cur :: lv)))). constructor; assumption. }
  cbn [rbind]. apply IH; [apply Hwf|exact Fr].
Qed.

Lemma normalised_levels (P : digest -> Prop) H : forall unsorted cur stored positions,
  Forall (fun l => length l = 3%nat /\ Forall P l) unsorted ->
  normalised H cur unsorted stored positions ->
  Forall (fun l => length l = 3%nat /\ Forall P l) stored.
Proof.
  induction unsorted as [|lv ur IH]; intros cur [|s sr] [|q qr] T N; cbn [normalised] in N; try contradiction.
  - constructor.
  - destruct N as (_ & Pm & _ & _ & N). inversion T as [|? ? [Ll Tl] Tr]; subst.
    constructor; [|exact (IH _ _ _ Tr N)].
    split; [rewrite (Permutation_length Pm); exact Ll|]. apply (perm_Forall _ _ _ (Permutation_sym Pm)). exact Tl.
Qed.

Lemma levels_flatten ls : Forall canonical_level ls -> Forall (Forall canonical) ls.
Proof. intros F. eapply Forall_impl; [|exact F]. intros l [_ C]. exact C. Qed.

Theorem from_unsorted_ok H leaf root sibs : hash_wf H ->
  zlen sibs <= 16 -> canonical leaf -> Forall canonical_level sibs -> typed_digest root ->
  exists pr, from_unsorted H sibs leaf root = Ok pr /\
    pf_leaf pr = leaf /\ pf_root pr = root /\
    normalised H leaf sibs (pf_siblings pr) (pf_positions pr) /\
    typed_proof pr /\
    (verify H pr = true <-> root = root_of H leaf sibs) /\
    verify H (mkProof (pf_siblings pr) (pf_positions pr) leaf (root_of H leaf sibs)) = true.
Proof.
  intros Hwf D Cl Cs Tr. unfold from_unsorted.
  replace (zlen sibs <=? MERKLE_MAX_DEPTH) with true by (symmetry; apply Z.leb_le; rewrite max_depth_pin; exact D).
  rewrite (is_canonical_of_canonical _ Cl).
  assert (Ts : Forall typed_level sibs) by (eapply Forall_impl; [|exact Cs]; apply canonical_level_typed).
  replace (forallb (forallb is_canonical_hash) sibs) with true
    by (symmetry; apply (levels_canonical_spec _ Ts); exact Cs).
  cbn [guard rbind].
  destruct (fu_loop_spec H Hwf sibs leaf Cl (levels_flatten _ Cs)) as (ss & ps & E & N). rewrite E.
  destruct (normalised_lengths H _ _ _ _ N) as [Ls Lp].
  destruct (normalised_typed H _ _ _ _ Ts N) as [Tss Rq].
  pose proof (normalised_levels canonical H _ _ _ _ Cs N) as Css.
  pose proof (normalised_fold H _ _ _ _ N) as Fd.
  assert (Tq : Forall (fun q => 0 <= q < 256) ps) by (eapply Forall_impl; [|exact Rq]; cbv beta; intros; lia).
  assert (Cr : canonical (root_of H leaf sibs)) by (rewrite <- Fd; apply fold_insert_canonical; assumption).
  eexists. split; [reflexivity|]. cbn [pf_leaf pf_root pf_siblings pf_positions].
  split; [reflexivity|]. split; [reflexivity|]. split; [exact N|].
  assert (T1 : typed_proof (mkProof ss ps leaf root)).
  { constructor; cbn [pf_leaf pf_root pf_siblings pf_positions]; try assumption. apply canonical_typed; exact Cl. }
  assert (T2 : typed_proof (mkProof ss ps leaf (root_of H leaf sibs))).
  { constructor; cbn [pf_leaf pf_root pf_siblings pf_positions]; try assumption; apply canonical_typed; assumption. }
  split; [exact T1|]. unfold verify.
  assert (Z16 : zlen ss <= 16) by (unfold zlen in *; lia).
  split.
  - rewrite (verify_iff H _ Hwf T1). cbn [pf_leaf pf_root pf_siblings pf_positions]. rewrite Fd.
    split; [intros (_ & _ & _ & _ & _ & E1); symmetry; exact E1|].
    intros ->. repeat (split; [first [assumption|congruence]|]). reflexivity.
  - apply (verify_iff H _ Hwf T2). cbn [pf_leaf pf_root pf_siblings pf_positions].
    repeat (split; [first [assumption|congruence]|]). exact Fd.
Qed.

Theorem from_unsorted_accepts_iff H leaf root sibs : hash_wf H -> typed_digest leaf -> Forall typed_level sibs ->
  (is_ok (from_unsorted H sibs leaf root) = true <->
   zlen sibs <= 16 /\ canonical leaf /\ Forall canonical_level sibs) /\
  from_unsorted H sibs leaf root <> Err PANIC.
Proof.
  intros Hwf Tl Ts. unfold from_unsorted. rewrite max_depth_pin.
  destruct (Z.leb_spec (zlen sibs) 16) as [D|D]; cbn [guard rbind].
  2:{ split; [split; [discriminate|intros [? _]; lia]|discriminate]. }
  destruct (is_canonical_hash leaf) eqn:Cl; cbn [guard rbind].
  2:{ split; [split; [discriminate|]|discriminate]. intros (_ & C & _). apply is_canonical_of_canonical in C. congruence. }
  apply (is_canonical_hash_spec _ Tl) in Cl.
  destruct (forallb (forallb is_canonical_hash) sibs) eqn:Cs; cbn [guard rbind].
  2:{ split; [split; [discriminate|]|discriminate]. intros (_ & _ & C). apply (levels_canonical_spec _ Ts) in C. congruence. }
  apply (levels_canonical_spec _ Ts) in Cs.
  destruct (fu_loop_spec H Hwf sibs leaf Cl (levels_flatten _ Cs)) as (ss & ps & E & _). rewrite E.
  split; [|discriminate]. cbn [is_ok]. split; [intros _; split; [exact D|split; [exact Cl|exact Cs]]|reflexivity].
Qed.

(* hash_node of a child set = the sponge over the sorted children; any arrangement gives the same hash *)
Lemma hash_node_perm H c1 c2 : Forall typed_digest c1 -> Permutation c1 c2 -> hash_node H c1 = hash_node H c2.
Proof.
  intros T P. unfold hash_node. f_equal. apply sort_unique; [exact T| |apply sort_sorted].
  rewrite sort_perm. symmetry. exact P.
Qed.

(* ================================================================ the circuit's tree walk *)

Definition map2_ := map2.
Lemma map3_as_map2 (f g : Z -> Z -> Z) cs : forall xs ys,
  map3 (fun c a b => f c (g a b)) cs xs ys = map2 f cs (map2 g xs ys).
Proof.
  unfold map3, map2. induction cs as [|c cs IH]; intros xs ys; [reflexivity|].
  destruct xs as [|x xs]; [reflexivity|]. destruct ys as [|y ys]; [reflexivity|].
  cbn [combine map]. rewrite IH. reflexivity.
Qed.
Lemma map2_select_b (b : bool) x : forall y, length x = length y -> Forall canon x -> Forall canon y ->
  map2 (g_select (b2z b)) x y = if b then x else y.
Proof.
  unfold map2. induction x as [|a x IH]; intros [|c y] L Fx Fy; cbn [length] in L; try discriminate.
  - destruct b; reflexivity.
  - inversion Fx; inversion Fy; subst. cbn [combine map]. rewrite IH by (try assumption; lia).
    rewrite g_select_b by assumption. destruct b; reflexivity.
Qed.
Lemma sel2 (b : bool) x y : canonical x -> canonical y -> map2 (g_select (b2z b)) x y = if b then x else y.
Proof. intros [Lx Fx] [Ly Fy]. apply map2_select_b; try assumption. congruence. Qed.
Lemma sel3 (b1 b0 : bool) c x y : canonical c -> canonical x -> canonical y ->
  map3 (fun c a b => g_select (b2z b1) c (g_select (b2z b0) a b)) c x y = if b1 then c else if b0 then x else y.
Proof.
  intros Wc Wx Wy. rewrite map3_as_map2, (sel2 b0 x y) by assumption.
  apply sel2; [assumption|destruct b0; assumption].
Qed.
Lemma concat4 (a b c d : list Z) : concat [a; b; c; d] = a ++ b ++ c ++ d.
Proof. cbn [concat]. rewrite app_nil_r. reflexivity. Qed.

Lemma insert_at_0 c s0 s1 s2 : insert_at 0 c [s0; s1; s2] = [c; s0; s1; s2]. Proof. reflexivity. Qed.
Lemma insert_at_1 c s0 s1 s2 : insert_at 1 c [s0; s1; s2] = [s0; c; s1; s2]. Proof. reflexivity. Qed.
Lemma insert_at_2 c s0 s1 s2 : insert_at 2 c [s0; s1; s2] = [s0; s1; c; s2]. Proof. reflexivity. Qed.
Lemma insert_at_3 c s0 s1 s2 : insert_at 3 c [s0; s1; s2] = [s0; s1; s2; c]. Proof. reflexivity. Qed.

(* the four select-built slots are the insertion at [pos] *)
Lemma children_spec (pos : Z) cur s0 s1 s2 :
  canonical cur -> canonical s0 -> canonical s1 -> canonical s2 -> 0 <= pos < 4 ->
  map2 (g_select (b2z (pos =? 0))) cur s0 ++
  map3 (fun c a b => g_select (b2z (pos =? 1)) c (g_select (b2z (pos =? 0)) a b)) cur s0 s1 ++
  map3 (fun c a b => g_select (b2z (pos =? 2)) c (g_select (g_or (b2z (pos =? 0)) (b2z (pos =? 1))) a b)) cur s1 s2 ++
  map2 (g_select (b2z (pos =? 3))) cur s2
  = concat (insert_at pos cur [s0; s1; s2]).
Proof.
  intros Wc W0 W1 W2 Hp. rewrite g_or_b, !sel2, !sel3 by assumption.
  assert (Cs : pos = 0 \/ pos = 1 \/ pos = 2 \/ pos = 3) by lia.
  destruct Cs as [->|[->|[->| ->]]].
  - rewrite insert_at_0, concat4. reflexivity.
  - rewrite insert_at_1, concat4. reflexivity.
  - rewrite insert_at_2, concat4. reflexivity.
  - rewrite insert_at_3, concat4. reflexivity.
Qed.

Definition gated_ok (xs ys : list Z) (flag : Z) : bool :=
  forallb (fun xy => fmul (fsub (fst xy) (snd xy)) flag =? 0) (combine xs ys).
Lemma gated_ok_1 xs : forall ys, length xs = length ys -> Forall canon xs -> Forall canon ys ->
  (gated_ok xs ys 1 = true <-> xs = ys).
Proof.
  unfold gated_ok. induction xs as [|x xr IH]; intros [|y yr] L Fx Fy; cbn [length] in L; try discriminate.
  - cbn. tauto.
  - inversion Fx; inversion Fy; subst. cbn [combine forallb fst snd].
    rewrite andb_true_iff, Z.eqb_eq, fmul_1_r by apply canon_fsub.
    rewrite fsub_eq_0 by assumption. rewrite IH by (try assumption; lia).
    split; [intros [-> ->]; reflexivity|intros E; inversion E; tauto].
Qed.
Lemma gated_ok_0 xs ys : gated_ok xs ys 0 = true.
Proof. unfold gated_ok. apply forallb_forall. intros xy _. rewrite fmul_0_r. reflexivity. Qed.

Lemma pow2_5 : 2 ^ Z.of_nat 5 = 32. Proof. reflexivity. Qed.
Lemma pow2_2 : 2 ^ Z.of_nat 2 = 4. Proof. reflexivity. Qed.
Lemma n_log_depth_pin : Z.of_nat n_log_depth = Z.log2 MERKLE_MAX_DEPTH + 1. Proof. reflexivity. Qed.
Lemma canon_small k : 0 <= k < 4294967296 -> canon k.
Proof. unfold canon, p. lia. Qed.

(* zk_merkle_circuit (Leaf.v) is the range checks and the fee rule, then the leaf hash, then [path_circuit] *)
Lemma zk_merkle_circuit_path i :
  zk_merkle_circuit i =
  (_ <- range_check_all (li_leaf_tc i ++ [li_asset i; li_input_amount i; li_out1 i; li_out2 i; li_fee i]) 32 ;;
   _ <- range_check (fsub 10000 (li_fee i)) 14 ;;
   _ <- range_check (fsub (fmul (li_input_amount i) (fsub 10000 (li_fee i))) (fmul (fadd (li_out1 i) (li_out2 i)) 10000)) 48 ;;
   Hash (li_to_account i ++ li_leaf_tc i ++ [li_asset i; li_input_amount i]) (fun leaf_hash =>
   path_circuit (li_depth i) leaf_hash (li_siblings i) (li_positions i) (li_root_hash i) (li_is_not_dummy i))).
Proof. reflexivity. Qed.

Section Circuit.
  Variable H : list Z -> list Z.
  Hypothesis Hwf : hash_wf H.
  Notation rel := (Core.rel H).
  Notation hon := (Core.hon H).
  Notation refines := (Core.refines H).

  Definition level_ok (lv : list digest * Z) : Prop := canonical_level (fst lv) /\ canon (snd lv).
  Definition positions_lt4 (levels : list (list digest * Z)) : bool := forallb (fun lv => snd lv <? 4) levels.

  Lemma hon_merkle_level level depth cur sibs pos :
    0 <= level < 32 -> canon depth -> depth < 32 -> canon pos -> canonical cur -> canonical_level sibs ->
    hon (merkle_level level depth cur sibs pos) =
    if pos <? 4 then Some (if level <? depth then H (concat (insert_at pos cur sibs)) else cur) else None.
  Proof.
    intros Hl Cd Hd Cp Wc [Ls Fs].
    destruct sibs as [|s0 [|s1 [|s2 [|? ?]]]]; try discriminate Ls.
    inversion Fs as [|? ? W0 Fs1]; subst. inversion Fs1 as [|? ? W1 Fs2]; subst.
    inversion Fs2 as [|? ? W2 _]; subst.
    unfold merkle_level. change n_log_depth with 5%nat.
    rewrite hon_bind, hon_is_const_less_than_narrow by (try assumption; rewrite ?pow2_5; lia).
    rewrite pow2_5. destruct (Z.ltb_spec depth 32) as [_|Bad]; [|lia].
    rewrite hon_bind, hon_range_check by lia. rewrite pow2_2.
    destruct (Z.ltb_spec pos 4) as [Lp|Lp]; [|reflexivity].
    do 4 (rewrite hon_bind, hon_is_equal; cbv beta iota).
    cbv zeta. cbn [nth Core.hon]. f_equal.
    rewrite children_spec by (try assumption; unfold canon in Cp; lia).
    apply sel2; [exact (Hwf _)|exact Wc].
  Qed.

  Lemma hon_merkle_walk depth : canon depth -> depth < 32 -> forall levels level cur,
    0 <= level -> level + Z.of_nat (length levels) <= 32 -> canonical cur -> Forall level_ok levels ->
    hon (merkle_walk level depth cur levels) =
    if positions_lt4 levels
    then Some (fold_insert H cur (firstn (Z.to_nat (depth - level)) levels)) else None.
  Proof.
    intros Cd Hd. induction levels as [|[sibs pos] r IH]; intros level cur Hl Hlen Wc F.
    - cbn [merkle_walk positions_lt4 forallb Core.hon]. rewrite firstn_nil. reflexivity.
    - inversion F as [|? ? [Ws Cp] Fr]; subst. cbn [fst snd] in Ws, Cp. cbn [length] in Hlen.
      cbn [merkle_walk]. unfold positions_lt4. cbn [forallb snd]. fold (positions_lt4 r).
      rewrite hon_bind, hon_merkle_level by (try assumption; lia).
      destruct (pos <? 4); cbn [andb]; [|reflexivity].
      rewrite IH; [|lia|lia| |exact Fr].
      2:{ destruct (level <? depth); [exact (Hwf _)|exact Wc]. }
      destruct (positions_lt4 r); [|reflexivity]. f_equal.
      destruct (Z.ltb_spec level depth) as [Lt|Ge].
      + replace (Z.to_nat (depth - level)) with (S (Z.to_nat (depth - (level + 1)))) by lia.
        cbn [firstn fold_insert]. reflexivity.
      + replace (Z.to_nat (depth - level)) with 0%nat by lia.
        replace (Z.to_nat (depth - (level + 1))) with 0%nat by lia. reflexivity.
  Qed.

  Lemma hon_assert_gated {A} xs flag : forall ys (k : Circ A),
    hon (assert_gated xs ys flag k) = if gated_ok xs ys flag then hon k else None.
  Proof.
    unfold gated_ok. induction xs as [|x xr IH]; intros [|y yr] k; cbn [assert_gated combine forallb]; try reflexivity.
    cbn [Core.hon fst snd]. destruct (fmul (fsub x y) flag =? 0); cbn [andb]; [apply IH|reflexivity].
  Qed.

  Lemma levels_ok sibs : forall ps, Forall canonical_level sibs -> Forall canon ps -> Forall level_ok (combine sibs ps).
  Proof.
    induction sibs as [|s sibs IH]; intros [|q ps] Fs Fp; cbn [combine]; try constructor.
    - inversion Fs; inversion Fp; subst. split; assumption.
    - inversion Fs; inversion Fp; subst. apply IH; assumption.
  Qed.

  (* honest witness generation on the path part of the leaf circuit *)
  Lemma hon_path_circuit depth leaf sibs positions root flag :
    canon depth -> canonical leaf ->
    length sibs = 16%nat -> Forall canonical_level sibs -> length positions = 16%nat -> Forall canon positions ->
    hon (path_circuit depth leaf sibs positions root flag) =
    if (depth <? 17) && forallb (fun q => q <? 4) positions &&
       gated_ok (fold_insert H leaf (firstn (Z.to_nat depth) (combine sibs positions))) root flag
    then Some tt else None.
  Proof.
    intros Cd Cl Ls Fs Lp Fp. unfold path_circuit.
    rewrite hon_bind, hon_enforce_target_less_than_const;
      [|unfold n_log_depth; lia|rewrite max_depth_pin; lia
       |change n_log_depth with 5%nat; rewrite pow2_5, max_depth_pin; lia|exact Cd].
    rewrite max_depth_pin. change (16 + 1) with 17.
    destruct (Z.ltb_spec depth 17) as [Ld|Ld]; cbn [andb]; [|reflexivity].
    assert (X : 0 + Z.of_nat (length (combine sibs positions)) <= 32) by (rewrite combine_length, Ls, Lp; cbn; lia).
    assert (Y : Forall level_ok (combine sibs positions)) by (apply levels_ok; assumption).
    rewrite hon_bind, (hon_merkle_walk depth Cd ltac:(lia) (combine sibs positions) 0 leaf ltac:(lia) X Cl Y).
    unfold positions_lt4. rewrite (combine_snd_forallb (fun q => q <? 4)) by congruence.
    destruct (forallb (fun q => q <? 4) positions); cbn [andb]; [|reflexivity].
    rewrite Z.sub_0_r, hon_assert_gated. cbn [Core.hon]. reflexivity.
  Qed.

  (* no witness freedom in the path part *)
  Lemma refines_assert_gated {A} xs flag : forall ys (k : Circ A), refines k -> refines (assert_gated xs ys flag k).
  Proof.
    induction xs as [|x xr IH]; intros [|y yr] k Rk; cbn [assert_gated]; try exact Rk.
    apply refines_assert. apply IH. exact Rk.
  Qed.
  Lemma refines_merkle_level level depth cur sibs pos :
    0 <= level < 32 -> canon depth -> canon pos -> refines (merkle_level level depth cur sibs pos).
  Proof.
    intros Hl Cd Cp. unfold merkle_level. change n_log_depth with 5%nat.
    apply refines_bind; [apply refines_is_const_less_than; [lia|rewrite pow2_5; lia|exact Cd]|intros is_active _].
    apply refines_bind; [apply refines_range_check; [exact Cp|lia]|intros _ _].
    apply refines_bind; [apply refines_is_equal; [exact Cp|apply canon_small; lia]|intros p0 _].
    apply refines_bind; [apply refines_is_equal; [exact Cp|apply canon_small; lia]|intros p1 _].
    apply refines_bind; [apply refines_is_equal; [exact Cp|apply canon_small; lia]|intros p2 _].
    apply refines_bind; [apply refines_is_equal; [exact Cp|apply canon_small; lia]|intros p3 _].
    cbv zeta. apply refines_hash. apply refines_ret.
  Qed.
  Lemma refines_merkle_walk depth : canon depth -> forall levels level cur,
    0 <= level -> level + Z.of_nat (length levels) <= 32 -> Forall (fun lv => canon (snd lv)) levels ->
    refines (merkle_walk level depth cur levels).
  Proof.
    intros Cd. induction levels as [|[sibs pos] r IH]; intros level cur Hl Hlen F; cbn [merkle_walk].
    - apply refines_ret.
    - inversion F as [|? ? Cp Fr]; subst. cbn [snd] in Cp. cbn [length] in Hlen.
      apply refines_bind; [apply refines_merkle_level; [lia|exact Cd|exact Cp]|intros cur' _].
      apply IH; [lia|lia|exact Fr].
  Qed.
  Lemma combine_snd_canon {A} (xs : list A) : forall ps, Forall canon ps ->
    Forall (fun lv => canon (snd lv)) (combine xs ps).
  Proof.
    induction xs as [|x xs IH]; intros [|q ps] F; cbn [combine]; try constructor.
    - inversion F; subst. assumption.
    - inversion F; subst. apply IH. assumption.
  Qed.
  Lemma refines_path_circuit depth leaf sibs positions root flag :
    canon depth -> length sibs = 16%nat -> length positions = 16%nat -> Forall canon positions ->
    refines (path_circuit depth leaf sibs positions root flag).
  Proof.
    intros Cd Ls Lp Fp. unfold path_circuit.
    apply refines_bind; [apply refines_enforce_target_less_than_const;
      [unfold n_log_depth; lia|rewrite max_depth_pin; lia
      |change n_log_depth with 5%nat; rewrite pow2_5, max_depth_pin; lia|exact Cd]|intros _ _].
    apply refines_bind; [apply refines_merkle_walk; [exact Cd|lia| |apply combine_snd_canon; exact Fp]|intros r _].
    { rewrite combine_length, Ls, Lp. cbn. lia. }
    apply refines_assert_gated. apply refines_ret.
  Qed.

  Lemma combine_app {A B} (a : list A) : forall (b : list B) a' b', length a = length b ->
    combine (a ++ a') (b ++ b') = combine a b ++ combine a' b'.
  Proof.
    induction a as [|x a IH]; intros [|y b] a' b' L; cbn [length] in L; try discriminate; [reflexivity|].
    cbn [app combine]. rewrite IH by lia. reflexivity.
  Qed.

  Lemma u8_canon q : 0 <= q < 256 -> canon q.
  Proof. unfold canon, p. lia. Qed.

  (* the circuit's acceptance of a real statement's path = the native verifier's, for every padding of the
     unused levels (canonical hashes, positions below 4) *)
  Theorem path_circuit_iff_native pr pad_s pad_q :
    typed_proof pr ->
    canonical (pf_leaf pr) -> Forall canonical_level (pf_siblings pr) -> canonical (pf_root pr) ->
    length (pf_positions pr) = length (pf_siblings pr) ->
    (length (pf_siblings pr) + length pad_s = 16)%nat -> length pad_q = length pad_s ->
    Forall canonical_level pad_s -> Forall (fun q => 0 <= q < 4) pad_q ->
    let c := path_circuit (zlen (pf_siblings pr)) (pf_leaf pr) (pf_siblings pr ++ pad_s) (pf_positions pr ++ pad_q)
                          (pf_root pr) 1 in
    (hon c = Some tt <-> verify H pr = true) /\
    (rel c (fun _ => True) <-> verify H pr = true) /\
    hon (merkle_walk 0 (zlen (pf_siblings pr)) (pf_leaf pr) (combine (pf_siblings pr ++ pad_s) (pf_positions pr ++ pad_q)))
    = if forallb (fun q => q <? 4) (pf_positions pr)
      then Some (fold_insert H (pf_leaf pr) (combine (pf_siblings pr) (pf_positions pr))) else None.
  Proof.
    intros T Cl Cs Cr Lq L16 Lpad Cpad Qpad c.
    destruct T as [Ts Tq Tl Tr].
    set (d := length (pf_siblings pr)) in *.
    assert (Cd : canon (zlen (pf_siblings pr))) by (unfold zlen, canon, p; fold d; lia).
    assert (Fq : Forall canon (pf_positions pr ++ pad_q)).
    { apply Forall_app. split; (eapply Forall_impl; [|eassumption]); cbv beta; intros; apply u8_canon; lia. }
    assert (Lsib : length (pf_siblings pr ++ pad_s) = 16%nat) by (rewrite app_length; fold d; lia).
    assert (Lpos : length (pf_positions pr ++ pad_q) = 16%nat) by (rewrite app_length; lia).
    assert (Fs : Forall canonical_level (pf_siblings pr ++ pad_s)) by (apply Forall_app; split; assumption).
    assert (Fn : firstn (Z.to_nat (zlen (pf_siblings pr))) (combine (pf_siblings pr ++ pad_s) (pf_positions pr ++ pad_q))
                 = combine (pf_siblings pr) (pf_positions pr)).
    { rewrite combine_app by (symmetry; exact Lq). unfold zlen. rewrite Nat2Z.id.
      rewrite firstn_app, combine_length, Lq, Nat.min_id. fold d. rewrite Nat.sub_diag.
      cbn [firstn]. rewrite app_nil_r. apply firstn_all2. rewrite combine_length, Lq. fold d. lia. }
    assert (Pad4 : forallb (fun q => q <? 4) pad_q = true).
    { apply forallb_forall. intros q Hq. rewrite Forall_forall in Qpad. apply Z.ltb_lt. apply Qpad in Hq. lia. }
    assert (Hc : hon c = if verify H pr then Some tt else None).
    { unfold c. rewrite hon_path_circuit by assumption. rewrite Fn.
      replace (zlen (pf_siblings pr) <? 17) with true by (symmetry; apply Z.ltb_lt; unfold zlen; fold d; lia).
      rewrite forallb_app, Pad4, andb_true_r. cbn [andb].
      destruct (verify H pr) eqn:V.
      - apply (verify_iff H pr Hwf (mk_typed_proof _ Ts Tq Tl Tr)) in V. destruct V as (_ & _ & _ & _ & Pq & E).
        replace (forallb (fun q => q <? 4) (pf_positions pr)) with true.
        2:{ symmetry. apply forallb_forall. intros q Hq. rewrite Forall_forall in Pq. apply Z.ltb_lt. apply Pq in Hq. lia. }
        rewrite E. cbn [andb].
        replace (gated_ok (pf_root pr) (pf_root pr) 1) with true; [reflexivity|].
        symmetry. destruct Cr as [Lr Fr]. apply gated_ok_1; auto.
      - destruct (forallb (fun q => q <? 4) (pf_positions pr)) eqn:Pq; cbn [andb]; [|reflexivity].
        destruct (gated_ok _ (pf_root pr) 1) eqn:G; [|reflexivity]. exfalso.
        assert (Cf : canonical (fold_insert H (pf_leaf pr) (combine (pf_siblings pr) (pf_positions pr))))
          by (apply fold_insert_canonical; assumption).
        destruct Cf as [Lf Ff]. destruct Cr as [Lr Fr].
        apply gated_ok_1 in G; [|congruence|assumption|assumption].
        assert (V' : verify H pr = true); [|congruence].
        apply (verify_iff H pr Hwf (mk_typed_proof _ Ts Tq Tl Tr)).
        split; [unfold zlen; fold d; lia|]. split; [exact Lq|]. split; [exact Cl|]. split; [exact Cs|].
        split; [|exact G].
        rewrite Forall_forall. intros q Hq. rewrite forallb_forall in Pq. specialize (Pq q Hq). apply Z.ltb_lt in Pq.
        rewrite Forall_forall in Tq. specialize (Tq q Hq). cbv beta in Tq. lia. }
    split; [|split].
    - rewrite Hc. destruct (verify H pr); split; try reflexivity; discriminate.
    - pose proof (refines_path_circuit (zlen (pf_siblings pr)) (pf_leaf pr) (pf_siblings pr ++ pad_s)
                    (pf_positions pr ++ pad_q) (pf_root pr) 1 Cd Lsib Lpos Fq) as R.
      fold c in R. rewrite (R (fun _ => True)), Hc. destruct (verify H pr); split; try reflexivity; try discriminate; tauto.
    - assert (X : 0 + Z.of_nat (length (combine (pf_siblings pr ++ pad_s) (pf_positions pr ++ pad_q))) <= 32)
        by (rewrite combine_length, Lsib, Lpos; cbn; lia).
      assert (Y : Forall level_ok (combine (pf_siblings pr ++ pad_s) (pf_positions pr ++ pad_q))) by (apply levels_ok; assumption).
      assert (D32 : zlen (pf_siblings pr) < 32) by (unfold zlen; fold d; lia).
      rewrite (hon_merkle_walk _ Cd D32 _ 0 _ ltac:(lia) X Cl Y).
      unfold positions_lt4. rewrite (combine_snd_forallb (fun q => q <? 4)) by congruence.
      rewrite forallb_app, Pad4, andb_true_r, Z.sub_0_r, Fn. reflexivity.
  Qed.

  (* the prover's own data path: ZkMerkleProofData::new + fill_targets + the path constraints *)
  Theorem prover_data_iff_native pr :
    typed_proof pr ->
    canonical (pf_leaf pr) -> Forall canonical_level (pf_siblings pr) -> canonical (pf_root pr) ->
    circuit_accepts_path H (pf_leaf pr) (pf_siblings pr) (pf_positions pr) (pf_root pr) = verify H pr.
  Proof.
    intros T Cl Cs Cr. unfold circuit_accepts_path, fill_path. rewrite max_depth_pin.
    destruct (Z.ltb_spec 16 (zlen (pf_siblings pr))) as [Big|Small].
    { symmetry. apply not_true_is_false. intros V. apply (verify_iff H pr Hwf T) in V. lia. }
    destruct (Z.eqb_spec (zlen (pf_positions pr)) (zlen (pf_siblings pr))) as [El|Nl]; cbn [negb].
    2:{ symmetry. apply not_true_is_false. intros V. apply (verify_iff H pr Hwf T) in V.
        destruct V as (_ & L & _). apply Nl. apply zlen_eq. exact L. }
    apply zlen_eq in El.
    destruct (forallb (fun q => q <=? 3) (pf_positions pr)) eqn:Pq; cbn [negb].
    2:{ symmetry. apply not_true_is_false. intros V. apply (verify_iff H pr Hwf T) in V.
        destruct V as (_ & _ & _ & _ & F & _).
        assert (Pt : forallb (fun q => q <=? 3) (pf_positions pr) = true); [|congruence].
        apply forallb_forall. intros q Hq. rewrite Forall_forall in F. apply F in Hq. apply Z.leb_le. lia. }
    set (pad := (Z.to_nat 16 - length (pf_siblings pr))%nat).
    assert (Lp : (length (pf_siblings pr) + pad = 16)%nat) by (unfold pad, zlen in *; lia).
    destruct (path_circuit_iff_native pr (repeat zero_level pad) (repeat 0 pad) T Cl Cs Cr El) as (Hh & _ & _).
    - rewrite repeat_length. exact Lp.
    - rewrite !repeat_length. reflexivity.
    - apply Forall_forall. intros l Hl. apply repeat_spec in Hl. subst l.
      split; [reflexivity|]. repeat constructor; unfold canon, p; lia.
    - apply Forall_forall. intros q Hq. apply repeat_spec in Hq. subst q. lia.
    - cbv zeta in Hh. destruct (hon (path_circuit _ _ _ _ _ 1)) as [[]|] eqn:E.
      + symmetry. apply Hh. reflexivity.
      + symmetry. apply not_true_is_false. intros V. apply Hh in V. discriminate.
  Qed.
End Circuit.

(* ================================================================ insert_at_position, exactly *)
Theorem insert_at_position_exact cur sibs pos : length sibs = 3%nat ->
  (0 <= pos < 4 ->
   insert_at_position cur sibs pos = Ok (firstn (Z.to_nat pos) sibs ++ cur :: skipn (Z.to_nat pos) sibs)) /\
  (~ 0 <= pos < 4 -> insert_at_position cur sibs pos = Err 1) /\
  insert_at_position cur sibs pos <> Err PANIC.
Proof.
  intros L. rewrite (insert_at_position_len3 cur sibs pos L). destruct (pos_ok pos) eqn:E.
  - apply pos_ok_spec in E. split; [intros _; reflexivity|]. split; [intros N; contradiction|discriminate].
  - split; [intros R; apply pos_ok_spec in R; congruence|]. split; [reflexivity|discriminate].
Qed.
Lemma insert_at_position_shapes cur s0 s1 s2 :
  insert_at_position cur [s0; s1; s2] 0 = Ok [cur; s0; s1; s2] /\
  insert_at_position cur [s0; s1; s2] 1 = Ok [s0; cur; s1; s2] /\
  insert_at_position cur [s0; s1; s2] 2 = Ok [s0; s1; cur; s2] /\
  insert_at_position cur [s0; s1; s2] 3 = Ok [s0; s1; s2; cur].
Proof. repeat split. Qed.

(* ================================================================ byte-distinct aliases: where the circuit and
   the native verifier part ways.  The prover's conversion (bytes_to_digest = from_noncanonical_u64) maps a
   limb v + p to the field element v, so the circuit sees the canonical path while the native verifier
   rejects the byte string. *)
Lemma felt_of_canonical d : canonical d -> map felt_of_limb d = d.
Proof.
  intros [_ F]. induction F as [|x l Hx F IH]; [reflexivity|]. cbn [map]. rewrite IH. f_equal.
  unfold felt_of_limb. apply Z.mod_small. exact Hx.
Qed.

Theorem noncanonical_gap H : hash_wf H ->
  exists pr, typed_proof pr /\ verify H pr = false /\
    circuit_accepts_path H (map felt_of_limb (pf_leaf pr)) (map (map (map felt_of_limb)) (pf_siblings pr))
                         (pf_positions pr) (map felt_of_limb (pf_root pr)) = true.
Proof.
  intros Hwf.
  set (root := H (concat [[0; 0; 0; 0]; [0; 0; 0; 0]; [1; 0; 0; 0]; [2; 0; 0; 0]])).
  assert (Cr : canonical root) by apply Hwf.
  assert (C0 : forall a, 0 <= a < 3 -> canonical [a; 0; 0; 0]).
  { intros a Ha. split; [reflexivity|]. repeat constructor; unfold canon, p; lia. }
  exists (mkProof [[[p; 0; 0; 0]; [1; 0; 0; 0]; [2; 0; 0; 0]]] [0] [0; 0; 0; 0] root).
  split; [|split].
  - constructor; cbn [pf_siblings pf_positions pf_leaf pf_root].
    + repeat constructor; unfold u64, p, two64; lia.
    + repeat constructor; lia.
    + apply canonical_typed, C0; lia.
    + apply canonical_typed, Cr.
  - reflexivity.
  - cbn [pf_siblings pf_positions pf_leaf pf_root map]. rewrite (felt_of_canonical root Cr).
    change (felt_of_limb p) with 0. change (felt_of_limb 0) with 0. change (felt_of_limb 1) with 1.
    change (felt_of_limb 2) with 2.
    set (pr' := mkProof [[[0; 0; 0; 0]; [1; 0; 0; 0]; [2; 0; 0; 0]]] [0] [0; 0; 0; 0] root).
    assert (T' : typed_proof pr').
    { constructor; cbn [pr' pf_siblings pf_positions pf_leaf pf_root].
      - constructor; [|constructor]. apply canonical_level_typed. split; [reflexivity|].
        constructor; [apply C0; lia|constructor; [apply C0; lia|constructor; [apply C0; lia|constructor]]].
      - repeat constructor; lia.
      - apply canonical_typed, C0; lia.
      - apply canonical_typed, Cr. }
    assert (Cs' : Forall canonical_level (pf_siblings pr')).
    { constructor; [|constructor]. split; [reflexivity|]. constructor; [apply C0; lia|constructor; [apply C0; lia|constructor; [apply C0; lia|constructor]]]. }
    change (circuit_accepts_path H (pf_leaf pr') (pf_siblings pr') (pf_positions pr') (pf_root pr') = true).
    rewrite (prover_data_iff_native H Hwf pr' T' (C0 0 ltac:(lia)) Cs' Cr).
    apply (verify_iff H pr' Hwf T'). cbn [pr' pf_siblings pf_positions pf_leaf pf_root].
    split; [cbn; lia|]. split; [reflexivity|]. split; [apply C0; lia|]. split; [exact Cs'|].
    split; [repeat constructor; lia|reflexivity].
Qed.

(* ================================================================ a concrete oracle for the examples *)
Definition toyH (l : list Z) : list Z :=
  [fold_right (fun x acc => (x + 3 * acc) mod p) 1 l; fold_right (fun x acc => (2 * x + 5 * acc) mod p) 2 l; 5; 7].
Lemma toyH_wf : hash_wf toyH.
Proof.
  intros l. split; [reflexivity|]. unfold toyH.
  repeat constructor; unfold canon; try (unfold p; lia);
    destruct l as [|x l]; cbn [fold_right]; try (unfold p; lia); apply Z.mod_pos_bound; unfold p; lia.
Qed.
