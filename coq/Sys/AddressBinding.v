(* Executable model of the address binding of public-batch proofs (C18).

     wormhole/aggregator/src/aggregator.rs   ProvingContext::verify (address check BEFORE verification),
                                             ProvingContext::prove_batch (final self-check)

   A proof is abstract ([P]); the model sees its public inputs as canonical u64 values ([pis]) and the
   verdict of the pinned public-batch verifier ([verifies] = VerifierCircuitData::verify).  The configured
   address is a BytesDigest: four little-endian 8-byte limbs, each below the Goldilocks order, compared with
   [digest_to_bytes] of the first four public inputs - i.e. limb-wise equality of canonical values. *)
From V.Base Require Import Common.
From V.Generated Require Import Constants.

Definition PANIC : Z := -1.
Definition E_LEN : Z := 2.      (* "public input length mismatch"                            *)
Definition E_ADDR : Z := 3.     (* "does not match configured aggregator address"            *)
Definition E_VERIFY : Z := 4.   (* "aggregated proof verification failed"                    *)
Definition E_PRODUCE : Z := 5.  (* prove_batch: preflight / prover build / commit / prove failed *)

(* &l[..n] : panics when l is shorter *)
Definition prefix (l : list Z) (n : Z) : res (list Z) :=
  if n <=? zlen l then Ok (firstn (Z.to_nat n) l) else Err PANIC.

Record ctx := mkCtx { c_addr : list Z; c_expected_len : Z }.

Section AddressBinding.
  Variable P : Type.
  Variable pis : P -> list Z.
  Variable verifies : P -> bool.

  Definition verify (c : ctx) (pf : P) : res unit :=
    _ <-? guard (zlen (pis pf) =? c_expected_len c) E_LEN ;;
    a <-? prefix (pis pf) PUBLIC_AGGREGATOR_ADDRESS_LEN ;;
    _ <-? guard (list_eqb a (c_addr c)) E_ADDR ;;
    _ <-? guard (verifies pf) E_VERIFY ;;
    Ok tt.

  (* [produce] stands for everything before the self-check (preflight, prover construction, commit, prove):
     an arbitrary result.  Whatever it yields is returned only if [verify] accepts it. *)
  Definition prove_batch (c : ctx) (produce : res P) : res P :=
    pf <-? produce ;;
    _ <-? verify c pf ;;
    Ok pf.
End AddressBinding.

Definition enc_class (r : res unit) : list Z :=
  match r with Ok _ => [1] | Err c => if c =? PANIC then [PANIC] else [0; c] end.
