(* One dispatch for the privacy group (C15 shuffle/padding, C32 Debug rendering, C33 zeroization):
   fids 15xx -> Sys/Shuffle.v, 32xx -> Sys/DebugRender.v, 33xx -> Sys/Zeroize.v. *)
From V.Base Require Import Common.
From V.Sys Require Import Shuffle DebugRender Zeroize.
Local Open Scope Z_scope.

Definition dispatch (fid : Z) (args : list (list Z)) : list Z :=
  if (1500 <=? fid) && (fid <? 1600) then dispatch_shuffle fid args
  else if (3200 <=? fid) && (fid <? 3300) then dispatch_debug fid args
  else if (3300 <=? fid) && (fid <? 3400) then dispatch_zeroize fid args
  else [-2].
