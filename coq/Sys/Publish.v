(* Executable model of artifact publication (C23).
     wormhole/circuit-builder/src/lib.rs : commit_staging_dir_impl (move-aside / swap-in / rollback),
                                           generate_all_circuit_binaries (stage, then commit).

   Abstract file system: the three paths the routine touches
       Out = output_dir,  Stg = staging_dir,  Old = staging_dir + ".old"
   each holding one [content].  The code only ever moves whole directories ([rename]) and deletes whole
   directories ([remove_dir_all]); the only operation that is not atomic on a real file system is
   [remove_dir_all], so an interrupted or failing removal may leave an *incomplete* set behind
   ([PartPrev] / [PartNew]).  These are the "mixes" of the property text; the theorems show that no
   incomplete set is ever at [Out].

   Faults are inputs: every [rename] consumes one [rfault], every [remove_dir_all] one [mfault], in
   program order; an exhausted list means "the operation behaves normally".  A crash ends the run at
   once (no cleanup code runs).  Metadata queries ([is_dir], [exists]) change nothing, so dying at one
   of them is the same observation as dying before the next operation. *)
From V.Base Require Import Common.

Inductive content :=
| Absent        (* nothing at the path *)
| Prev          (* the complete previous artifact set (a directory) *)
| New           (* the complete new artifact set (a directory) *)
| File          (* a non-directory *)
| PartPrev      (* an incomplete previous set (directory, some files missing) *)
| PartNew.      (* an incomplete new set (directory being filled, or partly removed) *)

Inductive loc := Out | Stg | Old.

Record fs := mkFs { f_out : content; f_stg : content; f_old : content }.

Definition rd (s : fs) (l : loc) : content :=
  match l with Out => f_out s | Stg => f_stg s | Old => f_old s end.
Definition wr (s : fs) (l : loc) (c : content) : fs :=
  match l with
  | Out => mkFs c (f_stg s) (f_old s)
  | Stg => mkFs (f_out s) c (f_old s)
  | Old => mkFs (f_out s) (f_stg s) c
  end.

Definition is_dir_c (c : content) : bool :=
  match c with Prev | New | PartPrev | PartNew => true | Absent | File => false end.
Definition exists_c (c : content) : bool :=
  match c with Absent => false | _ => true end.
(* what a directory looks like after some, but not all, of its entries were unlinked *)
Definition damage (c : content) : content :=
  match c with Prev => PartPrev | New => PartNew | other => other end.

(* std::fs::rename (POSIX rename(2)) without injected faults.  [false] = Err, nothing moved:
   missing source (ENOENT); destination is a non-empty directory (ENOTEMPTY), or a file under a
   directory source (ENOTDIR), or a directory under a file source (EISDIR).  A file may replace a file.
   Every artifact directory of the model holds at least one file. *)
Definition fs_rename (s : fs) (src dst : loc) : fs * bool :=
  match rd s src, rd s dst with
  | Absent, _ => (s, false)
  | c, Absent => (wr (wr s dst c) src Absent, true)
  | File, File => (wr (wr s dst File) src Absent, true)
  | _, _ => (s, false)
  end.

(* std::fs::remove_dir_all without injected faults: ENOENT on a missing path, ENOTDIR on a file *)
Definition fs_remove_dir_all (s : fs) (l : loc) : fs * bool :=
  if is_dir_c (rd s l) then (wr s l Absent, true) else (s, false).

Inductive rfault :=
| ROk             (* the rename behaves normally *)
| RFail           (* returns Err, nothing moved *)
| RCrashBefore    (* the process dies, nothing moved *)
| RCrashAfter.    (* the rename is performed, then the process dies *)

Inductive mfault :=
| MOk             (* the removal behaves normally *)
| MFail           (* returns Err, nothing removed *)
| MFailPartial    (* returns Err after removing part of the directory *)
| MCrashBefore    (* the process dies, nothing removed *)
| MCrashPartial   (* the process dies in the middle of the removal *)
| MCrashAfter.    (* the directory is removed, then the process dies *)

(* ---------------------------------------------------------------- the process: state + crash monad *)

Record world := mkW {
  w_fs : fs;
  w_rf : list rfault;           (* rename faults still to be consumed *)
  w_mf : list mfault;           (* remove faults still to be consumed *)
  w_trace : list (loc * loc)    (* rename calls made so far, latest first *)
}.

Inductive outcome (A : Type) :=
| Done (a : A) (w : world)
| Crash (w : world).
Arguments Done {A} a w.
Arguments Crash {A} w.

Definition M (A : Type) := world -> outcome A.
Definition ret {A} (a : A) : M A := fun w => Done a w.
Definition bind {A B} (m : M A) (k : A -> M B) : M B :=
  fun w => match m w with Done a w' => k a w' | Crash w' => Crash w' end.
Notation "x <-- m ;; k" := (bind m (fun x => k)) (at level 61, m at next level, right associativity).

Definition set_fs (w : world) (s : fs) : world := mkW s (w_rf w) (w_mf w) (w_trace w).

Definition op_is_dir (l : loc) : M bool := fun w => Done (is_dir_c (rd (w_fs w) l)) w.
Definition op_exists (l : loc) : M bool := fun w => Done (exists_c (rd (w_fs w) l)) w.

(* the injectable [rename] closure; [true] = Ok(()) *)
Definition op_rename (src dst : loc) : M bool := fun w =>
  let f := match w_rf w with [] => ROk | f :: _ => f end in
  let w1 := mkW (w_fs w) (tl (w_rf w)) (w_mf w) ((src, dst) :: w_trace w) in
  match f with
  | ROk => let (s', ok) := fs_rename (w_fs w) src dst in Done ok (set_fs w1 s')
  | RFail => Done false w1
  | RCrashBefore => Crash w1
  | RCrashAfter => Crash (set_fs w1 (fst (fs_rename (w_fs w) src dst)))
  end.

Definition op_remove_dir_all (l : loc) : M bool := fun w =>
  let f := match w_mf w with [] => MOk | f :: _ => f end in
  let w1 := mkW (w_fs w) (w_rf w) (tl (w_mf w)) (w_trace w) in
  let s := w_fs w in
  match f with
  | MOk => let (s', ok) := fs_remove_dir_all s l in Done ok (set_fs w1 s')
  | MFail => Done false w1
  | MFailPartial => Done false (set_fs w1 (wr s l (damage (rd s l))))
  | MCrashBefore => Crash w1
  | MCrashPartial => Crash (set_fs w1 (wr s l (damage (rd s l))))
  | MCrashAfter => Crash (set_fs w1 (fst (fs_remove_dir_all s l)))
  end.

(* ---------------------------------------------------------------- commit_staging_dir_impl
   [Err k]: k names the return site (1 staging is not a directory, 2 output is not a directory,
   3 move-aside failed, 4 swap-in failed and the previous set was restored, 5 swap-in and rollback
   failed, 6 swap-in failed with no previous set). *)

(* the body of `if previous_exists { .. }`; Err = early return from the function *)
Definition move_aside : M (res unit) :=
  od <-- op_is_dir Out ;;
  if negb od then
    _ <-- op_remove_dir_all Stg ;; ret (Err 2)
  else
    r <-- op_rename Out Old ;;
    if r then ret (Ok tt)
    else _ <-- op_remove_dir_all Stg ;; ret (Err 3).

Definition swap_in (previous_exists : bool) : M (res unit) :=
  r <-- op_rename Stg Out ;;
  if r then
    if previous_exists then
      _ <-- op_remove_dir_all Old ;; ret (Ok tt)     (* a failed cleanup is only a warning *)
    else ret (Ok tt)
  else if previous_exists then
    r2 <-- op_rename Old Out ;;
    if r2 then _ <-- op_remove_dir_all Stg ;; ret (Err 4)
    else ret (Err 5)
  else ret (Err 6).

Definition commit_staging_dir_impl : M (res unit) :=
  sd <-- op_is_dir Stg ;;
  if negb sd then ret (Err 1)
  else
    previous_exists <-- op_exists Out ;;
    a <-- (if previous_exists then move_aside else ret (Ok tt)) ;;
    match a with
    | Err k => ret (Err k)
    | Ok _ => swap_in previous_exists
    end.

(* ---------------------------------------------------------------- generate_all_circuit_binaries
   What happens before the commit is an input: the configuration is rejected (nothing touched), the
   staging directory cannot be created, the generation closure fails / dies / succeeds. *)

Inductive gen_outcome := GInvalidConfig | GStagingFail | GFail | GCrash | GOk.

(* create_staging_dir: a fresh, empty sibling directory (the name is unused by construction) *)
Definition op_create_staging : M unit := fun w => Done tt (set_fs w (wr (w_fs w) Stg PartNew)).
(* config.json is written last: the stage is complete *)
Definition op_stage_complete : M unit := fun w => Done tt (set_fs w (wr (w_fs w) Stg New)).
Definition op_die {A} : M A := fun w => Crash w.

Definition generate_all (g : gen_outcome) : M (res unit) :=
  match g with
  | GInvalidConfig => ret (Err 10)
  | GStagingFail => ret (Err 11)
  | GFail => _ <-- op_create_staging ;; _ <-- op_remove_dir_all Stg ;; ret (Err 12)
  | GCrash => _ <-- op_create_staging ;; op_die
  | GOk => _ <-- op_create_staging ;; _ <-- op_stage_complete ;; commit_staging_dir_impl
  end.

(* ---------------------------------------------------------------- observations *)

Inductive verdict := VOk | VErr | VCrashed.

Record obs := mkObs {
  o_verdict : verdict;
  o_fs : fs;
  o_trace : list (loc * loc)    (* rename calls in program order *)
}.

Definition observe (r : outcome (res unit)) : obs :=
  match r with
  | Done (Ok _) w => mkObs VOk (w_fs w) (rev (w_trace w))
  | Done (Err _) w => mkObs VErr (w_fs w) (rev (w_trace w))
  | Crash w => mkObs VCrashed (w_fs w) (rev (w_trace w))
  end.

(* publish a staging path holding [stg0] over an output path holding [out0] *)
Definition run_commit (out0 stg0 : content) (rf : list rfault) (mf : list mfault) : obs :=
  observe (commit_staging_dir_impl (mkW (mkFs out0 stg0 Absent) rf mf [])).

(* the property's setting: a complete staged set *)
Definition run_publish (out0 : content) (rf : list rfault) (mf : list mfault) : obs :=
  run_commit out0 New rf mf.

Definition run_generate (out0 : content) (g : gen_outcome) (rf : list rfault) (mf : list mfault) : obs :=
  observe (generate_all g (mkW (mkFs out0 Absent Absent) rf mf [])).

(* number of operations of each kind a run performed *)
Definition renames_used (o : obs) : nat := length (o_trace o).

(* ---------------------------------------------------------------- canonical encodings / dispatch *)

Definition enc_content (c : content) : Z :=
  match c with Absent => 0 | Prev => 1 | New => 2 | File => 3 | PartPrev => 4 | PartNew => 5 end.
(* unknown codes decode to a value the harness never sends back ([PartPrev]/[PartNew] are never initial) *)
Definition dec_content (z : Z) : content :=
  if z =? 0 then Absent else if z =? 1 then Prev else if z =? 2 then New else if z =? 3 then File
  else if z =? 4 then PartPrev else PartNew.
Definition enc_loc (l : loc) : Z := match l with Out => 0 | Stg => 1 | Old => 2 end.
Definition enc_verdict (v : verdict) : Z := match v with VOk => 1 | VErr => 0 | VCrashed => 2 end.
Definition dec_rfault (z : Z) : rfault :=
  if z =? 1 then RFail else if z =? 2 then RCrashBefore else if z =? 3 then RCrashAfter else ROk.
Definition dec_mfault (z : Z) : mfault :=
  if z =? 1 then MFail else if z =? 2 then MFailPartial else if z =? 3 then MCrashBefore
  else if z =? 4 then MCrashPartial else if z =? 5 then MCrashAfter else MOk.
Definition dec_gen (z : Z) : gen_outcome :=
  if z =? 0 then GInvalidConfig else if z =? 1 then GStagingFail else if z =? 2 then GFail
  else if z =? 3 then GCrash else GOk.

(* [verdict; out; staging; old; 4*src+dst of every rename call] *)
Definition enc_obs (o : obs) : list Z :=
  [enc_verdict (o_verdict o); enc_content (f_out (o_fs o)); enc_content (f_stg (o_fs o));
   enc_content (f_old (o_fs o))]
  ++ map (fun sd => 4 * enc_loc (fst sd) + enc_loc (snd sd)) (o_trace o).

Definition seg (args : list (list Z)) (i : nat) : list Z := nth i args [].
Definition arg (args : list (list Z)) (i j : nat) : Z := nth j (seg args i) 0.

(* 2301: [out0 stg0] ; rename faults ; remove faults      -> commit_staging_dir_impl
   2302: [out0 gen]  ; rename faults ; remove faults      -> generate_all_circuit_binaries *)
Definition dispatch (fid : Z) (args : list (list Z)) : list Z :=
  if fid =? 2301 then
    enc_obs (run_commit (dec_content (arg args 0 0)) (dec_content (arg args 0 1))
                        (map dec_rfault (seg args 1)) (map dec_mfault (seg args 2)))
  else if fid =? 2302 then   (* the renames of the outer entry point are not observable: no trace *)
    firstn 4 (enc_obs (run_generate (dec_content (arg args 0 0)) (dec_gen (arg args 0 1))
                          (map dec_rfault (seg args 1)) (map dec_mfault (seg args 2))))
  else [-2].
