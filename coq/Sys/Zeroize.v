(* C33 - zeroization: executable model of the heap discipline of the secret-handling APIs
   (wormhole/circuit/src/{sensitive,nullifier,unspendable_account}.rs).  NO proofs here (Sys/ZeroizeProofs.v).

   What is modelled: every heap block the APIs allocate, as a trace of abstract events
   (alloc / write secret / write public / zero / free / realloc / "upstream pad buffer freed unscrubbed"),
   with Rust's Vec growth rule deciding when an `extend` reallocates.  The capacities and push sizes are the
   *generated* Rust constants, so a constant change that makes a buffer grow after the secret was written
   turns into an unsafe trace.
   What is NOT expressible here (see lib/props/c33.py): stack copies, compiler dead-store elimination,
   allocator reuse, plonky2's witness copies.  Those are only looked at by the allocator scan of
   harness/src/bin/zeroize.rs, which must observe exactly `observe (seq_events ...)`. *)
From V.Base Require Import Common.
From V.Generated Require Import Constants.
Local Open Scope Z_scope.

(* ------------------------------------------------------------------------------------------------ events *)
(* A block identifier plays the role of an address: one per buffer role.  It may be re-used after the block
   was freed (as an allocator re-uses addresses); allocating an identifier that is still live is ill-formed. *)
Inductive bid :=
| BSrc        (* the caller's 32-byte buffer handed to Secret::new (&mut [u8; 32]) *)
| BNulBytes   (* Nullifier::to_bytes result, Zeroizing<Vec<u8>> *)
| BNulFelts   (* Nullifier::to_field_elements result, SensitiveFelts *)
| BUaBytes    (* UnspendableAccount::to_bytes result *)
| BUaFelts    (* UnspendableAccount::to_field_elements result *)
| BPre        (* hash preimage buffer of from_preimage / from_secret, SensitiveFelts *)
| BPad        (* qp-plonky2 pad10_to_rate buffer inside hash_no_pad (upstream) *)
| BSalt       (* string_to_felts(SALT): Vec<F>, public *)
| BSqueeze    (* squeeze4: perm.squeeze()[..4].to_vec(), public (a hash) *)
| BErr        (* anyhow error message, public *)
| BSf.        (* a caller-built Vec<F> (spare capacity) wrapped directly with the public SensitiveFelts::new *)

Inductive ev :=
| Alloc (b : bid) (bytes : Z)
| WriteSecret (b : bid)
| WritePublic (b : bid)
| Zero (b : bid)                 (* zeroize: volatile scrub of the block's contents *)
| Free (b : bid)
| Realloc (b : bid) (new_bytes : Z)   (* Vec growth: contents copied, the old block is released as it is *)
| FreeUpstreamPad (b : bid).     (* hash_no_pad drops its pad10_to_rate copy without scrubbing (documented exemption) *)

(* ------------------------------------------------------------------------------------------------ Vec *)
Record vec := mkVec { v_blk : bid; v_elem : Z; v_cap : Z; v_len : Z }.

(* library/alloc/src/raw_vec: MIN_NON_ZERO_CAP and grow_amortized (validated against real Vec<u8>/Vec<u64>, fid 3303) *)
Definition min_non_zero_cap (elem : Z) : Z := if elem =? 1 then 8 else if elem <=? 1024 then 4 else 1.
Definition grow_cap (elem cap len n : Z) : Z := Z.max (min_non_zero_cap elem) (Z.max (2 * cap) (len + n)).

Definition vec_new (b : bid) (elem : Z) : vec * list ev := (mkVec b elem 0 0, []).
Definition vec_with_capacity (b : bid) (elem cap : Z) : vec * list ev :=
  (mkVec b elem cap 0, if 0 <? cap then [Alloc b (elem * cap)] else []).

Definition write_ev (b : bid) (secret : bool) : ev := if secret then WriteSecret b else WritePublic b.

(* extend by n elements (reserve(n), then the writes) *)
Definition vec_extend (v : vec) (n : Z) (secret : bool) : vec * list ev :=
  if n <=? 0 then (v, [])
  else if v_len v + n <=? v_cap v
  then (mkVec (v_blk v) (v_elem v) (v_cap v) (v_len v + n), [write_ev (v_blk v) secret])
  else let c := grow_cap (v_elem v) (v_cap v) (v_len v) n in
       (mkVec (v_blk v) (v_elem v) c (v_len v + n),
        [if v_cap v =? 0 then Alloc (v_blk v) (v_elem v * c) else Realloc (v_blk v) (v_elem v * c);
         write_ev (v_blk v) secret]).

Fixpoint vec_extend_all (v : vec) (pushes : list (Z * bool)) : vec * list ev :=
  match pushes with
  | [] => (v, [])
  | (n, s) :: r => let '(v1, e1) := vec_extend v n s in
                   let '(v2, e2) := vec_extend_all v1 r in (v2, e1 ++ e2)
  end.

(* the three ways a Vec goes away *)
Definition drop_plain (v : vec) : list ev := if 0 <? v_cap v then [Free (v_blk v)] else [].
Definition drop_zeroizing (v : vec) : list ev := if 0 <? v_cap v then [Zero (v_blk v); Free (v_blk v)] else [].
Definition drop_sensitive_felts (v : vec) : list ev := if 0 <? v_cap v then [Zero (v_blk v); Free (v_blk v)] else [].

(* ------------------------------------------------------------------------------------------------ heap semantics *)
Inductive bstatus := Dead | Clean | Tainted.    (* Tainted: secret written and not zeroed since *)
Record cell := mkCell { c_st : bstatus; c_size : Z; c_ever : bool }.   (* c_ever: held the secret at some time *)
Definition dead_cell : cell := mkCell Dead 0 false.

Record hstate := mkH { h_src : cell; h_nb : cell; h_nf : cell; h_ub : cell; h_uf : cell;
                       h_pre : cell; h_pad : cell; h_salt : cell; h_sq : cell; h_err : cell; h_sf : cell }.
Definition h_empty : hstate :=
  mkH dead_cell dead_cell dead_cell dead_cell dead_cell dead_cell dead_cell dead_cell dead_cell dead_cell dead_cell.

Definition get (h : hstate) (b : bid) : cell :=
  match b with
  | BSrc => h_src h | BNulBytes => h_nb h | BNulFelts => h_nf h | BUaBytes => h_ub h | BUaFelts => h_uf h
  | BPre => h_pre h | BPad => h_pad h | BSalt => h_salt h | BSqueeze => h_sq h | BErr => h_err h | BSf => h_sf h
  end.
Definition upd (h : hstate) (b : bid) (c : cell) : hstate :=
  match h with
  | mkH a1 a2 a3 a4 a5 a6 a7 a8 a9 a10 a11 =>
    match b with
    | BSrc => mkH c a2 a3 a4 a5 a6 a7 a8 a9 a10 a11
    | BNulBytes => mkH a1 c a3 a4 a5 a6 a7 a8 a9 a10 a11
    | BNulFelts => mkH a1 a2 c a4 a5 a6 a7 a8 a9 a10 a11
    | BUaBytes => mkH a1 a2 a3 c a5 a6 a7 a8 a9 a10 a11
    | BUaFelts => mkH a1 a2 a3 a4 c a6 a7 a8 a9 a10 a11
    | BPre => mkH a1 a2 a3 a4 a5 c a7 a8 a9 a10 a11
    | BPad => mkH a1 a2 a3 a4 a5 a6 c a8 a9 a10 a11
    | BSalt => mkH a1 a2 a3 a4 a5 a6 a7 c a9 a10 a11
    | BSqueeze => mkH a1 a2 a3 a4 a5 a6 a7 a8 c a10 a11
    | BErr => mkH a1 a2 a3 a4 a5 a6 a7 a8 a9 c a11
    | BSf => mkH a1 a2 a3 a4 a5 a6 a7 a8 a9 a10 c
    end
  end.

(* observation kinds (second component of each [size; kind] pair) *)
Definition K_SCRUBBED : Z := 1.        (* a block that held the secret is freed after having been zeroed *)
Definition K_UPSTREAM_PAD : Z := 2.    (* the upstream pad buffer, freed still holding the secret (exempt) *)
Definition K_FREED_TAINTED : Z := 3.   (* freed still holding the secret: LEAK *)
Definition K_REALLOC_TAINTED : Z := 4. (* reallocated (old block released) while holding the secret: LEAK *)
Definition K_ILL_FORMED : Z := 9.      (* use of a dead block / allocation of a live one *)

(* one event: new heap, "this event is acceptable", observation = list of (size, kind) *)
Definition step_ev (h : hstate) (e : ev) : hstate * bool * list (Z * Z) :=
  match e with
  | Alloc b n =>
      match c_st (get h b) with
      | Dead => (upd h b (mkCell Clean n false), true, [])
      | _ => (h, false, [(n, K_ILL_FORMED)])
      end
  | WriteSecret b =>
      let c := get h b in
      match c_st c with
      | Dead => (h, false, [(0, K_ILL_FORMED)])
      | _ => (upd h b (mkCell Tainted (c_size c) true), true, [])
      end
  | WritePublic b =>
      match c_st (get h b) with
      | Dead => (h, false, [(0, K_ILL_FORMED)])
      | _ => (h, true, [])
      end
  | Zero b =>
      let c := get h b in
      match c_st c with
      | Dead => (h, false, [(0, K_ILL_FORMED)])
      | _ => (upd h b (mkCell Clean (c_size c) (c_ever c)), true, [])
      end
  | Free b =>
      let c := get h b in
      match c_st c with
      | Dead => (h, false, [(0, K_ILL_FORMED)])
      | Clean => (upd h b dead_cell, true, if c_ever c then [(c_size c, K_SCRUBBED)] else [])
      | Tainted => (upd h b dead_cell, false, [(c_size c, K_FREED_TAINTED)])
      end
  | Realloc b n =>
      let c := get h b in
      match c_st c with
      | Dead => (h, false, [(0, K_ILL_FORMED)])
      | Clean => (upd h b (mkCell Clean n (c_ever c)), true, [])
      | Tainted => (upd h b (mkCell Tainted n true), false, [(c_size c, K_REALLOC_TAINTED)])
      end
  | FreeUpstreamPad b =>
      let c := get h b in
      match c_st c with
      | Dead => (h, false, [(0, K_ILL_FORMED)])
      | Clean => (upd h b dead_cell, true, if c_ever c then [(c_size c, K_SCRUBBED)] else [])
      | Tainted => (upd h b dead_cell, true, [(c_size c, K_UPSTREAM_PAD)])
      end
  end.

Fixpoint run_trace (h : hstate) (t : list ev) : hstate * bool * list (Z * Z) :=
  match t with
  | [] => (h, true, [])
  | e :: r => let '(h1, ok1, o1) := step_ev h e in
              let '(h2, ok2, o2) := run_trace h1 r in
              (h2, ok1 && ok2, o1 ++ o2)
  end.

Definition trace_safe (t : list ev) : bool := snd (fst (run_trace h_empty t)).
Definition observe (t : list ev) : list (Z * Z) := snd (run_trace h_empty t).
Definition flatten_obs (o : list (Z * Z)) : list Z := flat_map (fun sk => [fst sk; snd sk]) o.

(* ------------------------------------------------------------------------------------------------ the APIs *)
Definition FELT_BYTES : Z := 8.        (* size_of::<GoldilocksField>() *)
Definition U64_BYTES : Z := 8.         (* size_of::<u64>() *)

(* qp-plonky2-core hashing.rs: pad10_to_rate + hash_n_to_hash_no_pad_p2 *)
Definition pad_len (n : Z) : Z :=
  ((n + 1 + POSEIDON2_SPONGE_RATE - 1) / POSEIDON2_SPONGE_RATE) * POSEIDON2_SPONGE_RATE.
Definition hash_no_pad (input_len : Z) (input_secret : bool) : list ev :=
  [ Alloc BPad (FELT_BYTES * pad_len input_len);       (* vec![F::ZERO; padded_len] *)
    write_ev BPad input_secret;                        (* msg[..len].copy_from_slice(inputs) *)
    WritePublic BPad;                                  (* msg[len] = F::ONE *)
    Alloc BSqueeze (FELT_BYTES * POSEIDON2_OUTPUT);    (* squeeze4: ...to_vec() *)
    WritePublic BSqueeze;
    Free BSqueeze;                                     (* HashOut::from_vec consumes it *)
    FreeUpstreamPad BPad ].                            (* msg dropped, never scrubbed *)

(* sensitive.rs Secret::new(bytes: &mut [u8; 32]): the caller's buffer is zeroized on BOTH paths *)
Definition secret_new_events (valid : bool) : list ev :=
  (* let validated = BytesDigest::try_from( *bytes);  let result = validated.map(..);   -- stack only *)
  if valid then [Zero BSrc] (* bytes.zeroize(); Ok *) else [Zero BSrc] (* bytes.zeroize(); Err *).
(* the caller around it (the harness keeps the buffer in a Box so that the allocator can see it) *)
Definition caller_buffer_alloc : list ev := [Alloc BSrc DIGEST_BYTES_LEN; WriteSecret BSrc].
Definition caller_buffer_free : list ev := [Free BSrc].

(* nullifier.rs Nullifier::from_preimage *)
Definition nullifier_from_preimage_cap (capacity : Z) : list ev :=
  let '(salt, e0) := vec_with_capacity BSalt FELT_BYTES (zlen NULLIFIER_SALT_FELTS) in   (* string_to_felts(NULLIFIER_SALT) *)
  let e0' := [WritePublic BSalt] in
  let '(pre, e1) := vec_with_capacity BPre FELT_BYTES capacity in   (* capacity 0 behaves as Vec::new(): no block yet *)
  let '(pre, e2) := vec_extend pre (v_cap salt) false in       (* preimage.extend(salt) *)
  let e2' := drop_plain salt in                                 (*   ... which consumes the salt Vec *)
  let '(pre, e3) := vec_extend pre POSEIDON2_OUTPUT true in     (* preimage.extend(secret_felts): Digest = [F; POSEIDON2_OUTPUT] *)
  let '(pre, e4) := vec_extend pre FELTS_PER_U64 false in       (* preimage.extend(transfer_count_felts): [F; FELTS_PER_U64] *)
  (* SensitiveFelts::new(preimage) *)
  let e5 := hash_no_pad (v_len pre) true in                     (* hash_no_pad(&preimage) *)
  let e6 := hash_no_pad POSEIDON2_OUTPUT false in               (* hash_no_pad(&inner_hash) *)
  let e7 := drop_sensitive_felts pre in                         (* end of scope *)
  e0 ++ e0' ++ e1 ++ e2 ++ e2' ++ e3 ++ e4 ++ e5 ++ e6 ++ e7.

(* the capacity the code reserves: Vec::with_capacity(SALT_NUM_TARGETS + SECRET_NUM_TARGETS + TRANSFER_COUNT_NUM_TARGETS) *)
Definition nullifier_preimage_capacity : Z :=
  NULLIFIER_SALT_NUM_TARGETS + NULLIFIER_SECRET_NUM_TARGETS + NULLIFIER_TRANSFER_COUNT_NUM_TARGETS.
Definition nullifier_from_preimage : list ev := nullifier_from_preimage_cap nullifier_preimage_capacity.

(* Nullifier::to_bytes -> Zeroizing<Vec<u8>> *)
Definition nullifier_to_bytes : vec * list ev :=
  let '(v, e0) := vec_with_capacity BNulBytes 1 (DIGEST_BYTES_LEN + NULLIFIER_SECRET_BYTES_LEN + U64_BYTES) in
  let '(v, e1) := vec_extend v DIGEST_BYTES_LEN false in        (* hash *)
  let '(v, e2) := vec_extend v DIGEST_BYTES_LEN true in         (* secret: BytesDigest = [u8; DIGEST_BYTES_LEN] *)
  let '(v, e3) := vec_extend v U64_BYTES false in               (* transfer_count.to_le_bytes() *)
  (v, e0 ++ e1 ++ e2 ++ e3).

(* Nullifier::to_field_elements -> SensitiveFelts *)
Definition nullifier_to_felts : vec * list ev :=
  let '(v, e0) := vec_with_capacity BNulFelts FELT_BYTES NULLIFIER_SIZE_FELTS in
  let '(v, e1) := vec_extend v POSEIDON2_OUTPUT false in        (* hash: Digest *)
  let '(v, e2) := vec_extend v POSEIDON2_OUTPUT true in         (* secret.expose_felts(): Digest *)
  let '(v, e3) := vec_extend v NULLIFIER_TRANSFER_COUNT_NUM_TARGETS false in
  (v, e0 ++ e1 ++ e2 ++ e3).

(* unspendable_account.rs UnspendableAccount::from_secret *)
Definition unspendable_from_secret : list ev :=
  let '(pre, e0) := vec_with_capacity BPre FELT_BYTES UNSPENDABLE_PREIMAGE_NUM_TARGETS in
  let '(salt, e1) := vec_with_capacity BSalt FELT_BYTES (zlen UNSPENDABLE_SALT_FELTS) in  (* string_to_felts(UNSPENDABLE_SALT) *)
  let e1' := [WritePublic BSalt] in
  let '(pre, e2) := vec_extend pre (v_cap salt) false in
  let e2' := drop_plain salt in
  let '(pre, e3) := vec_extend pre POSEIDON2_OUTPUT true in     (* preimage.extend(&secret_felts) *)
  let e5 := hash_no_pad (v_len pre) true in
  let e6 := hash_no_pad POSEIDON2_OUTPUT false in
  let e7 := drop_sensitive_felts pre in
  e0 ++ e1 ++ e1' ++ e2 ++ e2' ++ e3 ++ e5 ++ e6 ++ e7.

Definition unspendable_to_bytes : vec * list ev :=
  let '(v, e0) := vec_with_capacity BUaBytes 1 (2 * DIGEST_BYTES_LEN) in
  let '(v, e1) := vec_extend v DIGEST_BYTES_LEN false in        (* account_id *)
  let '(v, e2) := vec_extend v DIGEST_BYTES_LEN true in         (* secret *)
  (v, e0 ++ e1 ++ e2).

Definition unspendable_to_felts : vec * list ev :=
  let '(v, e0) := vec_with_capacity BUaFelts FELT_BYTES (UNSPENDABLE_ACCOUNT_ID_NUM_TARGETS + UNSPENDABLE_SECRET_NUM_TARGETS) in
  let '(v, e1) := vec_extend v POSEIDON2_OUTPUT false in
  let '(v, e2) := vec_extend v POSEIDON2_OUTPUT true in
  (v, e0 ++ e1 ++ e2).

(* a caller of the PUBLIC constructor SensitiveFelts::new: it reserves a round scratch capacity up front (as the
   type's documentation asks: full capacity reserved before secret material is written), writes a nullifier-shaped
   felt encoding (hash, secret, transfer count) and wraps it.  SensitiveFelts::new takes the Vec over AS IT IS:
   no copy, no shrink - a wrapper that re-fits the buffer would release the original block unscrubbed. *)
Definition SF_SPARE_CAP : Z := 16.
Definition caller_spare_felts : vec * list ev :=
  let '(v, e0) := vec_with_capacity BSf FELT_BYTES SF_SPARE_CAP in
  let '(v, e1) := vec_extend v POSEIDON2_OUTPUT false in
  let '(v, e2) := vec_extend v POSEIDON2_OUTPUT true in
  let '(v, e3) := vec_extend v NULLIFIER_TRANSFER_COUNT_NUM_TARGETS false in
  (v, e0 ++ e1 ++ e2 ++ e3).
Definition sensitive_felts_new (v : vec) : vec * list ev := (v, []).     (* Self(elements) *)

(* an Err(anyhow!(..)) result: a heap message without secret material, dropped by the caller *)
Definition anyhow_error : list ev := [Alloc BErr 64; WritePublic BErr; Free BErr].

(* ------------------------------------------------------------------------------------------------ call sequences *)
(* The values a caller holds between calls.  Secret / Nullifier / UnspendableAccount are stack values
   ([u8;32] + felts): holding or dropping them produces no heap event. *)
Record mstate := mkM { m_sec : bool; m_nul : bool; m_ua : bool;
                       m_nb : bool;    (* a live Nullifier::to_bytes buffer *)
                       m_nf : bool;    (* a live Nullifier::to_field_elements buffer *)
                       m_ub : bool; m_uf : bool;
                       m_sf : bool }.  (* a live caller-built SensitiveFelts with spare capacity *)
Definition m_init : mstate := mkM false false false false false false false false.

Inductive op :=
| SecretNewValid | SecretNewInvalid | SecretFromBytesDigest | SecretFromDigest | SecretTryFrom | SecretExpose | SecretDrop
| NulNew | NulFromPreimage | NulFromInputs
| NulToBytes | NulFromBytes | NulDropBytes | NulToFelts | NulFromFelts | NulDropFelts | NulDrop
| NulFromBytesBadLen | NulFromBytesBadHash | NulFromFeltsBadLen | NulFromFeltsBadCount
| UaNew | UaFromSecret | UaFromInputs
| UaToBytes | UaFromBytes | UaDropBytes | UaToFelts | UaFromFelts | UaDropFelts | UaDrop
| UaFromBytesBadLen | UaFromBytesBadId | UaFromFeltsBadLen
| SfNewSpare | SfRead | SfDrop
| Nop.

Definition all_ops : list op :=
  [SecretNewValid; SecretNewInvalid; SecretFromBytesDigest; SecretFromDigest; SecretTryFrom; SecretExpose; SecretDrop;
   NulNew; NulFromPreimage; NulFromInputs;
   NulToBytes; NulFromBytes; NulDropBytes; NulToFelts; NulFromFelts; NulDropFelts; NulDrop;
   NulFromBytesBadLen; NulFromBytesBadHash; NulFromFeltsBadLen; NulFromFeltsBadCount;
   UaNew; UaFromSecret; UaFromInputs;
   UaToBytes; UaFromBytes; UaDropBytes; UaToFelts; UaFromFelts; UaDropFelts; UaDrop;
   UaFromBytesBadLen; UaFromBytesBadId; UaFromFeltsBadLen;
   SfNewSpare; SfRead; SfDrop].

(* wire code = position in all_ops; anything else is a no-op *)
Definition op_of_Z (c : Z) : op := if (0 <=? c) && (c <? zlen all_ops) then nth (Z.to_nat c) all_ops Nop else Nop.

Definition set_sec (m : mstate) (b : bool) := mkM b (m_nul m) (m_ua m) (m_nb m) (m_nf m) (m_ub m) (m_uf m) (m_sf m).
Definition set_nul (m : mstate) (b : bool) := mkM (m_sec m) b (m_ua m) (m_nb m) (m_nf m) (m_ub m) (m_uf m) (m_sf m).
Definition set_ua (m : mstate) (b : bool) := mkM (m_sec m) (m_nul m) b (m_nb m) (m_nf m) (m_ub m) (m_uf m) (m_sf m).
Definition set_nb (m : mstate) (b : bool) := mkM (m_sec m) (m_nul m) (m_ua m) b (m_nf m) (m_ub m) (m_uf m) (m_sf m).
Definition set_nf (m : mstate) (b : bool) := mkM (m_sec m) (m_nul m) (m_ua m) (m_nb m) b (m_ub m) (m_uf m) (m_sf m).
Definition set_ub (m : mstate) (b : bool) := mkM (m_sec m) (m_nul m) (m_ua m) (m_nb m) (m_nf m) b (m_uf m) (m_sf m).
Definition set_uf (m : mstate) (b : bool) := mkM (m_sec m) (m_nul m) (m_ua m) (m_nb m) (m_nf m) (m_ub m) b (m_sf m).
Definition set_sf (m : mstate) (b : bool) := mkM (m_sec m) (m_nul m) (m_ua m) (m_nb m) (m_nf m) (m_ub m) (m_uf m) b.

Definition when (b : bool) (e : list ev) : list ev := if b then e else [].

(* one call: the heap events it produces, and what the caller holds afterwards *)
Definition op_step (m : mstate) (o : op) : mstate * list ev :=
  match o with
  | SecretNewValid => (set_sec m true, caller_buffer_alloc ++ secret_new_events true ++ caller_buffer_free)
  | SecretNewInvalid => (m, caller_buffer_alloc ++ secret_new_events false ++ caller_buffer_free)
  | SecretFromBytesDigest | SecretFromDigest | SecretTryFrom => (set_sec m true, [])
  | SecretExpose => (m, [])                       (* expose_digest / expose_felts: Copy values on the stack *)
  | SecretDrop => (set_sec m false, [])           (* Drop for Secret: zeroize of the inline array *)
  | NulNew | NulFromInputs => (set_nul m true, [])
  | NulFromPreimage => (set_nul m true, nullifier_from_preimage)
  | NulToBytes =>
      if m_nul m
      then (set_nb m true, when (m_nb m) (drop_zeroizing (fst nullifier_to_bytes)) ++ snd nullifier_to_bytes)
      else (m, [])
  | NulFromBytes => if m_nb m then (set_nul m true, []) else (m, [])        (* reads the caller's slice only *)
  | NulDropBytes => (set_nb m false, when (m_nb m) (drop_zeroizing (fst nullifier_to_bytes)))
  | NulToFelts =>
      if m_nul m
      then (set_nf m true, when (m_nf m) (drop_sensitive_felts (fst nullifier_to_felts)) ++ snd nullifier_to_felts)
      else (m, [])
  | NulFromFelts => if m_nf m then (set_nul m true, []) else (m, [])
  | NulDropFelts => (set_nf m false, when (m_nf m) (drop_sensitive_felts (fst nullifier_to_felts)))
  | NulDrop => (set_nul m false, [])
  | NulFromBytesBadLen | NulFromBytesBadHash => (m, when (m_nb m) anyhow_error)
  | NulFromFeltsBadLen | NulFromFeltsBadCount => (m, when (m_nf m) anyhow_error)
  | UaNew | UaFromInputs => (set_ua m true, [])
  | UaFromSecret => (set_ua m true, unspendable_from_secret)
  | UaToBytes =>
      if m_ua m
      then (set_ub m true, when (m_ub m) (drop_zeroizing (fst unspendable_to_bytes)) ++ snd unspendable_to_bytes)
      else (m, [])
  | UaFromBytes => if m_ub m then (set_ua m true, []) else (m, [])
  | UaDropBytes => (set_ub m false, when (m_ub m) (drop_zeroizing (fst unspendable_to_bytes)))
  | UaToFelts =>
      if m_ua m
      then (set_uf m true, when (m_uf m) (drop_sensitive_felts (fst unspendable_to_felts)) ++ snd unspendable_to_felts)
      else (m, [])
  | UaFromFelts => if m_uf m then (set_ua m true, []) else (m, [])
  | UaDropFelts => (set_uf m false, when (m_uf m) (drop_sensitive_felts (fst unspendable_to_felts)))
  | UaDrop => (set_ua m false, [])
  | UaFromBytesBadLen | UaFromBytesBadId => (m, when (m_ub m) anyhow_error)
  | UaFromFeltsBadLen => (m, when (m_uf m) anyhow_error)
  | SfNewSpare =>
      (set_sf m true, when (m_sf m) (drop_sensitive_felts (fst caller_spare_felts)) ++ snd caller_spare_felts ++
                      snd (sensitive_felts_new (fst caller_spare_felts)))
  | SfRead => if m_sf m then (set_nul m true, []) else (m, [])   (* Nullifier::from_field_elements(sf.as_slice()) *)
  | SfDrop => (set_sf m false, when (m_sf m) (drop_sensitive_felts (fst caller_spare_felts)))
  | Nop => (m, [])
  end.

(* end of the caller's scope: everything still held is dropped (buffers first, in this order) *)
Definition final_events (m : mstate) : list ev :=
  when (m_nb m) (drop_zeroizing (fst nullifier_to_bytes)) ++
  when (m_nf m) (drop_sensitive_felts (fst nullifier_to_felts)) ++
  when (m_ub m) (drop_zeroizing (fst unspendable_to_bytes)) ++
  when (m_uf m) (drop_sensitive_felts (fst unspendable_to_felts)) ++
  when (m_sf m) (drop_sensitive_felts (fst caller_spare_felts)).

Fixpoint seq_events (m : mstate) (ops : list op) : list ev :=
  match ops with
  | [] => final_events m
  | o :: r => let '(m1, e) := op_step m o in e ++ seq_events m1 r
  end.

Definition run_seq (codes : list Z) : list ev := seq_events m_init (map op_of_Z codes).

(* ------------------------------------------------------------------------------------------------ Secret::new on values *)
Definition le_limb (bs : list Z) : Z := fold_right (fun b acc => b + 256 * acc) 0 bs.

(* qp-wormhole-inputs: TryFrom<[u8; 32]> for BytesDigest - every 8-byte LE chunk below the field order *)
Definition bytes_digest_try_from (bytes : list Z) : res (list Z) :=
  if forallb (fun c => le_limb c <? INPUTS_GOLDILOCKS_ORDER) (chunks 8 bytes) then Ok bytes else Err 1.

(* returns (result, contents of the caller's buffer afterwards) *)
Definition secret_new (bytes : list Z) : res (list Z) * list Z :=
  let validated := bytes_digest_try_from bytes in      (* let validated = BytesDigest::try_from( *bytes); *)
  let result := validated in                           (* let result = validated.map(|digest| Self( *digest)); *)
  let bytes' := map (fun _ => 0) bytes in              (* bytes.zeroize(); *)
  (result, bytes').

(* ------------------------------------------------------------------------------------------------ dispatch *)
Definition is_byte (x : Z) : bool := (0 <=? x) && (x <? 256).

(* fid 3303: capacities of a real Vec after each extend *)
Fixpoint growth_caps (v : vec) (ns : list Z) : list Z :=
  match ns with
  | [] => []
  | n :: r => let v1 := fst (vec_extend v n false) in v_cap v1 :: growth_caps v1 r
  end.

Definition dispatch_zeroize (fid : Z) (args : list (list Z)) : list Z :=
  if fid =? 3301 then
    match args with
    | codes :: _ => flatten_obs (observe (run_seq codes))
    | _ => [-2]
    end
  else if fid =? 3302 then
    match args with
    | bytes :: _ =>
        if (zlen bytes =? DIGEST_BYTES_LEN) && forallb is_byte bytes
        then let '(r, after) := secret_new bytes in (if is_ok r then 1 else 0) :: after
        else [-1]
    | _ => [-2]
    end
  else if fid =? 3303 then
    match args with
    | [elem; cap] :: ns :: _ => growth_caps (fst (vec_with_capacity BPre elem cap)) ns
    | [elem; cap] :: [] => []
    | _ => [-2]
    end
  else [-2].
